/* Correspondence harness for the IAuth line protocol (engine Proto, C01-C11, C17).
 *
 * Links the repository's modules/iauth_core.c, iauth_misc.c, iauth_xquery.c,
 * iauth_class.c (each compiled with -Dmodule_constructor=<mod>_ctor
 * -Dmodule_destructor=<mod>_dtor) and all of src/ except main.c and module.c.
 * This file stands in for main.c/module.c: it owns the event base, loads the
 * "modules" by calling their constructors in dependency order, and replaces fd 0
 * and fd 1 by pipes so that libevent itself drives iauth_read() and everything the
 * daemon writes with fputs(stdout) is captured byte for byte.
 *
 * Ops (one record per op; DESIGN.md Appendix A):
 *   modules core|xquery|class      which module set to load at `start`
 *   conf <hex body> [...]          configuration file body (extra fields are for the model)
 *   verbosity <n>                  log verbosity used after start (default 0, like main())
 *   start                          conf_read, constructors, one loop turn  -> out <hex>
 *   in <hex chunk> [...]           write chunk to the daemon's stdin, run the loop -> out <hex>
 *   timeout <id>                   fire the request's pending one-shot timer  -> out <hex> fired|no-timer
 *   reload <hex body> [...]        rewrite the file and conf_read (SIGUSR1 path) -> rc <n> out <hex>
 *   eof                            close stdin, run the loop, destructors -> exit clean=<b> timers=<n> out <hex>
 *   logfile <name>                 content of a log file written by the daemon -> log <hex>
 */
#include "modules/iauth.h"
#include "h_common.h"
#ifndef F_SETPIPE_SZ
#define F_SETPIPE_SZ 1031
#endif
#include <fcntl.h>
#include <sys/ioctl.h>
#include <sys/stat.h>

struct event_base *ev_base;
struct evdns_base *ev_dns;
int clean_exit;

void iauth_ctor(const char name[]);      void iauth_dtor(void);
void iauth_xquery_ctor(const char name[]); void iauth_xquery_dtor(void);
void iauth_class_ctor(const char name[]);  void iauth_class_dtor(void);

static int loaded_core, loaded_xquery, loaded_class;

/* --- replacement for src/module.c ------------------------------------------------ */
static void load_by_name(const char *name)
{
    if (!strcmp(name, "iauth")) { if (!loaded_core) { loaded_core = 1; iauth_ctor("iauth"); } }
    else if (!strcmp(name, "iauth_xquery")) { if (!loaded_xquery) { loaded_xquery = 1; iauth_xquery_ctor("iauth_xquery"); } }
    else if (!strcmp(name, "iauth_class")) { if (!loaded_class) { loaded_class = 1; iauth_class_ctor("iauth_class"); } }
}

void module_depends(const char *name, ...)
{
    va_list args;
    va_start(args, name);
    for (; name; name = va_arg(args, const char *))
        load_by_name(name);
    va_end(args);
}
void module_close_all(void) {}

/* --- timer accounting (linked with -Wl,--wrap=event_new,--wrap=event_free) -------- */
struct event *__real_event_new(struct event_base *, evutil_socket_t, short, event_callback_fn, void *);
void __real_event_free(struct event *);
#define MAX_TIMERS 65536
static struct { struct event *ev; void *req; int client; } timers[MAX_TIMERS]; /* in creation order */
static int n_timers;

struct event *__wrap_event_new(struct event_base *b, evutil_socket_t fd, short ev, event_callback_fn cb, void *arg)
{
    struct event *e = __real_event_new(b, fd, ev, cb, arg);
    if (e && fd == -1 && ev == 0 && n_timers < MAX_TIMERS) {
        /* evtimer_new(ev_base, iauth_timeout, req): req->client is already set */
        timers[n_timers].ev = e;
        timers[n_timers].req = arg;
        timers[n_timers].client = arg ? ((struct iauth_request *)arg)->client : 0;
        n_timers++;
    }
    return e;
}
void __wrap_event_free(struct event *e)
{
    int i;
    for (i = 0; i < n_timers; i++)
        if (timers[i].ev == e) {
            memmove(&timers[i], &timers[i + 1], (size_t)(n_timers - i - 1) * sizeof(timers[0]));
            n_timers--;
            break;
        }
    __real_event_free(e);
}

/* --- plumbing ------------------------------------------------------------------- */
static FILE *rec;          /* the real stdout of the harness */
static int in_w = -1;      /* write end of the daemon's stdin */
static int out_r = -1;     /* read end of the daemon's stdout */
static char conf_path[256];

static void write_file(const char *path, const char *data, size_t len)
{
    FILE *f = fopen(path, "w");
    if (!f) { perror(path); _exit(3); }
    if (len) fwrite(data, 1, len, f);
    fclose(f);
}

static void emit_out(void)
{
    static char buf[1 << 16];
    int first = 1;
    fflush(stdout);
    fprintf(rec, "out ");
    for (;;) {
        ssize_t r = read(out_r, buf, sizeof(buf));
        if (r <= 0) break;
        puthex(rec, buf, (size_t)r), first = 0;
    }
    if (first) fputc('=', rec);
}

static void turn_loop_until_drained(void)
{
    int avail = 0, guard = 0;
    do {
        event_base_loop(ev_base, EVLOOP_NONBLOCK);
        avail = 0;
        ioctl(0, FIONREAD, &avail);
    } while (avail > 0 && ++guard < 100000 && !event_base_got_break(ev_base));
    /* lines already in the evbuffer are all consumed by iauth_read's inner while loop */
}

static void run_case(char **lines, int n)
{
    int li, mods = 0, verbosity = 0, started = 0;
    char *fv[8];
    char *conf_body = NULL;
    size_t conf_len = 0;
    char dir[128];
    int pin[2], pout[2];

    rec = fdopen(dup(1), "w");
    setvbuf(rec, NULL, _IOLBF, 0);
    snprintf(dir, sizeof(dir), "case_%d", (int)getpid());
    mkdir(dir, 0700);
    if (chdir(dir) != 0) { perror("chdir"); _exit(3); }
    snprintf(conf_path, sizeof(conf_path), "iauthd.conf");
    if (pipe(pin) || pipe(pout)) { perror("pipe"); _exit(3); }
    fcntl(pout[1], F_SETPIPE_SZ, 1 << 20);
    fcntl(pin[1], F_SETPIPE_SZ, 1 << 20);
    dup2(pin[0], 0); close(pin[0]); in_w = pin[1];
    dup2(pout[1], 1); close(pout[1]); out_r = pout[0];
    fcntl(out_r, F_SETFL, O_NONBLOCK);
    fcntl(0, F_SETFL, O_NONBLOCK);

    for (li = 0; li < n; li++) {
        char *line = lines[li];
        int nf;
        if (!strncmp(line, "case ", 5)) { fprintf(rec, "%s\n", line); continue; }
        nf = split_fields(line, fv, 8);
        if (nf == 0) { fprintf(rec, "bad-op\n"); continue; }
        if (!strcmp(fv[0], "modules") && nf >= 2) {
            mods = !strcmp(fv[1], "class") ? 2 : !strcmp(fv[1], "xquery") ? 1 : 0;
            fprintf(rec, "ok\n");
        } else if (!strcmp(fv[0], "conf") && nf >= 2) {
            conf_body = unhex(fv[1], &conf_len);
            fprintf(rec, "ok\n");
        } else if (!strcmp(fv[0], "verbosity") && nf >= 2) {
            verbosity = atoi(fv[1]);
            fprintf(rec, "ok\n");
        } else if (!strcmp(fv[0], "start")) {
            struct event_config *cfg = event_config_new();
            int rc;
            ev_base = event_base_new_with_config(cfg);
            event_config_free(cfg);
            ev_dns = NULL;
            ctype_init();
            log_core = log_type_register("core", NULL);
            conf_register_object(NULL, "core");
            write_file(conf_path, conf_body ? conf_body : "", conf_len);
            rc = conf_read(conf_path);
            load_by_name("iauth");
            if (mods >= 1) load_by_name("iauth_xquery");
            if (mods >= 2) load_by_name("iauth_class");
            log_set_verbosity(verbosity);
            event_base_loop(ev_base, EVLOOP_NONBLOCK); /* iauth_startup fires (zero timeout) */
            event_base_loop(ev_base, EVLOOP_NONBLOCK);
            started = 1;
            fprintf(rec, "rc %d ", rc);
            emit_out();
            fprintf(rec, "\n");
        } else if (!started) {
            fprintf(rec, "bad-op\n");
        } else if (!strcmp(fv[0], "in") && nf >= 2) {
            size_t len, off = 0;
            char *data = unhex(fv[1], &len);
            fprintf(rec, "");
            /* one write per op unless the chunk exceeds what the pipe takes at once */
            while (off < len) {
                size_t want = len - off > 32768 ? 32768 : len - off;
                ssize_t w = write(in_w, data + off, want);
                if (w <= 0) break;
                off += (size_t)w;
                turn_loop_until_drained();
            }
            if (len == 0) turn_loop_until_drained();
            free(data);
            emit_out();
            fprintf(rec, "\n");
        } else if (!strcmp(fv[0], "timeout") && nf >= 2) {
            struct iauth_request *req = iauth_find_request(atoi(fv[1]));
            int fired = 0;
            if (req && req->timeout && event_pending(req->timeout, EV_TIMEOUT, NULL)) {
                event_active(req->timeout, EV_TIMEOUT, 0);
                event_base_loop(ev_base, EVLOOP_NONBLOCK);
                fired = 1;
            }
            emit_out();
            fprintf(rec, " %s\n", fired ? "fired" : "no-timer");
        } else if (!strcmp(fv[0], "elapse")) {
            /* real time passes beyond the configured timeout: every pending timer fires, oldest
             * first; a timer whose request is no longer the live one for its id is an orphan */
            struct event *snap[256];
            void *sreq[256];
            int sclient[256], ns = 0, k;
            char fired[4096];
            size_t fl = 0;
            for (k = 0; k < n_timers && ns < 256; k++)
                if (event_pending(timers[k].ev, EV_TIMEOUT, NULL)) {
                    snap[ns] = timers[k].ev; sreq[ns] = timers[k].req; sclient[ns] = timers[k].client; ns++;
                }
            fired[0] = '\0';
            for (k = 0; k < ns; k++) {
                int j, still = 0;
                for (j = 0; j < n_timers; j++) if (timers[j].ev == snap[k]) still = 1;
                if (!still || !event_pending(snap[k], EV_TIMEOUT, NULL)) continue;
                if ((void *)iauth_find_request(sclient[k]) == sreq[k])
                    fl += (size_t)snprintf(fired + fl, sizeof(fired) - fl, "%s%d", fl ? "," : "", sclient[k]);
                else
                    fl += (size_t)snprintf(fired + fl, sizeof(fired) - fl, "%sorphan", fl ? "," : "");
                event_active(snap[k], EV_TIMEOUT, 0);
                event_base_loop(ev_base, EVLOOP_NONBLOCK);
                if (fl > sizeof(fired) - 32) break;
            }
            emit_out();
            fprintf(rec, " fired=%s\n", fired);
        } else if (!strcmp(fv[0], "reload") && nf >= 2) {
            size_t len;
            char *data = unhex(fv[1], &len);
            int rc;
            write_file(conf_path, data ? data : "", len);
            rc = conf_read(conf_path);
            free(data);
            fprintf(rec, "rc %d ", rc);
            emit_out();
            fprintf(rec, "\n");
        } else if (!strcmp(fv[0], "eof")) {
            close(in_w); in_w = -1;
            event_base_loop(ev_base, EVLOOP_NONBLOCK);
            event_base_loop(ev_base, EVLOOP_NONBLOCK);
            if (loaded_class) iauth_class_dtor();
            if (loaded_xquery) iauth_xquery_dtor();
            iauth_dtor();
            fprintf(rec, "exit clean=%d timers=%d ", clean_exit, n_timers);
            emit_out();
            fprintf(rec, "\n");
            started = 0;
        } else if (!strcmp(fv[0], "logfile") && nf >= 2) {
            FILE *f = fopen(fv[1], "r");
            fprintf(rec, "log ");
            if (!f) fprintf(rec, "-");
            else {
                static char lb[1 << 16];
                size_t r, tot = 0;
                while ((r = fread(lb, 1, sizeof(lb), f)) > 0) { puthex(rec, lb, r); tot += r; }
                if (!tot) fputc('=', rec);
                fclose(f);
            }
            fprintf(rec, "\n");
        } else {
            fprintf(rec, "bad-op\n");
        }
    }
    fflush(rec);
    /* leave the scratch directory empty-handed */
    if (chdir("..") == 0) {
        char cmd[256];
        snprintf(cmd, sizeof(cmd), "rm -rf %s", dir);
        if (system(cmd)) {}
    }
}

int main(int argc, char **argv) { return h_main(argc, argv); }
