/* Correspondence harness for the IAuth line protocol (engine Proto, C01-C11, C17).
 *
 * Links the repository's modules/iauth_core.c, iauth_misc.c, iauth_xquery.c,
 * iauth_class.c (each compiled with -Dmodule_constructor=<mod>_ctor
 * -Dmodule_destructor=<mod>_dtor) and all of src/ except main.c and module.c.
 * This file stands in for main.c/module.c: it owns the event base, loads the
 * "modules" by calling their constructors in dependency order, and replaces fd 0
 * and fd 1 by pipes so that libevent itself drives iauth_read() and everything the
 * daemon writes with fputs(stdout) is captured byte for byte.
 *
 * Ops (one record per op; DESIGN.md Appendix A):
 *   modules core|xquery|class      which module set to load at `start`
 *   conf <hex body> [...]          configuration file body (extra fields are for the model)
 *   verbosity <n>                  log verbosity used after start (default 0, like main())
 *   start                          conf_read, constructors, one loop turn  -> out <hex>
 *   in <hex chunk> [...]           write chunk to the daemon's stdin, run the loop -> out <hex>
 *   timeout <id>                   fire the request's pending one-shot timer  -> out <hex> fired|no-timer
 *   reload <hex body> [...]        rewrite the file and conf_read (SIGUSR1 path) -> rc <n> out <hex>
 *   eof                            close stdin, run the loop, destructors -> exit clean=<b> timers=<n> out <hex>
 *   logfile <name>                 content of a log file written by the daemon -> log <hex>
 */
#include "modules/iauth.h"
#include "h_common.h"
#ifndef F_SETPIPE_SZ
#define F_SETPIPE_SZ 1031
#endif
#include <fcntl.h>
#include <sys/ioctl.h>
#include <sys/stat.h>

struct event_base *ev_base;
struct evdns_base *ev_dns;
int clean_exit;

void iauth_ctor(const char name[]);      void iauth_dtor(void);
void iauth_xquery_ctor(const char name[]); void iauth_xquery_dtor(void);
void iauth_class_ctor(const char name[]);  void iauth_class_dtor(void);

static int loaded_core, loaded_xquery, loaded_class;

/* --- replacement for src/module.c ------------------------------------------------ */
static void load_by_name(const char *name)
{
    if (!strcmp(name, "iauth")) { if (!loaded_core) { loaded_core = 1; iauth_ctor("iauth"); } }
    else if (!strcmp(name, "iauth_xquery")) { if (!loaded_xquery) { loaded_xquery = 1; iauth_xquery_ctor("iauth_xquery"); } }
    else if (!strcmp(name, "iauth_class")) { if (!loaded_class) { loaded_class = 1; iauth_class_ctor("iauth_class"); } }
}

void module_depends(const char *name, ...)
{
    va_list args;
    va_start(args, name);
    for (; name; name = va_arg(args, const char *))
        load_by_name(name);
    va_end(args);
}
void module_close_all(void) {}

/* --- timer accounting (linked with -Wl,--wrap=event_new,--wrap=event_free,--wrap=event_base_once) ----
 * A timer belongs to the client whose announcement line was being fed when it was created (the k-th
 * announcement of that id), so nothing here depends on the layout of struct iauth_request or on
 * what the code passes as the callback argument. */
struct event *__real_event_new(struct event_base *, evutil_socket_t, short, event_callback_fn, void *);
void __real_event_free(struct event *);
#define MAX_TIMERS 65536
static struct { struct event *ev; int client; int ann; int known; int assigned; } timers[MAX_TIMERS]; /* in creation order */
static int n_timers;
static int feeding_known, feeding_client;   /* the `in` op being fed is one line `<id> C ...` */

/* Plain malloc() hands out indeterminate memory; what a block holds in the real process depends on
 * what was freed before, i.e. on earlier traffic.  The daemon's own allocator (xmalloc) zeroes, so
 * this matters only for code that bypasses it.  To make such a dependence observable the blocks are
 * filled: zero bytes while at most one client id has been announced in this case, 0xff bytes once a
 * second id has appeared.  A history about one client alone and the same history among other
 * clients then differ exactly when the code reads memory it never wrote (C07). */
static int seen_ids[64], n_seen_ids;
void *__real_malloc(size_t n);
void *__wrap_malloc(size_t n)
{
    void *p = __real_malloc(n);
    if (p && n && n <= 65536) memset(p, n_seen_ids > 1 ? 0xff : 0x00, n);
    return p;
}
#define MAX_ANN 1024
static struct { int client, n; } anns[MAX_ANN];
static int n_anns;

static int ann_count(int client)
{
    int i;
    for (i = 0; i < n_anns; i++) if (anns[i].client == client) return anns[i].n;
    return 0;
}
static void ann_bump(int client)
{
    int i;
    for (i = 0; i < n_anns; i++) if (anns[i].client == client) { anns[i].n++; return; }
    if (n_anns < MAX_ANN) { anns[n_anns].client = client; anns[n_anns].n = 1; n_anns++; }
}
static void timer_note(struct event *e)
{
    if (n_timers >= MAX_TIMERS) return;
    /* an announcement that the daemon accepts (and that has a timeout to arm) creates the timer of a
     * new instance of that id; lines it ignores (`5 C 1.2.3.4`) create nothing and count for nothing */
    if (feeding_known) ann_bump(feeding_client);
    timers[n_timers].ev = e;
    timers[n_timers].known = feeding_known;
    timers[n_timers].client = feeding_client;
    timers[n_timers].ann = feeding_known ? ann_count(feeding_client) : 0;
    timers[n_timers].assigned = 0;
    n_timers++;
}
static void timer_forget(struct event *e)
{
    int i;
    for (i = 0; i < n_timers; i++)
        if (timers[i].ev == e) {
            memmove(&timers[i], &timers[i + 1], (size_t)(n_timers - i - 1) * sizeof(timers[0]));
            n_timers--;
            break;
        }
}
/* does this timer belong to the request that is live for its id now? */
static int timer_current(int k)
{
    return timers[k].known && iauth_find_request(timers[k].client) != NULL
        && timers[k].ann == ann_count(timers[k].client);
}

struct event *__wrap_event_new(struct event_base *b, evutil_socket_t fd, short ev, event_callback_fn cb, void *arg)
{
    struct event *e = __real_event_new(b, fd, ev, cb, arg);
    if (e && fd == -1 && ev == 0)
        timer_note(e);
    return e;
}
void __wrap_event_free(struct event *e)
{
    timer_forget(e);
    __real_event_free(e);
}
/* a timer kept inside the caller's own structure (event_assign) instead of on the heap (event_new):
 * it is live from event_assign until event_del, or until the harness has fired it (a one-shot
 * timer that has run needs no event_del, and its memory may be gone right after the callback) */
int __real_event_assign(struct event *, struct event_base *, evutil_socket_t, short, event_callback_fn, void *);
int __wrap_event_assign(struct event *e, struct event_base *b, evutil_socket_t fd, short ev, event_callback_fn cb, void *arg)
{
    int rc = __real_event_assign(e, b, fd, ev, cb, arg);
    if (rc == 0 && fd == -1 && ev == 0) {
        timer_forget(e);
        timer_note(e);
        if (n_timers > 0 && timers[n_timers - 1].ev == e) timers[n_timers - 1].assigned = 1;
    }
    return rc;
}
int __real_event_del(struct event *);
int __wrap_event_del(struct event *e)
{
    int i;
    for (i = 0; i < n_timers; i++)
        if (timers[i].ev == e && timers[i].assigned) { timer_forget(e); break; }
    return __real_event_del(e);
}
/* event_base_once with a pure timeout: the same thing as a self-freeing timer event */
struct once_rec { struct event *ev; event_callback_fn cb; void *arg; };
static void once_trampoline(evutil_socket_t fd, short what, void *p)
{
    struct once_rec *o = p;
    event_callback_fn cb = o->cb;
    void *arg = o->arg;
    timer_forget(o->ev);
    __real_event_free(o->ev);
    free(o);
    cb(fd, what, arg);
}
int __real_event_base_once(struct event_base *, evutil_socket_t, short, event_callback_fn, void *, const struct timeval *);
int __wrap_event_base_once(struct event_base *b, evutil_socket_t fd, short what, event_callback_fn cb, void *arg,
                           const struct timeval *tv)
{
    struct once_rec *o;
    if (fd != -1 || what != EV_TIMEOUT || !tv)
        return __real_event_base_once(b, fd, what, cb, arg, tv);
    o = malloc(sizeof(*o));
    o->cb = cb; o->arg = arg;
    o->ev = __real_event_new(b, -1, 0, once_trampoline, o);
    if (!o->ev) { free(o); return -1; }
    timer_note(o->ev);
    return event_add(o->ev, tv);
}

/* --- plumbing ------------------------------------------------------------------- */
static FILE *rec;          /* the real stdout of the harness */
static int in_w = -1;      /* write end of the daemon's stdin */
static int out_r = -1;     /* read end of the daemon's stdout */
static char conf_path[256];

static void write_file(const char *path, const char *data, size_t len)
{
    FILE *f = fopen(path, "w");
    if (!f) { perror(path); _exit(3); }
    if (len) fwrite(data, 1, len, f);
    fclose(f);
}

/* ---- symbolic routing tags: @T<cid>#<k>|<fallback>@ (rules: vlib/tagres.py) ---- */
#define TR_MAX 512
static struct { int cid, k; char tag[128]; } tr_tags[TR_MAX];
static int tr_ntags;
static struct { int cid, n; } tr_inst[TR_MAX];
static int tr_ninst;
static char tr_pending[1 << 16];
static size_t tr_plen;

static int tr_wrap32(long long v) { return (int)(unsigned int)(unsigned long long)v; }

static int tr_instances(int cid)
{
    int i;
    for (i = 0; i < tr_ninst; i++) if (tr_inst[i].cid == cid) return tr_inst[i].n;
    return 0;
}

static const char *tr_lookup(int cid, int k)
{
    int i;
    for (i = 0; i < tr_ntags; i++) if (tr_tags[i].cid == cid && tr_tags[i].k == k) return tr_tags[i].tag;
    return NULL;
}

/* decimal id: optional '-', 1..10 digits, nothing else */
static int tr_decimal(const char *s, size_t n, long long *v)
{
    size_t i = 0;
    long long x = 0;
    int neg = 0;
    if (n && s[0] == '-') { neg = 1; i = 1; }
    if (n - i < 1 || n - i > 10) return 0;
    for (; i < n; i++) {
        if (s[i] < '0' || s[i] > '9') return 0;
        x = x * 10 + (s[i] - '0');
    }
    *v = neg ? -x : x;
    return 1;
}

static char *tr_resolve(const char *d, size_t len, size_t *outlen)
{
    char *o = malloc(len * 2 + 256);
    size_t cap = len * 2 + 256, ol = 0, i = 0;
    while (i < len) {
        if (d[i] == '@' && i + 1 < len && d[i + 1] == 'T') {
            size_t p = i + 2, q, idlen, klen;
            long long cid, k;
            while (p < len && (d[p] == '-' || (d[p] >= '0' && d[p] <= '9'))) p++;
            idlen = p - (i + 2);
            if (p < len && d[p] == '#' && tr_decimal(d + i + 2, idlen, &cid)) {
                q = p + 1;
                while (q < len && d[q] >= '0' && d[q] <= '9') q++;
                klen = q - (p + 1);
                if (klen >= 1 && klen <= 6 && q < len && d[q] == '|' && tr_decimal(d + p + 1, klen, &k)) {
                    size_t fb = q + 1, e = fb;
                    while (e < len && d[e] != '@' && d[e] != '\n') e++;
                    if (e < len && d[e] == '@') {
                        const char *t = tr_lookup(tr_wrap32(cid), (int)k);
                        size_t tl = t ? strlen(t) : e - fb;
                        if (ol + tl + 1 > cap) { cap = (ol + tl) * 2 + 256; o = realloc(o, cap); }
                        memcpy(o + ol, t ? t : d + fb, tl);
                        ol += tl;
                        i = e + 1;
                        continue;
                    }
                }
            }
        }
        if (ol + 2 > cap) { cap *= 2; o = realloc(o, cap); }
        o[ol++] = d[i++];
    }
    *outlen = ol;
    return o;
}

static void tr_line(const char *l, size_t n)
{
    const char *tok[8];
    size_t tl[8], i = 0;
    int nt = 0, j;
    long long cid;
    while (i < n && nt < 8) {
        while (i < n && l[i] == ' ') i++;
        if (i >= n) break;
        tok[nt] = l + i;
        while (i < n && l[i] != ' ') i++;
        tl[nt] = (size_t)(l + i - tok[nt]);
        nt++;
    }
    if (nt < 6 || !tr_decimal(tok[0], tl[0], &cid) || tok[1][0] != 'C') return;
    for (j = 2; j < 6; j++) if (tok[j][0] == ':') return;
    for (j = 0; j < tr_ninst; j++) if (tr_inst[j].cid == tr_wrap32(cid)) { tr_inst[j].n++; return; }
    if (tr_ninst < TR_MAX) { tr_inst[tr_ninst].cid = tr_wrap32(cid); tr_inst[tr_ninst].n = 1; tr_ninst++; }
}

static void tr_fed(const char *d, size_t len)
{
    size_t i;
    for (i = 0; i < len; i++) {
        if (d[i] == '\n') { tr_line(tr_pending, tr_plen); tr_plen = 0; }
        else if (tr_plen < sizeof(tr_pending)) tr_pending[tr_plen++] = d[i];
    }
}

static void tr_out(const char *d, size_t len)
{
    size_t i = 0;
    while (i < len) {
        size_t e = i, p, h0, u;
        while (e < len && d[e] != '\n') e++;
        /* X <service> <hexid 1..8>_<rest> */
        if (e - i > 4 && d[i] == 'X' && d[i + 1] == ' ' && d[i + 2] != ' ') {
            p = i + 2;
            while (p < e && d[p] != ' ') p++;
            h0 = ++p;
            while (p < e && ((d[p] >= '0' && d[p] <= '9') || (d[p] >= 'a' && d[p] <= 'f') || (d[p] >= 'A' && d[p] <= 'F'))) p++;
            if (h0 <= e && p > h0 && p - h0 <= 8 && p < e && d[p] == '_') {
                char hex[16];
                int cid, k;
                memcpy(hex, d + h0, p - h0);
                hex[p - h0] = 0;
                cid = tr_wrap32((long long)strtoull(hex, NULL, 16));
                u = p;
                while (u < e && d[u] != ' ') u++;
                k = tr_instances(cid);
                if (!tr_lookup(cid, k) && tr_ntags < TR_MAX && u - h0 < sizeof(tr_tags[0].tag)) {
                    tr_tags[tr_ntags].cid = cid; tr_tags[tr_ntags].k = k;
                    memcpy(tr_tags[tr_ntags].tag, d + h0, u - h0);
                    tr_tags[tr_ntags].tag[u - h0] = 0;
                    tr_ntags++;
                }
            }
        }
        i = e + 1;
    }
}

static void emit_out(void)
{
    static char buf[1 << 16];
    char *all = NULL;
    size_t al = 0, ac = 0;
    fflush(stdout);
    fprintf(rec, "out ");
    for (;;) {
        ssize_t r = read(out_r, buf, sizeof(buf));
        if (r <= 0) break;
        if (al + (size_t)r > ac) { ac = (al + (size_t)r) * 2; all = realloc(all, ac); }
        memcpy(all + al, buf, (size_t)r);
        al += (size_t)r;
    }
    if (al) { puthex(rec, all, al); tr_out(all, al); }
    else fputc('=', rec);
    free(all);
}

static void turn_loop_until_drained(void)
{
    int avail = 0, guard = 0;
    do {
        event_base_loop(ev_base, EVLOOP_NONBLOCK);
        avail = 0;
        ioctl(0, FIONREAD, &avail);
    } while (avail > 0 && ++guard < 100000 && !event_base_got_break(ev_base));
    /* lines already in the evbuffer are all consumed by iauth_read's inner while loop */
}

static void run_case(char **lines, int n)
{
    int li, mods = 0, verbosity = 0, started = 0;
    char *fv[8];
    char *conf_body = NULL;
    size_t conf_len = 0;
    char dir[128];
    int pin[2], pout[2];

    rec = fdopen(dup(1), "w");
    setvbuf(rec, NULL, _IOLBF, 0);
    snprintf(dir, sizeof(dir), "case_%d", (int)getpid());
    mkdir(dir, 0700);
    if (chdir(dir) != 0) { perror("chdir"); _exit(3); }
    snprintf(conf_path, sizeof(conf_path), "iauthd.conf");
    if (pipe(pin) || pipe(pout)) { perror("pipe"); _exit(3); }
    fcntl(pout[1], F_SETPIPE_SZ, 1 << 20);
    fcntl(pin[1], F_SETPIPE_SZ, 1 << 20);
    dup2(pin[0], 0); close(pin[0]); in_w = pin[1];
    dup2(pout[1], 1); close(pout[1]); out_r = pout[0];
    fcntl(out_r, F_SETFL, O_NONBLOCK);
    fcntl(0, F_SETFL, O_NONBLOCK);

    for (li = 0; li < n; li++) {
        char *line = lines[li];
        int nf;
        if (!strncmp(line, "case ", 5)) { fprintf(rec, "%s\n", line); continue; }
        nf = split_fields(line, fv, 8);
        if (nf == 0) { fprintf(rec, "bad-op\n"); continue; }
        if (!strcmp(fv[0], "modules") && nf >= 2) {
            mods = !strcmp(fv[1], "class") ? 2 : !strcmp(fv[1], "xquery") ? 1 : 0;
            fprintf(rec, "ok\n");
        } else if (!strcmp(fv[0], "conf") && nf >= 2) {
            conf_body = unhex(fv[1], &conf_len);
            fprintf(rec, "ok\n");
        } else if (!strcmp(fv[0], "verbosity") && nf >= 2) {
            verbosity = atoi(fv[1]);
            fprintf(rec, "ok\n");
        } else if (!strcmp(fv[0], "start")) {
            struct event_config *cfg = event_config_new();
            int rc;
            ev_base = event_base_new_with_config(cfg);
            event_config_free(cfg);
            ev_dns = NULL;
            ctype_init();
            log_core = log_type_register("core", NULL);
            conf_register_object(NULL, "core");
            write_file(conf_path, conf_body ? conf_body : "", conf_len);
            rc = conf_read(conf_path);
            load_by_name("iauth");
            if (mods >= 1) load_by_name("iauth_xquery");
            if (mods >= 2) load_by_name("iauth_class");
            log_set_verbosity(verbosity);
            event_base_loop(ev_base, EVLOOP_NONBLOCK); /* iauth_startup fires (zero timeout) */
            event_base_loop(ev_base, EVLOOP_NONBLOCK);
            started = 1;
            fprintf(rec, "rc %d ", rc);
            emit_out();
            fprintf(rec, "\n");
        } else if (!started) {
            fprintf(rec, "bad-op\n");
        } else if (!strcmp(fv[0], "in") && nf >= 2) {
            size_t len, off = 0, rawlen;
            char *raw = unhex(fv[1], &rawlen);
            char *data = tr_resolve(raw ? raw : "", raw ? rawlen : 0, &len);
            free(raw);
            tr_fed(data, len);
            {   /* client ids announced so far (any `<id> C ...` line of the chunk) */
                size_t b = 0, e;
                while (b < len) {
                    long long idv;
                    size_t sp = b;
                    e = b;
                    while (e < len && data[e] != '\n') e++;
                    while (sp < e && data[sp] != ' ') sp++;
                    if (sp + 1 < e && data[sp + 1] == 'C' && tr_decimal(data + b, sp - b, &idv)) {
                        int id = tr_wrap32(idv), k, have = 0;
                        for (k = 0; k < n_seen_ids; k++) if (seen_ids[k] == id) have = 1;
                        if (!have && n_seen_ids < 64) seen_ids[n_seen_ids++] = id;
                    }
                    b = e + 1;
                }
            }
            {   /* one whole line announcing a client: timers created while it is handled belong to
                 * that id.  The line is read the way iauth_read reads it: leading white space, an
                 * optional sign and decimal digits (strtol), white space, then the command word. */
                feeding_known = 0;
                if (len && data[len - 1] == '\n' && !memchr(data, '\n', len - 1) && !memchr(data, '\0', len)) {
                    char *line = malloc(len), *sep;
                    long idl;
                    memcpy(line, data, len - 1);
                    line[len - 1] = '\0';
                    if (len >= 2 && line[len - 2] == '\r') line[len - 2] = '\0';
                    idl = strtol(line, &sep, 10);
                    while (*sep == ' ' || (*sep >= '\t' && *sep <= '\r')) sep++;
                    if (sep[0] == 'C' && (sep[1] == ' ' || (sep[1] >= '\t' && sep[1] <= '\r'))) {
                        feeding_known = 1;
                        feeding_client = (int)idl;
                    }
                    free(line);
                }
            }
            fprintf(rec, "");
            /* one write per op unless the chunk exceeds what the pipe takes at once */
            while (off < len) {
                size_t want = len - off > 32768 ? 32768 : len - off;
                ssize_t w = write(in_w, data + off, want);
                if (w <= 0) break;
                off += (size_t)w;
                turn_loop_until_drained();
            }
            if (len == 0) turn_loop_until_drained();
            feeding_known = 0;
            free(data);
            emit_out();
            fprintf(rec, "\n");
        } else if (!strcmp(fv[0], "timeout") && nf >= 2) {
            int want = atoi(fv[1]), fired = 0, k;
            /* the pending timer of the request that is live for this id */
            for (k = n_timers - 1; k >= 0; k--)
                if (timers[k].known && timers[k].client == want && timer_current(k)
                    && event_pending(timers[k].ev, EV_TIMEOUT, NULL)) {
                    struct event *te = timers[k].ev;
                    if (timers[k].assigned) timer_forget(te);
                    event_active(te, EV_TIMEOUT, 0);
                    event_base_loop(ev_base, EVLOOP_NONBLOCK);
                    fired = 1;
                    break;
                }
            emit_out();
            fprintf(rec, " %s\n", fired ? "fired" : "no-timer");
        } else if (!strcmp(fv[0], "elapse")) {
            /* real time passes beyond the configured timeout: every pending timer fires, oldest
             * first; a timer whose request is no longer the live one for its id is an orphan */
            struct event *snap[256];
            int ns = 0, k;
            char fired[4096];
            size_t fl = 0;
            for (k = 0; k < n_timers && ns < 256; k++)
                if (event_pending(timers[k].ev, EV_TIMEOUT, NULL))
                    snap[ns++] = timers[k].ev;
            fired[0] = '\0';
            for (k = 0; k < ns; k++) {
                int j, at = -1;
                for (j = 0; j < n_timers; j++) if (timers[j].ev == snap[k]) at = j;
                if (at < 0 || !event_pending(snap[k], EV_TIMEOUT, NULL)) continue;
                if (timer_current(at))
                    fl += (size_t)snprintf(fired + fl, sizeof(fired) - fl, "%s%d", fl ? "," : "", timers[at].client);
                else
                    fl += (size_t)snprintf(fired + fl, sizeof(fired) - fl, "%sorphan", fl ? "," : "");
                if (timers[at].assigned) timer_forget(snap[k]);
                event_active(snap[k], EV_TIMEOUT, 0);
                event_base_loop(ev_base, EVLOOP_NONBLOCK);
                if (fl > sizeof(fired) - 32) break;
            }
            emit_out();
            fprintf(rec, " fired=%s\n", fired);
        } else if (!strcmp(fv[0], "reload") && nf >= 2) {
            size_t len;
            char *data = unhex(fv[1], &len);
            int rc;
            write_file(conf_path, data ? data : "", len);
            rc = conf_read(conf_path);
            free(data);
            fprintf(rec, "rc %d ", rc);
            emit_out();
            fprintf(rec, "\n");
        } else if (!strcmp(fv[0], "eof")) {
            close(in_w); in_w = -1;
            event_base_loop(ev_base, EVLOOP_NONBLOCK);
            event_base_loop(ev_base, EVLOOP_NONBLOCK);
            if (loaded_class) iauth_class_dtor();
            if (loaded_xquery) iauth_xquery_dtor();
            iauth_dtor();
            fprintf(rec, "exit clean=%d timers=%d ", clean_exit, n_timers);
            emit_out();
            fprintf(rec, "\n");
            started = 0;
        } else if (!strcmp(fv[0], "logfile") && nf >= 2) {
            FILE *f = fopen(fv[1], "r");
            fprintf(rec, "log ");
            if (!f) fprintf(rec, "-");
            else {
                static char lb[1 << 16];
                size_t r, tot = 0;
                while ((r = fread(lb, 1, sizeof(lb), f)) > 0) { puthex(rec, lb, r); tot += r; }
                if (!tot) fputc('=', rec);
                fclose(f);
            }
            fprintf(rec, "\n");
        } else {
            fprintf(rec, "bad-op\n");
        }
    }
    fflush(rec);
    /* leave the scratch directory empty-handed */
    if (chdir("..") == 0) {
        char cmd[256];
        snprintf(cmd, sizeof(cmd), "rm -rf %s", dir);
        if (system(cmd)) {}
    }
}

int main(int argc, char **argv) { return h_main(argc, argv); }
