/* Template of a stub loadable module for the Module engine (property C20).
 *
 * Built once per pool name by vlib/eng_module.py:
 *     gcc -shared -fPIC -DSTUB_NAME='"<name>"' stub_module.c -o <dir>/<name>.so
 *     gcc -shared -fPIC -DSTUB_NAME='"<name>"' -DSTUB_NO_POST_INIT stub_module.c -o <dir>/<name>.nh.so
 *
 * The daemon opens modules with RTLD_GLOBAL, so every stub exports the same three
 * entry points.  module.c always resolves them with dlsym(<own handle>, ...), which
 * looks in the object itself first; everything else in this file is `static`, so
 * no stub can be interposed by a stub loaded earlier.
 *
 * Inputs (environment, set by harness/h_module.c before the daemon code runs):
 *   VERIF_MODGRAPH   "m:dep,dep;m2:dep;..."  what each constructor declares, in order
 *   VERIF_MODLOG_FD  file descriptor the event log is written to (one write per event)
 */
#include <stdio.h>
#include <stdlib.h>
#include <string.h>
#include <unistd.h>

#ifndef STUB_NAME
#error "compile with -DSTUB_NAME=\"<module name>\""
#endif

struct module;
extern void module_depends(const char *name, ...);
extern const char *module_get_name(const struct module *mod);

static const char stub_name[] = STUB_NAME;

static void stub_event(const char *what, const char *note)
{
    char buf[256];
    const char *fds = getenv("VERIF_MODLOG_FD");
    int fd = fds ? atoi(fds) : 2;
    int n = snprintf(buf, sizeof(buf), "%s:%s%s%s\n", what, stub_name, note ? "!" : "", note ? note : "");
    if (n > 0) {
        ssize_t r = write(fd, buf, (size_t)n);
        (void)r;
    }
}

void module_constructor(const char *name)
{
    const char *g = getenv("VERIF_MODGRAPH");
    size_t nlen = strlen(stub_name);

    /* the daemon passes the name it was asked to load */
    stub_event("ctor-begin", (name && !strcmp(name, stub_name)) ? NULL : (name ? name : "(null)"));
    while (g && *g) {
        const char *end = strchr(g, ';');
        size_t elen = end ? (size_t)(end - g) : strlen(g);
        if (elen > nlen && !strncmp(g, stub_name, nlen) && g[nlen] == ':') {
            const char *p = g + nlen + 1, *stop = g + elen;
            while (p < stop) {
                const char *c = memchr(p, ',', (size_t)(stop - p));
                size_t dl = c ? (size_t)(c - p) : (size_t)(stop - p);
                if (dl) {
                    /* module.c keeps the pointer in its `depends` vector: never freed */
                    char *dep = malloc(dl + 1);
                    memcpy(dep, p, dl);
                    dep[dl] = '\0';
                    module_depends(dep, NULL);
                }
                p += dl + 1;
            }
            break;
        }
        if (!end)
            break;
        g = end + 1;
    }
    stub_event("ctor-end", NULL);
}

#ifndef STUB_NO_POST_INIT
/* README: the post-init hook is optional; the <name>.nh.so variant is built without it */
void module_post_init(struct module *self)
{
    const char *n = module_get_name(self);
    stub_event("post-init", (n && !strcmp(n, stub_name)) ? NULL : (n ? n : "(null)"));
}
#endif

void module_destructor(void)
{
    stub_event("dtor", NULL);
}
