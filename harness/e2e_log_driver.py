#!/usr/bin/env python3
"""End-to-end stand-in for harness/h_log: the REAL daemon (src/main.c with its SIGUSR1 reload
handler, module.c, log.c, config.c) with harness/verif_logmod.so loaded, driven through the Log
engine's op protocol.

usage: e2e_log_driver.py <bindir>      (bindir holds iauthd-c and mods/verif_logmod.so)
ops:   read <hex body>   first: write the file (body + a `core` section naming the module) and start
                         the daemon -> `rc 0 con==` (or `exit <n> con==` when it does not come up);
                         later: rewrite the file, SIGUSR1, wait -> `rc ? con==`
       msg <hexfac> <sev> <hextext>   through the module -> `ok con==`
       verbosity <n>     -> ok   (the real main() decides)
       files             -> as h_log: every regular file of the daemon's cwd
After the daemon died every op but `files` answers `dead`.
"""
import os, sys, re, signal, subprocess, tempfile, shutil, select, time

BIN = os.path.abspath(sys.argv[1])
TS = re.compile(rb"^\[\d\d:\d\d:\d\d \d\d/\d\d/\d\d\d\d\] ")


def hx(b):
    return b.hex() if b else "="


def unhx(h):
    return b"" if h in ("=", "") else bytes.fromhex(h)


class Daemon:
    def __init__(self, body):
        self.dir = tempfile.mkdtemp(prefix="e2elog.", dir=".")
        self.w = os.path.join(self.dir, "w")
        os.mkdir(self.w)
        self.conf = os.path.abspath(os.path.join(self.dir, "conf"))
        self.cmd = os.path.abspath(os.path.join(self.dir, "cmd"))
        self.ack = os.path.abspath(os.path.join(self.dir, "ack"))
        os.mkfifo(self.cmd); os.mkfifo(self.ack)
        self.write_conf(body)
        self.ackfd = os.open(self.ack, os.O_RDWR | os.O_NONBLOCK)
        self.cmdfd = os.open(self.cmd, os.O_RDWR | os.O_NONBLOCK)
        env = dict(os.environ, VERIF_LOG_CMD=self.cmd, VERIF_LOG_ACK=self.ack,
                   ASAN_OPTIONS="detect_leaks=0:abort_on_error=0", UBSAN_OPTIONS="halt_on_error=1")
        self.p = subprocess.Popen([os.path.join(BIN, "iauthd-c"), "-n", "-f", self.conf], cwd=self.w, env=env,
                                  stdin=subprocess.PIPE, stdout=subprocess.DEVNULL, stderr=subprocess.PIPE)
        self.buf = b""
        self.alive = self.wait_ack(b"ready", 10.0)

    def write_conf(self, body):
        core = b"\ncore {\n library_path \"%s\";\n modules (verif_logmod);\n}\n" % os.path.join(BIN, "mods").encode()
        tmp = self.conf + ".new"
        with open(tmp, "wb") as f:
            f.write(body + core)
        os.replace(tmp, self.conf)

    def wait_ack(self, word, timeout):
        end = time.time() + timeout
        while time.time() < end:
            if b"\n" in self.buf:
                line, _, self.buf = self.buf.partition(b"\n")
                if line == word:
                    return True
                continue
            if self.p.poll() is not None:
                return False
            r, _, _ = select.select([self.ackfd], [], [], 0.05)
            if r:
                try:
                    self.buf += os.read(self.ackfd, 4096)
                except BlockingIOError:
                    pass
        return False

    def send(self, line):
        os.write(self.cmdfd, line + b"\n")
        ok = self.wait_ack(b"ok", 10.0)
        if not ok:
            self.alive = False
        return ok

    def reload(self, body):
        self.write_conf(body)
        self.p.send_signal(signal.SIGUSR1)
        # the signal is pending before the command below is written, so its handler has run by the
        # time the daemon reads the command; the reload itself happens in the event loop, at the
        # latest in the iteration that answers the first command - the second answer comes after it
        time.sleep(0.05)
        return self.send(b"s") and self.send(b"s")

    def files(self):
        out = ["files"]
        for n in sorted(os.listdir(self.w), key=lambda s: s.encode()):
            p = os.path.join(self.w, n)
            if not os.path.isfile(p) or os.path.islink(p):
                continue
            data = open(p, "rb").read()
            parts = []
            lines = data.split(b"\n") if data else []
            last_complete = data.endswith(b"\n")
            if last_complete:
                lines.pop()
            for i, l in enumerate(lines):
                m = "" if (i < len(lines) - 1 or last_complete) else "~"
                if TS.match(l):
                    parts.append(m + hx(l[22:]) if l[22:] else m + "")
                else:
                    parts.append(m + "!" + (l.hex() if l else ""))
            out.append("%s:%s" % (n.encode().hex(), ",".join(parts)))
        return " ".join(out)

    def close(self):
        try:
            if self.p.poll() is None:
                self.p.send_signal(signal.SIGHUP)
                try:
                    self.p.wait(timeout=5)
                except subprocess.TimeoutExpired:
                    self.p.kill(); self.p.wait()
        finally:
            for fd in (self.ackfd, self.cmdfd):
                try: os.close(fd)
                except OSError: pass
            shutil.rmtree(self.dir, ignore_errors=True)


def main():
    d = None
    try:
        for raw in sys.stdin:
            line = raw.rstrip("\n")
            f = line.split(" ")
            if f[0] == "case":
                if d: d.close(); d = None
                print(line); sys.stdout.flush()
                continue
            if f[0] == "files":
                print(d.files() if d else "files")
            elif d is not None and not d.alive and f[0] in ("read", "msg", "verbosity"):
                print("dead")
            elif f[0] == "read" and len(f) == 2:
                if d is None:
                    d = Daemon(unhx(f[1]))
                    if d.alive:
                        print("rc 0 con==")
                    else:
                        rc = d.p.poll()
                        print("exit %s con==" % (rc if rc is not None else "?"))
                else:
                    ok = d.reload(unhx(f[1]))
                    if ok:
                        print("rc ? con==")
                    else:
                        rc = d.p.poll()
                        print("exit %s con==" % (rc if rc is not None else "?"))
            elif f[0] == "msg" and len(f) == 4:
                if d is None:
                    print("harness-not-started")
                else:
                    ok = d.send(b"m %s %s %s" % (f[1].encode(), f[2].encode(), f[3].encode()))
                    print("ok con==" if ok else "exit %s con==" % d.p.poll())
            elif f[0] == "verbosity":
                print("ok")
            else:
                print("bad-op")
            sys.stdout.flush()
    finally:
        if d: d.close()


main()
