#!/usr/bin/env python3
"""End-to-end stand-in for harness/h_proto: drives the REAL program (src/main.c, src/module.c,
dlopen'ed modules, real pipes, real libevent timers, real SIGUSR1) and prints the same records.

usage: e2e_driver.py <bindir>     (bindir holds iauthd-c and mods/*.so built by the check)
stdin: cases in the Proto op protocol.  Supported ops: modules, conf, verbosity (ignored: the real
main() decides), start, in <hex>, elapse (sleeps past the configured timeout), reload <hex>, eof.
After every op a marker `-1 ? :stats2` is sent and output is read up to its terminator line `s`;
the marker's own reply is cut off.  Scenarios for this tier contain no info requests of their own.
"""
import os as _os, sys as _sys
_sys.path.insert(0, _os.path.join(_os.path.dirname(_os.path.abspath(__file__)), ".."))
from vlib.tagres import TagResolver  # noqa: E402
import os
import select
import shutil
import signal
import subprocess
import sys
import tempfile
import time

BIN = os.path.abspath(sys.argv[1])


def unhx(h):
    return b"" if h in ("=", "-") else bytes.fromhex(h)


def hx(b):
    return b.hex() if b else "="


class Daemon:
    def __init__(self, mods, conf_body, wd):
        self.wd = wd
        self.conf = os.path.join(wd, "iauthd.conf")
        names = ["iauth"] + (["iauth_xquery"] if mods >= 1 else []) + (["iauth_class"] if mods >= 2 else [])
        self.core = 'core {\n library_path ("%s/mods");\n modules (%s);\n}\n' % (BIN, ", ".join(names))
        self.write_conf(conf_body)
        env = dict(os.environ)
        env["ASAN_OPTIONS"] = "detect_leaks=0:abort_on_error=0:exitcode=99"
        env["UBSAN_OPTIONS"] = "halt_on_error=1:exitcode=98:print_stacktrace=0"
        self.p = subprocess.Popen([os.path.join(BIN, "iauthd-c"), "-n", "-f", self.conf], cwd=wd, env=env,
                                  stdin=subprocess.PIPE, stdout=subprocess.PIPE, stderr=subprocess.PIPE)
        self.buf = b""

    def write_conf(self, body):
        with open(self.conf, "wb") as f:
            f.write(self.core.encode() + body)

    def read_until_marker(self, timeout=10.0):
        """returns the bytes before the marker's reply, or None if the daemon died / hung"""
        deadline = time.time() + timeout
        while True:
            # marker reply: "S iauth :..." lines ... then the terminator line "s"
            idx = self.buf.find(b"\ns\n")
            if self.buf.startswith(b"s\n"):
                idx = -1
            if idx >= 0 or self.buf.startswith(b"s\n"):
                end = 2 if self.buf.startswith(b"s\n") and idx < 0 else idx + 3
                block = self.buf[:end]
                self.buf = self.buf[end:]
                lines = block.split(b"\n")[:-1]
                # cut the marker block: from the last "S iauth :" line on
                k = max(i for i, l in enumerate(lines) if l.startswith(b"S iauth :"))
                return b"".join(l + b"\n" for l in lines[:k])
            left = deadline - time.time()
            if left <= 0:
                return None
            r, _, _ = select.select([self.p.stdout], [], [], left)
            if not r:
                return None
            chunk = os.read(self.p.stdout.fileno(), 65536)
            if not chunk:
                return None
            self.buf += chunk

    def drain_quiet(self, quiet=0.25, cap=2.0):
        """reads what the daemon has written without being asked, until `quiet` seconds of
        silence; returns how many bytes are waiting"""
        end = time.time() + cap
        while time.time() < end:
            r, _, _ = select.select([self.p.stdout], [], [], quiet)
            if not r:
                break
            chunk = os.read(self.p.stdout.fileno(), 65536)
            if not chunk:
                break
            self.buf += chunk
        return len(self.buf)

    def send(self, data):
        try:
            self.p.stdin.write(data)
            self.p.stdin.flush()
            return True
        except (BrokenPipeError, OSError):
            return False

    def op(self, data):
        if not self.send(data + b"-1 ? :stats2\n"):
            return None
        return self.read_until_marker()

    def fault(self):
        try:
            self.p.kill()
        except OSError:
            pass
        rc = self.p.wait()
        err = self.p.stderr.read().decode("latin-1", "replace")[-300:].replace("\n", " | ")
        return "fault exit %s %s" % (rc, err)


def run_case(lines, extra_wait=0.0):
    recs, late_seen = [], False
    emit = recs.append
    mods, conf_body, timeout_s = 0, b"", 0
    tr = TagResolver()      # symbolic routing tags, same rules as harness/h_proto.c
    d = None
    wd = tempfile.mkdtemp(prefix="e2e_", dir=os.getcwd())
    dead = False
    try:
        for line in lines:
            if line.startswith("case "):
                emit(line)
                continue
            f = line.split(" ")
            if dead:
                continue
            if f[0] == "modules":
                mods = 2 if f[1] == "class" else 1 if f[1] == "xquery" else 0
                emit("ok")
            elif f[0] == "conf":
                conf_body = unhx(f[1])
                for x in f[2:]:
                    if x.startswith("t="):
                        timeout_s = int(x[2:])
                emit("ok")
            elif f[0] == "verbosity":
                emit("ok")
            elif f[0] == "start":
                d = Daemon(mods, conf_body, wd)
                out = d.op(b"")
                if out is None:
                    emit(d.fault()); dead = True
                else:
                    emit("rc 0 out " + hx(out))
            elif d is None:
                emit("bad-op")
            elif f[0] == "in":
                data = tr.resolve(unhx(f[1]))
                tr.fed(data)
                if data and not data.endswith(b"\n"):
                    # the first part of a line that arrives in two reads: nothing can be asked
                    # until the line is complete (the marker would become part of it)
                    ok = d.send(data)
                    time.sleep(0.05)
                    out = b"" if ok else None
                else:
                    out = d.op(data)
                if out is None:
                    emit(d.fault()); dead = True
                else:
                    tr.out(out)
                    emit("out " + hx(out))
            elif f[0] == "elapse":
                time.sleep((timeout_s + 0.35 if timeout_s else 0.05) + extra_wait)
                # what a timer writes must reach the pipe on its own: whatever only appears
                # once the next input line (here the marker) has been read was held back
                n = d.drain_quiet()
                out = d.op(b"")
                if out is None:
                    emit(d.fault()); dead = True
                else:
                    late = out[n:] if timeout_s else b""
                    if late:
                        late_seen = True
                    emit("out %s fired=*%s" % (hx(out), (" late=" + hx(late)) if late else ""))
            elif f[0] == "reload":
                body = unhx(f[1])
                for x in f[2:]:
                    if x.startswith("t="):
                        timeout_s = int(x[2:])
                d.write_conf(body)
                d.p.send_signal(signal.SIGUSR1)
                time.sleep(0.15)
                out = d.op(b"")
                if out is None:
                    emit(d.fault()); dead = True
                else:
                    emit("rc ? out " + hx(out))
            elif f[0] == "eof":
                try:
                    d.p.stdin.close()
                except OSError:
                    pass
                try:
                    rc = d.p.wait(timeout=10)
                except subprocess.TimeoutExpired:
                    d.p.kill(); rc = -9
                rest = d.buf + d.p.stdout.read()
                err = d.p.stderr.read().decode("latin-1", "replace")
                san = "ERROR: AddressSanitizer" in err or "runtime error" in err
                emit("exit clean=%d timers=0 out %s%s" % (1 if rc == 0 and not san else 0, hx(rest),
                                                            (" rc=%s %s" % (rc, err[-200:].replace("\n", "|").replace(" ", "_"))) if rc != 0 or san else ""))
                d = None
            else:
                emit("bad-op")
    finally:
        if d is not None:
            try:
                d.p.kill()
            except OSError:
                pass
        shutil.rmtree(wd, ignore_errors=True)
    return recs, late_seen


def run_and_print(lines):
    recs, late = run_case(lines)
    if late:
        # a timer that was merely slow on a loaded machine is not a finding: once more, waiting
        # three seconds longer; output that is still held back then was never going to come
        recs, late = run_case(lines, extra_wait=3.0)
    for r in recs:
        print(r)
    sys.stdout.flush()


def main():
    data = sys.stdin.read().split("\n")
    cur = []
    for l in data:
        if l.startswith("case ") and cur:
            run_and_print(cur)
            cur = []
        if l != "":
            cur.append(l)
    if cur:
        run_and_print(cur)


if __name__ == "__main__":
    main()
