/* Correspondence harness for modules/iauth_misc.c (engine Addr, properties C12, C13).
 * Links the repository's iauth_misc.c and common.c (ctype table).  See DESIGN.md Appendix A.
 *
 *   ntop g0..g7 outsize        -> n <ret> <hex text>
 *   pton b<0|1>t<0|1> <hexstr> -> p <ret> g0..g7 <bits|->      (or `p <ret> uninit`)
 *   mask a0..a7 m0..m7 n       -> m 0|1
 *   libc <hexstr>              -> l <0|1> g0..g7               (inet_pton AF_INET6, else AF_INET mapped)
 *   rt g0..g7                  -> r <ret> <text> <pret> pg0..pg7 <ret2> <text2> | <lok> lg0..lg7
 *        text = irc_ntop(a,40); p = irc_pton(text, NULL, 0); l = inet_pton(text); text2 = irc_ntop(p)
 * Groups are hex, host order.  Every object handed to the code under test is an exactly
 * sized heap object so that ASan sees any access outside it.  `*bits` is pre-loaded with a
 * sentinel: a value that is still the sentinel afterwards is reported as `-` (never written).
 * iauth_misc.c is compiled with -fno-sanitize=shift (F23, `1.2.3.4.5`), see vlib/eng_addr.py.
 */
#include "modules/iauth.h"
#include <arpa/inet.h>
#include "h_common.h"

/* symbols common.c wants from the rest of the daemon */
struct log_type *log_core;
void log_message(struct log_type *type, enum log_severity sev, const char *format, ...)
{ (void)type; (void)format; if (sev == LOG_FATAL) _exit(1); }
void module_close_all(void) {}

#define BITS_UNSET 0xfffff000u

static irc_inaddr *new_addr(char **gv)
{
    irc_inaddr *a = malloc(sizeof(*a));
    int i;
    for (i = 0; i < 8; i++)
        a->in6[i] = htons((uint16_t)strtoul(gv[i], NULL, 16));
    return a;
}

static void put_groups(const irc_inaddr *a)
{
    int i;
    for (i = 0; i < 8; i++) printf(" %x", (unsigned)ntohs(a->in6[i]));
}

/* exactly sized copy of a C string */
static char *exact_str(const char *s)
{
    size_t n = strlen(s);
    char *p = malloc(n + 1);
    memcpy(p, s, n + 1);
    return p;
}

/* iauth_misc.c is linked three times: as is, and (symbols suffixed) compiled with
 * -ftrivial-auto-var-init=zero / =pattern.  A result that differs between the last two
 * depends on an uninitialised local variable and is reported as `uninit`. */
typedef unsigned int pton_f(irc_inaddr *addr, unsigned int *bits, const char *input, int allow_trailing);
pton_f irc_pton_vz, irc_pton_vp;

struct pres { unsigned ret; irc_inaddr addr; unsigned bits; };

static void run_pton(pton_f *fn, struct pres *out, const char *str, int want_bits, int trailing)
{
    irc_inaddr *a = malloc(sizeof(*a));
    unsigned *bits = malloc(sizeof(*bits));
    char *s = exact_str(str);
    memset(a, 0xee, sizeof(*a));
    *bits = BITS_UNSET;
    out->ret = fn(a, want_bits ? bits : NULL, s, trailing);
    out->addr = *a;
    out->bits = *bits;
    free(s); free(bits); free(a);
}

static void op_pton(const char *flags, const char *hex)
{
    struct pres r0, r1, r2;
    int wb = flags[0] == 'b' && flags[1] == '1';
    int tr = flags[2] == 't' && flags[3] == '1';
    char *str = unhex(hex, NULL);
    if (!str) { printf("bad-op\n"); return; }
    memset(&r0, 0, sizeof r0); memset(&r1, 0, sizeof r1); memset(&r2, 0, sizeof r2);
    run_pton(irc_pton, &r0, str, wb, tr);
    run_pton(irc_pton_vz, &r1, str, wb, tr);
    run_pton(irc_pton_vp, &r2, str, wb, tr);
    free(str);
    if (r1.ret != r2.ret) { printf("p ? uninit\n"); return; }
    if (memcmp(&r1.addr, &r2.addr, sizeof r1.addr) || r1.bits != r2.bits) { printf("p %u uninit\n", r1.ret); return; }
    printf("p %u", r0.ret);
    put_groups(&r0.addr);
    if (!wb || r0.bits == BITS_UNSET) printf(" -\n"); else printf(" %u\n", r0.bits);
}

static int libc_parse(const char *s, irc_inaddr *out)
{
    struct in6_addr a6;
    struct in_addr a4;
    memset(out, 0, sizeof(*out));
    if (inet_pton(AF_INET6, s, &a6) == 1) { memcpy(out, &a6, 16); return 1; }
    if (inet_pton(AF_INET, s, &a4) == 1) {
        out->in6[5] = 0xffff;
        memcpy(&out->in6[6], &a4, 4);
        return 1;
    }
    return 0;
}

static void op_ntop(char **gv, unsigned outsize)
{
    irc_inaddr *a = new_addr(gv);
    char *buf;
    unsigned ret;
    if (outsize == 0 || outsize > 4096) { printf("bad-op\n"); free(a); return; }
    buf = malloc(outsize);
    memset(buf, 'Z', outsize);
    ret = irc_ntop(buf, outsize, a);
    printf("n %u ", ret);
    if (memchr(buf, 0, outsize)) puthexs(stdout, buf); else printf("unterminated");
    printf("\n");
    free(buf); free(a);
}

static void op_rt(char **gv)
{
    irc_inaddr *a = new_addr(gv), *p = malloc(sizeof(*p)), l;
    char *buf = malloc(IRC_NTOP_MAX), *buf2 = malloc(IRC_NTOP_MAX), *s;
    unsigned ret, pret, ret2;
    int lok;
    memset(buf, 'Z', IRC_NTOP_MAX); memset(buf2, 'Z', IRC_NTOP_MAX);
    ret = irc_ntop(buf, IRC_NTOP_MAX, a);
    s = exact_str(buf);
    memset(p, 0xee, sizeof(*p));
    pret = irc_pton(p, NULL, s, 0);
    lok = libc_parse(s, &l);
    ret2 = irc_ntop(buf2, IRC_NTOP_MAX, p);
    printf("r %u ", ret); puthexs(stdout, buf);
    printf(" %u", pret); put_groups(p);
    printf(" %u ", ret2); puthexs(stdout, buf2);
    printf(" | %d", lok); put_groups(&l);
    printf("\n");
    free(s); free(buf); free(buf2); free(p); free(a);
}

static void run_case(char **lines, int n)
{
    int li;
    char *fv[24];

    ctype_init();
    for (li = 0; li < n; li++) {
        char *line = lines[li];
        int nf;
        if (!strncmp(line, "case ", 5)) { printf("%s\n", line); continue; }
        nf = split_fields(line, fv, 24);
        if (nf == 0) { printf("bad-op\n"); continue; }
        if (!strcmp(fv[0], "ntop") && nf == 10) {
            op_ntop(fv + 1, (unsigned)strtoul(fv[9], NULL, 10));
        } else if (!strcmp(fv[0], "pton") && nf == 3 && strlen(fv[1]) == 4) {
            op_pton(fv[1], fv[2]);
        } else if (!strcmp(fv[0], "mask") && nf == 18) {
            irc_inaddr *a = new_addr(fv + 1), *m = new_addr(fv + 9);
            printf("m %u\n", irc_check_mask(a, m, (unsigned)strtoul(fv[17], NULL, 10)) ? 1u : 0u);
            free(a); free(m);
        } else if (!strcmp(fv[0], "libc") && nf == 2) {
            irc_inaddr l;
            char *str = unhex(fv[1], NULL), *s;
            int ok;
            if (!str) { printf("bad-op\n"); continue; }
            s = exact_str(str);
            ok = libc_parse(s, &l);
            printf("l %d", ok); put_groups(&l); printf("\n");
            free(s); free(str);
        } else if (!strcmp(fv[0], "rt") && nf == 9) {
            op_rt(fv + 1);
        } else {
            printf("bad-op\n");
        }
    }
}

int main(int argc, char **argv) { return h_main(argc, argv); }
