/* Loadable module for the end-to-end run of the Log engine (property C18): lets the check inject
 * log messages of any facility and severity into the REAL daemon (real main.c, module.c, SIGUSR1
 * reload path, log.c, config.c).
 *
 *   VERIF_LOG_CMD   path of a FIFO the module reads commands from (one per line)
 *   VERIF_LOG_ACK   path of a FIFO it acknowledges on
 *
 * commands:   m <hexfac> <sev> <hextext>    log_type_register(fac, NULL) + log_message(type, sev, "%s", text) -> "ok\n"
 *             s                              -> "ok\n"      (synchronisation: everything before it has been handled)
 */
#include <stdio.h>
#include <stdlib.h>
#include <string.h>
#include <unistd.h>
#include <fcntl.h>
#include <event2/event.h>

struct log_type;
struct module;
extern struct event_base *ev_base;
extern struct log_type *log_type_register(const char *name, const char *default_target);
extern void log_message(struct log_type *type, int sev, const char *format, ...);

static int cmd_fd = -1, ack_fd = -1;
static struct event *cmd_ev;
static char buf[65536];
static size_t used;

static char *unhex(const char *h)
{
    size_t n = strlen(h), i;
    char *o = calloc(n / 2 + 1, 1);
    if (!strcmp(h, "=")) return o;
    for (i = 0; i + 1 < n; i += 2) {
        unsigned v;
        if (sscanf(h + i, "%2x", &v) != 1) break;
        o[i / 2] = (char)v;
    }
    return o;
}

static void ack(const char *s)
{
    ssize_t r = write(ack_fd, s, strlen(s));
    (void)r;
}

static void handle(char *line)
{
    if (line[0] == 'm' && line[1] == ' ') {
        char *fac = strtok(line + 2, " "), *sev = strtok(NULL, " "), *text = strtok(NULL, " ");
        if (fac && sev && text) {
            char *f = unhex(fac), *t = unhex(text);
            log_message(log_type_register(f, NULL), atoi(sev), "%s", t);
            free(f); free(t);
        }
        ack("ok\n");
    } else if (line[0] == 's') {
        ack("ok\n");
    }
}

static void on_cmd(evutil_socket_t fd, short what, void *arg)
{
    ssize_t n = read(fd, buf + used, sizeof(buf) - used - 1);
    (void)what; (void)arg;
    if (n <= 0) return;
    used += (size_t)n;
    buf[used] = '\0';
    for (;;) {
        char *nl = memchr(buf, '\n', used);
        size_t ll;
        if (!nl) break;
        *nl = '\0';
        ll = (size_t)(nl - buf) + 1;
        handle(buf);
        memmove(buf, buf + ll, used - ll);
        used -= ll;
    }
}

void module_constructor(const char *name)
{
    const char *c = getenv("VERIF_LOG_CMD"), *a = getenv("VERIF_LOG_ACK");
    (void)name;
    if (!c || !a) return;
    cmd_fd = open(c, O_RDWR | O_NONBLOCK);      /* O_RDWR: never sees end of file */
    ack_fd = open(a, O_RDWR);
    if (cmd_fd < 0 || ack_fd < 0) return;
    cmd_ev = event_new(ev_base, cmd_fd, EV_READ | EV_PERSIST, on_cmd, NULL);
    if (cmd_ev) event_add(cmd_ev, NULL);
    ack("ready\n");
}

void module_destructor(void)
{
    if (cmd_ev) event_free(cmd_ev);
    if (cmd_fd >= 0) close(cmd_fd);
    if (ack_fd >= 0) close(ack_fd);
}
