/* Correspondence harness for src/module.c (engine Module, property C20).
 *
 * Links the repository's module.c, log.c, config.c, set.c, common.c, bitset.c,
 * accumulators.c and plays the part of main.c: it owns `ev_base`, `ev_dns`,
 * `clean_exit`, `iauthd_version`, registers the `atexit` chain, loads the module
 * list and exits the way main() does.  The modules themselves are stub shared
 * objects built from harness/stub_module.c (one per pool name) by the python
 * engine; `--stubs=<dir>` says where they are.
 *
 * One op per case (DESIGN.md Appendix A):
 *     graph <m:dep,dep;m2:...|-> bad=<m,...> [nohook=<m,...>] list=<m,...> [list=<m,...> ...]
 *  -> status <n|sigN> why=<-|loop:a>b|unloadable:m|other> events <kind:m> ...
 *
 * For every op a child process runs the daemon code, so that LOG_FATAL's _exit(1)
 * and an abort() are observed as a status and the event log survives.
 */
#include "src/common.h"
#include "h_common.h"
#include <fcntl.h>
#include <poll.h>
#include <sys/stat.h>

/* what main.c would define */
struct event_base *ev_base;
struct evdns_base *ev_dns;
int clean_exit;
const char iauthd_version[] = "verif-harness";

static const char *stub_dir;

/* same defaults as vlib/core.py:run_env, for runs by hand (ASAN_OPTIONS overrides) */
const char *__asan_default_options(void) { return "detect_leaks=0:exitcode=99"; }

#define MAXN 64

static int split_list(char *s, char **out, int max)
{
    int n = 0;
    while (s && *s && n < max) {
        char *c = strchr(s, ',');
        if (c) *c = '\0';
        if (*s) out[n++] = s;
        if (!c) break;
        s = c + 1;
    }
    return n;
}

static int in_list(char **v, int n, const char *s)
{
    int i;
    for (i = 0; i < n; i++) if (!strcmp(v[i], s)) return 1;
    return 0;
}

static int name_ok(const char *s)
{
    if (!*s || strlen(s) > 40) return 0;
    for (; *s; s++)
        if (!((*s >= 'a' && *s <= 'z') || (*s >= 'A' && *s <= 'Z') || (*s >= '0' && *s <= '9') || *s == '_'))
            return 0;
    return 1;
}

/* The part of main() that matters here (src/main.c:250-345). */
static void daemon_main(const char *dir, char ***lists, int *list_n, int nlists)
{
    struct string_vector path, list;
    int li, i;

    atexit(call_exit_funcs);
    log_core = log_type_register("core", NULL);
    ctype_init();
    module_init();
    memset(&path, 0, sizeof(path));
    string_vector_append(&path, xstrdup(dir));
    if (module_add_path(&path))
        exit(EXIT_FAILURE);
    for (li = 0; li < nlists; li++) {
        memset(&list, 0, sizeof(list));
        for (i = 0; i < list_n[li]; i++)
            string_vector_append(&list, xstrdup(lists[li][i]));
        if (module_load_list(&list))
            exit(EXIT_FAILURE);          /* `return EXIT_FAILURE` from main */
    }
    /* event loop would run here; SIGHUP sets clean_exit and leaves it */
    clean_exit = 1;
    exit(clean_exit ? EXIT_SUCCESS : EXIT_FAILURE);
}

static void append_buf(char **buf, size_t *len, size_t *cap, const char *p, size_t n)
{
    if (*len + n + 1 > *cap) {
        *cap = (*len + n + 1) * 2;
        *buf = realloc(*buf, *cap);
    }
    memcpy(*buf + *len, p, n);
    *len += n;
    (*buf)[*len] = '\0';
}

static void run_graph(char *gspec, char **bad, int nbad, char **nohook, int nnohook, char ***lists, int *list_n, int nlists)
{
    char dir[4096], a[4352], b[4352];
    char *names[MAXN * 4];
    int nn = 0, i, li;
    int evp[2], outp[2], st = 0;
    pid_t pid;
    char *ev = NULL, *out = NULL;
    size_t evl = 0, evc = 0, outl = 0, outc = 0;
    char *gcopy = strdup(gspec);

    /* every name mentioned: keys and dependencies of the graph, the lists */
    if (strcmp(gcopy, "-")) {
        char *s = gcopy;
        while (s && *s) {
            char *semi = strchr(s, ';'), *colon;
            if (semi) *semi = '\0';
            colon = strchr(s, ':');
            if (colon) {
                char *deps[MAXN];
                int nd;
                *colon = '\0';
                if (nn < MAXN * 4) names[nn++] = s;
                nd = split_list(colon + 1, deps, MAXN);
                for (i = 0; i < nd && nn < MAXN * 4; i++) names[nn++] = deps[i];
            } else if (*s && nn < MAXN * 4)
                names[nn++] = s;
            s = semi ? semi + 1 : NULL;
        }
    }
    for (li = 0; li < nlists; li++)
        for (i = 0; i < list_n[li] && nn < MAXN * 4; i++) names[nn++] = lists[li][i];
    for (i = 0; i < nn; i++)
        if (!name_ok(names[i])) { printf("bad-op name %s\n", names[i]); free(gcopy); return; }

    /* a directory holding exactly the loadable modules of this case */
    snprintf(dir, sizeof(dir), "%s/case.%ld", stub_dir, (long)getpid());
    if (mkdir(dir, 0700) && errno != EEXIST) { printf("bad-op mkdir %s\n", strerror(errno)); free(gcopy); return; }
    for (i = 0; i < nn; i++) {
        if (in_list(bad, nbad, names[i])) continue;
        /* a module named in nohook= is the variant built without module_post_init */
        snprintf(a, sizeof(a), "%s/%s%s.so", stub_dir, names[i], in_list(nohook, nnohook, names[i]) ? ".nh" : "");
        snprintf(b, sizeof(b), "%s/%s.so", dir, names[i]);
        if (access(a, R_OK)) { printf("bad-op no-stub %s\n", names[i]); goto cleanup; }
        if (symlink(a, b) && errno != EEXIST) { printf("bad-op symlink %s\n", strerror(errno)); goto cleanup; }
    }

    if (pipe(evp) || pipe(outp)) { printf("bad-op pipe\n"); goto cleanup; }
    fflush(stdout);
    pid = fork();
    if (pid < 0) { printf("bad-op fork\n"); goto cleanup; }
    if (pid == 0) {
        char fdbuf[32];
        close(evp[0]); close(outp[0]);
        dup2(outp[1], 1);                 /* log.c echoes warnings and fatal errors to stdout */
        if (!getenv("VERIF_MODULE_STDERR")) { /* keep sanitizer reports, they go to stderr */ }
        setvbuf(stdout, NULL, _IONBF, 0);
        snprintf(fdbuf, sizeof(fdbuf), "%d", evp[1]);
        setenv("VERIF_MODLOG_FD", fdbuf, 1);
        setenv("VERIF_MODGRAPH", gspec, 1);
        alarm(10);
        daemon_main(dir, lists, list_n, nlists);
        _exit(97); /* not reached */
    }
    close(evp[1]); close(outp[1]);
    {
        struct pollfd pf[2];
        int open_n = 2;
        pf[0].fd = evp[0]; pf[0].events = POLLIN;
        pf[1].fd = outp[0]; pf[1].events = POLLIN;
        while (open_n > 0) {
            char tmp[4096];
            if (poll(pf, 2, -1) < 0) { if (errno == EINTR) continue; break; }
            for (i = 0; i < 2; i++) {
                if (pf[i].fd < 0 || !(pf[i].revents & (POLLIN | POLLHUP | POLLERR))) continue;
                ssize_t r = read(pf[i].fd, tmp, sizeof(tmp));
                if (r > 0) {
                    if (i == 0) append_buf(&ev, &evl, &evc, tmp, (size_t)r);
                    else append_buf(&out, &outl, &outc, tmp, (size_t)r);
                } else if (r == 0 || errno != EINTR) {
                    close(pf[i].fd); pf[i].fd = -1; open_n--;
                }
            }
        }
    }
    while (waitpid(pid, &st, 0) < 0 && errno == EINTR) {}

    if (WIFSIGNALED(st)) printf("status sig%d", WTERMSIG(st));
    else printf("status %d", WEXITSTATUS(st));
    {
        /* classify what log.c printed */
        char *p;
        if (out && (p = strstr(out, "Module dependency loop: "))) {
            char x[64], y[64];
            if (sscanf(p, "Module dependency loop: %63s -> %63s", x, y) == 2) printf(" why=loop:%s>%s", x, y);
            else printf(" why=loop:?");
        } else if (out && (p = strstr(out, "Unable to load module "))) {
            char x[64];
            if (sscanf(p, "Unable to load module %63[^:]", x) == 1) printf(" why=unloadable:%s", x);
            else printf(" why=unloadable:?");
        } else if (out && strstr(out, "non-existent module")) printf(" why=nonexistent");
        else if (out && outl) printf(" why=other");
        else printf(" why=-");
        /* what was printed, for a reading that does not depend on the wording (vlib/eng_module.py) */
        printf(" said=");
        if (out && outl) {
            size_t k, lim = outl < 600 ? outl : 600;
            for (k = 0; k < lim; k++) printf("%02x", (unsigned char)out[k]);
        } else printf("=");
    }
    printf(" events");
    if (ev) {
        char *s = ev;
        while (*s) {
            char *nl = strchr(s, '\n');
            if (nl) *nl = '\0';
            if (*s) printf(" %s", s);
            if (!nl) break;
            s = nl + 1;
        }
    }
    printf("\n");
    if (getenv("VERIF_MODULE_STDERR") && out && outl) fprintf(stderr, "[daemon stdout] %s", out);

cleanup:
    for (i = 0; i < nn; i++) {
        snprintf(b, sizeof(b), "%s/%s.so", dir, names[i]);
        unlink(b);
    }
    rmdir(dir);
    free(ev); free(out); free(gcopy);
}

static void run_case(char **lines, int n)
{
    int li;
    for (li = 0; li < n; li++) {
        char *line = lines[li], *fv[16];
        char *bad[MAXN], *nohook[MAXN], **lists[8], *lbuf[8][MAXN];
        int nbad = 0, nnohook = 0, list_n[8], nlists = 0, nf, i, okay = 1;
        char *g = NULL;

        if (!strncmp(line, "case ", 5)) { printf("%s\n", line); continue; }
        nf = split_fields(line, fv, 16);
        if (nf < 2 || strcmp(fv[0], "graph")) { printf("bad-op\n"); continue; }
        g = fv[1];
        for (i = 2; i < nf; i++) {
            if (!strncmp(fv[i], "bad=", 4)) nbad = split_list(fv[i] + 4, bad, MAXN);
            else if (!strncmp(fv[i], "nohook=", 7)) nnohook = split_list(fv[i] + 7, nohook, MAXN);
            else if (!strncmp(fv[i], "list=", 5) && nlists < 8) {
                list_n[nlists] = split_list(fv[i] + 5, lbuf[nlists], MAXN);
                lists[nlists] = lbuf[nlists];
                nlists++;
            } else okay = 0;
        }
        if (!okay || !stub_dir) { printf("bad-op\n"); continue; }
        run_graph(g, bad, nbad, nohook, nnohook, lists, list_n, nlists);
    }
}

int main(int argc, char **argv)
{
    int a;
    for (a = 1; a < argc; a++)
        if (!strncmp(argv[a], "--stubs=", 8)) stub_dir = argv[a] + 8;
    return h_main(argc, argv);
}
