/* Shared plumbing for the correspondence harnesses.
 *
 * Input (stdin): text, one operation per line.  A line `case <name>` starts a new
 * case; every case is run in a forked child so that global state of the code under
 * test is fresh and a crash (signal, sanitizer abort, _exit) is confined to the case.
 * Output (stdout): exactly one record line per input line (`case <name>` is echoed),
 * plus, when a child dies, one line `fault <how>` in place of the missing records.
 *
 * The harness proper defines:   static void run_case(char **lines, int n);
 * which must print one line per element of lines[0..n).
 */
#ifndef H_COMMON_H
#define H_COMMON_H
#include <stdio.h>
#include <stdlib.h>
#include <string.h>
#include <unistd.h>
#include <errno.h>
#include <signal.h>
#include <sys/types.h>
#include <sys/wait.h>

static void run_case(char **lines, int n);

static int hexval(int c)
{
    if (c >= '0' && c <= '9') return c - '0';
    if (c >= 'a' && c <= 'f') return c - 'a' + 10;
    if (c >= 'A' && c <= 'F') return c - 'A' + 10;
    return -1;
}

/* Decode hex text into a fresh NUL-terminated buffer; "-" gives NULL, "" gives "". */
static char *unhex(const char *s, size_t *len_out)
{
    size_t n, i;
    char *out;
    if (s == NULL || (s[0] == '-' && s[1] == '\0')) { if (len_out) *len_out = 0; return NULL; }
    if (s[0] == '=' ) s++; /* "=" prefix marks an explicitly empty string */
    n = strlen(s) / 2;
    out = malloc(n + 1);
    for (i = 0; i < n; i++)
        out[i] = (char)((hexval(s[2*i]) << 4) | hexval(s[2*i+1]));
    out[n] = '\0';
    if (len_out) *len_out = n;
    return out;
}

static void puthex(FILE *f, const void *p_, size_t n)
{
    static const char hd[] = "0123456789abcdef";
    const unsigned char *p = p_;
    size_t i;
    if (n == 0) { fputc('=', f); return; }
    for (i = 0; i < n; i++) { fputc(hd[p[i] >> 4], f); fputc(hd[p[i] & 15], f); }
}

static void puthexs(FILE *f, const char *s)
{
    if (!s) { fputc('-', f); return; }
    puthex(f, s, strlen(s));
}

/* split a line into blank-separated fields (in place) */
static int split_fields(char *line, char **fv, int max)
{
    int n = 0;
    char *p = line;
    while (n < max) {
        while (*p == ' ') p++;
        if (!*p) break;
        fv[n++] = p;
        while (*p && *p != ' ') p++;
        if (!*p) break;
        *p++ = '\0';
    }
    return n;
}

#ifndef H_OUTPUT_LIMIT
#define H_OUTPUT_LIMIT ((size_t)16 << 20)
#endif
static int h_watchdog = 20; /* seconds per case */
static int h_nofork = 0;

static int h_main(int argc, char **argv)
{
    char *buf = NULL;
    size_t cap = 0, len = 0;
    char **lines = NULL;
    size_t nlines = 0, lcap = 0, i;
    int a;

    for (a = 1; a < argc; a++) {
        if (!strcmp(argv[a], "--nofork")) h_nofork = 1;
        else if (!strncmp(argv[a], "--watchdog=", 11)) h_watchdog = atoi(argv[a] + 11);
    }
    for (;;) {
        if (cap - len < 65536) { cap = cap ? cap * 2 : (1 << 20); buf = realloc(buf, cap); }
        ssize_t r = read(0, buf + len, cap - len - 1);
        if (r < 0) { if (errno == EINTR) continue; perror("read"); return 2; }
        if (r == 0) break;
        len += (size_t)r;
    }
    buf[len] = '\0';
    for (char *p = buf; p < buf + len; ) {
        char *e = memchr(p, '\n', (size_t)(buf + len - p));
        if (!e) e = buf + len;
        *e = '\0';
        if (nlines == lcap) { lcap = lcap ? lcap * 2 : 1024; lines = realloc(lines, lcap * sizeof(*lines)); }
        lines[nlines++] = p;
        p = e + 1;
    }
    setvbuf(stdout, NULL, _IOLBF, 0);
    for (i = 0; i < nlines; ) {
        size_t j = i + 1;
        while (j < nlines && strncmp(lines[j], "case ", 5) != 0) j++;
        /* lines[i..j) is one case (the first may lack a `case` line) */
        if (h_nofork) {
            run_case(lines + i, (int)(j - i));
            fflush(stdout);
        } else {
            pid_t pid;
            int st = 0, relay[2], runaway = 0;
            size_t relayed = 0;
            fflush(stdout);
            if (pipe(relay)) { perror("pipe"); return 2; }
            pid = fork();
            if (pid < 0) { perror("fork"); return 2; }
            if (pid == 0) {
                close(relay[0]);
                dup2(relay[1], 1);
                close(relay[1]);
                alarm((unsigned)h_watchdog);
                run_case(lines + i, (int)(j - i));
                fflush(stdout);
#ifdef H_COVERAGE
                { extern void __gcov_dump(void); __gcov_dump(); }
#endif
                _exit(0);
            }
            close(relay[1]);
            /* relay the child's records; a case that writes without end (an iteration over a
             * corrupted list, say) is stopped instead of filling the memory of whoever reads us */
            for (;;) {
                static char rb[1 << 16];
                ssize_t r = read(relay[0], rb, sizeof(rb));
                if (r < 0 && errno == EINTR) continue;
                if (r <= 0) break;
                relayed += (size_t)r;
                if (relayed > H_OUTPUT_LIMIT) { runaway = 1; kill(pid, SIGKILL); break; }
                if (fwrite(rb, 1, (size_t)r, stdout) != (size_t)r) break;
            }
            close(relay[0]);
            fflush(stdout);
            while (waitpid(pid, &st, 0) < 0 && errno == EINTR) {}
            if (runaway)
                printf("\nfault output-limit (more than %lu bytes of records from one case: runaway loop)\n", (unsigned long)H_OUTPUT_LIMIT);
            else if (WIFSIGNALED(st))
                printf("fault signal %d%s\n", WTERMSIG(st), WTERMSIG(st) == SIGALRM ? " (watchdog: hang)" : "");
            else if (WIFEXITED(st) && WEXITSTATUS(st) != 0)
                printf("fault exit %d\n", WEXITSTATUS(st));
        }
        i = j;
    }
    return 0;
}
#endif
