/* Correspondence harness for src/set.c (engine Set, property C19).
 * Links the repository's set.c and common.c.  See DESIGN.md Appendix A.
 */
#include "src/common.h"
#include "h_common.h"

/* symbols common.c wants from the rest of the daemon */
struct log_type *log_core;
void log_message(struct log_type *type, enum log_severity sev, const char *format, ...)
{ (void)type; (void)format; if (sev == LOG_FATAL) _exit(1); }
void module_close_all(void) {}

enum { K_INT, K_CHARP, K_VOIDP, K_PTR };

struct elem {
    union { int i; char *s; void *p; } key;
    unsigned uid;
    int kind;
};

static unsigned disposed[4096];
static int n_disposed;
static char arena[65536];         /* addresses used as voidp keys */
#define PTR_KEYS 256
static struct set_node *ptr_nodes[PTR_KEYS]; /* sorted by address */

/* Re-entrant observation: while the cleanup of an element runs, is that element still a member?
 * Probed during set_clear always (set.c detaches the tree first, so the probe reads nothing and
 * changes nothing there) and during set_remove when the case asks for it with `probe 1` (the
 * lookup then splays the remaining tree, which changes its shape but nothing observable).
 * Not probed during a replacing set_insert: there set.c runs the cleanup while the old node is
 * still the root, and the history-level property says nothing about what a callback may see. */
static struct set *probe_set;
static int probe_remove;
static unsigned self_seen[64];
static int n_self_seen;

static void cleanup_cb(void *p)
{
    struct elem *e = p;
    if (probe_set) {
        struct elem *r = set_find(probe_set, e);
        if (r == e && n_self_seen < 64) self_seen[n_self_seen++] = e->uid;
    }
    if (n_disposed < 4096) disposed[n_disposed++] = e->uid;
    if (e->kind == K_CHARP) free(e->key.s);
}

static void print_disposed(void)
{
    int i;
    printf(" d=");
    for (i = 0; i < n_disposed; i++) printf("%s%u", i ? "," : "", disposed[i]);
    n_disposed = 0;
    if (n_self_seen) {
        printf(" cleanup-on-member=");
        for (i = 0; i < n_self_seen; i++) printf("%s%u", i ? "," : "", self_seen[i]);
        n_self_seen = 0;
    }
}

static int cmp_nodes_addr(const void *a, const void *b)
{
    const struct set_node *x = *(struct set_node * const *)a, *y = *(struct set_node * const *)b;
    return (x > y) - (x < y);
}

/* --- structural audit --- */
static const char *audit_fail;
static unsigned audit_n;
static struct set_node *audit_prev;
static struct set *audit_set;

#ifndef H_SET_NO_AUDIT
static void audit_walk(struct set_node *n, unsigned depth)
{
    if (!n || audit_fail) return;
    if (depth > 100000) { audit_fail = "cycle"; return; }
    audit_walk(n->l, depth + 1);
    if (audit_fail) return;
    if (audit_prev) {
        if (audit_set->compare(set_node_data(audit_prev), set_node_data(n)) >= 0) { audit_fail = "bst-order"; return; }
        if (audit_prev->next != n) { audit_fail = "next-link"; return; }
        if (n->prev != audit_prev) { audit_fail = "prev-link"; return; }
    } else if (n->prev) { audit_fail = "first-has-prev"; return; }
    audit_prev = n;
    audit_n++;
    audit_walk(n->r, depth + 1);
}
#endif

static void run_case(char **lines, int n)
{
    struct set *set = NULL;
    int kind = K_INT, li, i;
    char *fv[8];

    for (li = 0; li < n; li++) {
        char *line = lines[li];
        int nf;
        if (!strncmp(line, "case ", 5)) { printf("%s\n", line); continue; }
        nf = split_fields(line, fv, 8);
        if (nf == 0) { printf("bad-op\n"); continue; }
        if (!strcmp(fv[0], "cmp") && nf == 2) {
            set_compare_f *cf = set_compare_int;
            if (!strcmp(fv[1], "int")) { kind = K_INT; cf = set_compare_int; }
            else if (!strcmp(fv[1], "charp")) { kind = K_CHARP; cf = set_compare_charp; }
            else if (!strcmp(fv[1], "voidp")) { kind = K_VOIDP; cf = set_compare_voidp; }
            else if (!strcmp(fv[1], "ptr")) {
                kind = K_PTR; cf = set_compare_ptr;
                for (i = 0; i < PTR_KEYS; i++) ptr_nodes[i] = set_node_alloc(sizeof(struct elem));
                qsort(ptr_nodes, PTR_KEYS, sizeof(ptr_nodes[0]), cmp_nodes_addr);
                for (i = 0; i < PTR_KEYS; i++) {
                    struct elem *e = set_node_data(ptr_nodes[i]);
                    e->uid = (unsigned)i; e->kind = K_PTR;
                }
            }
            set = set_alloc(cf, cleanup_cb);
            printf("ok\n");
            continue;
        }
        if (!strcmp(fv[0], "probe") && nf == 2) { probe_remove = atoi(fv[1]); printf("ok\n"); continue; }
        if (!set) { printf("bad-op\n"); continue; }
        switch (fv[0][0]) {
        case 'I': {
            struct set_node *sn;
            struct elem *e;
            if (nf < 3) { printf("bad-op\n"); break; }
            if (kind == K_PTR) {
                sn = ptr_nodes[atoi(fv[1]) % PTR_KEYS];
            } else {
                sn = set_node_alloc(sizeof(*e));
                e = set_node_data(sn);
                e->kind = kind;
                e->uid = (unsigned)strtoul(fv[2], NULL, 10);
                if (kind == K_INT) e->key.i = (int)strtol(fv[1], NULL, 10);
                else if (kind == K_CHARP) e->key.s = unhex(fv[1], NULL);
                else e->key.p = arena + (atoi(fv[1]) % (int)sizeof(arena));
            }
            set_insert(set, sn);
            printf("ins"); print_disposed(); printf("\n");
            break;
        }
        case 'F': case 'L': case 'R': {
            struct elem probe, *datum = &probe, *res = NULL;
            char *tmp = NULL;
            if (nf < 2) { printf("bad-op\n"); break; }
            memset(&probe, 0, sizeof(probe));
            if (kind == K_INT) probe.key.i = (int)strtol(fv[1], NULL, 10);
            else if (kind == K_CHARP) probe.key.s = tmp = unhex(fv[1], NULL);
            else if (kind == K_VOIDP) probe.key.p = arena + (atoi(fv[1]) % (int)sizeof(arena));
            else datum = set_node_data(ptr_nodes[atoi(fv[1]) % PTR_KEYS]);
            if (fv[0][0] == 'F') {
                res = set_find(set, datum);
                if (res) printf("found %u\n", res->uid); else printf("found none\n");
            } else if (fv[0][0] == 'L') {
                struct set_node *sn = set_lower(set, datum);
                if (sn) printf("lower %u\n", ((struct elem *)set_node_data(sn))->uid); else printf("lower none\n");
            } else {
                int nd = nf >= 3 ? atoi(fv[2]) : 0;
                int r;
                if (probe_remove) probe_set = set;
                r = set_remove(set, datum, nd);
                probe_set = NULL;
                printf("rem %d", r); print_disposed(); printf("\n");
            }
            free(tmp);
            break;
        }
        case 'C': {
            int nd = nf >= 2 ? atoi(fv[1]) : 0;
            unsigned before = set_size(set);
            probe_set = set;
            set_clear(set, nd);
            probe_set = NULL;
            printf("clr %u", before); print_disposed(); printf("\n");
            break;
        }
        case 'W': {
            struct set_node *it;
            int first = 1;
            printf("walk ");
            for (it = set_first(set); it; it = set_next(it)) {
                printf("%s%u", first ? "" : ",", ((struct elem *)set_node_data(it))->uid);
                first = 0;
            }
            printf("\n");
            break;
        }
        case 'B': {
            struct set_node *it;
            int first = 1;
            printf("back ");
#ifndef H_SET_NO_AUDIT
            it = set->root;
            if (it) while (it->r) it = it->r;
#else
            {   struct set_node *nx; it = set_first(set); while (it && (nx = set_next(it))) it = nx; }
#endif
            for (; it; it = set_prev(it)) {
                printf("%s%u", first ? "" : ",", ((struct elem *)set_node_data(it))->uid);
                first = 0;
            }
            printf("\n");
            break;
        }
        case 'S':
            printf("size %u\n", set_size(set));
            break;
        case 'A':
#ifndef H_SET_NO_AUDIT
            audit_fail = NULL; audit_n = 0; audit_prev = NULL; audit_set = set;
            audit_walk(set->root, 0);
            if (!audit_fail && audit_prev && audit_prev->next) audit_fail = "last-has-next";
            if (!audit_fail && audit_n != set_size(set)) audit_fail = "count";
            printf("audit %s\n", audit_fail ? audit_fail : "ok");
#else
            {   /* without access to the node fields: the public walk must visit set_size() elements */
                struct set_node *it; unsigned k = 0;
                for (it = set_first(set); it; it = set_next(it)) k++;
                printf("audit %s\n", k == set_size(set) ? "ok" : "count");
            }
#endif
            break;
        default:
            printf("bad-op\n");
        }
    }
}

int main(int argc, char **argv) { return h_main(argc, argv); }
