/* Correspondence harness for src/log.c driven through src/config.c
 * (engine Log, property C18; reusable for C09's console clause).
 *
 * Links the repository's log.c, config.c, set.c, common.c, bitset.c.  log.c is
 * compiled with -D_exit=h_log_exit so that LOG_FATAL ("process exits with status 1")
 * comes back here instead of killing the child: from then on the daemon is *dead*
 * (no code under test runs any more) but the files it left behind stay observable.
 *
 * Per case the child creates   <tmp>/hlog.<pid>/        conf (the config file), console
 *                              <tmp>/hlog.<pid>/w/      cwd: every destination file
 * and removes both when the case ends.
 *
 * ops (one record each; see DESIGN.md Appendix A, `Log`):
 *   read <hex body>         conf_read("../conf")            -> rc <n> con=<hex> | exit <n> con=<hex>
 *   msg <hexfac> <sev> <hextext>  log_type_register + log_message(type, sev, "%s", text)
 *                                                           -> ok con=<hex>  | exit <n> con=<hex>
 *   verbosity <n>           log_set_verbosity               -> ok
 *   files                   every regular file of the cwd, sorted by name (strcmp)
 *                           -> files <hexname>:<hexline>,<hexline>... <hexname>:...
 *                              each physical line with its "[HH:MM:SS MM/DD/YYYY] " prefix removed;
 *                              a line without such a prefix is printed as !<hex>;
 *                              a last line lacking its newline is printed as ~<hex>
 *   after the daemon died: read/msg/verbosity -> dead ; files still works.
 * con=<hex>: the bytes the code wrote to stdout during the op, with a leading
 * "[HH:MM:SS MM/DD/YYYY] " of each line replaced by "[T] ".
 */
#include "src/common.h"
#include "h_common.h"
#include <setjmp.h>
#include <dirent.h>
#include <fcntl.h>
#include <sys/stat.h>
#include <ctype.h>

/* symbols the linked sources want from the rest of the daemon */
struct event_base *ev_base;
struct evdns_base *ev_dns;
int clean_exit;
const char iauthd_version[] = "h_log";
void module_close_all(void) {}

static jmp_buf exit_jb;
static int exit_armed;
static int exit_code;

void h_log_exit(int code)
{
    if (exit_armed) {
        exit_armed = 0;
        exit_code = code;
        longjmp(exit_jb, 1);
    }
    _exit(code);
}

static const char *tmp_base = NULL;
static char dir_base[512], dir_w[600], path_conf[600], path_console[600];
static int rec_fd = -1, con_fd = -1;
static off_t con_off;

static void rec(const char *s) { size_t n = strlen(s); while (n) { ssize_t w = write(rec_fd, s, n); if (w <= 0) break; s += w; n -= (size_t)w; } }

struct sbuf { char *p; size_t n, cap; };
static void sb_put(struct sbuf *b, const char *s, size_t n)
{
    if (b->n + n + 1 > b->cap) { b->cap = (b->n + n + 1) * 2; b->p = realloc(b->p, b->cap); }
    if (n) memcpy(b->p + b->n, s, n);
    b->n += n; b->p[b->n] = '\0';
}
static void sb_puts(struct sbuf *b, const char *s) { sb_put(b, s, strlen(s)); }
static void sb_hex(struct sbuf *b, const char *s, size_t n)
{
    static const char hd[] = "0123456789abcdef";
    size_t i;
    if (n == 0) { sb_put(b, "=", 1); return; }
    for (i = 0; i < n; i++) { char c[2]; c[0] = hd[(unsigned char)s[i] >> 4]; c[1] = hd[s[i] & 15]; sb_put(b, c, 2); }
}

/* "[dd:dd:dd dd/dd/dddd] " : 22 bytes */
static int ts_prefix(const char *s, size_t n)
{
    static const char pat[] = "[dd:dd:dd dd/dd/dddd] ";
    size_t i;
    if (n < 22) return 0;
    for (i = 0; i < 22; i++) {
        if (pat[i] == 'd') { if (!isdigit((unsigned char)s[i])) return 0; }
        else if (s[i] != pat[i]) return 0;
    }
    return 1;
}

static char *slurp_fd(int fd, off_t from, size_t *len)
{
    struct stat sb;
    char *p;
    size_t want, got = 0;
    if (fstat(fd, &sb) < 0 || sb.st_size <= from) { *len = 0; return calloc(1, 1); }
    want = (size_t)(sb.st_size - from);
    p = malloc(want + 1);
    while (got < want) {
        ssize_t r = pread(fd, p + got, want - got, from + (off_t)got);
        if (r <= 0) break;
        got += (size_t)r;
    }
    p[got] = '\0';
    *len = got;
    return p;
}

/* console bytes since the previous call, timestamps normalised, hex-encoded */
static void put_console(struct sbuf *out)
{
    size_t len, i = 0;
    char *p;
    struct sbuf norm = {0, 0, 0};
    fflush(stdout);
    p = slurp_fd(con_fd, con_off, &len);
    con_off += (off_t)len;
    while (i < len) {
        char *e = memchr(p + i, '\n', len - i);
        size_t ll = e ? (size_t)(e - (p + i)) + 1 : len - i;
        if (ts_prefix(p + i, ll)) { sb_puts(&norm, "[T] "); sb_put(&norm, p + i + 22, ll - 22); }
        else sb_put(&norm, p + i, ll);
        i += ll;
    }
    sb_puts(out, " con=");
    sb_hex(out, norm.p ? norm.p : "", norm.n);
    free(norm.p);
    free(p);
}

static int cmp_names(const void *a, const void *b) { return strcmp(*(char * const *)a, *(char * const *)b); }

static void put_files(struct sbuf *out)
{
    DIR *d = opendir(".");
    struct dirent *de;
    char **names = NULL;
    size_t nn = 0, i;
    sb_puts(out, "files");
    if (!d) { sb_puts(out, " ?opendir"); return; }
    while ((de = readdir(d)) != NULL) {
        struct stat sb;
        if (!strcmp(de->d_name, ".") || !strcmp(de->d_name, "..")) continue;
        if (lstat(de->d_name, &sb) < 0 || !S_ISREG(sb.st_mode)) continue;
        names = realloc(names, (nn + 1) * sizeof(*names));
        names[nn++] = strdup(de->d_name);
    }
    closedir(d);
    if (nn) qsort(names, nn, sizeof(*names), cmp_names);
    for (i = 0; i < nn; i++) {
        int fd = open(names[i], O_RDONLY);
        size_t len = 0, k = 0;
        char *p;
        int first = 1;
        sb_puts(out, " ");
        sb_hex(out, names[i], strlen(names[i]));
        sb_puts(out, ":");
        if (fd < 0) { sb_puts(out, "?open"); free(names[i]); continue; }
        p = slurp_fd(fd, 0, &len);
        close(fd);
        while (k < len) {
            char *e = memchr(p + k, '\n', len - k);
            size_t ll = e ? (size_t)(e - (p + k)) : len - k;
            if (!first) sb_puts(out, ",");
            first = 0;
            if (!e) sb_puts(out, "~");
            if (ts_prefix(p + k, ll)) sb_hex(out, p + k + 22, ll - 22);
            else { sb_puts(out, "!"); sb_hex(out, p + k, ll); }
            k += ll + (e ? 1 : 0);
        }
        free(p);
        free(names[i]);
    }
    free(names);
}

static void rm_tree(void)
{
    DIR *d = opendir(dir_w);
    struct dirent *de;
    char path[1200];
    if (d) {
        while ((de = readdir(d)) != NULL) {
            if (!strcmp(de->d_name, ".") || !strcmp(de->d_name, "..")) continue;
            snprintf(path, sizeof(path), "%s/%s", dir_w, de->d_name);
            if (unlink(path) < 0) rmdir(path);
        }
        closedir(d);
    }
    rmdir(dir_w);
    unlink(path_conf);
    unlink(path_console);
    rmdir(dir_base);
}

static int write_file(const char *path, const char *data, size_t n)
{
    int fd = open(path, O_WRONLY | O_CREAT | O_TRUNC, 0600);
    size_t off = 0;
    if (fd < 0) return -1;
    while (off < n) { ssize_t w = write(fd, data + off, n - off); if (w <= 0) break; off += (size_t)w; }
    close(fd);
    return off == n ? 0 : -1;
}

static void run_case(char **lines, int n)
{
    int li, ready = 0;
    volatile int dead = 0;
    char *fv[8];
    const char *base = tmp_base ? tmp_base : (getenv("TMPDIR") ? getenv("TMPDIR") : "/var/tmp");

    fflush(stdout);
    rec_fd = dup(1);
    snprintf(dir_base, sizeof(dir_base), "%s/hlog.%ld", base, (long)getpid());
    snprintf(dir_w, sizeof(dir_w), "%s/w", dir_base);
    snprintf(path_conf, sizeof(path_conf), "%s/conf", dir_base);
    snprintf(path_console, sizeof(path_console), "%s/console", dir_base);
    if (mkdir(dir_base, 0700) == 0 && mkdir(dir_w, 0700) == 0 && chdir(dir_w) == 0) {
        con_fd = open(path_console, O_RDWR | O_CREAT | O_TRUNC | O_APPEND, 0600);
        if (con_fd >= 0 && dup2(con_fd, 1) == 1) ready = 1;
    }
    con_off = 0;

    if (ready) {
        /* the order of src/main.c: the core log type first (log_init, which registers
         * the `logs` object and, through it, the config layer), then ctype_init. */
        if (setjmp(exit_jb) == 0) {
            exit_armed = 1;
            log_core = log_type_register("core", NULL);
            ctype_init();
            exit_armed = 0;
        } else dead = 1;
    }

    for (li = 0; li < n; li++) {
        char *line = lines[li];
        struct sbuf out = {0, 0, 0};
        int nf;
        if (!strncmp(line, "case ", 5)) { rec(line); rec("\n"); continue; }
        if (!ready) { rec("harness-setup-failed\n"); continue; }
        nf = split_fields(line, fv, 8);
        if (nf == 0) { rec("bad-op\n"); continue; }
        if (!strcmp(fv[0], "files") && nf == 1) {
            put_files(&out);
        } else if (dead && (!strcmp(fv[0], "read") || !strcmp(fv[0], "msg") || !strcmp(fv[0], "verbosity"))) {
            sb_puts(&out, "dead");
        } else if (!strcmp(fv[0], "read") && nf == 2) {
            size_t blen = 0;
            char *body = unhex(fv[1], &blen);
            char tmp[64];
            if (!body || write_file(path_conf, body, blen) < 0) { sb_puts(&out, "harness-write-failed"); }
            else if (setjmp(exit_jb) == 0) {
                int rc;
                exit_armed = 1;
                rc = conf_read("../conf");
                exit_armed = 0;
                snprintf(tmp, sizeof(tmp), "rc %d", rc);
                sb_puts(&out, tmp);
                put_console(&out);
            } else {
                dead = 1;
                snprintf(tmp, sizeof(tmp), "exit %d", exit_code);
                sb_puts(&out, tmp);
                put_console(&out);
            }
            free(body);
        } else if (!strcmp(fv[0], "msg") && nf == 4) {
            char *fac = unhex(fv[1], NULL);
            char *text = unhex(fv[3], NULL);
            int sev = atoi(fv[2]);
            char tmp[64];
            if (!fac || !text || sev < 0 || sev >= LOG_NUM_SEVERITIES || !isdigit((unsigned char)fv[2][0])) {
                sb_puts(&out, "bad-op");
            } else if (setjmp(exit_jb) == 0) {
                struct log_type *lt;
                exit_armed = 1;
                lt = log_type_register(fac, NULL);
                log_message(lt, (enum log_severity)sev, "%s", text);
                exit_armed = 0;
                sb_puts(&out, "ok");
                put_console(&out);
            } else {
                dead = 1;
                snprintf(tmp, sizeof(tmp), "exit %d", exit_code);
                sb_puts(&out, tmp);
                put_console(&out);
            }
            free(fac); free(text);
        } else if (!strcmp(fv[0], "verbosity") && nf == 2) {
            log_set_verbosity(atoi(fv[1]));
            sb_puts(&out, "ok");
        } else {
            sb_puts(&out, "bad-op");
        }
        sb_puts(&out, "\n");
        rec(out.p);
        free(out.p);
    }
    if (ready || dir_base[0]) {
        if (chdir("/") != 0) { /* ignore */ }
        rm_tree();
    }
}

int main(int argc, char **argv)
{
    int a;
    for (a = 1; a < argc; a++)
        if (!strncmp(argv[a], "--tmp=", 6)) tmp_base = argv[a] + 6;
    return h_main(argc, argv);
}
