/* Correspondence harness for src/config.c (engine `Conf`, properties C14-C16).
 *
 * Links the repository's own config.c, set.c, common.c, bitset.c.  The logging
 * layer, the event bases and the evdns entry points config.c references are
 * supplied here, so the live tree holds only what the op file registers.
 *
 * Ops (one record per op line; byte strings hex, "=" empty, "-" NULL):
 *   props <Cnn,...>                         -> ok        (case tag, no effect)
 *   read <body> [doc=...] [lay=...]         -> rc <n> hooks <path,...|-> w=<warnings>
 *   reg <s|a|l|L|o> <path> <subtype> <defaults> hook=<0|1>
 *                                           -> ok hooks <...> w=<n>
 *        path = hexname/hexname/... (ancestors are conf_register_object'ed)
 *        defaults: s: hex|-   a: hex|-:hex|-   l,L: hex,hex,...|-   o: -
 *        (l = conf_register_string_list varargs, L = ..._sv)
 *   hook <s|a|l|o> <path>                   -> ok | nonode   (install hook on an existing node, like log.c)
 *   dump                                    -> dump <node> <node> ...
 *        node = depth:type:name:p<0|1>:s<0|1>:h<0|1>:v=<..>:d=<..>:P=<..>
 *   parse <subtype> <hex>                   -> val <unsigned> ok=<0|1>
 */
#include "h_common.h"
#include "src/common.h"
#include <stdarg.h>
#include <stdint.h>

/* ---- what config.c / common.c expect from the rest of the daemon ---- */
struct event_base *ev_base;
struct evdns_base *ev_dns;
struct log_type { int dummy; };
static struct log_type the_log_type;
struct log_type *log_core = &the_log_type;
static int n_warnings, n_errors;

struct log_type *log_type_register(const char *name, const char *default_target)
{
    (void)name; (void)default_target;
    return &the_log_type;
}

void log_message(struct log_type *type, enum log_severity sev, const char *format, ...)
{
    (void)type; (void)format;
    if (sev == LOG_WARNING) n_warnings++;
    else if (sev == LOG_ERROR) n_errors++;
    else if (sev == LOG_FATAL) { fflush(stdout); _exit(1); }
}

void module_close_all(void) {}

struct evdns_getaddrinfo_request *evdns_getaddrinfo(struct evdns_base *b, const char *n, const char *s,
    const struct evutil_addrinfo *h, evdns_getaddrinfo_cb cb, void *arg)
{ (void)b; (void)n; (void)s; (void)h; (void)cb; (void)arg; return NULL; }
void evdns_getaddrinfo_cancel(struct evdns_getaddrinfo_request *r) { (void)r; }
const char *evdns_err_to_string(int err) { (void)err; return "err"; }
void evutil_freeaddrinfo(struct evutil_addrinfo *ai) { (void)ai; }

/* ---- hook log ---- */
static char hooklog[1 << 16];
static size_t hooklen;
static const char type_letter[] = "salo";

static void path_of(struct conf_node_base *n, char *out, size_t cap, size_t *len)
{
    static const char hd[] = "0123456789abcdef";
    if (n->parent && n->parent->base.parent) {
        path_of(&n->parent->base, out, cap, len);
        if (*len < cap) out[(*len)++] = '/';
    }
    if (!n->name || !*n->name) { if (*len < cap) out[(*len)++] = '='; return; }
    for (const unsigned char *p = (const unsigned char *)n->name; *p; p++) {
        if (*len + 2 < cap) { out[(*len)++] = hd[*p >> 4]; out[(*len)++] = hd[*p & 15]; }
    }
}

static CONF_UPDATE_HOOK(the_hook)
{
    if (hooklen) hooklog[hooklen++] = ',';
    hooklog[hooklen++] = type_letter[node_->type];
    hooklog[hooklen++] = ':';
    path_of(node_, hooklog, sizeof(hooklog) - 8, &hooklen);
    hooklog[hooklen] = '\0';
}

static void begin_op(void) { hooklen = 0; hooklog[0] = '\0'; n_warnings = 0; n_errors = 0; }
static void end_op(const char *head)
{
    printf("%s hooks %s w=%d\n", head, hooklen ? hooklog : "-", n_warnings);
}

/* ---- dump ---- */
static void dump_sv(const struct string_vector *sv)
{
    unsigned int i;
    if (!sv->used) { fputs("()", stdout); return; }
    for (i = 0; i < sv->used; i++) { if (i) fputc(',', stdout); puthexs(stdout, sv->vec[i]); }
}

static void dump_obj(struct conf_node_object *obj, int depth)
{
    struct set_node *it;
    for (it = set_first(&obj->contents); it; it = set_next(it)) {
        struct conf_node_base *b = set_node_data(it);
        printf(" %d:%c:", depth, type_letter[b->type]);
        puthexs(stdout, b->name);
        printf(":p%d:s%d:h%d:", b->present, b->specified, b->hook ? 1 : 0);
        switch (b->type) {
        case CONF_STRING: {
            struct conf_node_string *n = (struct conf_node_string *)b;
            fputs("v=", stdout); puthexs(stdout, n->value);
            fputs(":d=", stdout); puthexs(stdout, n->def_value);
            printf(":t%d:P=", (int)n->subtype);
            if (n->subtype == CONF_STRING_PLAIN)
                fputs(!n->parsed.p_string ? "-" : (n->parsed.p_string == n->value ? "v" : "?"), stdout);
            else if (n->subtype == CONF_STRING_FLOAT) {
                uint64_t bits; memcpy(&bits, &n->parsed.p_double, 8);
                printf("f%016llx", (unsigned long long)bits);
            } else {
                /* a typed parse occupies the low four bytes; anything above is a stale string pointer */
                uint64_t bits; memcpy(&bits, &n->parsed, 8);
                if (bits >> 32) fputc('?', stdout);
                else printf("%u", n->parsed.p_interval);
            }
            break;
        }
        case CONF_INADDR: {
            struct conf_node_inaddr *n = (struct conf_node_inaddr *)b;
            fputs("v=", stdout); puthexs(stdout, n->hostname); fputc('+', stdout); puthexs(stdout, n->service);
            fputs(":d=", stdout); puthexs(stdout, n->def_hostname); fputc('+', stdout); puthexs(stdout, n->def_service);
            break;
        }
        case CONF_STRING_LIST: {
            struct conf_node_string_list *n = (struct conf_node_string_list *)b;
            fputs("v=", stdout); dump_sv(&n->value);
            fputs(":d=", stdout); dump_sv(&n->def_value);
            printf(":c%d", n->value.size ? 1 : 0);
            break;
        }
        case CONF_OBJECT:
            dump_obj((struct conf_node_object *)b, depth + 1);
            break;
        }
    }
}

/* ---- path handling ---- */
#define MAXDEPTH 16
static int split_path(char *path, char **names)
{
    int n = 0;
    char *p = path;
    while (n < MAXDEPTH) {
        char *e = strchr(p, '/');
        if (e) *e = '\0';
        names[n++] = unhex(p, NULL);
        if (!names[n - 1]) names[n - 1] = strdup("");
        if (!e) break;
        p = e + 1;
    }
    return n;
}

static enum conf_node_type kind_type(char k)
{
    switch (k) {
    case 's': return CONF_STRING;
    case 'a': return CONF_INADDR;
    case 'l': case 'L': return CONF_STRING_LIST;
    default: return CONF_OBJECT;
    }
}

/* registered defaults must outlive the node: never freed (one child process per case) */
static void do_reg(char **f, int nf)
{
    char *names[MAXDEPTH];
    int n, i, want_hook;
    struct conf_node_object *parent = NULL;
    struct conf_node_base *node = NULL;
    char kind;

    if (nf < 6) { printf("bad-op\n"); return; }
    kind = f[1][0];
    n = split_path(f[2], names);
    want_hook = !strcmp(f[5], "hook=1");
    begin_op();
    for (i = 0; i + 1 < n; i++)
        parent = conf_register_object(parent, names[i]);
    switch (kind) {
    case 's': {
        char *def = unhex(f[4], NULL);
        node = &conf_register_string(parent, (enum conf_node_string_subtype)atoi(f[3]), names[n - 1], def)->base;
        break;
    }
    case 'a': {
        char *sep = strchr(f[4], ':');
        char *h, *s;
        if (!sep) { printf("bad-op\n"); return; }
        *sep = '\0';
        h = unhex(f[4], NULL);
        s = unhex(sep + 1, NULL);
        node = &conf_register_inaddr(parent, names[n - 1], h, s)->base;
        break;
    }
    case 'l': case 'L': {
        char *items[8];
        int ni = 0;
        if (strcmp(f[4], "-")) {
            char *p = f[4];
            while (ni < 8) {
                char *e = strchr(p, ',');
                if (e) *e = '\0';
                items[ni++] = unhex(p, NULL);
                if (!e) break;
                p = e + 1;
            }
        }
        if (kind == 'L') {
            struct string_vector sv;
            memset(&sv, 0, sizeof(sv));
            for (i = 0; i < ni; i++) string_vector_append(&sv, items[i]);
            node = &conf_register_string_list_sv(parent, names[n - 1], &sv)->base;
            string_vector_clear(&sv);
        } else switch (ni) {
        case 0: node = &conf_register_string_list(parent, names[n - 1], NULL)->base; break;
        case 1: node = &conf_register_string_list(parent, names[n - 1], items[0], NULL)->base; break;
        case 2: node = &conf_register_string_list(parent, names[n - 1], items[0], items[1], NULL)->base; break;
        case 3: node = &conf_register_string_list(parent, names[n - 1], items[0], items[1], items[2], NULL)->base; break;
        default: node = &conf_register_string_list(parent, names[n - 1], items[0], items[1], items[2], items[3], NULL)->base; break;
        }
        break;
    }
    default:
        node = &conf_register_object(parent, names[n - 1])->base;
        break;
    }
    if (want_hook)
        node->hook = the_hook;
    end_op("ok");
}

static void do_hook(char **f, int nf)
{
    char *names[MAXDEPTH];
    int n, i;
    struct conf_node_object *parent = conf_get_root();
    struct conf_node_base *node = NULL;

    if (nf < 3) { printf("bad-op\n"); return; }
    n = split_path(f[2], names);
    for (i = 0; i + 1 < n && parent; i++)
        parent = conf_get_child(parent, names[i], CONF_OBJECT);
    if (parent)
        node = conf_get_child(parent, names[n - 1], kind_type(f[1][0]));
    if (!node) { printf("nonode\n"); return; }
    node->hook = the_hook;
    printf("ok\n");
}

static void do_read(char **f, int nf)
{
    char tmpl[256];
    const char *dir = getenv("TMPDIR");
    size_t len = 0;
    char *body;
    int fd, rc;

    if (nf < 2) { printf("bad-op\n"); return; }
    body = unhex(f[1], &len);
    snprintf(tmpl, sizeof(tmpl), "%s/h_conf_XXXXXX", (dir && *dir) ? dir : "/var/tmp");
    fd = mkstemp(tmpl);
    if (fd < 0) { printf("harness-error mkstemp\n"); return; }
    if (len && write(fd, body, len) != (ssize_t)len) { printf("harness-error write\n"); close(fd); unlink(tmpl); return; }
    close(fd);
    free(body);
    begin_op();
    rc = conf_read(tmpl);
    unlink(tmpl);
    {
        char head[32];
        snprintf(head, sizeof(head), "rc %d", rc);
        end_op(head);
    }
}

static void do_parse(char **f, int nf)
{
    char *s;
    int ok = 0;
    unsigned int v = 0;
    if (nf < 3) { printf("bad-op\n"); return; }
    s = unhex(f[2], NULL);
    if (!s) { printf("bad-op\n"); return; }
    switch (atoi(f[1])) {
    case CONF_STRING_BOOLEAN: v = (unsigned int)conf_parse_boolean(s, &ok); break;
    case CONF_STRING_INTEGER: v = (unsigned int)conf_parse_integer(s, &ok); break;
    case CONF_STRING_INTERVAL: v = conf_parse_interval(s, &ok); break;
    case CONF_STRING_VOLUME: v = conf_parse_volume(s, &ok); break;
    default: free(s); printf("bad-op\n"); return;
    }
    free(s);
    printf("val %u ok=%d\n", v, ok ? 1 : 0);
}

static void run_case(char **lines, int n)
{
    int i;
    ctype_init();
    (void)conf_get_root();   /* config_init(): every real caller registers an object first */
    for (i = 0; i < n; i++) {
        char *f[8];
        int nf;
        if (!strncmp(lines[i], "case ", 5)) { printf("%s\n", lines[i]); continue; }
        nf = split_fields(lines[i], f, 8);
        if (nf == 0) { printf("bad-op\n"); continue; }
        if (!strcmp(f[0], "props")) printf("ok\n");
        else if (!strcmp(f[0], "read")) do_read(f, nf);
        else if (!strcmp(f[0], "reg")) do_reg(f, nf);
        else if (!strcmp(f[0], "hook")) do_hook(f, nf);
        else if (!strcmp(f[0], "dump")) { fputs("dump", stdout); dump_obj(conf_get_root(), 1); fputc('\n', stdout); }
        else if (!strcmp(f[0], "parse")) do_parse(f, nf);
        else printf("bad-op\n");
        fflush(stdout);
    }
}

int main(int argc, char **argv) { return h_main(argc, argv); }
