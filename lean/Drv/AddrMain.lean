import Drv.Util
def main (_args : List String) : IO UInt32 := do
  IO.eprintln "driver not implemented yet"
  return 2
