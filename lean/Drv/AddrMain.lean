import Iauthd.Addr.Spec
import Drv.Util
/-
  drv_addr model [ntop-pinned] [pton-fixed] < ops       one record per op line (harness syntax);
                                                        default = repaired printer, parser as in the repository
  drv_addr pinned              < ops                    = model ntop-pinned
  drv_addr spec                < ops                    the functional parts of the spec
  drv_addr judge C12|C13       < "op<TAB>record" lines  `ok …` / `FAIL <clause> …` per line
-/
open Iauthd Iauthd.Addr

namespace Drv.AddrDrv

def hexNat? (s : String) : Option Nat :=
  if s.isEmpty then none else
  s.toList.foldl (fun acc c => match acc, Bytes.hexVal c with
    | some a, some v => some (a * 16 + v)
    | _, _ => none) (some 0)

def groups? (fs : List String) : Option Addr :=
  if fs.length ≠ 8 then none else
  match allSome (fs.map hexNat?) with
  | some gs => if gs.all (· < 65536) then some (Addr.ofList gs) else none
  | none => none

def hexOfNat (n : Nat) : String := String.ofList (Nat.toDigits 16 n)

def showGroups (a : Addr) : String := " ".intercalate (a.toNats.map hexOfNat)

def showFault : Fault → String
  | .oob site i => s!"fault oob {site} {i}"
  | .nullDeref site => s!"fault null {site}"
  | .fuel site => s!"fault fuel {site}"

def showPton : M PtonRes → String
  | .error f => showFault f
  | .ok r =>
    if r.uninit then s!"p {r.ret} uninit"
    else s!"p {r.ret} {showGroups r.addr} {match r.bits with | none => "-" | some b => toString b}"

def flags? (f : String) : Option (Bool × Bool) :=
  match f.toList with
  | ['b', b, 't', t] =>
    if (b == '0' || b == '1') && (t == '0' || t == '1') then some (b == '1', t == '1') else none
  | _ => none

/-- the C string inside a hex-encoded byte string -/
def cstrOfHex (h : String) : Option Bytes :=
  if h == "-" then none else some (Bytes.cstr (Bytes.ofHex h))

def modelLine (pinned : Bool) (fx : Bool) (line : String) : String :=
  let ntopF := if pinned then ntopPinned else ntop
  let pton := ptonWith fx
  match fields line with
  | "ntop" :: rest =>
    if rest.length ≠ 9 then "bad-op" else
    match groups? (rest.take 8), (rest.getD 8 "").toNat? with
    | some a, some sz =>
      if sz == 0 || sz > 4096 then "bad-op" else
      let (t, r) := ntopF a sz
      s!"n {r} {Bytes.toHex t}"
    | _, _ => "bad-op"
  | ["pton", fl, h] =>
    match flags? fl, cstrOfHex h with
    | some (wb, tr), some s => showPton (pton s wb tr)
    | _, _ => "bad-op"
  | "mask" :: rest =>
    if rest.length ≠ 17 then "bad-op" else
    match groups? (rest.take 8), groups? ((rest.drop 8).take 8), (rest.getD 16 "").toNat? with
    | some a, some m, some n => s!"m {if checkMask a m (n % 4294967296) then 1 else 0}"
    | _, _, _ => "bad-op"
  | ["libc", h] => if h == "-" then "bad-op" else "l"
  | "rt" :: rest =>
    match groups? rest with
    | some a =>
      let (t, r) := ntopF a 40
      match pton t false false with
      | .error f => showFault f
      | .ok p =>
        let (t2, r2) := ntopF p.addr 40
        s!"r {r} {Bytes.toHex t} {p.ret} {showGroups p.addr} {r2} {Bytes.toHex t2}"
    | none => "bad-op"
  | _ => "bad-op"

def showRef : Option Addr → String
  | some a => s!"l 1 {showGroups a}"
  | none => "l 0 0 0 0 0 0 0 0 0"

def specLine (line : String) : String :=
  match fields line with
  | "mask" :: rest =>
    match groups? (rest.take 8), groups? ((rest.drop 8).take 8), (rest.getD 16 "").toNat? with
    | some a, some m, some n => s!"m {if prefixEq a m n then 1 else 0}"
    | _, _, _ => "bad-op"
  | ["libc", h] => match cstrOfHex h with
    | some s => showRef (refParse s)
    | none => "bad-op"
  | _ => "-"

def verdict : Option String → String
  | none => "ok"
  | some e => "FAIL " ++ e

def judgeLine (prop : String) (line : String) : String :=
  match line.splitOn "\t" with
  | [op, rec] =>
    if rec == "<missing>" then "skip" else
    if rec.startsWith "fault" then "FAIL fault " ++ rec else
    let r := fields rec
    match fields op with
    | "rt" :: gs =>
      if prop != "C12" then "ok" else
      -- r ret text pret pg0..pg7 ret2 text2 | lok lg0..lg7
      if r.length ≠ 24 then "FAIL malformed-record" else
      match groups? gs, (r.getD 1 "").toNat?, (r.getD 3 "").toNat?, groups? ((r.drop 4).take 8),
            groups? ((r.drop 16).take 8) with
      | some a, some ret, some pret, some pa, some la =>
        verdict (c12Check a ret (Bytes.ofHex (r.getD 2 "")) pret pa (r.getD 15 "" == "1") la
                  (Bytes.ofHex (r.getD 13 "")))
      | _, _, _, _, _ => "FAIL malformed-record"
    | "ntop" :: rest =>
      if prop != "C12" then "ok" else
      match groups? (rest.take 8), (rest.getD 8 "").toNat?, (r.getD 1 "").toNat? with
      | some a, some sz, some ret =>
        if r.getD 2 "" == "unterminated" then "FAIL unterminated" else
        verdict (c12NtopCheck a sz ret (Bytes.ofHex (r.getD 2 "")))
      | _, _, _ => "FAIL malformed-record"
    | "mask" :: rest =>
      if prop != "C13" then "ok" else
      match groups? (rest.take 8), groups? ((rest.drop 8).take 8), (rest.getD 16 "").toNat? with
      | some a, some m, some n => verdict (c13MaskCheck a m n (r.getD 1 "" == "1"))
      | _, _, _ => "FAIL malformed-record"
    | ["pton", fl, h] =>
      if prop != "C13" then "ok" else
      match flags? fl, cstrOfHex h with
      | some (wb, tr), some s =>
        if r.getD 2 "" == "uninit" then "ok uninit" else
        match (r.getD 1 "").toNat?, groups? ((r.drop 2).take 8) with
        | some ret, some addr =>
          let bits := (r.getD 10 "-").toNat?
          let tag := (if (refParse s).isSome then " plain" else if (docParse s).isSome then " doc" else " free")
            ++ (if ret == 0 then " rej" else if ret == s.length then " acc" else " part")
          match c13PtonCheck s wb tr ret addr bits with
          | none => "ok" ++ tag
          | some e => "FAIL " ++ e
        | _, _ => "FAIL malformed-record"
      | _, _ => "FAIL malformed-record"
    | ["libc", h] =>
      -- the oracle itself: glibc and the reference grammar must agree
      match cstrOfHex h with
      | some s => if showRef (refParse s) == rec then "ok" else "FAIL reference-grammar-vs-libc " ++ showRef (refParse s)
      | none => "FAIL malformed-record"
    | _ => if rec == "bad-op" then "ok" else "FAIL malformed-record"
  | _ => if line.startsWith "case " then line else "FAIL malformed-line"

end Drv.AddrDrv

open Drv Drv.AddrDrv in
def main (args : List String) : IO UInt32 := do
  let mode := args.headD "model"
  let f : String → String ←
    match mode with
    | "model" => pure (modelLine (args.contains "ntop-pinned") (args.contains "pton-fixed"))
    | "pinned" => pure (modelLine true false)
    | "spec" => pure specLine
    | "judge" => pure (judgeLine (args.getD 1 "C12"))
    | _ => do IO.eprintln "usage: drv_addr model|pinned|spec|judge <Cnn>"; return 2
  let lines ← readLines
  let mut out : Array String := Array.mkEmpty lines.size
  for l in lines do
    out := out.push (if l.startsWith "case " then l else f l)
  emit (← IO.getStdout) out
  return 0
