import Iauthd.Set.Spec
import Iauthd.Set.Comparators
import Drv.Util
import Std.Data.HashSet
/-
  drv_set model|spec < ops
  One output line per input line, same record syntax as harness/h_set.c.
-/
open Iauthd Iauthd.Set

namespace Drv.SetDrv

inductive Kind | int | charp | ptr deriving BEq

/-- a uniform element: the comparator looks at the component for the active kind -/
structure Elem where
  ik : Int := 0
  sk : Bytes := []
  pk : Nat := 0
  uid : Nat := 0
  deriving Repr, BEq

def cmpOf : Kind → Elem → Elem → Int
  | .int, a, b => cmpInt3 ⟨a.ik, a.uid⟩ ⟨b.ik, b.uid⟩
  | .charp, a, b => cmpCharp ⟨a.sk, a.uid⟩ ⟨b.sk, b.uid⟩
  | .ptr, a, b => cmpPtr ⟨a.pk, a.uid⟩ ⟨b.pk, b.uid⟩

/-- the comparators the driver actually executes are lawful, so `Iauthd.Properties.C19`
    applies to every run of `drv_set model` -/
theorem cmpOf_laws (k : Kind) : CmpLaws (cmpOf k) := by
  cases k
  · exact cmpInt3_laws.comap (fun a : Elem => (⟨a.ik, a.uid⟩ : IntElem))
  · exact cmpCharp_laws.comap (fun a : Elem => (⟨a.sk, a.uid⟩ : StrElem))
  · exact cmpPtr_laws.comap (fun a : Elem => (⟨a.pk, a.uid⟩ : PtrElem))

def parseKey (kind : Kind) (ptrMod : Nat) (s : String) (uid : Nat) : Elem :=
  match kind with
  | .int => { ik := wrap32 (s.toInt?.getD 0), uid }
  | .charp => { sk := Bytes.cstr (Bytes.ofHex s), uid }
  | .ptr => { pk := (s.toNat?.getD 0) % ptrMod, uid }

def uids (xs : List Elem) : String := ",".intercalate (xs.map fun e => toString e.uid)
def optUid : Option Elem → String
  | none => "none"
  | some e => toString e.uid
def dOpt : Option Elem → String
  | none => ""
  | some e => toString e.uid

def renderOut : Out Elem → String
  | .ins d => s!"ins d={dOpt d}"
  | .found x => s!"found {optUid x}"
  | .lower x => s!"lower {optUid x}"
  | .rem b d => s!"rem {if b then 1 else 0} d={dOpt d}"
  | .clr n d => s!"clr {n} d={uids d}"
  | .walk xs => s!"walk {uids xs}"
  | .back xs => s!"back {uids xs}"
  | .size n => s!"size {n}"

structure St where
  kind : Kind := .int
  ptrMod : Nat := 65536
  isPtrCmp : Bool := false
  active : Bool := false
  model : SetSt Elem := {}
  spec : List Elem := []

def parseOp (st : St) (f : List String) : Option (Op Elem) :=
  let key (s : String) (uid : Nat) := parseKey st.kind st.ptrMod s uid
  match f with
  | ["I", k, u] =>
    let uid := u.toNat?.getD 0
    -- for the `ptr` comparator the element *is* its address: uid = key index
    some (.ins (if st.isPtrCmp then let e := key k 0; { e with uid := e.pk } else key k uid))
  | ["F", k] => some (.find (key k 0))
  | ["L", k] => some (.lower (key k 0))
  | ["R", k] => some (.rem (key k 0) false)
  | ["R", k, nd] => some (.rem (key k 0) (nd.toInt?.getD 0 != 0))
  | ["C"] => some (.clear false)
  | ["C", nd] => some (.clear (nd.toInt?.getD 0 != 0))
  | ["W"] => some .walk
  | ["B"] => some .back
  | ["S"] => some .size
  | _ => none

def stepLine (useSpec : Bool) (st : St) (line : String) : St × String :=
  if line.startsWith "case " then ({}, line)
  else
    match fields line with
    | ["cmp", k] =>
      let (kind, pm, isP) := match k with
        | "int" => (Kind.int, 65536, false)
        | "charp" => (Kind.charp, 65536, false)
        | "voidp" => (Kind.ptr, 65536, false)
        | _ => (Kind.ptr, 256, true)
      ({ kind, ptrMod := pm, isPtrCmp := isP, active := true }, "ok")
    | ["A"] => (st, if st.active then "audit ok" else "bad-op")
    | ["probe", _] => (st, "ok")     -- harness-only switch (re-entrant membership probe in cleanups)
    | f =>
      if !st.active then (st, "bad-op") else
      match parseOp st f with
      | none => (st, "bad-op")
      | some op =>
        let cmp := cmpOf st.kind
        if useSpec then
          let (xs, o) := stepSpec cmp st.spec op
          ({ st with spec := xs }, renderOut o)
        else
          let (m, o) := stepModel cmp st.model op
          ({ st with model := m }, renderOut o)

/-! ### small-scope enumerator: breadth-first over reachable model states -/

def treeKey : Tree Elem → String
  | .nil => "."
  | .node l x r => "(" ++ treeKey l ++ toString x.ik ++ treeKey r ++ ")"

def alphabet (n : Nat) : List String :=
  let ks := (List.range n).map (· + 1)
  ks.map (fun k => s!"I {k}") ++ ks.map (fun k => s!"F {k}") ++
  ((List.range (n + 2)).map fun k => s!"L {k}") ++
  ks.map (fun k => s!"R {k} 0") ++ ks.map (fun k => s!"R {k} 1") ++ ["C 0"]

/-- returns the cases (each a list of op lines, without `case`/`cmp` header) -/
partial def enumerate (n : Nat) : Array (List String) := Id.run do
  let cmp := cmpOf .int
  let mut seen : Std.HashSet String := {}
  let mut queue : Array (SetSt Elem × List String) := #[({}, [])]
  let mut qi := 0
  let mut out : Array (List String) := #[]
  seen := seen.insert "."
  while qi < queue.size do
    let (s, path) := queue[qi]!
    qi := qi + 1
    for a in alphabet n do
      let line := if a.startsWith "I " then a ++ s!" {path.length + 1}" else a
      let st : St := { kind := .int, active := true, model := s }
      match parseOp st (fields line) with
      | none => pure ()
      | some op =>
        let (s', _) := stepModel cmp s op
        out := out.push (path ++ [line, "W", "B", "S", "A"])
        let key := treeKey s'.tree
        if !seen.contains key then
          seen := seen.insert key
          queue := queue.push (s', path ++ [line])
  return out

end Drv.SetDrv

open Drv Drv.SetDrv in
def main (args : List String) : IO UInt32 := do
  if args.head? == some "enum" then
    let n := (args.getD 1 "3").toNat?.getD 3
    let cases := enumerate n
    let mut out : Array String := #[]
    let mut i := 0
    for c in cases do
      out := out.push s!"case enum{n}/{i}"
      out := out.push "cmp int"
      for l in c do out := out.push l
      i := i + 1
    emit (← IO.getStdout) out
    return 0
  let useSpec := args.head? == some "spec"
  let lines ← readLines
  let mut st : St := {}
  let mut out : Array String := Array.mkEmpty lines.size
  for l in lines do
    let (st', o) := stepLine useSpec st l
    st := st'
    out := out.push o
  emit (← IO.getStdout) out
  return 0
