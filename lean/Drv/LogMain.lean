import Iauthd.Log.Spec
import Drv.Util
/-
  drv_log model|spec < ops
  One output line per input line, same record syntax as harness/h_log.c.

    read <hex body>            model: rc <n> con=<hex> | exit 1 con=<hex>      spec: -
    msg <hexfac> <sev> <hex>   model: ok con=<hex>     | exit 1 con=<hex>      spec: -
    verbosity <n>              model: ok                                        spec: -
    files                      files <hexname>:<hexline>,… …   (sorted by name)
    after the process died     dead (files still answers)

  The config file body is read by a deliberately small parser for the layout the generators
  use (`name { "key" "value"; "key" ("v", "v"); };`, no escapes, no comments, every entry
  terminated by `;`).  Anything else is answered `unsupported …`, never guessed.  The two syntax
  errors the generators produce on purpose (a stray `!` where an entry starts, end of file
  inside a block) are recognised with their line number, because conf_read logs them.
-/
open Iauthd Iauthd.Log

namespace Drv.LogDrv

/-! ### the small config parser -/

inductive Tok where
  | str (b : Bytes) | lbrace | rbrace | lparen | rparen | comma | semi
  | bad (c : UInt8)        -- a byte that cannot start a token
  | eof
  deriving Repr, BEq, DecidableEq

def isTokenChar (c : UInt8) : Bool :=
  (48 ≤ c.toNat && c.toNat ≤ 57) || (65 ≤ c.toNat && c.toNat ≤ 90) || (97 ≤ c.toNat && c.toNat ≤ 122) ||
  c == 45 || c == 46 || c == 95 || c == 35

structure Lx where
  rest : Bytes
  line : Nat := 1
  sawNl : Bool := false     -- a newline was skipped before this token

inductive LexErr | unsupported (why : String)

/-- skip blanks (counting newlines); comments are not supported -/
partial def skipWs (l : Lx) : Lx :=
  match l.rest with
  | c :: cs =>
    if c == 10 then skipWs { rest := cs, line := l.line + 1, sawNl := true }
    else if Bytes.isSpace c then skipWs { l with rest := cs }
    else l
  | [] => l

partial def takeWhile (p : UInt8 → Bool) : Bytes → Bytes × Bytes
  | c :: cs => if p c then let (a, b) := takeWhile p cs; (c :: a, b) else ([], c :: cs)
  | [] => ([], [])

/-- next token and the lexer after it -/
def next (l0 : Lx) : Except String (Tok × Lx) :=
  let l := skipWs { l0 with sawNl := false }
  match l.rest with
  | [] => .ok (.eof, l)
  | c :: cs =>
    if c == 34 then
      let (body, after) := takeWhile (· != 34) cs
      if body.contains 92 then .error "escape in quoted string"
      else match after with
        | _ :: after' => .ok (.str body, { l with rest := after' })
        | [] => .error "unterminated quote"
    else if isTokenChar c then
      let (w, after) := takeWhile isTokenChar (c :: cs)
      .ok (.str w, { l with rest := after })
    else if c == 123 then .ok (.lbrace, { l with rest := cs })
    else if c == 125 then .ok (.rbrace, { l with rest := cs })
    else if c == 40 then .ok (.lparen, { l with rest := cs })
    else if c == 41 then .ok (.rparen, { l with rest := cs })
    else if c == 44 then .ok (.comma, { l with rest := cs })
    else if c == 59 then .ok (.semi, { l with rest := cs })
    else if c == 47 then .error "comment"
    else .ok (.bad c, l)

inductive Val where
  | str (v : Bytes) | list (vs : List Bytes) | obj (es : List (Bytes × Val))

inductive ParseRes where
  | ok (logs : Option (List RawEntry))
  | err (code : Int) (line : Nat)
  | unsupported (why : String)

inductive PErr | syn (code : Int) (line : Nat) | unsup (why : String)

instance : Inhabited PErr := ⟨.unsup "?"⟩
instance : Inhabited Val := ⟨.str []⟩
instance : Inhabited Lx := ⟨{ rest := [] }⟩

abbrev P := Except PErr

def tok (l : Lx) : P (Tok × Lx) :=
  match next l with
  | .ok r => .ok r
  | .error e => .error (.unsup e)

/-- `;` must follow directly (the real parser also takes a newline; the generators do not use that) -/
def expectSemi (l : Lx) : P Lx := do
  let (t, l') ← tok l
  if t == .semi && !l'.sawNl then pure l' else throw (.unsup "entry not terminated by `;`")

mutual
  /-- entries until `}` (depth > 0) or end of input (depth = 0) -/
  partial def entries (depth : Nat) (l : Lx) (acc : List (Bytes × Val)) : P (List (Bytes × Val) × Lx) := do
    let (t, l1) ← tok l
    match t with
    | .eof => if depth == 0 then pure (acc.reverse, l1) else throw (.syn (-1) l1.line)
    | .rbrace => if depth == 0 then throw (.syn (-2) l1.line) else pure (acc.reverse, l1)
    | .str name =>
      let (v, l2) ← value depth l1
      let l3 ← expectSemi l2
      entries depth l3 ((name, v) :: acc)
    | _ => throw (.syn (-2) l1.line)      -- conf_parse_string: "Expected a string or bareword token"

  partial def value (depth : Nat) (l : Lx) : P (Val × Lx) := do
    let (t, l1) ← tok l
    match t with
    | .lbrace =>
      let (es, l2) ← entries (depth + 1) l1 []
      pure (.obj es, l2)
    | .lparen =>
      let (t2, l2) ← tok l1
      if t2 == .rparen then pure (.list [], l2) else
      match t2 with
      | .str v => listTail l2 [v]
      | _ => throw (.unsup "list element")
    | .str v => pure (.str v, l1)
    | _ => throw (.unsup "value")

  partial def listTail (l : Lx) (acc : List Bytes) : P (Val × Lx) := do
    let (t, l1) ← tok l
    match t with
    | .rparen => pure (.list acc.reverse, l1)
    | .comma =>
      let (t2, l2) ← tok l1
      match t2 with
      | .str v => listTail l2 (v :: acc)
      | _ => throw (.unsup "list element after comma")
    | _ => throw (.unsup "list separator")
end

def logsEntries (top : List (Bytes × Val)) : P (Option (List RawEntry)) := do
  let mut found := false
  let mut out : List RawEntry := []
  for (n, v) in top do
    if ciEq n [108, 111, 103, 115] then      -- "logs", CONF_OBJECT
      match v with
      | .obj es =>
        found := true
        for (k, cv) in es do
          match cv with
          | .str s => out := out ++ [⟨k, .str, [s]⟩]
          | .list vs => out := out ++ [⟨k, .list, vs⟩]
          | .obj _ => throw (.unsup "object inside logs")
      | _ => pure ()
  return if found then some out else none

def parseBody (body : Bytes) : ParseRes :=
  if body.isEmpty then .unsupported "empty file" else
  if body.contains 0 then .unsupported "NUL byte" else
  match (do let (top, _) ← entries 0 { rest := body } []; logsEntries top : P _) with
  | .ok r => .ok r
  | .error (.syn c ln) => .err c ln
  | .error (.unsup w) => .unsupported w

/-! ### rendering -/

def natBytes (n : Nat) : Bytes := (toString n).toList.map (fun c => UInt8.ofNat c.toNat)

def bExpectedString : Bytes := Bytes.ofString "Expected a string or bareword token on line "
def bPrematureEof : Bytes := Bytes.ofString "Premature end of file on line "
def bOf : Bytes := Bytes.ofString " of "
def bConfName : Bytes := Bytes.ofString "../conf"

def confErrorMsg (code : Int) (line : Nat) : Bytes :=
  (if code == -1 then bPrematureEof else bExpectedString) ++ natBytes line ++ bOf ++ bConfName ++ [46]

/-- fopen(path, "a") in the (initially empty) case directory -/
def canOpen (p : Bytes) : Bool :=
  !p.isEmpty && !p.contains 47 && p != [46] && p != [46, 46] && p.length ≤ 255

/-- unsigned lexicographic order (strcmp) -/
def bytesLt : Bytes → Bytes → Bool
  | [], [] => false
  | [], _ :: _ => true
  | _ :: _, [] => false
  | a :: as, b :: bs => if a.toNat < b.toNat then true else if a.toNat > b.toNat then false else bytesLt as bs

def insertSorted (f : Bytes × List String) : List (Bytes × List String) → List (Bytes × List String)
  | [] => [f]
  | x :: xs => if bytesLt f.1 x.1 then f :: x :: xs else x :: insertSorted f xs

abbrev Files := List (Bytes × List String)   -- name ↦ rendered physical lines

def touch (fs : Files) (p : Bytes) : Files :=
  if fs.any (·.1 == p) then fs else insertSorted (p, []) fs

def appendLines (fs : Files) (p : Bytes) (ls : List String) : Files :=
  (touch fs p).map fun (n, old) => if n == p then (n, old ++ ls) else (n, old)

/-- one fprintf of `text\n`: physical lines; continuation lines carry no timestamp -/
def physical (text : Bytes) : List String :=
  match Spec.splitOn 10 text with
  | [] => []
  | h :: t => Bytes.toHex h :: t.map (fun x => "!" ++ Bytes.toHex x)

def renderFiles (fs : Files) : String :=
  "files" ++ String.join (fs.map fun (n, ls) => " " ++ Bytes.toHex n ++ ":" ++ ",".intercalate ls)

def applyEvs (fs : Files) (evs : List Ev) : Files × Bytes :=
  evs.foldl (fun (acc : Files × Bytes) ev =>
    match ev with
    | .opened p => (touch acc.1 p, acc.2)
    | .line p t => (appendLines acc.1 p (physical t), acc.2)
    | .console t => (acc.1, acc.2 ++ t)) (fs, [])

/-! ### the two modes -/

structure MSt where
  c : ConfSt := ConfSt.init
  files : Files := []

structure SSt where
  s : Spec.St := {}

/-- drain the events of the model run into the file map; returns the console bytes -/
def drain (m : MSt) : MSt × Bytes :=
  let (fs, con) := applyEvs m.files m.c.run.evs
  ({ c := { m.c with run := { m.c.run with evs := [] } }, files := fs }, con)

def status (m : MSt) (okWord : String) (con : Bytes) : String :=
  match m.c.run.exit with
  | some n => s!"exit {n} con={Bytes.toHex con}"
  | none => s!"{okWord} con={Bytes.toHex con}"

def parseSev (s : String) : Option Nat :=
  match s.toNat? with
  | some n => if n < 6 then some n else none
  | none => none

def stepModel (m : MSt) (line : String) : MSt × String :=
  match fields line with
  | ["files"] => (m, renderFiles m.files)
  | ["read", hx] =>
    if m.c.run.exit.isSome then (m, "dead") else
    match parseBody (Bytes.ofHex hx) with
    | .unsupported w => (m, "unsupported " ++ w)
    | .err code ln =>
      let c := { m.c with run := m.c.run.log bConfig sevError (confErrorMsg code ln) }
      let (m', con) := drain { m with c }
      (m', status m' s!"rc {code}" con)
    | .ok file =>
      let (m', con) := drain { m with c := load canOpen m.c file }
      (m', status m' "rc 0" con)
  | ["msg", fac, sev, txt] =>
    match parseSev sev with
    | none => (m, "bad-op")
    | some sv =>
      if m.c.run.exit.isSome then (m, "dead") else
      let (m', con) := drain { m with c := message m.c (Bytes.cstr (Bytes.ofHex fac)) sv (Bytes.cstr (Bytes.ofHex txt)) }
      (m', status m' "ok" con)
  | ["verbosity", n] =>
    if m.c.run.exit.isSome then (m, "dead") else
    let v := n.toInt?.getD 0
    ({ m with c := setVerbosity m.c v }, "ok")
  | _ => (m, "bad-op")

def specFiles (s : Spec.St) : String :=
  let fs : Files := s.files.foldl (fun acc (p, ls) => appendLines acc p (ls.flatMap physical)) []
  renderFiles fs

def stepSpec (st : SSt) (line : String) : SSt × String :=
  match fields line with
  | ["files"] => (st, specFiles st.s)
  | ["read", hx] =>
    if st.s.dead then (st, "dead") else
    match parseBody (Bytes.ofHex hx) with
    | .unsupported w => (st, "unsupported " ++ w)
    | .err _ _ => (st, "-")                       -- a failed load leaves the current section
    | .ok file => ({ s := Spec.onLoad st.s file }, "-")
  | ["msg", fac, sev, txt] =>
    match parseSev sev with
    | none => (st, "bad-op")
    | some sv =>
      if st.s.dead then (st, "dead") else
      ({ s := Spec.onMessage st.s (Bytes.cstr (Bytes.ofHex fac)) sv (Bytes.cstr (Bytes.ofHex txt)) }, "-")
  | ["verbosity", _] => (st, if st.s.dead then "dead" else "-")
  | _ => (st, "bad-op")

end Drv.LogDrv

open Drv Drv.LogDrv in
def main (args : List String) : IO UInt32 := do
  let useSpec := args.head? == some "spec"
  let lines ← readLines
  let mut out : Array String := Array.mkEmpty lines.size
  if useSpec then
    let mut st : SSt := {}
    for l in lines do
      if l.startsWith "case " then
        st := {}
        out := out.push l
      else
        let (st', o) := stepSpec st l
        st := st'
        out := out.push o
  else
    let mut st : MSt := {}
    for l in lines do
      if l.startsWith "case " then
        st := {}
        out := out.push l
      else
        let (st', o) := stepModel st l
        st := st'
        out := out.push o
  emit (← IO.getStdout) out
  return 0
