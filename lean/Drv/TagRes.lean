import Iauthd.Util.Bytes
/-
  Symbolic routing tags in `in` ops:  @T<cid>#<k>|<fallback>@  (rules: vlib/tagres.py; the same
  resolution is done by harness/h_proto.c on the implementation's output).
-/
open Iauthd

namespace Drv.TagRes

structure St where
  inst : List (Int × Nat) := []
  tags : List ((Int × Nat) × Bytes) := []
  pending : Bytes := []          -- current partial input line, reversed
  deriving Inhabited

def isDig (c : UInt8) : Bool := 48 ≤ c.toNat && c.toNat ≤ 57
def isHex (c : UInt8) : Bool :=
  isDig c || (97 ≤ c.toNat && c.toNat ≤ 102) || (65 ≤ c.toNat && c.toNat ≤ 70)

def decVal (ds : Bytes) : Nat := ds.foldl (fun a c => a * 10 + (c.toNat - 48)) 0

/-- optional '-', 1..10 digits, nothing else -/
def decimal (s : Bytes) : Option Int :=
  let (neg, ds) := match s with
    | 45 :: r => (true, r)
    | _ => (false, s)
  if ds.length < 1 || ds.length > 10 || !ds.all isDig then none
  else some (if neg then - (decVal ds : Int) else (decVal ds : Int))

def hexVal (ds : Bytes) : Nat :=
  ds.foldl (fun a c =>
    let n := c.toNat
    a * 16 + (if n ≤ 57 then n - 48 else if n ≥ 97 then n - 87 else n - 55)) 0

def instances (st : St) (cid : Int) : Nat := ((st.inst.find? (·.1 == cid)).map (·.2)).getD 0
def lookup (st : St) (cid : Int) (k : Nat) : Option Bytes := (st.tags.find? (·.1 == (cid, k))).map (·.2)

/-- try to read a placeholder at the head of `d` (which starts with "@T"); returns the
    replacement and the rest -/
def placeholder (st : St) (d : Bytes) : Option (Bytes × Bytes) :=
  match d with
  | 64 :: 84 :: r =>
    let idt := r.takeWhile fun c => c == 45 || isDig c
    let r1 := r.drop idt.length
    match r1, decimal idt with
    | 35 :: r2, some cid =>
      let kt := r2.takeWhile isDig
      let r3 := r2.drop kt.length
      if kt.length < 1 || kt.length > 6 then none else
      match r3 with
      | 124 :: r4 =>
        let fb := r4.takeWhile fun c => c != 64 && c != 10
        match r4.drop fb.length with
        | 64 :: rest => some ((lookup st (wrap32 cid) (decVal kt)).getD fb, rest)
        | _ => none
      | _ => none
    | _, _ => none
  | _ => none

partial def resolve (st : St) (d : Bytes) : Bytes :=
  let rec go (d : Bytes) (acc : Bytes) : Bytes :=
    match d with
    | [] => acc.reverse
    | c :: cs =>
      if c == 64 then
        match placeholder st d with
        | some (rep, rest) => go rest (rep.reverse ++ acc)
        | none => go cs (c :: acc)
      else go cs (c :: acc)
  go d []

def words (l : Bytes) : List Bytes :=
  let rec go (l : Bytes) (cur : Bytes) (acc : List Bytes) : List Bytes :=
    match l with
    | [] => (if cur.isEmpty then acc else cur.reverse :: acc).reverse
    | c :: cs => if c == 32 then go cs [] (if cur.isEmpty then acc else cur.reverse :: acc) else go cs (c :: cur) acc
  go l [] []

def onLine (st : St) (l : Bytes) : St :=
  let ws := words l
  match ws with
  | w0 :: w1 :: w2 :: w3 :: w4 :: w5 :: _ =>
    match decimal w0 with
    | some cid =>
      if w1.head? == some 67 && [w2, w3, w4, w5].all (fun w => w.head? != some 58) then
        let c := wrap32 cid
        if st.inst.any (·.1 == c) then { st with inst := st.inst.map fun p => if p.1 == c then (p.1, p.2 + 1) else p }
        else { st with inst := st.inst ++ [(c, 1)] }
      else st
    | none => st
  | _ => st

def fed (st : St) (d : Bytes) : St :=
  d.foldl (fun st c =>
    if c == 10 then onLine { st with pending := [] } st.pending.reverse
    else { st with pending := c :: st.pending }) st

def outLine (st : St) (l : Bytes) : St :=
  match l with
  | 88 :: 32 :: r =>
    let svc := r.takeWhile (· != 32)
    if svc.isEmpty then st else
    match r.drop svc.length with
    | 32 :: r1 =>
      let hx := r1.takeWhile isHex
      if hx.length < 1 || hx.length > 8 then st else
      match r1.drop hx.length with
      | 95 :: _ =>
        let tag := r1.takeWhile (· != 32)
        let cid := wrap32 (hexVal hx : Int)
        let k := instances st cid
        if (lookup st cid k).isSome then st else { st with tags := st.tags ++ [((cid, k), tag)] }
      | _ => st
    | _ => st
  | _ => st

def out (st : St) (lines : List Bytes) : St := lines.foldl outLine st

end Drv.TagRes
