import Iauthd.Util.Bytes
/-
  Driver plumbing: read all of stdin (raw bytes; inputs are ASCII by construction),
  split into lines, one output line per input line.
-/
namespace Drv

partial def readAll (h : IO.FS.Stream) (acc : ByteArray := ByteArray.empty) : IO ByteArray := do
  let chunk ← h.read 65536
  if chunk.isEmpty then return acc else readAll h (acc ++ chunk)

def splitLines (b : ByteArray) : Array String := Id.run do
  let mut out : Array String := #[]
  let mut cur : Array Char := #[]
  for x in b.toList do
    if x == 10 then
      out := out.push (String.ofList cur.toList)
      cur := #[]
    else
      cur := cur.push (Char.ofNat x.toNat)
  if !cur.isEmpty then out := out.push (String.ofList cur.toList)
  return out

def fields (s : String) : List String :=
  (s.splitOn " ").filter (· ≠ "")

def readLines : IO (Array String) := do
  let stdin ← IO.getStdin
  let b ← readAll stdin
  return splitLines b

def joinWith (sep : String) (xs : List String) : String := sep.intercalate xs

/-- write lines with a single buffered write per ~64 KiB -/
def emit (out : IO.FS.Stream) (lines : Array String) : IO Unit := do
  let mut buf := ""
  for l in lines do
    buf := buf ++ l ++ "\n"
    if buf.length > 65536 then
      out.putStr buf
      buf := ""
  out.putStr buf
  out.flush

end Drv
