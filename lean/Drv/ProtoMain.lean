import Iauthd.Proto.Step
import Iauthd.Proto.Hist
import Iauthd.Proto.Spec01
import Drv.Util
import Drv.TagRes
/-
  drv_proto model [--version <hex>]  < ops        one record per op, as harness/h_proto.c
-/
open Iauthd Iauthd.Proto

namespace Drv.ProtoDrv

structure DSt where
  lim : Limits := {}
  mods : Nat := 0
  conf : Config := {}
  live : Config := {}
  st : State := {}
  started : Bool := false
  faulted : Bool := false
  tr : Drv.TagRes.St := {}      -- symbolic routing tags (@T<cid>#<k>|<fallback>@), see vlib/tagres.py

def hexLines (ls : List Bytes) : String :=
  Bytes.toHex (ls.flatMap fun l => l ++ [10])

/-- parse the structured configuration fields that accompany `conf` / `reload` -/
def parseConfig (fs : List String) : Config × Bool := Id.run do
  let mut c : Config := {}
  let mut bad := false
  for f in fs do
    if f.startsWith "t=" then c := { c with timeout := (f.drop 2).toString.toNat?.getD 0 }
    else if f.startsWith "bad=" then bad := true
    else if f.startsWith "s=" then
      match (f.drop 2).toString.splitOn ":" with
      | [n, v] => c := { c with xq := c.xq ++ [{ name := Bytes.ofHex n, value := Bytes.ofHex v }] }
      | _ => pure ()
    else if f.startsWith "o=" then
      c := { c with xq := c.xq ++ [{ name := Bytes.ofHex (f.drop 2).toString, isString := false }] }
    else if f.startsWith "c=" then
      match (f.drop 2).toString.splitOn ":" with
      | [n, v] => c := { c with cls := c.cls ++ [{ name := Bytes.ofHex n, value := Bytes.ofHex v }] }
      | _ => pure ()
    else if f.startsWith "r=" then
      match (f.drop 2).toString.splitOn ":" with
      | n :: kvs =>
        let kids := kvs.filterMap fun kv =>
          match kv.splitOn "=" with
          | [k, v] => some (Bytes.ofString k, Bytes.ofHex v)
          | _ => none
        c := { c with cls := c.cls ++ [{ name := Bytes.ofHex n, isString := false, kids := kids }] }
      | _ => pure ()
  -- repeated keys inside one file: later entries override (strings) — the generator
  -- does not emit repeated keys; sections are sorted here as the config set would
  return ({ c with xq := sortSection c.xq, cls := sortSection c.cls }, bad)

def stepOp (version : Bytes) (d : DSt) (line : String) : DSt × String :=
  if line.startsWith "case " then ({ lim := d.lim }, line)
  else if d.faulted then (d, "")
  else
    match Drv.fields line with
    | ["modules", m] => ({ d with mods := if m == "class" then 2 else if m == "xquery" then 1 else 0 }, "ok")
    | "conf" :: _ :: rest => ({ d with conf := (parseConfig rest).1 }, "ok")
    | ["verbosity", _] => (d, "ok")
    | ["start"] =>
      let s0 : State := { hasXq := d.mods ≥ 1, hasClass := d.mods ≥ 2, lim := d.lim }
      let (s1, live) := applyConfig s0 {} d.conf true
      ({ d with st := s1, live := live, started := true }, s!"rc 0 out {hexLines (startup s1 version)}")
    | "in" :: h :: _ =>
      if !d.started then (d, "bad-op") else
      let data := Drv.TagRes.resolve d.tr (Bytes.ofHex h)
      let tr := Drv.TagRes.fed d.tr data
      match stepChunk d.st data with
      | .ok (s, out) => ({ d with st := s, tr := Drv.TagRes.out tr out }, s!"out {hexLines out}")
      | .error f => ({ d with faulted := true }, s!"fault {repr f}")
    | ["timeout", id] =>
      if !d.started then (d, "bad-op") else
      match stepTimeout d.st (id.toInt?.getD 0) with
      | .ok (s, out, fired) => ({ d with st := s }, s!"out {hexLines out} {if fired then "fired" else "no-timer"}")
      | .error f => ({ d with faulted := true }, s!"fault {repr f}")
    | ["elapse"] =>
      if !d.started then (d, "bad-op") else
      -- every armed timer fires, oldest request first (a sequence of `timeout` steps)
      let armed := (d.st.reqs.filter (·.timer == .armed)).map fun r => (r.serial, r.client)
      let order := (armed.toArray.qsort (fun a b => a.1 < b.1)).toList
      let rec go (s : State) (todo : List (Nat × Int)) (out : List Bytes) (fired : List Int) : Except Fault (State × List Bytes × List Int) :=
        match todo with
        | [] => .ok (s, out, fired)
        | (serial, id) :: rest =>
          match findReq s.reqs id with
          | some r =>
            if r.serial == serial && r.timer == .armed then
              match stepTimeout s id with
              | .ok (s', o, _) => go s' rest (out ++ o) (fired ++ [id])
              | .error f => .error f
            else go s rest out fired
          | none => go s rest out fired
      match go d.st order [] [] with
      | .ok (s, out, fired) =>
        ({ d with st := s }, s!"out {hexLines out} fired={",".intercalate (fired.map toString)}")
      | .error f => ({ d with faulted := true }, s!"fault {repr f}")
    | "reload" :: _ :: rest =>
      if !d.started then (d, "bad-op") else
      let (cfg, bad) := parseConfig rest
      if bad then (d, "rc 1 out =")
      else
        let (s, live) := applyConfig d.st d.live cfg false
        ({ d with st := s, live := live }, "rc 0 out =")
    | ["eof"] =>
      if !d.started then (d, "bad-op") else
      ({ d with started := false }, "exit clean=1 timers=0 out =")
    | ["logfile", _] => (d, "log ?")
    | _ => (d, "bad-op")

/-! ### judge: the Spec evaluated on the implementation's observed behaviour -/

open Iauthd.Proto.Hist in
structure JSt where
  mods : Nat := 0
  conf : Config := {}
  t : Tracker := {}
  t1 : Iauthd.Proto.Spec01.T1 := {}   -- the reader of the proved predicate (C01_history)
  started : Bool := false
  skip : Bool := false        -- trace outside the judge's format (multi-line chunk)

/-- run the proved reader over the same step and add its verdict: a step it rejects is a C01
    violation even if the trace judge missed it; a step only the trace judge rejects is reported
    as a disagreement between the two readings -/
def withSpec01 (j : JSt) (raw : Option Bytes) (outs : List Bytes) (v : List Hist.Violation) :
    JSt × List Hist.Violation :=
  let t1 := Iauthd.Proto.Spec01.step j.t1 raw outs
  let specBad := !t1.ok
  let trackBad := v.any (·.prop == "C01")
  let v := if specBad && !trackBad then v ++ [⟨"C01", "the reader of the proved predicate (Spec01) rejects this step"⟩]
           else if trackBad && !specBad then v ++ [⟨"C01", "trace judge and Spec01 disagree on this step"⟩]
           else v
  -- C10: the figure of an `S iauth` line against the proved reader's count of live instances
  let c10Bad := outs.any fun l =>
    (l.take 9) == b "S iauth :" && (match Hist.inUseOf (l.drop 9) with | some n => n != t1.n | none => false)
  let v := if c10Bad && !(v.any (·.prop == "C10")) then
             v ++ [⟨"C10", s!"a statistics reply disagrees with the count of live instances ({t1.n}) kept by the proved reader"⟩]
           else v
  ({ j with t1 := { t1 with ok := true } }, v)

def unhexLines (h : String) : List Bytes :=
  let data := Bytes.ofHex h
  let rec go (cur : Bytes) (acc : List Bytes) : Bytes → List Bytes
    | [] => (if cur.isEmpty then acc else cur.reverse :: acc).reverse
    | c :: cs => if c == 10 then go [] (cur.reverse :: acc) cs else go (c :: cur) acc cs
  go [] [] data

open Iauthd.Proto.Hist in
def servicesOf (c : Config) : List (Bytes × Option Hist.Proto) :=
  (c.xq.filter (·.isString)).map fun n => (n.name, protoOfText (cstr n.value))

def fmtViol (vs : List Hist.Violation) : String :=
  if vs.isEmpty then "ok" else "viol " ++ "|".intercalate (vs.map fun v => v.prop ++ ":" ++ v.why.replace "|" "/")

open Iauthd.Proto.Hist in
/-- one (op, implementation record) pair -/
def judgeOp (j : JSt) (op : String) (rec : String) : JSt × String :=
  if op.startsWith "case " then ({}, op)
  else
    let rf := Drv.fields rec
    if rf.head? == some "fault" then
      (j, "viol C08:the daemon crashed, hung or touched foreign memory (" ++ rec ++ ")")
    else
    match Drv.fields op with
    | ["modules", m] => ({ j with mods := if m == "class" then 2 else if m == "xquery" then 1 else 0 }, "ok")
    | "conf" :: _ :: rest => ({ j with conf := (parseConfig rest).1 }, "ok")
    | ["verbosity", _] => (j, "ok")
    | ["start"] =>
      let t : Tracker := { hasXq := j.mods ≥ 1, services := if j.mods ≥ 1 then servicesOf j.conf else [],
                           timeout := j.conf.timeout }
      let outs := match rf with | ["rc", _, "out", h] => unhexLines h | _ => []
      -- C09 speaks of the channel "from the version banner onwards": what the logging layer
      -- prints while the configuration is read and the modules are set up (console verbosity is
      -- only lowered afterwards) is not judged
      let outs := outs.dropWhile fun l => l.take 3 != b "V :"
      let (t, v) := onOutputs t {} outs
      let v := if (outs.headD []).take 3 == b "V :" then v else v ++ [⟨"C09", "no version banner"⟩]
      let (j, v) := withSpec01 { j with t1 := {} } none outs v
      ({ j with t := t, started := true }, fmtViol v)
    | "in" :: h :: extra =>
      let chunk := Bytes.ofHex h
      let (lines, tail) := Iauthd.Proto.splitLines chunk
      if lines.length != 1 || !tail.isEmpty then ({ j with skip := true }, "skip")
      else if j.skip then (j, "skip")
      else
        let raw := cstr (lines.headD [])
        let outs := match rf with | ["out", oh] => unhexLines oh | _ => []
        -- `for=<cid>#<k>`: the reply answers a query of the k-th announced instance of <cid>
        -- (symbolic routing tag); for any other instance of that id it is a stray line
        let meantElsewhere : Bool :=
          match extra.find? (·.startsWith "for=") with
          | some f =>
            match ((f.drop 4).toString.splitOn "#") with
            | [c, k] =>
              match c.toInt?, k.toNat? with
              | some cid, some kk =>
                let cmd := ((tokenize raw).argv.headD []).getD 0 0
                (cmd == 88 || cmd == 120) &&
                  ((j.t.ordinals.find? (·.1 == cid)).map (·.2)).getD 0 != kk
              | _, _ => false
            | _ => false
          | none => false
        let (t, ex) := if raw.isEmpty || meantElsewhere then (j.t, {}) else onLine j.t raw
        let (t, v) := onOutputs t ex outs
        let v := v ++ stuck t
        -- C10: an `S iauth` line must report the number of live instances
        let v := outs.foldl (fun v l =>
          if (l.take 9) == b "S iauth :" then
            match inUseOf (l.drop 9) with
            | some n => if n != t.live.length then v ++ [⟨"C10", s!"{n} requests reported in use, {t.live.length} clients are live"⟩] else v
            | none => v ++ [⟨"C10", "the statistics reply no longer states the number of requests in use in a form this check can read"⟩]
          else v) v
        let (j, v) := withSpec01 j (some raw) outs v
        ({ j with t := t }, fmtViol v)
    | ["timeout", id] =>
      if j.skip then (j, "skip") else
      let fired := rf.getLast? == some "fired"
      let outs := match rf with | "out" :: oh :: _ => unhexLines oh | _ => []
      let v0 := unarmed j.t (id.toInt?.getD 0) fired
      let t := onTimeout j.t (id.toInt?.getD 0) fired
      let (t, v) := onOutputs t {} outs
      let (j, v) := withSpec01 j none outs v
      ({ j with t := t }, fmtViol (v0 ++ v ++ stuck t))
    | ["elapse"] =>
      if j.skip then (j, "skip") else
      let firedTxt := (rf.getLast?.getD "fired=").drop 6 |>.toString
      let names := if firedTxt.isEmpty then [] else firedTxt.splitOn ","
      let outs := match rf with | "out" :: oh :: _ => unhexLines oh | _ => []
      let v0 : List Violation :=
        if names.contains "orphan" then [⟨"C10", "a timer belonging to a finished or replaced request fired"⟩] else []
      -- `*` (end-to-end runs with real timers): every live instance's timeout has expired
      let names := if names.contains "*" then j.t.live.map (fun i => toString i.id) else names
      let t := names.foldl (fun t n => match n.toInt? with | some id => onTimeout t id true | none => t) j.t
      let (t, v) := onOutputs t {} outs
      let (j, v) := withSpec01 j none outs v
      ({ j with t := t }, fmtViol (v0 ++ v ++ stuck t))
    | "reload" :: _ :: rest =>
      let (cfg, bad) := parseConfig rest
      -- `rc ?`: the end-to-end driver reloads by signal and cannot see the result; the case says
      -- (`bad=1`) when the file is one the parser rejects
      let ok := match rf with | "rc" :: r :: _ => r == "0" || r == "?" | _ => false
      let outs := match rf with | ["rc", _, "out", oh] => unhexLines oh | _ => []
      let v : List Violation := if outs.isEmpty then [] else [⟨"C09", "a reload wrote to the server channel"⟩]
      if bad || !ok then (j, fmtViol v)
      else
        -- a service the new file no longer names but that still owes some live client an answer
        -- stays what it was when it was asked (its late answer is legitimate)
        let fresh := if j.mods ≥ 1 then servicesOf cfg else []
        let owed := j.t.services.filter fun sv =>
          !(fresh.any (·.1 == sv.1)) && j.t.live.any (fun i => i.outstanding.contains sv.1)
        ({ j with conf := cfg, t := { j.t with services := fresh ++ owed, timeout := cfg.timeout } }, fmtViol v)
    | ["eof"] =>
      let v : List Violation :=
        (if rf.contains "clean=1" then [] else [⟨"C08", "end of input did not lead to a clean exit"⟩])
        ++ (if rf.contains "timers=0" then [] else [⟨"C10", "request timers survive the shutdown"⟩])
      (j, fmtViol v)
    | _ => (j, "ok")

end Drv.ProtoDrv

open Drv Drv.ProtoDrv in
def mainJudge : IO UInt32 := do
  let lines ← readLines
  let mut j : JSt := {}
  let mut out : Array String := #[]
  let mut i := 0
  while i < lines.size do
    let op := lines[i]!
    if op.startsWith "case " then
      j := {}
      out := out.push op
      i := i + 1
    else
      let recd := if i + 1 < lines.size && lines[i+1]!.startsWith "=> " then (lines[i+1]!.drop 3).toString else ""
      let (j', o) := judgeOp j op recd
      j := j'
      out := out.push o
      i := if i + 1 < lines.size && lines[i+1]!.startsWith "=> " then i + 2 else i + 1
  emit (← IO.getStdout) out
  return 0

open Drv Drv.ProtoDrv in
def main (args : List String) : IO UInt32 := do
  if args.head? == some "judge" then return (← mainJudge)
  let version := match args with
    | _ :: "--version" :: v :: _ => Bytes.ofHex v
    | _ => Bytes.ofString "iauthd-c iauthd-git"
  let lim : Limits := match args with
    | _ :: "--version" :: _ :: "--limits" :: l :: _ =>
      let kv := (l.splitOn ",").filterMap fun x => match x.splitOn "=" with | [k, v] => v.toNat?.map (fun n => (k, n)) | _ => none
      let g (k : String) (dflt : Nat) := ((kv.find? (·.1 == k)).map (·.2)).getD dflt
      { nick := g "nick" 30, user := g "user" 10, host := g "host" 63, real := g "real" 50, account := g "account" 64, cls := g "class" 63 }
    | _ => {}
  let lines ← readLines
  let mut d : DSt := { lim := lim }
  let mut out : Array String := Array.mkEmpty lines.size
  for l in lines do
    let (d', o) := stepOp version d l
    d := d'
    if o != "" then out := out.push o
  emit (← IO.getStdout) out
  return 0
