import Iauthd.Proto.Step
import Drv.Util
/-
  drv_proto model [--version <hex>]  < ops        one record per op, as harness/h_proto.c
-/
open Iauthd Iauthd.Proto

namespace Drv.ProtoDrv

structure DSt where
  mods : Nat := 0
  conf : Config := {}
  live : Config := {}
  st : State := {}
  started : Bool := false
  faulted : Bool := false

def hexLines (ls : List Bytes) : String :=
  Bytes.toHex (ls.flatMap fun l => l ++ [10])

/-- parse the structured configuration fields that accompany `conf` / `reload` -/
def parseConfig (fs : List String) : Config × Bool := Id.run do
  let mut c : Config := {}
  let mut bad := false
  for f in fs do
    if f.startsWith "t=" then c := { c with timeout := (f.drop 2).toString.toNat?.getD 0 }
    else if f.startsWith "bad=" then bad := true
    else if f.startsWith "s=" then
      match (f.drop 2).toString.splitOn ":" with
      | [n, v] => c := { c with xq := c.xq ++ [{ name := Bytes.ofHex n, value := Bytes.ofHex v }] }
      | _ => pure ()
    else if f.startsWith "o=" then
      c := { c with xq := c.xq ++ [{ name := Bytes.ofHex (f.drop 2).toString, isString := false }] }
    else if f.startsWith "c=" then
      match (f.drop 2).toString.splitOn ":" with
      | [n, v] => c := { c with cls := c.cls ++ [{ name := Bytes.ofHex n, value := Bytes.ofHex v }] }
      | _ => pure ()
    else if f.startsWith "r=" then
      match (f.drop 2).toString.splitOn ":" with
      | n :: kvs =>
        let kids := kvs.filterMap fun kv =>
          match kv.splitOn "=" with
          | [k, v] => some (Bytes.ofString k, Bytes.ofHex v)
          | _ => none
        c := { c with cls := c.cls ++ [{ name := Bytes.ofHex n, isString := false, kids := kids }] }
      | _ => pure ()
  -- repeated keys inside one file: later entries override (strings) — the generator
  -- does not emit repeated keys; sections are sorted here as the config set would
  return ({ c with xq := sortSection c.xq, cls := sortSection c.cls }, bad)

def stepOp (version : Bytes) (d : DSt) (line : String) : DSt × String :=
  if line.startsWith "case " then ({}, line)
  else if d.faulted then (d, "")
  else
    match Drv.fields line with
    | ["modules", m] => ({ d with mods := if m == "class" then 2 else if m == "xquery" then 1 else 0 }, "ok")
    | "conf" :: _ :: rest => ({ d with conf := (parseConfig rest).1 }, "ok")
    | ["verbosity", _] => (d, "ok")
    | ["start"] =>
      let s0 : State := { hasXq := d.mods ≥ 1, hasClass := d.mods ≥ 2 }
      let (s1, live) := applyConfig s0 {} d.conf true
      ({ d with st := s1, live := live, started := true }, s!"rc 0 out {hexLines (startup s1 version)}")
    | "in" :: h :: _ =>
      if !d.started then (d, "bad-op") else
      match stepChunk d.st (Bytes.ofHex h) with
      | .ok (s, out) => ({ d with st := s }, s!"out {hexLines out}")
      | .error f => ({ d with faulted := true }, s!"fault {repr f}")
    | ["timeout", id] =>
      if !d.started then (d, "bad-op") else
      match stepTimeout d.st (id.toInt?.getD 0) with
      | .ok (s, out, fired) => ({ d with st := s }, s!"out {hexLines out} {if fired then "fired" else "no-timer"}")
      | .error f => ({ d with faulted := true }, s!"fault {repr f}")
    | "reload" :: _ :: rest =>
      if !d.started then (d, "bad-op") else
      let (cfg, bad) := parseConfig rest
      if bad then (d, "rc 1 out =")
      else
        let (s, live) := applyConfig d.st d.live cfg false
        ({ d with st := s, live := live }, "rc 0 out =")
    | ["eof"] =>
      if !d.started then (d, "bad-op") else
      ({ d with started := false }, "exit clean=1 timers=0 out =")
    | ["logfile", _] => (d, "log ?")
    | _ => (d, "bad-op")

end Drv.ProtoDrv

open Drv Drv.ProtoDrv in
def main (args : List String) : IO UInt32 := do
  let version := match args with
    | _ :: "--version" :: v :: _ => Bytes.ofHex v
    | _ => Bytes.ofString "iauthd-c iauthd-git"
  let lines ← readLines
  let mut d : DSt := {}
  let mut out : Array String := Array.mkEmpty lines.size
  for l in lines do
    let (d', o) := stepOp version d l
    d := d'
    if o != "" then out := out.push o
  emit (← IO.getStdout) out
  return 0
