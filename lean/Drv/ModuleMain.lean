import Iauthd.Module.Spec
import Iauthd.Util.Bytes
import Drv.Util
/-
  drv_module model [pinned] | spec | judge   < ops

  op      graph <m:dep,dep;m2:…|-> bad=<m,…> [nohook=<m,…>] list=<m,…> [list=<m,…> …]
  model   → status <n|sigN> why=<-|loop:a>b|unloadable:m|fuel> events <kind:m> …
            (same record syntax as harness/h_module.c; `pinned` = module_dfs as pinned)
  spec    → demand abort | demand run <modules that must be loaded, sorted>
  judge   → the op line is answered `-`; a following line `obs <harness record>` is
            answered `ok` or `FAIL <reason>` (Iauthd.Module.judge on that observation)
-/
open Iauthd Iauthd.Module

namespace Drv.ModuleDrv

structure Op where
  graph : List (String × List String) := []
  bad : List String := []
  nohook : List String := []
  lists : List (List String) := []
  deriving Inhabited

def splitNE (s : String) (sep : Char) : List String :=
  (s.split (· == sep)).toList.map (·.toString) |>.filter (· ≠ "")

def parseOp (f : List String) : Option Op :=
  match f with
  | "graph" :: g :: rest =>
    let graph := if g == "-" then [] else
      (splitNE g ';').map fun ent =>
        match ent.splitOn ":" with
        | [m] => (m, [])
        | m :: ds :: _ => (m, splitNE ds ',')
        | [] => ("", [])
    let rec go (op : Op) : List String → Option Op
      | [] => some op
      | x :: xs =>
        if x.startsWith "bad=" then go { op with bad := splitNE (x.drop 4).toString ',' } xs
        else if x.startsWith "nohook=" then go { op with nohook := splitNE (x.drop 7).toString ',' } xs
        else if x.startsWith "list=" then go { op with lists := op.lists ++ [splitNE (x.drop 5).toString ','] } xs
        else none
    go { graph } rest
  | _ => none

def Op.G (op : Op) (m : String) : List String :=
  match op.graph.find? (·.1 == m) with
  | some (_, ds) => ds
  | none => []

def Op.ok (op : Op) (m : String) : Bool := !op.bad.contains m
def Op.hk (op : Op) (m : String) : Bool := !op.nohook.contains m

def Op.universe (op : Op) : List String :=
  (op.graph.flatMap (fun (m, ds) => m :: ds) ++ op.lists.flatten ++ op.bad ++ op.nohook).eraseDups

/-- order of `set_compare_charp` -/
def ltName (a b : String) : Bool := Bytes.strcasecmp (Bytes.ofString a) (Bytes.ofString b) < 0

def showEvent : Event String → String
  | .ctorBegin m => "ctor-begin:" ++ m
  | .ctorEnd m => "ctor-end:" ++ m
  | .postInit m => "post-init:" ++ m
  | .dtor m => "dtor:" ++ m

def parseEvent (s : String) : Option (Event String) :=
  match s.splitOn ":" with
  | ["ctor-begin", m] => some (.ctorBegin m)
  | ["ctor-end", m] => some (.ctorEnd m)
  | ["post-init", m] => some (.postInit m)
  | ["dtor", m] => some (.dtor m)
  | _ => none

def showWhy : Why String → String
  | .none => "-"
  | .loop a b => s!"loop:{a}>{b}"
  | .unloadable m => s!"unloadable:{m}"
  | .fuel => "fuel"

def showStatus (n : Nat) : String := if n ≥ 128 ∧ n < 255 then s!"sig{n - 128}" else toString n

def showOutcome (o : Outcome String) : String :=
  s!"status {showStatus o.status} why={showWhy o.why} events" ++
    String.join (o.events.map fun e => " " ++ showEvent e)

def runModel (pinned : Bool) (op : Op) : Outcome String :=
  let fuel := op.universe.length + 1
  let o := runLists ltName op.G op.ok (if pinned then dfsPinned ltName else dfsFixed ltName) fuel op.lists {}
  -- a module without the hook runs the same walk and writes no post-init event
  { o with events := hideHookless op.hk o.events }

def sortNames (xs : List String) : List String :=
  (xs.toArray.qsort (fun a b => ltName a b)).toList

def specLine (op : Op) : String :=
  let U := op.universe
  let L := op.lists.flatten
  if mustAbort op.G op.ok U L then "demand abort"
  else "demand run " ++ ",".intercalate (sortNames (reachable op.G U L).eraseDups)

/-- first event (chronologically) that is not `okAt` its predecessors -/
def firstDisorder (G : String → List String) (hk : String → Bool) (U : List String) :
    List (Event String) → List (Event String) → Option (Event String)
  | _, [] => none
  | seen, e :: rest => if okAtH G hk U seen e then firstDisorder G hk U (e :: seen) rest else some e

def judgeLine (op : Op) (rec : List String) : String :=
  match rec with
  | "status" :: st :: _why :: "events" :: evs =>
    let status : Nat := if st.startsWith "sig" then 128 + ((st.drop 3).toString.toNat?.getD 0) else st.toNat?.getD 999
    match evs.mapM parseEvent with
    | none => "FAIL unparsable event in " ++ " ".intercalate evs
    | some events =>
      let U := op.universe
      let L := op.lists.flatten
      if judgeH op.G op.ok op.hk U L status events then "ok"
      else if mustAbort op.G op.ok U L then
        if status = 0 then "FAIL start-up succeeded although a reachable module is unloadable or on a dependency cycle"
        else "FAIL post-init of a module that lies on a dependency cycle"
      else if status ≠ 0 then s!"FAIL acyclic loadable graph but start-up aborted with status {st}"
      else match firstDisorder op.G op.hk U [] events with
        | some e => s!"FAIL event out of order or repeated: {showEvent e}"
        | none =>
          if !completeRunH op.hk L events then "FAIL a listed module was not constructed, or a constructed module lacks ctor-end / post-init / dtor"
          else "FAIL an unloadable module was constructed"
  | _ => "FAIL no status record: " ++ " ".intercalate rec

end Drv.ModuleDrv

open Drv Drv.ModuleDrv in
def main (args : List String) : IO UInt32 := do
  let mode := args.head?.getD "model"
  let pinned := args.contains "pinned"
  let lines ← readLines
  let mut out : Array String := Array.mkEmpty lines.size
  let mut cur : Option Op := none
  for l in lines do
    if l.startsWith "case " then
      cur := none
      out := out.push l
    else
      let f := fields l
      if f.head? == some "obs" then
        out := out.push (match cur with
          | some op => if mode == "judge" then judgeLine op f.tail else "bad-op"
          | none => "bad-op")
      else
        match parseOp f with
        | none => cur := none; out := out.push "bad-op"
        | some op =>
          cur := some op
          out := out.push (match mode with
            | "model" => showOutcome (runModel pinned op)
            | "spec" => specLine op
            | "judge" => "-"
            | _ => "bad-op")
  emit (← IO.getStdout) out
  return 0
