import Iauthd.Conf.Model
import Iauthd.Conf.Judge
import Drv.Util
/-
  drv_conf model <variant>   < ops          one record per op line (same syntax as harness/h_conf.c)
  drv_conf judge <C14|C15|C16> < lines      lines are `<op> => <implementation record>`; prints the
                                            implementation record when the property admits it, else
                                            `expected …`
  drv_conf render            < lines        `<doc> <tape>` -> hex of `render doc (layoutOfTape tape doc)`
  variant: `pinned` | `fixed`, optionally followed by `,+f9` / `,-f10` … / `,+vol`
-/
open Iauthd Iauthd.Conf

namespace Drv.ConfDrv

/-! ### text encodings -/

def hx (b : Bytes) : String := Bytes.toHex b
def hxo (b : Option Bytes) : String := Bytes.toHexOpt b

def parsePath (s : String) : List Bytes := (s.splitOn "/").map Bytes.ofHex

def parseVariant (s : String) : Variant × Bool :=
  let parts := s.splitOn ","
  let base : Variant × Bool := if parts.head? == some "fixed" then (Variant.fixed, true) else (Variant.pinned, false)
  parts.drop 1 |>.foldl (fun (v, sv) p =>
    let on := p.startsWith "+"
    match (p.drop 1).toString with
    | "f9" => ({ v with f9 := on }, sv) | "f10" => ({ v with f10 := on }, sv)
    | "f11" => ({ v with f11 := on }, sv) | "f12" => ({ v with f12 := on }, sv)
    | "f13" => ({ v with f13 := on }, sv) | "f14" => ({ v with f14 := on }, sv)
    | "f15" => ({ v with f15 := on }, sv) | "f16" => ({ v with f16 := on }, sv)
    | "vol" => (v, on)
    | _ => (v, sv)) base

/-! #### documents: `name:S<hex>`, `name:P<hex>+<hex>`, `name:L<hex>,<hex>`, `name:O[e;e]` -/

abbrev P := List Char

def takeHex : P → String × P
  | cs => let h := cs.takeWhile (fun c => c.isAlphanum || c == '='); (String.ofList h, cs.drop h.length)

partial def parseEntries (cs : P) (close : Bool) : List Spec.Entry × P :=
  match cs with
  | [] => ([], [])
  | ']' :: rest => if close then ([], rest) else ([], rest)
  | ';' :: rest => parseEntries rest close
  | _ =>
    let (nh, cs) := takeHex cs
    let name := Bytes.ofHex nh
    match cs with
    | ':' :: 'S' :: rest =>
      let (h, rest) := takeHex rest
      let (es, rest) := parseEntries rest close
      ((name, .str (Bytes.ofHex h)) :: es, rest)
    | ':' :: 'P' :: rest =>
      let (h, rest) := takeHex rest
      let (s, rest) := takeHex (rest.drop 1)
      let (es, rest) := parseEntries rest close
      ((name, .pair (Bytes.ofHex h) (Bytes.ofHex s)) :: es, rest)
    | ':' :: 'L' :: rest =>
      let rec items (cs : P) (acc : List Bytes) : List Bytes × P :=
        let (h, cs') := takeHex cs
        if h.isEmpty then (acc, cs') else
        match cs' with
        | ',' :: r => items r (acc ++ [Bytes.ofHex h])
        | _ => (acc ++ [Bytes.ofHex h], cs')
      let (xs, rest) := items rest []
      let (es, rest) := parseEntries rest close
      ((name, .list xs) :: es, rest)
    | ':' :: 'O' :: '[' :: rest =>
      let (sub, rest) := parseEntries rest true
      let (es, rest) := parseEntries rest close
      ((name, .obj sub) :: es, rest)
    | _ => ([], [])

def parseDoc (s : String) : Spec.Doc := (parseEntries s.toList false).1

/-! #### layout tapes: one character (0-9a-z) per choice, consumed in rendering order -/

def tapeVal (c : Char) : Nat :=
  if c.isDigit then c.toNat - 48 else if 'a' ≤ c ∧ c ≤ 'z' then c.toNat - 87 else 0

abbrev Tape := List Nat

def pop : Tape → Nat × Tape
  | [] => (0, [])
  | x :: xs => (x, xs)

def escOf (n : Nat) : Spec.Esc :=
  match n % 5 with | 0 => .raw | 1 => .named | 2 => .hex | 3 => .hexU | _ => .bsl

def strLay (t : Tape) (s : Bytes) : Spec.StrLay × Tape :=
  let (b, t) := pop t
  if b % 2 == 0 then ({ bare := true, escs := [] }, t)
  else
    let es := (t.take s.length).map escOf
    ({ bare := false, escs := es }, t.drop s.length)

def termOf (n : Nat) : Spec.Term :=
  match n % 4 with | 0 => .semi | 1 => .nl | 2 => .both | _ => .none

mutual
partial def valLay (t : Tape) : Spec.Val → Spec.ValLay × Tape
  | .str s => let (l, t) := strLay t s; (.str l, t)
  | .pair h s =>
    let (lh, t) := strLay t h
    let (g, t) := pop t
    let (ls, t) := strLay t s
    (.pair lh g ls, t)
  | .list xs =>
    let (p, t) := pop t
    let (og, t) := pop t
    let (items, t) := xs.foldl (fun (acc, t) x =>
      let (g1, t) := pop t
      let (l, t) := strLay t x
      let (g2, t) := pop t
      (acc ++ [(l, g1, g2)], t)) ([], t)
    let (cg, t) := pop t
    (.list (p % 2 == 0) og items cg, t)
  | .obj es =>
    let (og, t) := pop t
    let (ls, t) := entLays t es
    let (cg, t) := pop t
    (.obj og ls cg, t)
partial def entLays (t : Tape) : List Spec.Entry → List Spec.EntLay × Tape
  | [] => ([], t)
  | (n, v) :: es =>
    let (pre, t) := pop t
    let (ln, t) := strLay t n
    let (sep, t) := pop t
    let (lv, t) := valLay t v
    let (pt, t) := pop t
    let (tm, t) := pop t
    let (rest, t) := entLays t es
    ((pre, ln, sep, lv, pt, termOf tm) :: rest, t)
end

/-- one character per choice, or `[<decimal>]` for a choice of any size (general gaps) -/
partial def parseTape : List Char → Tape
  | [] => []
  | '[' :: rest =>
    let ds := rest.takeWhile (· != ']')
    ((String.ofList ds).toNat?.getD 0) :: parseTape ((rest.dropWhile (· != ']')).drop 1)
  | c :: rest => tapeVal c :: parseTape rest

def layoutOfTape (tape : String) (d : Spec.Doc) : Spec.Layout :=
  let t : Tape := parseTape tape.toList
  let (ls, t) := entLays t d
  { entries := ls, post := (pop t).1 }

/-! ### records -/

def kindLetter (k : Nat) : String := match k with | 0 => "s" | 1 => "a" | 2 => "l" | _ => "o"
def kindOfLetter (s : String) : Nat := match s with | "s" => 0 | "a" => 1 | "l" => 2 | "L" => 2 | _ => 3

def hookText (hs : List HookRec) : String :=
  if hs.isEmpty then "-" else
  ",".intercalate (hs.map fun h => kindLetter h.kind ++ ":" ++ "/".intercalate (h.path.map hx))

def listText (xs : List Bytes) : String := if xs.isEmpty then "()" else ",".intercalate (xs.map hx)

def b01 (b : Bool) : String := if b then "1" else "0"

mutual
partial def dumpNode (depth : Nat) : Node → String
  | n =>
    let b := n.base
    let head := s!" {depth}:{kindLetter n.kind}:{hx b.name}:p{b01 b.present}:s{b01 b.specified}:h{b01 b.hook}:"
    match n with
    | .str _ v d sub parsed =>
      let p := match sub with
        | .plain => (match parsed with
            | .zero => "-"
            | .num k => if k == 0 then "-" else "?"
            | .ptr x => if v == some x then "v" else "?")
        | _ => (match parsed with | .zero => "0" | .num k => toString k | .ptr _ => "?")
      head ++ s!"v={hxo v}:d={hxo d}:t{sub.code}:P={p}"
    | .inaddr _ h s dh ds =>
      head ++ s!"v={hxo (h.map (·.val))}+{hxo (s.map (·.val))}:d={hxo dh}+{hxo ds}"
    | .list _ v cap d => head ++ s!"v={listText v}:d={listText d}:c{b01 cap}"
    | .obj _ kids => head ++ dumpNodes (depth + 1) kids
partial def dumpNodes (depth : Nat) : List Node → String
  | [] => ""
  | n :: ns => dumpNode depth n ++ dumpNodes depth ns
end

structure MSt where
  st : State := {}
  dead : Bool := false

def parseReg (f : List String) : Option (List Bytes × RegKind × Bool) :=
  match f with
  | ["reg", k, path, sub, dflt, hook] =>
    let p := parsePath path
    let wh := hook == "hook=1"
    match k with
    | "s" => some (p, .str (SubTy.ofCode (sub.toNat?.getD 0)) (Bytes.ofHexOpt dflt), wh)
    | "a" =>
      match dflt.splitOn ":" with
      | [h, s] => some (p, .inaddr (Bytes.ofHexOpt h) (Bytes.ofHexOpt s), wh)
      | _ => none
    | "l" | "L" => some (p, .list (if dflt == "-" then [] else (dflt.splitOn ",").map Bytes.ofHex), wh)
    | "o" => some (p, .obj, wh)
    | _ => none
  | _ => none

def modelStep (V : Variant) (sv : Bool) (m : MSt) (line : String) : MSt × String :=
  if line.startsWith "case " then ({}, line)
  else if m.dead then (m, "<missing>")
  else
    let f := fields line
    match f with
    | "props" :: _ => (m, "ok")
    | "read" :: body :: _ =>
      match confRead V sv m.st (Bytes.ofHex body) with
      | .error e => ({ m with dead := true }, s!"fault {repr e}")
      | .ok (st, o) => ({ m with st }, s!"rc {o.rc} hooks {hookText o.hooks} w={o.warns}")
    | "reg" :: _ =>
      match parseReg f with
      | none => (m, "bad-op")
      | some (p, rk, wh) =>
        match confRegister V sv m.st p rk wh with
        | .error e => ({ m with dead := true }, s!"fault {repr e}")
        | .ok (st, o) => ({ m with st }, s!"ok hooks {hookText o.hooks} w={o.warns}")
    | ["hook", k, path] =>
      match setHook (parsePath path) (kindOfLetter k) m.st.kids with
      | none => (m, "nonode")
      | some kids => ({ m with st := { m.st with kids } }, "ok")
    | ["dump"] =>
      match readNodes m.st.kids m.st.heap with
      | .error e => ({ m with dead := true }, s!"fault {repr e}")
      | .ok _ => (m, "dump" ++ dumpNodes 1 m.st.kids)
    | ["parse", sub, v] =>
      let st := SubTy.ofCode (sub.toNat?.getD 0)
      match st with
      | .plain | .float => (m, "bad-op")
      | _ =>
        let (n, ok) := parseTyped sv st (Bytes.cstr (Bytes.ofHex v))
        (m, s!"val {n} ok={b01 ok}")
    | _ => (m, "bad-op")

/-! ### judge plumbing -/

def docField (f : List String) : Option Spec.Doc :=
  match f.find? (·.startsWith "doc=") with
  | some d => some (parseDoc (d.drop 4).toString)
  | none => none

def parseOp (line : String) : Spec.Op :=
  let f := fields line
  match f with
  | "props" :: ps :: _ => .props (ps.splitOn ",")
  | "read" :: body :: _ => .read (Bytes.ofHex body) (docField f)
  | "reg" :: _ =>
    match parseReg f with
    | some (p, rk, wh) =>
      let k : Spec.RegKind := match rk with
        | .str sub d => .str sub.code d
        | .inaddr a b => .pair a b
        | .list d => .list d
        | .obj => .obj
      .reg ⟨p, k⟩ wh
    | none => .other
  | ["hook", k, path] => .hook (kindOfLetter k) (parsePath path)
  | ["dump"] => .dump
  | ["parse", sub, v] => .parse (sub.toNat?.getD 0) (Bytes.cstr (Bytes.ofHex v))
  | _ => .other

def parseHooks (s : String) : List Spec.HookId :=
  if s == "-" then [] else
  (s.splitOn ",").map fun h =>
    match h.splitOn ":" with
    | [k, p] => (kindOfLetter k, (parsePath p).map Spec.lowerName)
    | _ => (9, [])

def parseList (s : String) : List Bytes := if s == "()" then [] else (s.splitOn ",").map Bytes.ofHex

/-- one dumped node → (depth, ONode without path) -/
def parseDumpNode (tok : String) : Option (Nat × Bytes × Spec.ONode) :=
  match tok.splitOn ":" with
  | depth :: k :: name :: p :: sp :: _h :: rest =>
    let kind := kindOfLetter k
    let val? : Option Spec.OVal := match kind, rest with
      | 0, [v, d, t, pp] =>
        let sub := (t.drop 1).toString.toNat?.getD 0
        let pv := (pp.drop 2).toString
        let parsed : Spec.TExp := if sub == 0 || sub == 3 then .any else match pv.toNat? with | some n => .value n | none => .reject
        some (.str (Bytes.ofHexOpt (v.drop 2).toString) (Bytes.ofHexOpt (d.drop 2).toString) sub parsed)
      | 1, [v, d] =>
        match (v.drop 2).toString.splitOn "+", (d.drop 2).toString.splitOn "+" with
        | [h, s], [dh, ds] => some (.pair (Bytes.ofHexOpt h) (Bytes.ofHexOpt s) (Bytes.ofHexOpt dh) (Bytes.ofHexOpt ds))
        | _, _ => none
      | 2, [v, d, _c] => some (.list (parseList (v.drop 2).toString) (parseList (d.drop 2).toString))
      | 3, _ => some .obj
      | _, _ => none
    match val? with
    | some val => some (depth.toNat?.getD 1, Bytes.ofHex name,
        { path := [], kind, present := p == "p1", specified := sp == "s1", val })
    | none => none
  | _ => none

def parseDump (toks : List String) : Option (List Spec.ONode) := Id.run do
  let mut stack : List Bytes := []
  let mut out : List Spec.ONode := []
  for t in toks do
    match parseDumpNode t with
    | none => return none
    | some (depth, name, n) =>
      stack := stack.take (depth - 1) ++ [Spec.lowerName name]
      out := out ++ [{ n with path := stack, spell := some name }]
  return some out

def wField (s : String) : Nat := (s.drop 2).toString.toNat?.getD 0

def parseObs (rec : String) : Spec.Obs :=
  let f := fields rec
  match f with
  | ["rc", n, "hooks", h, w] => .rc (n.toInt?.getD 0) (parseHooks h) (wField w)
  | ["ok", "hooks", h, w] => .regOk (parseHooks h) (wField w)
  | ["ok"] => .ok
  | ["nonode"] => .nonode
  | "dump" :: toks => match parseDump toks with | some ns => .dump rec ns | none => .other rec
  | ["val", n, ok] => .val (n.toNat?.getD 0) (ok == "ok=1")
  | "fault" :: _ => .fault rec
  | _ => if rec == "<missing>" then .fault rec else .other rec

/-- a `read` that carries a document must carry the text `Spec.render` gives for it
    (`lay=-`: hand-written text, not checked) -/
def bodyOk (op : String) : Bool :=
  let f := fields op
  match f with
  | "read" :: body :: _ =>
    match f.find? (·.startsWith "doc="), f.find? (·.startsWith "lay=") with
    | some d, some l =>
      let tape := (l.drop 4).toString
      tape == "-" || Bytes.ofHex body == Spec.render (parseDoc (d.drop 4).toString) (layoutOfTape tape (parseDoc (d.drop 4).toString))
    | some d, none => Bytes.ofHex body == Spec.render (parseDoc (d.drop 4).toString) (layoutOfTape "0" (parseDoc (d.drop 4).toString))
    | _, _ => true
  | _ => true

def judgeLine (s : Spec.JState) (line : String) : Spec.JState × String :=
  if line.startsWith "case " then ({ prop := s.prop }, line)
  else
    match line.splitOn " => " with
    | [op, rec] =>
      if !bodyOk op then (s, "expected the body to be Spec.render of the op's document and layout") else
      let (s', r) := Spec.Judge.step s (parseOp op) (parseObs rec)
      match r with
      | none => (s', rec)
      | some msg => (s', "expected " ++ msg)
    | _ => (s, "expected a record")

end Drv.ConfDrv

open Drv Drv.ConfDrv in
def main (args : List String) : IO UInt32 := do
  let lines ← readLines
  let mut out : Array String := Array.mkEmpty lines.size
  match args with
  | "model" :: rest =>
    let (V, sv) := parseVariant (rest.headD "fixed")
    let mut m : MSt := {}
    for l in lines do
      let (m', o) := modelStep V sv m l
      m := m'
      out := out.push o
  | ["judge", p] =>
    let mut s : Spec.JState := { prop := (p.drop 1).toString.toNat?.getD 15 }
    for l in lines do
      let (s', o) := judgeLine s l
      s := s'
      out := out.push o
  | ["render"] =>
    for l in lines do
      match fields l with
      | [d, t] => out := out.push (hx (Spec.render (parseDoc d) (layoutOfTape t (parseDoc d))))
      | [d] => out := out.push (hx (Spec.render (parseDoc d) {}))
      | _ => out := out.push "bad-op"
  | _ =>
    IO.eprintln "usage: drv_conf model <variant> | judge <Cnn> | render"
    return 2
  emit (← IO.getStdout) out
  return 0
