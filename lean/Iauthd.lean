import Iauthd.Set.Model
