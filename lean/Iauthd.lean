import Iauthd.Util.Bytes
import Iauthd.Set.Model
import Iauthd.Set.Spec
import Iauthd.Set.Proofs
import Iauthd.Set.Dispose
import Iauthd.Set.Comparators
import Iauthd.Properties.C19
