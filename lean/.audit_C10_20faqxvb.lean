import Iauthd.Properties.C10
import Drv.ProtoMain
#print axioms Iauthd.Properties.C10_handler_shrinks_only
#print axioms Iauthd.Properties.C10_announce
#print axioms Iauthd.Properties.C10_in_use_figure
#print axioms Iauthd.Properties.C10_ids_unique
#print axioms Iauthd.Proto.runOps_total_inv
#print axioms Iauthd.Proto.stepLine_inv
#print axioms Iauthd.Proto.stepLine_total
