import Iauthd.Log.Model
/-
  C18 as a predicate over observables only (the entries of the `logs` section as written in
  the file, the messages, the lines found in the destination files).  Nothing here looks at
  the model's state; from `Iauthd.Log.Model` only the *input* types `Entry`, `RawEntry`, `Kind`
  are used.

  Reading of the English statement (interpretation choices, all disputable, all listed in
  vlib/eng_logeng.py `assumptions`):
    * a key is `<facility>.<severity text>` split at the FIRST '.'; a key without '.' maps nothing;
    * facility names and severity names are compared without regard to letter case; the
      facility `*` stands for every facility;
    * severity text: `*` alone = every severity; otherwise a comma list of items
      `[>=|>|<=|<|=]name`; one trailing comma is tolerated (so the empty text is the empty
      list: valid, maps nothing); any other malformed item (empty, unknown name, doubled
      operator, `*` inside a list) makes the WHOLE entry void;
    * the set denoted by a list is the union of its items;
    * "written to destination d": at least one copy of the line reaches d (the property does
      not speak about multiplicity: two entries naming the same file give two copies);
    * two entries of one file with the same key (up to case) and the same value kind: the
      later one replaces the earlier one (that is the configuration language, C14-C16);
    * a destination is named `file:<path>`; distinct paths are distinct destinations
      (in particular paths differing only in letter case).
-/
namespace Iauthd.Log.Spec
open Iauthd

def lowerAll (a : Bytes) : Bytes := a.map Bytes.lower

/-- equal up to letter case -/
def sameNoCase (a b : Bytes) : Bool := decide (lowerAll a = lowerAll b)

/-- severity names in increasing order of gravity (src/log.h `enum log_severity`) -/
def severityNames : List Bytes := [
  [100, 101, 98, 117, 103],  -- debug
  [99, 111, 109, 109, 97, 110, 100],  -- command
  [105, 110, 102, 111],  -- info
  [119, 97, 114, 110, 105, 110, 103],  -- warning
  [101, 114, 114, 111, 114],  -- error
  [102, 97, 116, 97, 108]]  -- fatal

def sevIndexFrom : List Bytes → Nat → Bytes → Option Nat
  | [], _, _ => none
  | n :: ns, i, name => if sameNoCase name n then some i else sevIndexFrom ns (i + 1) name

/-- position of a severity name, if it is one -/
def sevIndex (name : Bytes) : Option Nat := sevIndexFrom severityNames 0 name

/-- pieces between occurrences of `c` (always at least one piece) -/
def splitOn (c : UInt8) : Bytes → List Bytes
  | [] => [[]]
  | x :: xs =>
    if x = c then [] :: splitOn c xs
    else match splitOn c xs with
      | h :: t => (x :: h) :: t
      | [] => [[x]]

/-- text before / after the first `c` -/
def splitFirst (c : UInt8) : Bytes → Option (Bytes × Bytes)
  | [] => none
  | x :: xs =>
    if x = c then some ([], xs)
    else match splitFirst c xs with
      | some (a, b) => some (x :: a, b)
      | none => none

inductive Rel where
  | eq | ge | gt | le | lt
  deriving Repr, DecidableEq

/-- `s` is in the range `<rel> x` -/
def Rel.holds : Rel → Nat → Nat → Bool
  | .eq, x, s => decide (s = x)
  | .ge, x, s => decide (x ≤ s)
  | .gt, x, s => decide (x < s)
  | .le, x, s => decide (s ≤ x)
  | .lt, x, s => decide (s < x)

/-- operator of an item (two-character operators first) and the name that follows -/
def stripOp : Bytes → Rel × Bytes
  | 62 :: 61 :: r => (.ge, r)
  | 62 :: r => (.gt, r)
  | 60 :: 61 :: r => (.le, r)
  | 60 :: r => (.lt, r)
  | 61 :: r => (.eq, r)
  | r => (.eq, r)

/-- the severities one item denotes; `none`: not an item -/
def itemDenotes (item : Bytes) : Option (Nat → Bool) :=
  match sevIndex (stripOp item).2 with
  | none => none
  | some x => some (fun s => (stripOp item).1.holds x s)

/-- the items of a comma list, one trailing comma tolerated -/
def listItems (txt : Bytes) : List Bytes :=
  if (splitOn 44 txt).getLast? = some [] then (splitOn 44 txt).dropLast else splitOn 44 txt

/-- the severities a severity text denotes; `none`: unknown syntax -/
def sevDenotes (txt : Bytes) : Option (Nat → Bool) :=
  if txt = [42] then some (fun s => decide (s < 6))
  else if (listItems txt).all (fun it => (itemDenotes it).isSome) then
    some (fun s => (listItems txt).any (fun it =>
      match itemDenotes it with
      | some p => p s
      | none => false))
  else none

/-- the key of an entry maps messages of facility `fac` and severity `sev` -/
def keyDenotes (key fac : Bytes) (sev : Nat) : Bool :=
  match splitFirst 46 key with
  | none => false
  | some (f, txt) =>
    (sameNoCase f fac || decide (f = [42])) &&
    (match sevDenotes txt with
     | some p => p sev
     | none => false)

/-- C18, first sentence: a message of facility `fac` and severity `sev` is written to
    destination `d` exactly when some entry of the section maps it there. -/
def routes (sec : List Entry) (fac : Bytes) (sev : Nat) (d : Bytes) : Bool :=
  sec.any (fun e => keyDenotes e.key fac sev && decide (d ∈ e.values))

/-- attribution: the text of a line after its timestamp -/
def lineFor (fac : Bytes) (sev : Nat) (text : Bytes) : Bytes :=
  [40] ++ fac ++ [58] ++ severityNames.getD sev [] ++ [41, 32] ++ text

/-! ### histories (what the `spec` mode of the driver runs) -/

/-- entries of a file that are not replaced by a later entry of the same key and kind -/
def effective : List RawEntry → List RawEntry
  | [] => []
  | e :: rest =>
    if rest.any (fun e' => sameNoCase e'.key e.key && decide (e'.kind = e.kind)) then effective rest
    else e :: effective rest

def toEntries (es : List RawEntry) : List Entry := (effective es).map (fun e => ⟨e.key, e.values⟩)

/-- distinct destination names mentioned by a section, in order of first mention -/
def mentioned (sec : List Entry) : List Bytes :=
  (sec.flatMap (·.values)).foldl (fun acc d => if d ∈ acc then acc else acc ++ [d]) []

/-- the file a destination name stands for: what follows the first ':' -/
def destFile (d : Bytes) : Bytes :=
  match splitFirst 58 d with
  | some (_, p) => p
  | none => []

structure St where
  current : List Entry := []              -- "the current logs section"
  dead : Bool := false                     -- a fatal message ends the process
  files : List (Bytes × List Bytes) := []  -- path ↦ expected lines of the test messages
  deriving Repr

def addLine (files : List (Bytes × List Bytes)) (path line : Bytes) : List (Bytes × List Bytes) :=
  match files with
  | [] => [(path, [line])]
  | (p, ls) :: rest => if p = path then (p, ls ++ [line]) :: rest else (p, ls) :: addLine rest path line

/-- a load that succeeded (`some es`: the file's `logs` entries; `none`: no such object) -/
def onLoad (s : St) (file : Option (List RawEntry)) : St :=
  if s.dead then s else
  match file with
  | some es => { s with current := toEntries es }
  | none => { s with current := [] }

def onMessage (s : St) (fac : Bytes) (sev : Nat) (text : Bytes) : St :=
  if s.dead then s else
  let ds := (mentioned s.current).filter (fun d => routes s.current fac sev d)
  { s with files := ds.foldl (fun fs d => addLine fs (destFile d) (lineFor fac sev text)) s.files,
           dead := decide (sev = 5) }

end Iauthd.Log.Spec
