import Iauthd.Log.ProofsLoad
/-
  From the file to the routing: what `load` leaves in the tree is the file's section.

    * `keyDenotes_congr`   the specification's reading of a key does not depend on letter case
                           (facility and severity names are case-insensitive; the punctuation
                           `. , * < > =` has no case);
    * `walk_live`          after the merge the children of `logs` are exactly: the registered
                           child, plus one child per child of the scratch tree, with that child's
                           kind and values and its name up to case (the live node keeps its old
                           spelling);
    * `scratch_routes`     the scratch tree (first spelling, last value per (name, kind)) denotes
                           the same routing as the specification's `effective` entries (last entry
                           per (name, kind));
    * `load_routes_file`   hence: after a successful load of `logs { es }` the routing is
                           `Spec.routes (Spec.toEntries es)`.
-/
namespace Iauthd.Log
open Iauthd

/-! ### letter case and punctuation -/

theorem lower_eq_iff {c k : UInt8} (hk : k.toNat < 65) : Bytes.lower c = k ↔ c = k := by
  constructor
  · intro h
    unfold Bytes.lower at h
    split at h
    · rename_i hc
      have := congrArg UInt8.toNat h
      rw [UInt8.toNat_add] at this
      have e1 : (32 : UInt8).toNat = 32 := rfl
      omega
    · exact h
  · rintro rfl
    unfold Bytes.lower
    split
    · rename_i hc; omega
    · rfl

theorem lower_idem (c : UInt8) : Bytes.lower (Bytes.lower c) = Bytes.lower c := by
  unfold Bytes.lower
  split
  · rename_i hc
    have e1 : (32 : UInt8).toNat = 32 := rfl
    split
    · rename_i hc2
      rw [UInt8.toNat_add] at hc2
      omega
    · rfl
  · rfl

theorem lowerAll_idem (a : Bytes) : Spec.lowerAll (Spec.lowerAll a) = Spec.lowerAll a := by
  simp [Spec.lowerAll, List.map_map, Function.comp_def, lower_idem]

theorem sameNoCase_lower_left (a b : Bytes) : Spec.sameNoCase (Spec.lowerAll a) b = Spec.sameNoCase a b := by
  simp [Spec.sameNoCase, lowerAll_idem]

theorem lowerAll_eq_nil {a : Bytes} : Spec.lowerAll a = [] ↔ a = [] := by
  simp [Spec.lowerAll]

theorem lowerAll_cons (x : UInt8) (xs : Bytes) :
    Spec.lowerAll (x :: xs) = Bytes.lower x :: Spec.lowerAll xs := rfl

theorem lowerAll_eq_single {a : Bytes} {k : UInt8} (hk : k.toNat < 65) : Spec.lowerAll a = [k] ↔ a = [k] := by
  cases a with
  | nil => simp [Spec.lowerAll]
  | cons x xs =>
    rw [lowerAll_cons]
    simp only [List.cons.injEq, lowerAll_eq_nil, lower_eq_iff hk]

theorem splitFirst_lower {c : UInt8} (hc : c.toNat < 65) : ∀ s : Bytes,
    Spec.splitFirst c (Spec.lowerAll s) =
      (Spec.splitFirst c s).map (fun p => (Spec.lowerAll p.1, Spec.lowerAll p.2))
  | [] => rfl
  | x :: xs => by
    rw [lowerAll_cons]
    by_cases hx : x = c
    · subst hx
      have hl : Bytes.lower x = x := (lower_eq_iff hc).mpr rfl
      simp only [Spec.splitFirst, hl, if_true, Option.map_some]
      rfl
    · have : ¬ Bytes.lower x = c := fun h => hx ((lower_eq_iff hc).mp h)
      simp only [Spec.splitFirst, hx, this, if_false]
      rw [splitFirst_lower hc xs]
      cases Spec.splitFirst c xs with
      | none => rfl
      | some p => cases p; rfl

theorem splitOn_lower {c : UInt8} (hc : c.toNat < 65) : ∀ s : Bytes,
    Spec.splitOn c (Spec.lowerAll s) = (Spec.splitOn c s).map Spec.lowerAll
  | [] => rfl
  | x :: xs => by
    rw [lowerAll_cons]
    by_cases hx : x = c
    · subst hx
      have hl : Bytes.lower x = x := (lower_eq_iff hc).mpr rfl
      simp only [Spec.splitOn, hl, if_true, List.map_cons]
      rw [splitOn_lower hc xs]
      rfl
    · have : ¬ Bytes.lower x = c := fun h => hx ((lower_eq_iff hc).mp h)
      simp only [Spec.splitOn, hx, this, if_false]
      rw [splitOn_lower hc xs]
      obtain ⟨h, t, ht⟩ := splitOn_ne_nil c xs
      rw [ht]
      rfl

theorem splitOp_lower (s : Bytes) :
    splitOp (Spec.lowerAll s) = ((splitOp s).1, Spec.lowerAll (splitOp s).2) := by
  have h62 : ∀ x : UInt8, Bytes.lower x = 62 ↔ x = 62 := fun x => lower_eq_iff (by decide)
  have h61 : ∀ x : UInt8, Bytes.lower x = 61 ↔ x = 61 := fun x => lower_eq_iff (by decide)
  have h60 : ∀ x : UInt8, Bytes.lower x = 60 ↔ x = 60 := fun x => lower_eq_iff (by decide)
  have L62 : Bytes.lower 62 = 62 := by decide
  have L61 : Bytes.lower 61 = 61 := by decide
  have L60 : Bytes.lower 60 = 60 := by decide
  have N1 : ¬ (62 : UInt8) = 60 := by decide
  have N2 : ¬ (62 : UInt8) = 61 := by decide
  have N3 : ¬ (60 : UInt8) = 62 := by decide
  have N4 : ¬ (60 : UInt8) = 61 := by decide
  have N5 : ¬ (61 : UInt8) = 62 := by decide
  have N6 : ¬ (61 : UInt8) = 60 := by decide
  cases s with
  | nil => rfl
  | cons c r =>
    rw [lowerAll_cons]
    by_cases c62 : c = 62
    · subst c62
      cases r with
      | nil => simp [splitOp, L62, Spec.lowerAll]
      | cons d r' =>
        rw [lowerAll_cons]
        by_cases d61 : d = 61
        · subst d61; simp [splitOp, L62, L61]
        · have : ¬ Bytes.lower d = 61 := fun h => d61 ((h61 d).mp h)
          simp [splitOp, L62, d61, this, Spec.lowerAll]
    · have n62 : ¬ Bytes.lower c = 62 := fun h => c62 ((h62 c).mp h)
      by_cases c60 : c = 60
      · subst c60
        cases r with
        | nil => simp [splitOp, L60, N3, Spec.lowerAll]
        | cons d r' =>
          rw [lowerAll_cons]
          by_cases d61 : d = 61
          · subst d61; simp [splitOp, L60, L61, N3]
          · have : ¬ Bytes.lower d = 61 := fun h => d61 ((h61 d).mp h)
            simp [splitOp, L60, N3, d61, this, Spec.lowerAll]
      · have n60 : ¬ Bytes.lower c = 60 := fun h => c60 ((h60 c).mp h)
        by_cases c61 : c = 61
        · subst c61; simp [splitOp, L61, N5, N6, Spec.lowerAll]
        · have n61 : ¬ Bytes.lower c = 61 := fun h => c61 ((h61 c).mp h)
          simp [splitOp, c62, c60, c61, n62, n60, n61, Spec.lowerAll]

theorem stripOp_lower (s : Bytes) :
    Spec.stripOp (Spec.lowerAll s) = ((Spec.stripOp s).1, Spec.lowerAll (Spec.stripOp s).2) := by
  rw [stripOp_eq, stripOp_eq, splitOp_lower]

theorem sevIndexFrom_lower (ns : List Bytes) (i : Nat) (n : Bytes) :
    Spec.sevIndexFrom ns i (Spec.lowerAll n) = Spec.sevIndexFrom ns i n := by
  induction ns generalizing i with
  | nil => rfl
  | cons m ms ih =>
    unfold Spec.sevIndexFrom
    rw [sameNoCase_lower_left, ih]

theorem itemDenotes_lower (it : Bytes) : Spec.itemDenotes (Spec.lowerAll it) = Spec.itemDenotes it := by
  unfold Spec.itemDenotes
  rw [stripOp_lower]
  simp only [Spec.sevIndex, sevIndexFrom_lower]

theorem listItems_lower (txt : Bytes) :
    Spec.listItems (Spec.lowerAll txt) = (Spec.listItems txt).map Spec.lowerAll := by
  unfold Spec.listItems
  rw [splitOn_lower (by decide)]
  have : ((Spec.splitOn 44 txt).map Spec.lowerAll).getLast? = some [] ↔ (Spec.splitOn 44 txt).getLast? = some [] := by
    rw [List.getLast?_map]
    cases (Spec.splitOn 44 txt).getLast? with
    | none => simp
    | some x => simp [lowerAll_eq_nil]
  by_cases h : (Spec.splitOn 44 txt).getLast? = some []
  · rw [if_pos h, if_pos (this.mpr h), List.map_dropLast]
  · rw [if_neg h, if_neg (fun h' => h (this.mp h'))]

theorem sevDenotes_lower (txt : Bytes) : Spec.sevDenotes (Spec.lowerAll txt) = Spec.sevDenotes txt := by
  unfold Spec.sevDenotes
  have hstar : Spec.lowerAll txt = [42] ↔ txt = [42] := lowerAll_eq_single (by decide)
  by_cases h : txt = [42]
  · rw [if_pos h, if_pos (hstar.mpr h)]
  · rw [if_neg h, if_neg (fun h' => h (hstar.mp h'))]
    rw [listItems_lower]
    simp only [List.all_map, List.any_map, Function.comp_def, itemDenotes_lower]

theorem keyDenotes_lower (key fac : Bytes) (sev : Nat) :
    Spec.keyDenotes (Spec.lowerAll key) fac sev = Spec.keyDenotes key fac sev := by
  unfold Spec.keyDenotes
  rw [splitFirst_lower (by decide)]
  cases Spec.splitFirst 46 key with
  | none => rfl
  | some p =>
    obtain ⟨f, txt⟩ := p
    simp only [Option.map_some, sameNoCase_lower_left, sevDenotes_lower]
    have : (Spec.lowerAll f = [42]) ↔ (f = [42]) := lowerAll_eq_single (by decide)
    simp only [this]

/-- the reading of a key does not depend on letter case -/
theorem keyDenotes_congr {k1 k2 : Bytes} (h : ciEq k1 k2 = true) (fac : Bytes) (sev : Nat) :
    Spec.keyDenotes k1 fac sev = Spec.keyDenotes k2 fac sev := by
  have : Spec.lowerAll k1 = Spec.lowerAll k2 := ciEq_iff.mp h
  rw [← keyDenotes_lower k1, ← keyDenotes_lower k2, this]

/-! ### what the merge leaves in the tree -/

/-- same node as far as log.c can see -/
def Same (x y : Child) : Prop := x.name = y.name ∧ x.kind = y.kind ∧ x.values = y.values ∧ x.reg = y.reg

/-- the live node `t` carries the file's entry `s`: same name up to case, same kind, the file's values -/
def Match (t s : Child) : Prop := ciEq t.name s.name = true ∧ t.kind = s.kind ∧ t.values = s.values

theorem Same.rfl' (x : Child) : Same x x := ⟨rfl, rfl, rfl, rfl⟩
theorem Same.trans {x y z : Child} (h1 : Same x y) (h2 : Same y z) : Same x z :=
  ⟨h1.1.trans h2.1, h1.2.1.trans h2.2.1, h1.2.2.1.trans h2.2.2.1, h1.2.2.2.trans h2.2.2.2⟩
theorem Same.setHook (x : Child) : Same x (setHook x) := ⟨rfl, rfl, rfl, rfl⟩
theorem Match.of_same {x y s : Child} (h : Same x y) (hm : Match x s) : Match y s :=
  ⟨h.1 ▸ hm.1, h.2.1 ▸ hm.2.1, h.2.2.1 ▸ hm.2.2⟩
theorem Match.self (s : Child) : Match s s := ⟨ciEq_refl _, rfl, rfl⟩

theorem mem_hookIf_same {f : Bool} {l : List Child} {x : Child} (h : x ∈ l) : ∃ x' ∈ hookIf f l, Same x x' := by
  unfold hookIf
  split
  · exact ⟨_, List.mem_map_of_mem h, Same.setHook x⟩
  · exact ⟨x, h, Same.rfl' x⟩

theorem same_of_mem_hookIf {f : Bool} {l : List Child} {x' : Child} (h : x' ∈ hookIf f l) : ∃ x ∈ l, Same x x' := by
  obtain ⟨y, hy, (rfl | rfl), _⟩ := mem_hookIf h
  · exact ⟨_, hy, Same.rfl' _⟩
  · exact ⟨y, hy, Same.setHook y⟩

theorem revert_keep {co : Bytes → Bool} {run : Run} {pre rest : List Child} {t : Child}
    {run1 : Run} {keep : Option Child} {md f : Bool}
    (h : revertChild co run pre t rest = (run1, keep, md, f)) :
    ∀ k ∈ keep.toList, k.reg = true ∧ k.name = t.name ∧ k.kind = t.kind := by
  unfold revertChild at h
  split at h
  · split at h
    · rename_i hreg
      split at h
      · simp only [Prod.mk.injEq] at h; obtain ⟨_, rfl, _, _⟩ := h
        intro k hk; simp only [Option.toList_some, List.mem_singleton] at hk; subst hk; exact ⟨hreg, rfl, rfl⟩
      · split at h <;>
        · simp only [Prod.mk.injEq] at h; obtain ⟨_, rfl, _, _⟩ := h
          intro k hk; simp only [Option.toList_some, List.mem_singleton] at hk; subst hk; exact ⟨hreg, rfl, rfl⟩
    · split at h <;>
      · simp only [Prod.mk.injEq] at h; obtain ⟨_, rfl, _, _⟩ := h
        intro k hk; simp at hk
  · split at h
    · simp only [Prod.mk.injEq] at h; obtain ⟨_, rfl, _, _⟩ := h
      intro k hk
      split at hk
      · rename_i hreg
        simp only [Option.toList_some, List.mem_singleton] at hk; subst hk; exact ⟨hreg, rfl, rfl⟩
      · simp at hk
    · simp only [Prod.mk.injEq] at h; obtain ⟨_, rfl, _, _⟩ := h
      intro k hk
      split at hk
      · rename_i hreg
        simp only [Option.toList_some, List.mem_singleton] at hk; subst hk; exact ⟨hreg, rfl, rfl⟩
      · simp at hk

/-- a string entry of a file has exactly one value -/
def StrOK (s : Child) : Prop := s.kind = .str → ∃ v, s.values = [v]

theorem update_match {co : Bytes → Bool} {run : Run} {pre rest : List Child} {t s : Child}
    (hci : ciEq t.name s.name = true) (hk : t.kind = s.kind) (hs : StrOK s)
    {run1 : Run} {t' : Child} {f : Bool}
    (h : updateChild co run pre t s rest = (run1, t', f)) : Match t' s := by
  unfold updateChild at h
  split at h
  · rename_i hstr
    obtain ⟨v, hv⟩ := hs (hk ▸ hstr)
    rw [hv] at h
    simp only [] at h
    have key : ∀ c : Child, c.name = t.name → c.kind = t.kind → c.values = [v] → Match c s :=
      fun c h1 h2 h3 => ⟨h1 ▸ hci, h2.trans hk, h3.trans hv.symm⟩
    split at h
    · split at h
      · simp only [Prod.mk.injEq] at h; obtain ⟨_, rfl, _⟩ := h; exact key _ rfl rfl rfl
      · split at h
        · simp only [Prod.mk.injEq] at h; obtain ⟨_, rfl, _⟩ := h; exact key _ rfl rfl rfl
        · split at h <;>
          · simp only [Prod.mk.injEq] at h; obtain ⟨_, rfl, _⟩ := h; exact key _ rfl rfl rfl
    · split at h
      · simp only [Prod.mk.injEq] at h; obtain ⟨_, rfl, _⟩ := h; exact key _ rfl rfl rfl
      · split at h <;>
        · simp only [Prod.mk.injEq] at h; obtain ⟨_, rfl, _⟩ := h; exact key _ rfl rfl rfl
  · split at h
    · rename_i hval
      simp only [Prod.mk.injEq] at h; obtain ⟨_, rfl, _⟩ := h
      exact ⟨hci, hk, hval⟩
    · split at h <;>
      · simp only [Prod.mk.injEq] at h; obtain ⟨_, rfl, _⟩ := h
        exact ⟨hci, hk, rfl⟩

theorem childCmp_zero_kind {a b : Child} (h1 : ¬ childCmp a b > 0) (h2 : ¬ childCmp a b < 0) : a.kind = b.kind := by
  have hc := childCmp_zero h1 h2
  unfold childCmp at h1 h2
  simp only [hc, if_true] at h1 h2
  cases ha : a.kind <;> cases hb : b.kind <;> simp [ha, hb, kindNum] at h1 h2 ⊢

/-- `walk_live`: the children after the merge are the already-merged ones, one node per scratch
    child (carrying its kind and values, under a name equal up to case), and registered nodes -/
theorem walk_live (co : Bytes → Bool) (run : Run) (pre ts ss : List Child) (modified : Bool) (fired : Nat) :
    (∀ s ∈ ss, StrOK s) →
    (∀ x ∈ pre, ∃ y ∈ (walk co run pre ts ss modified fired).live, Same x y) ∧
    (∀ s ∈ ss, ∃ y ∈ (walk co run pre ts ss modified fired).live, Match y s) ∧
    (∀ y ∈ (walk co run pre ts ss modified fired).live,
        (∃ x ∈ pre, Same x y) ∨ (∃ s ∈ ss, Match y s) ∨
        (y.reg = true ∧ ∃ t ∈ ts, y.name = t.name ∧ y.kind = t.kind)) := by
  fun_induction walk co run pre ts ss modified fired with
  | case1 run pre modified fired =>
    intro _
    exact ⟨fun x hx => ⟨x, hx, Same.rfl' x⟩, by simp, fun y hy => Or.inl ⟨y, hy, Same.rfl' y⟩⟩
  | case2 run pre modified fired s ss' ih =>
    intro hss
    obtain ⟨ihA, ihB, ihC⟩ := ih (fun x hx => hss x (List.mem_cons_of_mem _ hx))
    refine ⟨fun x hx => ihA x (List.mem_append.mpr (Or.inl hx)), ?_, ?_⟩
    · intro s' hs'
      rcases List.mem_cons.mp hs' with rfl | h
      · obtain ⟨y, hy, hsame⟩ := ihA s' (by simp)
        exact ⟨y, hy, Match.of_same hsame (Match.self _)⟩
      · exact ihB s' h
    · intro y hy
      rcases ihC y hy with ⟨x, hx, hs⟩ | ⟨s', hs', hm⟩ | ⟨_, t, ht, _⟩
      · rcases List.mem_append.mp hx with h | h
        · exact Or.inl ⟨x, h, hs⟩
        · rw [List.mem_singleton.mp h] at hs
          exact Or.inr (Or.inl ⟨s, List.mem_cons_self .., Match.of_same hs (Match.self _)⟩)
      · exact Or.inr (Or.inl ⟨s', List.mem_cons_of_mem _ hs', hm⟩)
      · cases ht
  | case3 run pre modified fired t ts' run1 keep m f h ih =>
    intro hss
    obtain ⟨ihA, _, ihC⟩ := ih hss
    refine ⟨?_, by simp, ?_⟩
    · intro x hx
      obtain ⟨x', hx', hs⟩ := mem_hookIf_same (f := f) hx
      obtain ⟨y, hy, hs2⟩ := ihA x' (List.mem_append.mpr (Or.inl hx'))
      exact ⟨y, hy, hs.trans hs2⟩
    · intro y hy
      rcases ihC y hy with ⟨x', hx', hs⟩ | ⟨s', hs', _⟩ | ⟨hr, t'', ht'', hn, hk⟩
      · rcases List.mem_append.mp hx' with h1 | h1
        · obtain ⟨x, hx, hs0⟩ := same_of_mem_hookIf h1
          exact Or.inl ⟨x, hx, hs0.trans hs⟩
        · obtain ⟨k, hk, hs0⟩ := same_of_mem_hookIf h1
          obtain ⟨kr, kn, kk⟩ := revert_keep h k hk
          have hs1 := hs0.trans hs
          exact Or.inr (Or.inr ⟨hs1.2.2.2 ▸ kr, t, List.mem_cons_self .., hs1.1 ▸ kn, hs1.2.1 ▸ kk⟩)
      · cases hs'
      · obtain ⟨t0, ht0, hs0⟩ := same_of_mem_hookIf ht''
        exact Or.inr (Or.inr ⟨hr, t0, List.mem_cons_of_mem _ ht0, hn.trans hs0.1.symm, hk.trans hs0.2.1.symm⟩)
  | case4 run pre modified fired t ts' s ss' hc ih =>
    intro hss
    obtain ⟨ihA, ihB, ihC⟩ := ih (fun x hx => hss x (List.mem_cons_of_mem _ hx))
    refine ⟨fun x hx => ihA x (List.mem_append.mpr (Or.inl hx)), ?_, ?_⟩
    · intro s' hs'
      rcases List.mem_cons.mp hs' with rfl | h
      · obtain ⟨y, hy, hsame⟩ := ihA s' (by simp)
        exact ⟨y, hy, Match.of_same hsame (Match.self _)⟩
      · exact ihB s' h
    · intro y hy
      rcases ihC y hy with ⟨x, hx, hs⟩ | ⟨s', hs', hm⟩ | h3
      · rcases List.mem_append.mp hx with h | h
        · exact Or.inl ⟨x, h, hs⟩
        · rw [List.mem_singleton.mp h] at hs
          exact Or.inr (Or.inl ⟨s, List.mem_cons_self .., Match.of_same hs (Match.self _)⟩)
      · exact Or.inr (Or.inl ⟨s', List.mem_cons_of_mem _ hs', hm⟩)
      · exact Or.inr (Or.inr h3)
  | case5 run pre modified fired t ts' s ss' hc1 hc2 run1 keep m f h ih =>
    intro hss
    obtain ⟨ihA, ihB, ihC⟩ := ih hss
    refine ⟨?_, ihB, ?_⟩
    · intro x hx
      obtain ⟨x', hx', hs⟩ := mem_hookIf_same (f := f) hx
      obtain ⟨y, hy, hs2⟩ := ihA x' (List.mem_append.mpr (Or.inl hx'))
      exact ⟨y, hy, hs.trans hs2⟩
    · intro y hy
      rcases ihC y hy with ⟨x', hx', hs⟩ | h2 | ⟨hr, t'', ht'', hn, hk⟩
      · rcases List.mem_append.mp hx' with h1 | h1
        · obtain ⟨x, hx, hs0⟩ := same_of_mem_hookIf h1
          exact Or.inl ⟨x, hx, hs0.trans hs⟩
        · obtain ⟨k, hk, hs0⟩ := same_of_mem_hookIf h1
          obtain ⟨kr, kn, kk⟩ := revert_keep h k hk
          have hs1 := hs0.trans hs
          exact Or.inr (Or.inr ⟨hs1.2.2.2 ▸ kr, t, List.mem_cons_self .., hs1.1 ▸ kn, hs1.2.1 ▸ kk⟩)
      · exact Or.inr (Or.inl h2)
      · obtain ⟨t0, ht0, hs0⟩ := same_of_mem_hookIf ht''
        exact Or.inr (Or.inr ⟨hr, t0, List.mem_cons_of_mem _ ht0, hn.trans hs0.1.symm, hk.trans hs0.2.1.symm⟩)
  | case6 run pre modified fired t ts' s ss' hc1 hc2 run1 t' f h ih =>
    intro hss
    obtain ⟨ihA, ihB, ihC⟩ := ih (fun x hx => hss x (List.mem_cons_of_mem _ hx))
    have hm : Match t' s := update_match (t := { t with name := s.name }) (ciEq_refl s.name) (show t.kind = s.kind from childCmp_zero_kind hc1 hc2)
      (hss s (List.mem_cons_self ..)) h
    refine ⟨?_, ?_, ?_⟩
    · intro x hx
      obtain ⟨x', hx', hs⟩ := mem_hookIf_same (f := f) hx
      obtain ⟨y, hy, hs2⟩ := ihA x' (List.mem_append.mpr (Or.inl hx'))
      exact ⟨y, hy, hs.trans hs2⟩
    · intro s' hs'
      rcases List.mem_cons.mp hs' with rfl | h'
      · obtain ⟨x', hx', hs⟩ := mem_hookIf_same (f := f) (l := [t']) (x := t') (by simp)
        obtain ⟨y, hy, hs2⟩ := ihA x' (List.mem_append.mpr (Or.inr hx'))
        exact ⟨y, hy, Match.of_same (hs.trans hs2) hm⟩
      · exact ihB s' h'
    · intro y hy
      rcases ihC y hy with ⟨x', hx', hs⟩ | ⟨s', hs', hm'⟩ | ⟨hr, t'', ht'', hn, hk⟩
      · rcases List.mem_append.mp hx' with h1 | h1
        · obtain ⟨x, hx, hs0⟩ := same_of_mem_hookIf h1
          exact Or.inl ⟨x, hx, hs0.trans hs⟩
        · obtain ⟨k, hk, hs0⟩ := same_of_mem_hookIf h1
          rw [List.mem_singleton.mp hk] at hs0
          exact Or.inr (Or.inl ⟨s, List.mem_cons_self .., Match.of_same (hs0.trans hs) hm⟩)
      · exact Or.inr (Or.inl ⟨s', List.mem_cons_of_mem _ hs', hm'⟩)
      · obtain ⟨t0, ht0, hs0⟩ := same_of_mem_hookIf ht''
        exact Or.inr (Or.inr ⟨hr, t0, List.mem_cons_of_mem _ ht0, hn.trans hs0.1.symm, hk.trans hs0.2.1.symm⟩)

/-! ### the scratch tree and the specification's `effective` entries -/

theorem sameClass_iff {a b : Child} : sameClass a b = true ↔ ciEq a.name b.name = true ∧ a.kind = b.kind := by
  simp [sameClass]

theorem sameClass_symm {a b : Child} (h : sameClass a b = true) : sameClass b a = true := by
  rw [sameClass_iff] at *; exact ⟨ciEq_symm h.1, h.2.symm⟩

theorem sameClass_trans {a b c : Child} (h1 : sameClass a b = true) (h2 : sameClass b c = true) :
    sameClass a c = true := by
  rw [sameClass_iff] at *; exact ⟨ciEq_trans h1.1 h2.1, h1.2.trans h2.2⟩

/-- no two children with the same (name up to case, kind): what the `struct set` guarantees -/
def ClassNoDup (cs : List Child) : Prop := cs.Pairwise (fun a b => sameClass a b = false)

def childOf (e : RawEntry) : Child :=
  { name := e.key, kind := e.kind, values := e.values, cached := scratchCache e.kind e.values }

/-- entry `e` belongs to the class of child `c` -/
def clsE (e : RawEntry) (c : Child) : Prop := ciEq e.key c.name = true ∧ e.kind = c.kind

theorem clsE_iff (e : RawEntry) (c : Child) : clsE e c ↔ sameClass (childOf e) c = true := by
  simp [clsE, sameClass_iff, childOf]

theorem mem_setValues {n : Child} : ∀ {cs : List Child}, ClassNoDup cs → ∀ {x : Child}, x ∈ setValues n cs →
    (sameClass n x = true ∧ x.values = n.values) ∨ (x ∈ cs ∧ sameClass n x = false)
  | [], _, x, hx => by simp [setValues] at hx
  | c :: rest, hnd, x, hx => by
    rw [ClassNoDup, List.pairwise_cons] at hnd
    unfold setValues at hx
    cases hc : sameClass n c with
    | true =>
      simp only [hc, if_true] at hx
      rcases List.mem_cons.mp hx with rfl | h'
      · left; exact ⟨by rw [sameClass_iff] at hc ⊢; exact hc, rfl⟩
      · right
        refine ⟨List.mem_cons_of_mem _ h', ?_⟩
        cases hx2 : sameClass n x with
        | false => rfl
        | true =>
          have := hnd.1 x h'
          rw [sameClass_trans (sameClass_symm hc) hx2] at this; cases this
    | false =>
      simp only [hc, Bool.false_eq_true, if_false] at hx
      rcases List.mem_cons.mp hx with rfl | h'
      · right; exact ⟨List.mem_cons_self .., hc⟩
      · rcases mem_setValues hnd.2 h' with h1 | h1
        · exact Or.inl h1
        · exact Or.inr ⟨List.mem_cons_of_mem _ h1.1, h1.2⟩

theorem setValues_has {n : Child} : ∀ {cs : List Child}, (∃ c ∈ cs, sameClass n c = true) →
    ∃ x ∈ setValues n cs, sameClass n x = true ∧ x.values = n.values
  | [], h => by obtain ⟨c, hc, _⟩ := h; cases hc
  | c :: rest, h => by
    unfold setValues
    cases hc : sameClass n c with
    | true =>
      simp only [if_true]
      exact ⟨_, List.mem_cons_self .., by rw [sameClass_iff] at hc ⊢; exact hc, rfl⟩
    | false =>
      simp only [Bool.false_eq_true, if_false]
      obtain ⟨c', hc', hs⟩ := h
      rcases List.mem_cons.mp hc' with rfl | h'
      · rw [hc] at hs; cases hs
      · obtain ⟨x, hx, hp⟩ := setValues_has (cs := rest) ⟨c', h', hs⟩
        exact ⟨x, List.mem_cons_of_mem _ hx, hp⟩

theorem setValues_keep {n c : Child} : ∀ {cs : List Child}, c ∈ cs → sameClass n c = false → c ∈ setValues n cs
  | [], h, _ => by cases h
  | d :: rest, h, hc => by
    unfold setValues
    rcases List.mem_cons.mp h with rfl | h'
    · simp [hc]
    · split
      · exact List.mem_cons_of_mem _ h'
      · exact List.mem_cons_of_mem _ (setValues_keep h' hc)

theorem setValues_keys (n : Child) : ∀ cs : List Child,
    (setValues n cs).map (fun c => (c.name, c.kind)) = cs.map (fun c => (c.name, c.kind))
  | [] => rfl
  | c :: rest => by
    unfold setValues
    split
    · rfl
    · simp [setValues_keys n rest]

theorem classNoDup_iff_keys (cs : List Child) :
    ClassNoDup cs ↔ (cs.map (fun c => (c.name, c.kind))).Pairwise
      (fun a b => (ciEq a.1 b.1 && decide (a.2 = b.2)) = false) := by
  rw [ClassNoDup, List.pairwise_map]
  rfl

theorem classNoDup_setValues {n : Child} {cs : List Child} (h : ClassNoDup cs) : ClassNoDup (setValues n cs) := by
  rw [classNoDup_iff_keys] at *
  rw [setValues_keys]; exact h

theorem classNoDup_insertChild {n : Child} : ∀ {cs : List Child}, ClassNoDup cs →
    (∀ c ∈ cs, sameClass n c = false) → ClassNoDup (insertChild n cs)
  | [], _, _ => by simp [insertChild, ClassNoDup]
  | c :: rest, h, hn => by
    unfold insertChild
    split
    · rw [ClassNoDup, List.pairwise_cons]; exact ⟨hn, h⟩
    · rw [ClassNoDup, List.pairwise_cons] at h ⊢
      refine ⟨?_, classNoDup_insertChild h.2 (fun x hx => hn x (List.mem_cons_of_mem _ hx))⟩
      intro x hx
      rcases mem_insertChild.mp hx with rfl | hx'
      · cases hs : sameClass c x with
        | false => rfl
        | true => have := hn c (List.mem_cons_self ..); rw [sameClass_symm hs] at this; cases this
      · exact h.1 x hx'

/-- what one conf_parse_get_child + assignment does to the scratch children -/
theorem scratchInsert_spec {cs : List Child} (e : RawEntry) (hnd : ClassNoDup cs) :
    ClassNoDup (scratchInsert cs e) ∧
    (∃ c ∈ scratchInsert cs e, clsE e c ∧ c.values = e.values) ∧
    (∀ c ∈ scratchInsert cs e, (clsE e c ∧ c.values = e.values) ∨ (c ∈ cs ∧ ¬ clsE e c)) ∧
    (∀ c ∈ cs, ¬ clsE e c → c ∈ scratchInsert cs e) := by
  unfold scratchInsert
  simp only []
  have hn : ({ name := e.key, kind := e.kind, values := e.values, cached := scratchCache e.kind e.values } : Child) = childOf e := rfl
  rw [hn]
  cases hany : cs.any (sameClass (childOf e)) with
  | true =>
    simp only [if_true]
    obtain ⟨c0, hc0, hs0⟩ := List.any_eq_true.mp hany
    refine ⟨classNoDup_setValues hnd, ?_, ?_, ?_⟩
    · obtain ⟨x, hx, h1, h2⟩ := setValues_has (n := childOf e) ⟨c0, hc0, hs0⟩
      exact ⟨x, hx, (clsE_iff e x).mpr h1, h2⟩
    · intro c hc
      rcases mem_setValues hnd hc with ⟨h1, h2⟩ | ⟨h1, h2⟩
      · exact Or.inl ⟨(clsE_iff e c).mpr h1, h2⟩
      · exact Or.inr ⟨h1, fun h => by rw [(clsE_iff e c).mp h] at h2; cases h2⟩
    · intro c hc hne
      apply setValues_keep hc
      cases hs : sameClass (childOf e) c with
      | false => rfl
      | true => exact absurd ((clsE_iff e c).mpr hs) hne
  | false =>
    simp only [Bool.false_eq_true, if_false]
    have hnone : ∀ c ∈ cs, sameClass (childOf e) c = false := by
      intro c hc
      cases hs : sameClass (childOf e) c with
      | false => rfl
      | true => rw [List.any_eq_true.mpr ⟨c, hc, hs⟩] at hany; cases hany
    refine ⟨classNoDup_insertChild hnd hnone, ?_, ?_, ?_⟩
    · exact ⟨childOf e, mem_insertChild.mpr (Or.inl rfl), ⟨ciEq_refl _, rfl⟩, rfl⟩
    · intro c hc
      rcases mem_insertChild.mp hc with rfl | h'
      · exact Or.inl ⟨⟨ciEq_refl _, rfl⟩, rfl⟩
      · exact Or.inr ⟨h', fun h => by have := hnone c h'; rw [(clsE_iff e c).mp h] at this; cases this⟩
    · intro c hc _
      exact mem_insertChild.mpr (Or.inr hc)

/-- the specification's "a later entry of the same key and kind" -/
def laterSame (e : RawEntry) (rest : List RawEntry) : Bool :=
  rest.any (fun e' => Spec.sameNoCase e'.key e.key && decide (e'.kind = e.kind))

theorem effective_cons (e : RawEntry) (rest : List RawEntry) :
    Spec.effective (e :: rest) = if laterSame e rest then Spec.effective rest else e :: Spec.effective rest := rfl

theorem effective_tail {e : RawEntry} {rest : List RawEntry} {x : RawEntry} (h : x ∈ Spec.effective rest) :
    x ∈ Spec.effective (e :: rest) := by
  rw [effective_cons]; split
  · exact h
  · exact List.mem_cons_of_mem _ h

theorem laterSame_iff {e : RawEntry} {rest : List RawEntry} :
    laterSame e rest = true ↔ ∃ e' ∈ rest, ciEq e'.key e.key = true ∧ e'.kind = e.kind := by
  simp [laterSame, List.any_eq_true, ciEq_eq_sameNoCase]

/-- the scratch tree built from a file versus the specification's effective entries -/
theorem fold_char (es : List RawEntry) : ∀ cs0 : List Child, ClassNoDup cs0 →
    ClassNoDup (es.foldl scratchInsert cs0) ∧
    (∀ c ∈ es.foldl scratchInsert cs0,
        (∃ e ∈ Spec.effective es, clsE e c ∧ c.values = e.values) ∨ (c ∈ cs0 ∧ ∀ e ∈ es, ¬ clsE e c)) ∧
    (∀ e ∈ Spec.effective es, ∃ c ∈ es.foldl scratchInsert cs0, clsE e c ∧ c.values = e.values) ∧
    (∀ c ∈ cs0, (∀ e ∈ es, ¬ clsE e c) → c ∈ es.foldl scratchInsert cs0) := by
  induction es with
  | nil =>
    intro cs0 h
    exact ⟨h, fun c hc => Or.inr ⟨hc, by simp⟩, by simp [Spec.effective], fun c hc _ => hc⟩
  | cons e es' ih =>
    intro cs0 h
    obtain ⟨i4, ⟨c1, hc1, hcls1, hval1⟩, i2, i3⟩ := scratchInsert_spec e h
    obtain ⟨ihN, ihA, ihB, ihC⟩ := ih (scratchInsert cs0 e) i4
    rw [List.foldl_cons]
    have hlater : ∀ c : Child, clsE e c → (∀ e' ∈ es', ¬ clsE e' c) → laterSame e es' = false := by
      intro c hce hno
      cases hl : laterSame e es' with
      | false => rfl
      | true =>
        obtain ⟨e', he', h1, h2⟩ := laterSame_iff.mp hl
        exact absurd ⟨ciEq_trans h1 hce.1, h2.trans hce.2⟩ (hno e' he')
    refine ⟨ihN, ?_, ?_, ?_⟩
    · intro c hc
      rcases ihA c hc with ⟨e', he', hp⟩ | ⟨hc1', hno⟩
      · exact Or.inl ⟨e', effective_tail he', hp⟩
      · rcases i2 c hc1' with ⟨hce, hv⟩ | ⟨hc0, hne⟩
        · left
          refine ⟨e, ?_, hce, hv⟩
          rw [effective_cons, hlater c hce hno]
          exact List.mem_cons_self ..
        · right
          refine ⟨hc0, ?_⟩
          intro e'' he''
          rcases List.mem_cons.mp he'' with rfl | h'
          · exact hne
          · exact hno e'' h'
    · intro e'' he''
      rw [effective_cons] at he''
      split at he''
      · exact ihB e'' he''
      · rename_i hl
        rcases List.mem_cons.mp he'' with rfl | h'
        · refine ⟨c1, ihC c1 hc1 ?_, hcls1, hval1⟩
          intro e' he' hce'
          apply hl
          exact laterSame_iff.mpr ⟨e', he', ciEq_trans hce'.1 (ciEq_symm hcls1.1), hce'.2.trans hcls1.2.symm⟩
        · exact ihB e'' h'
    · intro c hc hno
      exact ihC c (i3 c hc (hno e (List.mem_cons_self ..))) (fun e' he' => hno e' (List.mem_cons_of_mem _ he'))

/-- `scratch_routes`: first spelling + last value per (name, kind) routes like the specification's
    "the later entry replaces the earlier" -/
theorem scratch_routes (es : List RawEntry) (fac : Bytes) (sev : Nat) (v : Bytes) :
    Spec.routes (entriesOf (scratchOf es)) fac sev v = Spec.routes (Spec.toEntries es) fac sev v := by
  obtain ⟨_, hA, hB, _⟩ := fold_char es [] (by simp [ClassNoDup])
  have hiff : Spec.routes (entriesOf (scratchOf es)) fac sev v = true ↔ Spec.routes (Spec.toEntries es) fac sev v = true := by
    unfold Spec.routes
    simp only [List.any_eq_true, Bool.and_eq_true, decide_eq_true_eq, entriesOf, Spec.toEntries, List.mem_map]
    constructor
    · rintro ⟨_, ⟨c, hc, rfl⟩, hk, hv⟩
      rcases hA c hc with ⟨e, he, hcls, hval⟩ | ⟨h0, _⟩
      · refine ⟨⟨e.key, e.values⟩, ⟨e, he, rfl⟩, ?_, ?_⟩
        · rw [keyDenotes_congr hcls.1]; exact hk
        · simp only [Child.entry] at hv; rw [hval] at hv; exact hv
      · cases h0
    · rintro ⟨_, ⟨e, he, rfl⟩, hk, hv⟩
      obtain ⟨c, hc, hcls, hval⟩ := hB e he
      refine ⟨c.entry, ⟨c, hc, rfl⟩, ?_, ?_⟩
      · simp only [Child.entry]; rw [← keyDenotes_congr hcls.1]; exact hk
      · simp only [Child.entry, hval]; exact hv
  cases h1 : Spec.routes (entriesOf (scratchOf es)) fac sev v <;>
    cases h2 : Spec.routes (Spec.toEntries es) fac sev v <;> simp_all

/-! ### a whole load, in terms of the file -/

/-- the parser hands every string entry exactly one value -/
def FileStrOK (es : List RawEntry) : Prop := ∀ e ∈ es, e.kind = .str → ∃ v, e.values = [v]

theorem effective_subset : ∀ {es : List RawEntry} {e : RawEntry}, e ∈ Spec.effective es → e ∈ es
  | [], e, h => by simp [Spec.effective] at h
  | x :: xs, e, h => by
    rw [effective_cons] at h
    split at h
    · exact List.mem_cons_of_mem _ (effective_subset h)
    · rcases List.mem_cons.mp h with rfl | h'
      · exact List.mem_cons_self ..
      · exact List.mem_cons_of_mem _ (effective_subset h')

theorem scratchOf_strOK {es : List RawEntry} (h : FileStrOK es) : ∀ s ∈ scratchOf es, StrOK s := by
  intro s hs
  obtain ⟨_, hA, _, _⟩ := fold_char es [] (by simp [ClassNoDup])
  rcases hA s hs with ⟨e, he, hcls, hval⟩ | ⟨h0, _⟩
  · intro hk
    obtain ⟨v, hv⟩ := h e (effective_subset he) (hcls.2.trans hk)
    exact ⟨v, hval.trans hv⟩
  · cases h0

theorem keyDenotes_vts (fac : Bytes) (sev : Nat) : Spec.keyDenotes bVts fac sev = false := by
  have : Spec.splitFirst 46 bVts = none := by decide
  simp [Spec.keyDenotes, this]

theorem keyDenotes_noDot {k : Bytes} (h : noDot k) (fac : Bytes) (sev : Nat) : Spec.keyDenotes k fac sev = false := by
  have : Spec.splitFirst 46 k = none := by
    rw [splitFirst_eq]; unfold noDot at h; rw [h]
  simp [Spec.keyDenotes, this]

theorem routes_false_of_reg {l : List Child} (h : ∀ t ∈ l, t.reg = true ∧ RegOK t) (fac : Bytes) (sev : Nat) (v : Bytes) :
    Spec.routes (entriesOf l) fac sev v = false := by
  unfold Spec.routes
  rw [List.any_eq_false]
  intro e he
  obtain ⟨t, ht, rfl⟩ := List.mem_map.mp he
  have := ((h t ht).2 (h t ht).1).1
  simp [Child.entry, keyDenotes_noDot this]

theorem load_alive_pre {co : Bytes → Bool} {c : ConfSt} {file : Option (List RawEntry)}
    (h : (load co c file).run.exit = none) : c.run.exit = none := by
  cases hx : c.run.exit with
  | none => rfl
  | some n =>
    have : load co c file = c := by unfold load; simp [hx]
    rw [this, hx] at h; cases h

/-- the live tree after `load … (some es)` routes like the scratch tree of `es` -/
theorem live_routes_scratch {co : Bytes → Bool} {c : ConfSt} (hg : Good c) (hr : c.run.exit = none)
    (es : List RawEntry) (hstr : FileStrOK es) (fac : Bytes) (sev : Nat) (v : Bytes) :
    Spec.routes (entriesOf (load co c (some es)).live) fac sev v =
      Spec.routes (entriesOf (scratchOf es)) fac sev v := by
  have hg' := (load_routing co hg (some es)).1
  obtain ⟨_, hB, hC⟩ := walk_live co c.run [] c.live (scratchOf es) false 0 (scratchOf_strOK hstr)
  have hlive : entriesOf (load co c (some es)).live =
      entriesOf (walk co c.run [] c.live (scratchOf es) false 0).live := by
    unfold load
    simp only [hr, Option.isSome_none, Bool.false_eq_true, if_false]
    split
    · exact entriesOf_setHook _
    · rfl
  have hreg : ∀ y ∈ (walk co c.run [] c.live (scratchOf es) false 0).live, RegOK y := by
    intro y hy
    have : ∃ y' ∈ (load co c (some es)).live, Same y y' := by
      unfold load
      simp only [hr, Option.isSome_none, Bool.false_eq_true, if_false]
      split
      · exact ⟨setHook y, List.mem_map_of_mem hy, Same.setHook y⟩
      · exact ⟨y, hy, Same.rfl' y⟩
    obtain ⟨y', hy', hs⟩ := this
    intro hry
    have := (hg'.live y' hy').reg (hs.2.2.2 ▸ hry)
    exact ⟨hs.1 ▸ this.1, hs.2.1.trans this.2⟩
  rw [hlive]
  have hiff : Spec.routes (entriesOf (walk co c.run [] c.live (scratchOf es) false 0).live) fac sev v = true ↔
      Spec.routes (entriesOf (scratchOf es)) fac sev v = true := by
    unfold Spec.routes
    simp only [List.any_eq_true, Bool.and_eq_true, decide_eq_true_eq, entriesOf, List.mem_map]
    constructor
    · rintro ⟨_, ⟨y, hy, rfl⟩, hk, hv⟩
      rcases hC y hy with ⟨x, hx, _⟩ | ⟨s, hs, hm⟩ | ⟨hry, _⟩
      · cases hx
      · refine ⟨s.entry, ⟨s, hs, rfl⟩, ?_, ?_⟩
        · simp only [Child.entry] at hk ⊢; rw [← keyDenotes_congr hm.1]; exact hk
        · simp only [Child.entry] at hv ⊢; rw [← hm.2.2]; exact hv
      · have := (hreg y hy hry).1
        simp only [Child.entry, keyDenotes_noDot this] at hk
        cases hk
    · rintro ⟨_, ⟨s, hs, rfl⟩, hk, hv⟩
      obtain ⟨y, hy, hm⟩ := hB s hs
      refine ⟨y.entry, ⟨y, hy, rfl⟩, ?_, ?_⟩
      · simp only [Child.entry] at hk ⊢; rw [keyDenotes_congr hm.1]; exact hk
      · simp only [Child.entry] at hv ⊢; rw [hm.2.2]; exact hv
  cases h1 : Spec.routes (entriesOf (walk co c.run [] c.live (scratchOf es) false 0).live) fac sev v <;>
    cases h2 : Spec.routes (entriesOf (scratchOf es)) fac sev v <;> simp_all

/-- after a load of a file without `logs` (when there was one before) only registered children remain -/
theorem live_only_reg_of_none {co : Bytes → Bool} {c : ConfSt} (_hg : Good c) (hr : c.run.exit = none)
    (hp : c.present = true) : ∀ t ∈ (load co c none).live, t.reg = true := by
  obtain ⟨_, _, hC⟩ := walk_live co c.run [] c.live [] false 0 (by simp)
  intro t ht
  have : ∃ y ∈ (walk co c.run [] c.live [] false 0).live, Same y t := by
    unfold load at ht
    simp only [hr, Option.isSome_none, Bool.false_eq_true, if_false, hp, if_true] at ht
    split at ht
    · obtain ⟨y, hy, rfl⟩ := List.mem_map.mp ht
      exact ⟨y, hy, Same.setHook y⟩
    · exact ⟨t, ht, Same.rfl' t⟩
  obtain ⟨y, hy, hs⟩ := this
  rcases hC y hy with ⟨x, hx, _⟩ | ⟨s, hs', _⟩ | ⟨hry, _⟩
  · cases hx
  · cases hs'
  · exact hs.2.2.2 ▸ hry

/-- states together with what the specification calls "the current logs section"
    (`Spec.onLoad`): `toEntries es` after a successful load of `logs { es }`, nothing after a load of
    a file without `logs`. -/
inductive ReachS (co : Bytes → Bool) : ConfSt → List Entry → Prop where
  | init : ReachS co ConfSt.init []
  | load {c : ConfSt} {cur : List Entry} (file : Option (List RawEntry))
      (hstr : ∀ es, file = some es → FileStrOK es) (halive : (load co c file).run.exit = none) :
      ReachS co c cur → ReachS co (load co c file) (match file with
        | some es => Spec.toEntries es
        | none => [])
  | msg {c : ConfSt} {cur : List Entry} (fac : Bytes) (sev : Nat) (m : Bytes) :
      ReachS co c cur → ReachS co (message c fac sev m) cur
  | verb {c : ConfSt} {cur : List Entry} (n : Int) : ReachS co c cur → ReachS co (setVerbosity c n) cur

theorem message_live (c : ConfSt) (fac : Bytes) (sev : Nat) (m : Bytes) :
    (message c fac sev m).live = c.live ∧ (message c fac sev m).present = c.present := by
  unfold message; split <;> exact ⟨rfl, rfl⟩

theorem setVerbosity_live (c : ConfSt) (n : Int) :
    (setVerbosity c n).live = c.live ∧ (setVerbosity c n).present = c.present := by
  unfold setVerbosity; split <;> exact ⟨rfl, rfl⟩

/-- `reachS_routes`: in every such state the children of `logs` route exactly like the
    specification's current section -/
theorem reachS_routes {co : Bytes → Bool} {c : ConfSt} {cur : List Entry} (h : ReachS co c cur) :
    Reach co c ∧ (c.present = false → ∀ t ∈ c.live, t.reg = true) ∧
    ∀ fac sev v, Spec.routes (entriesOf c.live) fac sev v = Spec.routes cur fac sev v := by
  induction h with
  | init =>
    refine ⟨Reach.init, ?_, ?_⟩
    · intro _ t ht
      simp only [ConfSt.init, List.mem_singleton] at ht
      rw [ht]; rfl
    · intro fac sev v
      have : Spec.routes (entriesOf ConfSt.init.live) fac sev v = false := by
        apply routes_false_of_reg
        intro t ht
        simp only [ConfSt.init, List.mem_singleton] at ht
        rw [ht]; exact ⟨rfl, fun _ => ⟨rfl, rfl⟩⟩
      rw [this]; rfl
  | @load c cur file hstr halive _ ih =>
    obtain ⟨hreach, hpres, _⟩ := ih
    have hg := (sound_of_reach hreach).good
    have hr := load_alive_pre halive
    have hg' := (load_routing co hg file).1
    refine ⟨Reach.load file hreach, ?_, ?_⟩
    · intro hp' t ht
      cases file with
      | some es =>
        have : (load co c (some es)).present = true := by
          unfold load
          simp only [hr, Option.isSome_none, Bool.false_eq_true, if_false]
          split <;> rfl
        rw [this] at hp'; cases hp'
      | none =>
        cases hcp : c.present with
        | true => exact live_only_reg_of_none hg hr hcp t ht
        | false =>
          have : (load co c none).live = c.live := by
            unfold load
            simp [hr, hcp]
          rw [this] at ht
          exact hpres hcp t ht
    · intro fac sev v
      cases file with
      | some es =>
        simp only []
        rw [live_routes_scratch hg hr es (hstr es rfl), scratch_routes]
      | none =>
        simp only []
        have hall : ∀ t ∈ (load co c none).live, t.reg = true := by
          cases hcp : c.present with
          | true => exact live_only_reg_of_none hg hr hcp
          | false =>
            have : (load co c none).live = c.live := by
              unfold load
              simp [hr, hcp]
            rw [this]; exact hpres hcp
        rw [routes_false_of_reg (fun t ht => ⟨hall t ht, (hg'.live t ht).reg⟩)]
        rfl
  | @msg c cur fac sev m _ ih =>
    obtain ⟨hreach, hpres, hroutes⟩ := ih
    have := message_live c fac sev m
    refine ⟨Reach.msg fac sev m hreach, ?_, ?_⟩
    · rw [this.1, this.2]; exact hpres
    · rw [this.1]; exact hroutes
  | @verb c cur n _ ih =>
    obtain ⟨hreach, hpres, hroutes⟩ := ih
    have := setVerbosity_live c n
    refine ⟨Reach.verb n hreach, ?_, ?_⟩
    · rw [this.1, this.2]; exact hpres
    · rw [this.1]; exact hroutes

end Iauthd.Log
