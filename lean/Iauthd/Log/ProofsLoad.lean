import Iauthd.Log.Proofs
/-
  The hook-delivery layer: conf_replace_value on the `logs` object.

  `load_routing`: whenever a (successful) conf_read changes anything under `logs` that the
  routing depends on, log_rescan_conf runs *after* the last such change, on the final tree.
  Formally: after `load`, either the tables are `rescan st0 (final tree)` for a well-formed
  `st0`, or the tables are untouched and the final tree has the same attach operations as the
  tree before.  Rescans that happen earlier in the merge (the per-child hooks fire while later
  children still hold their old values; a file-created string that the new file drops fires
  once more with its value cleared) only produce "Attaching …" chatter: the last one decides.

  Together with `C18_route` / `rescan_history_free` this is C18's "after a reload the routing
  is that of the new section only" for the model (see Iauthd/Properties/C18.lean).
-/
namespace Iauthd.Log
open Iauthd

def entriesOf (l : List Child) : List Entry := l.map Child.entry

/-- the key has no '.' (log_parse_type_sevset returns 1: the entry is skipped) -/
def noDot (k : Bytes) : Prop := (splitAtByte 46 k).2 = none

theorem entryOps_noDot {e : Entry} (h : noDot e.key) : entryOps e = [] := by
  unfold entryOps parseKeyFull
  rw [h]

theorem lower_eq_dot {c : UInt8} : Bytes.lower c = 46 ↔ c = 46 := by
  constructor
  · intro h
    unfold Bytes.lower at h
    split at h
    · rename_i hc
      have := congrArg UInt8.toNat h
      rw [UInt8.toNat_add] at this
      have e1 : (32 : UInt8).toNat = 32 := rfl
      have e2 : (46 : UInt8).toNat = 46 := rfl
      omega
    · exact h
  · rintro rfl; decide

theorem noDot_congr : ∀ {a b : Bytes}, ciEq a b = true → (noDot a ↔ noDot b)
  | [], [], _ => Iff.rfl
  | [], _ :: _, h => by simp [ciEq] at h
  | _ :: _, [], h => by simp [ciEq] at h
  | x :: xs, y :: ys, h => by
    rw [ciEq_iff] at h
    simp only [List.map_cons, List.cons.injEq] at h
    have ih := noDot_congr (a := xs) (b := ys) (ciEq_iff.mpr h.2)
    have hxy : x = 46 ↔ y = 46 := by rw [← lower_eq_dot, h.1, lower_eq_dot]
    unfold noDot at ih ⊢
    unfold splitAtByte
    by_cases hx : x = 46
    · have hy := hxy.mp hx
      simp [hx, hy]
    · have hy : ¬ y = 46 := fun e => hx (hxy.mpr e)
      simp only [hx, hy, if_false]
      exact ih

theorem childCmp_zero {a b : Child} (h1 : ¬ childCmp a b > 0) (h2 : ¬ childCmp a b < 0) : ciEq a.name b.name = true := by
  unfold childCmp at h1 h2
  cases hc : ciEq a.name b.name with
  | true => rfl
  | false =>
    simp only [hc, Bool.false_eq_true, if_false] at h1 h2
    split at h1 <;> split at h2 <;> omega


/-- plain string child: `parsed.p_string` is NULL or points at the current value -/
def CacheOK (t : Child) : Prop :=
  t.kind = .str → t.reg = false → (t.cached = none ∨ ∃ v, t.values = [v] ∧ t.cached = some v)

/-- the only registered child is the string `verbose_timestamp`, whatever letter case the last
    file used for it: a name without '.', which the rescan skips -/
def RegOK (t : Child) : Prop := t.reg = true → noDot t.name ∧ t.kind = .str

theorem noDot_bVts : noDot bVts := by unfold noDot; decide

/-- the entry takes the file's spelling: still a registered name without '.' -/
theorem RegOK.rename {t : Child} (h : RegOK t) {nm : Bytes} (hc : ciEq t.name nm = true) :
    RegOK ({ t with name := nm } : Child) := fun hr => ⟨(noDot_congr hc).mp (h hr).1, (h hr).2⟩

/-- a child of the live tree between two loads -/
structure ChildOK (t : Child) : Prop where
  hook : t.hook = true
  cache : CacheOK t
  reg : RegOK t

/-- a child already walked during the current load -/
structure PreOK (modified : Bool) (t : Child) : Prop where
  cache : CacheOK t
  reg : RegOK t
  hook : t.hook = true ∨ modified = true

/-- a child of the scratch tree -/
structure ScratchOK (s : Child) : Prop where
  cached : s.cached = none ∨ ∃ v, s.values = [v] ∧ s.cached = some v
  reg : s.reg = false

/-- the tables agree with the tree `view`: a rescan over (a tree with the same attach operations
    as) `view` was the last thing that touched them — or nothing touched them and the attach
    operations are those of the tree the load started from -/
def Synced (orig : LogSt) (origLive : List Child) (run : Run) (view : List Child) : Prop :=
  (∃ st0, WF st0 ∧ run.st = rescan st0 (entriesOf view)) ∨
  (run.st = orig ∧ sectionOps (entriesOf view) = sectionOps (entriesOf origLive))

def P (orig : LogSt) (origLive : List Child) (run : Run) (view : List Child) (modified : Bool) : Prop :=
  run.exit = none → WF run.st ∧ (modified = true ∨ Synced orig origLive run view)

/-! ### small facts -/

@[simp] theorem setHook_entry (c : Child) : (setHook c).entry = c.entry := rfl

theorem entriesOf_setHook (l : List Child) : entriesOf (l.map setHook) = entriesOf l := by
  simp [entriesOf, List.map_map, Function.comp_def]

theorem entriesOf_hookIf (f : Bool) (l : List Child) : entriesOf (hookIf f l) = entriesOf l := by
  unfold hookIf; split
  · exact entriesOf_setHook l
  · rfl

theorem entriesOf_append (a b : List Child) : entriesOf (a ++ b) = entriesOf a ++ entriesOf b := by
  simp [entriesOf]

theorem rescan_congr {st : LogSt} {s1 s2 : List Entry} (h : sectionOps s1 = sectionOps s2) :
    rescan st s1 = rescan st s2 := by
  unfold rescan; rw [h]

theorem Synced.congr {o : LogSt} {ol : List Child} {run : Run} {v1 v2 : List Child}
    (h : sectionOps (entriesOf v1) = sectionOps (entriesOf v2)) (hs : Synced o ol run v1) :
    Synced o ol run v2 := by
  rcases hs with ⟨st0, hw, he⟩ | ⟨h1, h2⟩
  · exact Or.inl ⟨st0, hw, by rw [he, rescan_congr h]⟩
  · exact Or.inr ⟨h1, by rw [← h, h2]⟩

theorem sectionOps_append (a b : List Entry) : sectionOps (a ++ b) = sectionOps a ++ sectionOps b := by
  simp [sectionOps, List.flatMap_append]

theorem sectionOps_cons (e : Entry) (b : List Entry) : sectionOps (e :: b) = entryOps e ++ sectionOps b := by
  simp [sectionOps, List.flatMap_cons]

/-- replacing one child by one with the same attach operations (and re-hooking everything) -/
theorem ops_replace (f : Bool) (pre rest : List Child) (t t' : Child) (h : entryOps t'.entry = entryOps t.entry) :
    sectionOps (entriesOf (hookIf f pre ++ hookIf f [t'] ++ hookIf f rest)) =
      sectionOps (entriesOf (pre ++ t :: rest)) := by
  simp only [entriesOf_append, entriesOf_hookIf, sectionOps_append]
  simp [entriesOf, h, sectionOps]

theorem ops_rehook (f : Bool) (pre rest : List Child) (t : Child) :
    sectionOps (entriesOf (hookIf f pre ++ hookIf f [t] ++ hookIf f rest)) =
      sectionOps (entriesOf (pre ++ t :: rest)) := ops_replace f pre rest t t rfl

theorem entryOps_vts (vals : List Bytes) : entryOps ⟨bVts, vals⟩ = [] := by
  have : parseKeyFull bVts = .noDot := by decide
  simp [entryOps, this]

theorem entryOps_reg {t : Child} (h : RegOK t) (hr : t.reg = true) (vals : List Bytes) :
    entryOps ({ t with values := vals } : Child).entry = [] ∧ entryOps t.entry = [] := by
  have := (h hr).1
  exact ⟨entryOps_noDot this, entryOps_noDot this⟩

theorem fire_of_exit {co : Bytes → Bool} {run : Run} (h : run.exit.isSome = true) (view : List Child) :
    fire co run view = run := by
  unfold fire rescanR; simp [h]

theorem fire_exit_none {co : Bytes → Bool} {run : Run} {view : List Child}
    (h : (fire co run view).exit = none) : run.exit = none := by
  cases hr : run.exit with
  | none => rfl
  | some n => rw [fire_of_exit (by simp [hr])] at h; rw [hr] at h; exact absurd h (by simp)

/-- a hook that ran leaves the tables rescanned over the tree as it was at that moment -/
theorem fire_P {co : Bytes → Bool} {o : LogSt} {ol : List Child} {run : Run} {view : List Child}
    (hw : run.exit = none → WF run.st) (m : Bool) : P o ol (fire co run view) view m := by
  intro h
  have hr := fire_exit_none h
  have hs : (fire co run view).st = rescan run.st (entriesOf view) := rescanR_state h
  exact ⟨by rw [hs]; exact wf_rescan (hw hr) _, Or.inr (Or.inl ⟨run.st, hw hr, hs⟩)⟩

theorem P.wf {o : LogSt} {ol : List Child} {run : Run} {view : List Child} {m : Bool}
    (h : P o ol run view m) : run.exit = none → WF run.st := fun hr => (h hr).1

theorem P.of_modified {o : LogSt} {ol : List Child} {run : Run} (view : List Child)
    (hw : run.exit = none → WF run.st) : P o ol run view true :=
  fun hr => ⟨hw hr, Or.inl rfl⟩

theorem P.congr {o : LogSt} {ol : List Child} {run : Run} {v1 v2 : List Child} {m : Bool}
    (h : sectionOps (entriesOf v1) = sectionOps (entriesOf v2)) (hp : P o ol run v1 m) : P o ol run v2 m := by
  intro hr
  obtain ⟨hw, hs⟩ := hp hr
  exact ⟨hw, hs.imp id (Synced.congr h)⟩

theorem Run.log_P {o : LogSt} {ol : List Child} {run : Run} {view : List Child} {m : Bool}
    (hp : P o ol run view m) (fac : Bytes) (sev : Nat) (msg : Bytes) : P o ol (run.log fac sev msg) view m := by
  intro hr
  have hr0 : run.exit = none := by
    cases h : run.exit with
    | none => rfl
    | some n => rw [Run.log_exit_of_some (by simp [h])] at hr; rw [h] at hr; exact absurd hr (by simp)
  obtain ⟨hw, hs⟩ := hp hr0
  rw [Run.log_st]
  refine ⟨hw, hs.imp id ?_⟩
  rintro (⟨st0, h0, he⟩ | ⟨h1, h2⟩)
  · exact Or.inl ⟨st0, h0, by rw [Run.log_st]; exact he⟩
  · exact Or.inr ⟨by rw [Run.log_st]; exact h1, h2⟩

theorem CacheOK_setHook {t : Child} (h : CacheOK t) : CacheOK (setHook t) := h
theorem RegOK_setHook {t : Child} (h : RegOK t) : RegOK (setHook t) := h

theorem mem_hookIf {f : Bool} {l : List Child} {x : Child} (h : x ∈ hookIf f l) :
    ∃ y ∈ l, (x = y ∨ x = setHook y) ∧ (f = true → x.hook = true) := by
  unfold hookIf at h
  split at h
  · rename_i hf
    obtain ⟨y, hy, rfl⟩ := List.mem_map.mp h
    exact ⟨y, hy, Or.inr rfl, fun _ => rfl⟩
  · rename_i hf
    exact ⟨x, h, Or.inl rfl, fun e => absurd e hf⟩

theorem ChildOK_hookIf {f : Bool} {l : List Child} (h : ∀ t ∈ l, ChildOK t) : ∀ t ∈ hookIf f l, ChildOK t := by
  intro t ht
  obtain ⟨y, hy, (rfl | rfl), _⟩ := mem_hookIf ht
  · exact h _ hy
  · exact ⟨rfl, (h y hy).cache, (h y hy).reg⟩

theorem PreOK_hookIf {f m m' : Bool} {l : List Child} (h : ∀ t ∈ l, PreOK m t) (hm : m = true → m' = true) :
    ∀ t ∈ hookIf f l, PreOK m' t := by
  intro t ht
  obtain ⟨y, hy, (rfl | rfl), _⟩ := mem_hookIf ht
  · exact ⟨(h _ hy).cache, (h _ hy).reg, (h _ hy).hook.imp id hm⟩
  · exact ⟨(h y hy).cache, (h y hy).reg, Or.inl rfl⟩

theorem hookIf_nil (f : Bool) : hookIf f ([] : List Child) = [] := by unfold hookIf; split <;> rfl

theorem entryOps_of_name {c : Child} (h : noDot c.name) : entryOps c.entry = [] := entryOps_noDot h

/-! ### one child reverted / updated -/

theorem revert_spec {co : Bytes → Bool} {o : LogSt} {ol : List Child} {run : Run} {pre rest : List Child}
    {t : Child} {m : Bool} (hp : P o ol run (pre ++ t :: rest) m) (ht : ChildOK t)
    {run1 : Run} {keep : Option Child} {md f : Bool}
    (h : revertChild co run pre t rest = (run1, keep, md, f)) :
    P o ol run1 (hookIf f pre ++ hookIf f keep.toList ++ hookIf f rest) (m || md) ∧
    (∀ k ∈ keep.toList, CacheOK k ∧ RegOK k ∧ k.hook = true) := by
  unfold revertChild at h
  cases hk : t.kind with
  | str =>
    simp only [hk] at h
    cases hreg : t.reg with
    | true =>
      simp only [hreg, if_true] at h
      have hname : noDot t.name := (ht.reg hreg).1
      by_cases hv : run.st.vts = true
      · simp only [hv, if_true, Prod.mk.injEq] at h
        obtain ⟨rfl, rfl, rfl, rfl⟩ := h
        simp only [Bool.or_false, Option.toList_some, List.mem_singleton, forall_eq]
        refine ⟨?_, (fun _ hr => by cases hr), (fun _ => ⟨hname, rfl⟩), ht.hook⟩
        refine P.congr ?_ hp
        rw [ops_replace]
        rw [entryOps_of_name (c := t) hname]
        exact entryOps_of_name hname
      · simp only [hv, ht.hook, if_true] at h
        obtain ⟨rfl, rfl, rfl, rfl⟩ := h
        simp only [Bool.or_false, Option.toList_some, List.mem_singleton, forall_eq]
        refine ⟨?_, (fun _ hr => by cases hr), (fun _ => ⟨hname, rfl⟩), trivial⟩
        have hw : ({ run with st := { run.st with vts := true } } : Run).exit = none →
            WF ({ run with st := { run.st with vts := true } } : Run).st := by
          intro hr
          have := hp.wf hr
          exact ⟨this.types, this.dests⟩
        exact P.congr (by rw [ops_rehook]) (fire_P hw m)
    | false =>
      simp only [hreg, Bool.false_eq_true, if_false] at h
      by_cases hc : (t.cached.isSome && t.hook) = true
      · simp only [hc, if_true, Prod.mk.injEq] at h
        obtain ⟨rfl, rfl, rfl, rfl⟩ := h
        refine ⟨?_, by simp⟩
        simp only [Bool.or_true]
        exact P.of_modified _ (fire_P (o := o) (ol := ol) hp.wf m).wf
      · simp only [hc] at h
        obtain ⟨rfl, rfl, rfl, rfl⟩ := h
        refine ⟨?_, by simp⟩
        simp only [Bool.or_true]
        exact P.of_modified _ hp.wf
  | list =>
    simp only [hk] at h
    have hreg : t.reg = false := by
      cases hr : t.reg with
      | false => rfl
      | true => have := (ht.reg hr).2; rw [hk] at this; cases this
    by_cases hv : t.values = []
    · simp only [hv, if_true, hreg, Bool.false_eq_true, if_false, Bool.not_false, Prod.mk.injEq] at h
      obtain ⟨rfl, rfl, rfl, rfl⟩ := h
      refine ⟨?_, by simp⟩
      simp only [Bool.or_true]
      exact P.of_modified _ hp.wf
    · simp only [hv, if_false, hreg, Bool.false_eq_true, Bool.not_false, ht.hook, if_true, Prod.mk.injEq] at h
      obtain ⟨rfl, rfl, rfl, rfl⟩ := h
      refine ⟨?_, by simp⟩
      simp only [Bool.or_true]
      exact P.of_modified _ (fire_P (o := o) (ol := ol) hp.wf m).wf

theorem wf_set_vts {st : LogSt} (h : WF st) (b : Bool) : WF { st with vts := b } := ⟨h.types, h.dests⟩

theorem update_spec {co : Bytes → Bool} {o : LogSt} {ol : List Child} {run : Run} {pre rest : List Child}
    {t s : Child} {m : Bool} (hp : P o ol run (pre ++ t :: rest) m) (ht : ChildOK t)
    {run1 : Run} {t' : Child} {f : Bool}
    (h : updateChild co run pre t s rest = (run1, t', f)) :
    P o ol run1 (hookIf f pre ++ hookIf f [t'] ++ hookIf f rest) m ∧
    CacheOK t' ∧ RegOK t' ∧ t'.hook = true := by
  unfold updateChild at h
  cases hk : t.kind with
  | str =>
    simp only [hk] at h
    cases hsv : s.values with
    | nil =>
      simp only [hsv, Prod.mk.injEq] at h
      obtain ⟨rfl, rfl, rfl⟩ := h
      exact ⟨P.congr (by rw [ops_rehook]) hp, ht.cache, ht.reg, ht.hook⟩
    | cons v vs =>
      simp only [hsv] at h
      cases hreg : t.reg with
      | true =>
        simp only [hreg, if_true] at h
        have hname : noDot t.name := (ht.reg hreg).1
        have hops : ∀ c : Child, c.name = t.name → entryOps c.entry = entryOps t.entry := by
          intro c hc
          rw [entryOps_of_name (c := t) hname, entryOps_of_name (c := c) (by rw [hc]; exact hname)]
        cases hb : parseBool v with
        | none =>
          simp only [hb, Prod.mk.injEq] at h
          obtain ⟨rfl, rfl, rfl⟩ := h
          refine ⟨?_, (fun _ hr => by cases hr), (fun _ => ⟨hname, rfl⟩), ht.hook⟩
          refine P.congr ?_ (Run.log_P hp _ _ _)
          rw [ops_replace]; exact hops _ rfl
        | some b =>
          simp only [hb] at h
          by_cases hbv : b = run.st.vts
          · simp only [hbv, if_true, Prod.mk.injEq] at h
            obtain ⟨rfl, rfl, rfl⟩ := h
            refine ⟨?_, (fun _ hr => by cases hr), (fun _ => ⟨hname, rfl⟩), ht.hook⟩
            refine P.congr ?_ hp
            rw [ops_replace]; exact hops _ rfl
          · simp only [hbv, if_false, ht.hook, if_true, Prod.mk.injEq] at h
            obtain ⟨rfl, rfl, rfl⟩ := h
            refine ⟨?_, (fun _ hr => by cases hr), (fun _ => ⟨hname, rfl⟩), rfl⟩
            have hw : ({ run with st := { run.st with vts := b } } : Run).exit = none →
                WF ({ run with st := { run.st with vts := b } } : Run).st :=
              fun hr => wf_set_vts (hp.wf hr) b
            exact P.congr (by rw [ops_rehook]) (fire_P hw m)
      | false =>
        simp only [hreg, Bool.false_eq_true, if_false] at h
        by_cases hcv : t.cached = some v
        · simp only [hcv, if_true, Prod.mk.injEq] at h
          obtain ⟨rfl, rfl, rfl⟩ := h
          refine ⟨?_, (fun _ _ => Or.inr ⟨v, rfl, rfl⟩), (fun hr => by cases hr), ht.hook⟩
          refine P.congr ?_ hp
          rw [ops_replace]
          have hval : t.values = [v] := by
            rcases ht.cache hk hreg with hnone | ⟨w, hw1, hw2⟩
            · rw [hnone] at hcv; cases hcv
            · rw [hw2] at hcv; cases hcv; exact hw1
          simp only [Child.entry, hval]
        · simp only [hcv, if_false, ht.hook, if_true, Prod.mk.injEq] at h
          obtain ⟨rfl, rfl, rfl⟩ := h
          refine ⟨?_, (fun _ _ => Or.inr ⟨v, rfl, rfl⟩), (fun hr => by cases hr), rfl⟩
          exact P.congr (by rw [ops_rehook]) (fire_P hp.wf m)
  | list =>
    simp only [hk] at h
    by_cases hv : t.values = s.values
    · simp only [hv, if_true, Prod.mk.injEq] at h
      obtain ⟨rfl, rfl, rfl⟩ := h
      exact ⟨P.congr (by rw [ops_rehook]) hp, ht.cache, ht.reg, ht.hook⟩
    · simp only [hv, if_false, ht.hook, if_true, Prod.mk.injEq] at h
      obtain ⟨rfl, rfl, rfl⟩ := h
      refine ⟨P.congr (by rw [ops_rehook]) (fire_P hp.wf m), (fun hks => by cases hks), ?_, rfl⟩
      intro hr
      have h2 := (ht.reg hr).2
      rw [hk] at h2; cases h2

/-! ### the merge loop -/

theorem PreOK_of_scratch {s : Child} (hs : ScratchOK s) : PreOK true s :=
  ⟨fun _ _ => hs.cached, (fun hr => by rw [hs.reg] at hr; cases hr), Or.inr rfl⟩

theorem PreOK_append_scratch {m : Bool} {pre : List Child} {s : Child}
    (hpre : ∀ t ∈ pre, PreOK m t) (hs : ScratchOK s) : ∀ t ∈ pre ++ [s], PreOK true t := by
  intro t ht
  rcases List.mem_append.mp ht with h | h
  · exact ⟨(hpre t h).cache, (hpre t h).reg, Or.inr rfl⟩
  · rw [List.mem_singleton.mp h]; exact PreOK_of_scratch hs

theorem PreOK_step {f m m' : Bool} {pre keep : List Child}
    (hpre : ∀ t ∈ pre, PreOK m t) (hm : m = true → m' = true)
    (hkeep : ∀ k ∈ keep, CacheOK k ∧ RegOK k ∧ k.hook = true) :
    ∀ t ∈ hookIf f pre ++ hookIf f keep, PreOK m' t := by
  intro t ht
  rcases List.mem_append.mp ht with h | h
  · exact PreOK_hookIf hpre hm t h
  · obtain ⟨y, hy, (rfl | rfl), _⟩ := mem_hookIf h
    · exact ⟨(hkeep _ hy).1, (hkeep _ hy).2.1, Or.inl (hkeep _ hy).2.2⟩
    · exact ⟨(hkeep y hy).1, (hkeep y hy).2.1, Or.inl rfl⟩

theorem walk_spec (co : Bytes → Bool) (o : LogSt) (ol : List Child)
    (run : Run) (pre ts ss : List Child) (modified : Bool) (fired : Nat) :
    P o ol run (pre ++ ts) modified →
    (∀ t ∈ ts, ChildOK t) → (∀ t ∈ pre, PreOK modified t) → (∀ s ∈ ss, ScratchOK s) →
    P o ol (walk co run pre ts ss modified fired).run (walk co run pre ts ss modified fired).live
        (walk co run pre ts ss modified fired).modified ∧
    (∀ t ∈ (walk co run pre ts ss modified fired).live,
        PreOK (walk co run pre ts ss modified fired).modified t) := by
  fun_induction walk co run pre ts ss modified fired with
  | case1 run pre modified fired =>
    intro hp _ hpre _
    simp only [List.append_nil] at hp
    exact ⟨hp, hpre⟩
  | case2 run pre modified fired s ss' ih =>
    intro hp _ hpre hss
    apply ih
    · exact P.of_modified _ hp.wf
    · intro t ht; cases ht
    · exact PreOK_append_scratch hpre (hss s (List.mem_cons_self ..))
    · intro x hx; exact hss x (List.mem_cons_of_mem _ hx)
  | case3 run pre modified fired t ts' run1 keep m f h ih =>
    intro hp hts hpre hss
    obtain ⟨hp1, hkeep⟩ := revert_spec hp (hts t (List.mem_cons_self ..)) h
    apply ih
    · rw [List.append_assoc] at hp1 ⊢; exact hp1
    · exact ChildOK_hookIf (fun x hx => hts x (List.mem_cons_of_mem _ hx))
    · exact PreOK_step hpre (by intro e; simp [e]) hkeep
    · exact hss
  | case4 run pre modified fired t ts' s ss' hc ih =>
    intro hp hts hpre hss
    apply ih
    · exact P.of_modified _ hp.wf
    · exact hts
    · exact PreOK_append_scratch hpre (hss s (List.mem_cons_self ..))
    · intro x hx; exact hss x (List.mem_cons_of_mem _ hx)
  | case5 run pre modified fired t ts' s ss' hc1 hc2 run1 keep m f h ih =>
    intro hp hts hpre hss
    obtain ⟨hp1, hkeep⟩ := revert_spec hp (hts t (List.mem_cons_self ..)) h
    apply ih
    · rw [List.append_assoc] at hp1 ⊢; exact hp1
    · exact ChildOK_hookIf (fun x hx => hts x (List.mem_cons_of_mem _ hx))
    · exact PreOK_step hpre (by intro e; simp [e]) hkeep
    · exact hss
  | case6 run pre modified fired t ts' s ss' hc1 hc2 run1 t' f h ih =>
    intro hp hts hpre hss
    have hci := childCmp_zero hc1 hc2
    have htk := hts t (List.mem_cons_self ..)
    have htr : ChildOK ({ t with name := s.name } : Child) := ⟨htk.hook, htk.cache, htk.reg.rename hci⟩
    -- the entry respelled: either nothing changed, or the membership counts as changed
    have hp' : P o ol run (pre ++ ({ t with name := s.name } : Child) :: ts') (modified || t.name != s.name) := by
      by_cases hren : t.name = s.name
      · have e : ({ t with name := s.name } : Child) = t := by cases t; simp_all
        rw [e]; simpa [hren] using hp
      · have : (modified || t.name != s.name) = true := by simp [hren]
        rw [this]; exact P.of_modified _ hp.wf
    obtain ⟨hp1, hc, hr, hh⟩ := update_spec hp' htr h
    apply ih
    · rw [List.append_assoc] at hp1 ⊢; exact hp1
    · exact ChildOK_hookIf (fun x hx => hts x (List.mem_cons_of_mem _ hx))
    · exact PreOK_step hpre (by intro e; simp [e]) (by intro k hk; rw [List.mem_singleton.mp hk]; exact ⟨hc, hr, hh⟩)
    · intro x hx; exact hss x (List.mem_cons_of_mem _ hx)

/-! ### a whole load -/

theorem scratchCache_ok (k : Kind) (vs : List Bytes) :
    scratchCache k vs = none ∨ ∃ v, vs = [v] ∧ scratchCache k vs = some v := by
  unfold scratchCache
  split
  · exact Or.inr ⟨_, rfl, rfl⟩
  · exact Or.inl rfl

theorem setValues_ok (n : Child) (hn : n.cached = none ∨ ∃ v, n.values = [v] ∧ n.cached = some v) :
    ∀ cs : List Child, (∀ s ∈ cs, ScratchOK s) → ∀ s ∈ setValues n cs, ScratchOK s
  | [], _, s, hs => by simp [setValues] at hs
  | c :: rest, h, s, hs => by
    unfold setValues at hs
    split at hs
    · rcases List.mem_cons.mp hs with rfl | h'
      · exact ⟨hn, (h c (List.mem_cons_self ..)).reg⟩
      · exact h s (List.mem_cons_of_mem _ h')
    · rcases List.mem_cons.mp hs with rfl | h'
      · exact h _ (List.mem_cons_self ..)
      · exact setValues_ok n hn rest (fun x hx => h x (List.mem_cons_of_mem _ hx)) s h'

theorem mem_insertChild {n x : Child} : ∀ {cs : List Child}, x ∈ insertChild n cs ↔ x = n ∨ x ∈ cs
  | [] => by simp [insertChild]
  | c :: rest => by
    unfold insertChild
    split
    · simp
    · simp only [List.mem_cons, mem_insertChild (cs := rest)]
      constructor
      · rintro (h | h | h) <;> simp [h]
      · rintro (h | h | h) <;> simp [h]

theorem scratchInsert_ok (cs : List Child) (e : RawEntry) (h : ∀ s ∈ cs, ScratchOK s) :
    ∀ s ∈ scratchInsert cs e, ScratchOK s := by
  unfold scratchInsert
  simp only []
  split
  · exact setValues_ok _ (scratchCache_ok _ _) cs h
  · intro s hs
    rcases mem_insertChild.mp hs with rfl | h'
    · exact ⟨scratchCache_ok _ _, rfl⟩
    · exact h s h'

theorem scratchOf_ok (es : List RawEntry) : ∀ s ∈ scratchOf es, ScratchOK s := by
  unfold scratchOf
  suffices h : ∀ (cs : List Child), (∀ s ∈ cs, ScratchOK s) → ∀ s ∈ es.foldl scratchInsert cs, ScratchOK s from
    h [] (by simp)
  induction es with
  | nil => intro cs h; exact h
  | cons e es ih =>
    intro cs h
    rw [List.foldl_cons]
    exact ih _ (scratchInsert_ok cs e h)

/-- between two loads: the tables are well-formed and every child of `logs` carries the rescan
    hook (installed by the rescan that followed its arrival) -/
structure Good (c : ConfSt) : Prop where
  wf : c.run.exit = none → WF c.run.st
  live : ∀ t ∈ c.live, ChildOK t

theorem good_init : Good ConfSt.init := by
  refine ⟨fun _ => wf_init, ?_⟩
  intro t ht
  simp only [ConfSt.init, List.mem_singleton] at ht
  subst ht
  exact ⟨rfl, (fun _ hr => by cases hr), (fun _ => ⟨rfl, rfl⟩)⟩

theorem childOK_of_preOK_setHook {m : Bool} {t : Child} (h : PreOK m t) : ChildOK (setHook t) :=
  ⟨rfl, h.cache, h.reg⟩

/-- the part of `load` after the merge loop -/
theorem finish_spec {co : Bytes → Bool} {o : LogSt} {ol : List Child} (w : WalkRes)
    (hp : P o ol w.run w.live w.modified) (hl : ∀ t ∈ w.live, PreOK w.modified t) :
    let run' := if w.modified then fire co w.run w.live else w.run
    let live' := if w.modified then w.live.map setHook else w.live
    (run'.exit = none → WF run'.st ∧ Synced o ol run' live') ∧ (∀ t ∈ live', ChildOK t) := by
  cases hm : w.modified with
  | true =>
    simp only [if_true]
    constructor
    · intro hr
      have := fire_P (co := co) (o := o) (ol := ol) (view := w.live) hp.wf false hr
      refine ⟨this.1, ?_⟩
      rcases this.2 with h | h
      · cases h
      · exact Synced.congr (by rw [entriesOf_setHook]) h
    · intro t ht
      obtain ⟨y, hy, rfl⟩ := List.mem_map.mp ht
      exact childOK_of_preOK_setHook (hl y hy)
  | false =>
    simp only [Bool.false_eq_true, if_false]
    constructor
    · intro hr
      obtain ⟨hw, hs⟩ := hp hr
      rw [hm] at hs
      rcases hs with h | h
      · cases h
      · exact ⟨hw, h⟩
    · intro t ht
      have := hl t ht
      rw [hm] at this
      rcases this.hook with h | h
      · exact ⟨h, this.cache, this.reg⟩
      · cases h

/-- `load_routing`.  After a successful conf_read, as far as the `logs` object goes: every child
    again carries the hook, and if the process is alive either the tables are exactly
    `rescan st0 (children after the merge)` for a well-formed `st0` (a rescan ran after the
    last routing-relevant change) or nothing was touched and the children have the same
    attach operations as before. -/
theorem load_routing (co : Bytes → Bool) {c : ConfSt} (hg : Good c) (file : Option (List RawEntry)) :
    Good (load co c file) ∧
    ((load co c file).run.exit = none →
      Synced c.run.st c.live (load co c file).run (load co c file).live) := by
  unfold load
  cases hex : c.run.exit with
  | some n =>
    simp only [hex, Option.isSome_some, if_true]
    exact ⟨hg, fun h => by cases h⟩
  | none =>
    simp only [Option.isSome_none, Bool.false_eq_true, if_false]
    have hp0 : P c.run.st c.live c.run ([] ++ c.live) false :=
      fun hr => ⟨hg.wf hr, Or.inr (Or.inr ⟨rfl, rfl⟩)⟩
    cases file with
    | some es =>
      simp only []
      obtain ⟨hp, hl⟩ := walk_spec co c.run.st c.live c.run [] c.live (scratchOf es) false 0 hp0 hg.live
        (by simp) (scratchOf_ok es)
      have hf := finish_spec (co := co) _ hp hl
      cases hm : (walk co c.run [] c.live (scratchOf es) false 0).modified with
      | true =>
        simp only [hm, if_true] at hf ⊢
        exact ⟨⟨fun hr => (hf.1 hr).1, hf.2⟩, fun hr => (hf.1 hr).2⟩
      | false =>
        simp only [hm, Bool.false_eq_true, if_false] at hf ⊢
        exact ⟨⟨fun hr => (hf.1 hr).1, hf.2⟩, fun hr => (hf.1 hr).2⟩
    | none =>
      simp only []
      cases hpres : c.present with
      | false =>
        simp only [Bool.false_eq_true, if_false]
        exact ⟨⟨hg.wf, hg.live⟩, fun _ => Or.inr ⟨rfl, rfl⟩⟩
      | true =>
        simp only [if_true]
        obtain ⟨hp, hl⟩ := walk_spec co c.run.st c.live c.run [] c.live [] false 0 hp0 hg.live
          (by simp) (by simp)
        have hf := finish_spec (co := co) _ hp hl
        cases hm : (walk co c.run [] c.live [] false 0).modified with
        | true =>
          simp only [hm, if_true] at hf ⊢
          exact ⟨⟨fun hr => (hf.1 hr).1, hf.2⟩, fun hr => (hf.1 hr).2⟩
        | false =>
          simp only [hm, Bool.false_eq_true, if_false] at hf ⊢
          exact ⟨⟨fun hr => (hf.1 hr).1, hf.2⟩, fun hr => (hf.1 hr).2⟩

theorem good_message {c : ConfSt} (hg : Good c) (fac : Bytes) (sev : Nat) (m : Bytes) :
    Good (message c fac sev m) := by
  unfold message
  split
  · exact hg
  · rename_i hex
    have hex' : c.run.exit = none := by
      cases h : c.run.exit with
      | none => rfl
      | some n => simp [h] at hex
    refine ⟨fun _ => ?_, hg.live⟩
    rw [Run.log_st]
    exact wf_registerType (hg.wf hex') fac

/-! ### every reachable state routes as its current tree says -/

/-- the routing table of `st` is the one the attach operations `ops` describe -/
def RoutesOps (st : LogSt) (ops : List Op) : Prop :=
  ∀ fac sev d, d ∈ dests st fac sev ↔
    ∃ f, Op.att f sev d ∈ ops ∧ (ciEq f fac = true ∨ f = bStar)

theorem routesOps_rescan {st : LogSt} (h : WF st) (sec : List Entry) :
    RoutesOps (rescan st sec) (sectionOps sec) := by
  intro fac sev d
  rw [C18_route h]
  constructor
  · rintro ⟨e, he, f, S, hk, hf, hs, hv⟩
    exact ⟨f, mem_sectionOps_att.mpr ⟨e, he, S, hk, hs, hv⟩, hf⟩
  · rintro ⟨f, hm, hf⟩
    obtain ⟨e, he, S, hk, hs, hv⟩ := mem_sectionOps_att.mp hm
    exact ⟨e, he, f, S, hk, hf, hs, hv⟩

theorem vec_eq_nil_of_not_type {st : LogSt} (hinv : Inv st) {g : Bytes} (hg : g ∉ st.types) (sev : Nat) :
    vec st g sev = [] := by
  cases hv : vec st g sev with
  | nil => rfl
  | cons d ds =>
    have : d ∈ vec st g sev := by rw [hv]; exact List.mem_cons_self ..
    obtain ⟨a, ha, h1, _, _⟩ := mem_vec.mp this
    exact absurd (h1 ▸ (hinv.own a ha).1) hg

theorem vec_registerType (st : LogSt) (f ty : Bytes) (sev : Nat) : vec (registerType st f) ty sev = vec st ty sev := by
  simp [vec]

/-- registering a type does not change where anything is routed -/
theorem dests_registerType {st : LogSt} (hinv : Inv st) (f fac : Bytes) (sev : Nat) :
    dests (registerType st f) fac sev = dests st fac sev := by
  have key : ∀ g, vec (registerType st f) (canonT (registerType st f).types g) sev = vec st (canonT st.types g) sev := by
    intro g
    rw [vec_registerType]
    unfold registerType
    split
    · rfl
    · rename_i hnf
      simp only []
      by_cases hex : ∃ n ∈ st.types, ciEq n g = true
      · have : canonT (st.types ++ [f]) g = canonT st.types g := by
          unfold canonT
          rw [List.find?_append]
          obtain ⟨n, hn, hc⟩ := hex
          cases hf : st.types.find? (fun n => ciEq n g) with
          | some x => simp
          | none =>
            have := List.find?_eq_none.mp hf n hn
            simp [hc] at this
        rw [this]
      · have hnone : ∀ n ∈ st.types, ciEq n g = false := by
          intro n hn
          cases hc : ciEq n g with
          | false => rfl
          | true => exact absurd ⟨n, hn, hc⟩ hex
        have hg : g ∉ st.types := fun hm => by have := hnone g hm; rw [ciEq_refl] at this; cases this
        have hf : f ∉ st.types := fun hm => hnf (List.any_eq_true.mpr ⟨f, hm, ciEq_refl f⟩)
        rw [canonT_not_mem hnone, vec_eq_nil_of_not_type hinv hg]
        have : canonT (st.types ++ [f]) g = f ∨ canonT (st.types ++ [f]) g = g := by
          unfold canonT
          rw [List.find?_append]
          have : st.types.find? (fun n => ciEq n g) = none := List.find?_eq_none.mpr (by simpa using hnone)
          rw [this]
          simp only [Option.none_or, List.find?_cons, List.find?_nil]
          cases ciEq f g <;> simp
        rcases this with e | e <;> rw [e]
        · exact vec_eq_nil_of_not_type hinv hf sev
        · exact vec_eq_nil_of_not_type hinv hg sev
  unfold dests
  rw [key fac, key bStar]

theorem routesOps_registerType {st : LogSt} (hinv : Inv st) {ops : List Op} (h : RoutesOps st ops) (f : Bytes) :
    RoutesOps (registerType st f) ops := by
  intro fac sev d
  rw [dests_registerType hinv]
  exact h fac sev d

/-- the states the daemon can be in: start, then any sequence of (successful) config loads,
    messages of any facility and severity, verbosity changes -/
inductive Reach (co : Bytes → Bool) : ConfSt → Prop where
  | init : Reach co ConfSt.init
  | load {c : ConfSt} (file : Option (List RawEntry)) : Reach co c → Reach co (load co c file)
  | msg {c : ConfSt} (fac : Bytes) (sev : Nat) (m : Bytes) : Reach co c → Reach co (message c fac sev m)
  | verb {c : ConfSt} (n : Int) : Reach co c → Reach co (setVerbosity c n)

structure Sound (c : ConfSt) : Prop where
  good : Good c
  routes : c.run.exit = none → Inv c.run.st ∧ RoutesOps c.run.st (sectionOps (entriesOf c.live))

theorem sound_of_reach {co : Bytes → Bool} {c : ConfSt} (h : Reach co c) : Sound c := by
  induction h with
  | init =>
    refine ⟨good_init, fun _ => ⟨⟨wf_init, by simp [ConfSt.init, init], by simp [ConfSt.init, init]⟩, ?_⟩⟩
    intro fac sev d
    have e1 : sectionOps (entriesOf ConfSt.init.live) = [] := by
      simp only [ConfSt.init, entriesOf, List.map_cons, List.map_nil, sectionOps, List.flatMap_cons,
        List.flatMap_nil, List.append_nil]
      exact entryOps_of_name (c := vtsChild) rfl
    rw [e1]
    simp [ConfSt.init, init, dests, vec]
  | @load c file _ ih =>
    obtain ⟨hg', hs⟩ := load_routing co ih.good file
    refine ⟨hg', fun hr => ?_⟩
    rcases hs hr with ⟨st0, hw, he⟩ | ⟨he, hops⟩
    · rw [he]; exact ⟨inv_rescan hw _, routesOps_rescan hw _⟩
    · have hr0 : c.run.exit = none := by
        cases hx : c.run.exit with
        | none => rfl
        | some n =>
          have : load co c file = c := by unfold load; simp [hx]
          rw [this, hx] at hr; cases hr
      obtain ⟨hi, hro⟩ := ih.routes hr0
      rw [he, hops]; exact ⟨hi, hro⟩
  | @msg c fac sev m _ ih =>
    refine ⟨good_message ih.good fac sev m, fun hr => ?_⟩
    unfold message at hr ⊢
    cases hx : c.run.exit with
    | some n => simp [hx] at hr
    | none =>
      simp only [hx, Option.isSome_none, Bool.false_eq_true, if_false, Run.log_st]
      obtain ⟨hi, hro⟩ := ih.routes hx
      exact ⟨by have := inv_stepOp hi (.reg fac); rwa [stepOp_reg] at this, routesOps_registerType hi hro fac⟩
  | @verb c n _ ih =>
    unfold setVerbosity
    cases hx : c.run.exit with
    | some k => simpa [hx] using ih
    | none =>
      simp only [Option.isSome_none, Bool.false_eq_true, if_false]
      obtain ⟨hi, hro⟩ := ih.routes hx
      refine ⟨⟨fun _ => ⟨hi.wf.types, hi.wf.dests⟩, ih.good.live⟩, fun _ => ⟨⟨⟨hi.wf.types, hi.wf.dests⟩, hi.rc, hi.own⟩, ?_⟩⟩
      intro fac sev d
      exact hro fac sev d

/-! ### F25 at the level of loads: when no reload can end in LOG_FATAL -/

theorem att_mem_entryOps {e : Entry} {f v : Bytes} {s : Nat} (h : Op.att f s v ∈ entryOps e) : v ∈ e.values := by
  have : Op.att f s v ∈ sectionOps [e] := by simpa [sectionOps] using h
  obtain ⟨e', he', _, _, _, hv⟩ := mem_sectionOps_att.mp this
  rw [List.mem_singleton.mp he'] at hv; exact hv

/-- a child whose presence in the tree cannot make a rescan fail -/
def ValOK (co : Bytes → Bool) (t : Child) : Prop :=
  t.reg = true ∨ noDot t.name ∨ ∀ v ∈ t.values, Openable co v

theorem rescanR_alive_of_ops {co : Bytes → Bool} {r : Run} (hr : r.exit = none) {sec : List Entry}
    (h : ∀ f s v, Op.att f s v ∈ sectionOps sec → Openable co v) : (rescanR co r sec).exit = none := by
  unfold rescanR
  simp only [hr, Option.isSome_none, Bool.false_eq_true, if_false]
  rw [closeR_exit]
  exact foldR_alive _ rfl h

theorem fire_alive {co : Bytes → Bool} {run : Run} (hr : run.exit = none) {view : List Child}
    (hv : ∀ t ∈ view, ValOK co t ∧ RegOK t) : (fire co run view).exit = none := by
  apply rescanR_alive_of_ops hr
  intro f s v hm
  unfold sectionOps at hm
  obtain ⟨e, he, hop⟩ := List.mem_flatMap.mp hm
  obtain ⟨t, ht, rfl⟩ := List.mem_map.mp he
  rcases (hv t ht).1 with hreg | hnd | hval
  · rw [entryOps_of_name ((hv t ht).2 hreg).1] at hop; cases hop
  · rw [entryOps_noDot (e := t.entry) hnd] at hop; cases hop
  · exact hval v (att_mem_entryOps hop)

theorem VR_hookIf {co : Bytes → Bool} {f : Bool} {l : List Child} (h : ∀ t ∈ l, ValOK co t ∧ RegOK t) :
    ∀ t ∈ hookIf f l, ValOK co t ∧ RegOK t := by
  intro t ht
  obtain ⟨y, hy, (rfl | rfl), _⟩ := mem_hookIf ht
  · exact h _ hy
  · exact h y hy

theorem revert_alive {co : Bytes → Bool} {run : Run} {pre rest : List Child} {t : Child}
    (hr : run.exit = none) (hv : ∀ x ∈ pre ++ t :: rest, ValOK co x ∧ RegOK x)
    {run1 : Run} {keep : Option Child} {md f : Bool}
    (h : revertChild co run pre t rest = (run1, keep, md, f)) :
    run1.exit = none ∧ ∀ k ∈ keep.toList, ValOK co k ∧ RegOK k := by
  have ht := hv t (by simp)
  have hview : ∀ t' : Child, (ValOK co t' ∧ RegOK t') → ∀ x ∈ pre ++ t' :: rest, ValOK co x ∧ RegOK x := by
    intro t' ht' x hx
    rcases List.mem_append.mp hx with h1 | h1
    · exact hv x (List.mem_append.mpr (Or.inl h1))
    · rcases List.mem_cons.mp h1 with rfl | h2
      · exact ht'
      · exact hv x (List.mem_append.mpr (Or.inr (List.mem_cons_of_mem _ h2)))
  unfold revertChild at h
  split at h
  · -- str
    split at h
    · rename_i hreg
      have hk : ValOK co ({ t with values := [bTrue] } : Child) ∧ RegOK ({ t with values := [bTrue] } : Child) :=
        ⟨Or.inl hreg, ht.2⟩
      split at h
      · simp only [Prod.mk.injEq] at h; obtain ⟨rfl, rfl, _, _⟩ := h
        exact ⟨hr, by simpa using hk⟩
      · split at h
        · simp only [Prod.mk.injEq] at h; obtain ⟨rfl, rfl, _, _⟩ := h
          exact ⟨fire_alive (run := { run with st := { run.st with vts := true } }) hr (hview _ hk), by simpa using hk⟩
        · simp only [Prod.mk.injEq] at h; obtain ⟨rfl, rfl, _, _⟩ := h
          exact ⟨hr, by simpa using hk⟩
    · have hk : ValOK co ({ t with values := [], cached := none } : Child) ∧
          RegOK ({ t with values := [], cached := none } : Child) :=
        ⟨Or.inr (Or.inr (by intro v hv'; cases hv')), ht.2⟩
      split at h
      · simp only [Prod.mk.injEq] at h; obtain ⟨rfl, rfl, _, _⟩ := h
        exact ⟨fire_alive hr (hview _ hk), by simp⟩
      · simp only [Prod.mk.injEq] at h; obtain ⟨rfl, rfl, _, _⟩ := h
        exact ⟨hr, by simp⟩
  · -- list
    split at h
    · simp only [Prod.mk.injEq] at h; obtain ⟨rfl, rfl, _, _⟩ := h
      refine ⟨hr, ?_⟩
      intro k hk
      split at hk
      · simp only [Option.toList_some, List.mem_singleton] at hk; rw [hk]; exact ht
      · simp at hk
    · have hk : ValOK co ({ t with values := [] } : Child) ∧ RegOK ({ t with values := [] } : Child) :=
        ⟨Or.inr (Or.inr (by intro v hv'; cases hv')), ht.2⟩
      simp only [Prod.mk.injEq] at h; obtain ⟨rfl, rfl, _, _⟩ := h
      constructor
      · split
        · exact fire_alive hr (hview _ hk)
        · exact hr
      · intro k hk'
        split at hk'
        · simp only [Option.toList_some, List.mem_singleton] at hk'; rw [hk']; exact hk
        · simp at hk'

theorem VR_update {co : Bytes → Bool} {t s : Child} (ht : ValOK co t ∧ RegOK t)
    (hs : ValOK co s ∧ s.reg = false) (hci : ciEq t.name s.name = true)
    (t' : Child) (hn : t'.name = t.name) (hr : t'.reg = t.reg) (hk : t'.kind = t.kind)
    (hv : ∀ v ∈ t'.values, v ∈ s.values) : ValOK co t' ∧ RegOK t' := by
  constructor
  · rcases ht.1 with h | h | _
    · exact Or.inl (hr.trans h)
    · exact Or.inr (Or.inl (hn ▸ h))
    · rcases hs.1 with h' | h' | h'
      · rw [hs.2] at h'; cases h'
      · exact Or.inr (Or.inl (hn ▸ (noDot_congr hci).mpr h'))
      · exact Or.inr (Or.inr (fun v hv' => h' v (hv v hv')))
  · intro hreg
    have := ht.2 (hr ▸ hreg)
    exact ⟨hn ▸ this.1, hk.trans this.2⟩

theorem update_alive {co : Bytes → Bool} {run : Run} {pre rest : List Child} {t s : Child}
    (hr : run.exit = none) (hv : ∀ x ∈ pre ++ t :: rest, ValOK co x ∧ RegOK x)
    (hs : ValOK co s ∧ s.reg = false) (hci : ciEq t.name s.name = true)
    {run1 : Run} {t' : Child} {f : Bool}
    (h : updateChild co run pre t s rest = (run1, t', f)) :
    run1.exit = none ∧ ValOK co t' ∧ RegOK t' := by
  have ht := hv t (by simp)
  have hview : ∀ t' : Child, (ValOK co t' ∧ RegOK t') → ∀ x ∈ pre ++ t' :: rest, ValOK co x ∧ RegOK x := by
    intro t' ht' x hx
    rcases List.mem_append.mp hx with h1 | h1
    · exact hv x (List.mem_append.mpr (Or.inl h1))
    · rcases List.mem_cons.mp h1 with rfl | h2
      · exact ht'
      · exact hv x (List.mem_append.mpr (Or.inr (List.mem_cons_of_mem _ h2)))
  unfold updateChild at h
  split at h
  · -- str
    split at h
    · simp only [Prod.mk.injEq] at h; obtain ⟨rfl, rfl, _⟩ := h
      exact ⟨hr, ht⟩
    · rename_i v vs hsv
      have hmem : ∀ x ∈ [v], x ∈ s.values := by
        intro x hx; rw [List.mem_singleton.mp hx, hsv]; exact List.mem_cons_self ..
      split at h
      · have hk := VR_update ht hs hci ({ t with values := [v] } : Child) rfl rfl rfl hmem
        split at h
        · simp only [Prod.mk.injEq] at h; obtain ⟨rfl, rfl, _⟩ := h
          exact ⟨Run.log_exit_none hr _ _ (by decide), hk⟩
        · split at h
          · simp only [Prod.mk.injEq] at h; obtain ⟨rfl, rfl, _⟩ := h
            exact ⟨hr, hk⟩
          · rename_i b _ _
            split at h
            · simp only [Prod.mk.injEq] at h; obtain ⟨rfl, rfl, _⟩ := h
              exact ⟨fire_alive (run := { run with st := { run.st with vts := b } }) hr (hview _ hk), hk⟩
            · simp only [Prod.mk.injEq] at h; obtain ⟨rfl, rfl, _⟩ := h
              exact ⟨hr, hk⟩
      · have hk := VR_update ht hs hci ({ t with values := [v], cached := some v } : Child) rfl rfl rfl hmem
        split at h
        · simp only [Prod.mk.injEq] at h; obtain ⟨rfl, rfl, _⟩ := h
          exact ⟨hr, hk⟩
        · split at h
          · simp only [Prod.mk.injEq] at h; obtain ⟨rfl, rfl, _⟩ := h
            exact ⟨fire_alive hr (hview _ hk), hk⟩
          · simp only [Prod.mk.injEq] at h; obtain ⟨rfl, rfl, _⟩ := h
            exact ⟨hr, hk⟩
  · -- list
    split at h
    · simp only [Prod.mk.injEq] at h; obtain ⟨rfl, rfl, _⟩ := h
      exact ⟨hr, ht⟩
    · have hk := VR_update ht hs hci ({ t with values := s.values } : Child) rfl rfl rfl (fun _ h => h)
      split at h
      · simp only [Prod.mk.injEq] at h; obtain ⟨rfl, rfl, _⟩ := h
        exact ⟨fire_alive hr (hview _ hk), hk⟩
      · simp only [Prod.mk.injEq] at h; obtain ⟨rfl, rfl, _⟩ := h
        exact ⟨hr, hk⟩

theorem VR_step {co : Bytes → Bool} {f : Bool} {pre keep rest : List Child}
    (hpre : ∀ t ∈ pre, ValOK co t ∧ RegOK t) (hkeep : ∀ t ∈ keep, ValOK co t ∧ RegOK t)
    (hrest : ∀ t ∈ rest, ValOK co t ∧ RegOK t) :
    ∀ x ∈ (hookIf f pre ++ hookIf f keep) ++ hookIf f rest, ValOK co x ∧ RegOK x := by
  intro x hx
  rcases List.mem_append.mp hx with h | h
  · rcases List.mem_append.mp h with h | h
    · exact VR_hookIf hpre x h
    · exact VR_hookIf hkeep x h
  · exact VR_hookIf hrest x h

theorem VR_of_scratch {co : Bytes → Bool} {s : Child} (h : ValOK co s ∧ s.reg = false) : ValOK co s ∧ RegOK s :=
  ⟨h.1, fun hr => by rw [h.2] at hr; cases hr⟩

/-- the merge loop stays alive when every child in sight is harmless -/
theorem walk_alive (co : Bytes → Bool) (run : Run) (pre ts ss : List Child) (modified : Bool) (fired : Nat) :
    run.exit = none →
    (∀ t ∈ pre ++ ts, ValOK co t ∧ RegOK t) → (∀ s ∈ ss, ValOK co s ∧ s.reg = false) →
    (walk co run pre ts ss modified fired).run.exit = none ∧
    ∀ t ∈ (walk co run pre ts ss modified fired).live, ValOK co t ∧ RegOK t := by
  fun_induction walk co run pre ts ss modified fired with
  | case1 run pre modified fired =>
    intro hr hv _
    exact ⟨hr, by simpa using hv⟩
  | case2 run pre modified fired s ss' ih =>
    intro hr hv hss
    apply ih hr
    · intro x hx
      simp only [List.append_nil, List.mem_append, List.mem_singleton] at hx hv
      rcases hx with h | rfl
      · exact hv x h
      · exact VR_of_scratch (hss _ (List.mem_cons_self ..))
    · intro x hx; exact hss x (List.mem_cons_of_mem _ hx)
  | case3 run pre modified fired t ts' run1 keep m f h ih =>
    intro hr hv hss
    obtain ⟨hr1, hkeep⟩ := revert_alive hr hv h
    apply ih hr1
    · exact VR_step (fun x hx => hv x (List.mem_append.mpr (Or.inl hx))) hkeep
        (fun x hx => hv x (List.mem_append.mpr (Or.inr (List.mem_cons_of_mem _ hx))))
    · exact hss
  | case4 run pre modified fired t ts' s ss' hc ih =>
    intro hr hv hss
    apply ih hr
    · intro x hx
      rcases List.mem_append.mp hx with h | h
      · rcases List.mem_append.mp h with h | h
        · exact hv x (List.mem_append.mpr (Or.inl h))
        · rw [List.mem_singleton.mp h]; exact VR_of_scratch (hss _ (List.mem_cons_self ..))
      · exact hv x (List.mem_append.mpr (Or.inr h))
    · intro x hx; exact hss x (List.mem_cons_of_mem _ hx)
  | case5 run pre modified fired t ts' s ss' hc1 hc2 run1 keep m f h ih =>
    intro hr hv hss
    obtain ⟨hr1, hkeep⟩ := revert_alive hr hv h
    apply ih hr1
    · exact VR_step (fun x hx => hv x (List.mem_append.mpr (Or.inl hx))) hkeep
        (fun x hx => hv x (List.mem_append.mpr (Or.inr (List.mem_cons_of_mem _ hx))))
    · exact hss
  | case6 run pre modified fired t ts' s ss' hc1 hc2 run1 t' f h ih =>
    intro hr hv hss
    have hci := childCmp_zero hc1 hc2
    have hv' : ∀ x ∈ (pre ++ ({ t with name := s.name } : Child) :: ts'), ValOK co x ∧ RegOK x := by
      intro x hx
      rcases List.mem_append.mp hx with h1 | h1
      · exact hv x (List.mem_append.mpr (Or.inl h1))
      · rcases List.mem_cons.mp h1 with rfl | h2
        · have ht := hv t (by simp)
          refine ⟨?_, ht.2.rename hci⟩
          rcases ht.1 with h3 | h3 | h3
          · exact Or.inl h3
          · exact Or.inr (Or.inl ((noDot_congr hci).mp h3))
          · exact Or.inr (Or.inr h3)
        · exact hv x (List.mem_append.mpr (Or.inr (List.mem_cons_of_mem _ h2)))
    obtain ⟨hr1, hk⟩ := update_alive hr hv' (hss s (List.mem_cons_self ..)) (ciEq_refl s.name) h
    apply ih hr1
    · exact VR_step (fun x hx => hv x (List.mem_append.mpr (Or.inl hx)))
        (by intro x hx; rw [List.mem_singleton.mp hx]; exact hk)
        (fun x hx => hv x (List.mem_append.mpr (Or.inr (List.mem_cons_of_mem _ hx))))
    · intro x hx; exact hss x (List.mem_cons_of_mem _ hx)

/-- F25 for one file: every entry of its `logs` section either has a key without '.' (skipped by
    the rescan) or carries only destination names that can be opened -/
def FileOK (co : Bytes → Bool) (es : List RawEntry) : Prop :=
  ∀ e ∈ es, noDot e.key ∨ ∀ v ∈ e.values, Openable co v

theorem sameClass_ciEq {a b : Child} (h : sameClass a b = true) : ciEq a.name b.name = true := by
  unfold sameClass at h; rw [Bool.and_eq_true] at h; exact h.1

theorem setValues_val {co : Bytes → Bool} (n : Child)
    (he : noDot n.name ∨ ∀ v ∈ n.values, Openable co v) :
    ∀ cs : List Child, (∀ s ∈ cs, ValOK co s ∧ s.reg = false) →
      ∀ s ∈ setValues n cs, ValOK co s ∧ s.reg = false
  | [], _, s, hs => by simp [setValues] at hs
  | c :: rest, h, s, hs => by
    unfold setValues at hs
    split at hs
    · rename_i hsc
      rcases List.mem_cons.mp hs with rfl | h'
      · have hc := h c (List.mem_cons_self ..)
        refine ⟨?_, hc.2⟩
        rcases he with h1 | h1
        · exact Or.inr (Or.inl ((noDot_congr (sameClass_ciEq hsc)).mp h1))
        · exact Or.inr (Or.inr h1)
      · exact h s (List.mem_cons_of_mem _ h')
    · rcases List.mem_cons.mp hs with rfl | h'
      · exact h _ (List.mem_cons_self ..)
      · exact setValues_val n he rest (fun x hx => h x (List.mem_cons_of_mem _ hx)) s h'

theorem scratchInsert_val {co : Bytes → Bool} (cs : List Child) (e : RawEntry)
    (he : noDot e.key ∨ ∀ v ∈ e.values, Openable co v)
    (h : ∀ s ∈ cs, ValOK co s ∧ s.reg = false) :
    ∀ s ∈ scratchInsert cs e, ValOK co s ∧ s.reg = false := by
  unfold scratchInsert
  simp only []
  split
  · exact setValues_val _ he cs h
  · intro s hs
    rcases mem_insertChild.mp hs with rfl | h'
    · refine ⟨?_, rfl⟩
      rcases he with h1 | h1
      · exact Or.inr (Or.inl h1)
      · exact Or.inr (Or.inr h1)
    · exact h s h'

theorem scratchOf_val {co : Bytes → Bool} {es : List RawEntry} (hf : FileOK co es) :
    ∀ s ∈ scratchOf es, ValOK co s ∧ s.reg = false := by
  unfold scratchOf
  suffices h : ∀ (es' : List RawEntry), (∀ e ∈ es', e ∈ es) → ∀ (cs : List Child),
      (∀ s ∈ cs, ValOK co s ∧ s.reg = false) → ∀ s ∈ es'.foldl scratchInsert cs, ValOK co s ∧ s.reg = false from
    h es (fun _ h => h) [] (by simp)
  intro es'
  induction es' with
  | nil => intro _ cs h; exact h
  | cons e es' ih =>
    intro hsub cs h
    rw [List.foldl_cons]
    apply ih (fun x hx => hsub x (List.mem_cons_of_mem _ hx))
    exact scratchInsert_val cs e (hf e (hsub e (List.mem_cons_self ..))) h

/-- every child of the live tree is harmless for a rescan -/
def Safe (co : Bytes → Bool) (c : ConfSt) : Prop := ∀ t ∈ c.live, ValOK co t ∧ RegOK t

theorem VR_setHook {co : Bytes → Bool} {l : List Child} (h : ∀ t ∈ l, ValOK co t ∧ RegOK t) :
    ∀ t ∈ l.map setHook, ValOK co t ∧ RegOK t := by
  intro t ht
  obtain ⟨y, hy, rfl⟩ := List.mem_map.mp ht
  exact h y hy

/-- `load_alive`: under F25 for the file being loaded (and a harmless tree before), conf_read does
    not end in LOG_FATAL, and the tree stays harmless -/
theorem load_alive (co : Bytes → Bool) {c : ConfSt} (hr : c.run.exit = none) (hs : Safe co c)
    (file : Option (List RawEntry)) (hf : ∀ es, file = some es → FileOK co es) :
    (load co c file).run.exit = none ∧ Safe co (load co c file) := by
  unfold load
  simp only [hr, Option.isSome_none, Bool.false_eq_true, if_false]
  cases file with
  | some es =>
    simp only []
    obtain ⟨hw, hl⟩ := walk_alive co c.run [] c.live (scratchOf es) false 0 hr
      (by intro t ht; exact hs t (by simpa using ht)) (scratchOf_val (hf es rfl))
    split
    · exact ⟨fire_alive hw hl, VR_setHook hl⟩
    · exact ⟨hw, hl⟩
  | none =>
    simp only []
    split
    · obtain ⟨hw, hl⟩ := walk_alive co c.run [] c.live [] false 0 hr
        (by intro t ht; exact hs t (by simpa using ht)) (by simp)
      split
      · exact ⟨fire_alive hw hl, VR_setHook hl⟩
      · exact ⟨hw, hl⟩
    · exact ⟨hr, hs⟩

/-- histories inside assumption F25: loads of files whose `logs` entries can all be opened,
    messages below severity fatal, verbosity changes -/
inductive ReachOK (co : Bytes → Bool) : ConfSt → Prop where
  | init : ReachOK co ConfSt.init
  | load {c : ConfSt} (file : Option (List RawEntry)) (hf : ∀ es, file = some es → FileOK co es) :
      ReachOK co c → ReachOK co (load co c file)
  | msg {c : ConfSt} (fac : Bytes) (sev : Nat) (m : Bytes) (hs : sev ≠ sevFatal) :
      ReachOK co c → ReachOK co (message c fac sev m)
  | verb {c : ConfSt} (n : Int) : ReachOK co c → ReachOK co (setVerbosity c n)

theorem reach_of_reachOK {co : Bytes → Bool} {c : ConfSt} (h : ReachOK co c) : Reach co c := by
  induction h with
  | init => exact Reach.init
  | load file _ _ ih => exact Reach.load file ih
  | msg fac sev m _ _ ih => exact Reach.msg fac sev m ih
  | verb n _ ih => exact Reach.verb n ih

/-- inside F25 the process never dies -/
theorem alive_of_reachOK {co : Bytes → Bool} {c : ConfSt} (h : ReachOK co c) :
    c.run.exit = none ∧ Safe co c := by
  induction h with
  | init =>
    refine ⟨rfl, ?_⟩
    intro t ht
    simp only [ConfSt.init, List.mem_singleton] at ht
    subst ht
    exact ⟨Or.inl rfl, fun _ => ⟨rfl, rfl⟩⟩
  | load file hf _ ih => exact load_alive co ih.1 ih.2 file hf
  | @msg c fac sev m hs _ ih =>
    unfold message
    simp only [ih.1, Option.isSome_none, Bool.false_eq_true, if_false]
    refine ⟨?_, ih.2⟩
    apply Run.log_exit_none _ fac m hs
    rfl
  | @verb c n _ ih =>
    unfold setVerbosity
    simp only [ih.1, Option.isSome_none, Bool.false_eq_true, if_false]
    exact ⟨trivial, ih.2⟩

end Iauthd.Log
