import Iauthd.Log.Spec
/-
  Proofs about the Log model (all inputs, no sampling):
    A. `ciEq` is an equivalence and agrees with `strcasecmp(..) == 0` on C strings
    B. log_parse_type_sevset: `sevset_spec`, `applyOp_spec`, `parseKey_spec`
    C. log_rescan_conf: invariants, `refcnt_spec`, `open_iff_referenced`, `C18_route`,
       `rescan_history_free`, counterexamples for destination names differing only in case
    D. the effectful walk `rescanR` computes the same state; when it stays alive
    E. `line_complete`, `console_silent`
  (the hook-delivery layer is in ProofsLoad.lean)
-/
namespace Iauthd.Log
open Iauthd

/-! ## A. case-insensitive equality -/

theorem ciEq_iff {a b : Bytes} : ciEq a b = true ↔ a.map Bytes.lower = b.map Bytes.lower := by
  simp [ciEq]

theorem ciEq_refl (a : Bytes) : ciEq a a = true := by simp [ciEq]

theorem ciEq_symm {a b : Bytes} (h : ciEq a b = true) : ciEq b a = true := by
  rw [ciEq_iff] at *; exact h.symm

theorem ciEq_comm (a b : Bytes) : ciEq a b = ciEq b a := by
  cases h : ciEq a b with
  | true => exact (ciEq_symm h).symm
  | false =>
    cases h' : ciEq b a with
    | false => rfl
    | true => rw [ciEq_symm h'] at h; exact absurd h (by simp)

theorem ciEq_trans {a b c : Bytes} (h1 : ciEq a b = true) (h2 : ciEq b c = true) : ciEq a c = true := by
  rw [ciEq_iff] at *; exact h1.trans h2

theorem ciEq_eq_sameNoCase (a b : Bytes) : ciEq a b = Spec.sameNoCase a b := rfl

theorem lower_toNat_ne_zero {c : UInt8} (h : c ≠ 0) : (Bytes.lower c).toNat ≠ 0 := by
  unfold Bytes.lower
  split
  · rename_i hc
    rw [UInt8.toNat_add]
    have : (32 : UInt8).toNat = 32 := rfl
    omega
  · intro h0
    apply h
    exact UInt8.toNat_inj.mp (by simpa using h0)

/-- the model's `ciEq` is `strcasecmp(a, b) == 0` on NUL-free byte lists (C strings) -/
theorem ciEq_eq_strcasecmp : ∀ (a b : Bytes), (0 : UInt8) ∉ a → (0 : UInt8) ∉ b →
    ciEq a b = decide (Bytes.strcasecmp a b = 0)
  | [], [], _, _ => by simp [ciEq, Bytes.strcasecmp]
  | [], y :: ys, _, hb => by
    have hy : y ≠ 0 := fun h => hb (by simp [h])
    have := lower_toNat_ne_zero hy
    simp [ciEq, Bytes.strcasecmp]; omega
  | x :: xs, [], ha, _ => by
    have hx : x ≠ 0 := fun h => ha (by simp [h])
    have := lower_toNat_ne_zero hx
    simp [ciEq, Bytes.strcasecmp]; omega
  | x :: xs, y :: ys, ha, hb => by
    have ih := ciEq_eq_strcasecmp xs ys (fun h => ha (by simp [h])) (fun h => hb (by simp [h]))
    unfold Bytes.strcasecmp
    by_cases hxy : Bytes.lower x = Bytes.lower y
    · simp only [hxy, beq_self_eq_true, if_true]
      rw [← ih]
      simp [ciEq, hxy]
    · have hne : (Bytes.lower x == Bytes.lower y) = false := by simpa using hxy
      simp only [hne]
      have hn : (Bytes.lower x).toNat ≠ (Bytes.lower y).toNat := fun h => hxy (UInt8.toNat_inj.mp h)
      simp [ciEq, hxy]
      omega

/-! ## B. log_parse_type_sevset -/

theorem splitAtByte_snd_none {c : UInt8} : ∀ {s : Bytes}, (splitAtByte c s).2 = none → (splitAtByte c s).1 = s
  | [], _ => rfl
  | x :: xs, h => by
    unfold splitAtByte at h ⊢
    by_cases hx : x = c
    · simp [hx] at h
    · simp only [hx, if_false] at h ⊢
      rw [splitAtByte_snd_none h]

theorem splitAtByte_snd_some_length {c : UInt8} : ∀ {s r : Bytes}, (splitAtByte c s).2 = some r → r.length < s.length
  | [], r, h => by simp [splitAtByte] at h
  | x :: xs, r, h => by
    unfold splitAtByte at h
    by_cases hx : x = c
    · simp only [hx, if_true, Option.some.injEq] at h
      subst h; simp
    · simp only [hx, if_false] at h
      have := splitAtByte_snd_some_length h
      simp; omega

theorem splitFirst_eq (c : UInt8) : ∀ s : Bytes,
    Spec.splitFirst c s =
      match (splitAtByte c s).2 with
      | some r => some ((splitAtByte c s).1, r)
      | none => none
  | [] => rfl
  | x :: xs => by
    unfold Spec.splitFirst splitAtByte
    by_cases hx : x = c
    · simp [hx]
    · simp only [hx, if_false]
      rw [splitFirst_eq c xs]
      cases (splitAtByte c xs).2 <;> rfl

theorem splitOn_ne_nil (c : UInt8) : ∀ s : Bytes, ∃ h t, Spec.splitOn c s = h :: t
  | [] => ⟨[], [], rfl⟩
  | x :: xs => by
    by_cases hx : x = c
    · exact ⟨[], Spec.splitOn c xs, by simp only [Spec.splitOn, hx, if_true]⟩
    · obtain ⟨h, t, ht⟩ := splitOn_ne_nil c xs
      exact ⟨x :: h, t, by simp only [Spec.splitOn, hx, if_false, ht]⟩

theorem splitOn_eq (c : UInt8) : ∀ s : Bytes,
    Spec.splitOn c s = (splitAtByte c s).1 ::
      (match (splitAtByte c s).2 with
       | none => []
       | some r => Spec.splitOn c r)
  | [] => rfl
  | x :: xs => by
    by_cases hx : x = c
    · simp only [Spec.splitOn, splitAtByte, hx, if_true]
    · simp only [Spec.splitOn, splitAtByte, hx, if_false]
      rw [splitOn_eq c xs]

theorem sevNames_eq : sevNames = Spec.severityNames := rfl

theorem sevLookupFrom_spec : ∀ (ns : List Bytes) (i : Nat) (name : Bytes),
    sevLookupFrom ns i name =
      match Spec.sevIndexFrom ns i name with
      | some k => k
      | none => i + ns.length
  | [], i, name => by simp [sevLookupFrom, Spec.sevIndexFrom]
  | n :: ns, i, name => by
    unfold sevLookupFrom Spec.sevIndexFrom
    rw [← ciEq_eq_sameNoCase]
    cases h : ciEq name n with
    | true => simp
    | false =>
      simp only [Bool.false_eq_true, if_false]
      rw [sevLookupFrom_spec ns (i + 1) name]
      cases Spec.sevIndexFrom ns (i + 1) name with
      | some k => rfl
      | none => simp only [List.length_cons]; omega

theorem sevIndexFrom_bounds : ∀ (ns : List Bytes) (i : Nat) (name : Bytes) (k : Nat),
    Spec.sevIndexFrom ns i name = some k → i ≤ k ∧ k < i + ns.length
  | [], i, name, k, h => by simp [Spec.sevIndexFrom] at h
  | n :: ns, i, name, k, h => by
    unfold Spec.sevIndexFrom at h
    by_cases hc : Spec.sameNoCase name n = true
    · simp [hc] at h; subst h; simp
    · simp only [hc] at h
      have := sevIndexFrom_bounds ns (i + 1) name k h
      simp; omega

theorem sevIndex_lt {name : Bytes} {k : Nat} (h : Spec.sevIndex name = some k) : k < 6 := by
  have := sevIndexFrom_bounds _ _ _ _ h
  simp [Spec.severityNames] at this; omega

theorem sevLookup_spec (name : Bytes) :
    sevLookup name = match Spec.sevIndex name with
      | some k => k
      | none => 6 := by
  unfold sevLookup Spec.sevIndex
  rw [sevNames_eq, sevLookupFrom_spec]
  cases Spec.sevIndexFrom Spec.severityNames 0 name <;> simp [Spec.severityNames]

/-- operator numbers of the C code as relations -/
def relOfOp : Nat → Spec.Rel
  | 0 => .eq
  | 1 => .ge
  | 2 => .gt
  | 3 => .le
  | _ => .lt

theorem stripOp_eq (s : Bytes) : Spec.stripOp s = (relOfOp (splitOp s).1, (splitOp s).2) := by
  unfold Spec.stripOp splitOp
  split
  · simp [relOfOp]
  · rename_i r hr
    cases r with
    | nil => simp [relOfOp]
    | cons d r' =>
      have : d ≠ 61 := fun h => hr r' (by rw [h])
      simp [this, relOfOp]
  · simp [relOfOp]
  · rename_i r hr
    cases r with
    | nil => simp [relOfOp]
    | cons d r' =>
      have : d ≠ 61 := fun h => hr r' (by rw [h])
      simp [this, relOfOp]
  · simp [relOfOp]
  · rename_i _ h62 _ h60 h61
    cases s with
    | nil => simp [relOfOp]
    | cons c r =>
      have a : c ≠ 62 := fun h => h62 r (by rw [h])
      have b : c ≠ 60 := fun h => h60 r (by rw [h])
      have d : c ≠ 61 := fun h => h61 r (by rw [h])
      simp [a, b, d, relOfOp]

theorem mem_sevAbove {v s : Nat} : s ∈ sevAbove v ↔ s < 6 ∧ v < s := by
  simp [sevAbove, List.mem_filter, List.mem_range]

theorem mem_sevBelow {v s : Nat} : s ∈ sevBelow v ↔ s < 6 ∧ s < v := by
  simp [sevBelow, List.mem_filter, List.mem_range]

/-- each operator denotes the documented range (`>=x` = {y | y ≥ x}, `>x`, `<=x`, `<x`, `=x`/bare = {x}) -/
theorem applyOp_spec (op v s : Nat) (hv : v < 6) :
    s ∈ applyOp op v ↔ s < 6 ∧ (relOfOp op).holds v s = true := by
  unfold applyOp
  split <;> simp [relOfOp, Spec.Rel.holds, mem_sevAbove, mem_sevBelow] <;> omega

/-- the bits one list item sets; `none`: unknown severity name (`res = 3`) -/
def itemBits (it : Bytes) : Option (List Nat) :=
  if sevLookup (splitOp it).2 = numSev then none
  else some (applyOp (splitOp it).1 (sevLookup (splitOp it).2))

theorem itemBits_nil : itemBits [] = none := by decide

theorem itemBits_isSome (it : Bytes) : (itemBits it).isSome = (Spec.itemDenotes it).isSome := by
  unfold itemBits Spec.itemDenotes
  rw [stripOp_eq, sevLookup_spec]
  cases h : Spec.sevIndex (splitOp it).2 with
  | none => simp
  | some k => have := sevIndex_lt h; simp [numSev]; omega

theorem itemBits_spec {it : Bytes} {b : List Nat} {p : Nat → Bool}
    (hb : itemBits it = some b) (hp : Spec.itemDenotes it = some p) :
    (∀ s ∈ b, s < 6) ∧ ∀ s, s < 6 → (s ∈ b ↔ p s = true) := by
  unfold itemBits at hb
  unfold Spec.itemDenotes at hp
  rw [stripOp_eq] at hp
  rw [sevLookup_spec] at hb
  cases h : Spec.sevIndex (splitOp it).2 with
  | none => simp [h] at hp
  | some k =>
    have hk := sevIndex_lt h
    simp only [h] at hb hp
    have hne : ¬ k = numSev := by simp [numSev]; omega
    simp only [hne, if_false, Option.some.injEq] at hb hp
    subst hb; subst hp
    constructor
    · intro s hs; exact ((applyOp_spec _ _ _ hk).mp hs).1
    · intro s hs
      rw [applyOp_spec _ _ _ hk]
      simp [hs]

/-- the `while` loop of log_parse_type_sevset over the comma-separated pieces -/
def loopItems : List Bytes → List Nat → Option (List Nat)
  | [], acc => some acc
  | [it], acc =>
    if it = [] then some acc
    else match itemBits it with
      | none => none
      | some b => some (acc ++ b)
  | it :: it2 :: rest, acc =>
    match itemBits it with
    | none => none
    | some b => loopItems (it2 :: rest) (acc ++ b)

theorem sevLoop_eq : ∀ (fuel : Nat) (s : Bytes) (acc : List Nat), s.length < fuel →
    sevLoop fuel (some s) acc = loopItems (Spec.splitOn 44 s) acc
  | 0, s, acc, h => by omega
  | fuel + 1, [], acc, _ => by simp [sevLoop, Spec.splitOn, loopItems]
  | fuel + 1, x :: xs, acc, h => by
    rw [splitOn_eq]
    simp only [sevLoop]
    cases hr : (splitAtByte 44 (x :: xs)).2 with
    | none =>
      have h1 := splitAtByte_snd_none hr
      have hne : (splitAtByte 44 (x :: xs)).1 ≠ [] := by rw [h1]; simp
      simp only [loopItems, hne, if_false, itemBits]
      split
      · rfl
      · cases fuel <;> simp [sevLoop]
    | some r =>
      have hlen := splitAtByte_snd_some_length hr
      obtain ⟨h2, t2, ht⟩ := splitOn_ne_nil 44 r
      simp only [ht, loopItems, itemBits]
      split
      · rfl
      · rw [sevLoop_eq fuel r _ (by simp only [List.length_cons] at h hlen; omega), ht]

/-- the pieces that are items: a last empty piece (trailing comma, or the empty text) is not one -/
def trimItems (its : List Bytes) : List Bytes :=
  if its.getLast? = some [] then its.dropLast else its

theorem trimItems_cons₂ (a b : Bytes) (rest : List Bytes) :
    trimItems (a :: b :: rest) = a :: trimItems (b :: rest) := by
  unfold trimItems
  simp only [List.getLast?_cons_cons]
  split <;> simp

theorem loopItems_spec : ∀ (its : List Bytes) (acc : List Nat), its ≠ [] →
    loopItems its acc =
      if (trimItems its).all (fun it => (itemBits it).isSome) then
        some (acc ++ (trimItems its).flatMap (fun it => (itemBits it).getD []))
      else none
  | [], _, h => absurd rfl h
  | [it], acc, _ => by
    unfold loopItems trimItems
    by_cases h : it = []
    · simp [h]
    · simp only [h, if_false, List.getLast?_singleton, Option.some.injEq]
      cases hb : itemBits it <;> simp [hb]
  | it :: it2 :: rest, acc, _ => by
    rw [trimItems_cons₂]
    unfold loopItems
    cases hb : itemBits it with
    | none => simp [hb]
    | some b =>
      simp only []
      rw [loopItems_spec (it2 :: rest) (acc ++ b) (by simp)]
      simp [hb, List.append_assoc]

theorem listItems_eq (txt : Bytes) : Spec.listItems txt = trimItems (Spec.splitOn 44 txt) := rfl

/-- `sevset_spec`: the severity text is accepted exactly when the specification's grammar accepts
    it, and then sets exactly the bits the specification says (`*` = all; each operator its
    range; a list = the union; an unknown name or stray operator ⇒ nothing at all). -/
theorem sevset_spec (txt : Bytes) :
    (parseSevs txt).isSome = (Spec.sevDenotes txt).isSome ∧
    ∀ S p, parseSevs txt = some S → Spec.sevDenotes txt = some p →
      (∀ s ∈ S, s < 6) ∧ ∀ s, s < 6 → (s ∈ S ↔ p s = true) := by
  by_cases hstar : txt = bStar
  · subst hstar
    have e1 : parseSevs bStar = some (List.range numSev) := rfl
    have e2 : Spec.sevDenotes bStar = some (fun s => decide (s < 6)) := rfl
    rw [e1, e2]
    refine ⟨rfl, ?_⟩
    intro S p hS hp
    simp only [Option.some.injEq] at hS hp
    subst hS; subst hp
    simp [numSev, List.mem_range]
  · have h42 : ¬ txt = [42] := hstar
    unfold parseSevs Spec.sevDenotes
    simp only [hstar, h42, if_false]
    rw [sevLoop_eq _ _ _ (Nat.lt_succ_self _), listItems_eq]
    obtain ⟨h0, t0, hne⟩ := splitOn_ne_nil 44 txt
    rw [loopItems_spec _ _ (by rw [hne]; simp)]
    have hall : (trimItems (Spec.splitOn 44 txt)).all (fun it => (itemBits it).isSome) =
        (trimItems (Spec.splitOn 44 txt)).all (fun it => (Spec.itemDenotes it).isSome) := by
      have : (fun it => (itemBits it).isSome) = (fun it => (Spec.itemDenotes it).isSome) :=
        funext itemBits_isSome
      rw [this]
    rw [hall]
    cases hc : (trimItems (Spec.splitOn 44 txt)).all (fun it => (Spec.itemDenotes it).isSome) with
    | false => simp
    | true =>
      simp only [if_true, Option.isSome_some, true_and, Option.some.injEq, List.nil_append]
      intro S p hS hp
      subst hS; subst hp
      rw [List.all_eq_true] at hc
      constructor
      · intro s hs
        rw [List.mem_flatMap] at hs
        obtain ⟨it, hit, hs⟩ := hs
        have h1 := hc it hit
        have h2 : (itemBits it).isSome = true := by rw [itemBits_isSome]; exact h1
        obtain ⟨b, hb⟩ := Option.isSome_iff_exists.mp h2
        obtain ⟨p, hp⟩ := Option.isSome_iff_exists.mp h1
        rw [hb] at hs
        exact (itemBits_spec hb hp).1 s hs
      · intro s hs
        rw [List.mem_flatMap, List.any_eq_true]
        constructor
        · rintro ⟨it, hit, hsb⟩
          refine ⟨it, hit, ?_⟩
          have h1 := hc it hit
          have h2 : (itemBits it).isSome = true := by rw [itemBits_isSome]; exact h1
          obtain ⟨b, hb⟩ := Option.isSome_iff_exists.mp h2
          obtain ⟨p, hp⟩ := Option.isSome_iff_exists.mp h1
          rw [hb] at hsb
          simp only [hp]
          exact ((itemBits_spec hb hp).2 s hs).mp hsb
        · rintro ⟨it, hit, hps⟩
          refine ⟨it, hit, ?_⟩
          have h1 := hc it hit
          have h2 : (itemBits it).isSome = true := by rw [itemBits_isSome]; exact h1
          obtain ⟨b, hb⟩ := Option.isSome_iff_exists.mp h2
          obtain ⟨p, hp⟩ := Option.isSome_iff_exists.mp h1
          rw [hb]
          simp only [hp] at hps
          exact ((itemBits_spec hb hp).2 s hs).mpr hps

theorem parseSevs_lt {txt : Bytes} {S : List Nat} (h : parseSevs txt = some S) : ∀ s ∈ S, s < 6 := by
  have hs := sevset_spec txt
  have : (Spec.sevDenotes txt).isSome = true := by rw [← hs.1, h]; rfl
  obtain ⟨p, hp⟩ := Option.isSome_iff_exists.mp this
  exact (hs.2 S p h hp).1

/-- a key maps (fac, sev) in the model exactly when the specification says the key denotes it -/
theorem parseKey_spec (key fac : Bytes) (sev : Nat) (hsev : sev < 6) :
    (∃ f S, parseKey key = some (f, S) ∧ (ciEq f fac = true ∨ f = bStar) ∧ sev ∈ S) ↔
      Spec.keyDenotes key fac sev = true := by
  unfold parseKey parseKeyFull Spec.keyDenotes
  rw [splitFirst_eq]
  cases hr : (splitAtByte 46 key).2 with
  | none => simp
  | some rest =>
    simp only []
    have hs := sevset_spec rest
    cases hS : parseSevs rest with
    | none =>
      have : Spec.sevDenotes rest = none := by
        have := hs.1; rw [hS] at this
        cases h : Spec.sevDenotes rest with
        | none => rfl
        | some p => rw [h] at this; simp at this
      simp [this]
    | some S =>
      have : (Spec.sevDenotes rest).isSome = true := by rw [← hs.1, hS]; rfl
      obtain ⟨p, hp⟩ := Option.isSome_iff_exists.mp this
      have h2 := (hs.2 S p hS hp).2 sev hsev
      simp only [hp, Option.some.injEq, Prod.mk.injEq]
      constructor
      · rintro ⟨f, S', ⟨rfl, rfl⟩, hf, hmem⟩
        rw [Bool.and_eq_true, Bool.or_eq_true]
        refine ⟨?_, h2.mp hmem⟩
        rcases hf with hf | hf
        · left; rw [← ciEq_eq_sameNoCase]; exact hf
        · right; simpa [bStar] using hf
      · intro h
        rw [Bool.and_eq_true, Bool.or_eq_true] at h
        refine ⟨_, _, ⟨rfl, rfl⟩, ?_, h2.mpr h.2⟩
        rcases h.1 with hf | hf
        · left; rw [ciEq_eq_sameNoCase]; exact hf
        · right; simpa [bStar] using hf

/-! ## C. log_rescan_conf -/

/-- no two names equal up to case (what a `struct set` under strcasecmp guarantees) -/
def NoDupCI (l : List Bytes) : Prop := l.Pairwise (fun a b => ciEq a b = false)

/-- well-formed state: the type set and the destination set have unique keys -/
structure WF (st : LogSt) : Prop where
  types : NoDupCI st.types
  dests : (openNames st).Nodup

theorem NoDupCI.eq_of_ciEq : ∀ {l : List Bytes}, NoDupCI l → ∀ {a b}, a ∈ l → b ∈ l → ciEq a b = true → a = b
  | [], _, _, _, ha, _, _ => by simp at ha
  | x :: xs, h, a, b, ha, hb, hab => by
    rw [NoDupCI, List.pairwise_cons] at h
    rcases List.mem_cons.mp ha with rfl | ha'
    · rcases List.mem_cons.mp hb with rfl | hb'
      · rfl
      · have := h.1 b hb'; rw [hab] at this; exact absurd this (by simp)
    · rcases List.mem_cons.mp hb with rfl | hb'
      · have := h.1 a ha'; rw [ciEq_comm, hab] at this; exact absurd this (by simp)
      · exact NoDupCI.eq_of_ciEq h.2 ha' hb' hab

theorem NoDupCI.append_singleton {l : List Bytes} {f : Bytes} (h : NoDupCI l)
    (hf : ∀ n ∈ l, ciEq n f = false) : NoDupCI (l ++ [f]) := by
  rw [NoDupCI, List.pairwise_append]
  refine ⟨h, by simp, ?_⟩
  intro a ha b hb
  simp at hb; subst hb; exact hf a ha

/-! ### types -/

theorem canonT_ciEq (types : List Bytes) (f : Bytes) : ciEq (canonT types f) f = true := by
  unfold canonT
  cases h : types.find? (fun n => ciEq n f) with
  | none => exact ciEq_refl f
  | some n => simpa using List.find?_some h

theorem canonT_mem {types : List Bytes} {f : Bytes} (h : ∃ n ∈ types, ciEq n f = true) :
    canonT types f ∈ types := by
  unfold canonT
  cases hf : types.find? (fun n => ciEq n f) with
  | none =>
    obtain ⟨n, hn, hc⟩ := h
    have := List.find?_eq_none.mp hf n hn
    simp [hc] at this
  | some n => exact List.mem_of_find?_eq_some hf

theorem canonT_unique {types : List Bytes} {f n : Bytes} (hw : NoDupCI types) (hn : n ∈ types)
    (hc : ciEq n f = true) : canonT types f = n :=
  hw.eq_of_ciEq (canonT_mem ⟨n, hn, hc⟩) hn (ciEq_trans (canonT_ciEq types f) (ciEq_symm hc))

theorem canonT_not_mem {types : List Bytes} {f : Bytes} (h : ∀ n ∈ types, ciEq n f = false) :
    canonT types f = f := by
  unfold canonT
  cases hf : types.find? (fun n => ciEq n f) with
  | none => rfl
  | some n =>
    have h1 := List.mem_of_find?_eq_some hf
    have h2 : ciEq n f = true := by simpa using List.find?_some hf
    rw [h n h1] at h2; exact absurd h2 (by simp)

@[simp] theorem registerType_dests (st : LogSt) (f : Bytes) : (registerType st f).dests = st.dests := by
  unfold registerType; split <;> rfl
@[simp] theorem registerType_atts (st : LogSt) (f : Bytes) : (registerType st f).atts = st.atts := by
  unfold registerType; split <;> rfl
@[simp] theorem registerType_verbosity (st : LogSt) (f : Bytes) : (registerType st f).verbosity = st.verbosity := by
  unfold registerType; split <;> rfl
@[simp] theorem registerType_vts (st : LogSt) (f : Bytes) : (registerType st f).vts = st.vts := by
  unfold registerType; split <;> rfl

theorem registerType_types_mono (st : LogSt) (f : Bytes) {n : Bytes} (h : n ∈ st.types) :
    n ∈ (registerType st f).types := by
  unfold registerType; split
  · exact h
  · simp [h]

theorem registerType_registered (st : LogSt) (f : Bytes) :
    ∃ n ∈ (registerType st f).types, ciEq n f = true := by
  unfold registerType
  split
  · rename_i h
    obtain ⟨n, hn, hc⟩ := List.any_eq_true.mp h
    exact ⟨n, hn, hc⟩
  · exact ⟨f, by simp, ciEq_refl f⟩

theorem registerType_noDup (st : LogSt) (f : Bytes) (h : NoDupCI st.types) :
    NoDupCI (registerType st f).types := by
  unfold registerType
  split
  · exact h
  · rename_i hn
    apply h.append_singleton
    intro n hmem
    cases hc : ciEq n f with
    | false => rfl
    | true => exact absurd (List.any_eq_true.mpr ⟨n, hmem, hc⟩) hn

/-! ### destinations -/

theorem findDest_some {ds : List Dest} {v : Bytes} {d : Dest} (h : findDest ds v = some d) :
    d ∈ ds ∧ d.name = v :=
  ⟨List.mem_of_find?_eq_some h, by simpa using List.find?_some h⟩

theorem findDest_none {ds : List Dest} {v : Bytes} (h : findDest ds v = none) :
    ∀ d ∈ ds, d.name ≠ v := by
  intro d hd
  have := List.find?_eq_none.mp h d hd
  simpa using this

theorem names_bump (v : Bytes) : ∀ ds : List Dest, (bump v ds).map (·.name) = ds.map (·.name)
  | [] => rfl
  | x :: xs => by
    unfold bump
    split
    · rfl
    · simp [names_bump v xs]

theorem mem_insertDest {d x : Dest} : ∀ {ds : List Dest}, x ∈ insertDest d ds ↔ x = d ∨ x ∈ ds
  | [] => by simp [insertDest]
  | y :: ys => by
    unfold insertDest
    split
    · simp
    · simp only [List.mem_cons, mem_insertDest (ds := ys)]
      constructor
      · rintro (h | h | h) <;> simp [h]
      · rintro (h | h | h) <;> simp [h]

theorem nodup_insertDest {d : Dest} : ∀ {ds : List Dest}, (ds.map (·.name)).Nodup →
    (∀ x ∈ ds, x.name ≠ d.name) → ((insertDest d ds).map (·.name)).Nodup
  | [], _, _ => by simp [insertDest]
  | y :: ys, h, hd => by
    unfold insertDest
    split
    · rw [List.map_cons, List.nodup_cons]
      refine ⟨?_, h⟩
      intro hn
      obtain ⟨x, hx, hxn⟩ := List.mem_map.mp hn
      exact hd x hx hxn
    · rw [List.map_cons, List.nodup_cons] at h ⊢
      refine ⟨?_, nodup_insertDest h.2 (fun x hx => hd x (List.mem_cons_of_mem _ hx))⟩
      intro hn
      obtain ⟨x, hx, hxn⟩ := List.mem_map.mp hn
      rcases mem_insertDest.mp hx with rfl | hx'
      · exact hd y (List.mem_cons_self ..) hxn.symm
      · exact h.1 (hxn ▸ List.mem_map_of_mem hx')

/-- under unique keys, `bump` touches exactly the element whose key matches -/
theorem mem_bump {v : Bytes} : ∀ {ds : List Dest}, (ds.map (·.name)).Nodup → ∀ {x' : Dest},
    (x' ∈ bump v ds ↔ ∃ x ∈ ds, x' = if x.name = v then { x with refcnt := x.refcnt + 1 } else x)
  | [], _, x' => by simp [bump]
  | y :: ys, h, x' => by
    rw [List.map_cons, List.nodup_cons] at h
    unfold bump
    by_cases hy : y.name = v
    · simp only [hy, if_true, List.mem_cons]
      have hne : ∀ x ∈ ys, ¬ x.name = v := by
        intro x hx hxv
        exact h.1 (by rw [hy, ← hxv]; exact List.mem_map_of_mem hx)
      constructor
      · rintro (rfl | hx)
        · exact ⟨y, Or.inl rfl, by simp [hy]⟩
        · exact ⟨x', Or.inr hx, by simp [hne x' hx]⟩
      · rintro ⟨x, (rfl | hx), rfl⟩
        · left; simp [hy]
        · right; simp [hne x hx, hx]
    · simp only [hy, if_false, List.mem_cons, mem_bump h.2]
      constructor
      · rintro (rfl | ⟨x, hx, rfl⟩)
        · exact ⟨x', Or.inl rfl, by simp [hy]⟩
        · exact ⟨x, Or.inr hx, rfl⟩
      · rintro ⟨x, (rfl | hx), rfl⟩
        · left; simp [hy]
        · right; exact ⟨x, hx, rfl⟩

theorem openSt_names {ds : List Dest} {v n : Bytes} :
    n ∈ (openSt ds v).1.map (·.name) ↔ n ∈ ds.map (·.name) ∨ (n = v ∧ findDest ds v = none) := by
  unfold openSt
  cases h : findDest ds v with
  | some d => simp [names_bump]
  | none =>
    simp only [List.mem_map, mem_insertDest]
    constructor
    · rintro ⟨x, (rfl | hx), rfl⟩
      · right; simp
      · left; exact ⟨x, hx, rfl⟩
    · rintro (⟨x, hx, rfl⟩ | ⟨rfl, _⟩)
      · exact ⟨x, Or.inr hx, rfl⟩
      · exact ⟨⟨n, 0⟩, Or.inl rfl, rfl⟩

/-- log_destination_open returns the destination of exactly that name -/
theorem openSt_snd (ds : List Dest) (v : Bytes) : (openSt ds v).2 = v := by
  unfold openSt
  cases h : findDest ds v with
  | some d => exact (findDest_some h).2
  | none => rfl

theorem openSt_result {ds : List Dest} {v : Bytes} : v ∈ (openSt ds v).1.map (·.name) := by
  rw [openSt_names]
  cases h : findDest ds v with
  | some d =>
    left
    have := findDest_some h
    exact this.2 ▸ List.mem_map_of_mem this.1
  | none => right; exact ⟨rfl, rfl⟩

theorem openSt_nodup {ds : List Dest} {v : Bytes} (h : (ds.map (·.name)).Nodup) :
    ((openSt ds v).1.map (·.name)).Nodup := by
  unfold openSt
  cases hf : findDest ds v with
  | some d => simpa [names_bump] using h
  | none => exact nodup_insertDest h (findDest_none hf)

/-! ### the invariant of the child loop -/

/-- number of vector slots that point to the destination called `n` -/
def refs (atts : List Att) (n : Bytes) : Nat := atts.countP (fun a => decide (a.dest = n))

theorem refs_append_singleton (atts : List Att) (a : Att) (n : Bytes) :
    refs (atts ++ [a]) n = refs atts n + (if a.dest = n then 1 else 0) := by
  simp [refs, List.countP_append, List.countP_cons]

theorem refs_pos_iff {atts : List Att} {n : Bytes} : 0 < refs atts n ↔ ∃ a ∈ atts, a.dest = n := by
  simp [refs, List.countP_pos_iff]

structure Inv (st : LogSt) : Prop where
  wf : WF st
  /-- `refcnt` as coded: number of references minus one -/
  rc : ∀ d ∈ st.dests, d.refcnt + 1 = (refs st.atts d.name : Int)
  /-- every vector slot points to a registered type's vector and to an open destination -/
  own : ∀ a ∈ st.atts, a.ty ∈ st.types ∧ a.dest ∈ openNames st

@[simp] theorem stepOp_reg (st : LogSt) (f : Bytes) : stepOp st (.reg f) = registerType st f := rfl

theorem inv_stepOp {st : LogSt} (h : Inv st) (op : Op) : Inv (stepOp st op) := by
  cases op with
  | reg f =>
    rw [stepOp_reg]
    exact ⟨⟨registerType_noDup st f h.wf.types, by simpa [openNames] using h.wf.dests⟩,
      by simpa using h.rc,
      fun a ha => by
        have := h.own a (by simpa using ha)
        exact ⟨registerType_types_mono st f this.1, by simpa [openNames] using this.2⟩⟩
  | att f sev v =>
    have hwfD : (st.dests.map (·.name)).Nodup := h.wf.dests
    refine ⟨⟨registerType_noDup st f h.wf.types, openSt_nodup hwfD⟩, ?_, ?_⟩
    · -- reference counts
      intro d hd
      simp only [stepOp] at hd ⊢
      rw [refs_append_singleton, openSt_snd]
      unfold openSt at hd
      cases hf : findDest st.dests v with
      | some d0 =>
        simp only [hf] at hd
        obtain ⟨x, hx, rfl⟩ := (mem_bump hwfD).mp hd
        have hrc := h.rc x hx
        by_cases hcx : x.name = v
        · simp [hcx]; rw [← hcx]; omega
        · have : ¬ v = x.name := fun e => hcx e.symm
          simp [hcx, this]; omega
      | none =>
        simp only [hf] at hd
        have hnone := findDest_none hf
        rcases mem_insertDest.mp hd with rfl | hx
        · have : refs st.atts v = 0 := by
            cases hr : refs st.atts v with
            | zero => rfl
            | succ k =>
              have : 0 < refs st.atts v := by omega
              obtain ⟨a, ha, hav⟩ := refs_pos_iff.mp this
              obtain ⟨x, hx, hxn⟩ := List.mem_map.mp (h.own a ha).2
              exact absurd (hxn.trans hav) (hnone x hx)
          simp [this]
        · have : ¬ v = d.name := fun e => hnone d hx e.symm
          simp [this]; exact h.rc d hx
    · -- ownership
      intro a ha
      simp only [stepOp, List.mem_append, List.mem_singleton] at ha
      simp only [stepOp, openNames]
      rcases ha with ha | rfl
      · have := h.own a ha
        exact ⟨registerType_types_mono st f this.1, openSt_names.mpr (Or.inl this.2)⟩
      · refine ⟨canonT_mem (registerType_registered st f), ?_⟩
        simp only [openSt_snd]; exact openSt_result

theorem inv_fold {st : LogSt} (h : Inv st) (ops : List Op) : Inv (ops.foldl stepOp st) := by
  induction ops generalizing st with
  | nil => exact h
  | cons op ops ih => exact ih (inv_stepOp h op)

/-! ### what the loop leaves in the vectors -/

theorem stepOp_atts_mono {st : LogSt} {op : Op} {a : Att} (h : a ∈ st.atts) : a ∈ (stepOp st op).atts := by
  cases op <;> simp [stepOp, h]

theorem stepOp_names_mono {st : LogSt} {op : Op} {n : Bytes} (h : n ∈ openNames st) :
    n ∈ openNames (stepOp st op) := by
  cases op with
  | reg f => simpa [stepOp, openNames] using h
  | att f s v => simp only [stepOp, openNames]; exact openSt_names.mpr (Or.inl h)

theorem stepOp_types_mono {st : LogSt} {op : Op} {n : Bytes} (h : n ∈ st.types) :
    n ∈ (stepOp st op).types := by
  cases op <;> exact registerType_types_mono st _ h

theorem fold_atts_mono {st : LogSt} {a : Att} (ops : List Op) (h : a ∈ st.atts) :
    a ∈ (ops.foldl stepOp st).atts := by
  induction ops generalizing st with
  | nil => exact h
  | cons op ops ih => exact ih (stepOp_atts_mono h)

theorem fold_names_mono {st : LogSt} {n : Bytes} (ops : List Op) (h : n ∈ openNames st) :
    n ∈ openNames (ops.foldl stepOp st) := by
  induction ops generalizing st with
  | nil => exact h
  | cons op ops ih => exact ih (stepOp_names_mono h)

theorem fold_types_mono {st : LogSt} {n : Bytes} (ops : List Op) (h : n ∈ st.types) :
    n ∈ (ops.foldl stepOp st).types := by
  induction ops generalizing st with
  | nil => exact h
  | cons op ops ih => exact ih (stepOp_types_mono h)

/-- soundness: every slot comes from an attach operation naming exactly that destination, for a
    facility equal up to case to the type's registered name -/
theorem fold_sound {st : LogSt} (ops : List Op) {a : Att} (h : a ∈ (ops.foldl stepOp st).atts) :
    a ∈ st.atts ∨ ∃ f, Op.att f a.sev a.dest ∈ ops ∧ ciEq a.ty f = true := by
  induction ops generalizing st with
  | nil => exact Or.inl h
  | cons op ops ih =>
    rcases ih h with h1 | ⟨f, hm, h2⟩
    · cases op with
      | reg f => left; simpa [stepOp] using h1
      | att f s v =>
        simp only [stepOp, List.mem_append, List.mem_singleton] at h1
        rcases h1 with h1 | rfl
        · exact Or.inl h1
        · right
          refine ⟨f, ?_, canonT_ciEq _ _⟩
          simp only [openSt_snd]; exact List.mem_cons_self ..
    · exact Or.inr ⟨f, List.mem_cons_of_mem _ hm, h2⟩

/-- completeness: every attach operation leaves a slot -/
theorem fold_complete {st : LogSt} (ops : List Op) {f v : Bytes} {s : Nat} (h : Op.att f s v ∈ ops) :
    ∃ a ∈ (ops.foldl stepOp st).atts, ciEq a.ty f = true ∧ a.sev = s ∧ a.dest = v := by
  induction ops generalizing st with
  | nil => simp at h
  | cons op ops ih =>
    rcases List.mem_cons.mp h with rfl | h'
    · refine ⟨⟨canonT (registerType st f).types f, s, (openSt st.dests v).2⟩, ?_, canonT_ciEq _ _, rfl, openSt_snd _ _⟩
      rw [List.foldl_cons]
      apply fold_atts_mono
      simp [stepOp]
    · exact ih h'

/-- a destination that is open after the loop was open before or is a value of the section -/
theorem fold_names_origin {st : LogSt} (ops : List Op) {n : Bytes} (h : n ∈ openNames (ops.foldl stepOp st)) :
    n ∈ openNames st ∨ ∃ f s, Op.att f s n ∈ ops := by
  induction ops generalizing st with
  | nil => exact Or.inl h
  | cons op ops ih =>
    rcases ih h with h1 | ⟨f, s, hm⟩
    · cases op with
      | reg f => left; simpa [stepOp, openNames] using h1
      | att f s v =>
        simp only [stepOp, openNames] at h1
        rcases openSt_names.mp h1 with h2 | ⟨rfl, _⟩
        · exact Or.inl h2
        · exact Or.inr ⟨f, s, List.mem_cons_self ..⟩
    · exact Or.inr ⟨f, s, List.mem_cons_of_mem _ hm⟩

/-! ### log_rescan_conf as a whole -/

theorem openNames_prep (st : LogSt) : openNames (prep st) = openNames st := by
  simp [prep, openNames, List.map_map, Function.comp_def]

theorem inv_prep {st : LogSt} (h : WF st) : Inv (prep st) := by
  refine ⟨⟨h.types, ?_⟩, ?_, ?_⟩
  · rw [openNames_prep]; exact h.dests
  · intro d hd
    simp only [prep, List.mem_map] at hd
    obtain ⟨x, _, rfl⟩ := hd
    simp [prep, refs]
  · intro a ha; simp [prep] at ha

theorem parseKeyFull_ok_lt {k f : Bytes} {S : List Nat} (h : parseKeyFull k = .ok f S) : ∀ s ∈ S, s < 6 := by
  unfold parseKeyFull at h
  split at h
  · simp at h
  · rename_i rest _
    split at h
    · simp at h
    · rename_i S' hS
      simp only [KeyRes.ok.injEq] at h
      rw [← h.2]; exact parseSevs_lt hS

theorem parseKey_eq_some {k f : Bytes} {S : List Nat} : parseKey k = some (f, S) ↔ parseKeyFull k = .ok f S := by
  unfold parseKey
  split <;> simp_all

/-- the attach operations of a section: one per (valid entry, severity of its set, value) -/
theorem mem_sectionOps_att {sec : List Entry} {f v : Bytes} {s : Nat} :
    Op.att f s v ∈ sectionOps sec ↔
      ∃ e ∈ sec, ∃ S, parseKey e.key = some (f, S) ∧ s ∈ S ∧ v ∈ e.values := by
  unfold sectionOps
  rw [List.mem_flatMap]
  constructor
  · rintro ⟨e, he, hop⟩
    refine ⟨e, he, ?_⟩
    unfold entryOps at hop
    split at hop
    · simp at hop
    · simp at hop
    · rename_i f' S hk
      simp only [List.mem_cons, List.mem_flatMap, List.mem_filter, List.mem_range, List.mem_map,
        decide_eq_true_eq] at hop
      rcases hop with hop | ⟨sev, ⟨_, hS⟩, v', hv', heq⟩
      · cases hop
      · cases heq
        exact ⟨S, parseKey_eq_some.mpr hk, hS, hv'⟩
  · rintro ⟨e, he, S, hk, hs, hv⟩
    refine ⟨e, he, ?_⟩
    have hk' := parseKey_eq_some.mp hk
    unfold entryOps
    rw [hk']
    simp only [List.mem_cons, List.mem_flatMap, List.mem_filter, List.mem_range, List.mem_map,
      decide_eq_true_eq]
    right
    exact ⟨s, ⟨parseKeyFull_ok_lt hk' s hs, hs⟩, v, hv, rfl⟩

theorem inv_loop {st : LogSt} (h : WF st) (sec : List Entry) :
    Inv ((sectionOps sec).foldl stepOp (prep st)) := inv_fold (inv_prep h) _

theorem closeSt_atts (st : LogSt) : (closeSt st).atts = st.atts := rfl
theorem closeSt_types (st : LogSt) : (closeSt st).types = st.types := rfl

theorem rescan_atts (st : LogSt) (sec : List Entry) :
    (rescan st sec).atts = ((sectionOps sec).foldl stepOp (prep st)).atts := rfl

theorem rescan_types (st : LogSt) (sec : List Entry) :
    (rescan st sec).types = ((sectionOps sec).foldl stepOp (prep st)).types := rfl

/-- `refcnt` is exactly as coded: (number of vector slots pointing to the destination) − 1, and
    what survives "Close any still-unreferenced destinations" has refcnt ≥ 0 -/
theorem refcnt_spec {st : LogSt} (h : WF st) (sec : List Entry) :
    ∀ d ∈ (rescan st sec).dests,
      d.refcnt + 1 = (refs (rescan st sec).atts d.name : Int) ∧ 0 ≤ d.refcnt := by
  intro d hd
  simp only [rescan, closeSt, List.mem_filter] at hd
  have hinv := inv_loop h sec
  refine ⟨hinv.rc d hd.1, ?_⟩
  have := hd.2
  simp at this; exact this

/-- `open_iff_referenced`: after a rescan a destination is open iff some vector slot points to it -/
theorem open_iff_referenced {st : LogSt} (h : WF st) (sec : List Entry) (n : Bytes) :
    n ∈ openNames (rescan st sec) ↔ ∃ a ∈ (rescan st sec).atts, a.dest = n := by
  have hinv := inv_loop h sec
  rw [rescan_atts]
  simp only [rescan, closeSt, openNames, List.mem_map, List.mem_filter]
  constructor
  · rintro ⟨d, ⟨hd, hrc⟩, rfl⟩
    apply refs_pos_iff.mp
    have h1 := hinv.rc d hd
    simp at hrc
    omega
  · rintro ⟨a, ha, rfl⟩
    obtain ⟨d, hd, hdn⟩ := List.mem_map.mp (hinv.own a ha).2
    refine ⟨d, ⟨hd, ?_⟩, hdn⟩
    have h1 := hinv.rc d hd
    have : 0 < refs ((sectionOps sec).foldl stepOp (prep st)).atts d.name :=
      refs_pos_iff.mpr ⟨a, ha, hdn.symm⟩
    simp; omega

theorem open_iff_in_vector {st : LogSt} (h : WF st) (sec : List Entry) (n : Bytes) :
    n ∈ openNames (rescan st sec) ↔ ∃ ty sev, n ∈ vec (rescan st sec) ty sev := by
  rw [open_iff_referenced h]
  simp only [vec, List.mem_map, List.mem_filter, decide_eq_true_eq]
  constructor
  · rintro ⟨a, ha, rfl⟩; exact ⟨a.ty, a.sev, a, ⟨ha, rfl, rfl⟩, rfl⟩
  · rintro ⟨_, _, a, ⟨ha, _⟩, rfl⟩; exact ⟨a, ha, rfl⟩

theorem wf_rescan {st : LogSt} (h : WF st) (sec : List Entry) : WF (rescan st sec) := by
  have hinv := inv_loop h sec
  refine ⟨hinv.wf.types, ?_⟩
  have hsub : List.Sublist (openNames (rescan st sec)) (openNames ((sectionOps sec).foldl stepOp (prep st))) := by
    simp only [rescan, closeSt, openNames]
    exact List.Sublist.map _ List.filter_sublist
  exact List.Nodup.sublist hsub hinv.wf.dests

theorem wf_init : WF init := by
  constructor
  · simp only [init, NoDupCI]; decide
  · simp [init, openNames]

theorem wf_registerType {st : LogSt} (h : WF st) (f : Bytes) : WF (registerType st f) :=
  ⟨registerType_noDup st f h.types, by simpa [openNames] using h.dests⟩

theorem inv_rescan {st : LogSt} (h : WF st) (sec : List Entry) : Inv (rescan st sec) := by
  have hinvL := inv_loop h sec
  refine ⟨wf_rescan h sec, fun d hd => (refcnt_spec h sec d hd).1, ?_⟩
  intro a ha
  exact ⟨(hinvL.own a ha).1, (open_iff_referenced h sec a.dest).mpr ⟨a, ha, rfl⟩⟩

theorem mem_vec {st : LogSt} {ty d : Bytes} {sev : Nat} :
    d ∈ vec st ty sev ↔ ∃ a ∈ st.atts, a.ty = ty ∧ a.sev = sev ∧ a.dest = d := by
  simp only [vec, List.mem_map, List.mem_filter, decide_eq_true_eq]
  constructor
  · rintro ⟨a, ⟨ha, h1, h2⟩, rfl⟩; exact ⟨a, ha, h1, h2, rfl⟩
  · rintro ⟨a, ha, h1, h2, rfl⟩; exact ⟨a, ⟨ha, h1, h2⟩, rfl⟩

/-- the vector of the type a facility name resolves to -/
theorem mem_vec_canon {st : LogSt} (hinv : Inv st) {fac d : Bytes} {sev : Nat} :
    d ∈ vec st (canonT st.types fac) sev ↔
      ∃ a ∈ st.atts, ciEq a.ty fac = true ∧ a.sev = sev ∧ a.dest = d := by
  rw [mem_vec]
  constructor
  · rintro ⟨a, ha, h1, h2, h3⟩
    exact ⟨a, ha, by rw [h1]; exact canonT_ciEq _ _, h2, h3⟩
  · rintro ⟨a, ha, h1, h2, h3⟩
    exact ⟨a, ha, (canonT_unique hinv.wf.types (hinv.own a ha).1 h1).symm, h2, h3⟩

theorem ciEq_star {f : Bytes} : ciEq f bStar = true ↔ f = bStar := by
  constructor
  · intro h
    rw [ciEq_iff] at h
    cases f with
    | nil => simp [bStar] at h
    | cons c cs =>
      cases cs with
      | cons _ _ => simp [bStar] at h
      | nil =>
        simp only [bStar, List.map_cons, List.map_nil, List.cons.injEq, and_true] at h
        have h42 : Bytes.lower 42 = 42 := by decide
        rw [h42] at h
        have : c = 42 := by
          unfold Bytes.lower at h
          split at h
          · rename_i hc
            have := congrArg UInt8.toNat h
            rw [UInt8.toNat_add] at this
            have e1 : (32 : UInt8).toNat = 32 := rfl
            have e2 : (42 : UInt8).toNat = 42 := rfl
            omega
          · exact h
        rw [this]; rfl
  · rintro rfl; exact ciEq_refl _

/-- `C18_route`.  After a rescan, a message of facility `fac` and severity `sev` is written to
    destination `d` exactly when some entry of the section has a key that parses to `(f, S)` with
    `f ≃ fac` or `f = "*"`, `sev ∈ S`, and `d` among its values — whatever the state before. -/
theorem C18_route {st : LogSt} (h : WF st) (sec : List Entry) (fac d : Bytes) (sev : Nat) :
    d ∈ dests (rescan st sec) fac sev ↔
      ∃ e ∈ sec, ∃ f S, parseKey e.key = some (f, S) ∧ (ciEq f fac = true ∨ f = bStar) ∧ sev ∈ S ∧
        d ∈ e.values := by
  have hinv := inv_rescan h sec
  have key : ∀ g : Bytes, d ∈ vec (rescan st sec) (canonT (rescan st sec).types g) sev ↔
      ∃ e ∈ sec, ∃ f S, parseKey e.key = some (f, S) ∧ ciEq f g = true ∧ sev ∈ S ∧ d ∈ e.values := by
    intro g
    rw [mem_vec_canon hinv]
    constructor
    · rintro ⟨a, ha, h1, h2, rfl⟩
      rcases fold_sound (sectionOps sec) ha with h0 | ⟨f, hm, hf⟩
      · simp [prep] at h0
      · obtain ⟨e, he, S, hk, hs, hv'⟩ := mem_sectionOps_att.mp hm
        exact ⟨e, he, f, S, hk, ciEq_trans (ciEq_symm hf) h1, h2 ▸ hs, hv'⟩
    · rintro ⟨e, he, f, S, hk, hf, hs, hv⟩
      have hm : Op.att f sev d ∈ sectionOps sec := mem_sectionOps_att.mpr ⟨e, he, S, hk, hs, hv⟩
      obtain ⟨a, ha, h1, h2, h3⟩ := fold_complete (st := prep st) (sectionOps sec) hm
      exact ⟨a, ha, ciEq_trans h1 hf, h2, h3⟩
  unfold dests
  rw [List.mem_append, key fac, key bStar]
  constructor
  · rintro (⟨e, he, f, S, hk, hf, r⟩ | ⟨e, he, f, S, hk, hf, r⟩)
    · exact ⟨e, he, f, S, hk, Or.inl hf, r⟩
    · exact ⟨e, he, f, S, hk, Or.inr (ciEq_star.mp hf), r⟩
  · rintro ⟨e, he, f, S, hk, hf | hf, r⟩
    · exact Or.inl ⟨e, he, f, S, hk, hf, r⟩
    · exact Or.inr ⟨e, he, f, S, hk, by rw [hf]; exact ciEq_refl _, r⟩

/-- the open destinations after a rescan: the values of the entries that parse to a non-empty
    severity set -/
theorem open_exact {st : LogSt} (h : WF st) (sec : List Entry) (n : Bytes) :
    n ∈ openNames (rescan st sec) ↔
      ∃ e ∈ sec, ∃ f S, parseKey e.key = some (f, S) ∧ S ≠ [] ∧ n ∈ e.values := by
  constructor
  · intro hn
    obtain ⟨a, ha, rfl⟩ := (open_iff_referenced h sec n).mp hn
    rcases fold_sound (sectionOps sec) ha with h0 | ⟨f, hm, _⟩
    · simp [prep] at h0
    · obtain ⟨e, he, S, hk, hs, hv'⟩ := mem_sectionOps_att.mp hm
      exact ⟨e, he, f, S, hk, List.ne_nil_of_mem hs, hv'⟩
  · rintro ⟨e, he, f, S, hk, hS, hv⟩
    obtain ⟨s, hs⟩ := List.exists_mem_of_ne_nil S hS
    have hm : Op.att f s n ∈ sectionOps sec := mem_sectionOps_att.mpr ⟨e, he, S, hk, hs, hv⟩
    obtain ⟨a, ha, _, _, h3⟩ := fold_complete (st := prep st) (sectionOps sec) hm
    exact (open_iff_referenced h sec n).mpr ⟨a, ha, h3⟩

/-- `rescan_history_free`: routing and open set after a rescan are those of the section,
    whatever the state before -/
theorem rescan_history_free {st1 st2 : LogSt} (h1 : WF st1) (h2 : WF st2) (sec : List Entry) :
    (∀ fac sev d, d ∈ dests (rescan st1 sec) fac sev ↔ d ∈ dests (rescan st2 sec) fac sev) ∧
    (∀ n, n ∈ openNames (rescan st1 sec) ↔ n ∈ openNames (rescan st2 sec)) := by
  constructor
  · intro fac sev d; rw [C18_route h1, C18_route h2]
  · intro n; rw [open_exact h1, open_exact h2]

/-! ### with multiplicity and order -/

/-- the values the section attaches for facility name `g` and severity `sev`, in the order of the
    rescan, with repetitions -/
def routed (ops : List Op) (g : Bytes) (sev : Nat) : List Bytes :=
  ops.filterMap (fun op => match op with
    | .att f s v => if ciEq f g && decide (s = sev) then some v else none
    | .reg _ => none)

/-- the slot an attach operation leaves, given the final type table -/
def slotOf (types : List Bytes) : Op → Option Att
  | .att f s v => some ⟨canonT types f, s, v⟩
  | .reg _ => none

theorem fold_atts_exact (ops : List Op) : ∀ {st : LogSt}, Inv st →
    (ops.foldl stepOp st).atts = st.atts ++ ops.filterMap (slotOf (ops.foldl stepOp st).types) := by
  induction ops with
  | nil => intro st _; simp
  | cons op ops ih =>
    intro st hinv
    have hinv1 := inv_stepOp hinv op
    rw [List.foldl_cons, ih hinv1]
    cases op with
    | reg f => simp [List.filterMap_cons, slotOf]
    | att f s v =>
      have hF := inv_fold hinv1 ops
      have hmem : canonT (registerType st f).types f ∈ (ops.foldl stepOp (stepOp st (.att f s v))).types :=
        fold_types_mono ops (canonT_mem (registerType_registered st f))
      have hcan : canonT (ops.foldl stepOp (stepOp st (.att f s v))).types f = canonT (registerType st f).types f :=
        canonT_unique hF.wf.types hmem (canonT_ciEq _ _)
      simp only [List.filterMap_cons, slotOf, hcan]
      simp [stepOp, openSt_snd]

theorem fold_registered {st : LogSt} (hinv : Inv st) (ops : List Op) {f v : Bytes} {s : Nat}
    (h : Op.att f s v ∈ ops) : ∃ n ∈ (ops.foldl stepOp st).types, ciEq n f = true := by
  obtain ⟨a, ha, h1, _, _⟩ := fold_complete (st := st) ops h
  exact ⟨a.ty, ((inv_fold hinv ops).own a ha).1, h1⟩

theorem vec_slots {types : List Bytes} (hw : NoDupCI types) (g : Bytes) (sev : Nat) :
    ∀ l : List Op, (∀ f s v, Op.att f s v ∈ l → ∃ n ∈ types, ciEq n f = true) →
      (((l.filterMap (slotOf types)).filter (fun a => decide (a.ty = canonT types g ∧ a.sev = sev))).map (·.dest))
        = routed l g sev
  | [], _ => rfl
  | op :: l, h => by
    have ih := vec_slots hw g sev l (fun f s v hm => h f s v (List.mem_cons_of_mem _ hm))
    cases op with
    | reg f => simpa [List.filterMap_cons, slotOf, routed] using ih
    | att f s v =>
      have hreg := h f s v (List.mem_cons_self ..)
      have hiff : canonT types f = canonT types g ↔ ciEq f g = true := by
        constructor
        · intro e
          exact ciEq_trans (ciEq_symm (canonT_ciEq types f)) (e ▸ canonT_ciEq types g)
        · intro e
          exact (canonT_unique hw (canonT_mem hreg) (ciEq_trans (canonT_ciEq types f) e)).symm
      simp only [List.filterMap_cons, slotOf, routed]
      by_cases hc : ciEq f g = true ∧ s = sev
      · have h1 : canonT types f = canonT types g ∧ s = sev := ⟨hiff.mpr hc.1, hc.2⟩
        simp only [List.filter_cons, h1, hc, and_self, decide_true, if_true, List.map_cons, Bool.and_self]
        rw [ih]; rfl
      · have h1 : ¬ (canonT types f = canonT types g ∧ s = sev) := fun h' => hc ⟨hiff.mp h'.1, h'.2⟩
        have h2 : (ciEq f g && decide (s = sev)) = false := by
          cases hcf : ciEq f g <;> simp_all
        simp only [List.filter_cons, h1, decide_false, Bool.false_eq_true, if_false, h2]
        rw [ih]; rfl

/-- `dests_exact`: the destinations of a (facility, severity) after a rescan, as a LIST — order
    and repetitions included: what the section attaches for that facility, then what it attaches
    for `*`.  (A destination named twice is written twice; a message of facility `*` is written
    to every `*` destination twice.) -/
theorem dests_exact {st : LogSt} (h : WF st) (sec : List Entry) (fac : Bytes) (sev : Nat) :
    dests (rescan st sec) fac sev =
      routed (sectionOps sec) fac sev ++ routed (sectionOps sec) bStar sev := by
  have hinv0 := inv_prep h
  have hF := inv_loop h sec
  have hatts : (rescan st sec).atts =
      (sectionOps sec).filterMap (slotOf (rescan st sec).types) := by
    rw [rescan_atts, rescan_types, fold_atts_exact _ hinv0]
    simp [prep]
  have hreg : ∀ f s v, Op.att f s v ∈ sectionOps sec → ∃ n ∈ (rescan st sec).types, ciEq n f = true :=
    fun f s v hm => fold_registered hinv0 _ hm
  have hw : NoDupCI (rescan st sec).types := hF.wf.types
  unfold dests vec
  rw [hatts]
  rw [vec_slots hw fac sev _ hreg, vec_slots hw bStar sev _ hreg]

/-! ### the pinned snapshot and destination names that differ only in letter case

  On snapshot 647fb5c the destination set was keyed with strcasecmp (`rescanPinned`).  These two
  kernel-checked evaluations are why the comparator was changed. -/

/-- `a.error` → "X", `a.info` → "x" (set order of the two children: a.error, a.info) -/
def aliasSec : List Entry :=
  [⟨[97, 46, 101, 114, 114, 111, 114], [[88]]⟩, ⟨[97, 46, 105, 110, 102, 111], [[120]]⟩]

/-- within ONE section, pinned code: the `info` messages of facility `a` go to the destination
    object opened as "X"; "x" is never opened — although the section (and the specification) say
    "x".  The repaired code routes them to "x". -/
theorem alias_same_section_witness :
    dests (rescanPinned init aliasSec) [97] sevInfo = [[88]] ∧
    openNames (rescanPinned init aliasSec) = [[88]] ∧
    Spec.routes aliasSec [97] sevInfo [120] = true ∧
    Spec.routes aliasSec [97] sevInfo [88] = false ∧
    dests (rescan init aliasSec) [97] sevInfo = [[120]] := by decide

def secUpper : List Entry := [⟨[97, 46, 105, 110, 102, 111], [[88]]⟩]   -- a.info → "X"
def secLower : List Entry := [⟨[97, 46, 105, 110, 102, 111], [[120]]⟩]  -- a.info → "x"

/-- across a reload, pinned code: the same new section routes differently depending on what was
    open before; the repaired code does not. -/
theorem alias_history_witness :
    dests (rescanPinned (rescanPinned init secUpper) secLower) [97] sevInfo = [[88]] ∧
    dests (rescanPinned init secLower) [97] sevInfo = [[120]] ∧
    dests (rescan (rescan init secUpper) secLower) [97] sevInfo = [[120]] := by decide

/-! ## D. the effectful walk computes the same state -/

theorem Run.log_st (r : Run) (fac : Bytes) (sev : Nat) (m : Bytes) : (r.log fac sev m).st = r.st := by
  unfold Run.log; split <;> rfl

theorem Run.log_exit_of_some {r : Run} (h : r.exit.isSome = true) (fac : Bytes) (sev : Nat) (m : Bytes) :
    r.log fac sev m = r := by
  unfold Run.log; simp [h]

theorem Run.log_exit_none {r : Run} (h : r.exit = none) (fac : Bytes) {sev : Nat} (m : Bytes)
    (hs : sev ≠ sevFatal) : (r.log fac sev m).exit = none := by
  unfold Run.log; simp [h, hs]

theorem Run.log_fatal_exit {r : Run} (h : r.exit = none) (fac : Bytes) (m : Bytes) :
    (r.log fac sevFatal m).exit = some 1 := by
  unfold Run.log; simp [h]

theorem stepOpR_of_exit {co : Bytes → Bool} {r : Run} (h : r.exit.isSome = true) (op : Op) :
    stepOpR co r op = r := by
  unfold stepOpR; simp [h]

theorem foldR_of_exit {co : Bytes → Bool} {r : Run} (h : r.exit.isSome = true) (ops : List Op) :
    ops.foldl (stepOpR co) r = r := by
  induction ops with
  | nil => rfl
  | cons op ops ih => rw [List.foldl_cons, stepOpR_of_exit h, ih]

theorem stepOpR_state {co : Bytes → Bool} {r : Run} {op : Op} (h : (stepOpR co r op).exit = none) :
    (stepOpR co r op).st = stepOp r.st op := by
  unfold stepOpR at h ⊢
  cases hr : r.exit with
  | some n => simp [hr] at h
  | none =>
    simp only [hr, Option.isSome_none, Bool.false_eq_true, if_false] at h ⊢
    cases op with
    | reg f => rfl
    | att f sev v =>
      simp only [] at h ⊢
      split at h
      · rename_i m _
        have h1 := Run.log_exit_none hr bCore (attachingMsg v (canonT (registerType r.st f).types f) sev)
          (show sevInfo ≠ sevFatal by decide)
        rw [Run.log_fatal_exit h1] at h; exact absurd h (by simp)
      · simp only [Run.log_st]
      · simp only [Run.log_st]

theorem foldR_state {co : Bytes → Bool} (ops : List Op) {r : Run}
    (h : (ops.foldl (stepOpR co) r).exit = none) :
    (ops.foldl (stepOpR co) r).st = ops.foldl stepOp r.st := by
  induction ops generalizing r with
  | nil => rfl
  | cons op ops ih =>
    rw [List.foldl_cons] at h ⊢
    cases he : (stepOpR co r op).exit with
    | some n =>
      rw [foldR_of_exit (by simp [he])] at h
      rw [he] at h; exact absurd h (by simp)
    | none => rw [ih h, stepOpR_state he]; rfl

theorem closeR_state (r : Run) : (closeR r).exit = none → (closeR r).st = closeSt r.st := by
  unfold closeR
  split
  · rename_i h; intro h2; cases hr : r.exit <;> simp_all
  · intro _; rfl

theorem closeR_exit (r : Run) : (closeR r).exit = r.exit := by
  unfold closeR; split <;> rfl

/-- `rescanR_state`: when log_rescan_conf comes back (no LOG_FATAL), the tables are `rescan` -/
theorem rescanR_state {co : Bytes → Bool} {r : Run} {sec : List Entry}
    (h : (rescanR co r sec).exit = none) : (rescanR co r sec).st = rescan r.st sec := by
  unfold rescanR at h ⊢
  cases hr : r.exit with
  | some n => simp [hr] at h
  | none =>
    simp only [hr, Option.isSome_none, Bool.false_eq_true, if_false] at h ⊢
    rw [closeR_state _ h]
    rw [closeR_exit] at h
    rw [foldR_state _ h]
    rfl

/-- a destination name log_destination_open can open: `file:<path>` (method in any case, shorter
    than the 32-byte buffer) with a path fopen accepts.  This is assumption F25. -/
def Openable (co : Bytes → Bool) (v : Bytes) : Prop :=
  ∃ p, (splitAtByte 58 v).2 = some p ∧ (splitAtByte 58 v).1.length < 32 ∧
    ciEq (splitAtByte 58 v).1 bFile = true ∧ co p = true

theorem openCheck_ok {co : Bytes → Bool} {v : Bytes} (h : Openable co v) (ds : List Dest) :
    openCheck co ds v = .existing ∨ ∃ p, openCheck co ds v = .fresh p := by
  obtain ⟨p, h1, h2, h3, h4⟩ := h
  unfold openCheck
  cases findDest ds v with
  | some d => left; rfl
  | none =>
    right
    refine ⟨p, ?_⟩
    simp only [h1]
    have : ¬ (splitAtByte 58 v).1.length ≥ 32 := by omega
    simp [this, h3, h4]

theorem stepOpR_alive {co : Bytes → Bool} {r : Run} (hr : r.exit = none) {op : Op}
    (hop : ∀ f s v, op = Op.att f s v → Openable co v) : (stepOpR co r op).exit = none := by
  unfold stepOpR
  simp only [hr, Option.isSome_none, Bool.false_eq_true, if_false]
  cases op with
  | reg f => rfl
  | att f sev v =>
    simp only []
    have h1 := Run.log_exit_none hr bCore (attachingMsg v (canonT (registerType r.st f).types f) sev)
      (show sevInfo ≠ sevFatal by decide)
    rcases openCheck_ok (hop f sev v rfl) (r.log bCore sevInfo (attachingMsg v (canonT (registerType r.st f).types f) sev)).st.dests with h | ⟨p, h⟩
    · rw [h]; exact h1
    · rw [h]; exact h1

theorem foldR_alive {co : Bytes → Bool} (ops : List Op) {r : Run} (hr : r.exit = none)
    (hop : ∀ f s v, Op.att f s v ∈ ops → Openable co v) : (ops.foldl (stepOpR co) r).exit = none := by
  induction ops generalizing r with
  | nil => exact hr
  | cons op ops ih =>
    rw [List.foldl_cons]
    apply ih
    · exact stepOpR_alive hr (fun f s v e => hop f s v (by rw [e]; exact List.mem_cons_self ..))
    · intro f s v hm; exact hop f s v (List.mem_cons_of_mem _ hm)

/-- `rescanR_alive_of_openable`: under F25 (every value of the section can be opened) a rescan
    never ends in LOG_FATAL -/
theorem rescanR_alive_of_openable {co : Bytes → Bool} {r : Run} (hr : r.exit = none) {sec : List Entry}
    (h : ∀ e ∈ sec, ∀ v ∈ e.values, Openable co v) : (rescanR co r sec).exit = none := by
  unfold rescanR
  simp only [hr, Option.isSome_none, Bool.false_eq_true, if_false]
  rw [closeR_exit]
  apply foldR_alive
  · rfl
  · intro f s v hm
    obtain ⟨e, he, _, _, _, hv⟩ := mem_sectionOps_att.mp hm
    exact h e he v hv

/-! ## E. lines -/

/-- `line_complete`: every record a message leaves in a file is
    `(<facility as registered>:<severity name>) <message>`, the registered facility being the
    message's own facility up to letter case, the severity the message's own, the text the
    message's own (cut at 1023 bytes by the 1024-byte format buffer). -/
theorem line_complete (st : LogSt) (fac : Bytes) (sev : Nat) (m : Bytes) :
    ∀ p ∈ emit st fac sev m,
      p.1 ∈ dests st fac sev ∧
      p.2 = [40] ++ canonT st.types fac ++ [58] ++ sevName sev ++ [41, 32] ++ m.take 1023 ∧
      ciEq (canonT st.types fac) fac = true := by
  intro p hp
  simp only [emit, List.mem_map] at hp
  obtain ⟨d, hd, rfl⟩ := hp
  exact ⟨hd, rfl, canonT_ciEq _ _⟩

theorem emit_dests (st : LogSt) (fac : Bytes) (sev : Nat) (m : Bytes) :
    (emit st fac sev m).map (·.1) = dests st fac sev := by
  simp [emit, List.map_map, Function.comp_def]

/-- `console_silent` (for C09): at verbosity 0 nothing is echoed to stdout -/
theorem console_silent (st : LogSt) (h : st.verbosity = 0) (fac : Bytes) (sev : Nat) (m : Bytes) :
    consoleEcho st fac sev m = [] ∧ ∀ ev ∈ logEvs st fac sev m, ∀ t, ev ≠ Ev.console t := by
  have : consoleEcho st fac sev m = [] := by simp [consoleEcho, h]
  refine ⟨this, ?_⟩
  intro ev hev t
  simp only [logEvs, this, List.map_nil, List.append_nil, List.mem_map] at hev
  obtain ⟨p, _, rfl⟩ := hev
  simp

end Iauthd.Log
