import Iauthd.Log.Spec
/-
  Proofs about the Log model (all inputs, no sampling):
    A. `ciEq` is an equivalence and agrees with `strcasecmp(..) == 0` on C strings
    B. log_parse_type_sevset: `sevset_spec`, `applyOp_spec`, `parseKey_spec`
    C. log_rescan_conf: invariants, `refcnt_spec`, `open_iff_referenced`, `C18_route`,
       `rescan_history_free`, counterexamples for destination names differing only in case
    D. the effectful walk `rescanR` computes the same state; when it stays alive
    E. `line_complete`, `console_silent`
  (the hook-delivery layer is in ProofsLoad.lean)
-/
namespace Iauthd.Log
open Iauthd

/-! ## A. case-insensitive equality -/

theorem ciEq_iff {a b : Bytes} : ciEq a b = true ↔ a.map Bytes.lower = b.map Bytes.lower := by
  simp [ciEq]

theorem ciEq_refl (a : Bytes) : ciEq a a = true := by simp [ciEq]

theorem ciEq_symm {a b : Bytes} (h : ciEq a b = true) : ciEq b a = true := by
  rw [ciEq_iff] at *; exact h.symm

theorem ciEq_comm (a b : Bytes) : ciEq a b = ciEq b a := by
  cases h : ciEq a b with
  | true => exact (ciEq_symm h).symm
  | false =>
    cases h' : ciEq b a with
    | false => rfl
    | true => rw [ciEq_symm h'] at h; exact absurd h (by simp)

theorem ciEq_trans {a b c : Bytes} (h1 : ciEq a b = true) (h2 : ciEq b c = true) : ciEq a c = true := by
  rw [ciEq_iff] at *; exact h1.trans h2

theorem ciEq_eq_sameNoCase (a b : Bytes) : ciEq a b = Spec.sameNoCase a b := rfl

theorem lower_toNat_ne_zero {c : UInt8} (h : c ≠ 0) : (Bytes.lower c).toNat ≠ 0 := by
  unfold Bytes.lower
  split
  · rename_i hc
    rw [UInt8.toNat_add]
    have : (32 : UInt8).toNat = 32 := rfl
    omega
  · intro h0
    apply h
    exact UInt8.toNat_inj.mp (by simpa using h0)

/-- the model's `ciEq` is `strcasecmp(a, b) == 0` on NUL-free byte lists (C strings) -/
theorem ciEq_eq_strcasecmp : ∀ (a b : Bytes), (0 : UInt8) ∉ a → (0 : UInt8) ∉ b →
    ciEq a b = decide (Bytes.strcasecmp a b = 0)
  | [], [], _, _ => by simp [ciEq, Bytes.strcasecmp]
  | [], y :: ys, _, hb => by
    have hy : y ≠ 0 := fun h => hb (by simp [h])
    have := lower_toNat_ne_zero hy
    simp [ciEq, Bytes.strcasecmp]; omega
  | x :: xs, [], ha, _ => by
    have hx : x ≠ 0 := fun h => ha (by simp [h])
    have := lower_toNat_ne_zero hx
    simp [ciEq, Bytes.strcasecmp]; omega
  | x :: xs, y :: ys, ha, hb => by
    have ih := ciEq_eq_strcasecmp xs ys (fun h => ha (by simp [h])) (fun h => hb (by simp [h]))
    unfold Bytes.strcasecmp
    by_cases hxy : Bytes.lower x = Bytes.lower y
    · simp only [hxy, beq_self_eq_true, if_true]
      rw [← ih]
      simp [ciEq, hxy]
    · have hne : (Bytes.lower x == Bytes.lower y) = false := by simpa using hxy
      simp only [hne]
      have hn : (Bytes.lower x).toNat ≠ (Bytes.lower y).toNat := fun h => hxy (UInt8.toNat_inj.mp h)
      simp [ciEq, hxy]
      omega

/-! ## B. log_parse_type_sevset -/

theorem splitAtByte_snd_none {c : UInt8} : ∀ {s : Bytes}, (splitAtByte c s).2 = none → (splitAtByte c s).1 = s
  | [], _ => rfl
  | x :: xs, h => by
    unfold splitAtByte at h ⊢
    by_cases hx : x = c
    · simp [hx] at h
    · simp only [hx, if_false] at h ⊢
      rw [splitAtByte_snd_none h]

theorem splitAtByte_snd_some_length {c : UInt8} : ∀ {s r : Bytes}, (splitAtByte c s).2 = some r → r.length < s.length
  | [], r, h => by simp [splitAtByte] at h
  | x :: xs, r, h => by
    unfold splitAtByte at h
    by_cases hx : x = c
    · simp only [hx, if_true, Option.some.injEq] at h
      subst h; simp
    · simp only [hx, if_false] at h
      have := splitAtByte_snd_some_length h
      simp; omega

theorem splitFirst_eq (c : UInt8) : ∀ s : Bytes,
    Spec.splitFirst c s =
      match (splitAtByte c s).2 with
      | some r => some ((splitAtByte c s).1, r)
      | none => none
  | [] => rfl
  | x :: xs => by
    unfold Spec.splitFirst splitAtByte
    by_cases hx : x = c
    · simp [hx]
    · simp only [hx, if_false]
      rw [splitFirst_eq c xs]
      cases (splitAtByte c xs).2 <;> rfl

theorem splitOn_ne_nil (c : UInt8) : ∀ s : Bytes, ∃ h t, Spec.splitOn c s = h :: t
  | [] => ⟨[], [], rfl⟩
  | x :: xs => by
    by_cases hx : x = c
    · exact ⟨[], Spec.splitOn c xs, by simp only [Spec.splitOn, hx, if_true]⟩
    · obtain ⟨h, t, ht⟩ := splitOn_ne_nil c xs
      exact ⟨x :: h, t, by simp only [Spec.splitOn, hx, if_false, ht]⟩

theorem splitOn_eq (c : UInt8) : ∀ s : Bytes,
    Spec.splitOn c s = (splitAtByte c s).1 ::
      (match (splitAtByte c s).2 with
       | none => []
       | some r => Spec.splitOn c r)
  | [] => rfl
  | x :: xs => by
    by_cases hx : x = c
    · simp only [Spec.splitOn, splitAtByte, hx, if_true]
    · simp only [Spec.splitOn, splitAtByte, hx, if_false]
      rw [splitOn_eq c xs]

theorem sevNames_eq : sevNames = Spec.severityNames := rfl

theorem sevLookupFrom_spec : ∀ (ns : List Bytes) (i : Nat) (name : Bytes),
    sevLookupFrom ns i name =
      match Spec.sevIndexFrom ns i name with
      | some k => k
      | none => i + ns.length
  | [], i, name => by simp [sevLookupFrom, Spec.sevIndexFrom]
  | n :: ns, i, name => by
    unfold sevLookupFrom Spec.sevIndexFrom
    rw [← ciEq_eq_sameNoCase]
    cases h : ciEq name n with
    | true => simp
    | false =>
      simp only [Bool.false_eq_true, if_false]
      rw [sevLookupFrom_spec ns (i + 1) name]
      cases Spec.sevIndexFrom ns (i + 1) name with
      | some k => rfl
      | none => simp only [List.length_cons]; omega

theorem sevIndexFrom_bounds : ∀ (ns : List Bytes) (i : Nat) (name : Bytes) (k : Nat),
    Spec.sevIndexFrom ns i name = some k → i ≤ k ∧ k < i + ns.length
  | [], i, name, k, h => by simp [Spec.sevIndexFrom] at h
  | n :: ns, i, name, k, h => by
    unfold Spec.sevIndexFrom at h
    by_cases hc : Spec.sameNoCase name n = true
    · simp [hc] at h; subst h; simp
    · simp only [hc] at h
      have := sevIndexFrom_bounds ns (i + 1) name k h
      simp; omega

theorem sevIndex_lt {name : Bytes} {k : Nat} (h : Spec.sevIndex name = some k) : k < 6 := by
  have := sevIndexFrom_bounds _ _ _ _ h
  simp [Spec.severityNames] at this; omega

theorem sevLookup_spec (name : Bytes) :
    sevLookup name = match Spec.sevIndex name with
      | some k => k
      | none => 6 := by
  unfold sevLookup Spec.sevIndex
  rw [sevNames_eq, sevLookupFrom_spec]
  cases Spec.sevIndexFrom Spec.severityNames 0 name <;> simp [Spec.severityNames]

/-- operator numbers of the C code as relations -/
def relOfOp : Nat → Spec.Rel
  | 0 => .eq
  | 1 => .ge
  | 2 => .gt
  | 3 => .le
  | _ => .lt

theorem stripOp_eq (s : Bytes) : Spec.stripOp s = (relOfOp (splitOp s).1, (splitOp s).2) := by
  unfold Spec.stripOp splitOp
  split
  · simp [relOfOp]
  · rename_i r hr
    cases r with
    | nil => simp [relOfOp]
    | cons d r' =>
      have : d ≠ 61 := fun h => hr r' (by rw [h])
      simp [this, relOfOp]
  · simp [relOfOp]
  · rename_i r hr
    cases r with
    | nil => simp [relOfOp]
    | cons d r' =>
      have : d ≠ 61 := fun h => hr r' (by rw [h])
      simp [this, relOfOp]
  · simp [relOfOp]
  · rename_i h62 h60 h61
    cases s with
    | nil => simp [relOfOp]
    | cons c r =>
      have a : c ≠ 62 := fun h => h62 r (by rw [h])
      have b : c ≠ 60 := fun h => h60 r (by rw [h])
      have d : c ≠ 61 := fun h => h61 r (by rw [h])
      simp [a, b, d, relOfOp]

end Iauthd.Log
