import Iauthd.Util.Bytes
/-
  Model of src/log.c as driven by the `logs` object of src/config.c.

  What is mirrored, function by function:
    * `parseSevs`, `parseKeyFull`        = log_parse_type_sevset (the strchr / `*sep++ = 0` loop,
                                           operator prefixes, strcasecmp name look-up, res = 1 / 3 / 0,
                                           the facility is registered *before* the severity text is looked at);
    * `registerType`                     = log_type_register(name, NULL)  (every caller in the tree passes
                                           a NULL default target, so default targets are not modelled);
    * `openSt` / `openCheck`             = log_destination_open (look-up in the destination set by
                                           exact name, `refcnt++` on a hit, vtable look-up, fopen);
    * `stepOp`, `entryOps`               = the body of the child loop of log_rescan_conf with
                                           log_attach_destinations (string: one value; list: each element);
    * `prep`, `closeSt`, `rescan`        = log_rescan_conf: refcnt = -1, `used = 0`, walk, "close still
                                           unreferenced";
    * `emit`, `consoleEcho`, `logEvs`    = log_vmessage + log_file_log (1024-byte buffer, own vector then the
                                           `*` type's vector, console echo by log_verbosity);
    * `stepOpR`, `rescanR`               = the same walk with what it *writes* on the way (the
                                           "Attaching …" / "Releasing …" messages are routed through the
                                           half-built tables) and with LOG_FATAL = process exit;
    * `walk`, `load`                     = conf_replace_value on the `logs` object: sorted two-pointer merge,
                                           per-child hooks fired *during* the merge, object hook at the end
                                           when a child was spliced or deleted.

  Representation.  The six `log_destination_vector`s of every `log_type` are kept as one
  attachment log `atts` (type name as registered, severity, destination name as stored in the
  destination set) in append order; `vec st ty sev` is the vector.  `used = 0` on all vectors is
  `atts := []`.  Sets are association lists looked up with the comparator's equality (C19's
  refinement theorem is what licenses this): `ciEq` for log_types and log_vtables
  (set_compare_charp = strcasecmp), exact equality for log_destinations (log_destination_cmp =
  strcmp); the destination set is kept in comparator order because log_rescan_conf iterates over
  it when closing.
-/
namespace Iauthd.Log
open Iauthd

/-- `strcasecmp(a, b) == 0` for C strings: equal after C-locale `tolower` of every byte.
    (`ciEq_eq_strcasecmp` in Proofs.lean: for NUL-free lists this is `Bytes.strcasecmp a b = 0`.) -/
def ciEq (a b : Bytes) : Bool := decide (a.map Bytes.lower = b.map Bytes.lower)

/-! ### constants (explicit bytes so that the kernel can evaluate the model) -/

def bCore : Bytes := [99, 111, 114, 101]  -- 'core'
def bStar : Bytes := [42]  -- '*'
def bConfig : Bytes := [99, 111, 110, 102, 105, 103]  -- 'config'
def bFile : Bytes := [102, 105, 108, 101]  -- 'file'
def bTrue : Bytes := [116, 114, 117, 101]  -- 'true'
def bVts : Bytes := [118, 101, 114, 98, 111, 115, 101, 95, 116, 105, 109, 101, 115, 116, 97, 109, 112]  -- 'verbose_timestamp'
def bAttaching : Bytes := [65, 116, 116, 97, 99, 104, 105, 110, 103, 32]  -- 'Attaching '
def bTo : Bytes := [32, 116, 111, 32]  -- ' to '
def bReleasing : Bytes := [82, 101, 108, 101, 97, 115, 105, 110, 103, 32, 117, 110, 114, 101, 102, 101, 114, 101, 110, 99, 101, 100, 32, 108, 111, 103, 32, 100, 101, 115, 116, 105, 110, 97, 116, 105, 111, 110, 32]  -- 'Releasing unreferenced log destination '
def bAfterRescan : Bytes := [32, 97, 102, 116, 101, 114, 32, 99, 111, 110, 102, 105, 103, 32, 114, 101, 115, 99, 97, 110, 46]  -- ' after config rescan.'
def bOverlongIn : Bytes := [79, 118, 101, 114, 108, 111, 110, 103, 32, 118, 116, 97, 98, 108, 101, 32, 116, 121, 112, 101, 32, 105, 110, 32]  -- 'Overlong vtable type in '
def bOverlong : Bytes := [79, 118, 101, 114, 108, 111, 110, 103, 32, 118, 116, 97, 98, 108, 101, 32, 116, 121, 112, 101, 32]  -- 'Overlong vtable type '
def bUnknownVt : Bytes := [85, 110, 107, 110, 111, 119, 110, 32, 118, 116, 97, 98, 108, 101, 32, 116, 121, 112, 101, 32]  -- 'Unknown vtable type '
def bOpenFailed : Bytes := [76, 111, 103, 32, 111, 112, 101, 110, 32, 102, 97, 105, 108, 101, 100, 32, 102, 111, 114, 32]  -- 'Log open failed for '
def bNull : Bytes := [40, 110, 117, 108, 108, 41]  -- '(null)'
def bUnable : Bytes := [85, 110, 97, 98, 108, 101, 32, 116, 111, 32, 112, 97, 114, 115, 101, 32, 39]  -- "Unable to parse '"
def bAsBoolean : Bytes := [39, 32, 97, 115, 32, 98, 111, 111, 108, 101, 97, 110, 46]  -- "' as boolean."
def bTs : Bytes := [91, 84, 93, 32]  -- '[T] '  (stands for "[HH:MM:SS MM/DD/YYYY] ")
def bColonSp : Bytes := [58, 32]  -- ': '

/-- `log_severity_names[]` -/
def sevNames : List Bytes := [
  [100, 101, 98, 117, 103],  -- debug
  [99, 111, 109, 109, 97, 110, 100],  -- command
  [105, 110, 102, 111],  -- info
  [119, 97, 114, 110, 105, 110, 103],  -- warning
  [101, 114, 114, 111, 114],  -- error
  [102, 97, 116, 97, 108]]  -- fatal

/-- LOG_NUM_SEVERITIES -/
abbrev numSev : Nat := 6
def sevName (s : Nat) : Bytes := sevNames.getD s []

def sevDebug : Nat := 0
def sevInfo : Nat := 2
def sevWarning : Nat := 3
def sevError : Nat := 4
def sevFatal : Nat := 5

/-! ### log_parse_type_sevset -/

/-- `strchr(s, c)` followed by `*sep++ = '\0'`: the text before the first `c`, and what
    follows it (`none` = strchr returned NULL). -/
def splitAtByte (c : UInt8) : Bytes → Bytes × Option Bytes
  | [] => ([], none)
  | x :: xs =>
    if x = c then ([], some xs)
    else ((x :: (splitAtByte c xs).1), (splitAtByte c xs).2)

/-- `for (sev_val = 0; sev_val < N; ++sev_val) if (!strcasecmp(sev_str, names[sev_val])) break;`
    started at index `i`. -/
def sevLookupFrom : List Bytes → Nat → Bytes → Nat
  | [], i, _ => i
  | n :: ns, i, name => if ciEq name n then i else sevLookupFrom ns (i + 1) name

def sevLookup (name : Bytes) : Nat := sevLookupFrom sevNames 0 name

/-- operator prefix of one list item: (op, rest);  op 0 `=`/bare, 1 `>=`, 2 `>`, 3 `<=`, 4 `<`. -/
def splitOp (s : Bytes) : Nat × Bytes :=
  match s with
  | [] => (0, [])
  | c :: r =>
    if c = 62 then
      match r with
      | [] => (2, [])
      | d :: r' => if d = 61 then (1, r') else (2, r)
    else if c = 60 then
      match r with
      | [] => (4, [])
      | d :: r' => if d = 61 then (3, r') else (4, r)
    else if c = 61 then (0, r)
    else (0, s)

/-- `while (++sev_val < LOG_NUM_SEVERITIES) BITSET_SET` -/
def sevAbove (v : Nat) : List Nat := (List.range numSev).filter (fun s => decide (v < s))
/-- `while (sev_val-- > 0) BITSET_SET` -/
def sevBelow (v : Nat) : List Nat := (List.range numSev).filter (fun s => decide (s < v))

/-- the `switch (op)`: the severities whose bit is set -/
def applyOp (op v : Nat) : List Nat :=
  match op with
  | 0 => [v]
  | 1 => v :: sevAbove v
  | 2 => sevAbove v
  | 3 => v :: sevBelow v
  | _ => sevBelow v

/-- `while (sep && ((sev_str = sep)[0] != '\0')) { … }`.  `sep = none` is the NULL pointer.
    `none` as a result is `res = 3` (unknown severity name: the whole entry is void). -/
def sevLoop : Nat → Option Bytes → List Nat → Option (List Nat)
  | 0, _, acc => some acc
  | _ + 1, none, acc => some acc
  | fuel + 1, some s, acc =>
    match s with
    | [] => some acc
    | _ :: _ =>
      let item := (splitAtByte 44 s).1
      let rest := (splitAtByte 44 s).2
      let op := (splitOp item).1
      let v := sevLookup (splitOp item).2
      if v = numSev then none else sevLoop fuel rest (acc ++ applyOp op v)

/-- the severity part of a key (after the first '.'): the list of set bits, or `none` = res 3. -/
def parseSevs (txt : Bytes) : Option (List Nat) :=
  if txt = bStar then some (List.range numSev)
  else sevLoop (txt.length + 1) (some txt) []

inductive KeyRes where
  | noDot                                   -- res = 1, *type = NULL
  | bad (fac : Bytes)                       -- res = 3, but the type has been registered
  | ok (fac : Bytes) (sevs : List Nat)      -- res = 0
  deriving Repr, DecidableEq

def parseKeyFull (key : Bytes) : KeyRes :=
  match (splitAtByte 46 key).2 with
  | none => .noDot
  | some rest =>
    match parseSevs rest with
    | none => .bad (splitAtByte 46 key).1
    | some S => .ok (splitAtByte 46 key).1 S

/-- DESIGN: `parseKey : Bytes → Option (Facility × SevSet)` -/
def parseKey (key : Bytes) : Option (Bytes × List Nat) :=
  match parseKeyFull key with
  | .ok f S => some (f, S)
  | _ => none

/-! ### state -/

structure Dest where
  name : Bytes          -- as given to the first open ("file:<path>")
  refcnt : Int
  deriving Repr, DecidableEq

structure Att where
  ty : Bytes            -- name of the log_type as registered
  sev : Nat
  dest : Bytes          -- name of the destination as stored in the destination set
  deriving Repr, DecidableEq

structure LogSt where
  types : List Bytes    -- log_types: registered names (first spelling seen), registration order
  dests : List Dest     -- log_destinations, comparator (strcmp of names) order
  atts : List Att       -- all destination vectors, append order
  verbosity : Int := 1  -- log_verbosity
  vts : Bool := true    -- conf.verbose_timestamp->parsed.p_boolean
  deriving Repr

/-- after log_init (which runs config_init): core, *, config; no destination. -/
def init : LogSt := { types := [bCore, bStar, bConfig], dests := [], atts := [] }

/-- `set_find(&log_types, &name)`: the registered spelling, or the argument when absent. -/
def canonT (types : List Bytes) (f : Bytes) : Bytes :=
  match types.find? (fun n => ciEq n f) with
  | some n => n
  | none => f

/-- log_type_register(f, NULL) -/
def registerType (st : LogSt) (f : Bytes) : LogSt :=
  if st.types.any (fun n => ciEq n f) then st else { st with types := st.types ++ [f] }

/-- `type->logs[sev]` of the type registered as `ty` -/
def vec (st : LogSt) (ty : Bytes) (sev : Nat) : List Bytes :=
  (st.atts.filter (fun a => decide (a.ty = ty ∧ a.sev = sev))).map (·.dest)

/-- where a message of facility `fac` and severity `sev` is written, in order, with
    repetitions: the type's own vector, then the `*` type's vector (log_vmessage). -/
def dests (st : LogSt) (fac : Bytes) (sev : Nat) : List Bytes :=
  vec st (canonT st.types fac) sev ++ vec st (canonT st.types bStar) sev

def openNames (st : LogSt) : List Bytes := st.dests.map (·.name)

/-! ### log_destination_open (state part)

  `log_destinations.compare = log_destination_cmp`, i.e. strcmp on the name: `file:` paths are
  case-sensitive, so `file:a.log` and `file:A.log` are two destinations.  (On the pinned snapshot
  647fb5c the comparator was set_compare_charp = strcasecmp; that variant is kept below as
  `findDestPinned` … `rescanPinned` together with the kernel-checked witnesses of what went
  wrong, `alias_same_section_witness` / `alias_history_witness` in Proofs.lean.)
-/

def findDest (ds : List Dest) (name : Bytes) : Option Dest := ds.find? (fun d => decide (d.name = name))

/-- `ld->refcnt++` on the element set_find returned -/
def bump (name : Bytes) : List Dest → List Dest
  | [] => []
  | x :: xs => if x.name = name then { x with refcnt := x.refcnt + 1 } :: xs else x :: bump name xs

/-- set_insert of a new destination (comparator order) -/
def insertDest (d : Dest) : List Dest → List Dest
  | [] => [d]
  | x :: xs => if Bytes.strcmp d.name x.name < 0 then d :: x :: xs else x :: insertDest d xs

/-- returns the new destination set and the name of the destination object returned -/
def openSt (ds : List Dest) (name : Bytes) : List Dest × Bytes :=
  match findDest ds name with
  | some d => (bump name ds, d.name)
  | none => (insertDest ⟨name, 0⟩ ds, name)

/-! ### log_rescan_conf (state part) -/

/-- one child of the `logs` object as log.c sees it: its name and the destination names it
    carries (CONF_STRING with a value: one; CONF_STRING_LIST: its elements; anything else: none) -/
structure Entry where
  key : Bytes
  values : List Bytes
  deriving Repr, DecidableEq

inductive Op where
  | reg (f : Bytes)                          -- log_type_register on sight
  | att (f : Bytes) (sev : Nat) (v : Bytes)  -- one log_destination_vector_append
  deriving Repr, DecidableEq

/-- what the loop body does for one child, in order -/
def entryOps (e : Entry) : List Op :=
  match parseKeyFull e.key with
  | .noDot => []
  | .bad f => [.reg f]
  | .ok f S =>
    .reg f :: ((List.range numSev).filter (fun sev => decide (sev ∈ S))).flatMap
      (fun sev => e.values.map (fun v => Op.att f sev v))

def sectionOps (sec : List Entry) : List Op := sec.flatMap entryOps

/-- `.att f sev v`: the `type` pointer is the one log_parse_type_sevset found or registered for
    `f` in this very iteration (so `registerType` is a no-op here: `.reg f` always precedes). -/
def stepOp (st : LogSt) : Op → LogSt
  | .reg f => registerType st f
  | .att f sev v =>
    { registerType st f with
        dests := (openSt st.dests v).1,
        atts := st.atts ++ [⟨canonT (registerType st f).types f, sev, (openSt st.dests v).2⟩] }

/-- "Clear all log destinations' reference counts" and "mark all pairs as empty" -/
def prep (st : LogSt) : LogSt :=
  { st with dests := st.dests.map (fun d => { d with refcnt := -1 }), atts := [] }

/-- "Close any still-unreferenced destinations" -/
def closeSt (st : LogSt) : LogSt :=
  { st with dests := st.dests.filter (fun d => !decide (d.refcnt < 0)) }

/-- log_rescan_conf when every destination can be opened (otherwise see `rescanR`) -/
def rescan (st : LogSt) (sec : List Entry) : LogSt :=
  closeSt ((sectionOps sec).foldl stepOp (prep st))

/-! ### the destination set as keyed on the pinned snapshot (strcasecmp) -/

def findDestPinned (ds : List Dest) (name : Bytes) : Option Dest := ds.find? (fun d => ciEq d.name name)

def bumpPinned (name : Bytes) : List Dest → List Dest
  | [] => []
  | x :: xs => if ciEq x.name name then { x with refcnt := x.refcnt + 1 } :: xs else x :: bumpPinned name xs

def insertDestPinned (d : Dest) : List Dest → List Dest
  | [] => [d]
  | x :: xs => if Bytes.strcasecmp d.name x.name < 0 then d :: x :: xs else x :: insertDestPinned d xs

def openStPinned (ds : List Dest) (name : Bytes) : List Dest × Bytes :=
  match findDestPinned ds name with
  | some d => (bumpPinned name ds, d.name)
  | none => (insertDestPinned ⟨name, 0⟩ ds, name)

def stepOpPinned (st : LogSt) : Op → LogSt
  | .reg f => registerType st f
  | .att f sev v =>
    { registerType st f with
        dests := (openStPinned st.dests v).1,
        atts := st.atts ++ [⟨canonT (registerType st f).types f, sev, (openStPinned st.dests v).2⟩] }

/-- log_rescan_conf of snapshot 647fb5c -/
def rescanPinned (st : LogSt) (sec : List Entry) : LogSt :=
  closeSt ((sectionOps sec).foldl stepOpPinned (prep st))

/-! ### log_vmessage -/

/-- vsnprintf into `char buff[1024]` -/
def trunc (m : Bytes) : Bytes := m.take 1023

/-- log_file_log after the timestamp: `(<type name>:<severity name>) <message>` -/
def fileLine (ty : Bytes) (sev : Nat) (m : Bytes) : Bytes :=
  [40] ++ ty ++ [58] ++ sevName sev ++ [41, 32] ++ m

/-- DESIGN: `emit : LogSt → Facility → Sev → Bytes → List (Dest × Bytes)` -/
def emit (st : LogSt) (fac : Bytes) (sev : Nat) (m : Bytes) : List (Bytes × Bytes) :=
  (dests st fac sev).map (fun d => (d, fileLine (canonT st.types fac) sev (trunc m)))

/-- "Also print to stdout if appropriate."  (one string per fprintf) -/
def consoleEcho (st : LogSt) (fac : Bytes) (sev : Nat) (m : Bytes) : List Bytes :=
  if st.verbosity > 1 ∨ (st.verbosity = 1 ∧ sev ≥ sevWarning) then
    [(if st.vts then bTs else []) ++ canonT st.types fac ++ bColonSp ++ trunc m ++ [10]]
  else []

/-- the argument of `file:<path>` -/
def destPath (d : Bytes) : Bytes :=
  match (splitAtByte 58 d).2 with
  | some p => p
  | none => []

inductive Ev where
  | opened (path : Bytes)                 -- fopen(path, "a") succeeded
  | line (path : Bytes) (text : Bytes)    -- one fprintf+fflush to that stream, timestamp removed
  | console (text : Bytes)                -- one fprintf to stdout, timestamp replaced by "[T] "
  deriving Repr, DecidableEq

def logEvs (st : LogSt) (fac : Bytes) (sev : Nat) (m : Bytes) : List Ev :=
  (emit st fac sev m).map (fun p => Ev.line (destPath p.1) p.2) ++
  (consoleEcho st fac sev m).map Ev.console

/-! ### the same with effects: what is written, and LOG_FATAL -/

structure Run where
  st : LogSt
  evs : List Ev := []
  exit : Option Nat := none      -- `some 1` once log_vmessage has called _exit(1)
  deriving Repr

/-- log_message(type registered for `fac`, sev, "%s", m) -/
def Run.log (r : Run) (fac : Bytes) (sev : Nat) (m : Bytes) : Run :=
  if r.exit.isSome then r
  else { r with evs := r.evs ++ logEvs r.st fac sev m,
                exit := if sev = sevFatal then some 1 else none }

inductive OpenRes where
  | existing
  | fresh (path : Bytes)
  | fatal (msg : Bytes)
  deriving Repr, DecidableEq

/-- the part of log_destination_open that can fail.  `canOpen path` = fopen(path,"a") succeeds. -/
def openCheck (canOpen : Bytes → Bool) (ds : List Dest) (name : Bytes) : OpenRes :=
  match findDest ds name with
  | some _ => .existing
  | none =>
    let m := (splitAtByte 58 name).1
    match (splitAtByte 58 name).2 with
    | none =>
      if m.length ≥ 32 then .fatal (bOverlong ++ name)
      else if !ciEq m bFile then .fatal (bUnknownVt ++ m)
      else .fatal (bOpenFailed ++ m ++ [58] ++ bNull)       -- fopen(NULL, "a")
    | some p =>
      if m.length ≥ 32 then .fatal (bOverlongIn ++ name)
      else if !ciEq m bFile then .fatal (bUnknownVt ++ m)
      else if canOpen p then .fresh p
      else .fatal (bOpenFailed ++ m ++ [58] ++ p)

def attachingMsg (v ty : Bytes) (sev : Nat) : Bytes :=
  bAttaching ++ v ++ bTo ++ ty ++ [46] ++ sevName sev ++ [46]

def releasingMsg (d : Bytes) : Bytes := bReleasing ++ d ++ bAfterRescan

def stepOpR (co : Bytes → Bool) (r : Run) (op : Op) : Run :=
  if r.exit.isSome then r else
  match op with
  | .reg f => { r with st := registerType r.st f }
  | .att f sev v =>
    let r1 := r.log bCore sevInfo (attachingMsg v (canonT (registerType r.st f).types f) sev)
    match openCheck co r1.st.dests v with
    | .fatal m => r1.log bCore sevFatal m
    | .existing => { r1 with st := stepOp r1.st (.att f sev v) }
    | .fresh p => { r1 with st := stepOp r1.st (.att f sev v), evs := r1.evs ++ [Ev.opened p] }

/-- the closing loop: one "Releasing …" message per destination with refcnt < 0, in set order -/
def closeR (r : Run) : Run :=
  if r.exit.isSome then r else
  { r with st := closeSt r.st,
           evs := r.evs ++ (r.st.dests.filter (fun d => decide (d.refcnt < 0))).flatMap
                    (fun d => logEvs r.st bCore sevInfo (releasingMsg d.name)) }

/-- log_rescan_conf -/
def rescanR (co : Bytes → Bool) (r : Run) (sec : List Entry) : Run :=
  if r.exit.isSome then r else
  closeR ((sectionOps sec).foldl (stepOpR co) { r with st := prep r.st })

/-! ### the `logs` object under conf_replace_value: when do rescans happen -/

inductive Kind where
  | str | list                  -- CONF_STRING (0), CONF_STRING_LIST (2)
  deriving Repr, DecidableEq

def kindNum : Kind → Int
  | .str => 0
  | .list => 2

structure Child where
  name : Bytes
  kind : Kind
  values : List Bytes           -- str: [value] ([] = NULL); list: the vector
  cached : Option Bytes := none -- plain string: parsed.p_string
  hook : Bool := false          -- base.hook == log_rescan_type
  reg : Bool := false           -- `specified` (registered by code): only verbose_timestamp
  deriving Repr, DecidableEq

def Child.entry (c : Child) : Entry := ⟨c.name, c.values⟩

/-- conf_object_cmp: strcasecmp of the names, then the node types.  Only the sign is used.
    (Names are C strings; for NUL-free lists `ciEq` is `strcasecmp == 0`, `ciEq_eq_strcasecmp`.) -/
def childCmp (a b : Child) : Int :=
  if ciEq a.name b.name then kindNum a.kind - kindNum b.kind
  else if Bytes.strcasecmp a.name b.name < 0 then -1 else 1

/-- an entry of the file inside `logs { … }` -/
structure RawEntry where
  key : Bytes
  kind : Kind
  values : List Bytes
  deriving Repr, DecidableEq

/-- `conf_object_cmp(a, b) == 0`: same name up to case and same node type -/
def sameClass (a b : Child) : Bool := ciEq a.name b.name && decide (a.kind = b.kind)

/-- the node set_find returned gets the new value (string: xfree + assign; list:
    conf_set_string_list_value); it keeps its own spelling of the name -/
def setValues (n : Child) : List Child → List Child
  | [] => []
  | c :: rest =>
    if sameClass n c then { c with values := n.values, cached := n.cached } :: rest else c :: setValues n rest

/-- set_insert: comparator order -/
def insertChild (n : Child) : List Child → List Child
  | [] => [n]
  | c :: rest => if childCmp n c < 0 then n :: c :: rest else c :: insertChild n rest

/-- conf_parse_get_child on the scratch tree (`existing = set_find(…)`, else `set_insert`) + the
    assignment of the value: an entry whose (name, type) is already there overwrites its value
    and keeps the first spelling. -/
def scratchCache (k : Kind) (vs : List Bytes) : Option Bytes :=
  match k, vs with
  | .str, [v] => some v
  | _, _ => none

def scratchInsert (cs : List Child) (e : RawEntry) : List Child :=
  -- conf_parse_entry: `node->parsed.p_string = string` for every string the file creates
  let n : Child := { name := e.key, kind := e.kind, values := e.values, cached := scratchCache e.kind e.values }
  if cs.any (sameClass n) then setValues n cs else insertChild n cs

def scratchOf (es : List RawEntry) : List Child := es.foldl scratchInsert []

def setHook (c : Child) : Child := { c with hook := true }

/-- the registered child -/
def vtsChild : Child :=
  { name := bVts, kind := .str, values := [bTrue], cached := none, hook := true, reg := true }

/-- conf_parse_boolean -/
def parseBool (v : Bytes) : Option Bool :=
  if v ∈ [[48], [102, 97, 108, 115, 101], [111, 102, 102], [100, 105, 115, 97, 98, 108, 101, 100], [110, 111]] then some false
  else if v ∈ [[49], [116, 114, 117, 101], [111, 110], [101, 110, 97, 98, 108, 101, 100], [121, 101, 115]] then some true
  else none

/-- a hook of a child (log_rescan_type) or of the object: rescan over the tree as it is now -/
def fire (co : Bytes → Bool) (run : Run) (view : List Child) : Run :=
  rescanR co run (view.map Child.entry)

structure WalkRes where
  run : Run
  live : List Child
  modified : Bool
  fired : Nat := 0               -- how many hooks ran (bookkeeping for the evidence)
  deriving Repr

/-- `conf_replace_value(t, NULL)` for a child of `logs` that the file no longer has.
    Returns the run, the child if it stays in the tree, whether the parent counts as modified,
    and whether its hook ran. -/
def revertChild (co : Bytes → Bool) (run : Run) (pre : List Child) (t : Child) (rest : List Child) :
    Run × Option Child × Bool × Bool :=
  match t.kind with
  | .str =>
    if t.reg then
      -- value = xstrdup(def_value) = "true"; boolean parse; hook iff the parsed value changes
      let t' := { t with values := [bTrue] }
      if run.st.vts = true then (run, some t', false, false)
      else
        let run1 := { run with st := { run.st with vts := true } }
        if t.hook then (fire co run1 (pre ++ t' :: rest), some t', false, true)
        else (run1, some t', false, false)
    else
      -- value = NULL, default NULL: conf_parse_string_value compares the cached parse with
      -- all-zero, clears it and runs the hook when it was set; the node (value NULL) is still
      -- in the tree while the hook runs and is removed afterwards
      let t' := { t with values := [], cached := none }
      if t.cached.isSome && t.hook then (fire co run (pre ++ t' :: rest), none, true, true)
      else (run, none, true, false)
  | .list =>
    if t.values = [] then (run, if t.reg then some t else none, !t.reg, false)
    else
      let t' := { t with values := [] }
      let fired := t.hook
      let run1 := if t.hook then fire co run (pre ++ t' :: rest) else run
      (run1, if t.reg then some t' else none, !t.reg, fired)

/-- `conf_replace_value(t, s)` for a child present in both trees (same name, same type). -/
def updateChild (co : Bytes → Bool) (run : Run) (pre : List Child) (t s : Child) (rest : List Child) :
    Run × Child × Bool :=
  match t.kind with
  | .str =>
    match s.values with
    | [] => (run, t, false)                 -- a file-created string always has a value
    | v :: _ =>
      if t.reg then
        let t' := { t with values := [v] }
        match parseBool v with
        | none =>
          (run.log bConfig sevWarning (bUnable ++ v ++ bAsBoolean), t', false)
        | some b =>
          if b = run.st.vts then (run, t', false)
          else
            let run1 := { run with st := { run.st with vts := b } }
            if t.hook then (fire co run1 (pre ++ t' :: rest), t', true) else (run1, t', false)
      else
        -- CONF_STRING_PLAIN: res = !parsed.p_string || strcmp(value, parsed.p_string)
        let t' := { t with values := [v], cached := some v }
        if t.cached = some v then (run, t', false)
        else if t.hook then (fire co run (pre ++ t' :: rest), t', true) else (run, t', false)
  | .list =>
    if t.values = s.values then (run, t, false)
    else
      let t' := { t with values := s.values }
      if t.hook then (fire co run (pre ++ t' :: rest), t', true) else (run, t', false)

/-- after a hook ran every child of the tree has `hook` set (log_rescan_conf installs it) -/
def hookIf (f : Bool) (l : List Child) : List Child := if f then l.map setHook else l

@[simp] theorem length_hookIf (f : Bool) (l : List Child) : (hookIf f l).length = l.length := by
  unfold hookIf; split <;> simp

/-- the `while (tnode || snode)` loop.  `pre` = the part of the live tree already walked. -/
def walk (co : Bytes → Bool) (run : Run) (pre ts ss : List Child) (modified : Bool) (fired : Nat) : WalkRes :=
  match ts, ss with
  | [], [] => { run, live := pre, modified, fired }
  | [], s :: ss' => walk co run (pre ++ [s]) [] ss' true fired
  | t :: ts', [] =>
    match revertChild co run pre t ts' with
    | (run1, keep, m, f) =>
      walk co run1 (hookIf f pre ++ hookIf f keep.toList) (hookIf f ts') [] (modified || m) (if f then fired + 1 else fired)
  | t :: ts', s :: ss' =>
    if childCmp t s > 0 then walk co run (pre ++ [s]) (t :: ts') ss' true fired
    else if childCmp t s < 0 then
      match revertChild co run pre t ts' with
      | (run1, keep, m, f) =>
        walk co run1 (hookIf f pre ++ hookIf f keep.toList) (hookIf f ts') (s :: ss') (modified || m) (if f then fired + 1 else fired)
    else
      -- present in both: the entry takes the file's spelling of its name (names compare ignoring
      -- case) before its value is replaced; a respelling counts as a change of membership
      match updateChild co run pre { t with name := s.name } s ts' with
      | (run1, t', f) =>
        walk co run1 (hookIf f pre ++ hookIf f [t']) (hookIf f ts') ss' (modified || t.name != s.name) (if f then fired + 1 else fired)
termination_by ts.length + ss.length
decreasing_by all_goals (simp only [length_hookIf, List.length_cons, List.length_nil]; omega)

structure ConfSt where
  run : Run
  live : List Child := [vtsChild]    -- children of `logs`, set order
  present : Bool := false            -- logs.present
  lastFired : Nat := 0
  deriving Repr

def ConfSt.init : ConfSt := { run := { st := Log.init } }

/-- a successful conf_read as far as the `logs` object is concerned.
    `file = some es`: the file has `logs { es }`;  `none`: it has no `logs` object. -/
def load (co : Bytes → Bool) (c : ConfSt) (file : Option (List RawEntry)) : ConfSt :=
  if c.run.exit.isSome then c else
  match file with
  | some es =>
    let w := walk co c.run [] c.live (scratchOf es) false 0
    if w.modified then
      { run := fire co w.run w.live, live := w.live.map setHook, present := true, lastFired := w.fired + 1 }
    else { run := w.run, live := w.live, present := true, lastFired := w.fired }
  | none =>
    if c.present then
      let w := walk co c.run [] c.live [] false 0
      if w.modified then
        { run := fire co w.run w.live, live := w.live.map setHook, present := false, lastFired := w.fired + 1 }
      else { run := w.run, live := w.live, present := false, lastFired := w.fired }
    else { c with lastFired := 0 }

/-- `log_type_register(fac, NULL); log_message(type, sev, "%s", m)` -/
def message (c : ConfSt) (fac : Bytes) (sev : Nat) (m : Bytes) : ConfSt :=
  if c.run.exit.isSome then c else
  { c with run := ({ c.run with st := registerType c.run.st fac }).log fac sev m }

/-- log_set_verbosity -/
def setVerbosity (c : ConfSt) (n : Int) : ConfSt :=
  if c.run.exit.isSome then c else
  { c with run := { c.run with st := { c.run.st with verbosity := n } } }

end Iauthd.Log
