import Iauthd.Set.Proofs
/-
  Map laws of the set container, for every reachable state (C19, user-facing reading).

  The refinement theorem says the model behaves like a sorted list; these corollaries say what
  that buys a caller of src/set.c: a lookup returns exactly the member that compares equal to
  the key (there is at most one), an element just inserted is what a lookup of its key finds,
  and a key just removed is no longer found — after any history of operations.
-/
namespace Iauthd.Set
variable {α : Type} {cmp : α → α → Int}

theorem specFind_sound (k : α) (xs : List α) (y : α) (hf : specFind cmp k xs = some y) :
    y ∈ xs ∧ cmp k y = 0 := by
  induction xs with
  | nil => simp [specFind] at hf
  | cons z zs ih =>
    simp only [specFind] at hf
    split at hf
    · cases hf; exact ⟨by simp, by assumption⟩
    · have := ih hf; exact ⟨by simp [this.1], this.2⟩

theorem specFind_complete (h : CmpLaws cmp) (k : α) (xs : List α) (hs : Sorted cmp xs) (y : α)
    (hy : y ∈ xs) (hk : cmp k y = 0) : specFind cmp k xs = some y := by
  induction xs with
  | nil => simp at hy
  | cons z zs ih =>
    simp only [Sorted, List.pairwise_cons] at hs
    simp only [specFind]
    rcases List.mem_cons.1 hy with rfl | hy'
    · rw [if_pos hk]
    · have hzy := hs.1 y hy'
      by_cases hz : cmp k z = 0
      · have := h.le_lt k z y (by omega) hzy; omega
      · rw [if_neg hz]; exact ih hs.2 hy'

theorem specInsert_mem (n : α) (xs : List α) : n ∈ (specInsert cmp n xs).1 := by
  induction xs with
  | nil => simp [specInsert]
  | cons y ys ih =>
    simp only [specInsert]
    split
    · simp
    · split
      · simp
      · simp [ih]

theorem specRemove_gone (h : CmpLaws cmp) (k : α) (xs : List α) (hs : Sorted cmp xs) :
    specFind cmp k (specRemove cmp k xs).1 = none := by
  induction xs with
  | nil => rfl
  | cons y ys ih =>
    simp only [Sorted, List.pairwise_cons] at hs
    simp only [specRemove]
    split
    · rename_i hy
      exact specFind_above cmp k (fun z hz => h.le_lt k y z (by omega) (hs.1 z hz))
    · rename_i hy
      simp only [specFind]; rw [if_neg hy]; exact ih hs.2

theorem specLower_sound (k : α) (xs : List α) (hs : Sorted cmp xs) (y : α)
    (hf : specLower cmp k xs = some y) :
    y ∈ xs ∧ cmp k y ≤ 0 ∧ ∀ z ∈ xs, cmp k z ≤ 0 → (z = y ∨ cmp y z < 0) := by
  induction xs with
  | nil => simp [specLower] at hf
  | cons a as ih =>
    simp only [Sorted, List.pairwise_cons] at hs
    simp only [specLower] at hf
    split at hf
    · cases hf
      refine ⟨by simp, by assumption, ?_⟩
      intro z hz _
      rcases List.mem_cons.1 hz with rfl | hz'
      · exact Or.inl rfl
      · exact Or.inr (hs.1 z hz')
    · rename_i ha
      obtain ⟨h1, h2, h3⟩ := ih hs.2 hf
      refine ⟨by simp [h1], h2, ?_⟩
      intro z hz hkz
      rcases List.mem_cons.1 hz with rfl | hz'
      · exact absurd hkz ha
      · exact h3 z hz' hkz

theorem specLower_none (k : α) (xs : List α) (hf : specLower cmp k xs = none) :
    ∀ z ∈ xs, cmp k z > 0 := by
  induction xs with
  | nil => simp
  | cons a as ih =>
    simp only [specLower] at hf
    split at hf
    · cases hf
    · rename_i ha
      intro z hz
      rcases List.mem_cons.1 hz with rfl | hz'
      · omega
      · exact ih hf z hz'

section reach
variable (h : CmpLaws cmp)
include h

/-- every reachable state: elements strictly increasing (so no two compare equal), thread list
    and count agree with the tree -/
theorem reach_inv (ops : List (Op α)) : Inv cmp (modelFinal cmp ({} : SetSt α) ops) :=
  (run_refines h ops {} (inv_init cmp)).2.2

/-- a lookup in any reachable state returns `y` exactly when `y` is the member comparing equal
    to the key -/
theorem reach_find_iff (ops : List (Op α)) (k y : α) :
    (stepModel cmp (modelFinal cmp ({} : SetSt α) ops) (.find k)).2 = .found (some y)
      ↔ y ∈ abs (modelFinal cmp ({} : SetSt α) ops) ∧ cmp k y = 0 := by
  have hi := reach_inv h ops
  have hr := (step_refines h _ hi (.find k)).1
  simp only [stepSpec] at hr
  have e : (stepModel cmp (modelFinal cmp ({} : SetSt α) ops) (.find k)).2
      = .found (specFind cmp k (abs (modelFinal cmp ({} : SetSt α) ops))) := by
    have := congrArg Prod.snd hr; simpa using this.symm
  rw [e]
  constructor
  · intro hf
    exact specFind_sound k _ y (by simpa using hf)
  · intro ⟨hm, hk⟩
    rw [specFind_complete h k (abs _) hi.sorted y hm hk]

/-- at most one member compares equal to any key -/
theorem reach_unique (ops : List (Op α)) (k y z : α)
    (hy : y ∈ abs (modelFinal cmp ({} : SetSt α) ops)) (hz : z ∈ abs (modelFinal cmp ({} : SetSt α) ops))
    (hky : cmp k y = 0) (hkz : cmp k z = 0) : y = z := by
  have hi := reach_inv h ops
  have e1 := specFind_complete h k _ hi.sorted y hy hky
  have e2 := specFind_complete h k _ hi.sorted z hz hkz
  rw [e1] at e2; exact Option.some.inj e2

/-- read-your-write: after any history, inserting `n` and then looking up any key equal to it
    finds `n` itself (not an element it displaced) -/
theorem reach_insert_find (ops : List (Op α)) (n k : α) (hk : cmp k n = 0) :
    runModel cmp (modelFinal cmp ({} : SetSt α) ops) [.ins n, .find k]
      = [(stepModel cmp (modelFinal cmp ({} : SetSt α) ops) (.ins n)).2, .found (some n)] := by
  have hi := reach_inv h ops
  obtain ⟨h1, h2⟩ := step_refines h _ hi (.ins n)
  have hmem : n ∈ abs (stepModel cmp (modelFinal cmp ({} : SetSt α) ops) (.ins n)).1 := by
    have := congrArg Prod.fst h1
    simp only [stepSpec] at this
    rw [← this]; exact specInsert_mem n _
  have hr := (step_refines h _ h2 (.find k)).1
  simp only [stepSpec] at hr
  have e := congrArg Prod.snd hr
  simp only at e
  simp only [runModel]
  rw [← e, specFind_complete h k (abs _) h2.sorted n hmem hk]

/-- after any history, removing a key and then looking it up finds nothing -/
theorem reach_remove_find (ops : List (Op α)) (k : α) (nd : Bool) :
    runModel cmp (modelFinal cmp ({} : SetSt α) ops) [.rem k nd, .find k]
      = [(stepModel cmp (modelFinal cmp ({} : SetSt α) ops) (.rem k nd)).2, .found none] := by
  have hi := reach_inv h ops
  obtain ⟨h1, h2⟩ := step_refines h _ hi (.rem k nd)
  have habs : abs (stepModel cmp (modelFinal cmp ({} : SetSt α) ops) (.rem k nd)).1
      = (specRemove cmp k (abs (modelFinal cmp ({} : SetSt α) ops))).1 := by
    have := congrArg Prod.fst h1
    simp only [stepSpec] at this
    rw [← this]
    generalize specRemove cmp k (abs (modelFinal cmp ({} : SetSt α) ops)) = res
    obtain ⟨r, od⟩ := res
    cases od <;> rfl
  have hr := (step_refines h _ h2 (.find k)).1
  simp only [stepSpec] at hr
  have e := congrArg Prod.snd hr
  simp only at e
  simp only [runModel]
  rw [← e, habs, specRemove_gone h k (abs _) hi.sorted]

/-- lower bound in any reachable state: the answer is a member not below the key and it is the
    least such member; no answer means every member is below the key -/
theorem reach_lower (ops : List (Op α)) (k : α) :
    let s := modelFinal cmp ({} : SetSt α) ops
    (∀ y, (stepModel cmp s (.lower k)).2 = .lower (some y) →
        y ∈ abs s ∧ cmp k y ≤ 0 ∧ ∀ z ∈ abs s, cmp k z ≤ 0 → (z = y ∨ cmp y z < 0))
    ∧ ((stepModel cmp s (.lower k)).2 = .lower none → ∀ z ∈ abs s, cmp k z > 0) := by
  intro s
  have hi := reach_inv h ops
  have hr := (step_refines h _ hi (.lower k)).1
  simp only [stepSpec] at hr
  have e : (stepModel cmp s (.lower k)).2 = .lower (specLower cmp k (abs s)) := by
    have := congrArg Prod.snd hr; simpa using this.symm
  rw [e]
  constructor
  · intro y hf
    exact specLower_sound k (abs s) hi.sorted y (by simpa using hf)
  · intro hf
    exact specLower_none k (abs s) (by simpa using hf)

end reach
end Iauthd.Set
