import Iauthd.Set.Model
import Iauthd.Util.Bytes
/-
  The abstract reading of C19: a set driven through its API is a sorted map.
  State = list of elements, strictly increasing under the comparator.
  `Op`/`Out` are the observable interface; `runModel` drives the splay-tree model,
  `runSpec` the sorted list.  The refinement theorem (Iauthd/Set/Proofs.lean,
  restated in Iauthd/Properties/C19.lean) says the two output streams are equal.
-/
namespace Iauthd.Set

inductive Op (α : Type) where
  | ins (n : α) | find (k : α) | lower (k : α) | rem (k : α) (nd : Bool)
  | clear (nd : Bool) | walk | back | size
  deriving Repr

inductive Out (α : Type) where
  | ins (disposed : Option α)
  | found (x : Option α)
  | lower (x : Option α)
  | rem (removed : Bool) (disposed : Option α)
  | clr (n : Nat) (disposed : List α)
  | walk (xs : List α)
  | back (xs : List α)
  | size (n : Nat)
  deriving Repr, BEq, DecidableEq

variable {α : Type}

/-! ### Model side -/

def stepModel (cmp : α → α → Int) (s : SetSt α) : Op α → SetSt α × Out α
  | .ins n => let (s', d) := s.insert cmp n; (s', .ins d)
  | .find k => let (s', x) := s.find cmp k; (s', .found x)
  | .lower k => let (s', x) := s.lower cmp k; (s', .lower x)
  | .rem k nd => let (s', b, d) := s.remove cmp k nd; (s', .rem b d)
  | .clear nd => let (s', d) := s.clear nd; (s', .clr s.count d)
  | .walk => (s, .walk s.thread)
  | .back => (s, .back s.thread.reverse)
  | .size => (s, .size s.count)

def runModel (cmp : α → α → Int) : SetSt α → List (Op α) → List (Out α)
  | _, [] => []
  | s, op :: ops => let (s', o) := stepModel cmp s op; o :: runModel cmp s' ops

/-! ### Spec side: sorted list -/

def specInsert (cmp : α → α → Int) (n : α) : List α → List α × Option α
  | [] => ([n], none)
  | y :: ys =>
    let c := cmp n y
    if c < 0 then (n :: y :: ys, none)
    else if c = 0 then (n :: ys, some y)
    else let (r, d) := specInsert cmp n ys; (y :: r, d)

def specFind (cmp : α → α → Int) (k : α) : List α → Option α
  | [] => none
  | y :: ys => if cmp k y = 0 then some y else specFind cmp k ys

/-- first element not below the key -/
def specLower (cmp : α → α → Int) (k : α) : List α → Option α
  | [] => none
  | y :: ys => if cmp k y ≤ 0 then some y else specLower cmp k ys

def specRemove (cmp : α → α → Int) (k : α) : List α → List α × Option α
  | [] => ([], none)
  | y :: ys =>
    if cmp k y = 0 then (ys, some y)
    else let (r, d) := specRemove cmp k ys; (y :: r, d)

def stepSpec (cmp : α → α → Int) (xs : List α) : Op α → List α × Out α
  | .ins n => let (r, d) := specInsert cmp n xs; (r, .ins d)
  | .find k => (xs, .found (specFind cmp k xs))
  | .lower k => (xs, .lower (specLower cmp k xs))
  | .rem k nd =>
    match specRemove cmp k xs with
    | (r, some d) => (r, .rem true (if nd then none else some d))
    | (r, none) => (r, .rem false none)
  | .clear nd => ([], .clr xs.length (if nd then [] else xs))
  | .walk => (xs, .walk xs)
  | .back => (xs, .back xs.reverse)
  | .size => (xs, .size xs.length)

def runSpec (cmp : α → α → Int) : List α → List (Op α) → List (Out α)
  | _, [] => []
  | xs, op :: ops => let (xs', o) := stepSpec cmp xs op; o :: runSpec cmp xs' ops

/-! ### The stock comparators, on elements `(key, uid)` -/

structure IntElem where
  key : Int      -- always within Int32 (enforced by the driver)
  uid : Nat
  deriving Repr, BEq, DecidableEq

/-- `set_compare_int` as written on the pinned tree: `*a - *b` in 32-bit arithmetic
    (wraps on two's-complement hardware; UBSan reports the overflow). -/
def cmpIntSub (a b : IntElem) : Int := wrap32 (a.key - b.key)
/-- true iff the subtraction overflows `int` (undefined behaviour in C). -/
def cmpIntOverflows (a b : IntElem) : Bool := !inInt32 (a.key - b.key)
/-- three-way comparison, the repaired `set_compare_int`: `(a > b) - (a < b)`. -/
def cmpInt3 (a b : IntElem) : Int := if a.key < b.key then -1 else if a.key = b.key then 0 else 1

structure StrElem where
  key : Bytes
  uid : Nat
  deriving Repr, BEq, DecidableEq

/-- `set_compare_charp`: `strcasecmp` reads each key as a C string (up to its first NUL). -/
def cmpCharp (a b : StrElem) : Int := Bytes.strcasecmp (Bytes.cstr a.key) (Bytes.cstr b.key)

structure PtrElem where
  key : Nat      -- an address
  uid : Nat
  deriving Repr, BEq, DecidableEq

/-- `set_compare_voidp` / `set_compare_ptr` -/
def cmpPtr (a b : PtrElem) : Int := if a.key > b.key then 1 else if a.key = b.key then 0 else -1

end Iauthd.Set
