/-
  Model of src/set.c : top-down splay tree whose nodes are also threaded on a
  doubly-linked list in comparator order.

  The model mirrors the C control flow:
    * `splayGo`   = the `while (1)` loop of `set_splay` (two-level look-ahead,
                    zig-zig rotation, link-left / link-right on the `N` header);
    * `assemble`  = the four assignments after the loop;
    * `insert`, `find`, `lower`, `remove`, `clear` = the public functions, acting on
      the tree *and* on the thread list the way the pointer code does.

  A comparator is a function `cmp : α → α → Int` called as `cmp datum element`
  (first argument: the search key, second: an element of the set), like
  `set->compare(datum, set_node_data(node))`.
-/
namespace Iauthd.Set

inductive Tree (α : Type) where
  | nil : Tree α
  | node (l : Tree α) (x : α) (r : Tree α) : Tree α
  deriving Repr, BEq, Inhabited

namespace Tree
variable {α : Type}

def inorder : Tree α → List α
  | nil => []
  | node l x r => inorder l ++ x :: inorder r

def size : Tree α → Nat
  | nil => 0
  | node l _ r => size l + 1 + size r

/-- `set_first`: leftmost node. -/
def first? : Tree α → Option α
  | nil => none
  | node nil x _ => some x
  | node l@(node _ _ _) _ _ => first? l

end Tree

open Tree

/-- Pieces hung on `l` (the left assembly tree): each is a node whose right child is
    still open.  Head = most recently linked (innermost). -/
abbrev LAcc (α : Type) := List (Tree α × α)
/-- Pieces hung on `r`: each is a node whose left child is still open. -/
abbrev RAcc (α : Type) := List (α × Tree α)

/-- Close the left assembly: innermost piece first. `t` is what goes into the open slot. -/
def closeL {α} : LAcc α → Tree α → Tree α
  | [], t => t
  | (l, x) :: rest, t => closeL rest (node l x t)

def closeR {α} : RAcc α → Tree α → Tree α
  | [], t => t
  | (x, r) :: rest, t => closeR rest (node t x r)

structure SplayRes (α : Type) where
  la : LAcc α
  ra : RAcc α
  l : Tree α     -- final node's left child
  x : α          -- final node
  r : Tree α     -- final node's right child
  res : Int      -- last comparison result

/-- The loop of `set_splay`.  `k` is the partially applied comparator
    `compare(datum, ·)`.  `none` only for the empty tree (never passed by `splay`). -/
def splayGo {α} (k : α → Int) : Tree α → LAcc α → RAcc α → Option (SplayRes α)
  | nil, _, _ => none
  | node l x r, la, ra =>
    let c := k x
    if c = 0 then some ⟨la, ra, l, x, r, c⟩
    else if c < 0 then
      match l with
      | nil => some ⟨la, ra, nil, x, r, c⟩
      | node ll y lr =>
        let c2 := k y
        if c2 < 0 then
          -- rotate right: y is the new `node`, its right child is (lr x r)
          match ll with
          | nil => some ⟨la, ra, nil, y, node lr x r, c2⟩
          | node a z b =>
            -- link right, descend into y->l
            splayGo k (node a z b) la ((y, node lr x r) :: ra)
        else
          -- link right (x with its right subtree), descend into x->l
          splayGo k (node ll y lr) la ((x, r) :: ra)
    else
      match r with
      | nil => some ⟨la, ra, l, x, nil, c⟩
      | node rl y rr =>
        let c2 := k y
        if c2 > 0 then
          match rr with
          | nil => some ⟨la, ra, node l x rl, y, nil, c2⟩
          | node a z b =>
            splayGo k (node a z b) ((node l x rl, y) :: la) ra
        else
          splayGo k (node rl y rr) ((l, x) :: la) ra

/-- `set_splay`: returns the new tree (root = final node) and the sign. -/
def splay {α} (k : α → Int) (t : Tree α) : Tree α × Int :=
  match splayGo k t [] [] with
  | none => (nil, 0)
  | some s => (node (closeL s.la s.l) s.x (closeR s.ra s.r), s.res)

/-! ### The container: tree + thread + count + dispose log -/

structure SetSt (α : Type) where
  tree : Tree α := .nil
  thread : List α := []     -- the prev/next list, head = element without `prev`
  count : Nat := 0
  deriving Repr, Inhabited

/-- insert `n` directly before the (first) element for which `p` holds. -/
def insBefore {α} (p : α → Bool) (n : α) : List α → List α
  | [] => [n]
  | y :: ys => if p y then n :: y :: ys else y :: insBefore p n ys

def insAfter {α} (p : α → Bool) (n : α) : List α → List α
  | [] => [n]
  | y :: ys => if p y then y :: n :: ys else y :: insAfter p n ys

def replaceAt {α} (p : α → Bool) (n : α) : List α → List α
  | [] => []
  | y :: ys => if p y then n :: ys else y :: replaceAt p n ys

def removeAt {α} (p : α → Bool) : List α → List α
  | [] => []
  | y :: ys => if p y then ys else y :: removeAt p ys

/-- element following the first one satisfying `p` (`root->next`). -/
def nextOf {α} (p : α → Bool) : List α → Option α
  | [] => none
  | y :: ys => if p y then ys.head? else nextOf p ys

variable {α : Type}

/-- `set_insert`.  `cmp a b` = `compare(&a, &b)`.  Returns the disposed element, if any.
    The thread splice locates the root by comparator-equality with itself (pointer
    identity in C; under the container invariant the two coincide). -/
def SetSt.insert (cmp : α → α → Int) (s : SetSt α) (n : α) : SetSt α × Option α :=
  match s.tree with
  | .nil => ({ tree := .node .nil n .nil, thread := [n], count := s.count + 1 }, none)
  | t@(.node _ _ _) =>
    match splay (cmp n) t with
    | (.nil, _) => (s, none) -- unreachable: splay of a node is a node
    | (.node l x r, res) =>
      let isRoot := fun y => cmp x y == 0
      if res < 0 then
        ({ tree := .node l n (.node .nil x r), thread := insBefore isRoot n s.thread,
           count := s.count + 1 }, none)
      else if res > 0 then
        ({ tree := .node (.node l x .nil) n r, thread := insAfter isRoot n s.thread,
           count := s.count + 1 }, none)
      else
        ({ tree := .node l n r, thread := replaceAt isRoot n s.thread,
           count := s.count - 1 + 1 }, some x)

/-- `set_find`: splays, returns the root if the comparison was 0. -/
def SetSt.find (cmp : α → α → Int) (s : SetSt α) (key : α) : SetSt α × Option α :=
  match s.tree with
  | .nil => (s, none)
  | t@(.node _ _ _) =>
    match splay (cmp key) t with
    | (.node l x r, res) => ({ s with tree := .node l x r }, if res = 0 then some x else none)
    | (.nil, _) => (s, none)

/-- `set_lower`. -/
def SetSt.lower (cmp : α → α → Int) (s : SetSt α) (key : α) : SetSt α × Option α :=
  match s.tree with
  | .nil => (s, none)
  | t@(.node _ _ _) =>
    match splay (cmp key) t with
    | (.node l x r, res) =>
      ({ s with tree := .node l x r },
        if res > 0 then nextOf (fun y => cmp x y == 0) s.thread else some x)
    | (.nil, _) => (s, none)

/-- the join step of `set_remove`: splay the left subtree by the removed key (which is
    above all of it) and hang the right subtree on the new root. -/
def joinAfterRemove (k : α → Int) (l r : Tree α) : Tree α :=
  match l with
  | .nil => r
  | .node _ _ _ =>
    match splay k l with
    | (.node l2 x2 _, _) => .node l2 x2 r     -- new_root->r = old_root->r
    | (.nil, _) => r

/-- `set_remove`: returns (state, removed?, disposed element). -/
def SetSt.remove (cmp : α → α → Int) (s : SetSt α) (key : α) (noDispose : Bool) :
    SetSt α × Bool × Option α :=
  match s.tree with
  | .nil => (s, false, none)
  | t@(.node _ _ _) =>
    match splay (cmp key) t with
    | (.nil, _) => (s, false, none)
    | (.node l x r, res) =>
      if res ≠ 0 then ({ s with tree := .node l x r }, false, none)
      else
        ({ tree := joinAfterRemove (cmp key) l r,
           thread := removeAt (fun y => cmp x y == 0) s.thread,
           count := s.count - 1 },
         true, if noDispose then none else some x)

/-- `set_clear`: walks the thread from `set_first`. -/
def SetSt.clear (s : SetSt α) (noDispose : Bool) : SetSt α × List α :=
  ({ tree := .nil, thread := [], count := 0 }, if noDispose then [] else s.thread)

end Iauthd.Set
