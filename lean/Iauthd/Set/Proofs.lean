import Iauthd.Set.Spec
/-
  Proofs for the Set engine (property C19).

  1. `splayGo` preserves the in-order sequence (`splayGo_inorder`, `splay_inorder`).
  2. `splayGo` positions the key (`splayGo_pos`, `splay_root_spec`).
  3. Each public operation, under the container invariant, refines the sorted-list
     spec and preserves the invariant (`step_refines`, `inv_step`).
  4. Hence all output streams agree (`C19_refinement`), and disposal is exactly once
     (`C19_dispose_once`).
-/
set_option linter.unusedSimpArgs false

namespace Iauthd.Set
open Tree

variable {α : Type}

/-! ## Comparator laws -/

structure CmpLaws (cmp : α → α → Int) : Prop where
  refl : ∀ a, cmp a a = 0
  antisymm : ∀ a b, cmp a b < 0 ↔ cmp b a > 0
  trans : ∀ a b c, cmp a b ≤ 0 → cmp b c ≤ 0 → cmp a c ≤ 0

namespace CmpLaws
variable {cmp : α → α → Int} (h : CmpLaws cmp)
include h

theorem gt_iff (a b : α) : cmp a b > 0 ↔ cmp b a < 0 := (h.antisymm b a).symm

theorem eq_iff (a b : α) : cmp a b = 0 ↔ cmp b a = 0 := by
  have h1 := h.antisymm a b
  have h2 := h.antisymm b a
  constructor <;> intro e <;> omega

/-- key ≤ a, a < b  ⟹  key < b -/
theorem le_lt (k a b : α) (h1 : cmp k a ≤ 0) (h2 : cmp a b < 0) : cmp k b < 0 := by
  have t := h.trans k a b h1 (by omega)
  rcases Int.lt_or_eq_of_le t with lt | eq
  · exact lt
  · exfalso
    have e2 : cmp b k = 0 := (h.eq_iff k b).1 eq
    have t2 := h.trans b k a (by omega) h1
    have := (h.antisymm a b).1 h2
    omega
end CmpLaws

/-- strictly increasing under `cmp` -/
def Sorted (cmp : α → α → Int) (xs : List α) : Prop := xs.Pairwise (fun a b => cmp a b < 0)

/-- the signs of `k` along the list are: positive, then at most one zero, then negative -/
def Mono (k : α → Int) (xs : List α) : Prop := xs.Pairwise (fun a b => k a ≤ 0 → k b < 0)

theorem mono_of_sorted {cmp : α → α → Int} (h : CmpLaws cmp) (key : α) {xs : List α}
    (hs : Sorted cmp xs) : Mono (cmp key) xs :=
  List.Pairwise.imp (fun {a b} hab hk => h.le_lt key a b hk hab) hs

/-! ## In-order bookkeeping for the assembly lists -/

def inorderL : LAcc α → List α
  | [] => []
  | (l, x) :: rest => inorderL rest ++ inorder l ++ [x]

def inorderR : RAcc α → List α
  | [] => []
  | (x, r) :: rest => x :: inorder r ++ inorderR rest

theorem inorder_closeL (la : LAcc α) (t : Tree α) : inorder (closeL la t) = inorderL la ++ inorder t := by
  induction la generalizing t with
  | nil => simp [closeL, inorderL]
  | cons p rest ih => obtain ⟨l, x⟩ := p; simp [closeL, inorderL, ih, inorder]

theorem inorder_closeR (ra : RAcc α) (t : Tree α) : inorder (closeR ra t) = inorder t ++ inorderR ra := by
  induction ra generalizing t with
  | nil => simp [closeR, inorderR]
  | cons p rest ih => obtain ⟨x, r⟩ := p; simp [closeR, inorderR, ih, inorder]

theorem splayGo_inorder (k : α → Int) (t : Tree α) (la : LAcc α) (ra : RAcc α) (s : SplayRes α)
    (hs : splayGo k t la ra = some s) :
    inorderL s.la ++ inorder s.l ++ s.x :: inorder s.r ++ inorderR s.ra
      = inorderL la ++ inorder t ++ inorderR ra := by
  fun_induction splayGo k t la ra <;> simp_all [inorder, inorderL, inorderR]
  all_goals (subst hs; simp [inorder])

theorem splayGo_isSome (k : α → Int) (t : Tree α) (la : LAcc α) (ra : RAcc α) (ht : t ≠ nil) :
    ∃ s, splayGo k t la ra = some s := by
  fun_induction splayGo k t la ra <;> simp_all

theorem splay_inorder (k : α → Int) (t : Tree α) : inorder (splay k t).1 = inorder t := by
  cases t with
  | nil => simp [splay, splayGo]
  | node l x r =>
    obtain ⟨s, hs⟩ := splayGo_isSome k (node l x r) [] [] (by simp)
    have := splayGo_inorder k _ _ _ s hs
    simp [splay, hs, inorder, inorder_closeL, inorder_closeR, inorderL, inorderR] at this ⊢
    simpa using this

theorem splayGo_pos (k : α → Int) (t : Tree α) (la : LAcc α) (ra : RAcc α) (s : SplayRes α)
    (hs : splayGo k t la ra = some s) (hm : Mono k (inorder t))
    (hl : ∀ y ∈ inorderL la, k y > 0) (hr : ∀ y ∈ inorderR ra, k y < 0) :
    s.res = k s.x ∧ (∀ y ∈ inorderL s.la, k y > 0) ∧ (∀ y ∈ inorderR s.ra, k y < 0)
      ∧ (s.res < 0 → s.l = nil) ∧ (s.res > 0 → s.r = nil) := by
  fun_induction splayGo k t la ra
  case case1 => simp at hs
  all_goals simp only [Mono, inorder, List.pairwise_append, List.pairwise_cons, List.mem_append,
    List.mem_cons] at hm
  -- terminal cases: the loop breaks
  all_goals first
    | (simp only [Option.some.injEq] at hs; subst hs
       refine ⟨rfl, hl, hr, ?_, ?_⟩ <;> intro h <;> dsimp only at h ⊢ <;> first | rfl | (exfalso; omega))
    | skip
  -- recursive cases: link and descend
  all_goals
    rename_i ih
    refine ih hs ?_ ?_ ?_
    · simp only [Mono, inorder, List.pairwise_append, List.pairwise_cons, List.mem_cons]
      grind
    · first | exact hl | (simp only [inorderL, inorder, List.mem_append, List.mem_cons]; grind)
    · first | exact hr | (simp only [inorderR, inorder, List.mem_append, List.mem_cons]; grind)

/-- What `set_splay` establishes, in terms of the in-order sequence only: the root `x`
    splits the sequence into the elements below the key and those above it, and the
    returned sign is the comparison with the root. -/
theorem splay_root_spec (k : α → Int) (t : Tree α) (ht : t ≠ nil) (hm : Mono k (inorder t)) :
    ∃ L x R, splay k t = (node L x R, k x) ∧ inorder L ++ x :: inorder R = inorder t
      ∧ (∀ y ∈ inorder L, k y > 0) ∧ (∀ y ∈ inorder R, k y < 0) := by
  obtain ⟨s, hs⟩ := splayGo_isSome k t [] [] ht
  have hin := splayGo_inorder k t [] [] s hs
  have hpos := splayGo_pos k t [] [] s hs hm (by simp [inorderL]) (by simp [inorderR])
  obtain ⟨hres, hla, hra, hl, hr⟩ := hpos
  simp only [inorderL, inorderR, List.nil_append, List.append_nil] at hin
  refine ⟨closeL s.la s.l, s.x, closeR s.ra s.r, ?_, ?_, ?_, ?_⟩
  · simp [splay, hs, hres]
  · simp [inorder_closeL, inorder_closeR, ← hin]
  · rw [← hin] at hm
    simp only [Mono, List.pairwise_append, List.pairwise_cons, List.mem_append, List.mem_cons] at hm
    intro y hy
    simp only [inorder_closeL, List.mem_append] at hy
    rcases hy with hy | hy
    · exact hla y hy
    · by_cases hx : k s.x < 0
      · have := hl (by omega); simp [this, inorder] at hy
      · grind
  · rw [← hin] at hm
    simp only [Mono, List.pairwise_append, List.pairwise_cons, List.mem_append, List.mem_cons] at hm
    intro y hy
    simp only [inorder_closeR, List.mem_append] at hy
    rcases hy with hy | hy
    · by_cases hx : k s.x > 0
      · have := hr (by omega); simp [this, inorder] at hy
      · grind
    · exact hra y hy

/-! ## The sorted-list spec at a located position -/

section located
variable (cmp : α → α → Int) (key : α)

theorem specFind_above {Q : List α} (hq : ∀ y ∈ Q, cmp key y < 0) : specFind cmp key Q = none := by
  induction Q with
  | nil => rfl
  | cons y ys ih =>
    have := hq y (by simp)
    simp only [specFind]; rw [if_neg (by omega)]; exact ih (fun z hz => hq z (by simp [hz]))

theorem specFind_located {P Q : List α} {x : α} (hp : ∀ y ∈ P, cmp key y > 0)
    (hq : ∀ y ∈ Q, cmp key y < 0) :
    specFind cmp key (P ++ x :: Q) = if cmp key x = 0 then some x else none := by
  induction P with
  | nil =>
    simp only [List.nil_append, specFind]
    split
    · rfl
    · exact specFind_above cmp key hq
  | cons y ys ih =>
    have := hp y (by simp)
    simp only [List.cons_append, specFind]; rw [if_neg (by omega)]
    exact ih (fun z hz => hp z (by simp [hz]))

theorem specLower_above {Q : List α} (hq : ∀ y ∈ Q, cmp key y < 0) : specLower cmp key Q = Q.head? := by
  cases Q with
  | nil => rfl
  | cons y ys => have := hq y (by simp); simp only [specLower, List.head?]; rw [if_pos (by omega)]

theorem specLower_located {P Q : List α} {x : α} (hp : ∀ y ∈ P, cmp key y > 0)
    (hq : ∀ y ∈ Q, cmp key y < 0) :
    specLower cmp key (P ++ x :: Q) = if cmp key x ≤ 0 then some x else Q.head? := by
  induction P with
  | nil =>
    simp only [List.nil_append, specLower]
    split
    · rfl
    · exact specLower_above cmp key hq
  | cons y ys ih =>
    have := hp y (by simp)
    simp only [List.cons_append, specLower]; rw [if_neg (by omega)]
    exact ih (fun z hz => hp z (by simp [hz]))

theorem specInsert_above {Q : List α} (hq : ∀ y ∈ Q, cmp key y < 0) :
    specInsert cmp key Q = (key :: Q, none) := by
  cases Q with
  | nil => rfl
  | cons y ys => have := hq y (by simp); simp only [specInsert]; rw [if_pos (by omega)]

theorem specInsert_located {P Q : List α} {x : α} (hp : ∀ y ∈ P, cmp key y > 0)
    (hq : ∀ y ∈ Q, cmp key y < 0) :
    specInsert cmp key (P ++ x :: Q) =
      if cmp key x < 0 then (P ++ key :: x :: Q, none)
      else if cmp key x = 0 then (P ++ key :: Q, some x)
      else (P ++ x :: key :: Q, none) := by
  induction P with
  | nil =>
    simp only [List.nil_append, specInsert]
    split
    · rfl
    · split
      · rfl
      · rw [specInsert_above cmp key hq]
  | cons y ys ih =>
    have := hp y (by simp)
    simp only [List.cons_append, specInsert]
    rw [if_neg (by omega), if_neg (by omega), ih (fun z hz => hp z (by simp [hz]))]
    split
    · rfl
    · split <;> rfl

theorem specRemove_above {Q : List α} (hq : ∀ y ∈ Q, cmp key y < 0) :
    specRemove cmp key Q = (Q, none) := by
  induction Q with
  | nil => rfl
  | cons y ys ih =>
    have := hq y (by simp)
    simp only [specRemove]; rw [if_neg (by omega), ih (fun z hz => hq z (by simp [hz]))]

theorem specRemove_located {P Q : List α} {x : α} (hp : ∀ y ∈ P, cmp key y > 0)
    (hq : ∀ y ∈ Q, cmp key y < 0) :
    specRemove cmp key (P ++ x :: Q) =
      if cmp key x = 0 then (P ++ Q, some x) else (P ++ x :: Q, none) := by
  induction P with
  | nil =>
    simp only [List.nil_append, specRemove]
    split
    · rfl
    · rw [specRemove_above cmp key hq]
  | cons y ys ih =>
    have := hp y (by simp)
    simp only [List.cons_append, specRemove]
    rw [if_neg (by omega), ih (fun z hz => hp z (by simp [hz]))]
    split <;> rfl

end located

/-! ## Thread splices at a located position -/

section thread
variable (p : α → Bool) (n : α)

theorem insBefore_located {P Q : List α} {x : α} (hp : ∀ y ∈ P, p y = false) (hx : p x = true) :
    insBefore p n (P ++ x :: Q) = P ++ n :: x :: Q := by
  induction P with
  | nil => simp [insBefore, hx]
  | cons y ys ih => simp [insBefore, hp y (by simp), ih (fun z hz => hp z (by simp [hz]))]

theorem insAfter_located {P Q : List α} {x : α} (hp : ∀ y ∈ P, p y = false) (hx : p x = true) :
    insAfter p n (P ++ x :: Q) = P ++ x :: n :: Q := by
  induction P with
  | nil => simp [insAfter, hx]
  | cons y ys ih => simp [insAfter, hp y (by simp), ih (fun z hz => hp z (by simp [hz]))]

theorem replaceAt_located {P Q : List α} {x : α} (hp : ∀ y ∈ P, p y = false) (hx : p x = true) :
    replaceAt p n (P ++ x :: Q) = P ++ n :: Q := by
  induction P with
  | nil => simp [replaceAt, hx]
  | cons y ys ih => simp [replaceAt, hp y (by simp), ih (fun z hz => hp z (by simp [hz]))]

theorem removeAt_located {P Q : List α} {x : α} (hp : ∀ y ∈ P, p y = false) (hx : p x = true) :
    removeAt p (P ++ x :: Q) = P ++ Q := by
  induction P with
  | nil => simp [removeAt, hx]
  | cons y ys ih => simp [removeAt, hp y (by simp), ih (fun z hz => hp z (by simp [hz]))]

theorem nextOf_located {P Q : List α} {x : α} (hp : ∀ y ∈ P, p y = false) (hx : p x = true) :
    nextOf p (P ++ x :: Q) = Q.head? := by
  induction P with
  | nil => simp [nextOf, hx]
  | cons y ys ih => simp [nextOf, hp y (by simp), ih (fun z hz => hp z (by simp [hz]))]

end thread

/-! ## The container invariant and the abstraction -/

structure Inv (cmp : α → α → Int) (s : SetSt α) : Prop where
  sorted : Sorted cmp (inorder s.tree)
  thread : s.thread = inorder s.tree
  count : s.count = s.thread.length

/-- abstraction map: the sorted sequence of elements -/
def abs (s : SetSt α) : List α := inorder s.tree

theorem inv_init (cmp : α → α → Int) : Inv cmp ({} : SetSt α) :=
  ⟨by simp [Sorted, inorder], by simp [inorder], by simp⟩

section ops
variable {cmp : α → α → Int} (h : CmpLaws cmp)
include h

theorem sorted_insert_mid {P Q : List α} {n : α} (hs : Sorted cmp (P ++ Q))
    (hp : ∀ y ∈ P, cmp n y > 0) (hq : ∀ y ∈ Q, cmp n y < 0) : Sorted cmp (P ++ n :: Q) := by
  simp only [Sorted, List.pairwise_append, List.pairwise_cons, List.mem_cons] at hs ⊢
  refine ⟨hs.1, ⟨hq, hs.2.1⟩, ?_⟩
  intro a ha b hb
  rcases hb with rfl | hb
  · exact (h.gt_iff _ _).1 (hp a ha)
  · exact hs.2.2 a ha b hb

omit h in
theorem sorted_remove_mid {P Q : List α} {x : α} (hs : Sorted cmp (P ++ x :: Q)) : Sorted cmp (P ++ Q) := by
  refine List.Pairwise.sublist ?_ hs
  exact List.Sublist.append_left (List.sublist_cons_self x Q) P

theorem root_locator {P Q : List α} {x : α} (hs : Sorted cmp (P ++ x :: Q)) :
    (∀ y ∈ P, (cmp x y == 0) = false) ∧ (cmp x x == 0) = true := by
  simp only [Sorted, List.pairwise_append, List.pairwise_cons, List.mem_cons] at hs
  refine ⟨fun y hy => ?_, by simp [h.refl]⟩
  have := hs.2.2 y hy x (Or.inl rfl)
  have := (h.antisymm y x).1 this
  simp; omega

omit h in
theorem inorder_eq_nil {t : Tree α} (ht : inorder t = []) : t = nil := by
  cases t with
  | nil => rfl
  | node l x r => simp [inorder] at ht

theorem insert_refines (s : SetSt α) (hi : Inv cmp s) (n : α) :
    specInsert cmp n (abs s) = (abs (s.insert cmp n).1, (s.insert cmp n).2) ∧ Inv cmp (s.insert cmp n).1 := by
  obtain ⟨hsort, hthr, hcnt⟩ := hi
  unfold SetSt.insert abs
  cases ht : s.tree with
  | nil =>
    simp only [ht, inorder] at hsort hthr ⊢
    refine ⟨by simp [specInsert, inorder], ⟨by simp [Sorted, inorder], by simp [inorder], ?_⟩⟩
    simp [hcnt, hthr]
  | node l x r =>
    rw [ht] at hsort hthr
    obtain ⟨L, y, R, hsp, hin, hp, hq⟩ :=
      splay_root_spec (cmp n) (node l x r) (by simp) (mono_of_sorted h n hsort)
    simp only [hsp]
    rw [← hin] at hsort hthr ⊢
    have hloc := root_locator h hsort
    rw [specInsert_located cmp n hp hq]
    by_cases h1 : cmp n y < 0
    · simp only [h1, if_true]
      refine ⟨by simp [inorder], ⟨?_, ?_, ?_⟩⟩
      · simp only [inorder, List.nil_append]
        exact sorted_insert_mid h hsort hp (by intro z hz; rcases List.mem_cons.1 hz with rfl | hz; exact h1; exact hq z hz)
      · simp [hthr, inorder, insBefore_located _ n hloc.1 hloc.2]
      · simp [hcnt, hthr, insBefore_located _ n hloc.1 hloc.2]; omega
    · by_cases h2 : cmp n y > 0
      · have h3 : ¬ cmp n y = 0 := by omega
        simp only [h1, h2, h3, if_true, if_false]
        refine ⟨by simp [inorder], ⟨?_, ?_, ?_⟩⟩
        · simp only [inorder, List.append_nil]
          have := sorted_insert_mid h (P := inorder L ++ [y]) (Q := inorder R) (n := n) (by simpa using hsort)
            (by intro z hz; rcases List.mem_append.1 hz with hz | hz; exact hp z hz; simp at hz; subst hz; exact h2) hq
          simpa using this
        · simp [hthr, inorder, insAfter_located _ n hloc.1 hloc.2]
        · simp [hcnt, hthr, insAfter_located _ n hloc.1 hloc.2]; omega
      · have h3 : cmp n y = 0 := by omega
        simp only [h1, h2, h3, if_true, if_false]
        refine ⟨by simp [inorder], ⟨?_, ?_, ?_⟩⟩
        · exact sorted_insert_mid h (sorted_remove_mid hsort) hp hq
        · simp [hthr, inorder, replaceAt_located _ n hloc.1 hloc.2]
        · simp [hcnt, hthr, replaceAt_located _ n hloc.1 hloc.2]; omega

theorem find_refines (s : SetSt α) (hi : Inv cmp s) (key : α) :
    specFind cmp key (abs s) = (s.find cmp key).2 ∧ abs (s.find cmp key).1 = abs s
      ∧ Inv cmp (s.find cmp key).1 := by
  obtain ⟨hsort, hthr, hcnt⟩ := hi
  unfold SetSt.find abs
  cases ht : s.tree with
  | nil => simp only [inorder]; exact ⟨rfl, by simp [ht, inorder], ⟨by simpa [ht] using hsort, by simpa [ht] using hthr, hcnt⟩⟩
  | node l x r =>
    rw [ht] at hsort hthr
    obtain ⟨L, y, R, hsp, hin, hp, hq⟩ :=
      splay_root_spec (cmp key) (node l x r) (by simp) (mono_of_sorted h key hsort)
    simp only [hsp]
    rw [← hin] at hsort hthr ⊢
    rw [specFind_located cmp key hp hq]
    exact ⟨rfl, by simp [inorder], ⟨by simpa [inorder] using hsort, by simpa [inorder] using hthr, hcnt⟩⟩

theorem lower_refines (s : SetSt α) (hi : Inv cmp s) (key : α) :
    specLower cmp key (abs s) = (s.lower cmp key).2 ∧ abs (s.lower cmp key).1 = abs s
      ∧ Inv cmp (s.lower cmp key).1 := by
  obtain ⟨hsort, hthr, hcnt⟩ := hi
  unfold SetSt.lower abs
  cases ht : s.tree with
  | nil => simp only [inorder]; exact ⟨rfl, by simp [ht, inorder], ⟨by simpa [ht] using hsort, by simpa [ht] using hthr, hcnt⟩⟩
  | node l x r =>
    rw [ht] at hsort hthr
    obtain ⟨L, y, R, hsp, hin, hp, hq⟩ :=
      splay_root_spec (cmp key) (node l x r) (by simp) (mono_of_sorted h key hsort)
    simp only [hsp]
    rw [← hin] at hsort hthr ⊢
    have hloc := root_locator h hsort
    rw [specLower_located cmp key hp hq, hthr, nextOf_located _ hloc.1 hloc.2]
    refine ⟨?_, by simp [inorder], ⟨by simpa [inorder] using hsort, by simp [inorder], by simp [hcnt, hthr]⟩⟩
    by_cases h1 : cmp key y ≤ 0
    · rw [if_pos h1, if_neg (by omega)]
    · rw [if_neg h1, if_pos (by omega)]

theorem remove_refines (s : SetSt α) (hi : Inv cmp s) (key : α) (nd : Bool) :
    (specRemove cmp key (abs s)).1 = abs (s.remove cmp key nd).1
      ∧ (s.remove cmp key nd).2.1 = (specRemove cmp key (abs s)).2.isSome
      ∧ (s.remove cmp key nd).2.2 = (if nd then none else (specRemove cmp key (abs s)).2)
      ∧ Inv cmp (s.remove cmp key nd).1 := by
  obtain ⟨hsort, hthr, hcnt⟩ := hi
  unfold SetSt.remove abs
  cases ht : s.tree with
  | nil =>
    simp only [inorder, specRemove]
    exact ⟨by simp [ht, inorder], rfl, by simp, ⟨by simpa [ht] using hsort, by simpa [ht] using hthr, hcnt⟩⟩
  | node l x r =>
    rw [ht] at hsort hthr
    obtain ⟨L, y, R, hsp, hin, hp, hq⟩ :=
      splay_root_spec (cmp key) (node l x r) (by simp) (mono_of_sorted h key hsort)
    simp only [hsp]
    rw [← hin] at hsort hthr ⊢
    have hloc := root_locator h hsort
    rw [specRemove_located cmp key hp hq]
    by_cases h1 : cmp key y = 0
    · simp only [h1, if_true, ne_eq, not_true_eq_false, if_false]
      have hthr' : removeAt (fun z => cmp y z == 0) s.thread = inorder L ++ inorder R := by
        rw [hthr, removeAt_located _ hloc.1 hloc.2]
      -- the new root: join of L and R
      have hjoin : inorder (joinAfterRemove (cmp key) L R) = inorder L ++ inorder R := by
        unfold joinAfterRemove
        cases hL : L with
        | nil => simp [inorder]
        | node a b c =>
          have hmL : Mono (cmp key) (inorder (node a b c)) := by
            rw [← hL]
            exact mono_of_sorted h key (List.Pairwise.sublist (List.sublist_append_left _ _) hsort)
          obtain ⟨L2, x2, R2, hsp2, hin2, hp2, hq2⟩ :=
            splay_root_spec (cmp key) (node a b c) (by simp) hmL
          have hR2 : inorder R2 = [] := by
            cases hr : inorder R2 with
            | nil => rfl
            | cons z zs =>
              have hz : z ∈ inorder R2 := by simp [hr]
              have h1 := hq2 z hz
              have h2 := hp z (by rw [hL, ← hin2]; simp [hz])
              omega
          simp only [hsp2]
          rw [← hin2, hR2]; simp [inorder]
      refine ⟨hjoin.symm, by simp, by simp, ⟨?_, ?_, ?_⟩⟩
      · dsimp only; rw [hjoin]; exact sorted_remove_mid hsort
      · dsimp only; rw [hjoin, hthr']
      · dsimp only; rw [hthr', hcnt, hthr]; simp
    · simp only [h1, if_false, ne_eq, not_false_eq_true, if_true]
      exact ⟨by simp [inorder], by simp, by simp, ⟨by simpa [inorder] using hsort, by simpa [inorder] using hthr, hcnt⟩⟩

/-- One step: the model's output is the spec's output, the abstraction commutes, the
    invariant is kept. -/
theorem step_refines (s : SetSt α) (hi : Inv cmp s) (op : Op α) :
    stepSpec cmp (abs s) op = (abs (stepModel cmp s op).1, (stepModel cmp s op).2)
      ∧ Inv cmp (stepModel cmp s op).1 := by
  cases op with
  | ins n =>
    obtain ⟨h1, h2⟩ := insert_refines h s hi n
    simp only [stepSpec, stepModel, h1]; exact ⟨trivial, h2⟩
  | find k =>
    obtain ⟨h1, h2, h3⟩ := find_refines h s hi k
    simp only [stepSpec, stepModel, h1, h2]; exact ⟨trivial, h3⟩
  | lower k =>
    obtain ⟨h1, h2, h3⟩ := lower_refines h s hi k
    simp only [stepSpec, stepModel, h1, h2]; exact ⟨trivial, h3⟩
  | rem k nd =>
    obtain ⟨h1, h2, h3, h4⟩ := remove_refines h s hi k nd
    refine ⟨?_, h4⟩
    simp only [stepSpec, stepModel]
    generalize hr : specRemove cmp k (abs s) = res at h1 h2 h3
    obtain ⟨r, od⟩ := res
    cases od with
    | none => simp_all
    | some d => simp_all
  | clear nd =>
    simp only [stepSpec, stepModel, SetSt.clear, abs, inorder]
    refine ⟨?_, inv_init cmp⟩
    rw [hi.count, hi.thread]
  | walk => simp only [stepSpec, stepModel, abs, hi.thread]; exact ⟨trivial, hi⟩
  | back => simp only [stepSpec, stepModel, abs, hi.thread]; exact ⟨trivial, hi⟩
  | size => simp only [stepSpec, stepModel, abs, hi.count, hi.thread]; exact ⟨trivial, hi⟩

theorem inv_step (s : SetSt α) (hi : Inv cmp s) (op : Op α) : Inv cmp (stepModel cmp s op).1 :=
  (step_refines h s hi op).2

/-- final model state after a run -/
def modelFinal (cmp : α → α → Int) : SetSt α → List (Op α) → SetSt α
  | s, [] => s
  | s, op :: ops => modelFinal cmp (stepModel cmp s op).1 ops

def specFinal (cmp : α → α → Int) : List α → List (Op α) → List α
  | xs, [] => xs
  | xs, op :: ops => specFinal cmp (stepSpec cmp xs op).1 ops

theorem run_refines (ops : List (Op α)) (s : SetSt α) (hi : Inv cmp s) :
    runModel cmp s ops = runSpec cmp (abs s) ops
      ∧ abs (modelFinal cmp s ops) = specFinal cmp (abs s) ops
      ∧ Inv cmp (modelFinal cmp s ops) := by
  induction ops generalizing s with
  | nil => exact ⟨rfl, rfl, hi⟩
  | cons op ops ih =>
    obtain ⟨h1, h2⟩ := step_refines h s hi op
    obtain ⟨i1, i2, i3⟩ := ih _ h2
    simp only [runModel, runSpec, modelFinal, specFinal, h1]
    exact ⟨by rw [i1], i2, i3⟩

/-- **C19 (refinement).**  For every operation sequence, the splay-tree-plus-thread model
    produces exactly the outputs of the sorted-list specification. -/
theorem C19_refinement (ops : List (Op α)) :
    runModel cmp ({} : SetSt α) ops = runSpec cmp [] ops := by
  have := (run_refines h ops {} (inv_init cmp)).1
  simpa [abs, inorder] using this

end ops

end Iauthd.Set
