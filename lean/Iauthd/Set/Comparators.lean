import Iauthd.Set.Proofs
/-
  The stock comparators of src/set.c satisfy the order laws the refinement needs —
  except the pinned `set_compare_int` (`*a - *b`), which does not.
-/
set_option linter.unusedSimpArgs false
set_option linter.unusedVariables false
namespace Iauthd.Set

/-- a comparator that looks at a component inherits the laws -/
theorem CmpLaws.comap {α β : Type} {c : β → β → Int} (h : CmpLaws c) (f : α → β) :
    CmpLaws (fun a b => c (f a) (f b)) where
  refl a := h.refl _
  antisymm a b := h.antisymm _ _
  trans a b d := h.trans _ _ _

theorem cmpInt3_laws : CmpLaws cmpInt3 where
  refl a := by simp [cmpInt3]
  antisymm a b := by
    unfold cmpInt3
    constructor <;> intro h <;> split at h <;> split <;> (try split) <;> (try split at h) <;> omega
  trans a b c := by
    unfold cmpInt3
    intro h1 h2
    split at h1 <;> split at h2 <;> split <;> (try split) <;> (try split at h1) <;> (try split at h2) <;> omega

theorem cmpPtr_laws : CmpLaws cmpPtr where
  refl a := by simp [cmpPtr]
  antisymm a b := by
    unfold cmpPtr
    constructor <;> intro h <;> split at h <;> split <;> (try split) <;> (try split at h) <;> omega
  trans a b c := by
    unfold cmpPtr
    intro h1 h2
    split at h1 <;> split at h2 <;> split <;> (try split) <;> (try split at h1) <;> (try split at h2) <;> omega

/-! ### `strcasecmp` -/

open Bytes in
theorem lower_toNat (c : UInt8) :
    (lower c).toNat = if 65 ≤ c.toNat ∧ c.toNat ≤ 90 then c.toNat + 32 else c.toNat := by
  unfold lower
  split
  · rw [UInt8.toNat_add]; have := c.toNat_lt; simp; omega
  · rfl

open Bytes in
theorem lower_pos (c : UInt8) (hc : c ≠ 0) : 0 < (lower c).toNat := by
  rw [lower_toNat]
  have : c.toNat ≠ 0 := fun h => hc (UInt8.toNat_inj.1 (by simpa using h))
  split <;> omega

theorem beq_iff_toNat (a b : UInt8) : (a == b) = true ↔ a.toNat = b.toNat := by
  simp [UInt8.toNat_inj]

theorem cstr_nulfree (s : Bytes) : ∀ c ∈ Bytes.cstr s, c ≠ 0 := by
  induction s with
  | nil => simp [Bytes.cstr]
  | cons x xs ih =>
    simp only [Bytes.cstr]
    split
    · simp
    · intro c hc
      rcases List.mem_cons.1 hc with rfl | hc
      · simp_all
      · exact ih c hc

theorem strcasecmp_refl (a : Bytes) : Bytes.strcasecmp a a = 0 := by
  induction a with
  | nil => rfl
  | cons x xs ih => simp [Bytes.strcasecmp, ih]

theorem strcasecmp_antisymm (a b : Bytes) : Bytes.strcasecmp a b < 0 ↔ Bytes.strcasecmp b a > 0 := by
  induction a generalizing b with
  | nil => cases b <;> simp [Bytes.strcasecmp]
  | cons x xs ih =>
    cases b with
    | nil => simp [Bytes.strcasecmp]
    | cons y ys =>
      simp only [Bytes.strcasecmp]
      by_cases he : Bytes.lower x = Bytes.lower y
      · simp [he, ih]
      · have he' : ¬ Bytes.lower y = Bytes.lower x := fun e => he e.symm
        simp only [beq_iff_eq, he, he', if_false]
        omega

theorem strcasecmp_trans (a b c : Bytes) (ha : ∀ x ∈ a, x ≠ 0) (hb : ∀ x ∈ b, x ≠ 0)
    (h1 : Bytes.strcasecmp a b ≤ 0) (h2 : Bytes.strcasecmp b c ≤ 0) : Bytes.strcasecmp a c ≤ 0 := by
  induction a generalizing b c with
  | nil => cases c <;> simp [Bytes.strcasecmp]
  | cons x xs ih =>
    have hx := lower_pos x (ha x (by simp))
    cases b with
    | nil => simp [Bytes.strcasecmp] at h1; omega
    | cons y ys =>
      have hy := lower_pos y (hb y (by simp))
      cases c with
      | nil => simp [Bytes.strcasecmp] at h2; omega
      | cons z zs =>
        simp only [Bytes.strcasecmp, beq_iff_eq] at h1 h2 ⊢
        by_cases e1 : Bytes.lower x = Bytes.lower y
        · by_cases e2 : Bytes.lower y = Bytes.lower z
          · have e3 : Bytes.lower x = Bytes.lower z := e1.trans e2
            simp only [e1, e2, e3, if_true] at h1 h2 ⊢
            exact ih ys zs (fun w hw => ha w (by simp [hw])) (fun w hw => hb w (by simp [hw])) h1 h2
          · have e3 : ¬ Bytes.lower x = Bytes.lower z := fun e => e2 (e1.symm.trans e)
            simp only [e1, e2, e3, if_true, if_false] at h1 h2 ⊢
            exact h2
        · have n1 : (Bytes.lower x).toNat ≠ (Bytes.lower y).toNat := fun e => e1 (UInt8.toNat_inj.1 e)
          by_cases e2 : Bytes.lower y = Bytes.lower z
          · have e3 : ¬ Bytes.lower x = Bytes.lower z := fun e => e1 (e.trans e2.symm)
            simp only [e1, e2, e3, if_true, if_false] at h1 h2 ⊢
            rw [← e2] at *; exact h1
          · simp only [e1, e2, if_false] at h1 h2
            have n3 : (Bytes.lower x).toNat ≠ (Bytes.lower z).toNat := by omega
            have e3 : ¬ Bytes.lower x = Bytes.lower z := fun e => n3 (by rw [e])
            simp only [e3, if_false]
            omega

theorem cmpCharp_laws : CmpLaws cmpCharp where
  refl a := strcasecmp_refl _
  antisymm a b := strcasecmp_antisymm _ _
  trans a b c h1 h2 := strcasecmp_trans _ _ _ (cstr_nulfree _) (cstr_nulfree _) h1 h2

/-- The pinned `set_compare_int` (`*a - *b` in 32-bit arithmetic) is not an order:
    2147483647 "<" -2 "<" 0 but 2147483647 ">" 0 (F19). -/
theorem cmpIntSub_not_lawful : ¬ CmpLaws cmpIntSub := by
  intro h
  have := h.trans ⟨2147483647, 0⟩ ⟨-2, 0⟩ ⟨0, 0⟩ (by decide) (by decide)
  revert this
  decide

end Iauthd.Set
