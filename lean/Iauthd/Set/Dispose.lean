import Iauthd.Set.Proofs
/-
  Disposal accounting for C19: every inserted element is, at every moment, in exactly
  one of three places — still in the set, handed to the cleanup callback (once), or
  detached by a `no_dispose` removal/clear.
-/
set_option linter.unusedSimpArgs false
namespace Iauthd.Set
variable {α : Type}

def insertedOf : Op α → List α
  | .ins n => [n]
  | _ => []

def disposedOf : Out α → List α
  | .ins d => d.toList
  | .rem _ d => d.toList
  | .clr _ d => d
  | _ => []

/-- elements that leave the set without cleanup (`no_dispose` = true) -/
def detachedOf (cmp : α → α → Int) (xs : List α) : Op α → List α
  | .rem k true => (specRemove cmp k xs).2.toList
  | .clear true => xs
  | _ => []

def insertedAll (ops : List (Op α)) : List α := ops.flatMap insertedOf
def disposedAll (outs : List (Out α)) : List α := outs.flatMap disposedOf

def detachedAll (cmp : α → α → Int) : List α → List (Op α) → List α
  | _, [] => []
  | xs, op :: ops => detachedOf cmp xs op ++ detachedAll cmp (stepSpec cmp xs op).1 ops

theorem specInsert_perm (cmp : α → α → Int) (n : α) (xs : List α) :
    ((specInsert cmp n xs).1 ++ (specInsert cmp n xs).2.toList).Perm (xs ++ [n]) := by
  induction xs with
  | nil => simp [specInsert]
  | cons y ys ih =>
    simp only [specInsert]
    split
    · simpa using (List.perm_append_comm (l₁ := [n]) (l₂ := y :: ys))
    · split
      · simp only [Option.toList]
        -- n :: ys ++ [y]  ~  y :: ys ++ [n]
        have h1 : (n :: ys ++ [y]).Perm (y :: (n :: ys)) := by
          simpa using (List.perm_append_comm (l₁ := n :: ys) (l₂ := [y]))
        have h2 : (y :: (n :: ys)).Perm (y :: (ys ++ [n])) :=
          List.Perm.cons y (by simpa using (List.perm_append_comm (l₁ := [n]) (l₂ := ys)))
        simpa using h1.trans h2
      · simpa using List.Perm.cons y ih

theorem specRemove_perm (cmp : α → α → Int) (k : α) (xs : List α) :
    ((specRemove cmp k xs).1 ++ (specRemove cmp k xs).2.toList).Perm xs := by
  induction xs with
  | nil => simp [specRemove]
  | cons y ys ih =>
    simp only [specRemove]
    split
    · simpa using (List.perm_append_comm (l₁ := ys) (l₂ := [y]))
    · simp; exact ih

/-- one step of the balance: what was live or just inserted is afterwards live, disposed
    in this very step, or detached in this very step -/
theorem dispose_step (cmp : α → α → Int) (xs : List α) (op : Op α) :
    ((stepSpec cmp xs op).1 ++ disposedOf (stepSpec cmp xs op).2 ++ detachedOf cmp xs op).Perm
      (xs ++ insertedOf op) := by
  cases op with
  | ins n => simpa [stepSpec, disposedOf, detachedOf, insertedOf] using specInsert_perm cmp n xs
  | rem k nd =>
    have hp := specRemove_perm cmp k xs
    generalize hr : specRemove cmp k xs = res at hp
    obtain ⟨r, od⟩ := res
    cases od <;> cases nd <;> simp_all [stepSpec, disposedOf, detachedOf, insertedOf]
  | clear nd => cases nd <;> simp [stepSpec, disposedOf, detachedOf, insertedOf]
  | find k => simp [stepSpec, disposedOf, detachedOf, insertedOf]
  | lower k => simp [stepSpec, disposedOf, detachedOf, insertedOf]
  | walk => simp [stepSpec, disposedOf, detachedOf, insertedOf]
  | back => simp [stepSpec, disposedOf, detachedOf, insertedOf]
  | size => simp [stepSpec, disposedOf, detachedOf, insertedOf]

theorem dispose_balance (cmp : α → α → Int) (ops : List (Op α)) (xs : List α) :
    (specFinal cmp xs ops ++ disposedAll (runSpec cmp xs ops) ++ detachedAll cmp xs ops).Perm
      (xs ++ insertedAll ops) := by
  induction ops generalizing xs with
  | nil => simp [specFinal, runSpec, disposedAll, detachedAll, insertedAll]
  | cons op ops ih =>
    have h1 := dispose_step cmp xs op
    have h2 := ih (stepSpec cmp xs op).1
    simp only [specFinal, runSpec, disposedAll, detachedAll, insertedAll, List.flatMap_cons] at h2 ⊢
    -- abbreviations
    generalize (stepSpec cmp xs op).1 = xs' at h1 h2 ⊢
    generalize disposedOf (stepSpec cmp xs op).2 = d at h1 ⊢
    generalize detachedOf cmp xs op = t at h1 ⊢
    generalize specFinal cmp xs' ops = f at h2 ⊢
    generalize List.flatMap disposedOf (runSpec cmp xs' ops) = D at h2 ⊢
    generalize detachedAll cmp xs' ops = T at h2 ⊢
    generalize List.flatMap insertedOf ops = I at h2 ⊢
    -- f ++ (d ++ D) ++ (t ++ T) ~ (f ++ D ++ T) ++ d ++ t ~ (xs' ++ I) ++ d ++ t ~ (xs' ++ d ++ t) ++ I ~ xs ++ ins ++ I
    have e1 : (f ++ (d ++ D) ++ (t ++ T)).Perm ((f ++ D ++ T) ++ (d ++ t)) := by
      simp only [List.append_assoc]
      refine List.Perm.append_left f ?_
      -- d ++ (D ++ (t ++ T)) ~ D ++ (T ++ (d ++ t))
      have a : (d ++ (D ++ (t ++ T))).Perm ((D ++ (t ++ T)) ++ d) := List.perm_append_comm
      have b : ((D ++ (t ++ T)) ++ d).Perm (D ++ (T ++ (d ++ t))) := by
        simp only [List.append_assoc]
        refine List.Perm.append_left D ?_
        have c : (t ++ (T ++ d)).Perm ((T ++ d) ++ t) := List.perm_append_comm
        simpa using c
      exact a.trans b
    have e2 : ((f ++ D ++ T) ++ (d ++ t)).Perm ((xs' ++ I) ++ (d ++ t)) := List.Perm.append_right _ h2
    have e3 : ((xs' ++ I) ++ (d ++ t)).Perm ((xs' ++ d ++ t) ++ I) := by
      simp only [List.append_assoc]
      refine List.Perm.append_left xs' ?_
      simpa using (List.perm_append_comm (l₁ := I) (l₂ := d ++ t))
    have e4 : ((xs' ++ d ++ t) ++ I).Perm ((xs ++ insertedOf op) ++ I) := List.Perm.append_right _ h1
    simpa using e1.trans (e2.trans (e3.trans e4))

/-- **C19 (disposal).**  For the model driven from the empty set: the elements ever
    inserted are exactly (as a multiset) those still in the set, those handed to the
    cleanup callback, and those detached with `no_dispose`.  Hence, when the inserted
    elements are pairwise distinct, no element is disposed twice and no disposed element
    is still in the set. -/
theorem C19_dispose_once {cmp : α → α → Int} (h : CmpLaws cmp) (ops : List (Op α)) :
    (abs (modelFinal cmp {} ops) ++ disposedAll (runModel cmp {} ops) ++ detachedAll cmp [] ops).Perm
        (insertedAll ops)
    ∧ ((insertedAll ops).Nodup →
        (disposedAll (runModel cmp {} ops)).Nodup
        ∧ ∀ x ∈ disposedAll (runModel cmp {} ops), x ∉ abs (modelFinal cmp {} ops)) := by
  obtain ⟨r1, r2, _⟩ := run_refines h ops {} (inv_init cmp)
  have hb := dispose_balance cmp ops []
  have habs : abs ({} : SetSt α) = [] := by simp [abs, Tree.inorder]
  rw [habs] at r1 r2
  rw [r1, r2]
  refine ⟨by simpa using hb, fun hnd => ?_⟩
  have hnd' := (List.Perm.nodup_iff (by simpa using hb)).2 hnd
  have h1 := List.nodup_append.1 hnd'
  have h2 := List.nodup_append.1 h1.2.1
  refine ⟨h2.1, fun x hx hx' => ?_⟩
  exact h1.2.2 x hx' x (List.mem_append_left _ hx) rfl

end Iauthd.Set
