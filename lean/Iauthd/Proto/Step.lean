import Iauthd.Proto.Handlers
/-
  The global step: line dispatch (`iauth_read`), client announcement, info requests,
  start-up banner, configuration delivery to the xquery and class modules, end of input.
-/
namespace Iauthd.Proto
open Iauthd

def State.static (s : State) : Static := { need := s.need, hasXq := s.hasXq, hasClass := s.hasClass }

/-- run a per-request handler on a live request and write the result back -/
def withReq (s : State) (r : Req) (f : Ctx → M Ctx) : M (State × List Bytes) := do
  let c ← f { req := r, svcs := s.svcs, rules := s.rules, stats := s.stats, lim := s.lim }
  let reqs := if c.gone then removeReq r.client s.reqs else putReq c.req s.reqs
  pure ({ s with reqs := reqs, svcs := c.svcs, rules := c.rules, stats := c.stats }, c.out)

/-! ### configuration sections as the modules see them -/

/-- one child of a config object: name (as first seen), value if it is a string node,
    children if it is an object node -/
structure CNode where
  name : Bytes
  isString : Bool := true
  value : Bytes := []
  kids : List (Bytes × Bytes) := []      -- string children of an object node: (name, value)
  deriving Repr, BEq, DecidableEq, Inhabited

/-- order of `conf_object_cmp`: strcasecmp of names, then node type (string < object) -/
def cnodeLt (a b : CNode) : Bool :=
  let c := Bytes.strcasecmp a.name b.name
  c < 0 || (c == 0 && a.isString && !b.isString)
def cnodeEqKey (a b : CNode) : Bool := Bytes.strcasecmp a.name b.name == 0 && a.isString == b.isString

def insertCNode (n : CNode) : List CNode → List CNode
  | [] => [n]
  | m :: ms => if cnodeEqKey n m then { n with name := m.name } :: ms   -- live node keeps its name
               else if cnodeLt n m then n :: m :: ms else m :: insertCNode n ms

def sortSection (l : List CNode) : List CNode := l.foldl (fun acc n => insertCNode n acc) []

/-- the live section after merging a new file's section into it (`conf_replace_value` on
    an object whose children are all unregistered): entries the file omits are dropped, new
    ones are spliced in, and an entry present in both takes the file's value *and the file's
    spelling of its name* (names compare ignoring case).  What is left of the live section
    is therefore nothing: the result is the file's section in set order. -/
def mergeSection (_live new : List CNode) : List CNode := sortSection new

structure Config where
  timeout : Nat := 0
  xq : List CNode := []
  cls : List CNode := []
  deriving Repr, BEq, Inhabited

/-! ### xquery: `iauth_xquery_services_changed` -/

def typeOfText (t : Bytes) : Option SvcTy :=
  if Bytes.strcasecmp t (b "login") == 0 then some .login
  else if Bytes.strcasecmp t (b "login-ipr") == 0 then some .loginIpr
  else if Bytes.strcasecmp t (b "dronecheck") == 0 then some .dronecheck
  else if Bytes.strcasecmp t (b "combined") == 0 then some .combined
  else none

def findSvcByName (svcs : List (Option Svc)) (name : Bytes) : Option Nat :=
  svcs.findIdx? fun s => match s with | some srv => Bytes.strcmp srv.name name == 0 | none => false

/-- `iauth_xquery_config_service` (with the slot-reuse path falling through to the type
    lookup) -/
def configService (svcs : List (Option Svc)) (stats : Stats) (name ty : Bytes) : List (Option Svc) × Stats :=
  let (svcs, stats, i) :=
    match findSvcByName svcs name with
    | some i => (svcs, stats, i)
    | none =>
      let stats := { stats with srvAllocs := stats.srvAllocs + 1 }
      let srv : Svc := { name := name }
      match List.findIdx? (fun (o : Option Svc) => o.isNone) svcs with
      | some i => (svcs.set i (some srv), stats, i)
      | none => (svcs ++ [some srv], stats, svcs.length)
  match svcs.getD i none with
  | none => (svcs, stats)
  | some srv =>
    match typeOfText ty with
    | some t => (svcs.set i (some { srv with ty := t, configured := true }), stats)
    | none => (svcs.set i (some { srv with configured := false }), stats)

def unrefAll (svcs : List (Option Svc)) (stats : Stats) : List (Option Svc) × Stats :=
  (List.range svcs.length).foldl (fun (acc : List (Option Svc) × Stats) i =>
    match acc.1.getD i none with
    | some srv =>
      if srv.refs > 0 || srv.configured then acc
      else (acc.1.set i none, { acc.2 with srvFrees := acc.2.srvFrees + 1 })
    | none => acc) (svcs, stats)

def servicesChanged (s : State) (sec : List CNode) : State :=
  let svcs := s.svcs.map fun o => o.map fun srv => { srv with configured := false }
  let (svcs, stats) := sec.foldl (fun (acc : List (Option Svc) × Stats) n =>
    if n.isString then configService acc.1 acc.2 n.name (cstr n.value) else acc) (svcs, s.stats)
  let (svcs, stats) := unrefAll svcs stats
  { s with svcs := svcs, stats := stats }

/-! ### class: `iauth_class_conf_changed` -/

def kidValue (n : CNode) (key : String) : Option Bytes :=
  (n.kids.find? fun kv => Bytes.strcasecmp kv.1 (b key) == 0).map fun kv => cstr kv.2

def parseBoolean (v : Bytes) : Bool :=
  v == b "1" || v == b "true" || v == b "on" || v == b "enabled" || v == b "yes"

def compileRule (n : CNode) : Rule :=
  let (addr, bits) :=
    match kidValue n "address" with
    | some v =>
      match ptonC v true with
      | .ok res => (res.addr, res.bits.getD 0)
      | .error _ => (Addr.Addr.zero, 0)
    | none => (Addr.Addr.zero, 0)
  { name := n.name, cls := kidValue n "class", account := kidValue n "account",
    username := kidValue n "username", hostname := kidValue n "hostname",
    xreplyOk := kidValue n "xreply_ok", addr := addr, bits := bits,
    trustUsername := (kidValue n "trust_username").map parseBoolean |>.getD false }

/-- inherit hit counters from the old rule vector by the merge walk of the C code -/
def inheritAssigned : List Rule → List Rule → List Rule
  | [], _ => []
  | r :: rs, old =>
    let old' := old.dropWhile fun o => Bytes.strcasecmp o.name r.name < 0
    match old' with
    | o :: _ =>
      if Bytes.strcasecmp o.name r.name == 0 then { r with assigned := o.assigned } :: inheritAssigned rs old'
      else r :: inheritAssigned rs old'
    | [] => r :: inheritAssigned rs []

def classChanged (s : State) (sec : List CNode) : State :=
  let rules := (sec.filter (!·.isString)).map compileRule
  { s with rules := inheritAssigned rules s.rules, nRuleNodes := sec.length }

/-! ### announcements -/

def portOf (arg : Bytes) : Nat := ((strtol 10 arg).1 % 65536).toNat

/-- `parse_new_client` with `argc ≥ 5` -/
def newClient (s : State) (id : Int) (addrText portText : Bytes) : M (State × List Bytes) := do
  let res ← match ptonC addrText false with
    | .ok r => pure r
    | .error _ => throw (Fault.assertFail "irc_pton touched memory outside its arguments")
  let serial := (s.serial + 1) % 4294967296
  let old := findReq s.reqs id
  let stats := { s.stats with reqAllocs := s.stats.reqAllocs + 1 }
  -- a live request with the same id is replaced and disposed (no "frees" statistic)
  let stats := match old with
    | some o => { stats with dataFrees := stats.dataFrees + (if o.xq.isSome then 1 else 0) }
    | none => stats
  let r : Req := {
    client := id, serial := serial, addr := res.addr, port := portOf portText,
    textAddr := ntopC res.addr,
    timer := if s.timeout > 0 then .armed else .none }
  let (r, stats) := if s.hasXq then ({ r with xq := some {} }, { stats with cliAllocs := stats.cliAllocs + 1 }) else (r, stats)
  pure ({ s with serial := serial, stats := stats, reqs := insertReq r s.reqs }, [])

/-! ### info requests -/

def collectConfig (s : State) : List Bytes :=
  [sendRaw (b "a")]
  ++ (if s.hasClass then [reportConfig (b "class") (decNat s.nRuleNodes ++ b " rules")] else [])
  ++ (if s.hasXq then
        s.svcs.filterMap fun o => o.map fun srv =>
          reportConfig (b "xquery") ((if srv.configured then b " " else b "-") ++ srv.name ++ sp ++ srv.ty.name)
      else [])

def collectStats (s : State) (terminatorLast : Bool) : List Bytes :=
  (if terminatorLast then [] else [sendRaw (b "s")])
  ++ [reportStatsCore s]
  ++ (if s.hasClass then
        (s.rules.map fun r =>
          match r.cls with
          | some c => reportStats (b "class") (r.name ++ b " (class " ++ c ++ b "): " ++ decNat r.assigned ++ b " hits")
          | none => reportStats (b "class") (r.name ++ b ": " ++ decNat r.assigned ++ b " hits"))
        ++ [reportStats (b "class") (decNat s.stats.clsAlready ++ b " clients already had classes, "
              ++ decNat s.stats.clsAssigned ++ b " assigned (in T sec), " ++ decNat s.stats.clsNot ++ b " unassigned (in T sec)")]
      else [])
  ++ (if s.hasXq then
        [reportStats (b "xquery") (b "service queries ok ok+a bad bad/a unlinked")]
        ++ (s.svcs.filterMap fun o => o.map fun srv =>
              reportStats (b "xquery") ((if srv.configured then b " " else b "-") ++ srv.name ++ sp ++ decNat srv.queries
                ++ sp ++ decNat srv.goodAcct ++ sp ++ decNat srv.goodNoAcct ++ sp ++ decNat srv.bad ++ sp ++ decNat srv.badAcct
                ++ sp ++ decNat srv.unlinked))
        ++ [reportStats (b "xquery") (decNat s.stats.srvAllocs ++ b "-" ++ decNat s.stats.srvFrees ++ b " srv alloc, "
              ++ decNat s.stats.cliAllocs ++ b " clients alloc")]
      else [])
  ++ (if terminatorLast then [sendRaw (b "s")] else [])
where
  reportStatsCore (s : State) : Bytes :=
    sendRaw (b "S iauth :" ++ decNat s.stats.reqAllocs ++ b "-" ++ decNat s.stats.reqFrees ++ b " reqs alloc, "
      ++ decNat s.reqs.length ++ b " in use; " ++ decNat s.stats.dataFrees ++ b " data frees")

/-- `iauth_startup`; the version text comes from the regenerated constants -/
def startup (s : State) (versionLine : Bytes) : List Bytes :=
  [sendRaw (b "V :" ++ versionLine)] ++ collectConfig s
  ++ (if s.hasXq then [sendRaw (b "O SARUW")] else [])

/-! ### `iauth_validate_request` -/

/-- the routing tag names (id, serial); `none` = malformed or out of range -/
def parseTag (tag : Bytes) : Option (Int × Nat) :=
  let (idv, e) := strtol 16 tag
  if e == 0 || tag.getD e 0 != 95 then none       -- sep == routing || sep[0] != '_'
  else
    let rest := tag.drop (e + 1)
    let (sv, e2) := strtoul 16 rest
    if e2 == 0 || e2 < rest.length then none       -- sep == routing || sep[0] != '\0'
    else if idv < 0 || idv > 4294967295 || sv > 4294967295 then none
    else some (toInt32 idv, sv)

def validateRequest (s : State) (tag : Bytes) : Option Req :=
  match parseTag tag with
  | none => none
  | some (id, serial) =>
    match findReq s.reqs id with
    | some r => if r.serial == serial then some r else none
    | none => none

/-! ### the dispatcher -/

def arg (l : Line) (i : Nat) : Option Bytes := l.argv[i]?

/-- "ircd sent garbage": a per-client command with id -1 -/
def garbage (s : State) (c : String) : M (State × List Bytes) :=
  pure (s, [sendOpers (b ("ircd sent garbage: -1 " ++ c ++ " ..."))])

/-- deliver a server event to the looked-up request -/
def onReq (s : State) (req? : Option Req) (c : String) (ev : Ev) : M (State × List Bytes) :=
  match req? with
  | none => garbage s c
  | some r => withReq s r fun ctx => reqEvent s.static ctx ev

/-- D / T: the request goes away -/
def dropReq (s : State) (req? : Option Req) (c : String) : M (State × List Bytes) :=
  match req? with
  | none => garbage s c
  | some r => withReq s r fun ctx => pure (finishReq ctx)

/-- X / x -/
def onReply (s : State) (l : Line) (isX : Bool) : M (State × List Bytes) :=
  if l.argv.length < 4 || !s.hasXq then pure (s, [])
  else
    match validateRequest s ((arg l 2).getD []) with
    | none => pure (s, [])
    | some r =>
      withReq s r fun ctx => xqReply s.static ctx ((arg l 1).getD []) (if isX then arg l 3 else none)

/-- `?` -/
def onInfo (s : State) (l : Line) : M (State × List Bytes) :=
  if l.argv.length < 2 then pure (s, [])
  else
    let what := (arg l 1).getD []
    if what == b "config" then pure (s, collectConfig s)
    else if what == b "stats" then pure (s, collectStats s false)
    else if what == b "stats2" then pure (s, collectStats s true)
    else pure (s, [])

/-- the `switch (argv[0][0])` of `iauth_read` -/
def dispatch (s : State) (l : Line) (cmd : UInt8) (req? : Option Req) : M (State × List Bytes) :=
  let argc := l.argv.length
  if cmd == 67 then                                   -- 'C'
    if argc < 5 then pure (s, [])
    else newClient s l.id ((arg l 1).getD []) ((arg l 2).getD [])
  else if cmd == 68 then dropReq s req? "D"           -- 'D'
  else if cmd == 78 then                              -- 'N'
    if req?.isSome && argc < 2 then pure (s, [])
    else onReq s req? "N" (.hostname (if req?.isSome then some ((arg l 1).getD []) else arg l 1))
  else if cmd == 100 then onReq s req? "d" .noHostname
  else if cmd == 80 then                              -- 'P'
    if req?.isSome && argc < 2 then pure (s, [])
    else onReq s req? "P" (.password (if req?.isSome then some ((arg l 1).getD []) else arg l 1))
  else if cmd == 85 then                              -- 'U'
    match req? with
    | none => garbage s "U"
    | some r =>
      if argc < 3 then pure (s, [sendOpers (b "ircd sent garbage: <id> U without realname")])
      else withReq s r fun ctx => reqEvent s.static ctx (.userInfo ((arg l 1).getD []) ((arg l 2).getD []))
  else if cmd == 117 then onReq s req? "u" (.ident (arg l 1))
  else if cmd == 110 then                             -- 'n'
    if req?.isSome && argc < 2 then pure (s, [])
    else onReq s req? "n" (.nick (if req?.isSome then some ((arg l 1).getD []) else arg l 1))
  else if cmd == 72 then onReq s req? "H" .hurry
  else if cmd == 84 then dropReq s req? "T"
  else if cmd == 88 then onReply s l true
  else if cmd == 120 then onReply s l false
  else if cmd == 63 then onInfo s l
  else pure (s, [])                                   -- E, M and unknown letters

/-- one complete input line (already cut at its first NUL) -/
def stepLine (s : State) (raw : Bytes) : M (State × List Bytes) :=
  let l := tokenize raw
  match l.argv with
  | [] => pure (s, [])                                   -- nothing but an id / blanks
  | a0 :: _ =>
    let cmd := a0.getD 0 0      -- argv[0][0]; an empty argv[0] (":" alone) reads the NUL
    let req? := if l.id == -1 || cmd == 67 then none else findReq s.reqs l.id
    if l.id != -1 && cmd != 67 && req?.isNone then pure (s, [])
    else dispatch s l cmd req?

/-- the request's one-shot timer fires -/
def stepTimeout (s : State) (id : Int) : M (State × List Bytes × Bool) :=
  match findReq s.reqs id with
  | some r =>
    if r.timer == .armed then do
      let (s, out) ← withReq s r fun ctx => reqEvent s.static ctx .timeout
      pure (s, out, true)
    else pure (s, [], false)
  | none => pure (s, [], false)

/-- the `while ((line = evbuffer_readln(...)))` loop over complete lines: empty lines are
    skipped, every other line is a C string (cut at its first NUL) -/
def stepLines : State → List Bytes → M (State × List Bytes)
  | s, [] => pure (s, [])
  | s, ln :: rest =>
    if ln.isEmpty then stepLines s rest
    else do
      let (s1, o1) ← stepLine s (cstr ln)
      let (s2, o2) ← stepLines s1 rest
      pure (s2, o1 ++ o2)

/-- feed a chunk of bytes (`evbuffer_read` + the `evbuffer_readln` loop).  The unconsumed
    tail stays in the evbuffer; no handler can see it, so the lines are processed with the
    field cleared and the tail is stored afterwards. -/
def stepChunk (s : State) (chunk : Bytes) : M (State × List Bytes) :=
  let (lines, tail) := splitLines (s.inbuf ++ chunk)
  (stepLines { s with inbuf := [] } lines).map fun r => ({ r.1 with inbuf := tail }, r.2)

/-- The service sections `iauth_xquery` is shown, one after the other, while
    `conf_replace_value` merges a new file's section (`new`, in set order) into the live one
    (`live`).  The module hears of a reload through two hooks: the forwarding hook it put on
    every string entry (run as soon as that entry's value changes or goes away, with the
    entries before it already merged and those after it still old) and the section's own
    hook (run once at the end, when the membership changed: an entry added, removed, or
    spelled differently).  Each run rescans the section as it is at that moment.
    `done` = the part already merged, `m` = the C function's `modified`. -/
def rescanWalk : List CNode → List CNode → List CNode → Bool → List (List CNode)
  | done, [], [], m => if m then [done] else []
  | done, t :: ts, [], _ =>
    -- no longer present: the entry loses its value (its hook runs), then leaves the set
    (if t.isString then [done ++ ts] else []) ++ rescanWalk done ts [] true
  | done, [], n :: ns, _ => rescanWalk (done ++ [n]) [] ns true      -- spliced over
  | done, t :: ts, n :: ns, m =>
    if cnodeEqKey t n then
      (if t.isString && t.value != n.value then [done ++ n :: ts] else []) ++
        rescanWalk (done ++ [n]) ts ns (m || t.name != n.name)
    else if cnodeLt t n then
      (if t.isString then [done ++ ts] else []) ++ rescanWalk done ts (n :: ns) true
    else rescanWalk (done ++ [n]) (t :: ts) ns true
termination_by _ live new _ => live.length + new.length
decreasing_by all_goals (simp only [List.length_cons, List.length_nil]; omega)

/-- `iauth_xquery` learns of a configuration: at start-up it scans the section once; on a
    reload it rescans at every hook run of the merge -/
def deliverXq (s : State) (live xq : List CNode) (first : Bool) : State :=
  if first then servicesChanged s xq else (rescanWalk [] live xq false).foldl servicesChanged s

/-- install a configuration (first load or reload): deliver the sections to the modules
    whose section changed -/
def applyConfig (s : State) (live : Config) (new : Config) (first : Bool) : State × Config :=
  let xq := mergeSection live.xq new.xq
  let cls := mergeSection live.cls new.cls
  let s := { s with timeout := new.timeout }
  let s := if s.hasXq then deliverXq s live.xq xq first else s
  let s := if s.hasClass && (first || cls != live.cls) then classChanged s cls else s
  (s, { timeout := new.timeout, xq := xq, cls := cls })

end Iauthd.Proto
