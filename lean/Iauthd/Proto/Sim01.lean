import Iauthd.Proto.Trace01
import Iauthd.Proto.RenderStep
import Iauthd.Proto.Props
/-
  C01: the model's histories satisfy `Spec01` — simulation between the request table and the
  reader's per-id record, one step at a time.
-/
set_option linter.unusedSimpArgs false
set_option linter.unusedVariables false
namespace Iauthd.Proto
open Iauthd Iauthd.Proto.Hist Iauthd.Proto.Spec01

/-! ### the table after a step -/

theorem find_removeReq_self (reqs : List Req) (k : Int) : findReq (removeReq k reqs) k = none := by
  unfold findReq removeReq
  rw [List.find?_eq_none]
  intro x hx
  have := (List.mem_filter.mp hx).2
  simpa using this

theorem find_putReq_self (reqs : List Req) (r q : Req) (h : findReq reqs r.client = some q) :
    findReq (putReq r reqs) r.client = some r := by
  unfold findReq putReq at *
  induction reqs with
  | nil => simp at h
  | cons x xs ih =>
    simp only [List.map_cons, List.find?_cons] at h ⊢
    by_cases hx : (x.client == r.client) = true
    · simp [hx]
    · simp only [hx, if_false, Bool.false_eq_true] at h ⊢
      exact ih h

theorem find_insertReq_self (reqs : List Req) (r : Req) : findReq (insertReq r reqs) r.client = some r := by
  unfold findReq
  induction reqs with
  | nil => simp [insertReq]
  | cons q qs ih =>
    unfold insertReq
    split
    · simp
    · split
      · simp
      · rename_i h1 h2
        simp only [List.find?_cons]
        have : (q.client == r.client) = false := by
          cases hq : (q.client == r.client) with
          | false => rfl
          | true =>
            exfalso; apply h2
            simp only [beq_iff_eq] at hq ⊢
            exact hq.symm
        simp only [this, Bool.false_eq_true, if_false]
        exact ih

/-! ### one handler run seen by the reader -/

/-- the reader's record of request `r0` before its handler runs -/
structure Rec (t : T1) (r0 : Req) (soft : Bool) : Prop where
  live : ∃ i, t.live r0.client = some i ∧ i.soft = soft ∧ (i.serial = none ∨ i.serial = some r0.serial)
  open_ : t.closed r0.client = false

theorem outLine_info {t : T1} {r0 : Req} {s : Bool} {l : Bytes} (hr : HeadOK r0) (hrec : Rec t r0 s)
    (hl : IsLine r0 .info l) : outLine t l = t := by
  cases hl with
  | info letter rest hlet hrest =>
    have hmem : letter ∈ clientLetters := by rcases hlet with rfl | rfl | rfl <;> decide
    obtain ⟨more, hp⟩ := sendReq_parse hmem hr hrest
    obtain ⟨i, hi, _, _⟩ := hrec.live
    unfold outLine
    rw [hp]
    simp only [hrec.open_, Bool.false_eq_true, if_false, hi]
    have h1 : (letter == 100) = false := by rcases hlet with rfl | rfl | rfl <;> decide
    have h2 : isVerdict letter = false := by rcases hlet with rfl | rfl | rfl <;> decide
    simp [h1, h2]

theorem shape_fold {r0 : Req} (hr : HeadOK r0) (hs : r0.serial < 4294967296) :
    ∀ {s s' g : Bool} {ls : List Bytes}, Shape r0 s ls s' g → ∀ (t : T1), Rec t r0 s →
      (ls.foldl outLine t).ok = t.ok ∧
      (∀ id, id ≠ r0.client → (ls.foldl outLine t).live id = t.live id ∧ (ls.foldl outLine t).closed id = t.closed id) ∧
      (ls.foldl outLine t).closed r0.client = g ∧
      (if g then (ls.foldl outLine t).live r0.client = none
       else ∃ i, (ls.foldl outLine t).live r0.client = some i ∧ i.soft = s' ∧ (i.serial = none ∨ i.serial = some r0.serial)) := by
  intro s s' g ls hsh
  induction hsh with
  | nil s =>
    intro t hrec
    refine ⟨rfl, fun _ _ => ⟨rfl, rfl⟩, hrec.open_, ?_⟩
    simp only [Bool.false_eq_true, if_false, List.foldl_nil]
    exact hrec.live
  | info hl _ ih =>
    intro t hrec
    simp only [List.foldl_cons]
    rw [outLine_info hr hrec hl]
    exact ih t hrec
  | @query s s' g l ls hl _ ih =>
    intro t hrec
    simp only [List.foldl_cons]
    obtain ⟨i, hi, hsoft, hser⟩ := hrec.live
    cases hl with
    | query svc payload hsv hp =>
      obtain ⟨p', hp'⟩ := xquery_parse r0 hsv.1 hsv.2.1 hsv.2.2 hr.client.1 hr.client.2 hs hp
      have hstep : outLine t (xquery svc (routing r0) payload) = t.put r0.client { i with serial := some r0.serial } := by
        unfold outLine
        rw [hp']
        simp only [hi, hrec.open_, Bool.false_or]
        have : (i.serial.isSome && i.serial != some r0.serial) = false := by
          rcases hser with h | h <;> simp [h]
        simp [this]
      rw [hstep]
      have hrec' : Rec (t.put r0.client { i with serial := some r0.serial }) r0 s :=
        ⟨⟨{ i with serial := some r0.serial }, by simp [T1.put], hsoft, Or.inr rfl⟩, hrec.open_⟩
      obtain ⟨a1, a2, a3, a4⟩ := ih _ hrec'
      refine ⟨a1, ?_, a3, a4⟩
      intro id hne
      obtain ⟨b1, b2⟩ := a2 id hne
      exact ⟨by rw [b1]; simp [T1.put, hne], b2⟩
  | @soft s' g l ls hl _ ih =>
    intro t hrec
    simp only [List.foldl_cons]
    obtain ⟨i, hi, hsoft, hser⟩ := hrec.live
    cases hl with
    | soft =>
      obtain ⟨more, hp⟩ := sendReq_parse mem_letters_d hr RestOK.bare_d
      have hstep : outLine t (sendReq r0 [100] []) = t.put r0.client { i with soft := true } := by
        unfold outLine
        rw [hp]
        simp only [hrec.open_, Bool.false_eq_true, if_false, hi, beq_self_eq_true, if_true, hsoft]
      rw [hstep]
      have hrec' : Rec (t.put r0.client { i with soft := true }) r0 true :=
        ⟨⟨{ i with soft := true }, by simp [T1.put], rfl, hser⟩, hrec.open_⟩
      obtain ⟨a1, a2, a3, a4⟩ := ih _ hrec'
      refine ⟨a1, ?_, a3, a4⟩
      intro id hne
      obtain ⟨b1, b2⟩ := a2 id hne
      exact ⟨by rw [b1]; simp [T1.put, hne], b2⟩
  | @verdict s l hl =>
    intro t hrec
    obtain ⟨i, hi, hsoft, hser⟩ := hrec.live
    cases hl with
    | verdict letter rest hlet hrest =>
      have hmem : letter ∈ clientLetters := by rcases hlet with rfl | rfl | rfl <;> decide
      obtain ⟨more, hp⟩ := sendReq_parse hmem hr hrest
      have h1 : (letter == 100) = false := by rcases hlet with rfl | rfl | rfl <;> decide
      have h2 : isVerdict letter = true := by rcases hlet with rfl | rfl | rfl <;> decide
      have hstep : outLine t (sendReq r0 [letter] rest) =
          { (t.close r0.client) with closed := fun j => if j = r0.client then true else t.closed j } := by
        unfold outLine
        rw [hp]
        simp only [hrec.open_, Bool.false_eq_true, if_false, hi, h1, h2, if_true]
      simp only [List.foldl_cons, List.foldl_nil, hstep, if_true]
      refine ⟨rfl, ?_, by simp, by simp [T1.close]⟩
      intro id hne
      simp [T1.close, hne]

/-! ### lines that name nobody -/

/-- a line that begins with one of the letters of the global messages -/
def GHead (l : Bytes) : Prop := ∃ c x, l = c :: x ∧ (c = 62 ∨ c = 97 ∨ c = 65 ∨ c = 115 ∨ c = 83 ∨ c = 86 ∨ c = 79)

theorem outLine_ghead (t : T1) {l : Bytes} (h : GHead l) : outLine t l = t := by
  obtain ⟨c, x, rfl, hc⟩ := h
  have h32 : c ≠ 32 := by rcases hc with rfl | rfl | rfl | rfl | rfl | rfl | rfl <;> decide
  have h58 : c ≠ 58 := by rcases hc with rfl | rfl | rfl | rfl | rfl | rfl | rfl <;> decide
  have hcl : c ∉ clientLetters := by rcases hc with rfl | rfl | rfl | rfl | rfl | rfl | rfl <;> decide
  have h88 : c ≠ 88 := by rcases hc with rfl | rfl | rfl | rfl | rfl | rfl | rfl <;> decide
  obtain ⟨n1, n2⟩ := parseOut_neutral c x h32 h58 hcl h88
  exact outLine_neutral t _ n1 n2

def AllG (ls : List Bytes) : Prop := ∀ l ∈ ls, GHead l

theorem fold_allG (t : T1) : ∀ (ls : List Bytes), AllG ls → ls.foldl outLine t = t
  | [], _ => rfl
  | l :: ls, h => by
    simp only [List.foldl_cons]
    rw [outLine_ghead t (h l (List.mem_cons_self ..))]
    exact fold_allG t ls (fun x hx => h x (List.mem_cons_of_mem _ hx))

theorem AllG.nil : AllG [] := by intro l hl; cases hl
theorem AllG.single {x : Bytes} (h : GHead x) : AllG [x] := by
  intro l hl; simp only [List.mem_singleton] at hl; subst hl; exact h
theorem AllG.append {a c : List Bytes} (ha : AllG a) (hc : AllG c) : AllG (a ++ c) := by
  intro l hl; rcases List.mem_append.1 hl with h | h; exact ha l h; exact hc l h
theorem AllG.ite {p : Prop} [Decidable p] {a c : List Bytes} (ha : AllG a) (hc : AllG c) : AllG (if p then a else c) := by
  split; exact ha; exact hc
theorem AllG.map {α : Type} (f : α → Bytes) (xs : List α) (h : ∀ x, GHead (f x)) : AllG (xs.map f) := by
  intro l hl; obtain ⟨x, _, rfl⟩ := List.mem_map.1 hl; exact h x
theorem AllG.filterMapOpt {α : Type} (f : α → Bytes) (xs : List (Option α)) (h : ∀ x, GHead (f x)) :
    AllG (xs.filterMap fun o => o.map f) := by
  intro l hl
  obtain ⟨o, _, ho⟩ := List.mem_filterMap.1 hl
  cases o with
  | none => simp at ho
  | some x => simp only [Option.map_some, Option.some.injEq] at ho; subst ho; exact h x

theorem ghead_raw (c : UInt8) (x : Bytes) (hc : c = 62 ∨ c = 97 ∨ c = 65 ∨ c = 115 ∨ c = 83 ∨ c = 86 ∨ c = 79) :
    GHead (sendRaw (c :: x)) := ⟨c, x.take 1022, by simp [sendRaw, truncBuf], hc⟩

theorem ghead_a : GHead (sendRaw (b "a")) := ghead_raw 97 [] (by decide)
theorem ghead_s : GHead (sendRaw (b "s")) := ghead_raw 115 [] (by decide)
theorem ghead_cfg (m t : Bytes) : GHead (reportConfig m t) := by
  unfold reportConfig
  have : b "A " ++ m ++ b " :" ++ truncBuf 1024 t = 65 :: (32 :: (m ++ b " :" ++ truncBuf 1024 t)) := by
    have : b "A " = [65, 32] := by decide
    rw [this]; simp
  rw [this]; exact ghead_raw 65 _ (by decide)
theorem ghead_stat (m t : Bytes) : GHead (reportStats m t) := by
  unfold reportStats
  have : b "S " ++ m ++ b " :" ++ truncBuf 1024 t = 83 :: (32 :: (m ++ b " :" ++ truncBuf 1024 t)) := by
    have : b "S " = [83, 32] := by decide
    rw [this]; simp
  rw [this]; exact ghead_raw 83 _ (by decide)
theorem ghead_opers (t : Bytes) : GHead (sendOpers t) := by
  unfold sendOpers
  have : b "> :" ++ t = 62 :: (32 :: 58 :: t) := by
    have : b "> :" = [62, 32, 58] := by decide
    rw [this]; simp
  rw [this]; exact ghead_raw 62 _ (by decide)

theorem collectConfig_allG (s : State) : AllG (collectConfig s) := by
  unfold collectConfig
  refine AllG.append (AllG.append (AllG.single ghead_a) (AllG.ite (AllG.single (ghead_cfg _ _)) AllG.nil))
    (AllG.ite ?_ AllG.nil)
  exact AllG.filterMapOpt _ _ (fun _ => ghead_cfg _ _)

theorem statsCore_ghead (s : State) : GHead (collectStats.reportStatsCore s) := by
  unfold collectStats.reportStatsCore
  have : b "S iauth :" = 83 :: b " iauth :" := by decide
  rw [this]
  simp only [List.cons_append]
  exact ghead_raw 83 _ (by decide)

theorem collectStats_allG (s : State) (last : Bool) : AllG (collectStats s last) := by
  unfold collectStats
  refine AllG.append (AllG.append (AllG.append (AllG.append ?_ ?_) ?_) ?_) ?_
  · exact AllG.ite AllG.nil (AllG.single ghead_s)
  · exact AllG.single (statsCore_ghead s)
  · refine AllG.ite (AllG.append ?_ (AllG.single (ghead_stat _ _))) AllG.nil
    refine AllG.map _ _ (fun r => ?_)
    split <;> exact ghead_stat _ _
  · refine AllG.ite (AllG.append (AllG.append (AllG.single (ghead_stat _ _)) ?_) (AllG.single (ghead_stat _ _))) AllG.nil
    exact AllG.filterMapOpt _ _ (fun _ => ghead_stat _ _)
  · exact AllG.ite (AllG.single ghead_s) AllG.nil

/-! ### the simulation -/

/-- the reader's records and the request table tell the same story -/
structure Sim (s : State) (t : T1) : Prop where
  dom : ∀ id, (t.live id).isSome = (findReq s.reqs id).isSome
  rel : ∀ id r i, findReq s.reqs id = some r → t.live id = some i →
    i.soft = r.flags.softDone ∧ (i.serial = none ∨ i.serial = some r.serial)
  ok : t.ok = true

/-- the ircd never announces the id it uses for "no client" -/
def NoM1 (s : State) : Prop := ∀ r ∈ s.reqs, r.client ≠ -1

theorem Sim.closed {s : State} {t : T1} (h : Sim s t) (f : Int → Bool) : Sim s { t with closed := f } :=
  ⟨h.dom, h.rel, h.ok⟩

theorem Sim.fold_allG {s : State} {t : T1} (h : Sim s t) (ls : List Bytes) (hl : AllG ls) :
    Sim s (ls.foldl outLine { t with closed := fun _ => false }) := by
  rw [Proto.fold_allG _ ls hl]; exact h.closed _

theorem Sim.close_dead {s : State} {t : T1} (h : Sim s t) (id : Int) (hd : findReq s.reqs id = none) : Sim s (t.close id) := by
  have hl : t.live id = none := by
    have := h.dom id
    rw [hd] at this
    cases hx : t.live id with
    | none => rfl
    | some i => rw [hx] at this; simp at this
  have e : (t.close id).live = t.live := by
    funext j
    simp only [T1.close]
    split
    · rename_i hj; rw [hj, hl]
    · rfl
  exact ⟨by intro j; rw [e]; exact h.dom j, by intro j r i hr hi; rw [e] at hi; exact h.rel j r i hr hi, h.ok⟩

/-- a handler run on a stored request, seen by the reader -/
theorem withReq_sim (s : State) (hs : StateOK s) (t : T1) (hsim : Sim s t) (r : Req) (hf : findReq s.reqs r.client = some r)
    (f : Ctx → M Ctx) (hT : ∀ c', f (ctx0 s r) = .ok c' → Tr r (ctx0 s r) c')
    (s' : State) (out : List Bytes) (he : withReq s r f = .ok (s', out)) :
    Sim s' (out.foldl outLine { t with closed := fun _ => false }) ∧
      (∀ q ∈ s'.reqs, q.client = r.client ∨ q ∈ s.reqs) := by
  rw [withReq_eq] at he
  cases hfc : f (ctx0 s r) with
  | error e => rw [hfc] at he; simp [Except.map] at he
  | ok c' =>
    rw [hfc] at he
    simp only [Except.map, Except.ok.injEq, Prod.mk.injEq] at he
    obtain ⟨rfl, rfl⟩ := he
    have tr := hT c' hfc
    obtain ⟨ls, hout, hsh⟩ := tr.sh
    have hls : c'.out = ls := by rw [hout]; simp [ctx0]
    have hmem := (findReq_mem hf).1
    have hro := hs.reqs r hmem
    -- the reader's record of r
    have hrec : Rec { t with closed := fun _ => false } r r.flags.softDone := by
      have hd := hsim.dom r.client
      rw [hf] at hd
      cases hl : t.live r.client with
      | none => rw [hl] at hd; simp at hd
      | some i =>
        obtain ⟨a1, a2⟩ := hsim.rel r.client r i hf hl
        exact ⟨⟨i, hl, a1, a2⟩, rfl⟩
    have hsh' : Shape r r.flags.softDone ls c'.req.flags.softDone c'.gone := hsh
    obtain ⟨f1, f2, f3, f4⟩ := shape_fold hro.head hro.serial hsh' _ hrec
    rw [hls]
    have hck : c'.req.client = r.client := tr.key.1
    constructor
    · refine ⟨?_, ?_, by rw [f1]; exact hsim.ok⟩
      · intro id
        by_cases hid : id = r.client
        · subst hid
          cases hg : c'.gone with
          | true =>
            rw [hg] at f4
            simp only [if_true] at f4
            simp only [hg, if_true]
            rw [f4, find_removeReq_self]
            rfl
          | false =>
            rw [hg] at f4
            simp only [Bool.false_eq_true, if_false] at f4
            obtain ⟨i, hi, _, _⟩ := f4
            simp only [hg, Bool.false_eq_true, if_false]
            rw [hi, ← hck, find_putReq_self _ _ r (by rw [hck]; exact hf)]
            rfl
        · rw [(f2 id hid).1]
          show (t.live id).isSome = _
          rw [hsim.dom id]
          dsimp only
          split
          · rw [find_removeReq _ _ _ hid]
          · rw [find_putReq _ _ _ (by rw [hck]; exact hid)]
      · intro id q i hq hi
        by_cases hid : id = r.client
        · subst hid
          cases hg : c'.gone with
          | true =>
            simp only [hg, if_true] at hq
            rw [find_removeReq_self] at hq; cases hq
          | false =>
            rw [hg] at f4
            simp only [Bool.false_eq_true, if_false] at f4
            obtain ⟨i', hi', b1, b2⟩ := f4
            simp only [hg, Bool.false_eq_true, if_false] at hq
            rw [← hck, find_putReq_self _ _ r (by rw [hck]; exact hf)] at hq
            simp only [Option.some.injEq] at hq
            subst hq
            rw [hi'] at hi
            simp only [Option.some.injEq] at hi
            subst hi
            exact ⟨b1, by rw [tr.key.2.1]; exact b2⟩
        · rw [(f2 id hid).1] at hi
          have hq' : findReq s.reqs id = some q := by
            dsimp only at hq
            split at hq
            · rwa [find_removeReq _ _ _ hid] at hq
            · rwa [find_putReq _ _ _ (by rw [hck]; exact hid)] at hq
          exact hsim.rel id q i hq' hi
    · intro q hq
      dsimp only at hq
      split at hq
      · exact Or.inr (mem_removeReq hq)
      · rcases mem_putReq hq with rfl | h
        · exact Or.inl hck
        · exact Or.inr h

theorem need_softDone (s : State) : s.static.need.softDone = false := by
  unfold State.static State.need
  dsimp only
  split <;> rfl

/-! ### the dispatcher, with what the reader needs to know about the command letter -/

def Other (cmd : UInt8) : Prop := cmd ≠ 67 ∧ cmd ≠ 68 ∧ cmd ≠ 84

theorem dispatch_cases3 (s : State) (l : Line) (cmd : UInt8) (req? : Option Req) (P : M (State × List Bytes) → Prop)
    (hnil67 : cmd = 67 → l.argv.length < 5 → P (pure (s, [])))
    (hnew : cmd = 67 → ¬ l.argv.length < 5 → P (newClient s l.id ((arg l 1).getD []) ((arg l 2).getD [])))
    (hD : cmd = 68 → P (dropReq s req? "D"))
    (hT : cmd = 84 → P (dropReq s req? "T"))
    (hnil : Other cmd → P (pure (s, [])))
    (hN : Other cmd → P (onReq s req? "N" (.hostname (if req?.isSome then some ((arg l 1).getD []) else arg l 1))))
    (hd : Other cmd → P (onReq s req? "d" .noHostname))
    (hP : Other cmd → P (onReq s req? "P" (.password (if req?.isSome then some ((arg l 1).getD []) else arg l 1))))
    (hU0 : Other cmd → req? = none → P (garbage s "U"))
    (hU1 : Other cmd → P (pure (s, [sendOpers (b "ircd sent garbage: <id> U without realname")])))
    (hU2 : Other cmd → ∀ r, req? = some r → ¬ l.argv.length < 3 →
      P (withReq s r fun ctx => reqEvent s.static ctx (.userInfo ((arg l 1).getD []) ((arg l 2).getD []))))
    (hu : Other cmd → P (onReq s req? "u" (.ident (arg l 1))))
    (hn : Other cmd → P (onReq s req? "n" (.nick (if req?.isSome then some ((arg l 1).getD []) else arg l 1))))
    (hH : Other cmd → P (onReq s req? "H" .hurry))
    (hX : Other cmd → ∀ isX, P (onReply s l isX))
    (hI : Other cmd → P (onInfo s l)) : P (dispatch s l cmd req?) := by
  have oth : ∀ k : UInt8, cmd = k → k ≠ 67 → k ≠ 68 → k ≠ 84 → Other cmd := by
    intro k e a1 a2 a3; subst e; exact ⟨a1, a2, a3⟩
  unfold dispatch
  dsimp only
  by_cases c1 : (cmd == 67) = true
  · rw [if_pos c1]
    have e : cmd = 67 := by simpa using c1
    by_cases a : l.argv.length < 5
    · rw [if_pos a]; exact hnil67 e a
    · rw [if_neg a]; exact hnew e a
  rw [if_neg c1]
  by_cases c2 : (cmd == 68) = true
  · rw [if_pos c2]; exact hD (by simpa using c2)
  rw [if_neg c2]
  by_cases c3 : (cmd == 78) = true
  · rw [if_pos c3]
    have o := oth 78 (by simpa using c3) (by decide) (by decide) (by decide)
    by_cases a : (req?.isSome && decide (l.argv.length < 2)) = true
    · rw [if_pos a]; exact hnil o
    · rw [if_neg a]; exact hN o
  rw [if_neg c3]
  by_cases c4 : (cmd == 100) = true
  · rw [if_pos c4]; exact hd (oth 100 (by simpa using c4) (by decide) (by decide) (by decide))
  rw [if_neg c4]
  by_cases c5 : (cmd == 80) = true
  · rw [if_pos c5]
    have o := oth 80 (by simpa using c5) (by decide) (by decide) (by decide)
    by_cases a : (req?.isSome && decide (l.argv.length < 2)) = true
    · rw [if_pos a]; exact hnil o
    · rw [if_neg a]; exact hP o
  rw [if_neg c5]
  by_cases c6 : (cmd == 85) = true
  · rw [if_pos c6]
    have o := oth 85 (by simpa using c6) (by decide) (by decide) (by decide)
    cases hq : req? with
    | none => exact hU0 o hq
    | some r =>
      dsimp only
      by_cases a : l.argv.length < 3
      · rw [if_pos a]; exact hU1 o
      · rw [if_neg a]; exact hU2 o r hq a
  rw [if_neg c6]
  by_cases c7 : (cmd == 117) = true
  · rw [if_pos c7]; exact hu (oth 117 (by simpa using c7) (by decide) (by decide) (by decide))
  rw [if_neg c7]
  by_cases c8 : (cmd == 110) = true
  · rw [if_pos c8]
    have o := oth 110 (by simpa using c8) (by decide) (by decide) (by decide)
    by_cases a : (req?.isSome && decide (l.argv.length < 2)) = true
    · rw [if_pos a]; exact hnil o
    · rw [if_neg a]; exact hn o
  rw [if_neg c8]
  by_cases c9 : (cmd == 72) = true
  · rw [if_pos c9]; exact hH (oth 72 (by simpa using c9) (by decide) (by decide) (by decide))
  rw [if_neg c9]
  by_cases c10 : (cmd == 84) = true
  · rw [if_pos c10]; exact hT (by simpa using c10)
  rw [if_neg c10]
  have o : Other cmd := ⟨by simpa using c1, by simpa using c2, by simpa using c10⟩
  by_cases c11 : (cmd == 88) = true
  · rw [if_pos c11]; exact hX o true
  rw [if_neg c11]
  by_cases c12 : (cmd == 120) = true
  · rw [if_pos c12]; exact hX o false
  rw [if_neg c12]
  by_cases c13 : (cmd == 63) = true
  · rw [if_pos c13]; exact hI o
  rw [if_neg c13]; exact hnil o

/-- what a step has to deliver for the reader: the records still match, and no request with id -1 -/
def StepSim (s : State) (t0 : T1) (m : M (State × List Bytes)) : Prop :=
  ∀ s' out, m = .ok (s', out) → Sim s' (out.foldl outLine { t0 with closed := fun _ => false }) ∧ NoM1 s'

theorem StepSim.pure {s : State} {t0 : T1} (h : Sim s t0) (hm : NoM1 s) (out : List Bytes) (ho : AllG out) :
    StepSim s t0 (pure (s, out)) := by
  intro s' o he
  simp only [Pure.pure, Except.pure, Except.ok.injEq, Prod.mk.injEq] at he
  obtain ⟨rfl, rfl⟩ := he
  exact ⟨h.fold_allG _ ho, hm⟩

theorem garbage_sim (s : State) (t0 : T1) (h : Sim s t0) (hm : NoM1 s) (c : String) : StepSim s t0 (garbage s c) := by
  unfold garbage
  exact StepSim.pure h hm _ (AllG.single (ghead_opers _))

theorem withReq_stepSim (s : State) (hs : StateOK s) (t0 : T1) (h : Sim s t0) (hm : NoM1 s) (r : Req)
    (hf : findReq s.reqs r.client = some r) (f : Ctx → M Ctx)
    (hT : ∀ c', f (ctx0 s r) = .ok c' → Tr r (ctx0 s r) c') : StepSim s t0 (withReq s r f) := by
  intro s' out he
  obtain ⟨a, b'⟩ := withReq_sim s hs t0 h r hf f hT s' out he
  refine ⟨a, ?_⟩
  intro q hq
  rcases b' q hq with e | e
  · rw [e]; exact hm r (findReq_mem hf).1
  · exact hm q e

theorem ctx0_pre (s : State) (hs : StateOK s) (r : Req) (hr : r ∈ s.reqs) :
    CtxOK (ctx0 s r) ∧ KeyEq r (ctx0 s r).req ∧ (ctx0 s r).gone = false :=
  ⟨ctx0_ok hs hr, KeyEq.refl r, rfl⟩

theorem onReq_sim (s : State) (hs : StateOK s) (t0 : T1) (h : Sim s t0) (hm : NoM1 s) (req? : Option Req)
    (hreq : ∀ r, req? = some r → findReq s.reqs r.client = some r) (c : String) (ev : Ev) (hev : EvOK ev) :
    StepSim s t0 (onReq s req? c ev) := by
  unfold onReq
  cases req? with
  | none => exact garbage_sim s t0 h hm c
  | some r =>
    have hf := hreq r rfl
    obtain ⟨p1, p2, p3⟩ := ctx0_pre s hs r (findReq_mem hf).1
    exact withReq_stepSim s hs t0 h hm r hf _
      (fun c' hc' => reqEvent_tr s.static (need_softDone s) _ _ ev p1 p2 p3 hev hc')

theorem inLine_eq (t : T1) (raw : Bytes) (a0 : Bytes) (args : List Bytes) (h : (tokenize raw).argv = a0 :: args) :
    inLine t raw =
      if a0.getD 0 0 == 67 then (if args.length < 4 then t else t.put (tokenize raw).id {})
      else if a0.getD 0 0 == 68 || a0.getD 0 0 == 84 then t.close (tokenize raw).id
      else t := by
  unfold inLine
  simp only [h]

theorem Sim.put_new {s : State} {t : T1} (h : Sim s t) (r : Req) (hsd : r.flags.softDone = false) :
    Sim { s with reqs := insertReq r s.reqs } (t.put r.client {}) := by
  refine ⟨?_, ?_, h.ok⟩
  · intro id
    by_cases hid : id = r.client
    · subst hid
      simp only [T1.put, if_true]
      rw [find_insertReq_self]; rfl
    · simp only [T1.put, hid, if_false]
      rw [find_insertReq _ _ _ hid]
      exact h.dom id
  · intro id q i hq hi
    by_cases hid : id = r.client
    · subst hid
      rw [find_insertReq_self] at hq
      simp only [Option.some.injEq] at hq
      subst hq
      simp only [T1.put, if_true, Option.some.injEq] at hi
      subst hi
      exact ⟨hsd.symm, Or.inl rfl⟩
    · rw [find_insertReq _ _ _ hid] at hq
      simp only [T1.put, hid, if_false] at hi
      exact h.rel id q i hq hi

theorem Sim.put_new2 {s s' : State} {t : T1} (h : Sim s t) (id : Int) (r : Req) (hr : s'.reqs = insertReq r s.reqs)
    (hid : r.client = id) (hsd : r.flags.softDone = false) : Sim s' (t.put id {}) := by
  subst hid
  have := h.put_new r hsd
  exact ⟨by intro j; rw [hr]; exact this.dom j, by intro j q i hq hi; rw [hr] at hq; exact this.rel j q i hq hi, this.ok⟩

theorem newClient_sim (s : State) (t : T1) (h : Sim s t) (hm : NoM1 s) (id : Int) (hid : id ≠ -1) (a p : Bytes)
    (s' : State) (out : List Bytes) (he : newClient s id a p = .ok (s', out)) :
    out = [] ∧ Sim s' (t.put id {}) ∧ NoM1 s' := by
  unfold newClient at he
  cases hp : ptonC a false with
  | error e => simp [hp, bind, Except.bind] at he
  | ok res =>
    simp only [hp, bind, Except.bind, pure, Except.pure, Except.ok.injEq, Prod.mk.injEq] at he
    obtain ⟨rfl, rfl⟩ := he
    refine ⟨rfl, ?_, ?_⟩
    · by_cases hx : s.hasXq = true
      · simp only [hx, if_true]
        exact h.put_new2 id _ rfl rfl rfl
      · simp only [hx, if_false, Bool.false_eq_true]
        exact h.put_new2 id _ rfl rfl rfl
    · intro q hq
      dsimp only at hq
      rcases mem_insertReq hq with rfl | h1
      · split <;> exact hid
      · exact hm q h1

theorem dropReq_sim (s : State) (hs : StateOK s) (t : T1) (h : Sim s t) (hm : NoM1 s) (id : Int) (req? : Option Req)
    (hreq : req? = if id == -1 then none else findReq s.reqs id) (hgo : ¬ (id ≠ -1 ∧ req?.isNone)) (c : String)
    (s' : State) (out : List Bytes) (he : dropReq s req? c = .ok (s', out)) :
    Sim s' (out.foldl outLine { (t.close id) with closed := fun _ => false }) ∧ NoM1 s' := by
  unfold dropReq at he
  cases hq : req? with
  | none =>
    rw [hq] at he
    dsimp only at he
    have hid : id = -1 := by
      by_cases hx : id = -1
      · exact hx
      · exact absurd ⟨hx, by rw [hq]; rfl⟩ hgo
    have hdead : findReq s.reqs id = none := by
      cases hfr : findReq s.reqs id with
      | none => rfl
      | some r =>
        have := findReq_mem hfr
        exact absurd (by rw [this.2, hid]) (hm r this.1)
    exact garbage_sim s _ (h.close_dead id hdead) hm c s' out he
  | some r =>
    rw [hq] at he
    dsimp only at he
    have hfr : findReq s.reqs id = some r := by
      rw [hq] at hreq
      split at hreq
      · cases hreq
      · exact hreq.symm
    have hrc := (findReq_mem hfr).2
    rw [withReq_eq] at he
    simp only [pure, Except.pure, Except.map, Except.ok.injEq, Prod.mk.injEq] at he
    obtain ⟨rfl, rfl⟩ := he
    have hgone : (finishReq (ctx0 s r)).gone = true := rfl
    simp only [hgone, if_true]
    have hout : (finishReq (ctx0 s r)).out = [] := rfl
    rw [hout]
    simp only [List.foldl_nil]
    refine ⟨⟨?_, ?_, h.ok⟩, ?_⟩
    · intro j
      by_cases hj : j = id
      · subst hj
        simp only [T1.close, if_true]
        rw [hrc, find_removeReq_self]
        rfl
      · simp only [T1.close, hj, if_false]
        rw [hrc, find_removeReq _ _ _ hj]
        exact h.dom j
    · intro j q i hq' hi
      by_cases hj : j = id
      · subst hj
        rw [hrc, find_removeReq_self] at hq'; cases hq'
      · simp only [T1.close, hj, if_false] at hi
        rw [hrc, find_removeReq _ _ _ hj] at hq'
        exact h.rel j q i hq' hi
    · intro q hq'
      exact hm q (mem_removeReq hq')

theorem validateRequest_find {s : State} {tag : Bytes} {r : Req} (h : validateRequest s tag = some r) :
    findReq s.reqs r.client = some r := by
  unfold validateRequest at h
  split at h
  · cases h
  · split at h
    · rename_i r' hf
      split at h
      · cases h
        have := findReq_mem hf
        rw [this.2]; exact hf
      · cases h
    · cases h

/-- **one input line**: the reader's records follow the table -/
theorem stepLine_sim (s : State) (hs : StateOK s) (t : T1) (h : Sim s t) (hm : NoM1 s) (raw : Bytes) (hraw : Clean raw)
    (hann : ∀ a0 args, (tokenize raw).argv = a0 :: args → a0.getD 0 0 = 67 → (tokenize raw).id ≠ -1)
    (s' : State) (out : List Bytes) (he : stepLine s raw = .ok (s', out)) :
    Sim s' (step t (some raw) out) ∧ NoM1 s' := by
  obtain ⟨ha, hi⟩ := tokenize_args raw hraw
  unfold step
  dsimp only
  unfold stepLine at he
  dsimp only at he
  cases hargv : (tokenize raw).argv with
  | nil =>
    rw [hargv] at he
    simp only [pure, Except.pure, Except.ok.injEq, Prod.mk.injEq] at he
    obtain ⟨rfl, rfl⟩ := he
    have : inLine t raw = t := by unfold inLine; simp only [hargv]
    rw [this]
    exact ⟨h.closed _, hm⟩
  | cons a0 args =>
    rw [hargv] at he
    dsimp only at he
    rw [inLine_eq t raw a0 args hargv]
    generalize hcmd : a0.getD 0 0 = cmd at he ⊢
    generalize hl : tokenize raw = l at *
    have hargs : ∀ a ∈ l.argv, Clean a := ha
    have optArg : ∀ (req? : Option Req) (i : Nat), ∀ x,
        (if req?.isSome then some ((arg l i).getD []) else arg l i) = some x → Clean x := by
      intro req? i x hx
      split at hx
      · simp only [Option.some.injEq] at hx; subst hx; exact (arg_clean hargs i).1
      · exact (arg_clean hargs i).2 x hx
    -- the request the line is about
    generalize hreq : (if (l.id == -1 || cmd == 67) = true then none else findReq s.reqs l.id) = req? at he
    have hreqf : ∀ r, req? = some r → findReq s.reqs r.client = some r := by
      intro r hr
      rw [← hreq] at hr
      split at hr
      · cases hr
      · have := findReq_mem hr
        rw [this.2]; exact hr
    split at he
    · -- unknown id: the line is dropped
      rename_i hdrop
      simp only [pure, Except.pure, Except.ok.injEq, Prod.mk.injEq] at he
      obtain ⟨rfl, rfl⟩ := he
      simp only [Bool.and_eq_true, bne_iff_ne, ne_eq] at hdrop
      obtain ⟨⟨hid, hc67⟩, hnone⟩ := hdrop
      have hc : (cmd == 67) = false := by simpa using hc67
      have hdead : findReq s.reqs l.id = none := by
        rw [← hreq] at hnone
        have hid' : (l.id == -1) = false := by simpa using hid
        simp only [hid', hc, Bool.or_self, Bool.false_eq_true, if_false] at hnone
        cases hx : findReq s.reqs l.id with
        | none => rfl
        | some r => rw [hx] at hnone; simp at hnone
      simp only [hc, Bool.false_eq_true, if_false, List.foldl_nil]
      split
      · exact ⟨(h.close_dead _ hdead).closed _, hm⟩
      · exact ⟨h.closed _, hm⟩
    · rename_i hgo
      generalize hT0 : (if (cmd == 67) = true then (if args.length < 4 then t else t.put l.id {})
        else if (cmd == 68 || cmd == 84) = true then t.close l.id else t) = T0
      refine dispatch_cases3 s l cmd req?
        (fun m => m = .ok (s', out) → Sim s' (List.foldl outLine { T0 with closed := fun _ => false } out) ∧ NoM1 s')
        ?_ ?_ ?_ ?_ ?_ ?_ ?_ ?_ ?_ ?_ ?_ ?_ ?_ ?_ ?_ ?_ he
      · -- C with too few parameters
        intro e a
        clear he
        intro he
        simp only [pure, Except.pure, Except.ok.injEq, Prod.mk.injEq] at he
        obtain ⟨rfl, rfl⟩ := he
        subst e
        have : args.length < 4 := by rw [hargv] at a; simp at a; omega
        simp only [beq_self_eq_true, if_true, this] at hT0
        subst hT0
        exact ⟨h.closed _, hm⟩
      · -- announcement
        intro e a
        clear he
        intro he
        subst e
        have hid : l.id ≠ -1 := hann a0 args hargv hcmd
        obtain ⟨rfl, hs2, hm2⟩ := newClient_sim s t h hm l.id hid _ _ s' out he
        have : ¬ args.length < 4 := by rw [hargv] at a; simp at a; omega
        simp only [beq_self_eq_true, if_true, this, if_false] at hT0
        subst hT0
        exact ⟨hs2.closed _, hm2⟩
      · -- D
        intro e
        clear he
        intro he
        subst e
        have h1 : ((68 : UInt8) == 67) = false := by decide
        simp only [h1, Bool.false_eq_true, if_false, beq_self_eq_true, Bool.true_or, if_true] at hT0
        subst hT0
        refine dropReq_sim s hs t h hm l.id req? ?_ ?_ "D" s' out he
        · rw [← hreq]; simp [h1]
        · intro hx
          apply hgo
          simp only [Bool.and_eq_true, bne_iff_ne, ne_eq]
          exact ⟨⟨hx.1, by decide⟩, hx.2⟩
      · -- T
        intro e
        clear he
        intro he
        subst e
        have h1 : ((84 : UInt8) == 67) = false := by decide
        have h2 : ((84 : UInt8) == 68) = false := by decide
        simp only [h1, h2, Bool.false_eq_true, if_false, beq_self_eq_true, Bool.or_true, if_true] at hT0
        subst hT0
        refine dropReq_sim s hs t h hm l.id req? ?_ ?_ "T" s' out he
        · rw [← hreq]; simp [h1]
        · intro hx
          apply hgo
          simp only [Bool.and_eq_true, bne_iff_ne, ne_eq]
          exact ⟨⟨hx.1, by decide⟩, hx.2⟩
      all_goals
        intro o
        have e1 : (cmd == 67) = false := by simpa using o.1
        have e2 : (cmd == 68) = false := by simpa using o.2.1
        have e3 : (cmd == 84) = false := by simpa using o.2.2
        simp only [e1, e2, e3, Bool.false_eq_true, if_false, Bool.or_self] at hT0
        subst hT0
        clear he
      · exact StepSim.pure h hm _ AllG.nil s' out
      · refine onReq_sim s hs t h hm req? hreqf "N" _ ?_ s' out
        exact optArg req? 1
      · exact onReq_sim s hs t h hm req? hreqf "d" Ev.noHostname trivial s' out
      · refine onReq_sim s hs t h hm req? hreqf "P" _ ?_ s' out
        exact optArg req? 1
      · intro _; exact garbage_sim s t h hm "U" s' out
      · exact StepSim.pure h hm _ (AllG.single (ghead_opers _)) s' out
      · intro r hq h3
        have hf := hreqf r hq
        obtain ⟨p1, p2, p3⟩ := ctx0_pre s hs r (findReq_mem hf).1
        have hev : EvOK (.userInfo ((arg l 1).getD []) ((arg l 2).getD [])) :=
          ⟨arg1_nosp hi h3, (arg_clean hargs 1).1, (arg_clean hargs 2).1⟩
        exact withReq_stepSim s hs t h hm r hf _
          (fun c' hc' => reqEvent_tr s.static (need_softDone s) _ _ _ p1 p2 p3 hev hc') s' out
      · refine onReq_sim s hs t h hm req? hreqf "u" _ ?_ s' out
        exact (arg_clean hargs 1).2
      · refine onReq_sim s hs t h hm req? hreqf "n" _ ?_ s' out
        exact optArg req? 1
      · exact onReq_sim s hs t h hm req? hreqf "H" Ev.hurry trivial s' out
      · -- X / x
        intro isX
        unfold onReply
        split
        · exact StepSim.pure h hm _ AllG.nil s' out
        · split
          · exact StepSim.pure h hm _ AllG.nil s' out
          · rename_i r hv
            have hr := validateRequest_mem hv
            have hf : findReq s.reqs r.client = some r := validateRequest_find hv
            obtain ⟨p1, p2, p3⟩ := ctx0_pre s hs r hr
            refine withReq_stepSim s hs t h hm r hf _ (fun c' hc' => xqReply_tr _ _ _ _ _ p1 p2 p3 ?_ hc') s' out
            intro x hx
            split at hx
            · exact (arg_clean hargs 3).2 x hx
            · cases hx
      · -- ?
        unfold onInfo
        split
        · exact StepSim.pure h hm _ AllG.nil s' out
        · dsimp only
          split
          · exact StepSim.pure h hm _ (collectConfig_allG s) s' out
          · split
            · exact StepSim.pure h hm _ (collectStats_allG s false) s' out
            · split
              · exact StepSim.pure h hm _ (collectStats_allG s true) s' out
              · exact StepSim.pure h hm _ AllG.nil s' out

end Iauthd.Proto
