import Iauthd.Proto.Parse01
/-
  C01, the shape of what one handler run writes about its request: any number of
  informational lines (`U`, `M`, `C`) and queries, at most one soft-done `d` (and only when the
  request's SOFT_DONE flag was clear; it sets the flag), and at most one verdict (`k`, `D`, `R`),
  which is the last line and goes with the request leaving the table.
-/
set_option linter.unusedSimpArgs false
set_option linter.unusedVariables false
namespace Iauthd.Proto
open Iauthd Iauthd.Proto.Hist

/-- the fields of a request that its lines show; no handler changes them -/
def KeyEq (r0 r : Req) : Prop :=
  r.client = r0.client ∧ r.serial = r0.serial ∧ r.textAddr = r0.textAddr ∧ r.port = r0.port

theorem KeyEq.refl (r : Req) : KeyEq r r := ⟨rfl, rfl, rfl, rfl⟩

theorem sendReq_key {r0 r : Req} (h : KeyEq r0 r) (first rest : Bytes) : sendReq r first rest = sendReq r0 first rest := by
  obtain ⟨h1, _, h3, h4⟩ := h
  unfold sendReq; rw [h1, h3, h4]

theorem routing_key {r0 r : Req} (h : KeyEq r0 r) : routing r = routing r0 := by
  obtain ⟨h1, h2, _, _⟩ := h
  unfold routing; rw [h1, h2]

inductive Kind where
  | info | soft | verdict | query

def SvcNameOK (svc : Bytes) : Prop := Word svc ∧ Clean svc ∧ svc.length ≤ 900

/-- a line written about request `r0` -/
inductive IsLine (r0 : Req) : Kind → Bytes → Prop where
  | info (letter : UInt8) (rest : Bytes) : letter = 85 ∨ letter = 77 ∨ letter = 67 → RestOK letter rest →
      IsLine r0 .info (sendReq r0 [letter] rest)
  | soft : IsLine r0 .soft (sendReq r0 [100] [])
  | verdict (letter : UInt8) (rest : Bytes) : letter = 107 ∨ letter = 68 ∨ letter = 82 → RestOK letter rest →
      IsLine r0 .verdict (sendReq r0 [letter] rest)
  | query (svc payload : Bytes) : SvcNameOK svc → Clean payload → IsLine r0 .query (xquery svc (routing r0) payload)

/-- the lines of one handler run: soft-done flag before, lines, flag after, request gone after -/
inductive Shape (r0 : Req) : Bool → List Bytes → Bool → Bool → Prop where
  | nil (s : Bool) : Shape r0 s [] s false
  | info {s s' g : Bool} {l : Bytes} {ls : List Bytes} : IsLine r0 .info l → Shape r0 s ls s' g → Shape r0 s (l :: ls) s' g
  | query {s s' g : Bool} {l : Bytes} {ls : List Bytes} : IsLine r0 .query l → Shape r0 s ls s' g → Shape r0 s (l :: ls) s' g
  | soft {s' g : Bool} {l : Bytes} {ls : List Bytes} : IsLine r0 .soft l → Shape r0 true ls s' g → Shape r0 false (l :: ls) s' g
  | verdict {s : Bool} {l : Bytes} : IsLine r0 .verdict l → Shape r0 s [l] s true

theorem Shape.append {r0 : Req} {s s' s'' g g1 : Bool} {ls ls' : List Bytes}
    (h1 : Shape r0 s ls s' g1) (hg : g1 = false) (h2 : Shape r0 s' ls' s'' g) : Shape r0 s (ls ++ ls') s'' g := by
  induction h1 with
  | nil s => simpa using h2
  | info hl _ ih => exact Shape.info hl (ih hg h2)
  | query hl _ ih => exact Shape.query hl (ih hg h2)
  | soft hl _ ih => exact Shape.soft hl (ih hg h2)
  | verdict hl => cases hg

theorem Shape.queries {r0 : Req} (s : Bool) : ∀ (ls : List Bytes), (∀ l ∈ ls, IsLine r0 .query l) → Shape r0 s ls s false
  | [], _ => Shape.nil s
  | l :: ls, h => Shape.query (h l (List.mem_cons_self ..)) (Shape.queries s ls (fun x hx => h x (List.mem_cons_of_mem _ hx)))

/-- what a handler run on request `r0` did: invariant kept, key fields kept, lines of the right shape -/
structure Tr (r0 : Req) (c c' : Ctx) : Prop where
  ok : CtxOK c'
  key : KeyEq r0 c'.req
  lim : c'.lim = c.lim
  sh : ∃ ls, c'.out = c.out ++ ls ∧ Shape r0 c.req.flags.softDone ls c'.req.flags.softDone c'.gone

/-- … and the request is still there -/
structure TrN (r0 : Req) (c c' : Ctx) : Prop extends Tr r0 c c' where
  live : c'.gone = false

theorem Tr.trans {r0 : Req} {a m c : Ctx} (h1 : TrN r0 a m) (h2 : Tr r0 m c) : Tr r0 a c := by
  obtain ⟨l1, e1, s1⟩ := h1.sh
  obtain ⟨l2, e2, s2⟩ := h2.sh
  refine ⟨h2.ok, h2.key, h2.lim.trans h1.lim, l1 ++ l2, by rw [e2, e1, List.append_assoc], ?_⟩
  exact s1.append h1.live s2

theorem TrN.trans {r0 : Req} {a m c : Ctx} (h1 : TrN r0 a m) (h2 : TrN r0 m c) : TrN r0 a c :=
  ⟨Tr.trans h1 h2.toTr, h2.live⟩

/-- a step that writes nothing, keeps the soft-done flag and the key -/
theorem TrN.silent {r0 : Req} {c c' : Ctx} (hok : CtxOK c') (hk : KeyEq r0 c'.req) (hl : c'.lim = c.lim)
    (ho : c'.out = c.out) (hs : c'.req.flags.softDone = c.req.flags.softDone) (hg : c'.gone = false) : TrN r0 c c' :=
  ⟨⟨hok, hk, hl, [], by simp [ho], by rw [hs]; rw [hg]; exact Shape.nil _⟩, hg⟩

theorem TrN.refl {r0 : Req} {c : Ctx} (hok : CtxOK c) (hk : KeyEq r0 c.req) (hg : c.gone = false) : TrN r0 c c :=
  TrN.silent hok hk rfl rfl rfl hg

/-! ### core handlers -/

theorem softDone_tr {r0 : Req} (c : Ctx) (h : CtxOK c) (hk : KeyEq r0 c.req) (hg : c.gone = false)
    (hs : c.req.flags.softDone = false) : TrN r0 c (softDone c) := by
  have g := softDone_good c h
  refine ⟨⟨g.ok, ?_, g.wrote.1, [sendReq r0 [100] []], ?_, ?_⟩, ?_⟩
  · exact hk
  · unfold softDone
    dsimp only [Ctx.emit, updReq]
    rw [b_d, sendReq_key (r0 := r0) (by exact hk)]
  · rw [hs]
    show Shape r0 false [sendReq r0 [100] []] true (softDone c).gone
    have : (softDone c).gone = false := hg
    rw [this]
    exact Shape.soft IsLine.soft (Shape.nil true)
  · exact hg

theorem gateNested_tr {r0 : Req} (st : Static) (c c' : Ctx) (h : CtxOK c) (hk : KeyEq r0 c.req) (hg : c.gone = false)
    (hx : gateNested st c = .ok c') : TrN r0 c c' := by
  unfold gateNested at hx
  dsimp only at hx
  split at hx
  · split at hx
    · cases hx
    · split at hx <;> (simp only [pure, Except.pure, Except.ok.injEq] at hx; subst hx)
      · rename_i hsd
        exact softDone_tr c h hk hg (by simpa using hsd)
      · exact TrN.refl h hk hg
  · simp only [pure, Except.pure, Except.ok.injEq] at hx; subst hx; exact TrN.refl h hk hg

theorem emit_info_tr {r0 : Req} (c : Ctx) (h : CtxOK c) (hk : KeyEq r0 c.req) (hg : c.gone = false)
    (letter : UInt8) (rest : Bytes) (hl : letter = 85 ∨ letter = 77 ∨ letter = 67) (hr : RestOK letter rest) :
    TrN r0 c (c.emit (sendReq c.req [letter] rest)) := by
  refine ⟨⟨h.emit _, hk, rfl, [sendReq r0 [letter] rest], ?_, ?_⟩, hg⟩
  · simp only [Ctx.emit]; rw [sendReq_key hk]
  · show Shape r0 c.req.flags.softDone [sendReq r0 [letter] rest] c.req.flags.softDone c.gone
    rw [hg]
    exact Shape.info (IsLine.info letter rest hl hr) (Shape.nil _)

theorem trustUsername_tr {r0 : Req} (st : Static) (c c' : Ctx) (name : Bytes) (h : CtxOK c) (hk : KeyEq r0 c.req)
    (hg : c.gone = false) (hn1 : name ≠ []) (hn2 : NoSp name) (hn3 : Clean name) (hn4 : name.length ≤ 900)
    (hx : trustUsername st c name = .ok c') : TrN r0 c c' := by
  unfold trustUsername at hx
  simp only [bind, Except.bind, pure, Except.pure] at hx
  have h0 : TrN r0 c (c.emit (sendReq c.req (b "U") (sp ++ name))) := by
    rw [b_U, sp_eq]
    exact emit_info_tr c h hk hg 85 _ (Or.inl rfl) (RestOK.one 85 name (Or.inr (Or.inl rfl)) hn1 hn2 hn3 hn4)
  split at hx
  · have h1 : CtxOK (updReq (c.emit (sendReq c.req (b "U") (sp ++ name))) fun r => { r with flags := { r.flags with gotIdent := true } }) :=
      (h.emit _).upd _ (fun r => ⟨rfl, rfl, rfl, rfl, rfl, rfl, rfl, rfl, rfl, rfl, rfl, rfl⟩)
    have hm : TrN r0 (c.emit (sendReq c.req (b "U") (sp ++ name)))
        (updReq (c.emit (sendReq c.req (b "U") (sp ++ name))) fun r => { r with flags := { r.flags with gotIdent := true } }) :=
      TrN.silent h1 hk rfl rfl rfl hg
    exact h0.trans (hm.trans (gateNested_tr st _ _ h1 hk hg hx))
  · cases hx; exact h0

theorem classRules_tr {r0 : Req} (st : Static) (rules : List Rule) (c c' : Ctx) (rules' : List Rule) (h : CtxOK c)
    (hk : KeyEq r0 c.req) (hg : c.gone = false) (hr : RulesOK rules)
    (hx : classRules st rules c = .ok (c', rules')) : TrN r0 c c' := by
  induction rules generalizing c c' rules' with
  | nil =>
    simp [classRules, pure, Except.pure] at hx
    obtain ⟨rfl, _⟩ := hx
    exact TrN.refl h hk hg
  | cons rule rest ih =>
    have hrule := hr rule (List.mem_cons_self ..)
    have hrest : RulesOK rest := fun r hr' => hr r (List.mem_cons_of_mem _ hr')
    have gd := (classRules_good st (rule :: rest) c c' rules' h hr hx).1
    unfold classRules at hx
    by_cases hm : ruleMatches c.svcs rule c.req = true
    · simp only [hm, if_true] at hx
      by_cases ht : (wantsTrust rule c.req && !(trustName c.req).isEmpty) = true
      · simp only [ht, if_true, bind, Except.bind] at hx
        split at hx
        · cases hx
        · rename_i c1 hx1
          simp only [pure, Except.pure, Except.ok.injEq, Prod.mk.injEq] at hx
          obtain ⟨rfl, _⟩ := hx
          have hne : trustName c.req ≠ [] := by
            simp only [Bool.and_eq_true, Bool.not_eq_true', List.isEmpty_eq_false_iff] at ht
            exact ht.2
          obtain ⟨p1, p2, p3⟩ := trustName_props h.req.text h.lim
          have t1 := trustUsername_tr st c c1 _ h hk hg hne p1 p2 p3 hx1
          exact t1.trans (TrN.silent gd.ok t1.key rfl rfl rfl t1.live)
      · simp only [ht, if_false, bind, Except.bind, pure, Except.pure, Except.ok.injEq, Prod.mk.injEq, Bool.false_eq_true] at hx
        obtain ⟨rfl, _⟩ := hx
        exact TrN.silent gd.ok hk rfl rfl rfl hg
    · simp only [hm, if_false, Bool.false_eq_true, bind, Except.bind] at hx
      split at hx
      · cases hx
      · rename_i v hx1
        obtain ⟨c1, r1⟩ := v
        simp only [pure, Except.pure, Except.ok.injEq, Prod.mk.injEq] at hx
        obtain ⟨rfl, _⟩ := hx
        exact ih c c1 r1 h hk hg hrest hx1

theorem classAssign_tr {r0 : Req} (st : Static) (c c' : Ctx) (h : CtxOK c) (hk : KeyEq r0 c.req) (hg : c.gone = false)
    (hx : classAssign st c = .ok c') : TrN r0 c c' := by
  have gd := classAssign_good st c c' h hx
  unfold classAssign at hx
  by_cases he : (!c.req.cls.isEmpty) = true
  · simp only [he, if_true, pure, Except.pure, Except.ok.injEq] at hx
    subst hx
    exact TrN.silent gd.ok hk rfl rfl rfl hg
  · simp only [he, if_false, Bool.false_eq_true, bind, Except.bind] at hx
    split at hx
    · cases hx
    · rename_i v hx1
      obtain ⟨c1, r1⟩ := v
      have t1 := classRules_tr st _ _ _ _ h hk hg h.rules hx1
      split at hx <;> (simp only [pure, Except.pure, Except.ok.injEq] at hx; subst hx)
      · exact t1.trans (TrN.silent gd.ok t1.key rfl rfl rfl t1.live)
      · exact t1.trans (TrN.silent gd.ok t1.key rfl rfl rfl t1.live)

/-- the accept line is a `D` or `R` line of the right form -/
theorem acceptLine_is {lim : Limits} {r : Req} (h : ReqOK lim r) (hl : LimOK lim) :
    ∃ letter rest, (letter = 107 ∨ letter = 68 ∨ letter = 82) ∧ RestOK letter rest ∧
      (if !r.account.isEmpty && !r.cls.isEmpty then sendReq r (b "R") (sp ++ r.account ++ sp ++ r.cls)
        else if !r.account.isEmpty then sendReq r (b "R") (sp ++ r.account)
        else if !r.cls.isEmpty then sendReq r (b "D") (sp ++ r.cls)
        else sendReq r (b "D") []) = sendReq r [letter] rest := by
  have hA := h.text.acctL
  have hC := h.text.clsL
  have hL := hl.1
  rw [b_R, b_D, sp_eq]
  by_cases ha : r.account = []
  · by_cases hc : r.cls = []
    · refine ⟨68, [], Or.inr (Or.inl rfl), RestOK.bare_D, ?_⟩
      simp only [ha, hc, List.isEmpty_nil, Bool.not_true, Bool.and_false, Bool.false_eq_true, if_false]
    · have hce : r.cls.isEmpty = false := by simpa using hc
      refine ⟨68, 32 :: r.cls, Or.inr (Or.inl rfl), RestOK.one 68 r.cls (Or.inl rfl) hc h.text.clsS h.text.clsC (by omega), ?_⟩
      simp only [ha, hce, List.isEmpty_nil, Bool.not_true, Bool.false_and, Bool.false_eq_true, if_false, Bool.not_false, if_true]
      rfl
  · have hae : r.account.isEmpty = false := by simpa using ha
    by_cases hc : r.cls = []
    · refine ⟨82, 32 :: r.account, Or.inr (Or.inr rfl),
        RestOK.one 82 r.account (Or.inr (Or.inr rfl)) ha h.text.acctS h.text.acctC (by omega), ?_⟩
      simp only [hae, hc, List.isEmpty_nil, Bool.not_true, Bool.and_false, Bool.false_eq_true, if_false, Bool.not_false, if_true]
      rfl
    · have hce : r.cls.isEmpty = false := by simpa using hc
      refine ⟨82, 32 :: (r.account ++ 32 :: r.cls), Or.inr (Or.inr rfl),
        RestOK.two r.account r.cls ha h.text.acctS h.text.acctC hc h.text.clsS h.text.clsC (by omega), ?_⟩
      simp only [hae, hce, Bool.not_false, Bool.and_self, if_true]
      have : [32] ++ r.account ++ [32] ++ r.cls = 32 :: (r.account ++ 32 :: r.cls) := by simp
      rw [this]

/-- a verdict line followed by the request leaving -/
theorem verdict_tr {r0 : Req} (c1 : Ctx) (h1 : CtxOK c1) (hk : KeyEq r0 c1.req) (line : Bytes)
    (hline : IsLine r0 .verdict line) :
    Tr r0 c1 (finishReq (c1.emit line)) := by
  refine ⟨(h1.emit _).finish, hk, rfl, [line], rfl, ?_⟩
  show Shape r0 c1.req.flags.softDone [line] c1.req.flags.softDone true
  exact Shape.verdict hline

theorem accept_tr {r0 : Req} (st : Static) (c c' : Ctx) (h : CtxOK c) (hk : KeyEq r0 c.req) (hg : c.gone = false)
    (hx : accept st c = .ok c') : Tr r0 c c' := by
  unfold accept at hx
  by_cases hr : c.req.flags.responded = true
  · simp [hr, bind, Except.bind, throw, throwThe, MonadExceptOf.throw] at hx
  · simp only [hr, if_false, Bool.false_eq_true] at hx
    have tail : ∀ c1 : Ctx, TrN r0 c c1 →
        Tr r0 c (finishReq ((updReq c1 fun r => { r with flags := { r.flags with responded := true } }).emit
          (let r := (updReq c1 fun r => { r with flags := { r.flags with responded := true } }).req
           if !r.account.isEmpty && !r.cls.isEmpty then sendReq r (b "R") (sp ++ r.account ++ sp ++ r.cls)
           else if !r.account.isEmpty then sendReq r (b "R") (sp ++ r.account)
           else if !r.cls.isEmpty then sendReq r (b "D") (sp ++ r.cls)
           else sendReq r (b "D") []))) := by
      intro c1 t1
      have h2 : CtxOK (updReq c1 fun r => { r with flags := { r.flags with responded := true } }) :=
        t1.ok.upd _ (fun r => ⟨rfl, rfl, rfl, rfl, rfl, rfl, rfl, rfl, rfl, rfl, rfl, rfl⟩)
      have k2 : KeyEq r0 (updReq c1 fun r => { r with flags := { r.flags with responded := true } }).req := t1.key
      have tm : TrN r0 c1 (updReq c1 fun r => { r with flags := { r.flags with responded := true } }) :=
        TrN.silent h2 k2 rfl rfl rfl t1.live
      obtain ⟨letter, rest, hlet, hrest, hline⟩ := acceptLine_is h2.req h2.lim
      dsimp only
      rw [hline, sendReq_key k2]
      exact Tr.trans (t1.trans tm) (by
        have := verdict_tr (r0 := r0) _ h2 k2 _ (IsLine.verdict letter rest hlet hrest)
        exact this)
    by_cases hcl : st.hasClass = true
    · simp only [hcl, if_true, bind, Except.bind, pure, Except.pure] at hx
      split at hx
      · cases hx
      · rename_i c1 hx1
        simp only [Except.ok.injEq] at hx
        subst hx
        exact tail c1 (classAssign_tr st _ _ h hk hg hx1)
    · simp only [hcl, if_false, bind, Except.bind, pure, Except.pure, Except.ok.injEq, Bool.false_eq_true] at hx
      subst hx
      exact tail c (TrN.refl h hk hg)

theorem kill_tr {r0 : Req} (c c' : Ctx) (reason : Bytes) (h : CtxOK c) (hk : KeyEq r0 c.req) (hg : c.gone = false)
    (hrc : Clean reason) (hx : kill c reason = .ok c') : Tr r0 c c' := by
  unfold kill at hx
  by_cases hr : c.req.flags.responded = true
  · simp [hr, bind, Except.bind, throw, throwThe, MonadExceptOf.throw] at hx
  · simp only [hr, if_false, bind, Except.bind, pure, Except.pure, Except.ok.injEq, Bool.false_eq_true] at hx
    subst hx
    have h2 : CtxOK (updReq c fun r => { r with flags := { r.flags with responded := true } }) :=
      h.upd _ (fun r => ⟨rfl, rfl, rfl, rfl, rfl, rfl, rfl, rfl, rfl, rfl, rfl, rfl⟩)
    have k2 : KeyEq r0 (updReq c fun r => { r with flags := { r.flags with responded := true } }).req := hk
    have tm : TrN r0 c (updReq c fun r => { r with flags := { r.flags with responded := true } }) :=
      TrN.silent h2 k2 rfl rfl rfl hg
    rw [b_k, b_colon, sendReq_key k2]
    exact Tr.trans tm (verdict_tr _ h2 k2 _ (IsLine.verdict 107 _ (Or.inl rfl) (RestOK.trailing 107 reason (Or.inl rfl) hrc)))

theorem gate_tr {r0 : Req} (st : Static) (c c' : Ctx) (h : CtxOK c) (hk : KeyEq r0 c.req) (hg : c.gone = false)
    (hx : gate st c = .ok c') : Tr r0 c c' := by
  unfold gate at hx
  dsimp only at hx
  by_cases h1 : (c.req.holds == 0 && !c.req.flags.responded && st.need.subset c.req.flags) = true
  · simp only [h1, if_true] at hx
    by_cases h2 : (c.req.soft == 0 || c.req.flags.timedOut) = true
    · simp only [h2, if_true] at hx; exact accept_tr st _ _ h hk hg hx
    · simp only [h2, if_false, Bool.false_eq_true] at hx
      split at hx <;> (simp only [pure, Except.pure, Except.ok.injEq] at hx; subst hx)
      · rename_i hsd
        exact (softDone_tr c h hk hg (by simpa using hsd)).toTr
      · exact (TrN.refl h hk hg).toTr
  · simp only [h1, if_false, Bool.false_eq_true, pure, Except.pure, Except.ok.injEq] at hx
    subst hx; exact (TrN.refl h hk hg).toTr

/-! ### xquery handlers -/

theorem xqQueryLines_is {lim : Limits} {srv : Svc} {cli : XqCli} {r r0 : Req} (hr : ReqOK lim r) (hk : KeyEq r0 r)
    (hs : SvcOK srv) (hcred : Clean cli.cred) : ∀ l ∈ xqQueryLines lim srv cli r, IsLine r0 .query l := by
  have hq : ∀ payload, Clean payload → IsLine r0 .query (xquery srv.name (routing r) payload) := by
    intro payload hp
    rw [routing_key hk]
    exact IsLine.query srv.name payload hs hp
  have huser : Clean (if srv.ty != .login then xqUsername lim r else []) := by
    split
    · exact xqUsername_clean hr.text
    · exact Clean.nil
  have hhost : Clean (xqHostname r) := by
    unfold xqHostname; split
    · exact hr.head.addrC
    · exact hr.text.hostC
  intro l hl
  unfold xqQueryLines at hl
  dsimp only at hl
  rcases List.mem_append.1 hl with h | h
  · split at h
    · simp only [List.mem_singleton] at h; subst h
      apply hq
      simp only [clean_append_iff]
      repeat' apply And.intro
      all_goals first | exact b_clean_CHECK | exact hr.text.nickC | exact sp_clean | exact huser | exact hr.head.addrC
                      | exact hhost | exact b_clean_colon | exact hr.text.realC
    · simp at h
  · split at h
    · simp at h
    · split at h
      · simp only [List.mem_singleton] at h; subst h
        exact hq _ (Clean.append b_clean_LOGIN hcred)
      · split at h
        · simp only [List.mem_singleton] at h; subst h
          apply hq
          simp only [clean_append_iff]
          repeat' apply And.intro
          all_goals first | exact b_clean_LOGIN2 | exact hr.head.addrC | exact sp_clean | exact hhost | exact huser | exact hcred
        · simp at h

theorem xqTake_req (c : Ctx) (srv : Svc) (cli : XqCli) (i : Nat) :
    KeyEq c.req (xqTake c srv cli i).req ∧ (xqTake c srv cli i).req.flags = c.req.flags ∧ (xqTake c srv cli i).gone = c.gone := by
  unfold xqTake; dsimp only; split <;> exact ⟨⟨rfl, rfl, rfl, rfl⟩, rfl, rfl⟩

theorem KeyEq.trans {a b c : Req} (h1 : KeyEq a b) (h2 : KeyEq b c) : KeyEq a c :=
  ⟨h2.1.trans h1.1, h2.2.1.trans h1.2.1, h2.2.2.1.trans h1.2.2.1, h2.2.2.2.trans h1.2.2.2⟩

theorem xqCheckSlot_tr {r0 : Req} (p : Bool) (c : Ctx) (cli : XqCli) (i : Nat) (h : CtxOK c) (hk : KeyEq r0 c.req)
    (hg : c.gone = false) (hcred : Clean cli.cred) : TrN r0 c (xqCheckSlot p c cli i).1 := by
  have gd := (xqCheckSlot_good p c cli i h hcred).1
  unfold xqCheckSlot at gd ⊢
  split
  · exact TrN.refl h hk hg
  · rename_i srv hsrv
    have hs : SvcOK srv := h.svcs srv (getSvc_mem hsrv)
    split
    · exact TrN.refl h hk hg
    · rename_i hel
      simp only [hsrv, hel] at gd
      dsimp only at gd ⊢
      obtain ⟨k1, f1, g1⟩ := xqTake_req { c with out := c.out ++ xqQueryLines c.lim srv cli c.req } srv cli i
      refine ⟨⟨gd.ok, hk.trans k1, gd.wrote.1, xqQueryLines c.lim srv cli c.req, ?_, ?_⟩, by rw [g1]; exact hg⟩
      · rw [(xqTake_good { c with out := c.out ++ xqQueryLines c.lim srv cli c.req } srv cli i ⟨h.req, h.svcs, h.rules, h.lim⟩ hs).2.1]
      · rw [f1, g1, hg]
        exact Shape.queries _ _ (xqQueryLines_is h.req hk hs hcred)

theorem xqCheckLoop_tr {r0 : Req} (p : Bool) (is : List Nat) (c : Ctx) (cli : XqCli) (h : CtxOK c) (hk : KeyEq r0 c.req)
    (hg : c.gone = false) (hcred : Clean cli.cred) : TrN r0 c (xqCheckLoop p is c cli).1 := by
  induction is generalizing c cli with
  | nil => exact TrN.refl h hk hg
  | cons i is ih =>
    unfold xqCheckLoop
    have t1 := xqCheckSlot_tr (r0 := r0) p c cli i h hk hg hcred
    have c1 := (xqCheckSlot_good p c cli i h hcred).2
    exact t1.trans (ih (xqCheckSlot p c cli i).1 (xqCheckSlot p c cli i).2 t1.ok t1.key t1.live c1)

theorem xqCheck_tr {r0 : Req} (p : Bool) (c : Ctx) (h : CtxOK c) (hk : KeyEq r0 c.req) (hg : c.gone = false) :
    TrN r0 c (xqCheck p c) := by
  have gd := xqCheck_good p c h
  unfold xqCheck at gd ⊢
  split
  · exact TrN.refl h hk hg
  · rename_i cli hx
    simp only [hx] at gd
    have t1 := xqCheckLoop_tr (r0 := r0) p (List.range c.svcs.length) c cli h hk hg (h.req.text.credC cli hx)
    exact t1.trans (TrN.silent gd.ok t1.key rfl rfl rfl t1.live)

theorem xqCheckPassword_tr {r0 : Req} (c : Ctx) (cli : XqCli) (pw : Bytes) (h : CtxOK c) (hk : KeyEq r0 c.req)
    (hg : c.gone = false) (hp : Clean pw) : TrN r0 c (xqCheckPassword c cli pw) := by
  unfold xqCheckPassword
  split
  · exact TrN.refl h hk hg
  · rename_i m cred hshape
    dsimp only
    have hcred : Clean (strncpyN 511 cred) := (checkPasswordShape_clean hp hshape).take _
    have h1 : CtxOK (updReq c fun r => { r with
        holds := holdsAfterPassword r.holds cli.modeBang ((cli.modeBang && !m.clrBang) || m.setBang) r.account.isEmpty,
        xq := some { cli with modeX := (cli.modeX && !m.clrX) || m.setX,
                              modeBang := (cli.modeBang && !m.clrBang) || m.setBang, cred := strncpyN 511 cred } }) := by
      refine ⟨h.req.same rfl rfl rfl rfl rfl rfl rfl rfl rfl rfl rfl ?_, h.svcs, h.rules, h.lim⟩
      intro cli' hc'
      simp only [updReq, Option.some.injEq] at hc'
      rw [← hc']; exact hcred
    have tm : TrN r0 c (updReq c fun r => { r with
        holds := holdsAfterPassword r.holds cli.modeBang ((cli.modeBang && !m.clrBang) || m.setBang) r.account.isEmpty,
        xq := some { cli with modeX := (cli.modeX && !m.clrX) || m.setX,
                              modeBang := (cli.modeBang && !m.clrBang) || m.setBang, cred := strncpyN 511 cred } }) :=
      TrN.silent h1 hk rfl rfl rfl hg
    exact tm.trans (xqCheck_tr true _ h1 hk hg)

theorem xqMoreLoop_tr {r0 : Req} (pw : Bytes) (hp : Clean pw) (is : List Nat) (c : Ctx) (cli : XqCli) (h : CtxOK c)
    (hk : KeyEq r0 c.req) (hg : c.gone = false) : TrN r0 c (xqMoreLoop pw is c cli).1 := by
  induction is generalizing c cli with
  | nil => exact TrN.refl h hk hg
  | cons i is ih =>
    unfold xqMoreLoop
    split
    · exact ih _ _ h hk hg
    · split
      · exact ih _ _ h hk hg
      · rename_i srv hsrv
        split
        · exact ih _ _ h hk hg
        · have hs : SvcOK srv := h.svcs srv (getSvc_mem hsrv)
          have t1 : TrN r0 c (c.emit (xquery srv.name (routing c.req) (b "MORE " ++ pw))) := by
            refine ⟨⟨h.emit _, hk, rfl, [xquery srv.name (routing r0) (b "MORE " ++ pw)], ?_, ?_⟩, hg⟩
            · simp only [Ctx.emit]; rw [routing_key hk]
            · show Shape r0 c.req.flags.softDone _ c.req.flags.softDone c.gone
              rw [hg]
              exact Shape.query (IsLine.query _ _ hs (Clean.append b_clean_MORE hp)) (Shape.nil _)
          dsimp only
          have hsv : ∀ s, (some { srv with refs := srv.refs + 1 } : Option Svc) = some s → SvcOK s := by
            intro s hs'; simp only [Option.some.injEq] at hs'; subst hs'; exact hs
          -- the bookkeeping after the line writes nothing
          have step : ∀ c1 : Ctx, CtxOK c1 → KeyEq r0 c1.req → c1.gone = false →
              TrN r0 c1 { (if cli.ref.isEmpty = true then updReq c1 fun r => { r with soft := r.soft + 1 } else c1) with
                svcs := setSvc (if cli.ref.isEmpty = true then updReq c1 fun r => { r with soft := r.soft + 1 } else c1).svcs i
                  (some { srv with refs := srv.refs + 1 }) } := by
            intro c1 hc1 hk1 hg1
            split
            · have h2 : CtxOK (updReq c1 fun r => { r with soft := r.soft + 1 }) :=
                hc1.upd _ (fun r => ⟨rfl, rfl, rfl, rfl, rfl, rfl, rfl, rfl, rfl, rfl, rfl, rfl⟩)
              exact TrN.silent ⟨h2.req, h2.svcs.set i _ hsv, h2.rules, h2.lim⟩ hk1 rfl rfl rfl hg1
            · exact TrN.silent ⟨hc1.req, hc1.svcs.set i _ hsv, hc1.rules, hc1.lim⟩ hk1 rfl rfl rfl hg1
          have t2 := step _ t1.ok t1.key t1.live
          exact t1.trans (t2.trans (ih _ { cli with more := maskDel cli.more i, ref := maskAdd cli.ref i } t2.ok t2.key t2.live))

theorem xqPassword_tr {r0 : Req} (c c' : Ctx) (pw : Option Bytes) (h : CtxOK c) (hk : KeyEq r0 c.req) (hg : c.gone = false)
    (hp : ∀ p, pw = some p → Clean p) (hx : xqPassword c pw = .ok c') : TrN r0 c c' := by
  have gd := xqPassword_good c c' pw h hp hx
  unfold xqPassword at hx
  split at hx
  · simp only [pure, Except.pure, Except.ok.injEq] at hx; subst hx; exact TrN.refl h hk hg
  · rename_i cli hxq
    split at hx
    · split at hx
      · cases hx
      · rename_i p
        simp only [pure, Except.pure, Except.ok.injEq] at hx; subst hx
        exact xqCheckPassword_tr _ _ _ h hk hg (hp p rfl)
    · simp only [pure, Except.pure, Except.ok.injEq] at hx; subst hx
      have hpc : Clean (pw.getD (b "(null)")) := by
        cases pw with
        | none => exact clean_of_cleanB (by decide)
        | some p => exact hp p rfl
      have t1 := xqMoreLoop_tr (r0 := r0) (pw.getD (b "(null)")) hpc (List.range c.svcs.length) c cli h hk hg
      exact t1.trans (TrN.silent gd.ok t1.key rfl rfl rfl t1.live)

theorem xqFinishPre_req (i : Nat) (c : Ctx) (cli : XqCli) (srv : Svc) :
    KeyEq c.req (xqFinishPre i c cli srv).req ∧ (xqFinishPre i c cli srv).req.flags = c.req.flags ∧
      (xqFinishPre i c cli srv).gone = c.gone := by
  unfold xqFinishPre
  dsimp only
  split <;> split <;> simp [KeyEq, updReq]

theorem xqFinish_tr {r0 : Req} (st : Static) (i : Nat) (c c' : Ctx) (cli : XqCli) (srv : Svc) (h : CtxOK c)
    (hk : KeyEq r0 c.req) (hg : c.gone = false) (hs : SvcOK srv) (hcred : Clean cli.cred)
    (hx : xqFinish st i c cli srv = .ok c') : Tr r0 c c' := by
  rw [xqFinish_eq] at hx
  obtain ⟨k, o, l⟩ := xqFinishPre_good i c cli srv h hs hcred
  obtain ⟨k1, f1, g1⟩ := xqFinishPre_req i c cli srv
  have tm : TrN r0 c (xqFinishPre i c cli srv) :=
    TrN.silent k (hk.trans k1) l o (by rw [f1]) (by rw [g1]; exact hg)
  exact Tr.trans tm (gate_tr st _ _ k tm.key tm.live hx)

theorem xqVouch_tr {r0 : Req} (c : Ctx) (cli : XqCli) (stamp : Bytes) (h : CtxOK c) (hk : KeyEq r0 c.req)
    (hg : c.gone = false) (hst : Clean stamp) : TrN r0 c (xqVouch c cli stamp) := by
  unfold xqVouch
  dsimp only
  obtain ⟨a1, a2, a3⟩ := setAccount_props c.lim stamp hst
  have h1 : CtxOK (updReq c fun r => { r with account := setAccount c.lim stamp }) := by
    refine ⟨⟨⟨h.req.head.client, h.req.head.port, h.req.head.addrW, h.req.head.addrC, h.req.head.addrL⟩, h.req.serial, ?_⟩,
      h.svcs, h.rules, h.lim⟩
    exact ⟨a1, a2, a3, h.req.text.clsS, h.req.text.clsC, h.req.text.clsL, h.req.text.userS, h.req.text.userC,
      h.req.text.userL, h.req.text.hostC, h.req.text.authC, h.req.text.nickC, h.req.text.realC, h.req.text.credC⟩
  have t1 : TrN r0 c (updReq c fun r => { r with account := setAccount c.lim stamp }) :=
    TrN.silent h1 hk rfl rfl rfl hg
  have h2 : ∀ c1 : Ctx, TrN r0 c c1 →
      TrN r0 c (if cli.modeX || cli.modeBang then c1.emit (sendReq c1.req (b "M") (b " :+x")) else c1) := by
    intro c1 tc1
    split
    · rw [b_M, b_plusx]
      exact tc1.trans (emit_info_tr c1 tc1.ok tc1.key tc1.live 77 _ (Or.inr (Or.inl rfl))
        (RestOK.trailing 77 _ (Or.inr (Or.inl rfl)) (clean_of_cleanB (by decide))))
    · exact tc1
  refine h2 _ ?_
  split
  · exact t1.trans (TrN.silent (h1.upd _ (fun r => ⟨rfl, rfl, rfl, rfl, rfl, rfl, rfl, rfl, rfl, rfl, rfl, rfl⟩)) hk rfl rfl rfl hg)
  · exact t1

theorem xqReply_tr {r0 : Req} (st : Static) (c c' : Ctx) (svc : Bytes) (reply : Option Bytes) (h : CtxOK c)
    (hk : KeyEq r0 c.req) (hg : c.gone = false) (hrep : ∀ r, reply = some r → Clean r)
    (hx : xqReply st c svc reply = .ok c') : Tr r0 c c' := by
  have emitC : ∀ text, Clean text → TrN r0 c (c.emit (sendReq c.req (b "C") (b " :" ++ text))) := by
    intro text ht
    rw [b_C, b_colon]
    exact emit_info_tr c h hk hg 67 _ (Or.inr (Or.inr rfl)) (RestOK.trailing 67 text (Or.inr (Or.inr rfl)) ht)
  unfold xqReply at hx
  split at hx
  · simp only [pure, Except.pure, Except.ok.injEq] at hx; subst hx; exact (TrN.refl h hk hg).toTr
  · rename_i cli hxq
    have hcred : Clean cli.cred := h.req.text.credC cli hxq
    split at hx
    · simp only [pure, Except.pure, Except.ok.injEq] at hx; subst hx; exact (TrN.refl h hk hg).toTr
    · rename_i i srv hfind
      have hs : SvcOK srv := h.svcs srv (findRefSlot_mem hfind)
      split at hx
      · -- unlinked
        dsimp only at hx
        split at hx
        · have t0 : TrN r0 c (c.emit (sendReq c.req (b "C") (b " :The login server is currently disconnected.  Please excuse the inconvenience."))) := by
            rw [b_C, apology_shape]
            exact emit_info_tr c h hk hg 67 _ (Or.inr (Or.inr rfl))
              (RestOK.trailing 67 _ (Or.inr (Or.inr rfl)) (clean_of_cleanB (by decide)))
          exact Tr.trans t0 (xqFinish_tr st i _ _ cli _ t0.ok t0.key t0.live (by exact hs) (by exact hcred) hx)
        · exact xqFinish_tr st i _ _ cli _ h hk hg (by exact hs) (by exact hcred) hx
      · rename_i rep
        have hrc : Clean rep := hrep rep rfl
        split at hx
        · exact xqFinish_tr st i _ _ _ _ h hk hg (by exact hs) (by exact hcred) hx
        · rename_i stamp hok
          dsimp only at hx
          have hstamp : Clean stamp := by
            unfold okStamp at hok
            split at hok
            · split at hok
              · cases hok
              · simp only [Option.some.injEq] at hok; rw [← hok]; exact hrc.drop 3
            · cases hok
          split at hx
          · have t1 := xqVouch_tr (r0 := r0) c { cli with ok := maskAdd cli.ok i } stamp h hk hg hstamp
            exact Tr.trans t1 (xqFinish_tr st i _ _ _ _ t1.ok t1.key t1.live (by exact hs) (by exact hcred) hx)
          · exact xqFinish_tr st i _ _ _ _ h hk hg (by exact hs) (by exact hcred) hx
        · split at hx
          · have h1 : CtxOK { c with svcs := setSvc c.svcs i (some { srv with bad := srv.bad + 1, badAcct := srv.badAcct + (if c.req.account.isEmpty then 0 else 1) }) } :=
              ⟨h.req, h.svcs.set i _ (by intro s hs'; simp only [Option.some.injEq] at hs'; subst hs'; exact hs), h.rules, h.lim⟩
            have tm : TrN r0 c { c with svcs := setSvc c.svcs i (some { srv with bad := srv.bad + 1, badAcct := srv.badAcct + (if c.req.account.isEmpty then 0 else 1) }) } :=
              TrN.silent h1 hk rfl rfl rfl hg
            exact Tr.trans tm (kill_tr _ _ _ h1 hk hg (hrc.drop 3) hx)
          · split at hx
            · have t0 := emitC (rep.drop 6) (hrc.drop 6)
              exact Tr.trans t0 (xqFinish_tr st i _ _ cli _ t0.ok t0.key t0.live (by exact hs) (by exact hcred) hx)
            · split at hx
              · have t0 := emitC (rep.drop 5) (hrc.drop 5)
                exact Tr.trans t0 (xqFinish_tr st i _ _ _ _ t0.ok t0.key t0.live (by exact hs) (by exact hcred) hx)
              · simp only [pure, Except.pure, Except.ok.injEq] at hx; subst hx; exact (TrN.refl h hk hg).toTr

/-! ### server events -/

theorem fieldChange_tr {r0 : Req} (st : Static) (p : Bool) (c : Ctx) (h : CtxOK c) (hk : KeyEq r0 c.req) (hg : c.gone = false) :
    TrN r0 c (fieldChange st p c) := by
  unfold fieldChange; split
  · exact xqCheck_tr p c h hk hg
  · exact TrN.refl h hk hg

theorem reqEvent_tr {r0 : Req} (st : Static) (hneed : st.need.softDone = false) (c c' : Ctx) (ev : Ev) (h : CtxOK c)
    (hk : KeyEq r0 c.req) (hg : c.gone = false) (hev : EvOK ev) (hx : reqEvent st c ev = .ok c') : Tr r0 c c' := by
  have fin : ∀ c1 : Ctx, gate st (fieldChange st false c1) = .ok c' → TrN r0 c c1 → Tr r0 c c' := by
    intro c1 hgg t1
    have t2 := fieldChange_tr (r0 := r0) st false c1 t1.ok t1.key t1.live
    exact Tr.trans (t1.trans t2) (gate_tr st _ _ t2.ok t2.key t2.live hgg)
  have flagsOnly : ∀ (f : Flags → Flags), (∀ x, (f x).softDone = x.softDone) →
      TrN r0 c (updReq c fun r => { r with flags := f r.flags }) := by
    intro f hf
    exact TrN.silent (h.upd _ (fun r => ⟨rfl, rfl, rfl, rfl, rfl, rfl, rfl, rfl, rfl, rfl, rfl, rfl⟩)) hk rfl rfl (hf _) hg
  cases ev with
  | hostname hn =>
    have gd := reqEvent_good st c c' (.hostname hn) h hev hx
    simp only [reqEvent] at hx
    split at hx
    · simp only [pure, Except.pure, Except.ok.injEq] at hx; subst hx; exact (TrN.refl h hk hg).toTr
    · split at hx
      · cases hx
      · rename_i x
        have hxc : Clean x := hev x rfl
        refine fin _ hx (TrN.silent ?_ hk rfl rfl rfl hg)
        refine ⟨⟨⟨h.req.head.client, h.req.head.port, h.req.head.addrW, h.req.head.addrC, h.req.head.addrL⟩, h.req.serial, ?_⟩,
          h.svcs, h.rules, h.lim⟩
        exact ⟨h.req.text.acctS, h.req.text.acctC, h.req.text.acctL, h.req.text.clsS, h.req.text.clsC, h.req.text.clsL,
          h.req.text.userS, h.req.text.userC, h.req.text.userL, hxc.take _, h.req.text.authC, h.req.text.nickC,
          h.req.text.realC, h.req.text.credC⟩
  | noHostname =>
    simp only [reqEvent] at hx
    exact fin _ hx (flagsOnly (fun f => { f with gotHost := true }) (fun _ => rfl))
  | password p =>
    simp only [reqEvent, bind, Except.bind] at hx
    have t1 : TrN r0 c (updReq c fun r => { r with flags := { r.flags with gotPass := true } }) :=
      flagsOnly (fun f => { f with gotPass := true }) (fun _ => rfl)
    split at hx
    · split at hx
      · cases hx
      · rename_i c1 hx1
        have t2 := xqPassword_tr (r0 := r0) _ _ p t1.ok t1.key t1.live hev hx1
        exact Tr.trans (t1.trans t2) (gate_tr st _ _ t2.ok t2.key t2.live hx)
    · simp only [pure, Except.pure] at hx
      exact Tr.trans t1 (gate_tr st _ _ t1.ok t1.key t1.live hx)
  | userInfo user real =>
    simp only [reqEvent] at hx
    obtain ⟨u1, u2, u3⟩ := hev
    refine fin _ hx (TrN.silent ?_ hk rfl rfl ?_ hg)
    · refine ⟨⟨⟨h.req.head.client, h.req.head.port, h.req.head.addrW, h.req.head.addrC, h.req.head.addrL⟩, h.req.serial, ?_⟩,
        h.svcs, h.rules, h.lim⟩
      refine ⟨h.req.text.acctS, h.req.text.acctC, h.req.text.acctL, h.req.text.clsS, h.req.text.clsC, h.req.text.clsL,
        u1.take _, u2.take _, ?_, h.req.text.hostC, h.req.text.authC, h.req.text.nickC, u3.take _, h.req.text.credC⟩
      show (strncpyN c.lim.user user).length ≤ c.lim.user
      unfold strncpyN; rw [List.length_take]; omega
    · simp only [updReq]
      split <;> rfl
  | ident i =>
    simp only [reqEvent] at hx
    refine fin _ hx (TrN.silent ?_ ?_ rfl rfl ?_ hg)
    · cases i with
      | some x =>
        have hxc : Clean x := hev x rfl
        refine ⟨⟨⟨h.req.head.client, h.req.head.port, h.req.head.addrW, h.req.head.addrC, h.req.head.addrL⟩, h.req.serial, ?_⟩,
          h.svcs, h.rules, h.lim⟩
        exact ⟨h.req.text.acctS, h.req.text.acctC, h.req.text.acctL, h.req.text.clsS, h.req.text.clsC, h.req.text.clsL,
          h.req.text.userS, h.req.text.userC, h.req.text.userL, h.req.text.hostC, hxc.take _, h.req.text.nickC,
          h.req.text.realC, h.req.text.credC⟩
      | none =>
        refine h.upd _ (fun r => ?_)
        dsimp only
        split <;> exact ⟨rfl, rfl, rfl, rfl, rfl, rfl, rfl, rfl, rfl, rfl, rfl, rfl⟩
    · simp only [updReq]
      cases i with
      | some x => exact hk
      | none => dsimp only; split <;> exact hk
    · simp only [updReq]
      cases i with
      | some x => rfl
      | none => dsimp only; split <;> rfl
  | nick n =>
    simp only [reqEvent] at hx
    split at hx
    · cases hx
    · rename_i x
      have hxc : Clean x := hev x rfl
      refine fin _ hx (TrN.silent ?_ hk rfl rfl rfl hg)
      refine ⟨⟨⟨h.req.head.client, h.req.head.port, h.req.head.addrW, h.req.head.addrC, h.req.head.addrL⟩, h.req.serial, ?_⟩,
        h.svcs, h.rules, h.lim⟩
      exact ⟨h.req.text.acctS, h.req.text.acctC, h.req.text.acctL, h.req.text.clsS, h.req.text.clsC, h.req.text.clsL,
        h.req.text.userS, h.req.text.userC, h.req.text.userL, h.req.text.hostC, h.req.text.authC, hxc.take _,
        h.req.text.realC, h.req.text.credC⟩
  | hurry =>
    simp only [reqEvent] at hx
    refine fin _ hx (flagsOnly (fun f => { (f.or st.need) with gotHurry := true }) ?_)
    intro x
    simp only [Flags.or, hneed, Bool.or_false]
  | timeout =>
    simp only [reqEvent] at hx
    have t1 : TrN r0 c (updReq c fun r => { r with soft := 0, timer := .fired, flags := { r.flags with timedOut := true } }) :=
      TrN.silent (h.upd _ (fun r => ⟨rfl, rfl, rfl, rfl, rfl, rfl, rfl, rfl, rfl, rfl, rfl, rfl⟩)) hk rfl rfl rfl hg
    exact Tr.trans t1 (gate_tr st _ _ t1.ok t1.key t1.live hx)

end Iauthd.Proto
