import Iauthd.Proto.Holds
/-
  C08: the treatment of a byte stream does not depend on how it is cut into read() chunks.

    stepChunk s (a ++ b)  =  stepChunk s a  then  stepChunk · b      (outputs concatenated)

  for every state whose input buffer holds no newline (which is an invariant), hence for
  every segmentation of every stream, and a prefix of a stream processes exactly the
  complete lines of that prefix.
-/
set_option linter.unusedSimpArgs false
set_option linter.unusedVariables false
namespace Iauthd.Proto
open Iauthd

/-! ### an induction principle for the dispatcher -/

theorem dispatch_ind (s : State) (l : Line) (cmd : UInt8) (req? : Option Req)
    (P : M (State × List Bytes) → Prop)
    (hpure : ∀ o, (∀ l ∈ o, ∃ t, l = sendOpers t) → P (pure (s, o)))
    (hnew : ∀ id a p, P (newClient s id a p))
    (hdrop : ∀ c, P (dropReq s req? c))
    (honreq : ∀ c ev, (req?.isSome = true → ev.argsPresent) → P (onReq s req? c ev))
    (huser : ∀ r u re, req? = some r → P (withReq s r fun ctx => reqEvent s.static ctx (.userInfo u re)))
    (hreply : ∀ isX, P (onReply s l isX))
    (hinfo : P (onInfo s l)) : P (dispatch s l cmd req?) := by
  unfold dispatch
  dsimp only
  by_cases c1 : (cmd == 67) = true
  · rw [if_pos c1]
    by_cases a : l.argv.length < 5
    · rw [if_pos a]; exact hpure _ (by intro l hl; first | (simp only [List.mem_singleton] at hl; exact ⟨_, hl⟩) | (simp at hl))
    · rw [if_neg a]; exact hnew _ _ _
  rw [if_neg c1]
  by_cases c2 : (cmd == 68) = true
  · rw [if_pos c2]; exact hdrop _
  rw [if_neg c2]
  by_cases c3 : (cmd == 78) = true
  · rw [if_pos c3]
    by_cases a : (req?.isSome && decide (l.argv.length < 2)) = true
    · rw [if_pos a]; exact hpure _ (by intro l hl; first | (simp only [List.mem_singleton] at hl; exact ⟨_, hl⟩) | (simp at hl))
    · rw [if_neg a]; exact honreq _ _ (fun h => by simp [h, Ev.argsPresent])
  rw [if_neg c3]
  by_cases c4 : (cmd == 100) = true
  · rw [if_pos c4]; exact honreq _ _ (fun _ => trivial)
  rw [if_neg c4]
  by_cases c5 : (cmd == 80) = true
  · rw [if_pos c5]
    by_cases a : (req?.isSome && decide (l.argv.length < 2)) = true
    · rw [if_pos a]; exact hpure _ (by intro l hl; first | (simp only [List.mem_singleton] at hl; exact ⟨_, hl⟩) | (simp at hl))
    · rw [if_neg a]; exact honreq _ _ (fun h => by simp [h, Ev.argsPresent])
  rw [if_neg c5]
  by_cases c6 : (cmd == 85) = true
  · rw [if_pos c6]
    cases hq : req? with
    | none => exact hpure _ (by intro l hl; first | (simp only [List.mem_singleton] at hl; exact ⟨_, hl⟩) | (simp at hl))
    | some r =>
      dsimp only
      by_cases a : l.argv.length < 3
      · rw [if_pos a]; exact hpure _ (by intro l hl; first | (simp only [List.mem_singleton] at hl; exact ⟨_, hl⟩) | (simp at hl))
      · rw [if_neg a]; exact huser r _ _ hq
  rw [if_neg c6]
  by_cases c7 : (cmd == 117) = true
  · rw [if_pos c7]; exact honreq _ _ (fun _ => trivial)
  rw [if_neg c7]
  by_cases c8 : (cmd == 110) = true
  · rw [if_pos c8]
    by_cases a : (req?.isSome && decide (l.argv.length < 2)) = true
    · rw [if_pos a]; exact hpure _ (by intro l hl; first | (simp only [List.mem_singleton] at hl; exact ⟨_, hl⟩) | (simp at hl))
    · rw [if_neg a]; exact honreq _ _ (fun h => by simp [h, Ev.argsPresent])
  rw [if_neg c8]
  by_cases c9 : (cmd == 72) = true
  · rw [if_pos c9]; exact honreq _ _ (fun _ => trivial)
  rw [if_neg c9]
  by_cases c10 : (cmd == 84) = true
  · rw [if_pos c10]; exact hdrop _
  rw [if_neg c10]
  by_cases c11 : (cmd == 88) = true
  · rw [if_pos c11]; exact hreply true
  rw [if_neg c11]
  by_cases c12 : (cmd == 120) = true
  · rw [if_pos c12]; exact hreply false
  rw [if_neg c12]
  by_cases c13 : (cmd == 63) = true
  · rw [if_pos c13]; exact hinfo
  rw [if_neg c13]; exact hpure _ (by intro l hl; first | (simp only [List.mem_singleton] at hl; exact ⟨_, hl⟩) | (simp at hl))

/-! ### no handler touches the input buffer -/

def KeepsInbuf (s : State) (m : M (State × List Bytes)) : Prop :=
  ∀ s' out, m = .ok (s', out) → s'.inbuf = s.inbuf

theorem withReq_inbuf (s : State) (r : Req) (f : Ctx → M Ctx) : KeepsInbuf s (withReq s r f) := by
  intro s' out h
  rw [withReq_eq] at h
  cases hx : f (ctx0 s r) with
  | error e => simp [hx, Except.map] at h
  | ok c =>
    simp only [hx, Except.map, Except.ok.injEq, Prod.mk.injEq] at h
    obtain ⟨rfl, _⟩ := h; rfl

theorem pure_inbuf (s : State) (o : List Bytes) : KeepsInbuf s (pure (s, o)) := by
  intro s' out h
  simp only [pure, Except.pure, Except.ok.injEq, Prod.mk.injEq] at h
  obtain ⟨rfl, _⟩ := h; rfl

theorem stepLine_inbuf (s : State) (raw : Bytes) : KeepsInbuf s (stepLine s raw) := by
  unfold stepLine
  dsimp only
  split
  · exact pure_inbuf s _
  · have hd : ∀ cmd req?, KeepsInbuf s (dispatch s (tokenize raw) cmd req?) := fun cmd req? => by
      apply dispatch_ind
      · exact fun o _ => pure_inbuf s o
      · intro id a p s' out h
        unfold newClient at h
        cases hp : ptonC a false with
        | error e => simp [hp, bind, Except.bind] at h
        | ok r =>
          simp only [hp, bind, Except.bind, pure, Except.pure, Except.ok.injEq, Prod.mk.injEq] at h
          obtain ⟨rfl, _⟩ := h; rfl
      · intro c; unfold dropReq; cases req? with
        | none => exact pure_inbuf s _
        | some r => exact withReq_inbuf s r _
      · intro c ev _; unfold onReq; cases req? with
        | none => exact pure_inbuf s _
        | some r => exact withReq_inbuf s r _
      · intro r u re _; exact withReq_inbuf s r _
      · intro isX; unfold onReply
        split
        · exact pure_inbuf s _
        · split
          · exact pure_inbuf s _
          · exact withReq_inbuf s _ _
      · obtain ⟨o, ho⟩ := onInfo_spec s (tokenize raw)
        rw [ho]; exact pure_inbuf s o
    split <;> (split <;> first | exact pure_inbuf s _ | exact hd _ _)

theorem stepLines_inbuf (lines : List Bytes) (s : State) : KeepsInbuf s (stepLines s lines) := by
  induction lines generalizing s with
  | nil => exact pure_inbuf s _
  | cons ln rest ih =>
    unfold stepLines
    split
    · exact ih s
    · intro s' out h
      simp only [bind, Except.bind] at h
      split at h
      · cases h
      · rename_i v1 h1
        obtain ⟨s1, o1⟩ := v1
        dsimp only at h
        split at h
        · cases h
        · rename_i v2 h2
          obtain ⟨s2, o2⟩ := v2
          simp only [pure, Except.pure, Except.ok.injEq, Prod.mk.injEq] at h
          obtain ⟨rfl, _⟩ := h
          rw [ih s1 s2 o2 h2, stepLine_inbuf s _ s1 o1 h1]

/-! ### the line assembler over concatenated input -/

def NoNL (t : Bytes) : Prop := ∀ c ∈ t, c ≠ 10

theorem lineStep_of_not (st : Bytes × List Bytes) (c : UInt8) (h : (c == 10) = false) :
    lineStep st c = (c :: st.1, st.2) := by
  unfold lineStep; rw [if_neg (by simp [h])]

theorem lineStep_of_nl (st : Bytes × List Bytes) (c : UInt8) (h : (c == 10) = true) :
    (lineStep st c).1 = [] := by
  unfold lineStep; rw [if_pos h]

theorem lineStep_acc (st : Bytes × List Bytes) (acc : List Bytes) (c : UInt8) :
    lineStep (st.1, st.2 ++ acc) c = ((lineStep st c).1, (lineStep st c).2 ++ acc) := by
  unfold lineStep
  split <;> simp

/-- complete lines found so far only accumulate -/
theorem foldl_lineStep_acc (ys : Bytes) (cur : Bytes) (acc0 acc : List Bytes) :
    ys.foldl lineStep (cur, acc0 ++ acc) =
      ((ys.foldl lineStep (cur, acc0)).1, (ys.foldl lineStep (cur, acc0)).2 ++ acc) := by
  induction ys generalizing cur acc0 with
  | nil => rfl
  | cons y ys ih =>
    simp only [List.foldl_cons]
    have := lineStep_acc (cur, acc0) acc y
    simp only at this
    rw [this]
    exact ih _ _

theorem foldl_lineStep_noNL (t : Bytes) (cur : Bytes) (acc : List Bytes) (h : NoNL t) :
    t.foldl lineStep (cur, acc) = (t.reverse ++ cur, acc) := by
  induction t generalizing cur with
  | nil => rfl
  | cons x xs ih =>
    have hx : (x == 10) = false := by
      have := h x (by simp)
      simpa using this
    simp only [List.foldl_cons]
    rw [lineStep_of_not _ _ hx, ih _ (fun c hc => h c (by simp [hc]))]
    simp

theorem foldl_lineStep_cur_noNL (ys : Bytes) (cur : Bytes) (acc : List Bytes) (h : NoNL cur) :
    NoNL (ys.foldl lineStep (cur, acc)).1 := by
  induction ys generalizing cur acc with
  | nil => exact h
  | cons y ys ih =>
    simp only [List.foldl_cons]
    have key : NoNL (lineStep (cur, acc) y).1 := by
      by_cases hy : (y == 10) = true
      · rw [lineStep_of_nl _ _ hy]
        intro c hc; simp at hc
      · have hy' : (y == 10) = false := by simpa using hy
        rw [lineStep_of_not _ _ hy']
        intro c hc
        rcases List.mem_cons.1 hc with rfl | hc
        · simpa using hy'
        · exact h c hc
    exact ih (lineStep (cur, acc) y).1 (lineStep (cur, acc) y).2 key
  done
theorem noNL_reverse {t : Bytes} (h : NoNL t) : NoNL t.reverse := fun c hc => h c (by simpa using hc)

/-- splitting a stream in two pieces: the lines are the lines of the first piece followed by
    those found when the second piece arrives; the leftover is the same -/
theorem splitLines_append (buf a : Bytes) :
    splitLines (buf ++ a) =
      ((splitLines buf).1 ++ (splitLines ((splitLines buf).2 ++ a)).1, (splitLines ((splitLines buf).2 ++ a)).2) := by
  unfold splitLines
  dsimp only
  rw [List.foldl_append]
  generalize hst : buf.foldl lineStep ([], []) = st
  obtain ⟨cur, acc⟩ := st
  have hcur : NoNL cur := by
    have := foldl_lineStep_cur_noNL buf [] [] (fun c hc => by simp at hc)
    rw [hst] at this; exact this
  rw [List.foldl_append, foldl_lineStep_noNL cur.reverse [] [] (noNL_reverse hcur)]
  simp only [List.reverse_reverse, List.append_nil]
  have := foldl_lineStep_acc a cur [] acc
  simp only [List.nil_append] at this
  rw [this]
  simp

/-! ### line lists and chunks -/

/-- run `m1`, then `f` from the state it reached; outputs are concatenated -/
def seq2 (m1 : M (State × List Bytes)) (f : State → M (State × List Bytes)) : M (State × List Bytes) :=
  match m1 with
  | .error e => .error e
  | .ok (s1, o1) =>
    match f s1 with
    | .error e => .error e
    | .ok (s2, o2) => .ok (s2, o1 ++ o2)

theorem stepLines_nil (s : State) : stepLines s [] = .ok (s, []) := rfl

theorem stepLines_cons (s : State) (ln : Bytes) (rest : List Bytes) :
    stepLines s (ln :: rest) =
      if ln.isEmpty then stepLines s rest else seq2 (stepLine s (cstr ln)) (fun s1 => stepLines s1 rest) := by
  rw [stepLines]
  split
  · rfl
  · simp only [bind, Except.bind, seq2]
    cases stepLine s (cstr ln) with
    | error e => rfl
    | ok v1 =>
      obtain ⟨s1, o1⟩ := v1
      dsimp only
      cases stepLines s1 rest with
      | error e => rfl
      | ok v2 => rfl

theorem seq2_assoc (m : M (State × List Bytes)) (f g : State → M (State × List Bytes)) :
    seq2 (seq2 m f) g = seq2 m (fun s1 => seq2 (f s1) g) := by
  unfold seq2
  cases m with
  | error e => rfl
  | ok v1 =>
    obtain ⟨s1, o1⟩ := v1
    dsimp only
    cases f s1 with
    | error e => rfl
    | ok v2 =>
      obtain ⟨s2, o2⟩ := v2
      dsimp only
      cases g s2 with
      | error e => rfl
      | ok v3 => simp [List.append_assoc]

theorem seq2_ok_nil (s : State) (f : State → M (State × List Bytes)) : seq2 (.ok (s, [])) f = f s := by
  unfold seq2
  dsimp only
  cases f s with
  | error e => rfl
  | ok v => simp

theorem stepLines_append (l1 l2 : List Bytes) (s : State) :
    stepLines s (l1 ++ l2) = seq2 (stepLines s l1) (fun s1 => stepLines s1 l2) := by
  induction l1 generalizing s with
  | nil => rw [List.nil_append, stepLines_nil, seq2_ok_nil]
  | cons ln rest ih =>
    rw [List.cons_append, stepLines_cons, stepLines_cons]
    split
    · exact ih s
    · rw [seq2_assoc]
      congr 1
      funext s1
      exact ih s1

/-- `stepLines` neither reads nor writes the input buffer -/
theorem seq2_congr (m : M (State × List Bytes)) (f g : State → M (State × List Bytes))
    (h : ∀ s1 o1, m = .ok (s1, o1) → f s1 = g s1) : seq2 m f = seq2 m g := by
  unfold seq2
  cases hm : m with
  | error e => rfl
  | ok v =>
    obtain ⟨s1, o1⟩ := v
    dsimp only
    rw [h s1 o1 hm]

/-- **C08 (chunking).**  Feeding `a ++ b` in one read is the same as feeding `a`, then `b`:
    same final state, same output lines in the same order. -/
theorem stepChunk_append (s : State) (a b' : Bytes) :
    stepChunk s (a ++ b') = seq2 (stepChunk s a) (fun s1 => stepChunk s1 b') := by
  unfold stepChunk
  dsimp only
  rw [← List.append_assoc, splitLines_append (s.inbuf ++ a) b']
  dsimp only
  rw [stepLines_append]
  unfold seq2
  cases h1 : stepLines { s with inbuf := [] } (splitLines (s.inbuf ++ a)).1 with
  | error e => rfl
  | ok v1 =>
    obtain ⟨s1, o1⟩ := v1
    have hin : s1.inbuf = [] := stepLines_inbuf _ _ s1 o1 h1
    have hs1 : ({ ({ s1 with inbuf := (splitLines (s.inbuf ++ a)).2 } : State) with inbuf := [] } : State) = s1 := by
      cases s1; simp_all
    simp only [Except.map, hs1]
    cases h2 : stepLines s1 (splitLines ((splitLines (s.inbuf ++ a)).2 ++ b')).1 with
    | error e => rfl
    | ok v2 => rfl

/-- every segmentation of a byte stream into read() chunks gives the same run -/
def feedAll : State → List Bytes → M (State × List Bytes)
  | s, [] => .ok (s, [])
  | s, c :: cs => seq2 (stepChunk s c) (fun s1 => feedAll s1 cs)

theorem stepChunk_nil (s : State) (hi : NoNL s.inbuf) : stepChunk s [] = .ok (s, []) := by
  unfold stepChunk splitLines
  dsimp only
  rw [List.append_nil, foldl_lineStep_noNL s.inbuf [] [] hi]
  simp [stepLines_nil, Except.map]

theorem stepChunk_inbuf_noNL (s s' : State) (chunk : Bytes) (out : List Bytes)
    (h : stepChunk s chunk = .ok (s', out)) : NoNL s'.inbuf := by
  unfold stepChunk at h
  dsimp only at h
  cases hr : stepLines { s with inbuf := [] } (splitLines (s.inbuf ++ chunk)).1 with
  | error e => simp [hr, Except.map] at h
  | ok r =>
    simp only [hr, Except.map, Except.ok.injEq, Prod.mk.injEq] at h
    obtain ⟨rfl, _⟩ := h
    show NoNL (splitLines (s.inbuf ++ chunk)).2
    unfold splitLines
    exact noNL_reverse (foldl_lineStep_cur_noNL _ [] [] (fun c hc => by simp at hc))

/-- **C08**: feeding the chunks one by one equals feeding their concatenation at once -/
theorem feedAll_join (chunks : List Bytes) (s : State) (hi : NoNL s.inbuf) :
    feedAll s chunks = stepChunk s chunks.flatten := by
  induction chunks generalizing s with
  | nil => simp [feedAll, stepChunk_nil s hi]
  | cons c cs ih =>
    simp only [feedAll, List.flatten_cons]
    rw [stepChunk_append]
    apply seq2_congr
    intro s1 o1 h1
    exact ih s1 (stepChunk_inbuf_noNL s s1 c o1 h1)

/-- hence any two segmentations of the same stream behave identically -/
theorem C08_chunking (cs1 cs2 : List Bytes) (s : State) (hi : NoNL s.inbuf) (h : cs1.flatten = cs2.flatten) :
    feedAll s cs1 = feedAll s cs2 := by
  rw [feedAll_join cs1 s hi, feedAll_join cs2 s hi, h]

end Iauthd.Proto
