import Iauthd.Proto.Step
/-
  How a reload reaches `iauth_xquery` (`rescanWalk`, `deliverXq`): general facts used by the
  invariant proofs and by property C17.

  * `rescanWalk_mem`     every entry of every section shown comes from the live or the new section
  * `deliverXq_inv`      whatever every rescan keeps, a delivery keeps
  * `rescanWalk_true`    once the membership changed the section's own hook runs (the walk is not empty)
  * `rescanWalk_last`    the last section shown has the string entries of the new file's section
  * `rescanWalk_nil`     nothing shown: the string entries of live and new section are the same
-/
namespace Iauthd.Proto

/-- every entry of every section the module is shown is an entry of the live or of the new section -/
theorem rescanWalk_mem : ∀ (done live new : List CNode) (m : Bool) (sec : List CNode), sec ∈ rescanWalk done live new m →
    ∀ x ∈ sec, x ∈ done ∨ x ∈ live ∨ x ∈ new := by
  intro done live new m
  induction done, live, new, m using rescanWalk.induct with
  | case1 done =>
    intro sec hs x hx
    unfold rescanWalk at hs
    simp at hs; subst hs; exact Or.inl hx
  | case2 done m hm =>
    intro sec hs x hx
    unfold rescanWalk at hs
    simp [hm] at hs
  | case3 done t ts m ih =>
    intro sec hs x hx
    unfold rescanWalk at hs
    rcases List.mem_append.mp hs with h | h
    · split at h
      · simp at h; subst h
        rcases List.mem_append.mp hx with h1 | h1
        · exact Or.inl h1
        · exact Or.inr (Or.inl (List.mem_cons_of_mem _ h1))
      · cases h
    · rcases ih sec h x hx with h1 | h1 | h1
      · exact Or.inl h1
      · exact Or.inr (Or.inl (List.mem_cons_of_mem _ h1))
      · cases h1
  | case4 done n ns m ih =>
    intro sec hs x hx
    unfold rescanWalk at hs
    rcases ih sec hs x hx with h1 | h1 | h1
    · rcases List.mem_append.mp h1 with h2 | h2
      · exact Or.inl h2
      · simp at h2; subst h2; exact Or.inr (Or.inr (List.mem_cons_self ..))
    · cases h1
    · exact Or.inr (Or.inr (List.mem_cons_of_mem _ h1))
  | case5 done t ts n ns m hk ih =>
    intro sec hs x hx
    unfold rescanWalk at hs
    simp only [hk, if_true] at hs
    rcases List.mem_append.mp hs with h | h
    · split at h
      · simp at h; subst h
        rcases List.mem_append.mp hx with h1 | h1
        · exact Or.inl h1
        · rcases List.mem_cons.mp h1 with h2 | h2
          · subst h2; exact Or.inr (Or.inr (List.mem_cons_self ..))
          · exact Or.inr (Or.inl (List.mem_cons_of_mem _ h2))
      · cases h
    · rcases ih sec h x hx with h1 | h1 | h1
      · rcases List.mem_append.mp h1 with h2 | h2
        · exact Or.inl h2
        · simp at h2; subst h2; exact Or.inr (Or.inr (List.mem_cons_self ..))
      · exact Or.inr (Or.inl (List.mem_cons_of_mem _ h1))
      · exact Or.inr (Or.inr (List.mem_cons_of_mem _ h1))
  | case6 done t ts n ns m hk hl ih =>
    intro sec hs x hx
    unfold rescanWalk at hs
    simp only [hk, hl, if_true, if_false, Bool.false_eq_true] at hs
    rcases List.mem_append.mp hs with h | h
    · split at h
      · simp at h; subst h
        rcases List.mem_append.mp hx with h1 | h1
        · exact Or.inl h1
        · exact Or.inr (Or.inl (List.mem_cons_of_mem _ h1))
      · cases h
    · rcases ih sec h x hx with h1 | h1 | h1
      · exact Or.inl h1
      · exact Or.inr (Or.inl (List.mem_cons_of_mem _ h1))
      · exact Or.inr (Or.inr h1)
  | case7 done t ts n ns m hk hl ih =>
    intro sec hs x hx
    unfold rescanWalk at hs
    simp only [hk, hl, if_false, Bool.false_eq_true] at hs
    rcases ih sec hs x hx with h1 | h1 | h1
    · rcases List.mem_append.mp h1 with h2 | h2
      · exact Or.inl h2
      · simp at h2; subst h2; exact Or.inr (Or.inr (List.mem_cons_self ..))
    · exact Or.inr (Or.inl h1)
    · exact Or.inr (Or.inr (List.mem_cons_of_mem _ h1))

/-- whatever every rescan of an admissible section keeps, a whole delivery keeps -/
theorem deliverXq_inv {P : State → Prop} {Q : CNode → Prop}
    (step : ∀ (s : State) (sec : List CNode), P s → (∀ n ∈ sec, Q n) → P (servicesChanged s sec))
    (s : State) (live xq : List CNode) (first : Bool) (hs : P s) (hl : ∀ n ∈ live, Q n) (hx : ∀ n ∈ xq, Q n) :
    P (deliverXq s live xq first) := by
  unfold deliverXq
  split
  · exact step s xq hs hx
  · have key : ∀ (l : List (List CNode)) (s : State), P s → (∀ sec ∈ l, ∀ n ∈ sec, Q n) → P (l.foldl servicesChanged s) := by
      intro l
      induction l with
      | nil => intro s hs _; exact hs
      | cons a l ih =>
        intro s hs hq
        simp only [List.foldl_cons]
        exact ih _ (step s a hs (hq a (List.mem_cons_self ..))) (fun sec h => hq sec (List.mem_cons_of_mem _ h))
    apply key _ _ hs
    intro sec hsec n hn
    rcases rescanWalk_mem [] live xq false sec hsec n hn with h | h | h
    · cases h
    · exact hl n h
    · exact hx n h

/-- the same, for facts that need nothing of the sections -/
theorem deliverXq_inv' {P : State → Prop} (step : ∀ (s : State) (sec : List CNode), P s → P (servicesChanged s sec))
    (s : State) (live xq : List CNode) (first : Bool) (hs : P s) : P (deliverXq s live xq first) :=
  deliverXq_inv (Q := fun _ => True) (fun s sec h _ => step s sec h) s live xq first hs (fun _ _ => trivial) (fun _ _ => trivial)

/-- a delivery touches only the service table and the counters -/
theorem deliverXq_frame (s : State) (live xq : List CNode) (first : Bool) :
    let s' := deliverXq s live xq first
    s'.reqs = s.reqs ∧ s'.hasXq = s.hasXq ∧ s'.hasClass = s.hasClass ∧ s'.timeout = s.timeout ∧ s'.serial = s.serial ∧
    s'.rules = s.rules ∧ s'.nRuleNodes = s.nRuleNodes ∧ s'.cleanExit = s.cleanExit ∧ s'.inbuf = s.inbuf ∧ s'.lim = s.lim := by
  apply deliverXq_inv' (P := fun s' => s'.reqs = s.reqs ∧ s'.hasXq = s.hasXq ∧ s'.hasClass = s.hasClass ∧
    s'.timeout = s.timeout ∧ s'.serial = s.serial ∧ s'.rules = s.rules ∧ s'.nRuleNodes = s.nRuleNodes ∧
    s'.cleanExit = s.cleanExit ∧ s'.inbuf = s.inbuf ∧ s'.lim = s.lim)
  · intro s1 sec h
    simpa [servicesChanged] using h
  · exact ⟨rfl, rfl, rfl, rfl, rfl, rfl, rfl, rfl, rfl, rfl⟩

/-- installing a configuration changes no request -/
theorem applyConfig_reqs' (s : State) (live new : Config) (first : Bool) : (applyConfig s live new first).1.reqs = s.reqs := by
  unfold applyConfig
  dsimp only
  split <;> split <;> simp [classChanged, (deliverXq_frame _ _ _ _).1]

/-- … and takes the new file's timeout -/
theorem applyConfig_timeout (s : State) (live new : Config) (first : Bool) :
    (applyConfig s live new first).1.timeout = new.timeout := by
  unfold applyConfig
  dsimp only
  split <;> split <;> simp [classChanged, (deliverXq_frame _ _ _ _).2.2.2.1]

/-- what installing a configuration leaves alone -/
theorem applyConfig_frame (s : State) (live new : Config) (first : Bool) :
    (applyConfig s live new first).1.hasXq = s.hasXq ∧ (applyConfig s live new first).1.hasClass = s.hasClass ∧
    (applyConfig s live new first).1.lim = s.lim ∧ (applyConfig s live new first).1.serial = s.serial ∧
    (applyConfig s live new first).1.inbuf = s.inbuf ∧ (applyConfig s live new first).1.cleanExit = s.cleanExit := by
  unfold applyConfig
  dsimp only
  have f := deliverXq_frame { s with timeout := new.timeout } live.xq (mergeSection live.xq new.xq) first
  dsimp only at f
  obtain ⟨_, f2, f3, _, f5, _, _, f8, f9, f10⟩ := f
  split <;> split <;> simp [classChanged, f2, f3, f5, f8, f9, f10]

/-! ### what the module is shown last -/

/-- all a rescan looks at: the string entries, each as (name, value) -/
def svcView (l : List CNode) : List (Bytes × Bytes) := (l.filter (·.isString)).map fun n => (n.name, n.value)

theorem svcView_append (a b : List CNode) : svcView (a ++ b) = svcView a ++ svcView b := by simp [svcView]

theorem svcView_cons (n : CNode) (l : List CNode) :
    svcView (n :: l) = (if n.isString then [(n.name, n.value)] else []) ++ svcView l := by
  by_cases h : n.isString = true <;> simp [svcView, List.filter_cons, h]

/-- a rescan is a function of what it looks at -/
theorem servicesChanged_view (s : State) (sec : List CNode) :
    servicesChanged s sec =
      (let svcs := s.svcs.map fun o => o.map fun srv => { srv with configured := false }
       let r := (svcView sec).foldl (fun (acc : List (Option Svc) × Stats) p => configService acc.1 acc.2 p.1 (cstr p.2)) (svcs, s.stats)
       let u := unrefAll r.1 r.2
       { s with svcs := u.1, stats := u.2 }) := by
  unfold servicesChanged
  have key : ∀ (l : List CNode) (acc : List (Option Svc) × Stats),
      l.foldl (fun (acc : List (Option Svc) × Stats) n =>
        if n.isString then configService acc.1 acc.2 n.name (cstr n.value) else acc) acc =
      (svcView l).foldl (fun (acc : List (Option Svc) × Stats) p => configService acc.1 acc.2 p.1 (cstr p.2)) acc := by
    intro l
    induction l with
    | nil => intro acc; rfl
    | cons n ns ih =>
      intro acc
      by_cases hn : n.isString = true
      · simp only [svcView_cons, hn, if_true, List.foldl_cons, List.foldl_append, List.foldl_nil]
        exact ih _
      · simp only [svcView_cons, hn, if_false, List.foldl_cons, List.nil_append, Bool.false_eq_true]
        exact ih _
  simp only [key]

theorem servicesChanged_congr (s : State) {a b : List CNode} (h : svcView a = svcView b) :
    servicesChanged s a = servicesChanged s b := by
  rw [servicesChanged_view, servicesChanged_view, h]

/-- once the membership changed, the section's own hook runs: something is shown -/
theorem rescanWalk_true : ∀ (done live new : List CNode) (m : Bool), m = true → rescanWalk done live new m ≠ [] := by
  intro done live new m
  induction done, live, new, m using rescanWalk.induct with
  | case1 done => intro _; unfold rescanWalk; simp
  | case2 done m hm => intro h; exact absurd h hm
  | case3 done t ts m ih =>
    intro _; unfold rescanWalk
    intro h
    exact ih rfl (List.append_eq_nil_iff.mp h).2
  | case4 done n ns m ih => intro _; unfold rescanWalk; exact ih rfl
  | case5 done t ts n ns m hk ih =>
    intro hm; unfold rescanWalk
    simp only [hk, if_true]
    intro h
    exact ih (by simp [hm]) (List.append_eq_nil_iff.mp h).2
  | case6 done t ts n ns m hk hl ih =>
    intro _; unfold rescanWalk
    simp only [hk, hl, if_true, if_false, Bool.false_eq_true]
    intro h
    exact ih rfl (List.append_eq_nil_iff.mp h).2
  | case7 done t ts n ns m hk hl ih =>
    intro _; unfold rescanWalk
    simp only [hk, hl, if_false, Bool.false_eq_true]
    exact ih rfl

/-- nothing is shown only when nothing the module looks at differs: the string entries of the
    live and of the new section are the same, spelling and value -/
theorem rescanWalk_nil : ∀ (done live new : List CNode) (m : Bool), rescanWalk done live new m = [] →
    svcView live = svcView new := by
  intro done live new m
  induction done, live, new, m using rescanWalk.induct with
  | case1 done => intro _; rfl
  | case2 done m hm => intro _; rfl
  | case3 done t ts m ih =>
    intro h; unfold rescanWalk at h
    exact absurd (List.append_eq_nil_iff.mp h).2 (rescanWalk_true _ _ _ _ rfl)
  | case4 done n ns m ih =>
    intro h; unfold rescanWalk at h
    exact absurd h (rescanWalk_true _ _ _ _ rfl)
  | case5 done t ts n ns m hk ih =>
    intro h; unfold rescanWalk at h
    simp only [hk, if_true] at h
    obtain ⟨h1, h2⟩ := List.append_eq_nil_iff.mp h
    have hm : (m || t.name != n.name) = false := by
      cases hmm : (m || t.name != n.name)
      · rfl
      · exact absurd h2 (rescanWalk_true _ _ _ _ hmm)
    have hname : t.name = n.name := by
      simp only [Bool.or_eq_false_iff, bne_eq_false_iff_eq] at hm; exact hm.2
    have hty : t.isString = n.isString := by
      simp only [cnodeEqKey, Bool.and_eq_true, beq_iff_eq] at hk; exact hk.2
    have ih' := ih h2
    have hv : t.isString = true → t.value = n.value := by
      intro hs
      by_cases hv : t.value = n.value
      · exact hv
      · simp [hs, hv] at h1
    rw [svcView_cons, svcView_cons, ih', ← hty, ← hname]
    by_cases hs : t.isString = true
    · simp only [hs, if_true, hv hs]
    · simp only [hs, if_false, Bool.false_eq_true]
  | case6 done t ts n ns m hk hl ih =>
    intro h; unfold rescanWalk at h
    simp only [hk, hl, if_true, if_false, Bool.false_eq_true] at h
    exact absurd (List.append_eq_nil_iff.mp h).2 (rescanWalk_true _ _ _ _ rfl)
  | case7 done t ts n ns m hk hl ih =>
    intro h; unfold rescanWalk at h
    simp only [hk, hl, if_false, Bool.false_eq_true] at h
    exact absurd h (rescanWalk_true _ _ _ _ rfl)

/-- **the last section the module is shown is the new file's**: it has the string entries of the
    merged section (`done ++ new` once the walk is over), spelling and value -/
theorem rescanWalk_last : ∀ (done live new : List CNode) (m : Bool) (sec : List CNode),
    (rescanWalk done live new m).getLast? = some sec → svcView sec = svcView (done ++ new) := by
  intro done live new m
  induction done, live, new, m using rescanWalk.induct with
  | case1 done =>
    intro sec h; unfold rescanWalk at h
    simp at h; subst h; simp
  | case2 done m hm =>
    intro sec h; unfold rescanWalk at h
    simp [hm] at h
  | case3 done t ts m ih =>
    intro sec h; unfold rescanWalk at h
    rw [List.getLast?_append] at h
    obtain ⟨x, hx⟩ := Option.isSome_iff_exists.mp (List.getLast?_isSome.mpr (rescanWalk_true done ts [] true rfl))
    rw [hx] at h; simp at h; subst h
    exact ih x hx
  | case4 done n ns m ih =>
    intro sec h; unfold rescanWalk at h
    have := ih sec h
    rw [this, List.append_assoc]; rfl
  | case5 done t ts n ns m hk ih =>
    intro sec h; unfold rescanWalk at h
    simp only [hk, if_true] at h
    rw [List.getLast?_append] at h
    cases hw : (rescanWalk (done ++ [n]) ts ns (m || t.name != n.name)).getLast? with
    | some x =>
      rw [hw] at h; simp at h; subst h
      have := ih x hw
      rw [this, List.append_assoc]; rfl
    | none =>
      rw [hw] at h
      have hnil : rescanWalk (done ++ [n]) ts ns (m || t.name != n.name) = [] := List.getLast?_eq_none_iff.mp hw
      have hv := rescanWalk_nil _ _ _ _ hnil
      split at h
      · simp at h; subst h
        rw [svcView_append, svcView_append, svcView_cons, svcView_cons, hv]
      · simp at h
  | case6 done t ts n ns m hk hl ih =>
    intro sec h; unfold rescanWalk at h
    simp only [hk, hl, if_true, if_false, Bool.false_eq_true] at h
    rw [List.getLast?_append] at h
    obtain ⟨x, hx⟩ := Option.isSome_iff_exists.mp (List.getLast?_isSome.mpr (rescanWalk_true done ts (n :: ns) true rfl))
    rw [hx] at h; simp at h; subst h
    exact ih x hx
  | case7 done t ts n ns m hk hl ih =>
    intro sec h; unfold rescanWalk at h
    simp only [hk, hl, if_false, Bool.false_eq_true] at h
    have := ih sec h
    rw [this, List.append_assoc]; rfl

/-- the same section again: no hook runs, the module is shown nothing -/
theorem rescanWalk_same : ∀ (l done : List CNode), rescanWalk done l l false = []
  | [], done => by unfold rescanWalk; simp
  | t :: ts, done => by
    unfold rescanWalk
    have hk : cnodeEqKey t t = true := by
      unfold cnodeEqKey
      have : Bytes.strcasecmp t.name t.name = 0 := by
        generalize t.name = x
        induction x with
        | nil => rfl
        | cons a as ih => simp [Bytes.strcasecmp, ih]
      simp [this]
    simp only [hk, if_true, bne_self_eq_false, Bool.and_false, Bool.or_false, Bool.false_eq_true, if_false, List.nil_append]
    exact rescanWalk_same ts (done ++ [t])

end Iauthd.Proto
