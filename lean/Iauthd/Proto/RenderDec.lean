import Iauthd.Proto.RenderHex
/-
  `%d` printed by `iauth_send` for the client id, read back by the reader of the channel
  (`strtol(…, 10)`): the number a client-directed line carries is the request's id.
-/
set_option linter.unusedSimpArgs false
set_option linter.unusedVariables false
namespace Iauthd.Proto
open Iauthd

theorem digitIn_decChar (d : Nat) (h : d < 10) : digitIn 10 (chByte (Nat.digitChar d)) = some d := by
  have : d = 0 ∨ d = 1 ∨ d = 2 ∨ d = 3 ∨ d = 4 ∨ d = 5 ∨ d = 6 ∨ d = 7 ∨ d = 8 ∨ d = 9 := by omega
  rcases this with rfl | rfl | rfl | rfl | rfl | rfl | rfl | rfl | rfl | rfl <;> decide

theorem decChar_facts (d : Nat) (h : d < 10) :
    chByte (Nat.digitChar d) ≠ 45 ∧ chByte (Nat.digitChar d) ≠ 43 ∧
    Bytes.isSpace (chByte (Nat.digitChar d)) = false := by
  have : d = 0 ∨ d = 1 ∨ d = 2 ∨ d = 3 ∨ d = 4 ∨ d = 5 ∨ d = 6 ∨ d = 7 ∨ d = 8 ∨ d = 9 := by omega
  rcases this with rfl | rfl | rfl | rfl | rfl | rfl | rfl | rfl | rfl | rfl <;> decide

/-- reading the decimal digits the printer produced, whatever non-digit follows -/
theorem accDigits10_core (rest : Bytes) (hrest : ∀ c r, rest = c :: r → digitIn 10 c = none) :
    ∀ (fuel n : Nat) (ds : List Char) (acc k : Nat), n < fuel →
      ∃ m, m ≥ 1 ∧ (Nat.toDigitsCore 10 fuel n ds).length = ds.length + m ∧
        accDigits 10 ((Nat.toDigitsCore 10 fuel n ds).map chByte ++ rest) acc k =
          accDigits 10 (ds.map chByte ++ rest) (acc * 10 ^ m + n) (k + m) ∧
        ∃ d0 tl, d0 < 10 ∧ Nat.toDigitsCore 10 fuel n ds = Nat.digitChar d0 :: tl
  | 0, n, ds, acc, k, h => by omega
  | fuel + 1, n, ds, acc, k, h => by
    unfold Nat.toDigitsCore
    simp only []
    have hd : n % 10 < 10 := Nat.mod_lt _ (by decide)
    by_cases hz : n / 10 = 0
    · rw [if_pos hz]
      have hn : n < 10 := by omega
      refine ⟨1, by omega, by simp, ?_, ⟨n % 10, ds, hd, rfl⟩⟩
      simp only [List.map_cons, List.cons_append]
      rw [accDigits, digitIn_decChar _ hd]
      have : n % 10 = n := Nat.mod_eq_of_lt hn
      simp [this]
    · rw [if_neg hz]
      have hlt : n / 10 < fuel := by omega
      obtain ⟨m, hm1, hlen, hacc, d0, tl, hd0, hhead⟩ :=
        accDigits10_core rest hrest fuel (n / 10) (Nat.digitChar (n % 10) :: ds) acc k hlt
      refine ⟨m + 1, by omega, by simp [hlen]; omega, ?_, ⟨d0, tl, hd0, hhead⟩⟩
      rw [hacc]
      simp only [List.map_cons, List.cons_append]
      rw [accDigits, digitIn_decChar _ hd]
      simp only []
      congr 1
      · rw [Nat.pow_succ]
        have := Nat.div_add_mod n 10
        rw [Nat.add_mul, Nat.mul_assoc]
        omega

theorem accDigits10_stop (rest : Bytes) (hrest : ∀ c r, rest = c :: r → digitIn 10 c = none) (acc k : Nat) :
    accDigits 10 rest acc k = (acc, k) := by
  cases rest with
  | nil => rfl
  | cons c r => rw [accDigits, hrest c r rfl]

theorem accDigits_decNat (n : Nat) (rest : Bytes) (hrest : ∀ c r, rest = c :: r → digitIn 10 c = none) :
    accDigits 10 (decNat n ++ rest) 0 0 = (n, (decNat n).length) ∧ (decNat n).length ≥ 1 ∧
    ∃ d0 tl, d0 < 10 ∧ decNat n = chByte (Nat.digitChar d0) :: tl := by
  rw [decNat_eq]
  unfold Nat.toDigits
  obtain ⟨m, hm1, hlen, hacc, d0, tl, hd0, hhead⟩ := accDigits10_core rest hrest (n + 1) n [] 0 0 (by omega)
  simp only [List.length_nil, Nat.zero_add] at hlen
  refine ⟨?_, by rw [List.length_map, hlen]; exact hm1, ⟨d0, tl.map chByte, hd0, by rw [hhead]; rfl⟩⟩
  rw [hacc]
  simp only [List.map_nil, List.nil_append, Nat.zero_mul, Nat.zero_add]
  rw [accDigits10_stop rest hrest, List.length_map, hlen]

theorem scanNumber_decNat (n : Nat) : scanNumber 10 (decNat n) = (false, n, (decNat n).length) := by
  obtain ⟨hacc, hlen, d0, tl, hd0, hhead⟩ := accDigits_decNat n [] (by intro c r h; cases h)
  rw [List.append_nil] at hacc
  have hf := decChar_facts d0 hd0
  have hskip : skipSpaces (decNat n) 0 = (decNat n, 0) := by
    rw [hhead, skipSpaces]; simp [hf.2.2]
  have hsign : signPart (decNat n) 0 = (false, decNat n, 0) := by
    rw [hhead]
    unfold signPart
    split
    · rename_i heq; simp at heq; exact absurd heq.1 hf.1
    · rename_i heq; simp at heq; exact absurd heq.1 hf.2.1
    · rfl
  have hpre : prefixPart 10 (decNat n) 0 = (decNat n, 0) := by
    unfold prefixPart; rw [if_neg (by decide)]
  unfold scanNumber
  simp only [hskip, hsign, hpre, hacc]
  have : (decNat n).length ≠ 0 := by omega
  rw [if_neg this]
  simp

theorem scanNumber_neg_decNat (n : Nat) :
    scanNumber 10 (45 :: decNat n) = (true, n, (decNat n).length + 1) := by
  obtain ⟨hacc, hlen, d0, tl, hd0, hhead⟩ := accDigits_decNat n [] (by intro c r h; cases h)
  rw [List.append_nil] at hacc
  have hskip : skipSpaces (45 :: decNat n) 0 = (45 :: decNat n, 0) := by
    rw [skipSpaces]
    have : Bytes.isSpace 45 = false := by decide
    simp [this]
  have hsign : signPart (45 :: decNat n) 0 = (true, decNat n, 1) := by
    unfold signPart; rfl
  have hpre : prefixPart 10 (decNat n) 1 = (decNat n, 1) := by
    unfold prefixPart; rw [if_neg (by decide)]
  unfold scanNumber
  simp only [hskip, hsign, hpre, hacc]
  have : (decNat n).length ≠ 0 := by omega
  rw [if_neg this]
  simp
  omega

/-- the id a client-directed line carries reads back as the request's id (any 64-bit value) -/
theorem strtol_decInt (i : Int) (h1 : -2147483648 ≤ i) (h2 : i ≤ 2147483647) : (strtol 10 (decInt i)).1 = i := by
  unfold strtol
  rcases decInt_cases i with ⟨m, h, rfl⟩ | ⟨m, h, rfl⟩
  · rw [h, scanNumber_decNat]
    simp only [Bool.false_eq_true, if_false]
    have a1 : ¬ ((m : Int) > LONG_MAX) := by unfold LONG_MAX; omega
    have a2 : ¬ ((m : Int) < LONG_MIN) := by unfold LONG_MIN; omega
    rw [if_neg a1, if_neg a2]
  · rw [h, scanNumber_neg_decNat]
    simp only [if_true]
    have a1 : ¬ (-((m + 1 : Nat) : Int) > LONG_MAX) := by unfold LONG_MAX; omega
    have a2 : ¬ (-((m + 1 : Nat) : Int) < LONG_MIN) := by unfold LONG_MIN; omega
    rw [if_neg a1, if_neg a2]
    omega

end Iauthd.Proto
