import Iauthd.Proto.Start07
/-
  C17 at the level of the service table: with nobody waiting for a service, the table a reload
  leaves behind holds exactly the services the (merged) section names with a known protocol, each
  with that protocol and marked configured - whatever the table held before.  A daemon freshly
  started on the same section satisfies the same characterisation (it is the case of an empty
  table), so the two tables agree as sets of (name, protocol).
-/
set_option linter.unusedSimpArgs false
set_option linter.unusedVariables false
namespace Iauthd.Proto
open Iauthd

def NoNul (s : Bytes) : Prop := ∀ c ∈ s, c ≠ 0

theorem strcmp_eq_zero : ∀ (a c : Bytes), NoNul a → NoNul c → (Bytes.strcmp a c = 0 ↔ a = c)
  | [], [], _, _ => by simp [Bytes.strcmp]
  | [], y :: ys, _, hc => by
    have : y ≠ 0 := hc y (List.mem_cons_self ..)
    have h2 : y.toNat ≠ 0 := by intro h; apply this; exact UInt8.toNat_inj.mp (by simpa using h)
    simp [Bytes.strcmp]; omega
  | x :: xs, [], ha, _ => by
    have : x ≠ 0 := ha x (List.mem_cons_self ..)
    have h2 : x.toNat ≠ 0 := by intro h; apply this; exact UInt8.toNat_inj.mp (by simpa using h)
    simp [Bytes.strcmp]; omega
  | x :: xs, y :: ys, ha, hc => by
    have ih := strcmp_eq_zero xs ys (fun c h => ha c (List.mem_cons_of_mem _ h)) (fun c h => hc c (List.mem_cons_of_mem _ h))
    unfold Bytes.strcmp
    by_cases hxy : (x == y) = true
    · have : x = y := by simpa using hxy
      subst this
      simp only [beq_self_eq_true, if_true, ih, List.cons.injEq, true_and]
    · have hne : x ≠ y := by simpa using hxy
      have hn : x.toNat ≠ y.toNat := fun h => hne (UInt8.toNat_inj.mp h)
      simp only [hxy, if_false, Bool.false_eq_true, List.cons.injEq]
      constructor
      · intro h; omega
      · intro h; exact absurd h.1 hne

/-- names of the services in a table: no NUL bytes, no two slots with one name -/
structure TableOK (l : List (Option Svc)) : Prop where
  nonul : ∀ x, some x ∈ l → NoNul x.name
  distinct : ∀ (i j : Nat) (x y : Svc), l[i]? = some (some x) → l[j]? = some (some y) → x.name = y.name → i = j

/-- what a section asks for -/
def Wants (sec : List CNode) (name : Bytes) (t : SvcTy) : Prop :=
  ∃ n ∈ sec, n.isString = true ∧ n.name = name ∧ typeOfText (cstr n.value) = some t

/-- the string entries of a section have distinct names (one node per name in the config set) -/
def SecDistinct (sec : List CNode) : Prop :=
  sec.Pairwise fun a c => a.isString = true → c.isString = true → a.name ≠ c.name

theorem mem_iff_get {l : List (Option Svc)} {x : Svc} : some x ∈ l ↔ ∃ i : Nat, l[i]? = some (some x) := by
  constructor
  · intro h
    obtain ⟨i, hi, he⟩ := List.getElem_of_mem h
    exact ⟨i, by rw [List.getElem?_eq_getElem hi, he]⟩
  · rintro ⟨i, hi⟩
    exact List.mem_of_getElem? hi

/-- the slot `pickSlot` chooses holds a service of that name; every other slot is as before -/
theorem pickSlot_effect (acc : List (Option Svc)) (st : Stats) (nm : Bytes) (hok : TableOK acc) (hnm : NoNul nm) :
    let r := pickSlot acc st nm
    (∃ x, r.1[r.2.2]? = some (some x) ∧ x.name = nm ∧ (x.refs = 0 ∨ some x ∈ acc)) ∧
    (∀ j, j ≠ r.2.2 → j < acc.length → r.1[j]? = acc[j]?) ∧
    (∀ j, j ≠ r.2.2 → acc.length ≤ j → r.1[j]? = none) ∧
    (∀ y, some y ∈ acc → y.name = nm → acc[r.2.2]? = some (some y)) ∧
    (∀ y, acc[r.2.2]? = some (some y) → y.name = nm) := by
  unfold pickSlot
  cases hf : findSvcByName acc nm with
  | some i =>
    dsimp only
    unfold findSvcByName at hf
    obtain ⟨hi, hp, hbefore⟩ := List.findIdx?_eq_some_iff_getElem.mp hf
    cases hx : acc[i] with
    | none => rw [hx] at hp; simp at hp
    | some x =>
      rw [hx] at hp
      have hxn : x.name = nm := (strcmp_eq_zero _ _ (hok.nonul x (hx ▸ List.getElem_mem hi)) hnm).mp (by simpa using hp)
      have hget : acc[i]? = some (some x) := by rw [List.getElem?_eq_getElem hi, hx]
      refine ⟨⟨x, hget, hxn, Or.inr (List.mem_of_getElem? hget)⟩, fun j _ _ => rfl, fun j _ hj => List.getElem?_eq_none hj, ?_, ?_⟩
      · intro y hy hyn
        obtain ⟨j, hj⟩ := mem_iff_get.mp hy
        have := hok.distinct j i y x hj hget (by rw [hyn, hxn])
        subst this
        exact hj
      · intro y hy
        rw [hget] at hy
        cases hy
        exact hxn
  | none =>
    dsimp only
    unfold findSvcByName at hf
    have hnone : ∀ y, some y ∈ acc → y.name ≠ nm := by
      intro y hy hyn
      have := List.findIdx?_eq_none_iff.mp hf (some y) hy
      have h0 : Bytes.strcmp y.name nm = 0 := (strcmp_eq_zero _ _ (hok.nonul y hy) hnm).mpr hyn
      simp [h0] at this
    cases he : List.findIdx? (fun (o : Option Svc) => o.isNone) acc with
    | some i =>
      dsimp only
      obtain ⟨hi, hpi, _⟩ := List.findIdx?_eq_some_iff_getElem.mp he
      refine ⟨⟨{ name := nm }, by rw [List.getElem?_set_self hi], rfl, Or.inl rfl⟩, ?_, ?_, ?_, ?_⟩
      · intro j hj _; rw [List.getElem?_set_ne (Ne.symm hj)]
      · intro j _ hj; rw [List.getElem?_eq_none (by simpa using hj)]
      · intro y hy hyn; exact absurd hyn (hnone y hy)
      · intro y hy
        rw [List.getElem?_eq_getElem hi] at hy
        simp only [Option.some.injEq] at hy
        rw [hy] at hpi
        simp at hpi
    | none =>
      dsimp only
      refine ⟨⟨{ name := nm }, by simp, rfl, Or.inl rfl⟩, ?_, ?_, ?_, ?_⟩
      · intro j _ hj; rw [List.getElem?_append_left hj]
      · intro j hj hj2
        have : acc.length < j := by omega
        rw [List.getElem?_eq_none (by simp; omega)]
      · intro y hy hyn; exact absurd hyn (hnone y hy)
      · intro y hy
        rw [List.getElem?_eq_none (Nat.le_refl _)] at hy
        cases hy

/-- what one entry of the section does to the table -/
structure Effect (acc T : List (Option Svc)) (nm ty : Bytes) : Prop where
  ok : TableOK T
  others_back : ∀ y, some y ∈ T → y.name ≠ nm → some y ∈ acc
  others_keep : ∀ y, some y ∈ acc → y.name ≠ nm → some y ∈ T
  typed : ∀ y, some y ∈ T → y.name = nm →
    (∀ t, typeOfText ty = some t → y.ty = t ∧ y.configured = true) ∧ (typeOfText ty = none → y.configured = false)
  there : ∃ y, some y ∈ T ∧ y.name = nm
  norefs : NoRefs acc → NoRefs T

theorem configService_effect (acc : List (Option Svc)) (st : Stats) (nm ty : Bytes) (hok : TableOK acc) (hnm : NoNul nm) :
    Effect acc (configService acc st nm ty).1 nm ty := by
  rw [configService_eq]
  obtain ⟨⟨x, hx, hxn, hxr⟩, hsame, hbeyond, hold, hat⟩ := pickSlot_effect acc st nm hok hnm
  generalize (pickSlot acc st nm).1 = T1 at *
  generalize (pickSlot acc st nm).2.1 = st1 at *
  generalize (pickSlot acc st nm).2.2 = i at *
  have hi : i < T1.length := by
    rcases Nat.lt_or_ge i T1.length with h | h
    · exact h
    · rw [List.getElem?_eq_none h] at hx; cases hx
  have hgd : T1.getD i none = some x := by rw [List.getD_eq_getElem?_getD, hx]; rfl
  -- the table after the type has been looked up
  have key : ∃ x', (typeSlot T1 st1 i ty).1 = T1.set i (some x') ∧ x'.name = nm ∧ x'.refs = x.refs ∧
      (∀ t, typeOfText ty = some t → x'.ty = t ∧ x'.configured = true) ∧ (typeOfText ty = none → x'.configured = false) := by
    unfold typeSlot
    rw [hgd]
    dsimp only
    cases ht : typeOfText ty with
    | some t => exact ⟨_, rfl, hxn, rfl, (fun t' h => by cases h; exact ⟨rfl, rfl⟩), (fun h => by cases h)⟩
    | none => exact ⟨_, rfl, hxn, rfl, (fun t' h => by cases h), (fun _ => rfl)⟩
  obtain ⟨x', hT, hn', hr', ht1, ht2⟩ := key
  rw [hT]
  have geti : (T1.set i (some x'))[i]? = some (some x') := List.getElem?_set_self hi
  have getj : ∀ j, j ≠ i → (T1.set i (some x'))[j]? = T1[j]? := fun j hj => List.getElem?_set_ne (Ne.symm hj)
  -- every other slot of the new table is a slot of the old one
  have old_of : ∀ j y, j ≠ i → (T1.set i (some x'))[j]? = some (some y) → acc[j]? = some (some y) := by
    intro j y hj hy
    rw [getj j hj] at hy
    rcases Nat.lt_or_ge j acc.length with h | h
    · rw [hsame j hj h] at hy; exact hy
    · rw [hbeyond j hj h] at hy; cases hy
  have new_of : ∀ j y, j ≠ i → acc[j]? = some (some y) → (T1.set i (some x'))[j]? = some (some y) := by
    intro j y hj hy
    have hl : j < acc.length := by
      rcases Nat.lt_or_ge j acc.length with h | h
      · exact h
      · rw [List.getElem?_eq_none h] at hy; cases hy
    rw [getj j hj, hsame j hj hl]; exact hy
  -- a slot of the old table with this name is slot i
  have name_i : ∀ j y, acc[j]? = some (some y) → y.name = nm → j = i := by
    intro j y hy hyn
    have h1 := hold y (List.mem_of_getElem? hy) hyn
    exact hok.distinct j i y y hy h1 rfl
  refine ⟨⟨?_, ?_⟩, ?_, ?_, ?_, ⟨x', List.mem_of_getElem? geti, hn'⟩, ?_⟩
  · intro y hy
    obtain ⟨j, hj⟩ := mem_iff_get.mp hy
    by_cases hji : j = i
    · subst hji; rw [geti] at hj; cases hj; rw [hn']; exact hnm
    · exact hok.nonul y (List.mem_of_getElem? (old_of j y hji hj))
  · intro a c y z hy hz hyz
    by_cases ha : a = i
    · by_cases hc : c = i
      · rw [ha, hc]
      · exfalso
        subst ha
        rw [geti] at hy; cases hy
        have := old_of c z hc hz
        exact hc (name_i c z this (by rw [← hyz, hn']))
    · by_cases hc : c = i
      · exfalso
        subst hc
        rw [geti] at hz; cases hz
        have := old_of a y ha hy
        exact ha (name_i a y this (by rw [hyz, hn']))
      · exact hok.distinct a c y z (old_of a y ha hy) (old_of c z hc hz) hyz
  · intro y hy hyn
    obtain ⟨j, hj⟩ := mem_iff_get.mp hy
    by_cases hji : j = i
    · subst hji; rw [geti] at hj; cases hj; exact absurd hn' hyn
    · exact List.mem_of_getElem? (old_of j y hji hj)
  · intro y hy hyn
    obtain ⟨j, hj⟩ := mem_iff_get.mp hy
    by_cases hji : j = i
    · subst hji
      exact absurd (hat y hj) hyn
    · exact List.mem_of_getElem? (new_of j y hji hj)
  · intro y hy hyn
    obtain ⟨j, hj⟩ := mem_iff_get.mp hy
    by_cases hji : j = i
    · subst hji; rw [geti] at hj; cases hj; exact ⟨ht1, ht2⟩
    · exact absurd (name_i j y (old_of j y hji hj) hyn) hji
  · intro hnr y hy
    obtain ⟨j, hj⟩ := mem_iff_get.mp hy
    by_cases hji : j = i
    · subst hji
      rw [geti] at hj; cases hj
      rw [hr']
      rcases hxr with h | h
      · exact h
      · exact hnr x h
    · exact hnr y (List.mem_of_getElem? (old_of j y hji hj))

/-! ### the scan of the section -/

def scanStep (acc : List (Option Svc) × Stats) (n : CNode) : List (Option Svc) × Stats :=
  if n.isString then configService acc.1 acc.2 n.name (cstr n.value) else acc

structure ScanInv (acc : List (Option Svc)) (P : List CNode) : Prop where
  ok : TableOK acc
  norefs : NoRefs acc
  sound : ∀ y, some y ∈ acc → y.configured = true → Wants P y.name y.ty
  complete : ∀ n ∈ P, n.isString = true → ∀ t, typeOfText (cstr n.value) = some t →
    ∃ y, some y ∈ acc ∧ y.name = n.name ∧ y.ty = t ∧ y.configured = true

theorem Wants.mono {P : List CNode} {name : Bytes} {t : SvcTy} (h : Wants P name t) (n : CNode) : Wants (P ++ [n]) name t := by
  obtain ⟨m, hm, h1, h2, h3⟩ := h
  exact ⟨m, List.mem_append.mpr (Or.inl hm), h1, h2, h3⟩

theorem scan_inv : ∀ (R P : List CNode) (acc : List (Option Svc) × Stats), ScanInv acc.1 P → SecDistinct (P ++ R) →
    (∀ n ∈ R, NoNul n.name) → ScanInv (R.foldl scanStep acc).1 (P ++ R)
  | [], P, acc, h, _, _ => by simpa using h
  | n :: R, P, acc, h, hd, hn => by
    simp only [List.foldl_cons]
    have hd' : SecDistinct ((P ++ [n]) ++ R) := by simpa using hd
    have key : ScanInv (scanStep acc n).1 (P ++ [n]) := by
      unfold scanStep
      by_cases hs : n.isString = true
      · simp only [hs, if_true]
        have eff := configService_effect acc.1 acc.2 n.name (cstr n.value) h.ok (hn n (List.mem_cons_self ..))
        refine ⟨eff.ok, eff.norefs h.norefs, ?_, ?_⟩
        · intro y hy hc
          by_cases hyn : y.name = n.name
          · obtain ⟨t1, t2⟩ := eff.typed y hy hyn
            cases ht : typeOfText (cstr n.value) with
            | none => rw [t2 ht] at hc; cases hc
            | some t =>
              obtain ⟨e1, _⟩ := t1 t ht
              exact ⟨n, List.mem_append.mpr (Or.inr (List.mem_singleton.mpr rfl)), hs, hyn.symm, by rw [ht, e1]⟩
          · exact (h.sound y (eff.others_back y hy hyn) hc).mono n
        · intro m hm hms t ht
          rcases List.mem_append.mp hm with h1 | h1
          · obtain ⟨y, hy, e1, e2, e3⟩ := h.complete m h1 hms t ht
            have hne : y.name ≠ n.name := by
              rw [e1]
              -- m comes before n in the section and both are string entries
              have hp : (P ++ n :: R).Pairwise fun a c => a.isString = true → c.isString = true → a.name ≠ c.name := hd
              rw [List.pairwise_append] at hp
              exact hp.2.2 m h1 n (List.mem_cons_self ..) hms hs
            exact ⟨y, eff.others_keep y hy hne, e1, e2, e3⟩
          · have : m = n := List.mem_singleton.mp h1
            subst this
            obtain ⟨y, hy, hyn⟩ := eff.there
            obtain ⟨t1, _⟩ := eff.typed y hy hyn
            obtain ⟨e1, e2⟩ := t1 t ht
            exact ⟨y, hy, hyn, e1, e2⟩
      · simp only [hs, if_false, Bool.false_eq_true]
        refine ⟨h.ok, h.norefs, fun y hy hc => (h.sound y hy hc).mono n, ?_⟩
        intro m hm hms t ht
        rcases List.mem_append.mp hm with h1 | h1
        · exact h.complete m h1 hms t ht
        · have : m = n := List.mem_singleton.mp h1
          subst this
          exact absurd hms hs
    have := scan_inv R (P ++ [n]) (scanStep acc n) key hd' (fun m hm => hn m (List.mem_cons_of_mem _ hm))
    simpa using this

/-! ### the release scan keeps what is configured -/

theorem unrefStep_keeps (acc : List (Option Svc) × Stats) (i j : Nat) (x : Svc) (h : acc.1.getD j none = some x)
    (hc : x.configured = true) : (unrefStep acc i).1.getD j none = some x := by
  unfold unrefStep
  cases hg : acc.1.getD i none with
  | none => exact h
  | some srv =>
    dsimp only
    split
    · exact h
    · rename_i hno
      dsimp only
      by_cases hij : j = i
      · subst hij
        rw [h] at hg
        cases hg
        simp [hc] at hno
      · rw [List.getD_eq_getElem?_getD, List.getElem?_set_ne (Ne.symm hij), ← List.getD_eq_getElem?_getD]
        exact h

theorem unrefFold_keeps : ∀ (is : List Nat) (acc : List (Option Svc) × Stats) (j : Nat) (x : Svc),
    acc.1.getD j none = some x → x.configured = true → (is.foldl unrefStep acc).1.getD j none = some x
  | [], _, _, _, h, _ => h
  | i :: is, acc, j, x, h, hc => by
    simp only [List.foldl_cons]
    exact unrefFold_keeps is _ j x (unrefStep_keeps acc i j x h hc) hc

theorem getD_of_mem {l : List (Option Svc)} {x : Svc} (h : some x ∈ l) : ∃ j, l.getD j none = some x := by
  obtain ⟨j, hj⟩ := mem_iff_get.mp h
  exact ⟨j, by rw [List.getD_eq_getElem?_getD, hj]; rfl⟩

theorem mem_of_getD {l : List (Option Svc)} {x : Svc} {j : Nat} (h : l.getD j none = some x) : some x ∈ l := by
  rw [List.getD_eq_getElem?_getD] at h
  cases hj : l[j]? with
  | none => rw [hj] at h; cases h
  | some v => rw [hj] at h; simp only [Option.getD_some] at h; subst h; exact List.mem_of_getElem? hj

theorem unrefAll_mem (svcs : List (Option Svc)) (stats : Stats) (h : NoRefs svcs) (x : Svc) :
    some x ∈ (unrefAll svcs stats).1 ↔ (some x ∈ svcs ∧ x.configured = true) := by
  constructor
  · intro hx
    have hc := unrefAll_allConf svcs stats h x hx
    rw [unrefAll_eq] at hx
    obtain ⟨j, hj⟩ := getD_of_mem hx
    rcases unrefFold_slot (List.range svcs.length) (svcs, stats) j with h1 | h1
    · rw [h1] at hj; cases hj
    · rw [h1] at hj; exact ⟨mem_of_getD hj, hc⟩
  · rintro ⟨hx, hc⟩
    obtain ⟨j, hj⟩ := getD_of_mem hx
    rw [unrefAll_eq]
    exact mem_of_getD (unrefFold_keeps _ (svcs, stats) j x hj hc)

/-- **what a rescan of the service section leaves in the table**, when nobody waits for a service:
    exactly the services the section names with a known protocol, with that protocol -/
theorem servicesChanged_exact (s : State) (sec : List CNode) (hok : TableOK s.svcs) (hr : NoRefs s.svcs)
    (hd : SecDistinct sec) (hn : ∀ n ∈ sec, NoNul n.name) (name : Bytes) (t : SvcTy) :
    (∃ y, some y ∈ (servicesChanged s sec).svcs ∧ y.name = name ∧ y.ty = t) ↔ Wants sec name t := by
  unfold servicesChanged
  dsimp only
  -- the table with every service marked unconfigured
  have h0 : ScanInv (s.svcs.map fun o => o.map fun srv => { srv with configured := false }) [] := by
    refine ⟨⟨?_, ?_⟩, ?_, ?_, ?_⟩
    · intro x hx
      obtain ⟨o, ho, he⟩ := List.mem_map.1 hx
      cases o with
      | none => cases he
      | some y => simp only [Option.map_some, Option.some.injEq] at he; subst he; exact hok.nonul y ho
    · intro i j x y hx hy hxy
      rw [List.getElem?_map] at hx hy
      cases hi : s.svcs[i]? with
      | none => rw [hi] at hx; cases hx
      | some oi =>
        cases hj : s.svcs[j]? with
        | none => rw [hj] at hy; cases hy
        | some oj =>
          rw [hi] at hx; rw [hj] at hy
          cases oi with
          | none => cases hx
          | some a =>
            cases oj with
            | none => cases hy
            | some c =>
              simp only [Option.map_some, Option.some.injEq] at hx hy
              subst hx; subst hy
              exact hok.distinct i j a c hi hj hxy
    · intro x hx
      obtain ⟨o, ho, he⟩ := List.mem_map.1 hx
      cases o with
      | none => cases he
      | some y => simp only [Option.map_some, Option.some.injEq] at he; subst he; exact hr y ho
    · intro y hy hc
      obtain ⟨o, ho, he⟩ := List.mem_map.1 hy
      cases o with
      | none => cases he
      | some z => simp only [Option.map_some, Option.some.injEq] at he; subst he; cases hc
    · intro n hn2; cases hn2
  have inv := scan_inv sec [] (_, s.stats) h0 (by simpa using hd) hn
  simp only [List.nil_append] at inv
  have hfold : (sec.foldl (fun (acc : List (Option Svc) × Stats) n =>
      if n.isString then configService acc.1 acc.2 n.name (cstr n.value) else acc)
      (s.svcs.map fun o => o.map fun srv => { srv with configured := false }, s.stats)) =
      sec.foldl scanStep (s.svcs.map fun o => o.map fun srv => { srv with configured := false }, s.stats) := rfl
  rw [hfold]
  generalize sec.foldl scanStep (s.svcs.map fun o => o.map fun srv => { srv with configured := false }, s.stats) = res at inv
  constructor
  · rintro ⟨y, hy, rfl, rfl⟩
    obtain ⟨h1, h2⟩ := (unrefAll_mem res.1 res.2 inv.norefs y).mp hy
    exact inv.sound y h1 h2
  · rintro ⟨n, hn1, hn2, rfl, hn4⟩
    obtain ⟨y, hy, e1, e2, e3⟩ := inv.complete n hn1 hn2 t hn4
    exact ⟨y, (unrefAll_mem res.1 res.2 inv.norefs y).mpr ⟨hy, e3⟩, e1, e2⟩

/-- **C17, the service table**: a rescan from any table nobody waits on and a rescan from the empty
    table of a fresh start name the same services with the same protocols -/
theorem servicesChanged_fresh (s s0 : State) (sec : List CNode) (hok : TableOK s.svcs) (hr : NoRefs s.svcs)
    (h0 : s0.svcs = []) (hd : SecDistinct sec) (hn : ∀ n ∈ sec, NoNul n.name) (name : Bytes) (t : SvcTy) :
    (∃ y, some y ∈ (servicesChanged s sec).svcs ∧ y.name = name ∧ y.ty = t) ↔
    (∃ y, some y ∈ (servicesChanged s0 sec).svcs ∧ y.name = name ∧ y.ty = t) := by
  rw [servicesChanged_exact s sec hok hr hd hn, servicesChanged_exact s0 sec]
  · rw [h0]; exact ⟨(fun x hx => by cases hx), (fun i j x y hx => by simp at hx)⟩
  · rw [h0]; intro x hx; cases hx
  · exact hd
  · exact hn

end Iauthd.Proto
