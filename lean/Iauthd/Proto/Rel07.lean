import Iauthd.Proto.Names
import Iauthd.Proto.RefInv
/-
  C07, the relation between two runs of one handler: the same request (up to its serial), the
  same service and rule tables up to their counters (references, hit counts, statistics), the
  same limits.  Every handler takes related contexts to related contexts and writes the same
  lines, except that a query carries the routing tag of its own run.

  The tables are compared through an erasure: `kernelS` keeps what a handler can branch on (name,
  protocol, configured) and forgets the counters; `kernelR` forgets a rule's hit counter.
-/
set_option linter.unusedSimpArgs false
set_option linter.unusedVariables false
namespace Iauthd.Proto
open Iauthd

/-- a service without its counters -/
def kernelS (s : Svc) : Svc := { name := s.name, ty := s.ty, configured := s.configured }
/-- a rule without its hit counter -/
def kernelR (r : Rule) : Rule := { r with assigned := 0 }

def eraseS (l : List (Option Svc)) : List (Option Svc) := l.map (Option.map kernelS)
def eraseR (l : List Rule) : List Rule := l.map kernelR

/-- every slot in use is a configured service (no reload in between: nothing is ever freed) -/
def AllConf (l : List (Option Svc)) : Prop := ∀ x, some x ∈ l → x.configured = true

/-- the same line, or the same query under the other run's routing tag -/
inductive LineRel (cl : Int) (n n' : Nat) : Bytes → Bytes → Prop where
  | same (l : Bytes) : LineRel cl n n' l l
  | query (svc payload : Bytes) :
      LineRel cl n n' (xquery svc (hexInt32 cl ++ b "_" ++ hexNat n) payload) (xquery svc (hexInt32 cl ++ b "_" ++ hexNat n') payload)

inductive OutRel (cl : Int) (n n' : Nat) : List Bytes → List Bytes → Prop where
  | nil : OutRel cl n n' [] []
  | cons {l l' : Bytes} {ls ls' : List Bytes} : LineRel cl n n' l l' → OutRel cl n n' ls ls' → OutRel cl n n' (l :: ls) (l' :: ls')

theorem OutRel.refl (cl : Int) (n n' : Nat) : ∀ (o : List Bytes), OutRel cl n n' o o
  | [] => OutRel.nil
  | l :: ls => OutRel.cons (LineRel.same l) (OutRel.refl cl n n' ls)

theorem OutRel.append {cl : Int} {n n' : Nat} {a a' c c' : List Bytes} (h1 : OutRel cl n n' a a') (h2 : OutRel cl n n' c c') :
    OutRel cl n n' (a ++ c) (a' ++ c') := by
  induction h1 with
  | nil => simpa using h2
  | cons hl _ ih => exact OutRel.cons hl ih

theorem OutRel.snoc {cl : Int} {n n' : Nat} {a a' : List Bytes} {l l' : Bytes} (h1 : OutRel cl n n' a a') (h2 : LineRel cl n n' l l') :
    OutRel cl n n' (a ++ [l]) (a' ++ [l']) := h1.append (OutRel.cons h2 OutRel.nil)

/-- related contexts: the first run's request has serial `n`, the second's `n'` -/
structure CR (cl : Int) (n n' : Nat) (c c' : Ctx) : Prop where
  cid : c.req.client = cl
  ser : c.req.serial = n
  req : c'.req = { c.req with serial := n' }
  svcs : eraseS c'.svcs = eraseS c.svcs
  rules : eraseR c'.rules = eraseR c.rules
  lim : c'.lim = c.lim
  gone : c'.gone = c.gone
  conf : AllConf c.svcs
  out : OutRel cl n n' c.out c'.out

/-- results of the two runs -/
def RelM {α : Type} (R : α → α → Prop) : M α → M α → Prop
  | .ok a, .ok a' => R a a'
  | .error _, .error _ => True
  | _, _ => False

theorem RelM.pure {α : Type} {R : α → α → Prop} {a a' : α} (h : R a a') : RelM R (pure a : M α) (pure a') := h

theorem RelM.bind {α β : Type} {R : α → α → Prop} {Q : β → β → Prop} {x x' : M α} {f f' : α → M β}
    (h : RelM R x x') (hf : ∀ a a', R a a' → RelM Q (f a) (f' a')) : RelM Q (x >>= f) (x' >>= f') := by
  cases x <;> cases x' <;> simp only [RelM] at h
  · trivial
  · exact hf _ _ h

/-! ### the tables -/

theorem eraseS_length {l l' : List (Option Svc)} (h : eraseS l' = eraseS l) : l'.length = l.length := by
  have := congrArg List.length h
  simpa [eraseS] using this

theorem eraseS_get {l l' : List (Option Svc)} (h : eraseS l' = eraseS l) (i : Nat) :
    (getSvc l' i).map kernelS = (getSvc l i).map kernelS := by
  have h1 : ∀ (m : List (Option Svc)), (getSvc m i).map kernelS = (eraseS m).getD i none := by
    intro m
    unfold getSvc eraseS
    rw [List.getD_eq_getElem?_getD, List.getD_eq_getElem?_getD, List.getElem?_map]
    cases m[i]? <;> rfl
  rw [h1, h1, h]

theorem eraseS_set {l l' : List (Option Svc)} (h : eraseS l' = eraseS l) (i : Nat) {v v' : Option Svc}
    (hv : v'.map kernelS = v.map kernelS) : eraseS (setSvc l' i v') = eraseS (setSvc l i v) := by
  unfold eraseS setSvc at *
  rw [List.map_set, List.map_set, h, hv]

theorem AllConf.set {l : List (Option Svc)} (h : AllConf l) (i : Nat) {x : Svc} (hx : x.configured = true) :
    AllConf (setSvc l i (some x)) := by
  intro y hy
  unfold setSvc at hy
  rcases List.mem_or_eq_of_mem_set hy with h1 | h1
  · exact h y h1
  · cases h1; exact hx

theorem AllConf.get {l : List (Option Svc)} (h : AllConf l) {i : Nat} {x : Svc} (hg : getSvc l i = some x) : x.configured = true := by
  apply h
  unfold getSvc at hg
  rw [List.getD_eq_getElem?_getD] at hg
  cases hi : l[i]? with
  | none => rw [hi] at hg; cases hg
  | some v =>
    rw [hi] at hg
    simp only [Option.getD_some] at hg
    subst hg
    exact List.mem_of_getElem? hi

/-- two slots that look alike -/
theorem kernel_eq {a a' : Svc} (h : (some a').map kernelS = (some a).map kernelS) :
    a'.name = a.name ∧ a'.ty = a.ty ∧ a'.configured = a.configured := by
  simp only [Option.map_some, Option.some.injEq, kernelS, Svc.mk.injEq] at h
  exact ⟨h.1, h.2.1, h.2.2.1⟩

theorem kernel_upd {a a' : Svc} (h : (some a').map kernelS = (some a).map kernelS) (f f' : Svc)
    (hf : f.name = a.name ∧ f.ty = a.ty ∧ f.configured = a.configured)
    (hf' : f'.name = a'.name ∧ f'.ty = a'.ty ∧ f'.configured = a'.configured) :
    (some f').map kernelS = (some f).map kernelS := by
  obtain ⟨h1, h2, h3⟩ := kernel_eq h
  simp only [Option.map_some, Option.some.injEq, kernelS, Svc.mk.injEq]
  refine ⟨by rw [hf'.1, hf.1, h1], by rw [hf'.2.1, hf.2.1, h2], ?_⟩
  rw [hf'.2.2, hf.2.2, h3]
  simp

/-! ### building blocks -/

/-- a field update that does not look at the serial -/
def SerialBlind (f : Req → Req) : Prop :=
  ∀ r k, f { r with serial := k } = { f r with serial := k } ∧ (f r).serial = r.serial ∧ (f r).client = r.client

theorem CR.upd {cl : Int} {n n' : Nat} {c c' : Ctx} (h : CR cl n n' c c') {f : Req → Req} (hf : SerialBlind f) :
    CR cl n n' (updReq c f) (updReq c' f) := by
  refine ⟨?_, ?_, ?_, h.svcs, h.rules, h.lim, h.gone, h.conf, h.out⟩
  · show (f c.req).client = cl
    rw [(hf c.req 0).2.2]; exact h.cid
  · show (f c.req).serial = n
    rw [(hf c.req 0).2.1]; exact h.ser
  · show f c'.req = { f c.req with serial := n' }
    rw [h.req]; exact (hf c.req n').1

theorem sendReq_serial (r : Req) (k : Nat) (a x : Bytes) : sendReq { r with serial := k } a x = sendReq r a x := rfl

theorem CR.emit_client {cl : Int} {n n' : Nat} {c c' : Ctx} (h : CR cl n n' c c') (a x : Bytes) :
    CR cl n n' (c.emit (sendReq c.req a x)) (c'.emit (sendReq c'.req a x)) := by
  refine ⟨h.cid, h.ser, h.req, h.svcs, h.rules, h.lim, h.gone, h.conf, ?_⟩
  show OutRel cl n n' (c.out ++ [sendReq c.req a x]) (c'.out ++ [sendReq c'.req a x])
  rw [h.req, sendReq_serial]
  exact h.out.snoc (LineRel.same _)

theorem routing_eq07 (r : Req) : routing r = hexInt32 r.client ++ b "_" ++ hexNat r.serial := rfl

theorem CR.emit_query {cl : Int} {n n' : Nat} {c c' : Ctx} (h : CR cl n n' c c') (svc p : Bytes) :
    CR cl n n' (c.emit (xquery svc (routing c.req) p)) (c'.emit (xquery svc (routing c'.req) p)) := by
  refine ⟨h.cid, h.ser, h.req, h.svcs, h.rules, h.lim, h.gone, h.conf, ?_⟩
  show OutRel cl n n' (c.out ++ [_]) (c'.out ++ [_])
  refine h.out.snoc ?_
  rw [routing_eq07, routing_eq07, h.req, h.ser]
  dsimp only
  rw [h.cid]
  exact LineRel.query svc p

/-- the same record fields in both runs -/
theorem CR.fld {cl : Int} {n n' : Nat} {c c' : Ctx} (h : CR cl n n' c c') {α : Type} (g : Req → α)
    (hg : ∀ r k, g { r with serial := k } = g r) : g c'.req = g c.req := by
  rw [h.req]; exact hg _ _

/-! ### core handlers -/

theorem finishReq_rel {cl : Int} {n n' : Nat} {c c' : Ctx} (h : CR cl n n' c c') : CR cl n n' (finishReq c) (finishReq c') :=
  ⟨h.cid, h.ser, h.req, h.svcs, h.rules, h.lim, rfl, h.conf, h.out⟩

theorem softDone_rel {cl : Int} {n n' : Nat} {c c' : Ctx} (h : CR cl n n' c c') : CR cl n n' (softDone c) (softDone c') := by
  unfold softDone
  exact (h.upd (f := fun r => { r with flags := { r.flags with softDone := true } }) (fun r k => ⟨rfl, rfl, rfl⟩)).emit_client _ _

theorem gateNested_rel (st : Static) {cl : Int} {n n' : Nat} {c c' : Ctx} (h : CR cl n n' c c') :
    RelM (CR cl n n') (gateNested st c) (gateNested st c') := by
  unfold gateNested
  dsimp only
  rw [h.req]
  dsimp only
  split
  · split
    · trivial
    · split
      · exact softDone_rel h
      · exact h
  · exact h

theorem trustUsername_rel (st : Static) {cl : Int} {n n' : Nat} {c c' : Ctx} (h : CR cl n n' c c') (name : Bytes) :
    RelM (CR cl n n') (trustUsername st c name) (trustUsername st c' name) := by
  unfold trustUsername
  simp only [bind, Except.bind, pure, Except.pure]
  have h1 := h.emit_client (b "U") (sp ++ name)
  have e : (c'.emit (sendReq c'.req (b "U") (sp ++ name))).req.flags.gotIdent = (c.emit (sendReq c.req (b "U") (sp ++ name))).req.flags.gotIdent := by
    show c'.req.flags.gotIdent = c.req.flags.gotIdent
    rw [h.req]
  rw [e]
  split
  · exact gateNested_rel st (h1.upd (f := fun r => { r with flags := { r.flags with gotIdent := true } }) (fun r k => ⟨rfl, rfl, rfl⟩))
  · exact h1

/-! ### the class module -/

theorem xreplyOk_go_erase (service : Bytes) (cli : XqCli) : ∀ (l : List (Option Svc)) (i : Nat),
    xreplyOk.go service cli i (eraseS l) = xreplyOk.go service cli i l
  | [], i => by simp [eraseS, xreplyOk.go]
  | none :: rest, i => by
    have := xreplyOk_go_erase service cli rest (i + 1)
    simp only [eraseS, List.map_cons, Option.map_none, xreplyOk.go] at this ⊢
    exact this
  | some srv :: rest, i => by
    have := xreplyOk_go_erase service cli rest (i + 1)
    simp only [eraseS, List.map_cons, Option.map_some, xreplyOk.go, kernelS] at this ⊢
    rw [this]

theorem xreplyOk_erase (svcs : List (Option Svc)) (r : Req) (service : Bytes) :
    xreplyOk (eraseS svcs) r service = xreplyOk svcs r service := by
  unfold xreplyOk
  cases r.xq with
  | none => rfl
  | some cli => exact xreplyOk_go_erase service cli svcs 0

theorem ruleMatches_rel {cl : Int} {n n' : Nat} {c c' : Ctx} (h : CR cl n n' c c') {rule rule' : Rule} (hr : kernelR rule' = kernelR rule) :
    ruleMatches c'.svcs rule' c'.req = ruleMatches c.svcs rule c.req := by
  have e1 : ∀ s, xreplyOk c'.svcs c'.req s = xreplyOk c.svcs c.req s := by
    intro s
    rw [← xreplyOk_erase c'.svcs, ← xreplyOk_erase c.svcs, h.svcs, h.req]
    rfl
  simp only [kernelR, Rule.mk.injEq] at hr
  obtain ⟨_, _, ha, hu, hh, hx, had, hb, _, _⟩ := hr
  unfold ruleMatches
  rw [ha, hu, hh, hx, had, hb, h.req]
  dsimp only
  cases rule.xreplyOk with
  | none => rfl
  | some sname =>
    dsimp only
    have := e1 sname
    rw [h.req] at this
    rw [this]

theorem wantsTrust_rel {cl : Int} {n n' : Nat} {c c' : Ctx} (h : CR cl n n' c c') {rule rule' : Rule} (hr : kernelR rule' = kernelR rule) :
    wantsTrust rule' c'.req = wantsTrust rule c.req := by
  simp only [kernelR, Rule.mk.injEq] at hr
  unfold wantsTrust
  rw [hr.2.2.2.2.2.2.2.2.1, h.req]

/-- related results of the rule scan: contexts and the updated rule lists -/
def CRR (cl : Int) (n n' : Nat) (x x' : Ctx × List Rule) : Prop := CR cl n n' x.1 x'.1 ∧ eraseR x'.2 = eraseR x.2

theorem classRules_rel (st : Static) {cl : Int} {n n' : Nat} : ∀ (rules rules' : List Rule) {c c' : Ctx}, CR cl n n' c c' →
    eraseR rules' = eraseR rules → RelM (CRR cl n n') (classRules st rules c) (classRules st rules' c')
  | [], [], c, c', h, _ => ⟨h, rfl⟩
  | [], _ :: _, _, _, _, he => by simp [eraseR] at he
  | _ :: _, [], _, _, _, he => by simp [eraseR] at he
  | rule :: rest, rule' :: rest', c, c', h, he => by
    simp only [eraseR, List.map_cons, List.cons.injEq] at he
    obtain ⟨hr, hrest⟩ := he
    unfold classRules
    rw [ruleMatches_rel h hr]
    split
    · rw [wantsTrust_rel h hr]
      have e2 : trustName c'.req = trustName c.req := by unfold trustName; rw [h.req]
      rw [e2]
      simp only [bind, Except.bind]
      have hcls : rule'.cls.getD rule'.name = rule.cls.getD rule.name := by
        simp only [kernelR, Rule.mk.injEq] at hr
        rw [hr.1, hr.2.1]
      have fin : ∀ d d', CR cl n n' d d' → RelM (CRR cl n n')
          (pure (updReq d fun r => { r with cls := strlcpyN d.lim.cls (rule.cls.getD rule.name) }, { rule with assigned := rule.assigned + 1 } :: rest))
          (pure (updReq d' fun r => { r with cls := strlcpyN d'.lim.cls (rule'.cls.getD rule'.name) }, { rule' with assigned := rule'.assigned + 1 } :: rest')) := by
        intro d d' hd
        refine ⟨?_, ?_⟩
        · dsimp only
          rw [hd.lim, hcls]
          exact hd.upd (fun r k => ⟨rfl, rfl, rfl⟩)
        · dsimp only
          simp only [eraseR, List.map_cons, List.cons.injEq]
          refine ⟨?_, hrest⟩
          simp only [kernelR, Rule.mk.injEq] at hr ⊢
          exact ⟨hr.1, hr.2.1, hr.2.2.1, hr.2.2.2.1, hr.2.2.2.2.1, hr.2.2.2.2.2.1, hr.2.2.2.2.2.2.1, hr.2.2.2.2.2.2.2.1, hr.2.2.2.2.2.2.2.2.1, trivial⟩
      split
      · have ht := trustUsername_rel st h (trustName c.req)
        cases hx : trustUsername st c (trustName c.req) with
        | error e =>
          rw [hx] at ht
          cases hx' : trustUsername st c' (trustName c.req) with
          | error e' => trivial
          | ok d' => rw [hx'] at ht; exact ht.elim
        | ok d =>
          rw [hx] at ht
          cases hx' : trustUsername st c' (trustName c.req) with
          | error e' => rw [hx'] at ht; exact ht.elim
          | ok d' => rw [hx'] at ht; exact fin d d' ht
      · exact fin c c' h
    · simp only [bind, Except.bind]
      have ih := classRules_rel st rest rest' h hrest
      cases hx : classRules st rest c with
      | error e =>
        rw [hx] at ih
        cases hx' : classRules st rest' c' with
        | error e' => trivial
        | ok d' => rw [hx'] at ih; exact ih.elim
      | ok d =>
        rw [hx] at ih
        cases hx' : classRules st rest' c' with
        | error e' => rw [hx'] at ih; exact ih.elim
        | ok d' =>
          rw [hx'] at ih
          refine ⟨ih.1, ?_⟩
          show eraseR (rule' :: d'.2) = eraseR (rule :: d.2)
          simp only [eraseR, List.map_cons, List.cons.injEq]
          exact ⟨hr, ih.2⟩

theorem CR.stats {cl : Int} {n n' : Nat} {c c' : Ctx} (h : CR cl n n' c c') (st st' : Stats) :
    CR cl n n' { c with stats := st } { c' with stats := st' } :=
  ⟨h.cid, h.ser, h.req, h.svcs, h.rules, h.lim, h.gone, h.conf, h.out⟩

theorem classAssign_rel (st : Static) {cl : Int} {n n' : Nat} {c c' : Ctx} (h : CR cl n n' c c') :
    RelM (CR cl n n') (classAssign st c) (classAssign st c') := by
  unfold classAssign
  have e : c'.req.cls = c.req.cls := by rw [h.req]
  rw [e]
  split
  · exact h.stats _ _
  · refine RelM.bind (classRules_rel st c.rules c'.rules h h.rules) ?_
    intro x x' hx
    obtain ⟨h1, h2⟩ := hx
    have h3 : CR cl n n' { x.1 with rules := x.2 } { x'.1 with rules := x'.2 } :=
      ⟨h1.cid, h1.ser, h1.req, h1.svcs, h2, h1.lim, h1.gone, h1.conf, h1.out⟩
    have e2 : x'.1.req.cls = x.1.req.cls := by rw [h1.req]
    show RelM (CR cl n n') (if ({ x.1 with rules := x.2 } : Ctx).req.cls.isEmpty = true then _ else _)
      (if ({ x'.1 with rules := x'.2 } : Ctx).req.cls.isEmpty = true then _ else _)
    show RelM (CR cl n n') (if x.1.req.cls.isEmpty = true then _ else _) (if x'.1.req.cls.isEmpty = true then _ else _)
    rw [e2]
    split
    · exact h3.stats _ _
    · exact h3.stats _ _

theorem accept_rel (st : Static) {cl : Int} {n n' : Nat} {c c' : Ctx} (h : CR cl n n' c c') :
    RelM (CR cl n n') (accept st c) (accept st c') := by
  unfold accept
  have e : c'.req.flags.responded = c.req.flags.responded := by rw [h.req]
  rw [e]
  by_cases hr : c.req.flags.responded = true
  · simp [hr, bind, Except.bind, throw, throwThe, MonadExceptOf.throw, RelM]
  · simp only [hr, if_false, Bool.false_eq_true]
    have tail : ∀ d d', CR cl n n' d d' → RelM (CR cl n n')
        (pure (finishReq ((updReq d fun r => { r with flags := { r.flags with responded := true } }).emit
          (if (!(updReq d fun r => { r with flags := { r.flags with responded := true } }).req.account.isEmpty &&
                !(updReq d fun r => { r with flags := { r.flags with responded := true } }).req.cls.isEmpty) = true then
              sendReq (updReq d fun r => { r with flags := { r.flags with responded := true } }).req (b "R")
                (sp ++ (updReq d fun r => { r with flags := { r.flags with responded := true } }).req.account ++ sp ++
                  (updReq d fun r => { r with flags := { r.flags with responded := true } }).req.cls)
            else if (!(updReq d fun r => { r with flags := { r.flags with responded := true } }).req.account.isEmpty) = true then
              sendReq (updReq d fun r => { r with flags := { r.flags with responded := true } }).req (b "R")
                (sp ++ (updReq d fun r => { r with flags := { r.flags with responded := true } }).req.account)
            else if (!(updReq d fun r => { r with flags := { r.flags with responded := true } }).req.cls.isEmpty) = true then
              sendReq (updReq d fun r => { r with flags := { r.flags with responded := true } }).req (b "D")
                (sp ++ (updReq d fun r => { r with flags := { r.flags with responded := true } }).req.cls)
            else sendReq (updReq d fun r => { r with flags := { r.flags with responded := true } }).req (b "D") []))))
        (pure (finishReq ((updReq d' fun r => { r with flags := { r.flags with responded := true } }).emit
          (if (!(updReq d' fun r => { r with flags := { r.flags with responded := true } }).req.account.isEmpty &&
                !(updReq d' fun r => { r with flags := { r.flags with responded := true } }).req.cls.isEmpty) = true then
              sendReq (updReq d' fun r => { r with flags := { r.flags with responded := true } }).req (b "R")
                (sp ++ (updReq d' fun r => { r with flags := { r.flags with responded := true } }).req.account ++ sp ++
                  (updReq d' fun r => { r with flags := { r.flags with responded := true } }).req.cls)
            else if (!(updReq d' fun r => { r with flags := { r.flags with responded := true } }).req.account.isEmpty) = true then
              sendReq (updReq d' fun r => { r with flags := { r.flags with responded := true } }).req (b "R")
                (sp ++ (updReq d' fun r => { r with flags := { r.flags with responded := true } }).req.account)
            else if (!(updReq d' fun r => { r with flags := { r.flags with responded := true } }).req.cls.isEmpty) = true then
              sendReq (updReq d' fun r => { r with flags := { r.flags with responded := true } }).req (b "D")
                (sp ++ (updReq d' fun r => { r with flags := { r.flags with responded := true } }).req.cls)
            else sendReq (updReq d' fun r => { r with flags := { r.flags with responded := true } }).req (b "D") [])))) := by
      intro d d' hd
      have h1 := hd.upd (f := fun r => { r with flags := { r.flags with responded := true } }) (fun r k => ⟨rfl, rfl, rfl⟩)
      have ea : (updReq d' fun r => { r with flags := { r.flags with responded := true } }).req.account =
          (updReq d fun r => { r with flags := { r.flags with responded := true } }).req.account := by
        show d'.req.account = d.req.account
        rw [hd.req]
      have ec : (updReq d' fun r => { r with flags := { r.flags with responded := true } }).req.cls =
          (updReq d fun r => { r with flags := { r.flags with responded := true } }).req.cls := by
        show d'.req.cls = d.req.cls
        rw [hd.req]
      rw [ea, ec]
      show CR cl n n' _ _
      split
      · exact finishReq_rel (h1.emit_client _ _)
      · split
        · exact finishReq_rel (h1.emit_client _ _)
        · split
          · exact finishReq_rel (h1.emit_client _ _)
          · exact finishReq_rel (h1.emit_client _ _)
    by_cases hcl : st.hasClass = true
    · simp only [hcl, if_true]
      exact RelM.bind (classAssign_rel st h) tail
    · simp only [hcl, if_false, Bool.false_eq_true, pure_bind]
      exact tail c c' h

theorem kill_rel {cl : Int} {n n' : Nat} {c c' : Ctx} (h : CR cl n n' c c') (reason : Bytes) :
    RelM (CR cl n n') (kill c reason) (kill c' reason) := by
  unfold kill
  have e : c'.req.flags.responded = c.req.flags.responded := by rw [h.req]
  rw [e]
  by_cases hr : c.req.flags.responded = true
  · simp [hr, bind, Except.bind, throw, throwThe, MonadExceptOf.throw, RelM]
  · simp only [hr, if_false, Bool.false_eq_true, pure_bind]
    have h1 := h.upd (f := fun r => { r with flags := { r.flags with responded := true } }) (fun r k => ⟨rfl, rfl, rfl⟩)
    exact finishReq_rel (h1.emit_client _ _)

theorem gate_rel (st : Static) {cl : Int} {n n' : Nat} {c c' : Ctx} (h : CR cl n n' c c') :
    RelM (CR cl n n') (gate st c) (gate st c') := by
  unfold gate
  dsimp only
  rw [h.req]
  dsimp only
  split
  · split
    · exact accept_rel st h
    · split
      · exact softDone_rel h
      · exact h
  · exact h

/-! ### xquery: sending queries -/

/-- what the two runs find in one slot -/
theorem slot_cases {cl : Int} {n n' : Nat} {c c' : Ctx} (h : CR cl n n' c c') (i : Nat) :
    (getSvc c.svcs i = none ∧ getSvc c'.svcs i = none) ∨
    ∃ srv srv', getSvc c.svcs i = some srv ∧ getSvc c'.svcs i = some srv' ∧
      (some srv').map kernelS = (some srv).map kernelS ∧ srv.configured = true := by
  have hg := eraseS_get h.svcs i
  cases h1 : getSvc c.svcs i with
  | none =>
    rw [h1] at hg
    cases h2 : getSvc c'.svcs i with
    | none => exact Or.inl ⟨rfl, rfl⟩
    | some y => rw [h2] at hg; simp at hg
  | some x =>
    rw [h1] at hg
    cases h2 : getSvc c'.svcs i with
    | none => rw [h2] at hg; simp at hg
    | some y => rw [h2] at hg; exact Or.inr ⟨x, y, rfl, rfl, hg, h.conf.get h1⟩

theorem CR.setSlot {cl : Int} {n n' : Nat} {c c' : Ctx} (h : CR cl n n' c c') (i : Nat) {srv srv' f f' : Svc}
    (hk : (some srv').map kernelS = (some srv).map kernelS) (hc : srv.configured = true)
    (hf : f.name = srv.name ∧ f.ty = srv.ty ∧ f.configured = srv.configured)
    (hf' : f'.name = srv'.name ∧ f'.ty = srv'.ty ∧ f'.configured = srv'.configured) :
    CR cl n n' { c with svcs := setSvc c.svcs i (some f) } { c' with svcs := setSvc c'.svcs i (some f') } :=
  ⟨h.cid, h.ser, h.req, eraseS_set h.svcs i (kernel_upd hk f f' hf hf'), h.rules, h.lim, h.gone,
    h.conf.set i (by rw [hf.2.2]; exact hc), h.out⟩

theorem CR.outs {cl : Int} {n n' : Nat} {c c' : Ctx} (h : CR cl n n' c c') {ls ls' : List Bytes} (hl : OutRel cl n n' ls ls') :
    CR cl n n' { c with out := c.out ++ ls } { c' with out := c'.out ++ ls' } :=
  ⟨h.cid, h.ser, h.req, h.svcs, h.rules, h.lim, h.gone, h.conf, h.out.append hl⟩

theorem xqQueryLines_rel (lim : Limits) {srv srv' : Svc} (hn : srv'.name = srv.name) (ht : srv'.ty = srv.ty) (cli : XqCli)
    (r : Req) (n' : Nat) :
    OutRel r.client r.serial n' (xqQueryLines lim srv cli r) (xqQueryLines lim srv' cli { r with serial := n' }) := by
  unfold xqQueryLines
  rw [hn, ht]
  dsimp only
  have q : ∀ p, LineRel r.client r.serial n' (xquery srv.name (routing r) p) (xquery srv.name (routing { r with serial := n' }) p) := by
    intro p; rw [routing_eq07, routing_eq07]; exact LineRel.query _ _
  have hu : xqUsername lim { r with serial := n' } = xqUsername lim r := rfl
  have hh : xqHostname { r with serial := n' } = xqHostname r := rfl
  rw [hu, hh]
  refine OutRel.append ?_ ?_
  · split
    · exact OutRel.cons (q _) OutRel.nil
    · exact OutRel.nil
  · split
    · exact OutRel.nil
    · split
      · exact OutRel.cons (q _) OutRel.nil
      · split
        · exact OutRel.cons (q _) OutRel.nil
        · exact OutRel.nil

/-- related results of a slot step: contexts and the client's masks -/
def CRC (cl : Int) (n n' : Nat) (x x' : Ctx × XqCli) : Prop := CR cl n n' x.1 x'.1 ∧ x'.2 = x.2

theorem xqTake_rel {cl : Int} {n n' : Nat} {c c' : Ctx} (h : CR cl n n' c c') (i : Nat) {srv srv' : Svc}
    (hk : (some srv').map kernelS = (some srv).map kernelS) (hc : srv.configured = true) (cli : XqCli) :
    CR cl n n' (xqTake c srv cli i) (xqTake c' srv' cli i) := by
  unfold xqTake
  have h1 : CR cl n n' { c with svcs := setSvc c.svcs i (some { srv with queries := srv.queries + 1, refs := srv.refs + 1 }) }
      { c' with svcs := setSvc c'.svcs i (some { srv' with queries := srv'.queries + 1, refs := srv'.refs + 1 }) } :=
    h.setSlot i hk hc ⟨rfl, rfl, rfl⟩ ⟨rfl, rfl, rfl⟩
  dsimp only
  split
  · exact h1.upd (f := fun r => { r with soft := r.soft + 1 }) (fun r k => ⟨rfl, rfl, rfl⟩)
  · exact h1

theorem xqCheckSlot_rel (p : Bool) {cl : Int} {n n' : Nat} {c c' : Ctx} (h : CR cl n n' c c') (cli : XqCli) (i : Nat) :
    CRC cl n n' (xqCheckSlot p c cli i) (xqCheckSlot p c' cli i) := by
  unfold xqCheckSlot
  rcases slot_cases h i with ⟨e1, e2⟩ | ⟨srv, srv', e1, e2, hk, hc⟩
  · rw [e1, e2]; exact ⟨h, rfl⟩
  · rw [e1, e2]
    dsimp only
    obtain ⟨k1, k2, k3⟩ := kernel_eq hk
    have ee : xqEligible p srv' cli i c'.req.flags = xqEligible p srv cli i c.req.flags := by
      unfold xqEligible; rw [k2, k3, h.req]
    rw [ee]
    split
    · exact ⟨h, rfl⟩
    · refine ⟨?_, rfl⟩
      dsimp only
      have ho : OutRel cl n n' (xqQueryLines c.lim srv cli c.req) (xqQueryLines c'.lim srv' cli c'.req) := by
        rw [h.lim, h.req, ← h.ser, ← h.cid]
        exact xqQueryLines_rel c.lim k1 k2 cli c.req n'
      exact xqTake_rel (h.outs ho) i hk hc cli

theorem xqCheckLoop_rel (p : Bool) {cl : Int} {n n' : Nat} : ∀ (is : List Nat) {c c' : Ctx}, CR cl n n' c c' → ∀ (cli : XqCli),
    CRC cl n n' (xqCheckLoop p is c cli) (xqCheckLoop p is c' cli)
  | [], c, c', h, cli => ⟨h, rfl⟩
  | i :: is, c, c', h, cli => by
    unfold xqCheckLoop
    have h1 := xqCheckSlot_rel p h cli i
    obtain ⟨a, e⟩ := h1
    rw [show (xqCheckSlot p c' cli i) = ((xqCheckSlot p c' cli i).1, (xqCheckSlot p c' cli i).2) from rfl, e]
    exact xqCheckLoop_rel p is a _

theorem xqCheck_rel (p : Bool) {cl : Int} {n n' : Nat} {c c' : Ctx} (h : CR cl n n' c c') : CR cl n n' (xqCheck p c) (xqCheck p c') := by
  unfold xqCheck
  have e : c'.req.xq = c.req.xq := by rw [h.req]
  rw [e]
  cases c.req.xq with
  | none => exact h
  | some cli =>
    dsimp only
    rw [eraseS_length h.svcs]
    obtain ⟨a, e2⟩ := xqCheckLoop_rel p (List.range c.svcs.length) h cli
    rw [show xqCheckLoop p (List.range c.svcs.length) c' cli =
      ((xqCheckLoop p (List.range c.svcs.length) c' cli).1, (xqCheckLoop p (List.range c.svcs.length) c' cli).2) from rfl, e2]
    exact a.upd (f := fun r => { r with xq := some (xqCheckLoop p (List.range c.svcs.length) c cli).2 }) (fun r k => ⟨rfl, rfl, rfl⟩)

/-! ### xquery: passwords -/

theorem xqCheckPassword_rel {cl : Int} {n n' : Nat} {c c' : Ctx} (h : CR cl n n' c c') (cli : XqCli) (pw : Bytes) :
    CR cl n n' (xqCheckPassword c cli pw) (xqCheckPassword c' cli pw) := by
  unfold xqCheckPassword
  cases checkPasswordShape pw with
  | none => exact h
  | some mc =>
    obtain ⟨m, cred⟩ := mc
    dsimp only
    exact xqCheck_rel true (h.upd (fun r k => ⟨rfl, rfl, rfl⟩))

theorem xqMoreLoop_rel (pw : Bytes) {cl : Int} {n n' : Nat} : ∀ (is : List Nat) {c c' : Ctx}, CR cl n n' c c' → ∀ (cli : XqCli),
    CRC cl n n' (xqMoreLoop pw is c cli) (xqMoreLoop pw is c' cli)
  | [], c, c', h, cli => ⟨h, rfl⟩
  | i :: is, c, c', h, cli => by
    unfold xqMoreLoop
    split
    · exact xqMoreLoop_rel pw is h cli
    · rcases slot_cases h i with ⟨e1, e2⟩ | ⟨srv, srv', e1, e2, hk, hc⟩
      · rw [e1, e2]; exact xqMoreLoop_rel pw is h cli
      · rw [e1, e2]
        dsimp only
        obtain ⟨k1, k2, k3⟩ := kernel_eq hk
        rw [k3, k1]
        split
        · exact xqMoreLoop_rel pw is h cli
        · have h1 := h.emit_query srv.name (b "MORE " ++ pw)
          have h2 : CR cl n n'
              (if cli.ref.isEmpty = true then updReq (c.emit (xquery srv.name (routing c.req) (b "MORE " ++ pw))) fun r => { r with soft := r.soft + 1 }
               else c.emit (xquery srv.name (routing c.req) (b "MORE " ++ pw)))
              (if cli.ref.isEmpty = true then updReq (c'.emit (xquery srv.name (routing c'.req) (b "MORE " ++ pw))) fun r => { r with soft := r.soft + 1 }
               else c'.emit (xquery srv.name (routing c'.req) (b "MORE " ++ pw))) := by
            split
            · exact h1.upd (f := fun r => { r with soft := r.soft + 1 }) (fun r k => ⟨rfl, rfl, rfl⟩)
            · exact h1
          refine xqMoreLoop_rel pw is ?_ _
          refine h2.setSlot i hk hc ?_ ?_
          · exact ⟨rfl, rfl, rfl⟩
          · exact ⟨k1.symm, rfl, k3.symm⟩

theorem xqPassword_rel {cl : Int} {n n' : Nat} {c c' : Ctx} (h : CR cl n n' c c') (pw : Option Bytes) :
    RelM (CR cl n n') (xqPassword c pw) (xqPassword c' pw) := by
  unfold xqPassword
  have e : c'.req.xq = c.req.xq := by rw [h.req]
  rw [e]
  cases c.req.xq with
  | none => exact h
  | some cli =>
    dsimp only
    split
    · cases pw with
      | none => trivial
      | some p => exact xqCheckPassword_rel h cli p
    · rw [eraseS_length h.svcs]
      obtain ⟨a, e2⟩ := xqMoreLoop_rel (pw.getD (b "(null)")) (List.range c.svcs.length) h cli
      rw [show xqMoreLoop (pw.getD (b "(null)")) (List.range c.svcs.length) c' cli =
        ((xqMoreLoop (pw.getD (b "(null)")) (List.range c.svcs.length) c' cli).1,
         (xqMoreLoop (pw.getD (b "(null)")) (List.range c.svcs.length) c' cli).2) from rfl, e2]
      exact a.upd (f := fun r => { r with xq := some (xqMoreLoop (pw.getD (b "(null)")) (List.range c.svcs.length) c cli).2 })
        (fun r k => ⟨rfl, rfl, rfl⟩)

/-! ### xquery: replies -/

theorem findRefSlot_go_rel (cli : XqCli) (service : Bytes) : ∀ (l l' : List (Option Svc)) (k : Nat), eraseS l' = eraseS l →
    (findRefSlot.go cli service k l = none ∧ findRefSlot.go cli service k l' = none) ∨
    ∃ i srv srv', findRefSlot.go cli service k l = some (i, srv) ∧ findRefSlot.go cli service k l' = some (i, srv') ∧
      (some srv').map kernelS = (some srv).map kernelS ∧ some srv ∈ l
  | [], [], k, _ => Or.inl ⟨by simp [findRefSlot.go], by simp [findRefSlot.go]⟩
  | [], _ :: _, _, he => by simp [eraseS] at he
  | _ :: _, [], _, he => by simp [eraseS] at he
  | s :: rest, s' :: rest', k, he => by
    simp only [eraseS, List.map_cons, List.cons.injEq] at he
    obtain ⟨hs, hrest⟩ := he
    have ih := findRefSlot_go_rel cli service rest rest' (k + 1) hrest
    have lift : (findRefSlot.go cli service (k + 1) rest = none ∧ findRefSlot.go cli service (k + 1) rest' = none) ∨
        (∃ i srv srv', findRefSlot.go cli service (k + 1) rest = some (i, srv) ∧ findRefSlot.go cli service (k + 1) rest' = some (i, srv') ∧
          (some srv').map kernelS = (some srv).map kernelS ∧ some srv ∈ s :: rest) := by
      rcases ih with h0 | ⟨i, a, a', h1, h2, h3, h4⟩
      · exact Or.inl h0
      · exact Or.inr ⟨i, a, a', h1, h2, h3, List.mem_cons_of_mem _ h4⟩
    unfold findRefSlot.go
    split
    · exact lift
    · cases s with
      | none =>
        cases s' with
        | none => exact lift
        | some y => simp at hs
      | some x =>
        cases s' with
        | none => simp at hs
        | some y =>
          dsimp only
          obtain ⟨k1, _, _⟩ := kernel_eq (a := x) (a' := y) hs
          rw [k1]
          split
          · exact Or.inr ⟨k, x, y, rfl, rfl, hs, List.mem_cons_self ..⟩
          · exact lift

theorem xqFinish_rel (st : Static) {cl : Int} {n n' : Nat} {c c' : Ctx} (h : CR cl n n' c c') (i : Nat) (cli : XqCli) {srv srv' : Svc}
    (hk : (some srv').map kernelS = (some srv).map kernelS) (hc : srv.configured = true) :
    RelM (CR cl n n') (xqFinish st i c cli srv) (xqFinish st i c' cli srv') := by
  unfold xqFinish
  dsimp only
  have h1 := h.setSlot i (f := { srv with refs := srv.refs - 1 }) (f' := { srv' with refs := srv'.refs - 1 }) hk hc ⟨rfl, rfl, rfl⟩ ⟨rfl, rfl, rfl⟩
  -- nothing is freed: the slot is configured
  have u : ∀ (d : Ctx) (x : Svc), x.configured = true → getSvc d.svcs i = some x → unrefSvc d i = d := by
    intro d x hx hg
    unfold unrefSvc
    rw [hg]
    simp [hx]
  have hc' : srv'.configured = true := by rw [(kernel_eq hk).2.2]; exact hc
  have un : ∀ (d : Ctx) (x : Svc), x.configured = true →
      (if (x.refs - 1 == 0) = true then unrefSvc { d with svcs := setSvc d.svcs i (some { x with refs := x.refs - 1 }) } i
       else { d with svcs := setSvc d.svcs i (some { x with refs := x.refs - 1 }) }) =
      { d with svcs := setSvc d.svcs i (some { x with refs := x.refs - 1 }) } := by
    intro d x hx
    split
    · by_cases hl : i < d.svcs.length
      · exact u _ _ (by exact hx) (getSvc_set_self d.svcs i _ hl)
      · have : getSvc (setSvc d.svcs i (some { x with refs := x.refs - 1 })) i = none := by
          unfold getSvc setSvc
          rw [List.getD_eq_getElem?_getD, List.getElem?_eq_none (by simp; omega)]
          rfl
        unfold unrefSvc
        dsimp only
        rw [this]
    · rfl
  rw [un c srv hc, un c' srv' hc']
  have h2 : CR cl n n'
      (if (maskDel cli.ref i).isEmpty = true then updReq { c with svcs := setSvc c.svcs i (some { srv with refs := srv.refs - 1 }) } fun r => { r with soft := r.soft - 1 }
       else { c with svcs := setSvc c.svcs i (some { srv with refs := srv.refs - 1 }) })
      (if (maskDel cli.ref i).isEmpty = true then updReq { c' with svcs := setSvc c'.svcs i (some { srv' with refs := srv'.refs - 1 }) } fun r => { r with soft := r.soft - 1 }
       else { c' with svcs := setSvc c'.svcs i (some { srv' with refs := srv'.refs - 1 }) }) := by
    split
    · exact h1.upd (f := fun r => { r with soft := r.soft - 1 }) (fun r k => ⟨rfl, rfl, rfl⟩)
    · exact h1
  exact gate_rel st (h2.upd (f := fun r => { r with xq := some { cli with ref := maskDel cli.ref i } }) (fun r k => ⟨rfl, rfl, rfl⟩))

theorem xqVouch_rel {cl : Int} {n n' : Nat} {c c' : Ctx} (h : CR cl n n' c c') (cli : XqCli) (stamp : Bytes) :
    CR cl n n' (xqVouch c cli stamp) (xqVouch c' cli stamp) := by
  unfold xqVouch
  have e : c'.req.account = c.req.account := by rw [h.req]
  dsimp only
  rw [e, h.lim]
  have h1 := h.upd (f := fun r => { r with account := setAccount c.lim stamp }) (fun r k => ⟨rfl, rfl, rfl⟩)
  have h2 : CR cl n n'
      (if (cli.modeBang && !(!c.req.account.isEmpty)) = true then
          updReq (updReq c fun r => { r with account := setAccount c.lim stamp }) fun r => { r with holds := r.holds - 1 }
        else updReq c fun r => { r with account := setAccount c.lim stamp })
      (if (cli.modeBang && !(!c.req.account.isEmpty)) = true then
          updReq (updReq c' fun r => { r with account := setAccount c.lim stamp }) fun r => { r with holds := r.holds - 1 }
        else updReq c' fun r => { r with account := setAccount c.lim stamp }) := by
    split
    · exact h1.upd (f := fun r => { r with holds := r.holds - 1 }) (fun r k => ⟨rfl, rfl, rfl⟩)
    · exact h1
  split
  · exact h2.emit_client _ _
  · exact h2

theorem xqReply_rel (st : Static) {cl : Int} {n n' : Nat} {c c' : Ctx} (h : CR cl n n' c c') (service : Bytes) (reply : Option Bytes) :
    RelM (CR cl n n') (xqReply st c service reply) (xqReply st c' service reply) := by
  unfold xqReply
  have e : c'.req.xq = c.req.xq := by rw [h.req]
  rw [e]
  cases c.req.xq with
  | none => exact h
  | some cli =>
    dsimp only
    unfold findRefSlot
    rcases findRefSlot_go_rel cli service c.svcs c'.svcs 0 h.svcs with ⟨e1, e2⟩ | ⟨i, srv, srv', e1, e2, hk, hm⟩
    · rw [e1, e2]; exact h
    · rw [e1, e2]
      dsimp only
      have hc : srv.configured = true := h.conf srv hm
      obtain ⟨k1, k2, k3⟩ := kernel_eq hk
      have fin : ∀ {d d' : Ctx}, CR cl n n' d d' → ∀ (xc : XqCli) (f f' : Svc),
          (f.name = srv.name ∧ f.ty = srv.ty ∧ f.configured = srv.configured) →
          (f'.name = srv'.name ∧ f'.ty = srv'.ty ∧ f'.configured = srv'.configured) →
          RelM (CR cl n n') (xqFinish st i d xc f) (xqFinish st i d' xc f') := by
        intro d d' hd xc f f' hf hf'
        exact xqFinish_rel st hd i xc (kernel_upd hk f f' hf hf') (by rw [hf.2.2]; exact hc)
      cases reply with
      | none =>
        dsimp only
        rw [k2]
        refine fin ?_ cli _ _ ⟨rfl, rfl, rfl⟩ ⟨rfl, k2.symm, rfl⟩
        split
        · exact h.emit_client _ _
        · exact h
      | some rep =>
        dsimp only
        cases okStamp rep with
        | some o =>
          cases o with
          | none => exact fin h _ _ _ ⟨rfl, rfl, rfl⟩ ⟨rfl, rfl, rfl⟩
          | some stamp =>
            dsimp only
            rw [k2]
            split
            · exact fin (xqVouch_rel h _ stamp) _ _ _ ⟨rfl, rfl, rfl⟩ ⟨rfl, k2.symm, rfl⟩
            · exact fin h _ _ _ ⟨rfl, rfl, rfl⟩ ⟨rfl, k2.symm, rfl⟩
        | none =>
          dsimp only
          split
          · have ea : c'.req.account = c.req.account := by rw [h.req]
            rw [ea]
            refine kill_rel ?_ _
            refine h.setSlot i hk hc ?_ ?_
            · exact ⟨rfl, rfl, rfl⟩
            · exact ⟨rfl, rfl, rfl⟩
          · split
            · exact fin (h.emit_client _ _) _ _ _ ⟨rfl, rfl, rfl⟩ ⟨rfl, rfl, rfl⟩
            · split
              · exact fin (h.emit_client _ _) _ _ _ ⟨rfl, rfl, rfl⟩ ⟨rfl, rfl, rfl⟩
              · exact h

/-! ### core: per-request events -/

theorem fieldChange_rel (st : Static) (p : Bool) {cl : Int} {n n' : Nat} {c c' : Ctx} (h : CR cl n n' c c') :
    CR cl n n' (fieldChange st p c) (fieldChange st p c') := by
  unfold fieldChange
  split
  · exact xqCheck_rel p h
  · exact h

theorem reqEvent_rel (st : Static) {cl : Int} {n n' : Nat} {c c' : Ctx} (h : CR cl n n' c c') (ev : Ev) :
    RelM (CR cl n n') (reqEvent st c ev) (reqEvent st c' ev) := by
  have gf : ∀ {d d' : Ctx}, CR cl n n' d d' → RelM (CR cl n n') (gate st (fieldChange st false d)) (gate st (fieldChange st false d')) :=
    fun hd => gate_rel st (fieldChange_rel st false hd)
  cases ev with
  | hostname hn =>
    simp only [reqEvent]
    have e : c'.req.hostname = c.req.hostname := by rw [h.req]
    rw [e, h.lim]
    split
    · exact h
    · cases hn with
      | none => trivial
      | some x => exact gf (h.upd (fun r k => ⟨rfl, rfl, rfl⟩))
  | noHostname =>
    simp only [reqEvent]
    exact gf (h.upd (fun r k => ⟨rfl, rfl, rfl⟩))
  | password p =>
    simp only [reqEvent]
    have h1 := h.upd (f := fun r => { r with flags := { r.flags with gotPass := true } }) (fun r k => ⟨rfl, rfl, rfl⟩)
    split
    · exact RelM.bind (xqPassword_rel h1 p) (fun a a' ha => gate_rel st ha)
    · simp only [pure_bind]
      exact gate_rel st h1
  | userInfo u r =>
    simp only [reqEvent]
    rw [h.lim]
    exact gf (h.upd (fun r k => ⟨rfl, rfl, rfl⟩))
  | ident i =>
    simp only [reqEvent]
    rw [h.lim]
    refine gf (h.upd ?_)
    intro r k
    cases i with
    | some x => exact ⟨rfl, rfl, rfl⟩
    | none =>
      dsimp only
      split
      · exact ⟨rfl, rfl, rfl⟩
      · exact ⟨rfl, rfl, rfl⟩
  | nick nn =>
    simp only [reqEvent]
    cases nn with
    | none => trivial
    | some x =>
      dsimp only
      rw [h.lim]
      exact gf (h.upd (fun r k => ⟨rfl, rfl, rfl⟩))
  | hurry =>
    simp only [reqEvent]
    exact gf (h.upd (fun r k => ⟨rfl, rfl, rfl⟩))
  | timeout =>
    simp only [reqEvent]
    exact gate_rel st (h.upd (fun r k => ⟨rfl, rfl, rfl⟩))

end Iauthd.Proto
