import Iauthd.Proto.Hist07
import Iauthd.Proto.RenderStep
/-
  C07, the reply event is a line: a service's answer written as the IAuth line
  `-1 X <service> <routing tag of the live instance> :<text>` (or `-1 x … :<text>` for the notice
  that the service is not linked) is processed by `stepLine` exactly as the reply event of
  `Hist07` says.
-/
set_option linter.unusedSimpArgs false
set_option linter.unusedVariables false
namespace Iauthd.Proto
open Iauthd

/-- a word of an input line: not empty, no separator byte, does not begin with ':' -/
structure IWord (w : Bytes) : Prop where
  ne : w ≠ []
  nosp : ∀ c ∈ w, Bytes.isSpace c = false
  nocolon : w.head? ≠ some 58

theorem takeWord_word : ∀ (w rest : Bytes), (∀ c ∈ w, Bytes.isSpace c = false) → takeWord (w ++ 32 :: rest) = (w, 32 :: rest)
  | [], rest, _ => by simp [takeWord, Bytes.isSpace]
  | c :: w, rest, h => by
    have hc : Bytes.isSpace c = false := h c (List.mem_cons_self ..)
    have ih := takeWord_word w rest (fun x hx => h x (List.mem_cons_of_mem _ hx))
    simp only [List.cons_append, takeWord, hc, Bool.false_eq_true, if_false, ih]

theorem tokens_word (f : Nat) (w rest : Bytes) (hw : IWord w) : tokens (f + 1) (w ++ 32 :: rest) = w :: tokens f rest := by
  obtain ⟨hne, hsp, hco⟩ := hw
  cases w with
  | nil => exact absurd rfl hne
  | cons c w' =>
    have hc : Bytes.isSpace c = false := hsp c (List.mem_cons_self ..)
    have h58 : c ≠ 58 := by intro h; apply hco; simp [h]
    conv => lhs; unfold tokens
    have hs : skipSpaces ((c :: w') ++ 32 :: rest) 0 = ((c :: w') ++ 32 :: rest, 0) := by
      simp only [List.cons_append, skipSpaces, hc, Bool.false_eq_true, if_false]
    rw [hs]
    dsimp only
    have : takeWord (c :: (w' ++ 32 :: rest)) = (c :: w', 32 :: rest) := takeWord_word (c :: w') rest hsp
    split
    · rename_i heq; simp at heq
    · rename_i r2 heq
      simp only [List.cons_append, List.cons.injEq] at heq
      exact absurd heq.1 h58
    · rename_i c2 cs2 hnot heq
      simp only [List.cons_append, List.cons.injEq] at heq
      obtain ⟨rfl, rfl⟩ := heq
      rw [this]

theorem tokens_trailing (f : Nat) (text : Bytes) : tokens (f + 1) (58 :: text) = [text] := by
  unfold tokens
  have : skipSpaces (58 :: text) 0 = (58 :: text, 0) := by
    simp [skipSpaces, Bytes.isSpace]
  rw [this]
  rfl

/-- the reply line as the server writes it -/
def replyLine (isX : Bool) (svc tag text : Bytes) : Bytes :=
  [45, 49, 32, (if isX then 88 else 120)] ++ (32 :: (svc ++ 32 :: (tag ++ 32 :: 58 :: text)))

theorem tokenize_reply (isX : Bool) (svc tag text : Bytes) (hs : IWord svc) (ht : IWord tag) :
    tokenize (replyLine isX svc tag text) = { id := -1, argv := [[if isX then 88 else 120], svc, tag, text] } := by
  unfold tokenize replyLine
  have h1 : strtol 10 ([45, 49, 32, (if isX then 88 else 120)] ++ (32 :: (svc ++ 32 :: (tag ++ 32 :: 58 :: text)))) = (-1, 2) := by
    cases isX <;> rfl
  rw [h1]
  dsimp only
  have h2 : toInt32 (-1) = -1 := by decide
  rw [h2]
  congr 1
  show tokens 16 (32 :: (if isX then 88 else 120) :: 32 :: (svc ++ 32 :: (tag ++ 32 :: 58 :: text))) = _
  have hw : IWord [if isX then (88 : UInt8) else 120] := by
    cases isX
    · exact ⟨by simp, by intro c hc; simp at hc; subst hc; decide, by decide⟩
    · exact ⟨by simp, by intro c hc; simp at hc; subst hc; decide, by decide⟩
  have e0 : tokens 16 (32 :: (if isX then 88 else 120) :: 32 :: (svc ++ 32 :: (tag ++ 32 :: 58 :: text))) =
      tokens 16 ([if isX then (88 : UInt8) else 120] ++ 32 :: (svc ++ 32 :: (tag ++ 32 :: 58 :: text))) := by
    show tokens (15 + 1) _ = tokens (15 + 1) _
    unfold tokens
    have : skipSpaces (32 :: (if isX then 88 else 120) :: 32 :: (svc ++ 32 :: (tag ++ 32 :: 58 :: text))) 0 =
        ((skipSpaces ((if isX then 88 else 120) :: 32 :: (svc ++ 32 :: (tag ++ 32 :: 58 :: text))) 1).1,
         (skipSpaces ((if isX then 88 else 120) :: 32 :: (svc ++ 32 :: (tag ++ 32 :: 58 :: text))) 1).2) := by
      simp [skipSpaces, Bytes.isSpace]
    rw [this]
    have s1 : (skipSpaces ((if isX then (88 : UInt8) else 120) :: 32 :: (svc ++ 32 :: (tag ++ 32 :: 58 :: text))) 1).1 =
        (if isX then (88 : UInt8) else 120) :: 32 :: (svc ++ 32 :: (tag ++ 32 :: 58 :: text)) := by
      cases isX <;> simp [skipSpaces, Bytes.isSpace]
    have s2 : (skipSpaces ([if isX then (88 : UInt8) else 120] ++ 32 :: (svc ++ 32 :: (tag ++ 32 :: 58 :: text))) 0).1 =
        (if isX then (88 : UInt8) else 120) :: 32 :: (svc ++ 32 :: (tag ++ 32 :: 58 :: text)) := by
      cases isX <;> simp [skipSpaces, Bytes.isSpace]
    rw [s1, s2]
  rw [e0, show (16 : Nat) = 15 + 1 from rfl, tokens_word 15 _ _ hw, show (15 : Nat) = 14 + 1 from rfl, tokens_word 14 _ _ hs,
    show (14 : Nat) = 13 + 1 from rfl, tokens_word 13 _ _ ht, show (13 : Nat) = 12 + 1 from rfl, tokens_trailing]

theorem hexNat_nospace (n : Nat) : ∀ c ∈ hexNat n, Bytes.isSpace c = false := by
  intro c hc
  obtain ⟨d, hd, rfl⟩ := hexNat_chars n c hc
  have key : ∀ d, d < 16 → Bytes.isSpace (chByte (Nat.digitChar d)) = false := by decide
  exact key d hd

theorem routing_iword (r : Req) : IWord (routing r) := by
  have hw := routing_word r
  refine ⟨hw.ne, ?_, hw.nocolon⟩
  rw [routing_eq]
  intro c hc
  rcases List.mem_append.1 hc with h | h
  · exact hexNat_nospace _ c h
  · rcases List.mem_cons.1 h with h | h
    · subst h; decide
    · exact hexNat_nospace _ c h

/-- **a reply event is the reply line**: for a stored request `r` and a service name that is a word,
    feeding `-1 X <svc> <tag of r> :<text>` (or the `x` notice) to `stepLine` is the reply event
    for `r.client` -/
theorem reply_is_line (s : State) (hs : StateOK s) (r : Req) (hf : findReq s.reqs r.client = some r)
    (isX : Bool) (svc text : Bytes) (hsv : IWord svc) :
    stepLine s (replyLine isX svc (routing r) text) = exec07 s (.reply r.client svc (if isX then some text else none)) := by
  have hrok := hs.reqs r (findReq_mem hf).1
  have htag : parseTag (routing r) = some (r.client, r.serial) :=
    parseTag_routing r hrok.head.client.1 hrok.head.client.2 hrok.serial
  have hval : validateRequest s (routing r) = some r := by
    unfold validateRequest
    rw [htag]
    dsimp only
    rw [hf]
    simp
  unfold stepLine
  rw [tokenize_reply isX svc (routing r) text hsv (routing_iword r)]
  simp only [exec07, hf]
  have hcmd : ([if isX then (88 : UInt8) else 120] : Bytes).getD 0 0 = (if isX then 88 else 120) := rfl
  rw [hcmd]
  have h67 : ((if isX then (88 : UInt8) else 120) == 67) = false := by cases isX <;> decide
  simp only [beq_self_eq_true, Bool.true_or, if_true, bne_self_eq_false, Bool.false_and, Bool.false_eq_true, if_false]
  unfold dispatch
  cases isX with
  | true =>
    simp only [if_true]
    have : ∀ k : UInt8, k ≠ 88 → ((88 : UInt8) == k) = false := by intro k hk; simpa using (Ne.symm hk)
    simp only [this 67 (by decide), this 68 (by decide), this 78 (by decide), this 100 (by decide), this 80 (by decide),
      this 85 (by decide), this 117 (by decide), this 110 (by decide), this 72 (by decide), this 84 (by decide),
      Bool.false_eq_true, if_false, beq_self_eq_true, if_true]
    unfold onReply
    simp only [arg, List.length_cons, List.length_nil, List.getElem?_cons_succ, List.getElem?_cons_zero, Option.getD_some, hval]
    by_cases hx : s.hasXq = true
    · simp [hx]
    · simp [hx]
  | false =>
    simp only [Bool.false_eq_true, if_false]
    have : ∀ k : UInt8, k ≠ 120 → ((120 : UInt8) == k) = false := by intro k hk; simpa using (Ne.symm hk)
    simp only [this 67 (by decide), this 68 (by decide), this 78 (by decide), this 100 (by decide), this 80 (by decide),
      this 85 (by decide), this 117 (by decide), this 110 (by decide), this 72 (by decide), this 84 (by decide), this 88 (by decide),
      Bool.false_eq_true, if_false, beq_self_eq_true, if_true]
    unfold onReply
    simp only [arg, List.length_cons, List.length_nil, List.getElem?_cons_succ, List.getElem?_cons_zero, Option.getD_some, hval]
    by_cases hx : s.hasXq = true
    · simp [hx]
    · simp [hx]

end Iauthd.Proto
