import Iauthd.Proto.Holds
/-
  C03 as a statement about every reachable state: *no stored request could be accepted*.
  `Ready need r` is the gate's own acceptance condition (no hold, every required flag, no soft
  hold unless the timeout expired); by `gate_condition_iff` and the counter invariant it is the
  condition in terms of sets (no unmet +!, data complete or hurry-up, no unanswered query unless
  timed out).  Every handler that changes a request ends in the gate, the gate removes a ready
  request in that very call, and a handler that returns without the gate changed nothing - so
  after every step every request still in the table is not ready.
-/
set_option linter.unusedSimpArgs false
set_option linter.unusedVariables false
namespace Iauthd.Proto
open Iauthd

/-- the acceptance condition of `iauth_check_request` for a request that has not been answered -/
def Ready (need : Flags) (r : Req) : Prop :=
  r.holds = 0 ∧ need.subset r.flags = true ∧ (r.soft = 0 ∨ r.flags.timedOut = true)

def Settled (need : Flags) (s : State) : Prop := ∀ r ∈ s.reqs, ¬ Ready need r

/-- the gate decides a ready request and leaves any other as it is (up to the soft-done flag) -/
theorem gate_settles (st : Static) (c c' : Ctx) (hr : c.req.flags.responded = false)
    (h : gate st c = .ok c') : c'.gone = true ∨ ¬ Ready st.need c'.req := by
  unfold gate at h
  dsimp only at h
  by_cases h1 : (c.req.holds == 0 && !c.req.flags.responded && st.need.subset c.req.flags) = true
  · simp only [h1, if_true] at h
    by_cases h2 : (c.req.soft == 0 || c.req.flags.timedOut) = true
    · simp only [h2, if_true] at h
      exact Or.inl (accept_spec st _ _ h).2
    · simp only [h2, if_false, Bool.false_eq_true] at h
      right
      have hn : ¬ (c.req.soft = 0 ∨ c.req.flags.timedOut = true) := by
        intro hx; apply h2
        rcases hx with hx | hx <;> simp [hx]
      split at h <;> (simp only [pure, Except.pure, Except.ok.injEq] at h; subst h)
      · intro hrd; exact hn hrd.2.2
      · intro hrd; exact hn hrd.2.2
  · simp only [h1, if_false, Bool.false_eq_true, pure, Except.pure, Except.ok.injEq] at h
    subst h
    right
    intro hrd
    apply h1
    simp [hrd.1, hr, hrd.2.1]

theorem xqFinishPre_resp (i : Nat) (c : Ctx) (cli : XqCli) (srv : Svc) :
    (xqFinishPre i c cli srv).req.flags.responded = c.req.flags.responded := by
  rw [(xqFinishPre_frame i c cli srv).2.1]

theorem xqReply_settles (st : Static) (c c' : Ctx) (svc : Bytes) (reply : Option Bytes)
    (hr : c.req.flags.responded = false) (hns : ¬ Ready st.need c.req)
    (h : xqReply st c svc reply = .ok c') : c'.gone = true ∨ ¬ Ready st.need c'.req := by
  have fin : ∀ (i : Nat) (c1 : Ctx) (cli : XqCli) (srv : Svc), c1.req.flags.responded = false →
      xqFinish st i c1 cli srv = .ok c' → c'.gone = true ∨ ¬ Ready st.need c'.req := by
    intro i c1 cli srv h1 hx
    rw [xqFinish_eq] at hx
    exact gate_settles st _ _ (by rw [xqFinishPre_resp]; exact h1) hx
  unfold xqReply at h
  split at h
  · simp only [pure, Except.pure, Except.ok.injEq] at h; subst h; exact Or.inr hns
  · split at h
    · simp only [pure, Except.pure, Except.ok.injEq] at h; subst h; exact Or.inr hns
    · split at h
      · dsimp only at h
        split at h
        · (refine fin _ _ _ _ ?_ h; exact hr)
        · (refine fin _ _ _ _ ?_ h; exact hr)
      · split at h
        · (refine fin _ _ _ _ ?_ h; exact hr)
        · dsimp only at h
          split at h
          · refine fin _ _ _ _ ?_ h
            rw [(xqVouch_frame _ _ _).2.1]; exact hr
          · (refine fin _ _ _ _ ?_ h; exact hr)
        · split at h
          · exact Or.inl (kill_spec _ _ _ h).2
          · split at h
            · (refine fin _ _ _ _ ?_ h; exact hr)
            · split at h
              · (refine fin _ _ _ _ ?_ h; exact hr)
              · simp only [pure, Except.pure, Except.ok.injEq] at h; subst h; exact Or.inr hns

theorem reqEvent_settles (st : Static) (hnr : st.need.responded = false) (c c' : Ctx) (ev : Ev)
    (hr : c.req.flags.responded = false) (hns : ¬ Ready st.need c.req)
    (h : reqEvent st c ev = .ok c') : c'.gone = true ∨ ¬ Ready st.need c'.req := by
  have fc : ∀ c1 : Ctx, c1.req.flags.responded = false → gate st (fieldChange st false c1) = .ok c' →
      c'.gone = true ∨ ¬ Ready st.need c'.req := by
    intro c1 h1 hg
    exact gate_settles st _ _ (by rw [(fieldChange_frame st false c1).2.1]; exact h1) hg
  cases ev with
  | hostname hn =>
    simp only [reqEvent] at h
    split at h
    · simp only [pure, Except.pure, Except.ok.injEq] at h; subst h; exact Or.inr hns
    · split at h
      · cases h
      · (refine fc _ ?_ h; exact hr)
  | noHostname => simp only [reqEvent] at h; (refine fc _ ?_ h; exact hr)
  | password p =>
    simp only [reqEvent, bind, Except.bind] at h
    by_cases hx : st.hasXq = true
    · simp only [hx, if_true] at h
      split at h
      · cases h
      · rename_i c1 hc1
        refine gate_settles st _ _ ?_ h
        rw [(xqPassword_frame _ _ _ hc1).2.1]; exact hr
    · simp only [hx, if_false, Bool.false_eq_true, pure, Except.pure] at h
      exact gate_settles st _ _ (by exact hr) h
  | userInfo u r =>
    simp only [reqEvent] at h
    refine fc _ ?_ h
    simp only [updReq]
    split <;> exact hr
  | ident i =>
    simp only [reqEvent] at h
    refine fc _ ?_ h
    simp only [updReq]
    cases i with
    | some x => exact hr
    | none => dsimp only; split <;> exact hr
  | nick n =>
    simp only [reqEvent] at h
    split at h
    · cases h
    · (refine fc _ ?_ h; exact hr)
  | hurry =>
    simp only [reqEvent] at h
    refine fc _ ?_ h
    simp only [updReq, Flags.or, hr, hnr, Bool.or_self]
  | timeout =>
    simp only [reqEvent] at h
    exact gate_settles st _ _ (by exact hr) h

end Iauthd.Proto
