import Iauthd.Proto.Settle03
import Iauthd.Proto.RenderStep
/-
  C03 over whole histories: `Settled` is kept by every operation.
-/
set_option linter.unusedSimpArgs false
set_option linter.unusedVariables false
namespace Iauthd.Proto
open Iauthd

theorem need_responded (s : State) : s.static.need.responded = false := by
  simp only [State.static, State.need]; split <;> rfl

theorem need_same {s s' : State} (h : SameStatic s s') : s'.static.need = s.static.need := by
  simp only [State.static, State.need, h.1]

/-- what a step must deliver -/
def StepSettled (need : Flags) (m : M (State × List Bytes)) : Prop :=
  ∀ s' out, m = .ok (s', out) → Settled need s'

theorem StepSettled.pure {need : Flags} {s : State} (h : Settled need s) (out : List Bytes) :
    StepSettled need (pure (s, out)) := by
  intro s' o he
  simp only [Pure.pure, Except.pure, Except.ok.injEq, Prod.mk.injEq] at he
  obtain ⟨rfl, _⟩ := he; exact h

theorem onReq_settled (s : State) (hi : Inv s) (h : Settled s.static.need s) (req? : Option Req)
    (hreq : ∀ r, req? = some r → r ∈ s.reqs) (c : String) (ev : Ev) : StepSettled s.static.need (onReq s req? c ev) := by
  unfold onReq
  cases req? with
  | none => unfold garbage; exact StepSettled.pure h _
  | some r =>
    intro s' out he
    have hr := hreq r rfl
    exact withReq_pred (P := fun x => ¬ Ready s.static.need x) h
      (fun c' hc => reqEvent_settles _ (need_responded s) _ _ ev (hi.noResp r hr) (h r hr) hc) he

theorem dropReq_settled (s : State) (h : Settled s.static.need s) (req? : Option Req) (c : String) :
    StepSettled s.static.need (dropReq s req? c) := by
  unfold dropReq
  cases req? with
  | none => unfold garbage; exact StepSettled.pure h _
  | some r =>
    intro s' out he
    exact withReq_pred (P := fun x => ¬ Ready s.static.need x) (f := fun ctx => pure (finishReq ctx)) h (fun c' hc => by
      simp only [pure, Except.pure, Except.ok.injEq] at hc; subst hc; exact Or.inl rfl) he

theorem onReply_settled (s : State) (hi : Inv s) (h : Settled s.static.need s) (l : Line) (isX : Bool) :
    StepSettled s.static.need (onReply s l isX) := by
  unfold onReply
  split
  · exact StepSettled.pure h _
  · split
    · exact StepSettled.pure h _
    · rename_i r hv
      intro s' out he
      have hr := validateRequest_mem hv
      exact withReq_pred (P := fun x => ¬ Ready s.static.need x) h
        (fun c' hc => xqReply_settles _ _ _ _ _ (hi.noResp r hr) (h r hr) hc) he

theorem newClient_settled (s : State) (hi : Inv s) (h : Settled s.static.need s) (id : Int) (a p : Bytes) :
    StepSettled s.static.need (newClient s id a p) := by
  intro s' out he
  have hneed : s.static.need.gotHost = true := by
    simp only [State.static, State.need]; split <;> rfl
  unfold newClient at he
  cases hp : ptonC a false with
  | error e => simp [hp, bind, Except.bind] at he
  | ok r =>
    simp only [hp, bind, Except.bind, pure, Except.pure, Except.ok.injEq, Prod.mk.injEq] at he
    obtain ⟨rfl, _⟩ := he
    intro x hx
    rcases (ids_insertReq _ _ hi.sorted).2 x hx with rfl | hm
    · intro hrd
      have := hrd.2.1
      split at this <;> simp [Flags.subset, hneed] at this
    · exact h x hm

theorem dispatch_settled (s : State) (hi : Inv s) (h : Settled s.static.need s) (l : Line) (cmd : UInt8) (req? : Option Req)
    (hreq : ∀ r, req? = some r → r ∈ s.reqs) : StepSettled s.static.need (dispatch s l cmd req?) := by
  apply dispatch_cases s l cmd req? (StepSettled s.static.need)
  · exact StepSettled.pure h _
  · exact newClient_settled s hi h _ _ _
  · exact dropReq_settled s h req? "D"
  · exact onReq_settled s hi h req? hreq "N" _
  · exact onReq_settled s hi h req? hreq "d" _
  · exact onReq_settled s hi h req? hreq "P" _
  · intro _; unfold garbage; exact StepSettled.pure h _
  · exact StepSettled.pure h _
  · intro r hq _
    intro s' out he
    have hr := hreq r hq
    exact withReq_pred (P := fun x => ¬ Ready s.static.need x) h
      (fun c' hc => reqEvent_settles _ (need_responded s) _ _ _ (hi.noResp r hr) (h r hr) hc) he
  · exact onReq_settled s hi h req? hreq "u" _
  · exact onReq_settled s hi h req? hreq "n" _
  · exact onReq_settled s hi h req? hreq "H" _
  · exact dropReq_settled s h req? "T"
  · intro isX; exact onReply_settled s hi h l isX
  · intro s' out he
    obtain ⟨o, ho⟩ := onInfo_spec s l
    rw [ho] at he
    simp only [Except.ok.injEq, Prod.mk.injEq] at he
    obtain ⟨rfl, _⟩ := he; exact h

theorem stepLine_settled (s : State) (hi : Inv s) (h : Settled s.static.need s) (raw : Bytes) :
    StepSettled s.static.need (stepLine s raw) := by
  unfold stepLine
  dsimp only
  split
  · exact StepSettled.pure h _
  · split
    · split
      · exact StepSettled.pure h _
      · exact dispatch_settled s hi h _ _ _ (fun r hr => by cases hr)
    · split
      · exact StepSettled.pure h _
      · exact dispatch_settled s hi h _ _ _ (fun r hr => (findReq_mem hr).1)

theorem stepLines_settled (need : Flags) : ∀ (lines : List Bytes) (s : State), Inv s → s.static.need = need → Settled need s →
    StepSettled need (stepLines s lines)
  | [], s, _, _, h => by unfold stepLines; exact StepSettled.pure h _
  | ln :: rest, s, hi, hn, h => by
    unfold stepLines
    split
    · exact stepLines_settled need rest s hi hn h
    · intro s' out he
      simp only [bind, Except.bind] at he
      split at he
      · cases he
      · rename_i v1 h1
        obtain ⟨s1, o1⟩ := v1
        dsimp only at he
        split at he
        · cases he
        · rename_i v2 h2
          obtain ⟨s2, o2⟩ := v2
          simp only [pure, Except.pure, Except.ok.injEq, Prod.mk.injEq] at he
          obtain ⟨rfl, _⟩ := he
          have a := stepLine_inv hi h1
          have hs1 : Settled need s1 := by
            subst hn
            exact stepLine_settled s hi h (cstr ln) s1 o1 h1
          exact stepLines_settled need rest s1 a.1 (by rw [need_same a.2]; exact hn) hs1 s2 o2 h2

theorem stepOp_settled (need : Flags) (s : State) (hi : Inv s) (hn : s.static.need = need) (h : Settled need s) (op : Op) :
    StepSettled need (stepOp s op) := by
  intro s' out he
  cases op with
  | chunk bs =>
    simp only [stepOp, stepChunk] at he
    cases hr : stepLines { s with inbuf := [] } (splitLines (s.inbuf ++ bs)).1 with
    | error e => simp [hr, Except.map] at he
    | ok r =>
      obtain ⟨s1, o1⟩ := r
      simp only [hr, Except.map, Except.ok.injEq, Prod.mk.injEq] at he
      obtain ⟨rfl, _⟩ := he
      exact stepLines_settled need _ _ (inv_inbuf hi []) (by exact hn) (by exact h) s1 o1 hr
  | timeout id =>
    simp only [stepOp] at he
    cases hr : stepTimeout s id with
    | error e => simp [hr, Except.map] at he
    | ok r =>
      obtain ⟨s1, o1, f1⟩ := r
      simp only [hr, Except.map, Except.ok.injEq, Prod.mk.injEq] at he
      obtain ⟨rfl, _⟩ := he
      subst hn
      unfold stepTimeout at hr
      split at hr
      · rename_i rq hf
        split at hr
        · simp only [bind, Except.bind] at hr
          split at hr
          · cases hr
          · rename_i v hv
            obtain ⟨s2, o2⟩ := v
            simp only [pure, Except.pure, Except.ok.injEq, Prod.mk.injEq] at hr
            obtain ⟨rfl, _, _⟩ := hr
            have hrq := (findReq_mem hf).1
            exact withReq_pred (P := fun x => ¬ Ready s.static.need x) h
              (fun c' hc => reqEvent_settles _ (need_responded s) _ _ _ (hi.noResp rq hrq) (h rq hrq) hc) hv
        · simp only [pure, Except.pure, Except.ok.injEq, Prod.mk.injEq] at hr
          obtain ⟨rfl, _⟩ := hr; exact h
      · simp only [pure, Except.pure, Except.ok.injEq, Prod.mk.injEq] at hr
        obtain ⟨rfl, _⟩ := hr; exact h

/-- **C03 over whole histories**: in every reachable state no stored request could be accepted. -/
theorem runOps_settled (need : Flags) : ∀ (ops : List Op) (s : State), Inv s → s.static.need = need → Settled need s →
    ∀ s' outs, runOps s ops = .ok (s', outs) → Settled need s'
  | [], s, _, _, h, s', outs, he => by
    simp only [runOps, pure, Except.pure, Except.ok.injEq, Prod.mk.injEq] at he
    obtain ⟨rfl, _⟩ := he; exact h
  | op :: ops, s, hi, hn, h, s', outs, he => by
    simp only [runOps, bind, Except.bind] at he
    split at he
    · cases he
    · rename_i v1 h1
      obtain ⟨s1, o1⟩ := v1
      dsimp only at he
      split at he
      · cases he
      · rename_i v2 h2
        obtain ⟨s2, os⟩ := v2
        simp only [pure, Except.pure, Except.ok.injEq, Prod.mk.injEq] at he
        obtain ⟨rfl, _⟩ := he
        have a := stepOp_inv hi h1
        exact runOps_settled need ops s1 a.1 (by rw [need_same a.2]; exact hn)
          (stepOp_settled need s hi hn h op s1 o1 h1) s2 os h2

end Iauthd.Proto
