import Iauthd.Proto.Hist
import Iauthd.Proto.Step
/-
  The Spec's reading of a PASS text (net effect of the mode word: Hist.netModes / wellShaped) and the
  daemon's (iauth_xquery_check_password: scanModes / checkPasswordShape) agree on every text.
-/
set_option linter.unusedSimpArgs false
set_option linter.unusedVariables false
namespace Iauthd.Proto
open Iauthd
/-- what the daemon's mode accumulator and the Spec's net effect say about one mode letter -/
def AccNet (set clr : Bool) (o : Option Bool) : Prop :=
  (o = some true ↔ set = true) ∧ (o = some false ↔ clr = true) ∧ ¬ (set = true ∧ clr = true)

def AccRel (m : ModeAcc) (n : Hist.ModeNet) : Prop := AccNet m.setX m.clrX n.x ∧ AccNet m.setBang m.clrBang n.bang

theorem accNet_set (o : Option Bool) (s c : Bool) (b : Bool) (h : AccNet s c o) :
    AccNet (if b then true else false) (if b then false else true) (some b) := by
  cases b <;> simp [AccNet]

/-- the daemon's scanner stops at the first blank; up to there it computes the Spec's net modes -/
theorem scanModes_spec : ∀ (pw : Bytes) (m : ModeAcc) (n : Hist.ModeNet), AccRel m n →
    (scanModes pw m = none ↔ (pw.dropWhile (· != 32)).isEmpty = true) ∧
    (∀ m' rest, scanModes pw m = some (m', rest) →
      rest = pw.dropWhile (· != 32) ∧ AccRel m' (Hist.netModes (pw.takeWhile (· != 32)) m.set n))
  | [], m, n, h => by
    refine ⟨by simp [scanModes], ?_⟩
    intro m' rest hs; simp [scanModes] at hs
  | c :: cs, m, n, h => by
    by_cases h32 : c = 32
    · subst h32
      refine ⟨by simp [scanModes], ?_⟩
      intro m' rest hs
      simp only [scanModes, Option.some.injEq, Prod.mk.injEq] at hs
      obtain ⟨rfl, rfl⟩ := hs
      simp [Hist.netModes, h]
    · have hne : (c != 32) = true := by simpa using h32
      have hd : (c :: cs).dropWhile (· != 32) = cs.dropWhile (· != 32) := by
        rw [List.dropWhile_cons]; simp [hne]
      have ht : (c :: cs).takeWhile (· != 32) = c :: cs.takeWhile (· != 32) := by
        rw [List.takeWhile_cons]; simp [hne]
      rw [hd, ht]
      have step : ∀ (m1 : ModeAcc) (n1 : Hist.ModeNet), AccRel m1 n1 →
          scanModes (c :: cs) m = scanModes cs m1 →
          Hist.netModes (c :: cs.takeWhile (· != 32)) m.set n = Hist.netModes (cs.takeWhile (· != 32)) m1.set n1 →
          (scanModes (c :: cs) m = none ↔ (cs.dropWhile (· != 32)).isEmpty = true) ∧
          (∀ m' rest, scanModes (c :: cs) m = some (m', rest) →
            rest = cs.dropWhile (· != 32) ∧ AccRel m' (Hist.netModes (c :: cs.takeWhile (· != 32)) m.set n)) := by
        intro m1 n1 hr e1 e2
        have ih := scanModes_spec cs m1 n1 hr
        rw [e1, e2]; exact ih
      -- the five kinds of byte
      by_cases h43 : c = 43
      · subst h43
        exact step { m with set := true } n h (by simp [scanModes]) (by simp [Hist.netModes])
      by_cases h45 : c = 45
      · subst h45
        exact step { m with set := false } n h (by simp [scanModes]) (by simp [Hist.netModes])
      by_cases h120 : c = 120
      · subst h120
        refine step (if m.set then { m with setX := true, clrX := false } else { m with setX := false, clrX := true })
          { n with x := some m.set } ?_ (by simp [scanModes]) ?_
        · cases hs : m.set
          · exact ⟨by simp [AccNet], h.2⟩
          · exact ⟨by simp [AccNet], h.2⟩
        · cases hs : m.set <;> simp [Hist.netModes, hs]
      by_cases h33 : c = 33
      · subst h33
        refine step (if m.set then { m with setBang := true, clrBang := false } else { m with setBang := false, clrBang := true })
          { n with bang := some m.set } ?_ (by simp [scanModes]) ?_
        · cases hs : m.set
          · exact ⟨h.1, by simp [AccNet]⟩
          · exact ⟨h.1, by simp [AccNet]⟩
        · cases hs : m.set <;> simp [Hist.netModes, hs]
      · have e43 : (c == 43) = false := by simpa using h43
        have e45 : (c == 45) = false := by simpa using h45
        have e120 : (c == 120) = false := by simpa using h120
        have e33 : (c == 33) = false := by simpa using h33
        exact step m n h (by rw [scanModes.eq_3 m c cs h32]; simp [e43, e45, e120, e33]) (by simp [Hist.netModes, e43, e45, e120, e33])

theorem accRel_init : AccRel {} {} := by simp [AccRel, AccNet]

/-- **the two readers accept the same PASS texts and compute the same modes** -/
theorem password_readers_agree (pw : Bytes) :
    (Hist.wellShaped pw).isSome = (checkPasswordShape pw).isSome ∧
    ∀ n m cred, Hist.wellShaped pw = some n → checkPasswordShape pw = some (m, cred) → AccRel m n := by
  cases pw with
  | nil => exact ⟨rfl, by intro n m cred h; simp [Hist.wellShaped] at h⟩
  | cons c cs =>
    unfold Hist.wellShaped checkPasswordShape
    by_cases hc : (c != 43 && c != 45) = true
    · have hc' : (c != 45 && c != 43) = true := by rw [Bool.and_comm]; exact hc
      simp only [hc, hc', if_true]
      exact ⟨rfl, by intro n m cred h; cases h⟩
    · have hc' : ¬ (c != 45 && c != 43) = true := by rw [Bool.and_comm]; exact hc
      simp only [hc, hc', if_false, Bool.false_eq_true]
      obtain ⟨s1, s2⟩ := scanModes_spec (c :: cs) {} {} accRel_init
      cases hs : scanModes (c :: cs) {} with
      | none =>
        have he := s1.mp hs
        simp only [he, if_true]
        exact ⟨rfl, by intro n m cred h; cases h⟩
      | some v =>
        obtain ⟨m', rest⟩ := v
        obtain ⟨hr, hm⟩ := s2 m' rest hs
        have hne : ((c :: cs).dropWhile (· != 32)).isEmpty = false := by
          cases hx : ((c :: cs).dropWhile (· != 32)).isEmpty with
          | false => rfl
          | true => have := s1.mpr hx; rw [hs] at this; cases this
        simp only [hne, Bool.false_eq_true, if_false]
        rw [← hr]
        by_cases hcred : (rest.dropWhile (· == 32)).contains 32 = true
        · simp only [hcred, if_true]
          refine ⟨rfl, ?_⟩
          intro n m cred h1 h2
          simp only [Option.some.injEq, Prod.mk.injEq] at h1 h2
          obtain ⟨rfl, _⟩ := h2
          subst h1
          exact hm
        · simp only [hcred, if_false, Bool.false_eq_true]
          exact ⟨rfl, by intro n m cred h; cases h⟩

end Iauthd.Proto
