import Iauthd.Proto.Sim01
/-
  C01 for every history: the line-level trace of a run (each complete input line with the lines
  written in response, each timer expiry with the lines written in response) is acceptable to the
  reader of `Spec01`.
-/
set_option linter.unusedSimpArgs false
set_option linter.unusedVariables false
namespace Iauthd.Proto
open Iauthd Iauthd.Proto.Hist Iauthd.Proto.Spec01

abbrev Step1 := Option Bytes × List Bytes

/-- `stepLines`, recording each line with its outputs -/
def lineTrace : State → List Bytes → M (State × List Step1)
  | s, [] => pure (s, [])
  | s, ln :: rest =>
    if ln.isEmpty then lineTrace s rest
    else do
      let (s1, o1) ← stepLine s (cstr ln)
      let (s2, tr) ← lineTrace s1 rest
      pure (s2, (some (cstr ln), o1) :: tr)

/-- `stepOp`, recording the steps it is made of -/
def opTrace (s : State) : Op → M (State × List Step1)
  | .chunk bs =>
    (lineTrace { s with inbuf := [] } (splitLines (s.inbuf ++ bs)).1).map fun r =>
      ({ r.1 with inbuf := (splitLines (s.inbuf ++ bs)).2 }, r.2)
  | .timeout id => (stepTimeout s id).map fun r => (r.1, [(none, r.2.1)])

def runTrace : State → List Op → M (State × List (List Step1))
  | s, [] => pure (s, [])
  | s, op :: ops => do
    let (s1, t1) ← opTrace s op
    let (s2, ts) ← runTrace s1 ops
    pure (s2, t1 :: ts)

def outsOf (tr : List Step1) : List Bytes := (tr.map (·.2)).flatten

/-- the trace is a refinement of the run: same state, same bytes written -/
theorem lineTrace_stepLines : ∀ (lines : List Bytes) (s : State),
    stepLines s lines = (lineTrace s lines).map fun r => (r.1, outsOf r.2)
  | [], s => by simp [stepLines, lineTrace, outsOf, Except.map, pure, Except.pure]
  | ln :: rest, s => by
    unfold stepLines lineTrace
    split
    · exact lineTrace_stepLines rest s
    · simp only [bind, Except.bind]
      cases h1 : stepLine s (cstr ln) with
      | error e => simp [Except.map]
      | ok v1 =>
        obtain ⟨s1, o1⟩ := v1
        dsimp only
        rw [lineTrace_stepLines rest s1]
        cases h2 : lineTrace s1 rest with
        | error e => simp [Except.map]
        | ok v2 =>
          obtain ⟨s2, tr⟩ := v2
          simp [Except.map, pure, Except.pure, outsOf]

theorem opTrace_stepOp (s : State) (op : Op) :
    stepOp s op = (opTrace s op).map fun r => (r.1, outsOf r.2) := by
  cases op with
  | chunk bs =>
    simp only [stepOp, opTrace, stepChunk]
    rw [lineTrace_stepLines]
    cases h : lineTrace { s with inbuf := [] } (splitLines (s.inbuf ++ bs)).1 with
    | error e => simp [Except.map]
    | ok v => simp [Except.map]
  | timeout id =>
    simp only [stepOp, opTrace]
    cases h : stepTimeout s id with
    | error e => simp [Except.map]
    | ok v => simp [Except.map, outsOf]

theorem runTrace_runOps : ∀ (ops : List Op) (s : State),
    runOps s ops = (runTrace s ops).map fun r => (r.1, r.2.map outsOf)
  | [], s => by simp [runOps, runTrace, Except.map, pure, Except.pure]
  | op :: ops, s => by
    simp only [runOps, runTrace, bind, Except.bind]
    rw [opTrace_stepOp]
    cases h1 : opTrace s op with
    | error e => simp [Except.map]
    | ok v1 =>
      obtain ⟨s1, t1⟩ := v1
      simp only [Except.map]
      rw [runTrace_runOps ops s1]
      cases h2 : runTrace s1 ops with
      | error e => simp [Except.map]
      | ok v2 => simp [Except.map, pure, Except.pure]

/-! ### the reader accepts every trace -/

/-- no step of the trace announces a client under the id -1 -/
def NoAnnM1 (tr : List Step1) : Prop :=
  ∀ st ∈ tr, ∀ raw, st.1 = some raw → ∀ a0 args, (tokenize raw).argv = a0 :: args → a0.getD 0 0 = 67 → (tokenize raw).id ≠ -1

theorem stepTimeout_sim (s : State) (hs : StateOK s) (t : T1) (h : Sim s t) (hm : NoM1 s) (id : Int)
    (s' : State) (out : List Bytes) (f : Bool) (he : stepTimeout s id = .ok (s', out, f)) :
    Sim s' (step t none out) ∧ NoM1 s' := by
  unfold step
  dsimp only
  unfold stepTimeout at he
  split at he
  · rename_i r hf
    split at he
    · simp only [bind, Except.bind] at he
      split at he
      · cases he
      · rename_i v hv
        obtain ⟨s1, o1⟩ := v
        simp only [pure, Except.pure, Except.ok.injEq, Prod.mk.injEq] at he
        obtain ⟨rfl, rfl, _⟩ := he
        have hrc := (findReq_mem hf).2
        have hf' : findReq s.reqs r.client = some r := by rw [hrc]; exact hf
        obtain ⟨p1, p2, p3⟩ := ctx0_pre s hs r (findReq_mem hf).1
        exact withReq_stepSim s hs t h hm r hf' _
          (fun c' hc' => reqEvent_tr s.static (need_softDone s) _ _ Ev.timeout p1 p2 p3 trivial hc') _ _ hv
    · simp only [pure, Except.pure, Except.ok.injEq, Prod.mk.injEq] at he
      obtain ⟨rfl, rfl, _⟩ := he
      exact ⟨h.closed _, hm⟩
  · simp only [pure, Except.pure, Except.ok.injEq, Prod.mk.injEq] at he
    obtain ⟨rfl, rfl, _⟩ := he
    exact ⟨h.closed _, hm⟩

theorem run_append (t : T1) : ∀ (a c : List Step1), run t (a ++ c) = run (run t a) c
  | [], c => rfl
  | (raw, outs) :: a, c => by simp only [List.cons_append, run]; exact run_append _ a c

theorem lineTrace_sim : ∀ (lines : List Bytes) (s : State) (t : T1), StateOK s → Sim s t → NoM1 s →
    (∀ ln ∈ lines, ∀ x ∈ ln, x ≠ 10) →
    ∀ s' tr, lineTrace s lines = .ok (s', tr) → NoAnnM1 tr → StateOK s' ∧ Sim s' (run t tr) ∧ NoM1 s'
  | [], s, t, hs, h, hm, _, s', tr, he, _ => by
    simp only [lineTrace, pure, Except.pure, Except.ok.injEq, Prod.mk.injEq] at he
    obtain ⟨rfl, rfl⟩ := he
    exact ⟨hs, h, hm⟩
  | ln :: rest, s, t, hs, h, hm, hl, s', tr, he, hann => by
    unfold lineTrace at he
    split at he
    · exact lineTrace_sim rest s t hs h hm (fun l hl' => hl l (List.mem_cons_of_mem _ hl')) s' tr he hann
    · simp only [bind, Except.bind] at he
      split at he
      · cases he
      · rename_i v1 h1
        obtain ⟨s1, o1⟩ := v1
        dsimp only at he
        split at he
        · cases he
        · rename_i v2 h2
          obtain ⟨s2, tr2⟩ := v2
          simp only [pure, Except.pure, Except.ok.injEq, Prod.mk.injEq] at he
          obtain ⟨rfl, rfl⟩ := he
          have hclean := cstr_clean ln (hl ln (List.mem_cons_self ..))
          obtain ⟨k1, _, _⟩ := stepLine_step s hs (cstr ln) hclean s1 o1 h1
          obtain ⟨sim1, m1⟩ := stepLine_sim s hs t h hm (cstr ln) hclean
            (fun a0 args ha hc => hann (some (cstr ln), o1) (List.mem_cons_self ..) (cstr ln) rfl a0 args ha hc) s1 o1 h1
          exact lineTrace_sim rest s1 _ k1 sim1 m1 (fun l hl' => hl l (List.mem_cons_of_mem _ hl')) s2 tr2 h2
            (fun st hst => hann st (List.mem_cons_of_mem _ hst))

theorem Sim.inbuf {s : State} {t : T1} (h : Sim s t) (buf : Bytes) : Sim { s with inbuf := buf } t :=
  ⟨h.dom, h.rel, h.ok⟩

theorem opTrace_sim (s : State) (t : T1) (hs : StateOK s) (h : Sim s t) (hm : NoM1 s) (op : Op)
    (s' : State) (tr : List Step1) (he : opTrace s op = .ok (s', tr)) (hann : NoAnnM1 tr) :
    StateOK s' ∧ Sim s' (run t tr) ∧ NoM1 s' := by
  cases op with
  | chunk bs =>
    simp only [opTrace] at he
    cases hlt : lineTrace { s with inbuf := [] } (splitLines (s.inbuf ++ bs)).1 with
    | error e => rw [hlt] at he; simp [Except.map] at he
    | ok v =>
      obtain ⟨s1, tr1⟩ := v
      rw [hlt] at he
      simp only [Except.map, Except.ok.injEq, Prod.mk.injEq] at he
      obtain ⟨rfl, rfl⟩ := he
      obtain ⟨k, sm, m⟩ := lineTrace_sim _ _ t (hs.inbuf []) (h.inbuf []) hm (splitLines_nolf _) s1 tr1 hlt hann
      exact ⟨k.inbuf _, sm.inbuf _, m⟩
  | timeout id =>
    simp only [opTrace] at he
    cases ht : stepTimeout s id with
    | error e => rw [ht] at he; simp [Except.map] at he
    | ok v =>
      obtain ⟨s1, o1, f⟩ := v
      rw [ht] at he
      simp only [Except.map, Except.ok.injEq, Prod.mk.injEq] at he
      obtain ⟨rfl, rfl⟩ := he
      obtain ⟨k, _, _⟩ := stepTimeout_step s hs id s1 o1 f ht
      obtain ⟨sm, m⟩ := stepTimeout_sim s hs t h hm id s1 o1 f ht
      exact ⟨k, by simpa [run] using sm, m⟩

/-- **C01, every history**: whatever chunks of bytes arrive and whichever timers fire, the reader of
    the two channels never sees a client-directed line or a query for an id without a live
    instance, a second soft-done or a second verdict for an instance, queries of one instance under
    two serials, or anything naming an instance after its verdict. -/
theorem runTrace_sim : ∀ (ops : List Op) (s : State) (t : T1), StateOK s → Sim s t → NoM1 s →
    ∀ s' trs, runTrace s ops = .ok (s', trs) → NoAnnM1 trs.flatten →
      StateOK s' ∧ Sim s' (run t trs.flatten) ∧ NoM1 s'
  | [], s, t, hs, h, hm, s', trs, he, _ => by
    simp only [runTrace, pure, Except.pure, Except.ok.injEq, Prod.mk.injEq] at he
    obtain ⟨rfl, rfl⟩ := he
    exact ⟨hs, h, hm⟩
  | op :: ops, s, t, hs, h, hm, s', trs, he, hann => by
    simp only [runTrace, bind, Except.bind] at he
    split at he
    · cases he
    · rename_i v1 h1
      obtain ⟨s1, t1⟩ := v1
      dsimp only at he
      split at he
      · cases he
      · rename_i v2 h2
        obtain ⟨s2, ts⟩ := v2
        simp only [pure, Except.pure, Except.ok.injEq, Prod.mk.injEq] at he
        obtain ⟨rfl, rfl⟩ := he
        simp only [List.flatten_cons] at hann ⊢
        obtain ⟨k1, sm1, m1⟩ := opTrace_sim s t hs h hm op s1 t1 h1
          (fun st hst => hann st (List.mem_append.mpr (Or.inl hst)))
        rw [run_append]
        exact runTrace_sim ops s1 _ k1 sm1 m1 s2 ts h2 (fun st hst => hann st (List.mem_append.mpr (Or.inr hst)))

end Iauthd.Proto
