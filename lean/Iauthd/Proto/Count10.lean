import Iauthd.Proto.History01
/-
  C10, the figure: the reader of `Spec01` also counts the live instances (`T1.n`: plus one when an
  announcement opens an instance under an id that had none, minus one when `D`, `T` or a verdict
  closes one).  For every history that count is the size of the request table, which is the
  number every `S iauth` statistics line prints (`stats_in_use`).
-/
set_option linter.unusedSimpArgs false
set_option linter.unusedVariables false
namespace Iauthd.Proto
open Iauthd Iauthd.Proto.Hist Iauthd.Proto.Spec01

/-- the live ids of the reader form a finite set and `n` is its size -/
def Fin1 (t : T1) : Prop :=
  ∃ ids : List Int, ids.Nodup ∧ (∀ id, (t.live id).isSome = true ↔ id ∈ ids) ∧ t.n = ids.length

theorem Fin1.init : Fin1 {} := ⟨[], List.nodup_nil, by intro id; simp, rfl⟩

theorem Fin1.put {t : T1} (h : Fin1 t) (id : Int) (i : Inst1) : Fin1 (t.put id i) := by
  obtain ⟨ids, hn, hm, hc⟩ := h
  by_cases hl : (t.live id).isSome = true
  · refine ⟨ids, hn, ?_, ?_⟩
    · intro j
      simp only [T1.put]
      by_cases hj : j = id
      · subst hj; simp only [if_true, Option.isSome_some, true_iff]; exact (hm j).mp hl
      · simp only [hj, if_false]; exact hm j
    · simp only [T1.put, hl, if_true]; exact hc
  · have hnot : id ∉ ids := fun hin => hl ((hm id).mpr hin)
    refine ⟨id :: ids, List.nodup_cons.mpr ⟨hnot, hn⟩, ?_, ?_⟩
    · intro j
      simp only [T1.put, List.mem_cons]
      by_cases hj : j = id
      · subst hj; simp
      · simp only [hj, if_false, false_or]; exact hm j
    · simp only [T1.put, hl, if_false, Bool.false_eq_true, List.length_cons]; omega

theorem Fin1.close {t : T1} (h : Fin1 t) (id : Int) : Fin1 (t.close id) := by
  obtain ⟨ids, hn, hm, hc⟩ := h
  by_cases hl : (t.live id).isSome = true
  · have hin : id ∈ ids := (hm id).mp hl
    refine ⟨ids.erase id, hn.erase id, ?_, ?_⟩
    · intro j
      simp only [T1.close]
      by_cases hj : j = id
      · subst hj
        simp only [if_true, Option.isSome_none, Bool.false_eq_true, false_iff]
        exact fun hx => (List.Nodup.mem_erase_iff hn).mp hx |>.1 rfl
      · simp only [hj, if_false]
        rw [hm j]
        exact ⟨fun hx => (List.mem_erase_of_ne hj).mpr hx, fun hx => (List.mem_erase_of_ne hj).mp hx⟩
    · simp only [T1.close, hl, if_true]
      rw [List.length_erase_of_mem hin, hc]
  · refine ⟨ids, hn, ?_, ?_⟩
    · intro j
      simp only [T1.close]
      by_cases hj : j = id
      · subst hj
        simp only [if_true, Option.isSome_none, Bool.false_eq_true, false_iff]
        exact fun hx => hl ((hm j).mpr hx)
      · simp only [hj, if_false]; exact hm j
    · simp only [T1.close, hl, if_false, Bool.false_eq_true]; exact hc

theorem Fin1.congr {t t' : T1} (h : Fin1 t) (hl : t'.live = t.live) (hn : t'.n = t.n) : Fin1 t' := by
  obtain ⟨ids, a, b', c⟩ := h
  exact ⟨ids, a, by intro id; rw [hl]; exact b' id, by rw [hn]; exact c⟩

theorem Fin1.outLine {t : T1} (h : Fin1 t) (l : Bytes) : Fin1 (outLine t l) := by
  unfold Spec01.outLine
  split
  · split
    · exact h.congr rfl rfl
    · split
      · exact h.congr rfl rfl
      · exact h.put _ _
  · split
    · exact h.congr rfl rfl
    · split
      · exact h.congr rfl rfl
      · split
        · split
          · exact h.congr rfl rfl
          · exact h.put _ _
        · split
          · exact (h.close _).congr rfl rfl
          · exact h
  · exact h

theorem Fin1.inLine {t : T1} (h : Fin1 t) (raw : Bytes) : Fin1 (inLine t raw) := by
  unfold Spec01.inLine
  dsimp only
  split
  · exact h
  · split
    · split
      · exact h
      · exact h.put _ _
    · split
      · exact h.close _
      · exact h

theorem Fin1.fold {t : T1} (h : Fin1 t) : ∀ (ls : List Bytes), Fin1 (ls.foldl Spec01.outLine t)
  | [] => h
  | l :: ls => by simp only [List.foldl_cons]; exact Fin1.fold (h.outLine l) ls

theorem Fin1.step {t : T1} (h : Fin1 t) (raw : Option Bytes) (outs : List Bytes) : Fin1 (Spec01.step t raw outs) := by
  unfold Spec01.step
  cases raw with
  | none =>
    have h1 : Fin1 { t with closed := fun _ => false } := h.congr rfl rfl
    exact Fin1.fold h1 outs
  | some r =>
    have h1 : Fin1 { (Spec01.inLine t r) with closed := fun _ => false } := (h.inLine r).congr rfl rfl
    exact Fin1.fold h1 outs

theorem Fin1.run : ∀ (tr : List Step1) {t : T1}, Fin1 t → Fin1 (Spec01.run t tr)
  | [], _, h => h
  | (raw, outs) :: rest, _, h => by simp only [Spec01.run]; exact Fin1.run rest (h.step raw outs)

/-- the reader's count is the size of the table -/
theorem count_eq {s : State} {t : T1} (hsim : Sim s t) (hf : Fin1 t) (hi : Inv s) : t.n = s.reqs.length := by
  obtain ⟨lids, hn, hm, hc⟩ := hf
  have hnd : (ids s.reqs).Nodup := hi.sorted.imp (fun h => Int.ne_of_lt h)
  have hmem : ∀ id, id ∈ lids ↔ id ∈ ids s.reqs := by
    intro id
    rw [← hm id, hsim.dom id]
    unfold ids findReq
    constructor
    · intro h
      cases hf' : s.reqs.find? (·.client == id) with
      | none => rw [hf'] at h; simp at h
      | some r =>
        have h1 := List.mem_of_find?_eq_some hf'
        have h2 := List.find?_some hf'
        exact List.mem_map.mpr ⟨r, h1, by simpa using h2⟩
    · intro h
      obtain ⟨r, hr, hrc⟩ := List.mem_map.mp h
      cases hf' : s.reqs.find? (·.client == id) with
      | some q => rfl
      | none =>
        have := List.find?_eq_none.mp hf' r hr
        simp [hrc] at this
  have hp := (List.perm_ext_iff_of_nodup hn hnd).mpr hmem
  rw [hc, hp.length_eq]
  unfold ids; simp

end Iauthd.Proto
