import Iauthd.Proto.RenderInv
import Iauthd.Proto.RenderDec
import Iauthd.Proto.Spec01
/-
  How the reader of the channel parses the two kinds of line that name a client:
  `<letter> <id> <addr> <port> …` written by `iauth_send`, and `X <service> <tag> :…`.
-/
set_option linter.unusedSimpArgs false
set_option linter.unusedVariables false
namespace Iauthd.Proto
open Iauthd Iauthd.Proto.Hist

/-- a client-directed line parses as a message with that letter about that request's id -/
theorem sendReq_parse {letter : UInt8} {r : Req} {rest : Bytes} (hl : letter ∈ clientLetters)
    (hr : HeadOK r) (hrest : RestOK letter rest) :
    ∃ more, parseOut (sendReq r [letter] rest) = .client letter r.client r.textAddr (decNat r.port) more := by
  have hid := strtol_decInt r.client hr.client.1 hr.client.2
  have hlen := headWords_length (letter := letter) hr
  have hW := headWords_word hl hr
  have hC := headWords_clean hl hr
  have hne : headWords letter r ≠ [] := by simp [headWords]
  rw [sendReq_eq]
  cases hrest with
  | bare_d =>
    have e : (joinSp (headWords 100 r) ++ []).take 1023 = joinSp (headWords 100 r) := by
      rw [List.append_nil]; exact List.take_of_length_le (by omega)
    refine ⟨[], ?_⟩
    rw [e, parseOut_client hl hr _ hC [] (by rw [List.append_nil]; exact otokens_joinSp _ 16 hW (by simp [headWords])), hid]
  | bare_D =>
    have e : (joinSp (headWords 68 r) ++ []).take 1023 = joinSp (headWords 68 r) := by
      rw [List.append_nil]; exact List.take_of_length_le (by omega)
    refine ⟨[], ?_⟩
    rw [e, parseOut_client hl hr _ hC [] (by rw [List.append_nil]; exact otokens_joinSp _ 16 hW (by simp [headWords])), hid]
  | one _ x hlet hxne hxs hxc hxl =>
    have e : (joinSp (headWords letter r) ++ 32 :: x).take 1023 = joinSp (headWords letter r) ++ 32 :: x :=
      List.take_of_length_le (by simp only [List.length_append, List.length_cons]; omega)
    have ht := otokens_joinSp_then (headWords letter r) 12 x hne hW
    refine ⟨otokens 12 x, ?_⟩
    rw [e, parseOut_client hl hr _ (Clean.append hC (Clean.cons (by decide) (by decide) hxc)) _ ht, hid]
  | two a c hane has hac hcne hcs hcc hl2 =>
    have e : (joinSp (headWords 82 r) ++ 32 :: (a ++ 32 :: c)).take 1023 = joinSp (headWords 82 r) ++ 32 :: (a ++ 32 :: c) :=
      List.take_of_length_le (by simp only [List.length_append, List.length_cons]; omega)
    have ht := otokens_joinSp_then (headWords 82 r) 12 (a ++ 32 :: c) hne hW
    refine ⟨otokens 12 (a ++ 32 :: c), ?_⟩
    rw [e, parseOut_client hl hr _ (Clean.append hC (Clean.cons (by decide) (by decide)
      (Clean.append hac (Clean.cons (by decide) (by decide) hcc)))) _ ht, hid]
  | trailing _ text hlet htc =>
    rw [take_joinSp_trailing _ _ _ (by omega)]
    have ht := otokens_joinSp_trailing (headWords letter r) 16 (text.take (1023 - ((joinSp (headWords letter r)).length + 2))) hne hW
      (by simp [headWords])
    refine ⟨[text.take (1023 - ((joinSp (headWords letter r)).length + 2))], ?_⟩
    rw [parseOut_client hl hr _ (Clean.append hC (Clean.cons (by decide) (by decide) (Clean.cons (by decide) (by decide) (htc.take _)))) _ ht, hid]

/-- a query line parses as a query about the request whose routing tag it carries -/
theorem xquery_parse {svc payload : Bytes} (r : Req) (hsvc : Word svc) (hsc : Clean svc) (hsl : svc.length ≤ 900)
    (h1 : -2147483648 ≤ r.client) (h2 : r.client ≤ 2147483647) (hs : r.serial < 4294967296) (hp : Clean payload) :
    ∃ p', parseOut (xquery svc (routing r) payload) = .query svc r.client r.serial p' := by
  have htag := routing_word r
  have htc := routing_clean r
  have htl := routing_length r hs
  have htg := tagOf_routing r h1 h2 hs
  rw [xquery_eq]
  have hX : Word ([88] : Bytes) := ⟨by simp, by intro c hc; simp at hc; subst hc; decide, by simp⟩
  have hW : ∀ w ∈ ([[88], svc, routing r] : List Bytes), Word w := by
    intro w hw
    simp only [List.mem_cons, List.not_mem_nil, or_false] at hw
    rcases hw with rfl | rfl | rfl
    · exact hX
    · exact hsvc
    · exact htag
  have hlen : (joinSp [[88], svc, routing r]).length + 2 ≤ 1023 := by
    simp only [joinSp, List.length_append, List.length_cons, List.length_nil]; omega
  rw [take_joinSp_trailing _ _ _ hlen]
  have ht := otokens_joinSp_trailing [[88], svc, routing r] 16
    ((payload.take 1023).take (1023 - ((joinSp [[88], svc, routing r]).length + 2))) (by simp) hW (by simp)
  have hC : Clean (joinSp [[88], svc, routing r] ++ 32 :: 58 ::
      (payload.take 1023).take (1023 - ((joinSp [[88], svc, routing r]).length + 2))) := by
    apply Clean.append
    · apply Clean.joinSp
      intro w hw
      simp only [List.mem_cons, List.not_mem_nil, or_false] at hw
      rcases hw with rfl | rfl | rfl
      · intro c hc; simp at hc; subst hc; decide
      · exact hsc
      · exact htc
    · exact Clean.cons (by decide) (by decide) (Clean.cons (by decide) (by decide) ((hp.take _).take _))
  refine ⟨(payload.take 1023).take (1023 - ((joinSp [[88], svc, routing r]).length + 2)), ?_⟩
  unfold parseOut
  rw [contains_false_of_clean hC]
  simp only [Bool.false_eq_true, if_false, ht, List.cons_append, List.nil_append]
  have hnc : clientLetters.contains (88 : UInt8) = false := by decide
  have h88 : (88 : UInt8) ∉ clientLetters := by decide
  simp [hnc, htg, h88]

end Iauthd.Proto
