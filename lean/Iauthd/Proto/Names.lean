import Iauthd.Proto.Chunk
/-
  C01 (model part, second half): everything the daemon emits in a step is either a global
  message (banner, statistics, configuration listing, operator notice) or is *about a request
  that was in the table when the step began* — a client-directed line carrying that request's
  id, or a query carrying its routing tag.  Together with `Inv` (a verdict removes the request)
  this is "after the verdict … it emits nothing further that names that client".
-/
set_option linter.unusedSimpArgs false
set_option linter.unusedVariables false
namespace Iauthd.Proto
open Iauthd

/-- the two forms of line that name a client -/
inductive About (id : Int) : Bytes → Prop where
  | client (r : Req) (first rest : Bytes) : r.client = id → About id (sendReq r first rest)
  | query (r : Req) (svc payload : Bytes) : r.client = id → About id (xquery svc (routing r) payload)

/-- what a handler run for request `id` may add to the output -/
def Emits (id : Int) (c c' : Ctx) : Prop :=
  ∃ new, c'.out = c.out ++ new ∧ ∀ l ∈ new, About id l

theorem Emits.refl (id : Int) (c : Ctx) : Emits id c c := ⟨[], by simp, by simp⟩

theorem Emits.trans {id : Int} {a b c : Ctx} (h1 : Emits id a b) (h2 : Emits id b c) : Emits id a c := by
  obtain ⟨n1, e1, a1⟩ := h1
  obtain ⟨n2, e2, a2⟩ := h2
  refine ⟨n1 ++ n2, by rw [e2, e1, List.append_assoc], ?_⟩
  intro l hl
  rcases List.mem_append.1 hl with h | h
  · exact a1 l h
  · exact a2 l h

theorem Emits.of_out_eq {id : Int} {c c' : Ctx} (h : c'.out = c.out) : Emits id c c' := ⟨[], by simp [h], by simp⟩

theorem Emits.emit_client {id : Int} (c : Ctx) (first rest : Bytes) (h : c.req.client = id) :
    Emits id c (c.emit (sendReq c.req first rest)) :=
  ⟨[sendReq c.req first rest], rfl, by intro l hl; simp at hl; subst hl; exact About.client _ _ _ h⟩

/-! ### core handlers -/

theorem softDone_emits (c : Ctx) : Emits c.req.client c (softDone c) := by
  unfold softDone
  exact ⟨[_], rfl, by intro l hl; simp at hl; subst hl; exact About.client _ _ _ (by simp [updReq])⟩

theorem gateNested_emits (st : Static) (c c' : Ctx) (h : gateNested st c = .ok c') : Emits c.req.client c c' := by
  unfold gateNested at h
  dsimp only at h
  split at h
  · split at h
    · cases h
    · split at h <;> (simp only [pure, Except.pure, Except.ok.injEq] at h; subst h)
      · exact softDone_emits c
      · exact Emits.refl _ c
  · simp only [pure, Except.pure, Except.ok.injEq] at h; subst h; exact Emits.refl _ c

theorem trustUsername_emits (st : Static) (c c' : Ctx) (name : Bytes) (h : trustUsername st c name = .ok c') :
    Emits c.req.client c c' := by
  unfold trustUsername at h
  simp only [bind, Except.bind, pure, Except.pure] at h
  have h0 := Emits.emit_client c (b "U") (sp ++ name) rfl
  split at h
  · have := gateNested_emits st _ _ h
    simp only [updReq, Ctx.emit] at this
    exact h0.trans this
  · cases h; exact h0

theorem classRules_emits (st : Static) (rules : List Rule) (c c' : Ctx) (rules' : List Rule)
    (h : classRules st rules c = .ok (c', rules')) : Emits c.req.client c c' := by
  induction rules generalizing c c' rules' with
  | nil => simp [classRules, pure, Except.pure] at h; obtain ⟨rfl, _⟩ := h; exact Emits.refl _ c
  | cons rule rest ih =>
    unfold classRules at h
    by_cases hm : ruleMatches c.svcs rule c.req = true
    · simp only [hm, if_true] at h
      by_cases ht : (wantsTrust rule c.req && !(trustName c.req).isEmpty) = true
      · simp only [ht, if_true, bind, Except.bind] at h
        split at h
        · cases h
        · rename_i c1 hx
          simp only [pure, Except.pure, Except.ok.injEq, Prod.mk.injEq] at h
          obtain ⟨rfl, _⟩ := h
          have := trustUsername_emits st _ _ _ hx
          exact this.trans (Emits.of_out_eq (by simp [updReq]))
      · simp only [ht, if_false, bind, Except.bind, pure, Except.pure, Except.ok.injEq, Prod.mk.injEq, Bool.false_eq_true] at h
        obtain ⟨rfl, _⟩ := h
        exact Emits.of_out_eq (by simp [updReq])
    · simp only [hm, if_false, Bool.false_eq_true, bind, Except.bind] at h
      split at h
      · cases h
      · rename_i v hx
        obtain ⟨c1, r1⟩ := v
        simp only [pure, Except.pure, Except.ok.injEq, Prod.mk.injEq] at h
        obtain ⟨rfl, _⟩ := h
        exact ih c c1 r1 hx

theorem classAssign_emits (st : Static) (c c' : Ctx) (h : classAssign st c = .ok c') : Emits c.req.client c c' := by
  unfold classAssign at h
  by_cases he : (!c.req.cls.isEmpty) = true
  · simp only [he, if_true, pure, Except.pure, Except.ok.injEq] at h
    subst h; exact Emits.of_out_eq rfl
  · simp only [he, if_false, Bool.false_eq_true, bind, Except.bind] at h
    split at h
    · cases h
    · rename_i v hx
      obtain ⟨c1, r1⟩ := v
      have := classRules_emits st _ _ _ _ hx
      split at h <;> (simp only [pure, Except.pure, Except.ok.injEq] at h; subst h; exact this.trans (Emits.of_out_eq rfl))

theorem accept_emits (st : Static) (c c' : Ctx) (h : accept st c = .ok c') : Emits c.req.client c c' := by
  unfold accept at h
  by_cases hr : c.req.flags.responded = true
  · simp [hr, bind, Except.bind, throw, throwThe, MonadExceptOf.throw] at h
  · simp only [hr, if_false, Bool.false_eq_true] at h
    have tail : ∀ c1 : Ctx, c1.req.client = c.req.client → Emits c.req.client c c1 →
        ∀ line, (∃ first rest, line = sendReq (updReq c1 fun r => { r with flags := { r.flags with responded := true } }).req first rest) →
        Emits c.req.client c (finishReq ((updReq c1 fun r => { r with flags := { r.flags with responded := true } }).emit line)) := by
      intro c1 hc he line ⟨first, rest, hl⟩
      refine he.trans ⟨[line], by simp [finishReq, Ctx.emit, updReq], ?_⟩
      intro l hl'; simp at hl'; subst hl'; rw [hl]
      exact About.client _ _ _ (by simp [updReq, hc])
    by_cases hcl : st.hasClass = true
    · simp only [hcl, if_true, bind, Except.bind, pure, Except.pure] at h
      split at h
      · cases h
      · rename_i c1 hx
        simp only [Except.ok.injEq] at h
        subst h
        apply tail c1 (classAssign_spec st _ _ hx).1 (classAssign_emits st _ _ hx)
        dsimp only
        split
        · exact ⟨_, _, rfl⟩
        · split
          · exact ⟨_, _, rfl⟩
          · split <;> exact ⟨_, _, rfl⟩
    · simp only [hcl, if_false, bind, Except.bind, pure, Except.pure, Except.ok.injEq, Bool.false_eq_true] at h
      subst h
      apply tail c rfl (Emits.refl _ c)
      dsimp only
      split
      · exact ⟨_, _, rfl⟩
      · split
        · exact ⟨_, _, rfl⟩
        · split <;> exact ⟨_, _, rfl⟩

theorem kill_emits (c c' : Ctx) (reason : Bytes) (h : kill c reason = .ok c') : Emits c.req.client c c' := by
  unfold kill at h
  by_cases hr : c.req.flags.responded = true
  · simp [hr, bind, Except.bind, throw, throwThe, MonadExceptOf.throw] at h
  · simp only [hr, if_false, bind, Except.bind, pure, Except.pure, Except.ok.injEq, Bool.false_eq_true] at h
    subst h
    refine ⟨[sendReq (updReq c fun r => { r with flags := { r.flags with responded := true } }).req (b "k") (b " :" ++ reason)], rfl, ?_⟩
    intro l hl; simp only [List.mem_singleton] at hl; subst hl
    exact About.client _ _ _ (by simp [updReq])

theorem gate_emits (st : Static) (c c' : Ctx) (h : gate st c = .ok c') : Emits c.req.client c c' := by
  unfold gate at h
  dsimp only at h
  by_cases h1 : (c.req.holds == 0 && !c.req.flags.responded && st.need.subset c.req.flags) = true
  · simp only [h1, if_true] at h
    by_cases h2 : (c.req.soft == 0 || c.req.flags.timedOut) = true
    · simp only [h2, if_true] at h; exact accept_emits st _ _ h
    · simp only [h2, if_false, Bool.false_eq_true] at h
      split at h <;> (simp only [pure, Except.pure, Except.ok.injEq] at h; subst h)
      · exact softDone_emits c
      · exact Emits.refl _ c
  · simp only [h1, if_false, Bool.false_eq_true, pure, Except.pure, Except.ok.injEq] at h
    subst h; exact Emits.refl _ c

/-! ### xquery handlers -/

theorem xqQueryLines_about (lim : Limits) (srv : Svc) (cli : XqCli) (r : Req) :
    ∀ l ∈ xqQueryLines lim srv cli r, About r.client l := by
  intro l hl
  unfold xqQueryLines at hl
  dsimp only at hl
  rcases List.mem_append.1 hl with h | h
  · split at h
    · simp only [List.mem_singleton] at h; subst h; exact About.query r _ _ rfl
    · simp at h
  · split at h
    · simp at h
    · split at h
      · simp only [List.mem_singleton] at h; subst h; exact About.query r _ _ rfl
      · split at h
        · simp only [List.mem_singleton] at h; subst h; exact About.query r _ _ rfl
        · simp at h

theorem xqTake_out (c : Ctx) (srv : Svc) (cli : XqCli) (i : Nat) : (xqTake c srv cli i).out = c.out := by
  unfold xqTake; dsimp only; split <;> rfl

theorem xqCheckSlot_emits (p : Bool) (c : Ctx) (cli : XqCli) (i : Nat) :
    Emits c.req.client c (xqCheckSlot p c cli i).1 := by
  unfold xqCheckSlot
  split
  · exact Emits.refl _ c
  · split
    · exact Emits.refl _ c
    · rename_i srv _ _
      refine ⟨xqQueryLines c.lim srv cli c.req, ?_, xqQueryLines_about _ _ _ _⟩
      dsimp only
      rw [xqTake_out]

theorem xqCheckLoop_emits (p : Bool) (is : List Nat) (c : Ctx) (cli : XqCli) :
    Emits c.req.client c (xqCheckLoop p is c cli).1 := by
  induction is generalizing c cli with
  | nil => exact Emits.refl _ c
  | cons i is ih =>
    unfold xqCheckLoop
    have h1 := xqCheckSlot_emits p c cli i
    have hc := (xqCheckSlot_frame p c cli i).1
    have h2 := ih (xqCheckSlot p c cli i).1 (xqCheckSlot p c cli i).2
    rw [hc] at h2
    exact h1.trans h2

theorem xqCheck_emits (p : Bool) (c : Ctx) : Emits c.req.client c (xqCheck p c) := by
  unfold xqCheck
  split
  · exact Emits.refl _ c
  · rename_i cli _
    exact (xqCheckLoop_emits p (List.range c.svcs.length) c cli).trans (Emits.of_out_eq (by simp [updReq]))

theorem xqCheckPassword_emits (c : Ctx) (cli : XqCli) (pw : Bytes) :
    Emits c.req.client c (xqCheckPassword c cli pw) := by
  unfold xqCheckPassword
  split
  · exact Emits.refl _ c
  · dsimp only
    rename_i m cred _
    generalize hc1 : (updReq c fun r => { r with
        holds := holdsAfterPassword r.holds cli.modeBang ((cli.modeBang && !m.clrBang) || m.setBang) r.account.isEmpty,
        xq := some { cli with modeX := (cli.modeX && !m.clrX) || m.setX,
                              modeBang := (cli.modeBang && !m.clrBang) || m.setBang, cred := strncpyN 511 cred } }) = c1
    have hcl : c1.req.client = c.req.client := by subst hc1; rfl
    have hout : c1.out = c.out := by subst hc1; rfl
    have := xqCheck_emits true c1
    rw [hcl] at this
    exact (Emits.of_out_eq hout).trans this

theorem xqMoreLoop_emits (pw : Bytes) (is : List Nat) (c : Ctx) (cli : XqCli) :
    Emits c.req.client c (xqMoreLoop pw is c cli).1 := by
  induction is generalizing c cli with
  | nil => exact Emits.refl _ c
  | cons i is ih =>
    unfold xqMoreLoop
    split
    · exact ih _ _
    · split
      · exact ih _ _
      · split
        · exact ih _ _
        · rename_i srv _ _
          have h1 : Emits c.req.client c (c.emit (xquery srv.name (routing c.req) (b "MORE " ++ pw))) :=
            ⟨[_], rfl, by intro l hl; simp only [List.mem_singleton] at hl; subst hl; exact About.query _ _ _ rfl⟩
          refine h1.trans ?_
          have h2 := ih (c := { (if cli.ref.isEmpty = true then updReq (c.emit (xquery srv.name (routing c.req) (b "MORE " ++ pw))) fun r => { r with soft := r.soft + 1 }
                                  else c.emit (xquery srv.name (routing c.req) (b "MORE " ++ pw))) with
                                svcs := setSvc (if cli.ref.isEmpty = true then updReq (c.emit (xquery srv.name (routing c.req) (b "MORE " ++ pw))) fun r => { r with soft := r.soft + 1 }
                                  else c.emit (xquery srv.name (routing c.req) (b "MORE " ++ pw))).svcs i (some { srv with refs := srv.refs + 1 }) })
                        (cli := { cli with more := maskDel cli.more i, ref := maskAdd cli.ref i })
          have hcl : ({ (if cli.ref.isEmpty = true then updReq (c.emit (xquery srv.name (routing c.req) (b "MORE " ++ pw))) fun r => { r with soft := r.soft + 1 }
                                  else c.emit (xquery srv.name (routing c.req) (b "MORE " ++ pw))) with
                                svcs := setSvc (if cli.ref.isEmpty = true then updReq (c.emit (xquery srv.name (routing c.req) (b "MORE " ++ pw))) fun r => { r with soft := r.soft + 1 }
                                  else c.emit (xquery srv.name (routing c.req) (b "MORE " ++ pw))).svcs i (some { srv with refs := srv.refs + 1 }) } : Ctx).req.client = c.req.client := by
            split <;> simp [updReq, Ctx.emit]
          rw [hcl] at h2
          refine (Emits.of_out_eq ?_).trans h2
          split <;> simp [updReq, Ctx.emit]

theorem xqPassword_emits (c c' : Ctx) (pw : Option Bytes) (h : xqPassword c pw = .ok c') : Emits c.req.client c c' := by
  unfold xqPassword at h
  split at h
  · simp only [pure, Except.pure, Except.ok.injEq] at h; subst h; exact Emits.refl _ c
  · rename_i cli _
    split at h
    · split at h
      · cases h
      · simp only [pure, Except.pure, Except.ok.injEq] at h; subst h; exact xqCheckPassword_emits _ _ _
    · simp only [pure, Except.pure, Except.ok.injEq] at h; subst h
      exact (xqMoreLoop_emits (pw.getD (b "(null)")) (List.range c.svcs.length) c cli).trans (Emits.of_out_eq (by simp [updReq]))

theorem xqFinishPre_out (i : Nat) (c : Ctx) (cli : XqCli) (srv : Svc) : (xqFinishPre i c cli srv).out = c.out := by
  unfold xqFinishPre
  dsimp only
  have hu : ∀ c0 : Ctx, (unrefSvc c0 i).out = c0.out := by
    intro c0; unfold unrefSvc; split <;> (try split) <;> rfl
  split <;> split <;> simp [updReq, hu]

theorem xqFinish_emits (st : Static) (i : Nat) (c c' : Ctx) (cli : XqCli) (srv : Svc)
    (h : xqFinish st i c cli srv = .ok c') : Emits c.req.client c c' := by
  rw [xqFinish_eq] at h
  have h1 := gate_emits st _ _ h
  rw [(xqFinishPre_frame i c cli srv).1] at h1
  exact (Emits.of_out_eq (xqFinishPre_out i c cli srv)).trans h1

theorem emits_opt_client {id : Int} (c c1 : Ctx) (cond : Bool) (first rest : Bytes)
    (ho : c1.out = c.out) (hc : c1.req.client = id) :
    Emits id c (if cond then c1.emit (sendReq c1.req first rest) else c1) := by
  cases cond
  · exact Emits.of_out_eq ho
  · refine ⟨[sendReq c1.req first rest], by simp [Ctx.emit, ho], ?_⟩
    intro l hl; simp only [List.mem_singleton] at hl; subst hl; exact About.client _ _ _ hc

theorem xqVouch_emits (c : Ctx) (cli : XqCli) (stamp : Bytes) : Emits c.req.client c (xqVouch c cli stamp) := by
  unfold xqVouch
  dsimp only
  apply emits_opt_client
  · split <;> rfl
  · split <;> rfl

theorem xqReply_emits (st : Static) (c c' : Ctx) (svc : Bytes) (reply : Option Bytes)
    (h : xqReply st c svc reply = .ok c') : Emits c.req.client c c' := by
  have emit1 : ∀ (first rest : Bytes), Emits c.req.client c (c.emit (sendReq c.req first rest)) :=
    fun first rest => Emits.emit_client c first rest rfl
  unfold xqReply at h
  split at h
  · simp only [pure, Except.pure, Except.ok.injEq] at h; subst h; exact Emits.refl _ c
  · split at h
    · simp only [pure, Except.pure, Except.ok.injEq] at h; subst h; exact Emits.refl _ c
    · split at h
      · dsimp only at h
        split at h
        · exact (emit1 _ _).trans (xqFinish_emits _ _ _ _ _ _ h)
        · exact xqFinish_emits _ _ _ _ _ _ h
      · split at h
        · exact xqFinish_emits _ _ _ _ _ _ h
        · dsimp only at h
          split at h
          · have h2 := xqFinish_emits _ _ _ _ _ _ h
            rw [(xqVouch_frame _ _ _).1] at h2
            exact (xqVouch_emits _ _ _).trans h2
          · exact xqFinish_emits _ _ _ _ _ _ h
        · split at h
          · have := kill_emits _ _ _ h
            exact (Emits.of_out_eq (c' := { c with svcs := _ }) rfl).trans this
          · split at h
            · exact (emit1 _ _).trans (xqFinish_emits _ _ _ _ _ _ h)
            · split at h
              · exact (emit1 _ _).trans (xqFinish_emits _ _ _ _ _ _ h)
              · simp only [pure, Except.pure, Except.ok.injEq] at h; subst h; exact Emits.refl _ c

/-! ### server events -/

theorem fieldChange_emits (st : Static) (p : Bool) (c : Ctx) : Emits c.req.client c (fieldChange st p c) := by
  unfold fieldChange; split
  · exact xqCheck_emits p c
  · exact Emits.refl _ c

theorem upd_then {id : Int} {c c1 c' : Ctx} (ho : c1.out = c.out) (hc : c1.req.client = id) (hid : c.req.client = id)
    (h : Emits c1.req.client c1 c') : Emits id c c' := by
  rw [hc] at h
  exact (Emits.of_out_eq ho).trans h

theorem reqEvent_emits (st : Static) (c c' : Ctx) (ev : Ev) (h : reqEvent st c ev = .ok c') : Emits c.req.client c c' := by
  have fc_gate : ∀ c1 : Ctx, c1.out = c.out → c1.req.client = c.req.client →
      gate st (fieldChange st false c1) = .ok c' → Emits c.req.client c c' := by
    intro c1 ho hc hg
    have h1 := fieldChange_emits st false c1
    have h2 := gate_emits st _ _ hg
    rw [(fieldChange_frame st false c1).1] at h2
    rw [hc] at h1 h2
    exact (Emits.of_out_eq ho).trans (h1.trans h2)
  cases ev with
  | hostname hn =>
    simp only [reqEvent] at h
    split at h
    · simp only [pure, Except.pure, Except.ok.injEq] at h; subst h; exact Emits.refl _ c
    · split at h
      · cases h
      · exact fc_gate (updReq c _) rfl rfl h
  | noHostname => simp only [reqEvent] at h; exact fc_gate (updReq c _) rfl rfl h
  | password p =>
    simp only [reqEvent, bind, Except.bind] at h
    generalize hc0 : (updReq c fun r => { r with flags := { r.flags with gotPass := true } }) = c0 at h
    have ho0 : c0.out = c.out := by subst hc0; rfl
    have hcl0 : c0.req.client = c.req.client := by subst hc0; rfl
    by_cases hx : st.hasXq = true
    · simp only [hx, if_true] at h
      split at h
      · cases h
      · rename_i c1 hc1
        have h1 := xqPassword_emits _ _ _ hc1
        have hcl := (xqPassword_frame _ _ _ hc1).1
        have h2 := gate_emits st _ _ h
        rw [hcl, hcl0] at h2
        rw [hcl0] at h1
        exact (Emits.of_out_eq ho0).trans (h1.trans h2)
    · simp only [hx, if_false, Bool.false_eq_true, pure, Except.pure] at h
      have h2 := gate_emits st _ _ h
      rw [hcl0] at h2
      exact (Emits.of_out_eq ho0).trans h2
  | userInfo u r =>
    simp only [reqEvent] at h
    exact fc_gate (updReq c _) rfl rfl h
  | ident i =>
    simp only [reqEvent] at h
    refine fc_gate (updReq c _) rfl ?_ h
    simp only [updReq]
    split
    · rfl
    · split <;> rfl
  | nick n =>
    simp only [reqEvent] at h
    split at h
    · cases h
    · exact fc_gate (updReq c _) rfl rfl h
  | hurry => simp only [reqEvent] at h; exact fc_gate (updReq c _) rfl rfl h
  | timeout =>
    simp only [reqEvent] at h
    generalize hc0 : (updReq c fun r => { r with soft := 0, timer := .fired, flags := { r.flags with timedOut := true } }) = c0 at h
    have ho0 : c0.out = c.out := by subst hc0; rfl
    have hcl0 : c0.req.client = c.req.client := by subst hc0; rfl
    have h2 := gate_emits st _ _ h
    rw [hcl0] at h2
    exact (Emits.of_out_eq ho0).trans h2

/-! ### whole steps -/

/-- messages that name no client: banner, listings, statistics, operator notices -/
def Global (l : Bytes) : Prop := ∃ t, l = sendRaw t

/-- every line of a step is global or about a request stored when the step began -/
def NamesLive (s : State) (m : M (State × List Bytes)) : Prop :=
  ∀ s' out, m = .ok (s', out) → ∀ l ∈ out, Global l ∨ ∃ r ∈ s.reqs, About r.client l

theorem withReq_about (s : State) (r : Req) (f : Ctx → M Ctx)
    (hf : ∀ c', f (ctx0 s r) = .ok c' → Emits r.client (ctx0 s r) c')
    (s' : State) (out : List Bytes) (h : withReq s r f = .ok (s', out)) : ∀ l ∈ out, About r.client l := by
  intro l hl
  rw [withReq_eq] at h
  cases hx : f (ctx0 s r) with
  | error e => simp [hx, Except.map] at h
  | ok c =>
    simp only [hx, Except.map, Except.ok.injEq, Prod.mk.injEq] at h
    obtain ⟨_, rfl⟩ := h
    obtain ⟨new, hn, ha⟩ := hf c hx
    have : c.out = new := by simpa [ctx0] using hn
    rw [this] at hl
    exact ha l hl

theorem withReq_names (s : State) (r : Req) (hr : r ∈ s.reqs) (f : Ctx → M Ctx)
    (hf : ∀ c', f (ctx0 s r) = .ok c' → Emits r.client (ctx0 s r) c') : NamesLive s (withReq s r f) :=
  fun s' out h l hl => Or.inr ⟨r, hr, withReq_about s r f hf s' out h l hl⟩

theorem pure_names (s : State) (o : List Bytes) (ho : ∀ l ∈ o, Global l) : NamesLive s (pure (s, o)) := by
  intro s' out h l hl
  simp only [pure, Except.pure, Except.ok.injEq, Prod.mk.injEq] at h
  obtain ⟨_, rfl⟩ := h
  exact Or.inl (ho l hl)

def AllGlobal (ls : List Bytes) : Prop := ∀ l ∈ ls, Global l

theorem AllGlobal.nil : AllGlobal [] := by intro l hl; simp at hl
theorem AllGlobal.single {x : Bytes} (h : Global x) : AllGlobal [x] := by
  intro l hl; simp only [List.mem_singleton] at hl; rw [hl]; exact h
theorem AllGlobal.append {a b' : List Bytes} (ha : AllGlobal a) (hb : AllGlobal b') : AllGlobal (a ++ b') := by
  intro l hl; rcases List.mem_append.1 hl with h | h
  · exact ha l h
  · exact hb l h
theorem AllGlobal.ite {c : Prop} [Decidable c] {a b' : List Bytes} (ha : AllGlobal a) (hb : AllGlobal b') :
    AllGlobal (if c then a else b') := by split <;> assumption
theorem AllGlobal.map {α : Type} (f : α → Bytes) (xs : List α) (h : ∀ x, Global (f x)) : AllGlobal (xs.map f) := by
  intro l hl; obtain ⟨x, _, rfl⟩ := List.mem_map.1 hl; exact h x
theorem AllGlobal.filterMapOpt {α : Type} (f : α → Bytes) (xs : List (Option α)) (h : ∀ x, Global (f x)) :
    AllGlobal (xs.filterMap fun o => o.map f) := by
  intro l hl
  obtain ⟨o, _, ho⟩ := List.mem_filterMap.1 hl
  cases o with
  | none => simp at ho
  | some x => simp only [Option.map_some, Option.some.injEq] at ho; rw [← ho]; exact h x

theorem global_raw (t : Bytes) : Global (sendRaw t) := ⟨t, rfl⟩
theorem global_cfg (m t : Bytes) : Global (reportConfig m t) := ⟨_, rfl⟩
theorem global_stat (m t : Bytes) : Global (reportStats m t) := ⟨_, rfl⟩

theorem collectConfig_global (s : State) : AllGlobal (collectConfig s) := by
  unfold collectConfig
  refine AllGlobal.append (AllGlobal.append (AllGlobal.single (global_raw _)) (AllGlobal.ite (AllGlobal.single (global_cfg _ _)) AllGlobal.nil))
    (AllGlobal.ite ?_ AllGlobal.nil)
  exact AllGlobal.filterMapOpt _ _ (fun _ => global_cfg _ _)

theorem collectStats_global (s : State) (last : Bool) : AllGlobal (collectStats s last) := by
  unfold collectStats
  refine AllGlobal.append (AllGlobal.append (AllGlobal.append (AllGlobal.append ?_ ?_) ?_) ?_) ?_
  · exact AllGlobal.ite AllGlobal.nil (AllGlobal.single (global_raw _))
  · exact AllGlobal.single (global_raw _)
  · refine AllGlobal.ite (AllGlobal.append ?_ (AllGlobal.single (global_stat _ _))) AllGlobal.nil
    refine AllGlobal.map _ _ (fun r => ?_)
    split <;> exact global_stat _ _
  · refine AllGlobal.ite (AllGlobal.append (AllGlobal.append (AllGlobal.single (global_stat _ _)) ?_) (AllGlobal.single (global_stat _ _))) AllGlobal.nil
    exact AllGlobal.filterMapOpt _ _ (fun _ => global_stat _ _)
  · exact AllGlobal.ite (AllGlobal.single (global_raw _)) AllGlobal.nil

/-- **C01 (model part): nothing names a client that is not in the table.** -/
theorem stepLine_names (s : State) (hi : Inv s) (raw : Bytes) : NamesLive s (stepLine s raw) := by
  have hglob : ∀ t, Global (sendOpers t) := fun t => ⟨_, rfl⟩
  unfold stepLine
  dsimp only
  split
  · exact pure_names s _ (by simp)
  · have hd : ∀ cmd req?, (∀ r, req? = some r → r ∈ s.reqs) → NamesLive s (dispatch s (tokenize raw) cmd req?) := by
      intro cmd req? hreq
      apply dispatch_ind
      · intro o ho; exact pure_names s o (fun l hl => by obtain ⟨t, ht⟩ := ho l hl; rw [ht]; exact hglob t)
      · intro id a p s' out h l hl
        have := (newClient_inv hi h).2.2.2
        rw [this] at hl; simp at hl
      · intro c
        unfold dropReq
        cases hq : req? with
        | none => exact pure_names s _ (by intro l hl; simp only [List.mem_singleton] at hl; rw [hl]; exact hglob _)
        | some r =>
          exact withReq_names s r (hreq r hq) _ (fun c' hc => by
            simp only [pure, Except.pure, Except.ok.injEq] at hc; subst hc; exact Emits.of_out_eq rfl)
      · intro c ev _
        unfold onReq
        cases hq : req? with
        | none => exact pure_names s _ (by intro l hl; simp only [List.mem_singleton] at hl; rw [hl]; exact hglob _)
        | some r => exact withReq_names s r (hreq r hq) _ (fun c' hc => reqEvent_emits _ _ _ _ hc)
      · intro r u re hq
        exact withReq_names s r (hreq r hq) _ (fun c' hc => reqEvent_emits _ _ _ _ hc)
      · intro isX
        unfold onReply
        split
        · exact pure_names s _ (by simp)
        · split
          · exact pure_names s _ (by simp)
          · rename_i r hv
            exact withReq_names s r (validateRequest_mem hv) _ (fun c' hc => xqReply_emits _ _ _ _ _ hc)
      · unfold onInfo
        split
        · exact pure_names s _ (by simp)
        · dsimp only
          split
          · exact pure_names s _ (collectConfig_global s)
          · split
            · exact pure_names s _ (collectStats_global s false)
            · split
              · exact pure_names s _ (collectStats_global s true)
              · exact pure_names s _ (by simp)
    split
    · split
      · exact pure_names s _ (by simp)
      · exact hd _ _ (fun r hr => by cases hr)
    · split
      · exact pure_names s _ (by simp)
      · exact hd _ _ (fun r hr => (findReq_mem hr).1)

end Iauthd.Proto
