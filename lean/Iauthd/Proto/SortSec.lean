import Iauthd.Proto.Reload17
import Iauthd.Set.Comparators
/-
  The section a module is handed is in the order of the configuration set (`conf_object_cmp`:
  names ignoring case, then node type), one node per key.  Proved here for the model's
  `sortSection` (what the parser's `set_find` / `set_insert` leave of a file's entries), so that the
  hypotheses of the C17 theorems about sections (`SecDistinct`) hold for every file:

  * `insertCNode_sorted`, `sortSection_sorted`   the result is strictly sorted by `cnodeLt`
  * `sortSection_distinct`                        hence no two string entries share a name
  * `sortSection_nonul`                           names are those of the file's entries
-/
namespace Iauthd.Proto
open Iauthd Iauthd.Set

theorem cmp_zero_symm {a c : Bytes} (h : Bytes.strcasecmp a c = 0) : Bytes.strcasecmp c a = 0 := by
  have h1 := strcasecmp_antisymm a c
  have h2 := strcasecmp_antisymm c a
  omega

/-- `cnodeLt` only reads the name and the node type -/
theorem cnodeLt_congr {a a' c : CNode} (hn : a'.name = a.name) (ht : a'.isString = a.isString) :
    cnodeLt c a' = cnodeLt c a := by
  unfold cnodeLt; rw [hn, ht]

theorem cnodeLt_trans {a m c : CNode} (ha : NoNul a.name) (hm : NoNul m.name) (hc : NoNul c.name)
    (h1 : cnodeLt a m = true) (h2 : cnodeLt m c = true) : cnodeLt a c = true := by
  unfold cnodeLt at h1 h2 ⊢
  simp only [Bool.or_eq_true, decide_eq_true_eq, Bool.and_eq_true, beq_iff_eq, Bool.not_eq_true'] at h1 h2 ⊢
  have le1 : Bytes.strcasecmp a.name m.name ≤ 0 := by rcases h1 with h | h <;> omega
  have le2 : Bytes.strcasecmp m.name c.name ≤ 0 := by rcases h2 with h | h <;> omega
  have le3 := strcasecmp_trans a.name m.name c.name ha hm le1 le2
  by_cases hs : Bytes.strcasecmp a.name m.name < 0
  · -- a < m ≤ c: were a and c equal, m ≤ c ≤ a would give m ≤ a
    left
    by_cases h0 : Bytes.strcasecmp a.name c.name = 0
    · have hca := cmp_zero_symm h0
      have hma := strcasecmp_trans m.name c.name a.name hm hc le2 (by omega)
      have := (strcasecmp_antisymm a.name m.name).mp hs
      omega
    · omega
  · have hz : Bytes.strcasecmp a.name m.name = 0 := by omega
    by_cases hs2 : Bytes.strcasecmp m.name c.name < 0
    · -- a = m < c: were a and c equal, c ≤ a ≤ m would give c ≤ m
      left
      by_cases h0 : Bytes.strcasecmp a.name c.name = 0
      · have hca := cmp_zero_symm h0
        have hcm := strcasecmp_trans c.name a.name m.name hc ha (by omega) le1
        have := (strcasecmp_antisymm m.name c.name).mp hs2
        omega
      · omega
    · have hz2 : Bytes.strcasecmp m.name c.name = 0 := by omega
      rcases h1 with h | h
      · omega
      · rcases h2 with h' | h'
        · omega
        · -- m is a string and is not a string
          have := h'.1.2
          rw [h.2] at this
          cases this

/-- two keys are equal, or one sorts before the other -/
theorem cnodeLt_total {n m : CNode} (he : cnodeEqKey n m = false) (hl : cnodeLt n m = false) : cnodeLt m n = true := by
  unfold cnodeEqKey at he
  unfold cnodeLt at hl ⊢
  simp only [Bool.or_eq_false_iff, decide_eq_false_iff_not, Bool.and_eq_false_iff, beq_eq_false_iff_ne, ne_eq,
    Bool.not_eq_false', Bool.or_eq_true, decide_eq_true_eq, Bool.and_eq_true, beq_iff_eq, Bool.not_eq_true',
    Int.not_lt] at he hl ⊢
  by_cases hpos : Bytes.strcasecmp n.name m.name > 0
  · left; exact (strcasecmp_antisymm m.name n.name).mpr hpos
  · have hz : Bytes.strcasecmp n.name m.name = 0 := by omega
    right
    refine ⟨⟨cmp_zero_symm hz, ?_⟩, ?_⟩
    · cases hn : n.isString <;> cases hmm : m.isString <;> simp_all
    · cases hn : n.isString <;> cases hmm : m.isString <;> simp_all

/-- strictly sorted in the order of the configuration set -/
def SecSorted (l : List CNode) : Prop := l.Pairwise fun a c => cnodeLt a c = true

theorem mem_insertCNode_key {n y : CNode} : ∀ {l : List CNode}, y ∈ insertCNode n l →
    y ∈ l ∨ (y.isString = n.isString ∧ (y.name = n.name ∨ ∃ x ∈ l, cnodeEqKey n x = true ∧ y.name = x.name))
  | [], h => by simp [insertCNode] at h; subst h; exact Or.inr ⟨rfl, Or.inl rfl⟩
  | m :: ms, h => by
    unfold insertCNode at h
    split at h
    · rename_i hk
      rcases List.mem_cons.mp h with rfl | h'
      · exact Or.inr ⟨rfl, Or.inr ⟨m, List.mem_cons_self .., hk, rfl⟩⟩
      · exact Or.inl (List.mem_cons_of_mem _ h')
    · split at h
      · rcases List.mem_cons.mp h with rfl | h'
        · exact Or.inr ⟨rfl, Or.inl rfl⟩
        · exact Or.inl h'
      · rcases List.mem_cons.mp h with rfl | h'
        · exact Or.inl (List.mem_cons_self ..)
        · rcases mem_insertCNode_key h' with h1 | ⟨h1, h2⟩
          · exact Or.inl (List.mem_cons_of_mem _ h1)
          · refine Or.inr ⟨h1, ?_⟩
            rcases h2 with h2 | ⟨x, hx, hk, hn⟩
            · exact Or.inl h2
            · exact Or.inr ⟨x, List.mem_cons_of_mem _ hx, hk, hn⟩

theorem cnodeEqKey_lt {n x m : CNode} (hk : cnodeEqKey n x = true) : cnodeLt m x = cnodeLt m { n with name := x.name } := by
  unfold cnodeEqKey at hk
  simp only [Bool.and_eq_true, beq_iff_eq] at hk
  unfold cnodeLt
  simp only [hk.2]

theorem insertCNode_sorted {n : CNode} (hn : NoNul n.name) : ∀ {l : List CNode}, (∀ x ∈ l, NoNul x.name) → SecSorted l →
    SecSorted (insertCNode n l)
  | [], _, _ => by simp [insertCNode, SecSorted]
  | m :: ms, hnn, hs => by
    unfold SecSorted at hs ⊢
    rw [List.pairwise_cons] at hs
    obtain ⟨hm, hms⟩ := hs
    unfold insertCNode
    split
    · -- same key: the live node keeps its place (and name)
      rename_i hk
      rw [List.pairwise_cons]
      refine ⟨?_, hms⟩
      intro x hx
      have := hm x hx
      unfold cnodeEqKey at hk
      simp only [Bool.and_eq_true, beq_iff_eq] at hk
      unfold cnodeLt at this ⊢
      simpa [hk.2] using this
    · rename_i hk
      split
      · rename_i hl
        rw [List.pairwise_cons]
        refine ⟨?_, List.pairwise_cons.mpr ⟨hm, hms⟩⟩
        intro x hx
        rcases List.mem_cons.mp hx with rfl | hx'
        · exact hl
        · exact cnodeLt_trans hn (hnn m (List.mem_cons_self ..)) (hnn x (List.mem_cons_of_mem _ hx')) hl (hm x hx')
      · rename_i hl
        rw [List.pairwise_cons]
        refine ⟨?_, insertCNode_sorted hn (fun x hx => hnn x (List.mem_cons_of_mem _ hx)) hms⟩
        intro y hy
        have hmn : cnodeLt m n = true := cnodeLt_total (by simpa using hk) (by simpa using hl)
        rcases mem_insertCNode_key hy with h1 | ⟨ht, h2⟩
        · exact hm y h1
        · rcases h2 with h2 | ⟨x, hx, hkx, hnx⟩
          · rw [cnodeLt_congr h2 ht]; exact hmn
          · have := hm x hx
            unfold cnodeEqKey at hkx
            simp only [Bool.and_eq_true, beq_iff_eq] at hkx
            rw [cnodeLt_congr (a := x) hnx (ht.trans hkx.2)]; exact this

theorem insertCNode_nonul {n : CNode} (hn : NoNul n.name) {l : List CNode} (hl : ∀ x ∈ l, NoNul x.name) :
    ∀ y ∈ insertCNode n l, NoNul y.name := by
  intro y hy
  rcases mem_insertCNode_key hy with h | ⟨_, h | ⟨x, hx, _, hnx⟩⟩
  · exact hl y h
  · rw [h]; exact hn
  · rw [hnx]; exact hl x hx

theorem sortSection_sorted_nonul (l : List CNode) (hl : ∀ x ∈ l, NoNul x.name) :
    SecSorted (sortSection l) ∧ ∀ y ∈ sortSection l, NoNul y.name := by
  unfold sortSection
  suffices key : ∀ (l acc : List CNode), (∀ x ∈ l, NoNul x.name) → (SecSorted acc ∧ ∀ y ∈ acc, NoNul y.name) →
      (SecSorted (l.foldl (fun acc n => insertCNode n acc) acc) ∧ ∀ y ∈ l.foldl (fun acc n => insertCNode n acc) acc, NoNul y.name) from
    key l [] hl ⟨List.Pairwise.nil, fun y hy => by cases hy⟩
  intro l
  induction l with
  | nil => intro acc _ h; exact h
  | cons n ns ih =>
    intro acc hl h
    simp only [List.foldl_cons]
    have hn := hl n (List.mem_cons_self ..)
    exact ih _ (fun x hx => hl x (List.mem_cons_of_mem _ hx))
      ⟨insertCNode_sorted hn h.2 h.1, insertCNode_nonul hn h.2⟩

/-- a sorted section has one string entry per name -/
theorem SecSorted.distinct {l : List CNode} (h : SecSorted l) : SecDistinct l := by
  unfold SecSorted at h
  unfold SecDistinct
  refine h.imp ?_
  intro a c hlt hsa hsc hname
  unfold cnodeLt at hlt
  rw [hname, strcasecmp_refl] at hlt
  simp [hsa, hsc] at hlt

/-- **what a module is handed is a good section, for every file** whose names are C strings -/
theorem sortSection_distinct (l : List CNode) (hl : ∀ x ∈ l, NoNul x.name) :
    SecDistinct (sortSection l) ∧ ∀ y ∈ sortSection l, NoNul y.name :=
  ⟨(sortSection_sorted_nonul l hl).1.distinct, (sortSection_sorted_nonul l hl).2⟩

end Iauthd.Proto
