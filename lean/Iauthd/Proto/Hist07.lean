import Iauthd.Proto.Keep07
import Iauthd.Proto.Sim01
/-
  C07 for every history.  A history is a list of client events (a line of a client, a service's
  reply routed to the live instance of a client, the expiry of a client's timer).  Running the
  whole history and running only the events of one client `cl` give the same conversation about
  `cl`: the same lines in the same order, except that a query carries the routing tag of its own
  run (same id, the serial of that run); and what the other clients' events write is not about
  `cl`.
-/
set_option linter.unusedSimpArgs false
set_option linter.unusedVariables false
namespace Iauthd.Proto
open Iauthd

/-! ### what a line of a live client does -/

inductive Act where
  | skip | notice | drop
  | ev (e : Ev)

/-- the command of a line whose request was found (`C`, `X`, `x`, `?` excluded) -/
def actOf (l : Line) (cmd : UInt8) : Act :=
  if cmd == 68 then .drop
  else if cmd == 78 then (if l.argv.length < 2 then .skip else .ev (.hostname (some ((arg l 1).getD []))))
  else if cmd == 100 then .ev .noHostname
  else if cmd == 80 then (if l.argv.length < 2 then .skip else .ev (.password (some ((arg l 1).getD []))))
  else if cmd == 85 then
    (if l.argv.length < 3 then .notice else .ev (.userInfo ((arg l 1).getD []) ((arg l 2).getD [])))
  else if cmd == 117 then .ev (.ident (arg l 1))
  else if cmd == 110 then (if l.argv.length < 2 then .skip else .ev (.nick (some ((arg l 1).getD []))))
  else if cmd == 72 then .ev .hurry
  else if cmd == 84 then .drop
  else .skip

def runAct (s : State) (r : Req) : Act → M (State × List Bytes)
  | .skip => pure (s, [])
  | .notice => pure (s, [sendOpers (b "ircd sent garbage: <id> U without realname")])
  | .drop => withReq s r fun ctx => pure (finishReq ctx)
  | .ev e => withReq s r fun ctx => reqEvent s.static ctx e

theorem dispatch_some (s : State) (l : Line) (cmd : UInt8) (r : Req)
    (h1 : cmd ≠ 67) (h2 : cmd ≠ 88) (h3 : cmd ≠ 120) (h4 : cmd ≠ 63) :
    dispatch s l cmd (some r) = runAct s r (actOf l cmd) := by
  have e1 : (cmd == 67) = false := by simpa using h1
  have e2 : (cmd == 88) = false := by simpa using h2
  have e3 : (cmd == 120) = false := by simpa using h3
  have e4 : (cmd == 63) = false := by simpa using h4
  have f : ∀ k : UInt8, ¬ (cmd == k) = true → (cmd == k) = false := fun k h => by simpa using h
  unfold dispatch actOf
  simp only [e1, e2, e3, e4, Bool.false_eq_true, if_false, Option.isSome_some, Bool.true_and, decide_eq_true_eq, if_true]
  by_cases c2 : (cmd == 68) = true
  · simp only [c2, if_true, dropReq, runAct]
  simp only [f _ c2, Bool.false_eq_true, if_false]
  by_cases c3 : (cmd == 78) = true
  · simp only [c3, if_true]
    split <;> simp only [runAct, onReq]
  simp only [f _ c3, Bool.false_eq_true, if_false]
  by_cases c4 : (cmd == 100) = true
  · simp only [c4, if_true, runAct, onReq]
  simp only [f _ c4, Bool.false_eq_true, if_false]
  by_cases c5 : (cmd == 80) = true
  · simp only [c5, if_true]
    split <;> simp only [runAct, onReq]
  simp only [f _ c5, Bool.false_eq_true, if_false]
  by_cases c6 : (cmd == 85) = true
  · simp only [c6, if_true]
    split <;> simp only [runAct]
  simp only [f _ c6, Bool.false_eq_true, if_false]
  by_cases c7 : (cmd == 117) = true
  · simp only [c7, if_true, runAct, onReq]
  simp only [f _ c7, Bool.false_eq_true, if_false]
  by_cases c8 : (cmd == 110) = true
  · simp only [c8, if_true]
    split <;> simp only [runAct, onReq]
  simp only [f _ c8, Bool.false_eq_true, if_false]
  by_cases c9 : (cmd == 72) = true
  · simp only [c9, if_true, runAct, onReq]
  simp only [f _ c9, Bool.false_eq_true, if_false]
  by_cases c10 : (cmd == 84) = true
  · simp only [c10, if_true, dropReq, runAct]
  simp only [f _ c10, Bool.false_eq_true, if_false, runAct]

/-- a line that belongs to a client: not the server's id, not a reply, a notice or an info request -/
def ClientLine (raw : Bytes) : Prop :=
  (tokenize raw).id ≠ -1 ∧ ∀ a0 args, (tokenize raw).argv = a0 :: args →
    a0.getD 0 0 ≠ 88 ∧ a0.getD 0 0 ≠ 120 ∧ a0.getD 0 0 ≠ 63

/-- `stepLine` on a client's line, spelled out -/
def clientLine (s : State) (l : Line) : M (State × List Bytes) :=
  match l.argv with
  | [] => pure (s, [])
  | a0 :: _ =>
    if a0.getD 0 0 == 67 then
      (if l.argv.length < 5 then pure (s, []) else newClient s l.id ((arg l 1).getD []) ((arg l 2).getD []))
    else match findReq s.reqs l.id with
      | none => pure (s, [])
      | some r => runAct s r (actOf l (a0.getD 0 0))

theorem stepLine_client (s : State) (raw : Bytes) (h : ClientLine raw) : stepLine s raw = clientLine s (tokenize raw) := by
  unfold stepLine clientLine
  dsimp only
  cases ha : (tokenize raw).argv with
  | nil => rfl
  | cons a0 args =>
    dsimp only
    obtain ⟨hid, hc⟩ := h
    obtain ⟨c1, c2, c3⟩ := hc a0 args ha
    have e0 : ((tokenize raw).id == -1) = false := by simpa using hid
    clear hc
    generalize a0.getD 0 0 = cmd at *
    by_cases c67 : (cmd == 67) = true
    · simp only [c67, e0, Bool.false_or, if_true, Bool.or_true, Option.isNone_none, Bool.and_true,
        bne_iff_ne, ne_eq, not_true_eq_false, Bool.and_false, Bool.false_eq_true, if_false]
      have : cmd = 67 := by simpa using c67
      subst this
      unfold dispatch
      simp [ha]
    · have c67' : (cmd == 67) = false := by simpa using c67
      simp only [c67', e0, Bool.or_false, Bool.false_eq_true, if_false]
      cases hf : findReq s.reqs (tokenize raw).id with
      | none =>
        have : ((tokenize raw).id != -1 && cmd != 67 && (none : Option Req).isNone) = true := by
          have : cmd ≠ 67 := by simpa using c67
          simp [hid, this]
        simp only [this, if_true]
      | some r =>
        have : ((tokenize raw).id != -1 && cmd != 67 && (some r).isNone) = false := by simp
        simp only [this, Bool.false_eq_true, if_false]
        exact dispatch_some s _ _ r (by simpa using c67) c1 c2 c3

/-! ### the two runs -/

/-- the whole history's state `s` and the state `s'` of the run that only saw client `cl` -/
structure SR (cl : Int) (s s' : State) : Prop where
  reqs : (findReq s.reqs cl = none ∧ findReq s'.reqs cl = none) ∨
    ∃ r r', findReq s.reqs cl = some r ∧ findReq s'.reqs cl = some r' ∧ r' = { r with serial := r'.serial }
  svcs : eraseS s'.svcs = eraseS s.svcs
  rules : eraseR s'.rules = eraseR s.rules
  lim : s'.lim = s.lim
  xq : s'.hasXq = s.hasXq
  cls : s'.hasClass = s.hasClass
  tmo : s'.timeout = s.timeout
  conf : AllConf s.svcs

theorem SR.static {cl : Int} {s s' : State} (h : SR cl s s') : s'.static = s.static := by
  unfold State.static State.need
  rw [h.xq, h.cls]

/-- what a step of `cl` gives in the two runs -/
def RelRes (cl : Int) (x x' : State × List Bytes) : Prop :=
  SR cl x.1 x'.1 ∧ ∃ n n', OutRel cl n n' x.2 x'.2

theorem RelRes.same {cl : Int} {s s' : State} (h : SR cl s s') (o : List Bytes) : RelRes cl (s, o) (s', o) :=
  ⟨h, 0, 0, OutRel.refl cl 0 0 o⟩

theorem withReq_rel {cl : Int} {s s' : State} (h : SR cl s s') {r r' : Req}
    (hr : findReq s.reqs cl = some r) (hr' : findReq s'.reqs cl = some r') (he : r' = { r with serial := r'.serial })
    (f f' : Ctx → M Ctx)
    (hf : ∀ c c', CR cl r.serial r'.serial c c' → RelM (CR cl r.serial r'.serial) (f c) (f' c')) :
    RelM (RelRes cl) (withReq s r f) (withReq s' r' f') := by
  have hcl : r.client = cl := (findReq_mem hr).2
  have hcl' : r'.client = cl := (findReq_mem hr').2
  rw [withReq_eq, withReq_eq]
  have h0 : CR cl r.serial r'.serial (ctx0 s r) (ctx0 s' r') :=
    ⟨hcl, rfl, he, h.svcs, h.rules, h.lim, rfl, h.conf, OutRel.nil⟩
  have h1 := hf _ _ h0
  cases hx : f (ctx0 s r) with
  | error e =>
    rw [hx] at h1
    cases hx' : f' (ctx0 s' r') with
    | error e' => trivial
    | ok d' => rw [hx'] at h1; exact h1.elim
  | ok d =>
    rw [hx] at h1
    cases hx' : f' (ctx0 s' r') with
    | error e' => rw [hx'] at h1; exact h1.elim
    | ok d' =>
      rw [hx'] at h1
      simp only [Except.map]
      refine ⟨⟨?_, h1.svcs, h1.rules, h.lim, h.xq, h.cls, h.tmo, h1.conf⟩, _, _, h1.out⟩
      dsimp only
      rw [h1.gone, hcl, hcl']
      by_cases hg : d.gone = true
      · simp only [hg, if_true]
        exact Or.inl ⟨find_removeReq_self _ _, find_removeReq_self _ _⟩
      · simp only [hg, if_false, Bool.false_eq_true]
        have c1 : d.req.client = cl := h1.cid
        have c2 : d'.req.client = cl := by rw [h1.req]; exact h1.cid
        refine Or.inr ⟨d.req, d'.req, ?_, ?_, ?_⟩
        · have := find_putReq_self s.reqs d.req r (by rw [c1]; exact hr)
          rw [c1] at this; exact this
        · have := find_putReq_self s'.reqs d'.req r' (by rw [c2]; exact hr')
          rw [c2] at this; exact this
        · rw [h1.req]

theorem runAct_rel {cl : Int} {s s' : State} (h : SR cl s s') {r r' : Req}
    (hr : findReq s.reqs cl = some r) (hr' : findReq s'.reqs cl = some r') (he : r' = { r with serial := r'.serial })
    (a : Act) : RelM (RelRes cl) (runAct s r a) (runAct s' r' a) := by
  cases a with
  | skip => exact RelRes.same h _
  | notice => exact RelRes.same h _
  | drop =>
    simp only [runAct]
    exact withReq_rel h hr hr' he _ _ (fun c c' hc => RelM.pure (finishReq_rel hc))
  | ev e =>
    simp only [runAct]
    rw [h.static]
    exact withReq_rel h hr hr' he _ _ (fun c c' hc => reqEvent_rel _ hc e)

/-- the request an announcement stores -/
def mkReq (s : State) (id : Int) (res : Addr.PtonRes) (p : Bytes) : Req :=
  let r : Req := {
    client := id, serial := (s.serial + 1) % 4294967296, addr := res.addr, port := portOf p,
    textAddr := ntopC res.addr,
    timer := if s.timeout > 0 then .armed else .none }
  if s.hasXq then { r with xq := some {} } else r

theorem newClient_ok07 (s : State) (id : Int) (a p : Bytes) (res : Addr.PtonRes) (hp : ptonC a false = .ok res) :
    ∃ s1, newClient s id a p = .ok (s1, []) ∧ s1.reqs = insertReq (mkReq s id res p) s.reqs ∧ s1.svcs = s.svcs ∧
      s1.rules = s.rules ∧ s1.lim = s.lim ∧ s1.hasXq = s.hasXq ∧ s1.hasClass = s.hasClass ∧ s1.timeout = s.timeout := by
  unfold newClient mkReq
  simp only [hp, bind, Except.bind, pure, Except.pure]
  split <;> exact ⟨_, rfl, rfl, rfl, rfl, rfl, rfl, rfl, rfl⟩

theorem mkReq_client (s : State) (id : Int) (res : Addr.PtonRes) (p : Bytes) : (mkReq s id res p).client = id := by
  unfold mkReq; dsimp only; split <;> rfl

theorem newClient_rel {cl : Int} {s s' : State} (h : SR cl s s') (a p : Bytes) :
    RelM (RelRes cl) (newClient s cl a p) (newClient s' cl a p) := by
  obtain ⟨res, hp⟩ := ptonC_safe a false
  obtain ⟨s1, e1, q1, q2, q3, q4, q5, q6, q7⟩ := newClient_ok07 s cl a p res hp
  obtain ⟨s1', e1', q1', q2', q3', q4', q5', q6', q7'⟩ := newClient_ok07 s' cl a p res hp
  rw [e1, e1']
  refine ⟨⟨?_, ?_, ?_, ?_, ?_, ?_, ?_, ?_⟩, 0, 0, OutRel.nil⟩
  · refine Or.inr ⟨mkReq s cl res p, mkReq s' cl res p, ?_, ?_, ?_⟩
    · show findReq s1.reqs cl = _
      rw [q1]
      have := find_insertReq_self s.reqs (mkReq s cl res p)
      rw [mkReq_client] at this; exact this
    · show findReq s1'.reqs cl = _
      rw [q1']
      have := find_insertReq_self s'.reqs (mkReq s' cl res p)
      rw [mkReq_client] at this; exact this
    · unfold mkReq
      rw [h.xq, h.tmo]
      dsimp only
      split <;> rfl
  · show eraseS s1'.svcs = eraseS s1.svcs
    rw [q2, q2']; exact h.svcs
  · show eraseR s1'.rules = eraseR s1.rules
    rw [q3, q3']; exact h.rules
  · show s1'.lim = s1.lim
    rw [q4, q4']; exact h.lim
  · show s1'.hasXq = s1.hasXq
    rw [q5, q5']; exact h.xq
  · show s1'.hasClass = s1.hasClass
    rw [q6, q6']; exact h.cls
  · show s1'.timeout = s1.timeout
    rw [q7, q7']; exact h.tmo
  · show AllConf s1.svcs
    rw [q2]; exact h.conf

/-- a line of client `cl`, in both runs -/
theorem clientLine_rel {cl : Int} {s s' : State} (h : SR cl s s') (l : Line) (hl : l.id = cl) :
    RelM (RelRes cl) (clientLine s l) (clientLine s' l) := by
  unfold clientLine
  cases l.argv with
  | nil => exact RelRes.same h _
  | cons a0 args =>
    dsimp only
    split
    · split
      · exact RelRes.same h _
      · rw [hl]; exact newClient_rel h _ _
    · rw [hl]
      rcases h.reqs with ⟨e1, e2⟩ | ⟨r, r', e1, e2, he⟩
      · rw [e1, e2]; exact RelRes.same h _
      · rw [e1, e2]; exact runAct_rel h e1 e2 he _

/-! ### events of other clients -/

/-- a line that is not about `cl`: a global message, or a line rendered for another client's request -/
def Foreign (cl : Int) (x : Bytes) : Prop := Global x ∨ ∃ d, d ≠ cl ∧ About d x

theorem withReq_foreign {cl : Int} {s s' s1 : State} {out : List Bytes} (h : SR cl s s') {r : Req} (hr : r.client ≠ cl)
    (f : Ctx → M Ctx)
    (hc : ∀ d, f (ctx0 s r) = .ok d → d.req.client = r.client)
    (hk : ∀ d, f (ctx0 s r) = .ok d → KeepT (ctx0 s r) d)
    (hem : ∀ d, f (ctx0 s r) = .ok d → Emits r.client (ctx0 s r) d)
    (he : withReq s r f = .ok (s1, out)) : SR cl s1 s' ∧ ∀ x ∈ out, Foreign cl x := by
  have hfr := withReq_others (f := f) hc he cl (Ne.symm hr)
  have hab := withReq_about s r f hem s1 out he
  rw [withReq_eq] at he
  cases hx : f (ctx0 s r) with
  | error e => simp [hx, Except.map] at he
  | ok d =>
    simp only [hx, Except.map, Except.ok.injEq, Prod.mk.injEq] at he
    obtain ⟨rfl, rfl⟩ := he
    have k := hk d hx
    refine ⟨⟨?_, ?_, ?_, ?_, h.xq, h.cls, h.tmo, ?_⟩, fun x hx2 => Or.inr ⟨r.client, hr, hab x hx2⟩⟩
    · rw [hfr]; exact h.reqs
    · show eraseS s'.svcs = eraseS d.svcs
      rw [k.svcs]; exact h.svcs
    · show eraseR s'.rules = eraseR d.rules
      rw [k.rules]; exact h.rules
    · exact h.lim
    · exact k.conf h.conf

theorem runAct_foreign {cl : Int} {s s' s1 : State} {out : List Bytes} (h : SR cl s s') (hi : Inv s) {r : Req} (hr : r.client ≠ cl)
    (a : Act) (he : runAct s r a = .ok (s1, out)) : SR cl s1 s' ∧ ∀ x ∈ out, Foreign cl x := by
  cases a with
  | skip =>
    simp only [runAct, pure, Except.pure, Except.ok.injEq, Prod.mk.injEq] at he
    obtain ⟨rfl, rfl⟩ := he
    exact ⟨h, by simp⟩
  | notice =>
    simp only [runAct, pure, Except.pure, Except.ok.injEq, Prod.mk.injEq] at he
    obtain ⟨rfl, rfl⟩ := he
    refine ⟨h, ?_⟩
    intro x hx
    simp only [List.mem_singleton] at hx
    subst hx
    exact Or.inl ⟨_, rfl⟩
  | drop =>
    simp only [runAct] at he
    refine withReq_foreign h hr _ ?_ ?_ ?_ he
    · intro d hd; simp only [pure, Except.pure, Except.ok.injEq] at hd; subst hd; rfl
    · intro d hd; simp only [pure, Except.pure, Except.ok.injEq] at hd; subst hd; exact keep_finish _
    · intro d hd; simp only [pure, Except.pure, Except.ok.injEq] at hd; subst hd; exact Emits.of_out_eq rfl
  | ev e =>
    simp only [runAct] at he
    refine withReq_foreign h hr _ ?_ ?_ ?_ he
    · intro d hd; exact (reqEvent_spec _ (static_wf s hi.deps) _ _ _ hd).1
    · intro d hd; exact reqEvent_keep _ _ _ _ hd
    · intro d hd; exact reqEvent_emits _ _ _ _ hd

theorem clientLine_foreign {cl : Int} {s s' s1 : State} {out : List Bytes} (h : SR cl s s') (hi : Inv s) (l : Line) (hl : l.id ≠ cl)
    (he : clientLine s l = .ok (s1, out)) : SR cl s1 s' ∧ ∀ x ∈ out, Foreign cl x := by
  have same : ∀ (o : List Bytes), (pure (s, o) : M (State × List Bytes)) = .ok (s1, out) → o = [] → SR cl s1 s' ∧ ∀ x ∈ out, Foreign cl x := by
    intro o ho hn
    simp only [pure, Except.pure, Except.ok.injEq, Prod.mk.injEq] at ho
    obtain ⟨rfl, rfl⟩ := ho
    subst hn
    exact ⟨h, by simp⟩
  unfold clientLine at he
  cases ha : l.argv with
  | nil => rw [ha] at he; exact same _ he rfl
  | cons a0 args =>
    rw [ha] at he
    dsimp only at he
    split at he
    · split at he
      · exact same _ he rfl
      · obtain ⟨res, hp⟩ := ptonC_safe ((arg l 1).getD []) false
        obtain ⟨s2, e1, q1, q2, q3, q4, q5, q6, q7⟩ := newClient_ok07 s l.id _ ((arg l 2).getD []) res hp
        have hfr := newClient_others he cl (Ne.symm hl)
        rw [e1] at he
        simp only [Except.ok.injEq, Prod.mk.injEq] at he
        obtain ⟨rfl, rfl⟩ := he
        refine ⟨⟨?_, ?_, ?_, ?_, ?_, ?_, ?_, ?_⟩, by simp⟩
        · rw [hfr]; exact h.reqs
        · rw [q2]; exact h.svcs
        · rw [q3]; exact h.rules
        · rw [q4]; exact h.lim
        · rw [q5]; exact h.xq
        · rw [q6]; exact h.cls
        · rw [q7]; exact h.tmo
        · rw [q2]; exact h.conf
    · cases hf : findReq s.reqs l.id with
      | none => rw [hf] at he; exact same _ he rfl
      | some r =>
        rw [hf] at he
        have hrc : r.client = l.id := (findReq_mem hf).2
        exact runAct_foreign h hi (by rw [hrc]; exact hl) _ he

/-! ### histories -/

/-- what can happen to a client -/
inductive Ev07 where
  /-- a line the server writes about the client (`ClientLine`) -/
  | line (raw : Bytes)
  /-- a service's reply (`none`: the notice that the service is not linked) routed to the live
      instance of client `cid`, i.e. carrying the routing tag of the query it answers -/
  | reply (cid : Int) (svc : Bytes) (text : Option Bytes)
  /-- the client's request timer expires -/
  | timeout (cid : Int)

def Ev07.owner : Ev07 → Int
  | .line raw => (tokenize raw).id
  | .reply cid _ _ => cid
  | .timeout cid => cid

def Ev07.WF : Ev07 → Prop
  | .line raw => ClientLine raw
  | _ => True

def exec07 (s : State) : Ev07 → M (State × List Bytes)
  | .line raw => stepLine s raw
  | .reply cid svc text =>
    match findReq s.reqs cid with
    | none => pure (s, [])
    | some r => if !s.hasXq then pure (s, []) else withReq s r fun ctx => xqReply s.static ctx svc text
  | .timeout cid => (stepTimeout s cid).map fun x => (x.1, x.2.1)

def run07 : State → List Ev07 → M (State × List (List Bytes))
  | s, [] => pure (s, [])
  | s, e :: es => do
    let (s1, o1) ← exec07 s e
    let (s2, os) ← run07 s1 es
    pure (s2, o1 :: os)

/-- an event of `cl` in both runs -/
theorem exec07_rel {cl : Int} {s s' : State} (h : SR cl s s') (e : Ev07) (hw : e.WF) (ho : e.owner = cl) :
    RelM (RelRes cl) (exec07 s e) (exec07 s' e) := by
  cases e with
  | line raw =>
    simp only [exec07]
    rw [stepLine_client s raw hw, stepLine_client s' raw hw]
    exact clientLine_rel h _ ho
  | reply cid svc text =>
    simp only [exec07]
    have hc : cid = cl := ho
    subst hc
    rcases h.reqs with ⟨e1, e2⟩ | ⟨r, r', e1, e2, he⟩
    · rw [e1, e2]; exact RelRes.same h _
    · rw [e1, e2]
      dsimp only
      rw [h.xq, h.static]
      split
      · exact RelRes.same h _
      · exact withReq_rel h e1 e2 he _ _ (fun c c' hc => xqReply_rel _ hc svc text)
  | timeout cid =>
    simp only [exec07]
    have hc : cid = cl := ho
    subst hc
    unfold stepTimeout
    rcases h.reqs with ⟨e1, e2⟩ | ⟨r, r', e1, e2, he⟩
    · rw [e1, e2]; exact RelRes.same h _
    · rw [e1, e2]
      dsimp only
      have et : r'.timer = r.timer := by rw [he]
      rw [et, h.static]
      split
      · have := withReq_rel h e1 e2 he (fun ctx => reqEvent s.static ctx .timeout) (fun ctx => reqEvent s.static ctx .timeout)
          (fun c c' hc => reqEvent_rel _ hc .timeout)
        simp only [bind, Except.bind]
        cases hx : withReq s r fun ctx => reqEvent s.static ctx .timeout with
        | error e =>
          rw [hx] at this
          cases hx' : withReq s' r' fun ctx => reqEvent s.static ctx .timeout with
          | error e' => trivial
          | ok v' => rw [hx'] at this; exact this.elim
        | ok v =>
          rw [hx] at this
          cases hx' : withReq s' r' fun ctx => reqEvent s.static ctx .timeout with
          | error e' => rw [hx'] at this; exact this.elim
          | ok v' => rw [hx'] at this; exact this
      · exact RelRes.same h _

/-- an event of another client -/
theorem exec07_foreign {cl : Int} {s s' s1 : State} {out : List Bytes} (h : SR cl s s') (hi : Inv s) (e : Ev07) (hw : e.WF)
    (ho : e.owner ≠ cl) (he : exec07 s e = .ok (s1, out)) : SR cl s1 s' ∧ ∀ x ∈ out, Foreign cl x := by
  have same : ∀ (o : List Bytes), (pure (s, o) : M (State × List Bytes)) = .ok (s1, out) → o = [] → SR cl s1 s' ∧ ∀ x ∈ out, Foreign cl x := by
    intro o ho hn
    simp only [pure, Except.pure, Except.ok.injEq, Prod.mk.injEq] at ho
    obtain ⟨rfl, rfl⟩ := ho
    subst hn
    exact ⟨h, by simp⟩
  cases e with
  | line raw =>
    simp only [exec07] at he
    rw [stepLine_client s raw hw] at he
    exact clientLine_foreign h hi _ ho he
  | reply cid svc text =>
    simp only [exec07] at he
    cases hf : findReq s.reqs cid with
    | none => rw [hf] at he; exact same _ he rfl
    | some r =>
      rw [hf] at he
      dsimp only at he
      have hrc : r.client = cid := (findReq_mem hf).2
      split at he
      · exact same _ he rfl
      · refine withReq_foreign h (by rw [hrc]; exact ho) _ ?_ ?_ ?_ he
        · intro d hd; exact (xqReply_spec _ _ _ _ _ hd).1
        · intro d hd; exact xqReply_keep _ _ _ _ _ h.conf hd
        · intro d hd; exact xqReply_emits _ _ _ _ _ hd
  | timeout cid =>
    simp only [exec07] at he
    unfold stepTimeout at he
    cases hf : findReq s.reqs cid with
    | none => rw [hf] at he; simp only [Except.map, pure, Except.pure, Except.ok.injEq, Prod.mk.injEq] at he; obtain ⟨rfl, rfl⟩ := he; exact ⟨h, by simp⟩
    | some r =>
      rw [hf] at he
      dsimp only at he
      have hrc : r.client = cid := (findReq_mem hf).2
      split at he
      · simp only [bind, Except.bind] at he
        cases hx : withReq s r fun ctx => reqEvent s.static ctx .timeout with
        | error e => rw [hx] at he; simp [Except.map] at he
        | ok v =>
          obtain ⟨s2, o2⟩ := v
          rw [hx] at he
          simp only [Except.map, pure, Except.pure, Except.ok.injEq, Prod.mk.injEq] at he
          obtain ⟨rfl, rfl⟩ := he
          refine withReq_foreign h (by rw [hrc]; exact ho) _ ?_ ?_ ?_ hx
          · intro d hd; exact (reqEvent_spec _ (static_wf s hi.deps) _ _ _ hd).1
          · intro d hd; exact reqEvent_keep _ _ _ _ hd
          · intro d hd; exact reqEvent_emits _ _ _ _ hd
      · simp only [Except.map, pure, Except.pure, Except.ok.injEq, Prod.mk.injEq] at he; obtain ⟨rfl, rfl⟩ := he; exact ⟨h, by simp⟩

theorem exec07_inv {s s1 : State} {out : List Bytes} (hi : Inv s) (e : Ev07) (he : exec07 s e = .ok (s1, out)) : Inv s1 := by
  cases e with
  | line raw => exact (stepLine_inv hi he).1
  | reply cid svc text =>
    simp only [exec07] at he
    cases hf : findReq s.reqs cid with
    | none => rw [hf] at he; simp only [pure, Except.pure, Except.ok.injEq, Prod.mk.injEq] at he; obtain ⟨rfl, _⟩ := he; exact hi
    | some r =>
      rw [hf] at he
      dsimp only at he
      split at he
      · simp only [pure, Except.pure, Except.ok.injEq, Prod.mk.injEq] at he; obtain ⟨rfl, _⟩ := he; exact hi
      · exact (withReq_inv hi (findReq_mem hf).1 (fun c' hc => xqReply_spec _ _ _ _ _ hc) he).1
  | timeout cid =>
    simp only [exec07] at he
    cases hx : stepTimeout s cid with
    | error e => rw [hx] at he; simp [Except.map] at he
    | ok v =>
      obtain ⟨s2, o2, f2⟩ := v
      rw [hx] at he
      simp only [Except.map, Except.ok.injEq, Prod.mk.injEq] at he
      obtain ⟨rfl, _⟩ := he
      exact (stepTimeout_inv hi hx).1

/-- how the outputs of the whole history and of `cl`'s own events correspond, event by event -/
inductive Conv (cl : Int) : List Ev07 → List (List Bytes) → List (List Bytes) → Prop where
  | nil : Conv cl [] [] []
  | own {e : Ev07} {es : List Ev07} {o o' : List Bytes} {os os' : List (List Bytes)} :
      e.owner = cl → (∃ n n', OutRel cl n n' o o') → Conv cl es os os' → Conv cl (e :: es) (o :: os) (o' :: os')
  | other {e : Ev07} {es : List Ev07} {o : List Bytes} {os os' : List (List Bytes)} :
      e.owner ≠ cl → (∀ x ∈ o, Foreign cl x) → Conv cl es os os' → Conv cl (e :: es) (o :: os) os'

/-- **C07, every history.**  From related states, the run of the whole history and the run of only
    the events of `cl` succeed together; what an event of `cl` writes is the same in both (queries
    under the routing tag of their own run), and what any other event writes is not about `cl`. -/
theorem run07_conv (cl : Int) : ∀ (es : List Ev07) (s s' : State), SR cl s s' → Inv s → (∀ e ∈ es, e.WF) →
    ∀ sf outs, run07 s es = .ok (sf, outs) →
      ∃ sf' outs', run07 s' (es.filter fun e => e.owner == cl) = .ok (sf', outs') ∧ SR cl sf sf' ∧ Conv cl es outs outs'
  | [], s, s', h, hi, _, sf, outs, hr => by
    simp only [run07, pure, Except.pure, Except.ok.injEq, Prod.mk.injEq] at hr
    obtain ⟨rfl, rfl⟩ := hr
    exact ⟨s', [], rfl, h, Conv.nil⟩
  | e :: es, s, s', h, hi, hw, sf, outs, hr => by
    simp only [run07, bind, Except.bind] at hr
    cases hx : exec07 s e with
    | error err => rw [hx] at hr; cases hr
    | ok v =>
      obtain ⟨s1, o1⟩ := v
      rw [hx] at hr
      dsimp only at hr
      cases hy : run07 s1 es with
      | error err => rw [hy] at hr; cases hr
      | ok w =>
        obtain ⟨s2, os⟩ := w
        rw [hy] at hr
        simp only [pure, Except.pure, Except.ok.injEq, Prod.mk.injEq] at hr
        obtain ⟨rfl, rfl⟩ := hr
        have hi1 := exec07_inv hi e hx
        have hwe : e.WF := hw e (List.mem_cons_self ..)
        have hwes : ∀ x ∈ es, x.WF := fun x hx2 => hw x (List.mem_cons_of_mem _ hx2)
        by_cases ho : e.owner = cl
        · have hrel := exec07_rel h e hwe ho
          rw [hx] at hrel
          cases hx' : exec07 s' e with
          | error err => rw [hx'] at hrel; exact hrel.elim
          | ok v' =>
            obtain ⟨s1', o1'⟩ := v'
            rw [hx'] at hrel
            obtain ⟨hs1, hout⟩ := hrel
            obtain ⟨sf', outs', hrun, hsr, hconv⟩ := run07_conv cl es s1 s1' hs1 hi1 hwes s2 os hy
            refine ⟨sf', o1' :: outs', ?_, hsr, Conv.own ho hout hconv⟩
            have hf : (e :: es).filter (fun e => e.owner == cl) = e :: es.filter (fun e => e.owner == cl) := by
              have : (e.owner == cl) = true := by simpa using ho
              rw [List.filter_cons]
              simp only [this, if_true]
            rw [hf]
            simp only [run07, bind, Except.bind, hx', hrun, pure, Except.pure]
        · obtain ⟨hs1, hfo⟩ := exec07_foreign h hi e hwe ho hx
          obtain ⟨sf', outs', hrun, hsr, hconv⟩ := run07_conv cl es s1 s' hs1 hi1 hwes s2 os hy
          refine ⟨sf', outs', ?_, hsr, Conv.other ho hfo hconv⟩
          have hf : (e :: es).filter (fun e => e.owner == cl) = es.filter (fun e => e.owner == cl) := by
            have : (e.owner == cl) = false := by simpa using ho
            rw [List.filter_cons]
            simp only [this, Bool.false_eq_true, if_false]
          rw [hf]
          exact hrun

/-- the model runs on every history of client events (no Fault): the success hypothesis of
    `run07_conv` is never the one that fails -/
theorem exec07_total (s : State) (hi : Inv s) (e : Ev07) : ∃ res, exec07 s e = .ok res := by
  cases e with
  | line raw => exact stepLine_total s hi raw
  | reply cid svc text =>
    simp only [exec07]
    cases hf : findReq s.reqs cid with
    | none => exact ⟨_, rfl⟩
    | some r =>
      dsimp only
      split
      · exact ⟨_, rfl⟩
      · exact withReq_ok (s := s) (r := r) (f := fun ctx => xqReply s.static ctx svc text)
          (xqReply_ok _ (static_wf s hi.deps) _ _ _ (hi.noResp r (findReq_mem hf).1))
  | timeout cid =>
    obtain ⟨res, hres⟩ := stepTimeout_total s hi cid
    exact ⟨(res.1, res.2.1), by simp only [exec07, hres, Except.map]⟩

theorem run07_total : ∀ (es : List Ev07) (s : State), Inv s → ∃ res, run07 s es = .ok res
  | [], s, _ => ⟨_, rfl⟩
  | e :: es, s, hi => by
    obtain ⟨⟨s1, o1⟩, h1⟩ := exec07_total s hi e
    obtain ⟨⟨s2, os⟩, h2⟩ := run07_total es s1 (exec07_inv hi e h1)
    exact ⟨(s2, o1 :: os), by simp only [run07, bind, Except.bind, h1, h2, pure, Except.pure]⟩

theorem SR.refl (cl : Int) (s : State) (hc : AllConf s.svcs) : SR cl s s := by
  refine ⟨?_, rfl, rfl, rfl, rfl, rfl, rfl, hc⟩
  cases h : findReq s.reqs cl with
  | none => exact Or.inl ⟨rfl, rfl⟩
  | some r => exact Or.inr ⟨r, r, rfl, rfl, rfl⟩

end Iauthd.Proto
