import Iauthd.Proto.Keep07
import Iauthd.Proto.RenderStep
/-
  C17 / C11, the rule table over a whole history: between two configuration loads nothing but the
  hit counters of the rules changes, whatever lines and timer expiries arrive (clients waiting for
  services, services retired by a reload while referenced, stray replies - no hypothesis on the
  service table is needed, unlike `KeepT`).

  * `reqEvent_rules`, `xqReply_rules`   one handler run keeps the rules up to their counters
  * `stepOp_rules`, `runOps_rules`      so does every operation, hence every history
-/
set_option linter.unusedSimpArgs false
set_option linter.unusedVariables false
namespace Iauthd.Proto
open Iauthd

/-- the rules are the same up to their hit counters -/
def SameRules (c d : Ctx) : Prop := eraseR d.rules = eraseR c.rules

theorem SameRules.refl (c : Ctx) : SameRules c c := rfl
theorem SameRules.trans {a m c : Ctx} (h1 : SameRules a m) (h2 : SameRules m c) : SameRules a c :=
  Eq.trans h2 h1
theorem KeepT.same {c d : Ctx} (h : KeepT c d) : SameRules c d := h.rules

theorem xqFinishPre_rules (i : Nat) (c : Ctx) (cli : XqCli) (srv : Svc) : (xqFinishPre i c cli srv).rules = c.rules := by
  unfold xqFinishPre
  dsimp only
  split <;> split <;> simp [updReq, unrefSvc] <;> (try split) <;> (try split) <;> rfl

theorem xqFinish_rules (st : Static) (i : Nat) (c d : Ctx) (cli : XqCli) (srv : Svc)
    (h : xqFinish st i c cli srv = .ok d) : SameRules c d := by
  rw [xqFinish_eq] at h
  have := (gate_keep st _ _ h).rules
  unfold SameRules
  rw [this, xqFinishPre_rules]

theorem xqReply_rules (st : Static) (c d : Ctx) (service : Bytes) (reply : Option Bytes)
    (h : xqReply st c service reply = .ok d) : SameRules c d := by
  unfold xqReply at h
  cases hx : c.req.xq with
  | none => rw [hx] at h; simp only [pure, Except.pure, Except.ok.injEq] at h; subst h; exact SameRules.refl c
  | some cli =>
    rw [hx] at h
    dsimp only at h
    cases hf : findRefSlot c.svcs cli service with
    | none => rw [hf] at h; simp only [pure, Except.pure, Except.ok.injEq] at h; subst h; exact SameRules.refl c
    | some v =>
      obtain ⟨i, srv⟩ := v
      rw [hf] at h
      dsimp only at h
      have fin : ∀ (c1 : Ctx) (xc : XqCli) (f : Svc), xqFinish st i c1 xc f = .ok d → SameRules c c1 → SameRules c d :=
        fun c1 xc f hx1 k => k.trans (xqFinish_rules st i c1 d xc f hx1)
      cases reply with
      | none =>
        dsimp only at h
        refine fin _ _ _ h ?_
        split <;> rfl
      | some rep =>
        dsimp only at h
        cases ho : okStamp rep with
        | some o =>
          rw [ho] at h
          cases o with
          | none => exact fin _ _ _ h (SameRules.refl c)
          | some stamp =>
            dsimp only at h
            split at h
            · exact fin _ _ _ h (xqVouch_keep c _ stamp).same
            · exact fin _ _ _ h (SameRules.refl c)
        | none =>
          rw [ho] at h
          dsimp only at h
          split at h
          · refine SameRules.trans ?_ (kill_keep _ _ _ h).same
            rfl
          · split at h
            · exact fin _ _ _ h (keep_emit c _).same
            · split at h
              · exact fin _ _ _ h (keep_emit c _).same
              · simp only [pure, Except.pure, Except.ok.injEq] at h; subst h; exact SameRules.refl c

/-- a server event for a request: `reqEvent_keep` asks nothing of the service table -/
theorem reqEvent_rules (st : Static) (c d : Ctx) (ev : Ev) (h : reqEvent st c ev = .ok d) : SameRules c d :=
  (reqEvent_keep st c d ev h).same

/-! ### the whole table -/

/-- the rule table is `R` up to hit counters -/
def RulesAre (R : List Rule) (s : State) : Prop := eraseR s.rules = R

def StepRules (R : List Rule) (m : M (State × List Bytes)) : Prop := ∀ s' out, m = .ok (s', out) → RulesAre R s'

theorem StepRules.pure {R : List Rule} {s : State} (h : RulesAre R s) (out : List Bytes) : StepRules R (pure (s, out)) := by
  intro s' o he
  simp only [Pure.pure, Except.pure, Except.ok.injEq, Prod.mk.injEq] at he
  obtain ⟨rfl, _⟩ := he; exact h

theorem withReq_rules {R : List Rule} (s : State) (h : RulesAre R s) (r : Req) (f : Ctx → M Ctx)
    (hF : ∀ c', f (ctx0 s r) = .ok c' → SameRules (ctx0 s r) c') : StepRules R (withReq s r f) := by
  intro s' out he
  rw [withReq_eq] at he
  cases hfc : f (ctx0 s r) with
  | error e => rw [hfc] at he; simp [Except.map] at he
  | ok c' =>
    rw [hfc] at he
    simp only [Except.map, Except.ok.injEq, Prod.mk.injEq] at he
    obtain ⟨rfl, _⟩ := he
    have := hF c' hfc
    unfold RulesAre
    unfold SameRules ctx0 at this
    dsimp only at this ⊢
    rw [this]; exact h

theorem newClient_rules {R : List Rule} (s : State) (h : RulesAre R s) (id : Int) (a p : Bytes) : StepRules R (newClient s id a p) := by
  intro s' out he
  unfold newClient at he
  cases hp : ptonC a false with
  | error e => simp [hp, bind, Except.bind] at he
  | ok res =>
    simp only [hp, bind, Except.bind, pure, Except.pure, Except.ok.injEq, Prod.mk.injEq] at he
    obtain ⟨rfl, _⟩ := he
    exact h

theorem onReq_rules {R : List Rule} (s : State) (h : RulesAre R s) (req? : Option Req) (c : String) (ev : Ev) :
    StepRules R (onReq s req? c ev) := by
  unfold onReq
  cases req? with
  | none => unfold garbage; exact StepRules.pure h _
  | some r => exact withReq_rules s h r _ (fun c' hc => reqEvent_rules _ _ _ ev hc)

theorem dropReq_rules {R : List Rule} (s : State) (h : RulesAre R s) (req? : Option Req) (c : String) :
    StepRules R (dropReq s req? c) := by
  unfold dropReq
  cases req? with
  | none => unfold garbage; exact StepRules.pure h _
  | some r =>
    refine withReq_rules s h r _ (fun c' hc => ?_)
    simp only [pure, Except.pure, Except.ok.injEq] at hc
    subst hc
    rfl

theorem onReply_rules {R : List Rule} (s : State) (h : RulesAre R s) (l : Line) (isX : Bool) : StepRules R (onReply s l isX) := by
  unfold onReply
  split
  · exact StepRules.pure h _
  · split
    · exact StepRules.pure h _
    · exact withReq_rules s h _ _ (fun c' hc => xqReply_rules _ _ _ _ _ hc)

theorem dispatch_rules {R : List Rule} (s : State) (h : RulesAre R s) (l : Line) (cmd : UInt8) (req? : Option Req) :
    StepRules R (dispatch s l cmd req?) := by
  apply dispatch_cases s l cmd req? (StepRules R)
  · exact StepRules.pure h _
  · exact newClient_rules s h _ _ _
  · exact dropReq_rules s h req? "D"
  · exact onReq_rules s h req? "N" _
  · exact onReq_rules s h req? "d" _
  · exact onReq_rules s h req? "P" _
  · intro _; unfold garbage; exact StepRules.pure h _
  · exact StepRules.pure h _
  · intro r _ _
    exact withReq_rules s h r _ (fun c' hc => reqEvent_rules _ _ _ _ hc)
  · exact onReq_rules s h req? "u" _
  · exact onReq_rules s h req? "n" _
  · exact onReq_rules s h req? "H" _
  · exact dropReq_rules s h req? "T"
  · intro isX; exact onReply_rules s h l isX
  · intro s' out he
    obtain ⟨o, ho⟩ := onInfo_spec s l
    rw [ho] at he
    simp only [Except.ok.injEq, Prod.mk.injEq] at he
    obtain ⟨rfl, _⟩ := he; exact h

theorem stepLine_rules {R : List Rule} (s : State) (h : RulesAre R s) (raw : Bytes) : StepRules R (stepLine s raw) := by
  unfold stepLine
  dsimp only
  split
  · exact StepRules.pure h _
  · split
    · split
      · exact StepRules.pure h _
      · exact dispatch_rules s h _ _ _
    · split
      · exact StepRules.pure h _
      · exact dispatch_rules s h _ _ _

theorem stepLines_rules {R : List Rule} : ∀ (lines : List Bytes) (s : State), RulesAre R s → StepRules R (stepLines s lines)
  | [], s, h => by unfold stepLines; exact StepRules.pure h _
  | ln :: rest, s, h => by
    unfold stepLines
    split
    · exact stepLines_rules rest s h
    · intro s' out he
      simp only [bind, Except.bind] at he
      split at he
      · cases he
      · rename_i v1 h1
        obtain ⟨s1, o1⟩ := v1
        dsimp only at he
        split at he
        · cases he
        · rename_i v2 h2
          obtain ⟨s2, o2⟩ := v2
          simp only [pure, Except.pure, Except.ok.injEq, Prod.mk.injEq] at he
          obtain ⟨rfl, _⟩ := he
          exact stepLines_rules rest s1 (stepLine_rules s h (cstr ln) s1 o1 h1) s2 o2 h2

theorem stepChunk_rules {R : List Rule} (s : State) (h : RulesAre R s) (chunk : Bytes) : StepRules R (stepChunk s chunk) := by
  intro s' out he
  unfold stepChunk at he
  dsimp only at he
  cases hl : stepLines { s with inbuf := [] } (splitLines (s.inbuf ++ chunk)).1 with
  | error e => rw [hl] at he; simp [Except.map] at he
  | ok v =>
    rw [hl] at he
    simp only [Except.map, Except.ok.injEq, Prod.mk.injEq] at he
    obtain ⟨rfl, _⟩ := he
    exact stepLines_rules _ { s with inbuf := [] } h v.1 v.2 hl

theorem stepTimeout_rules {R : List Rule} (s : State) (h : RulesAre R s) (id : Int) (s' : State) (out : List Bytes) (f : Bool)
    (he : stepTimeout s id = .ok (s', out, f)) : RulesAre R s' := by
  unfold stepTimeout at he
  split at he
  · rename_i r _
    split at he
    · simp only [bind, Except.bind] at he
      split at he
      · cases he
      · rename_i v hv
        obtain ⟨s1, o1⟩ := v
        simp only [pure, Except.pure, Except.ok.injEq, Prod.mk.injEq] at he
        obtain ⟨rfl, _⟩ := he
        exact withReq_rules s h r _ (fun c' hc => reqEvent_rules _ _ _ _ hc) s1 o1 hv
    · simp only [pure, Except.pure, Except.ok.injEq, Prod.mk.injEq] at he
      obtain ⟨rfl, _⟩ := he; exact h
  · simp only [pure, Except.pure, Except.ok.injEq, Prod.mk.injEq] at he
    obtain ⟨rfl, _⟩ := he; exact h

/-- **every operation keeps the rule table up to hit counters** -/
theorem stepOp_rules {R : List Rule} (s : State) (h : RulesAre R s) (op : Op) (s' : State) (out : List Bytes)
    (he : stepOp s op = .ok (s', out)) : RulesAre R s' := by
  cases op with
  | chunk bs => exact stepChunk_rules s h bs s' out he
  | timeout id =>
    simp only [stepOp] at he
    cases ht : stepTimeout s id with
    | error e => rw [ht] at he; simp [Except.map] at he
    | ok v =>
      rw [ht] at he
      simp only [Except.map, Except.ok.injEq, Prod.mk.injEq] at he
      obtain ⟨rfl, _⟩ := he
      exact stepTimeout_rules s h id v.1 v.2.1 v.2.2 ht

/-- … hence every history of input chunks and timer expiries does -/
theorem runOps_rules {R : List Rule} : ∀ (ops : List Op) (s : State), RulesAre R s → ∀ s' outs, runOps s ops = .ok (s', outs) → RulesAre R s'
  | [], s, h, s', outs, he => by
    simp only [runOps, pure, Except.pure, Except.ok.injEq, Prod.mk.injEq] at he
    obtain ⟨rfl, _⟩ := he; exact h
  | op :: ops, s, h, s', outs, he => by
    simp only [runOps, bind, Except.bind] at he
    split at he
    · cases he
    · rename_i v1 h1
      obtain ⟨s1, o1⟩ := v1
      dsimp only at he
      split at he
      · cases he
      · rename_i v2 h2
        obtain ⟨s2, os⟩ := v2
        simp only [pure, Except.pure, Except.ok.injEq, Prod.mk.injEq] at he
        obtain ⟨rfl, _⟩ := he
        exact runOps_rules ops s1 (stepOp_rules s h op s1 o1 h1) s2 os h2

end Iauthd.Proto
