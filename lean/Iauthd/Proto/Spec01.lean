import Iauthd.Proto.Hist
/-
  Property C01 as a predicate on histories, in a form that can be reasoned about:
  "one verdict per announced client, then silence".

  A reader of the two channels keeps, per client id, whether an instance is live, whether its
  soft-done went out and which serial its queries carry.  An announcement opens an instance
  (replacing a live one), `D`/`T` from the server and a verdict from the daemon close it.  The
  history is acceptable when every client-directed line and every query names a live instance,
  no second soft-done goes out for an instance, the queries of an instance carry one serial, and
  nothing names an instance after its verdict.

  The same clauses are part of the trace judge `Hist.onOutputs` (which also judges C02, C03,
  C05, C09); the driver evaluates both on every implementation trace and reports a disagreement
  between them as a harness error.  This file is the version the theorem `C01_history` is about.
-/
namespace Iauthd.Proto.Spec01
open Iauthd Iauthd.Proto Iauthd.Proto.Hist

structure Inst1 where
  serial : Option Nat := none
  soft : Bool := false
  deriving Repr, DecidableEq

structure T1 where
  live : Int → Option Inst1 := fun _ => none
  /-- ids whose verdict went out in the current step -/
  closed : Int → Bool := fun _ => false
  ok : Bool := true
  /-- how many instances are live (C10: the figure every statistics reply must report) -/
  n : Nat := 0

def T1.put (t : T1) (id : Int) (i : Inst1) : T1 :=
  { t with live := fun j => if j = id then some i else t.live j, n := if (t.live id).isSome then t.n else t.n + 1 }
def T1.close (t : T1) (id : Int) : T1 :=
  { t with live := fun j => if j = id then none else t.live j, n := if (t.live id).isSome then t.n - 1 else t.n }
def T1.fail (t : T1) : T1 := { t with ok := false }

/-- one input line: announcements open, `D` / `T` close -/
def inLine (t : T1) (raw : Bytes) : T1 :=
  let l := tokenize raw
  match l.argv with
  | [] => t
  | a0 :: args =>
    let cmd := a0.getD 0 0
    if cmd == 67 then (if args.length < 4 then t else t.put l.id {})
    else if cmd == 68 || cmd == 84 then t.close l.id
    else t

def isVerdict (letter : UInt8) : Bool := letter == 107 || letter == 68 || letter == 82

/-- one output line -/
def outLine (t : T1) (line : Bytes) : T1 :=
  match parseOut line with
  | .query _ cid serial _ =>
    match t.live cid with
    | none => t.fail
    | some i =>
      if t.closed cid || (i.serial.isSome && i.serial != some serial) then t.fail
      else t.put cid { i with serial := some serial }
  | .client letter cid _ _ _ =>
    if t.closed cid then t.fail
    else match t.live cid with
      | none => t.fail
      | some i =>
        if letter == 100 then (if i.soft then t.fail else t.put cid { i with soft := true })
        else if isVerdict letter then { (t.close cid) with closed := fun j => if j = cid then true else t.closed j }
        else t
  | _ => t

/-- what one step (an input line or a timer expiry, and the lines written in response) does -/
def step (t : T1) (raw : Option Bytes) (outs : List Bytes) : T1 :=
  let t := match raw with | some r => inLine t r | none => t
  outs.foldl outLine { t with closed := fun _ => false }

/-- a whole history, one step after the other -/
def run (t : T1) : List (Option Bytes × List Bytes) → T1
  | [] => t
  | (raw, outs) :: rest => run (step t raw outs) rest

/-! ### lines that say nothing about any client -/

/-- a line whose first byte is a message letter that is neither client-directed nor `X` -/
theorem parseOut_neutral (c : UInt8) (rest : Bytes) (h32 : c ≠ 32) (h58 : c ≠ 58)
    (hcl : c ∉ clientLetters) (h88 : c ≠ 88) :
    (∀ l i a p r, parseOut (c :: rest) ≠ .client l i a p r) ∧ (∀ s i n p, parseOut (c :: rest) ≠ .query s i n p) := by
  have hcl' : clientLetters.contains c = false := by
    cases h : clientLetters.contains c with
    | false => rfl
    | true => exact absurd (List.contains_iff_mem.mp h) hcl
  have h88' : (c == 88) = false := by simpa using h88
  have hd : dropBlanks (c :: rest) = c :: rest := by
    unfold dropBlanks
    split
    · rename_i cs heq; simp at heq; exact absurd heq.1 h32
    · rfl
  have hne : (c :: rest).isEmpty = false := rfl
  have hh : ((c :: rest).head? == some 58) = false := by simpa using h58
  have htok : ∃ w more, otokens 16 (c :: rest) = (c :: w) :: more := by
    rw [show (16 : Nat) = 15 + 1 from rfl, otokens]
    simp only [hd, hne, Bool.false_eq_true, if_false, hh]
    rw [takeParam]
    have : (c == 32) = false := by simpa using h32
    simp only [this, Bool.false_eq_true, if_false]
    split <;> exact ⟨_, _, rfl⟩
  obtain ⟨w, more, ht⟩ := htok
  constructor
  · intro l i a p r
    unfold parseOut
    split
    · intro h; cases h
    · simp only [ht]
      split
      · intro h; cases h
      · rename_i hlen
        have hw : w = [] := by
          cases w with
          | nil => rfl
          | cons x xs => simp at hlen
        subst hw
        simp only [List.getD_cons_zero, hcl', Bool.false_eq_true, if_false, h88']
        split
        · split <;> (intro h; cases h)
        · split <;> (intro h; cases h)
  · intro s i n p
    unfold parseOut
    split
    · intro h; cases h
    · simp only [ht]
      split
      · intro h; cases h
      · rename_i hlen
        have hw : w = [] := by
          cases w with
          | nil => rfl
          | cons x xs => simp at hlen
        subst hw
        simp only [List.getD_cons_zero, hcl', Bool.false_eq_true, if_false, h88']
        split
        · split <;> (intro h; cases h)
        · split <;> (intro h; cases h)

/-- a line that parses as neither a client-directed message nor a query changes nothing -/
theorem outLine_neutral (t : T1) (line : Bytes)
    (h1 : ∀ l i a p r, parseOut line ≠ .client l i a p r) (h2 : ∀ s i n p, parseOut line ≠ .query s i n p) :
    outLine t line = t := by
  unfold outLine
  split
  · rename_i heq; exact absurd heq (h2 _ _ _ _)
  · rename_i heq; exact absurd heq (h1 _ _ _ _ _)
  · rfl

end Iauthd.Proto.Spec01
