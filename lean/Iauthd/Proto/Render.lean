import Iauthd.Proto.Hist
import Iauthd.Proto.Step
/-
  C09 (model part): every line the daemon writes is a well-formed IAuth message.

  Part 1 (this file): the reader's parameter splitting (`otokens`: blanks separate, ':' starts
  the trailing parameter) on lines built the way `iauth_send` builds them:
      word ␣ word ␣ … ␣ word [␣ ':' text]
  and the decimal renderings of ids and ports.
-/
set_option linter.unusedSimpArgs false
set_option linter.unusedVariables false
namespace Iauthd.Proto
open Iauthd

/-- a middle parameter: not empty, no blank, does not begin with ':' -/
structure Word (w : Bytes) : Prop where
  ne : w ≠ []
  nosp : ∀ c ∈ w, c ≠ 32
  nocolon : w.head? ≠ some 58

/-- no line feed and no NUL (what may travel inside one line) -/
def Clean (s : Bytes) : Prop := ∀ c ∈ s, c ≠ 10 ∧ c ≠ 0

theorem Clean.nil : Clean [] := by intro c hc; cases hc
theorem Clean.append {a b' : Bytes} (ha : Clean a) (hb : Clean b') : Clean (a ++ b') := by
  intro c hc
  rcases List.mem_append.mp hc with h | h
  · exact ha c h
  · exact hb c h
theorem Clean.take {a : Bytes} (ha : Clean a) (n : Nat) : Clean (a.take n) :=
  fun c hc => ha c (List.mem_of_mem_take hc)
theorem Clean.drop {a : Bytes} (ha : Clean a) (n : Nat) : Clean (a.drop n) :=
  fun c hc => ha c (List.mem_of_mem_drop hc)
theorem Clean.cons {c : UInt8} {a : Bytes} (h1 : c ≠ 10) (h0 : c ≠ 0) (ha : Clean a) : Clean (c :: a) := by
  intro x hx
  rcases List.mem_cons.mp hx with rfl | h
  · exact ⟨h1, h0⟩
  · exact ha x h
theorem Clean.of_cons {c : UInt8} {a : Bytes} (h : Clean (c :: a)) : Clean a :=
  fun x hx => h x (List.mem_cons_of_mem _ hx)
theorem Clean.takeWhile {a : Bytes} (ha : Clean a) (p : UInt8 → Bool) : Clean (a.takeWhile p) :=
  fun c hc => ha c ((List.takeWhile_sublist p).subset hc)
theorem Clean.dropWhile {a : Bytes} (ha : Clean a) (p : UInt8 → Bool) : Clean (a.dropWhile p) :=
  fun c hc => ha c ((List.dropWhile_sublist p).subset hc)

theorem contains_false_of_clean {s : Bytes} (h : Clean s) : (s.contains 10 || s.contains 0) = false := by
  rw [Bool.or_eq_false_iff]
  constructor
  · rw [← Bool.not_eq_true, List.contains_iff_mem]
    exact fun hm => (h 10 hm).1 rfl
  · rw [← Bool.not_eq_true, List.contains_iff_mem]
    exact fun hm => (h 0 hm).2 rfl

/-! ### the splitting -/

theorem dropBlanks_word {w : Bytes} (hw : Word w) (rest : Bytes) : dropBlanks (w ++ rest) = w ++ rest := by
  cases w with
  | nil => exact absurd rfl hw.ne
  | cons c cs =>
    have hc : c ≠ 32 := hw.nosp c (List.mem_cons_self ..)
    show dropBlanks (c :: (cs ++ rest)) = c :: (cs ++ rest)
    unfold dropBlanks
    split
    · rename_i heq; simp at heq; exact absurd heq.1 hc
    · rfl

theorem takeParam_nosp (w : Bytes) (h : ∀ c ∈ w, c ≠ 32) : takeParam w = (w, []) := by
  induction w with
  | nil => rfl
  | cons c cs ih =>
    have hc : c ≠ 32 := h c (List.mem_cons_self ..)
    unfold takeParam
    simp only [beq_iff_eq, hc, if_false]
    rw [ih (fun x hx => h x (List.mem_cons_of_mem _ hx))]

theorem takeParam_word_sp (w : Bytes) (h : ∀ c ∈ w, c ≠ 32) (rest : Bytes) :
    takeParam (w ++ 32 :: rest) = (w, 32 :: rest) := by
  induction w with
  | nil => simp [takeParam]
  | cons c cs ih =>
    have hc : c ≠ 32 := h c (List.mem_cons_self ..)
    show takeParam (c :: (cs ++ 32 :: rest)) = _
    unfold takeParam
    simp only [beq_iff_eq, hc, if_false]
    rw [ih (fun x hx => h x (List.mem_cons_of_mem _ hx))]

theorem otokens_succ (f : Nat) (s : Bytes) :
    otokens (f + 1) s =
      if (dropBlanks s).isEmpty then []
      else if (dropBlanks s).head? == some 58 then [(dropBlanks s).tail]
      else if (takeParam (dropBlanks s)).2.isEmpty then [(takeParam (dropBlanks s)).1]
      else (takeParam (dropBlanks s)).1 :: otokens f (takeParam (dropBlanks s)).2.tail := by
  rw [otokens]

theorem word_head_ne {w : Bytes} (hw : Word w) (rest : Bytes) :
    ((w ++ rest).isEmpty = false) ∧ (((w ++ rest).head? == some 58) = false) := by
  cases w with
  | nil => exact absurd rfl hw.ne
  | cons c cs =>
    have h58 : c ≠ 58 := by
      intro h; apply hw.nocolon; simp [h]
    simp [h58]

/-- a word followed by a blank is one parameter; the splitting goes on behind the blank -/
theorem otokens_word_sp {w : Bytes} (hw : Word w) (f : Nat) (rest : Bytes) :
    otokens (f + 1) (w ++ 32 :: rest) = w :: otokens f rest := by
  rw [otokens_succ, dropBlanks_word hw]
  obtain ⟨h1, h2⟩ := word_head_ne hw (32 :: rest)
  rw [h1, h2, takeParam_word_sp w hw.nosp rest]
  simp

/-- a word at the end of the line is the last parameter -/
theorem otokens_word_end {w : Bytes} (hw : Word w) (f : Nat) : otokens (f + 1) w = [w] := by
  rw [otokens_succ]
  have hd := dropBlanks_word hw []
  simp only [List.append_nil] at hd
  obtain ⟨h1, h2⟩ := word_head_ne hw []
  simp only [List.append_nil] at h1 h2
  rw [hd, h1, h2, takeParam_nosp w hw.nosp]
  simp

/-- ':' starts the trailing parameter, which is everything that follows -/
theorem otokens_trailing (f : Nat) (text : Bytes) : otokens (f + 1) (58 :: text) = [text] := by
  rw [otokens_succ]
  have : dropBlanks (58 :: text) = 58 :: text := by
    unfold dropBlanks
    split
    · rename_i heq; simp at heq
    · rfl
  rw [this]
  simp

theorem otokens_nil (f : Nat) : otokens f [] = [] := by
  cases f with
  | zero => rfl
  | succ n => rw [otokens_succ]; simp [dropBlanks]

/-- words joined by single blanks -/
def joinSp : List Bytes → Bytes
  | [] => []
  | [w] => w
  | w :: ws => w ++ 32 :: joinSp ws

theorem otokens_joinSp : ∀ (ws : List Bytes) (f : Nat), (∀ w ∈ ws, Word w) → ws.length ≤ f →
    otokens f (joinSp ws) = ws
  | [], f, _, _ => by simp [joinSp, otokens_nil]
  | [w], f, hw, hf => by
    cases f with
    | zero => simp at hf
    | succ n => simp only [joinSp]; exact otokens_word_end (hw w (List.mem_cons_self ..)) n
  | w :: w2 :: ws, f, hw, hf => by
    cases f with
    | zero => simp at hf
    | succ n =>
      simp only [joinSp]
      rw [otokens_word_sp (hw w (List.mem_cons_self ..))]
      rw [otokens_joinSp (w2 :: ws) n (fun x hx => hw x (List.mem_cons_of_mem _ hx)) (by simpa using hf)]

/-- words joined by blanks, then `␣:text` -/
theorem otokens_joinSp_trailing : ∀ (ws : List Bytes) (f : Nat) (text : Bytes), ws ≠ [] → (∀ w ∈ ws, Word w) →
    ws.length < f → otokens f (joinSp ws ++ 32 :: 58 :: text) = ws ++ [text]
  | [], _, _, hne, _, _ => absurd rfl hne
  | [w], f, text, _, hw, hf => by
    cases f with
    | zero => simp at hf
    | succ n =>
      cases n with
      | zero => simp at hf
      | succ m =>
        simp only [joinSp]
        rw [otokens_word_sp (hw w (List.mem_cons_self ..)), otokens_trailing]
        rfl
  | w :: w2 :: ws, f, text, _, hw, hf => by
    cases f with
    | zero => simp at hf
    | succ n =>
      simp only [joinSp, List.cons_append, List.append_assoc]
      rw [otokens_word_sp (hw w (List.mem_cons_self ..))]
      rw [otokens_joinSp_trailing (w2 :: ws) n text (by simp) (fun x hx => hw x (List.mem_cons_of_mem _ hx))
        (by simpa using hf)]
      rfl

theorem joinSp_length_le : ∀ (ws : List Bytes) (k : Nat), (∀ w ∈ ws, w.length ≤ k) →
    (joinSp ws).length ≤ ws.length * (k + 1)
  | [], k, _ => by simp [joinSp]
  | [w], k, h => by
    have := h w (List.mem_cons_self ..)
    simp only [joinSp, List.length_cons, List.length_nil]; omega
  | w :: w2 :: ws, k, h => by
    have h1 := h w (List.mem_cons_self ..)
    have ih := joinSp_length_le (w2 :: ws) k (fun x hx => h x (List.mem_cons_of_mem _ hx))
    simp only [joinSp, List.length_append, List.length_cons] at ih ⊢
    rw [Nat.add_mul]
    omega

theorem Clean.joinSp : ∀ (ws : List Bytes), (∀ w ∈ ws, Clean w) → Clean (joinSp ws)
  | [], _ => Clean.nil
  | [w], h => h w (List.mem_cons_self ..)
  | w :: w2 :: ws, h => by
    simp only [Iauthd.Proto.joinSp]
    exact Clean.append (h w (List.mem_cons_self ..))
      (Clean.cons (by decide) (by decide) (Clean.joinSp (w2 :: ws) (fun x hx => h x (List.mem_cons_of_mem _ hx))))

/-! ### decimal renderings (`%d`, `%u`) -/

def chByte (c : Char) : UInt8 := UInt8.ofNat c.toNat

theorem b_eq (s : String) : b s = s.toList.map chByte := rfl

theorem decNat_eq (n : Nat) : decNat n = (Nat.toDigits 10 n).map chByte := by
  unfold decNat
  rw [b_eq]
  simp

theorem chByte_digit {c : Char} (h : c.isDigit = true) : Bytes.isDigit (chByte c) = true := by
  have hh := Char.isDigit_iff_toNat.mp h
  have h1 : 48 ≤ c.toNat := hh.1
  have h2 : c.toNat ≤ 57 := hh.2
  unfold Bytes.isDigit chByte
  have : (UInt8.ofNat c.toNat).toNat = c.toNat := by
    rw [UInt8.toNat_ofNat']; omega
  rw [this]
  simp [h1, h2]

theorem decNat_all_digits (n : Nat) : (decNat n).all Bytes.isDigit = true := by
  rw [decNat_eq, List.all_eq_true]
  intro x hx
  obtain ⟨c, hc, rfl⟩ := List.mem_map.mp hx
  exact chByte_digit (Nat.isDigit_of_mem_toDigits (by decide) (by decide) hc)

theorem decNat_ne_nil (n : Nat) : decNat n ≠ [] := by
  rw [decNat_eq]
  intro h
  exact Nat.toDigits_ne_nil (List.map_eq_nil_iff.mp h)

theorem decNat_length_le (n k : Nat) (hk : 0 < k) (h : n < 10 ^ k) : (decNat n).length ≤ k := by
  rw [decNat_eq, List.length_map]
  exact (Nat.length_toDigits_le_iff (by decide) hk).mpr h

theorem digit_facts {x : UInt8} (h : Bytes.isDigit x = true) : x ≠ 32 ∧ x ≠ 58 ∧ x ≠ 10 ∧ x ≠ 0 := by
  unfold Bytes.isDigit at h
  simp only [Bool.and_eq_true, decide_eq_true_eq] at h
  refine ⟨?_, ?_, ?_, ?_⟩ <;> (intro e; subst e; revert h; decide)

theorem digits_word {s : Bytes} (hne : s ≠ []) (h : s.all Bytes.isDigit = true) : Word s := by
  rw [List.all_eq_true] at h
  refine ⟨hne, fun c hc => (digit_facts (h c hc)).1, ?_⟩
  cases s with
  | nil => exact absurd rfl hne
  | cons c cs =>
    simp only [List.head?_cons, ne_eq, Option.some.injEq]
    exact (digit_facts (h c (List.mem_cons_self ..))).2.1

theorem digits_clean {s : Bytes} (h : s.all Bytes.isDigit = true) : Clean s := by
  rw [List.all_eq_true] at h
  exact fun c hc => ⟨(digit_facts (h c hc)).2.2.1, (digit_facts (h c hc)).2.2.2⟩

theorem decNat_word (n : Nat) : Word (decNat n) := digits_word (decNat_ne_nil n) (decNat_all_digits n)
theorem decNat_clean (n : Nat) : Clean (decNat n) := digits_clean (decNat_all_digits n)

theorem decNat_isDecimal (n : Nat) : Hist.isDecimal (decNat n) = true := by
  unfold Hist.isDecimal
  rw [decNat_all_digits]
  cases h : decNat n with
  | nil => exact absurd h (decNat_ne_nil n)
  | cons c cs => rfl

theorem decInt_ofNat (m : Nat) : decInt (Int.ofNat m) = decNat m := rfl

theorem decInt_negSucc (m : Nat) : decInt (Int.negSucc m) = 45 :: decNat (m + 1) := by
  unfold decInt decNat
  show b (Int.repr (Int.negSucc m)) = _
  unfold Int.repr
  rw [b_eq, b_eq]
  simp [chByte]

theorem decInt_cases (i : Int) : (∃ m, decInt i = decNat m ∧ i = m) ∨ (∃ m, decInt i = 45 :: decNat (m + 1) ∧ i = Int.negSucc m) := by
  cases i with
  | ofNat m => exact Or.inl ⟨m, rfl, rfl⟩
  | negSucc m => exact Or.inr ⟨m, decInt_negSucc m, rfl⟩

theorem decInt_signed (i : Int) : Hist.isSignedDecimal (decInt i) = true := by
  rcases decInt_cases i with ⟨m, h, _⟩ | ⟨m, h, _⟩
  · rw [h]
    unfold Hist.isSignedDecimal
    have hd := decNat_isDecimal m
    cases hm : decNat m with
    | nil => exact absurd hm (decNat_ne_nil m)
    | cons c cs =>
      have hc : Bytes.isDigit c = true := by
        have := decNat_all_digits m
        rw [hm, List.all_eq_true] at this
        exact this c (List.mem_cons_self ..)
      have : c ≠ 45 := by intro e; subst e; revert hc; decide
      split
      · rename_i heq; simp at heq; exact absurd heq.1 this
      · rw [← hm]; exact hd
  · rw [h]
    unfold Hist.isSignedDecimal
    exact decNat_isDecimal (m + 1)

theorem decInt_word (i : Int) : Word (decInt i) := by
  rcases decInt_cases i with ⟨m, h, _⟩ | ⟨m, h, _⟩
  · rw [h]; exact decNat_word m
  · rw [h]
    have hw := decNat_word (m + 1)
    refine ⟨by simp, ?_, by simp⟩
    intro c hc
    rcases List.mem_cons.mp hc with rfl | h'
    · decide
    · exact hw.nosp c h'

theorem decInt_clean (i : Int) : Clean (decInt i) := by
  rcases decInt_cases i with ⟨m, h, _⟩ | ⟨m, h, _⟩
  · rw [h]; exact decNat_clean m
  · rw [h]; exact Clean.cons (by decide) (by decide) (decNat_clean (m + 1))

/-- a 32-bit id takes at most 11 characters -/
theorem decInt_length_le (i : Int) (h1 : -2147483648 ≤ i) (h2 : i ≤ 2147483647) : (decInt i).length ≤ 11 := by
  rcases decInt_cases i with ⟨m, h, hi⟩ | ⟨m, h, hi⟩
  · rw [h]
    have : (decNat m).length ≤ 10 := decNat_length_le m 10 (by decide) (by omega)
    omega
  · rw [h]
    have hm : m + 1 < 10 ^ 10 := by
      rw [hi] at h1
      have : (Int.negSucc m : Int) = -((m : Int) + 1) := Int.negSucc_eq m
      omega
    have : (decNat (m + 1)).length ≤ 10 := decNat_length_le (m + 1) 10 (by decide) hm
    simp only [List.length_cons]; omega

end Iauthd.Proto

namespace Iauthd.Proto
open Iauthd Iauthd.Proto.Hist

/-! ### whole lines -/

theorem otokens_joinSp_then : ∀ (ws : List Bytes) (f : Nat) (rest : Bytes), ws ≠ [] → (∀ w ∈ ws, Word w) →
    otokens (ws.length + f) (joinSp ws ++ 32 :: rest) = ws ++ otokens f rest
  | [], _, _, hne, _ => absurd rfl hne
  | [w], f, rest, _, hw => by
    simp only [joinSp, List.length_cons, List.length_nil, Nat.zero_add]
    rw [Nat.add_comm, otokens_word_sp (hw w (List.mem_cons_self ..))]
    rfl
  | w :: w2 :: ws, f, rest, _, hw => by
    simp only [joinSp, List.cons_append, List.append_assoc, List.length_cons]
    rw [show ws.length + 1 + 1 + f = (ws.length + 1 + f) + 1 by omega]
    rw [otokens_word_sp (hw w (List.mem_cons_self ..))]
    have ih := otokens_joinSp_then (w2 :: ws) f rest (by simp) (fun x hx => hw x (List.mem_cons_of_mem _ hx))
    simp only [List.length_cons] at ih
    rw [ih]
    rfl

/-- bytes without a blank: at most one parameter, exactly one when not empty -/
theorem otokens_nosp (x : Bytes) (f : Nat) (h : ∀ c ∈ x, c ≠ 32) :
    (otokens (f + 1) x).length = if x = [] then 0 else 1 := by
  cases x with
  | nil => simp [otokens_nil]
  | cons c cs =>
    by_cases h58 : c = 58
    · subst h58; rw [otokens_trailing]; simp
    · rw [otokens_word_end ⟨by simp, h, by simp [h58]⟩]; simp

/-- `a␣c` with blank-free non-empty parts: one or two parameters (one when `a` begins with ':') -/
theorem otokens_two (a c : Bytes) (f : Nat) (ha : ∀ x ∈ a, x ≠ 32) (hane : a ≠ []) (hc : ∀ x ∈ c, x ≠ 32) (hcne : c ≠ []) :
    (otokens (f + 2) (a ++ 32 :: c)).length = 1 ∨ (otokens (f + 2) (a ++ 32 :: c)).length = 2 := by
  by_cases h58 : a.head? = some 58
  · left
    cases a with
    | nil => exact absurd rfl hane
    | cons x xs =>
      simp only [List.head?_cons, Option.some.injEq] at h58
      subst h58
      rw [List.cons_append, otokens_trailing]
      rfl
  · right
    rw [otokens_word_sp ⟨hane, ha, h58⟩]
    have := otokens_nosp c f hc
    rw [if_neg hcne] at this
    simp [this]

theorem take_joinSp_trailing (pre text : Bytes) (n : Nat) (h : pre.length + 2 ≤ n) :
    (pre ++ 32 :: 58 :: text).take n = pre ++ 32 :: 58 :: text.take (n - (pre.length + 2)) := by
  rw [List.take_append]
  have h1 : pre.take n = pre := List.take_of_length_le (by omega)
  rw [h1]
  have h2 : n - pre.length = (n - (pre.length + 2)) + 2 := by omega
  rw [h2]
  rfl

/-- the four leading parameters of every client-directed line -/
structure HeadOK (r : Req) : Prop where
  client : -2147483648 ≤ r.client ∧ r.client ≤ 2147483647
  port : r.port < 65536
  addrW : Word r.textAddr
  addrC : Clean r.textAddr
  addrL : r.textAddr.length ≤ 39

def headWords (letter : UInt8) (r : Req) : List Bytes := [[letter], decInt r.client, r.textAddr, decNat r.port]

theorem letter_word {letter : UInt8} (h : letter ∈ clientLetters) : Word [letter] := by
  refine ⟨by simp, ?_, ?_⟩
  · intro c hc
    simp only [List.mem_singleton] at hc
    subst hc
    intro e; subst e; revert h; decide
  · simp only [List.head?_cons, ne_eq, Option.some.injEq]
    intro e; subst e; revert h; decide

theorem letter_clean {letter : UInt8} (h : letter ∈ clientLetters) : Clean [letter] := by
  intro c hc
  simp only [List.mem_singleton] at hc
  subst hc
  constructor <;> (intro e; subst e; revert h; decide)

theorem headWords_word {letter : UInt8} {r : Req} (hl : letter ∈ clientLetters) (hr : HeadOK r) :
    ∀ w ∈ headWords letter r, Word w := by
  intro w hw
  simp only [headWords, List.mem_cons, List.not_mem_nil, or_false] at hw
  rcases hw with rfl | rfl | rfl | rfl
  · exact letter_word hl
  · exact decInt_word _
  · exact hr.addrW
  · exact decNat_word _

theorem headWords_clean {letter : UInt8} {r : Req} (hl : letter ∈ clientLetters) (hr : HeadOK r) :
    Clean (joinSp (headWords letter r)) := by
  apply Clean.joinSp
  intro w hw
  simp only [headWords, List.mem_cons, List.not_mem_nil, or_false] at hw
  rcases hw with rfl | rfl | rfl | rfl
  · exact letter_clean hl
  · exact decInt_clean _
  · exact hr.addrC
  · exact decNat_clean _

theorem headWords_length {letter : UInt8} {r : Req} (hr : HeadOK r) : (joinSp (headWords letter r)).length ≤ 59 := by
  have h1 := decInt_length_le r.client hr.client.1 hr.client.2
  have h2 := decNat_length_le r.port 5 (by decide) (by have := hr.port; omega)
  have h3 := hr.addrL
  simp only [headWords, joinSp, List.length_append, List.length_cons, List.length_nil]
  omega

theorem sendReq_eq (r : Req) (letter : UInt8) (rest : Bytes) :
    sendReq r [letter] rest = (joinSp (headWords letter r) ++ rest).take 1023 := by
  unfold sendReq truncBuf headWords sp
  simp [joinSp, List.append_assoc]

/-- what may follow the port, per letter -/
inductive RestOK : UInt8 → Bytes → Prop where
  | bare_d : RestOK 100 []
  | bare_D : RestOK 68 []
  | one (letter : UInt8) (x : Bytes) : (letter = 68 ∨ letter = 85 ∨ letter = 82) → x ≠ [] → (∀ c ∈ x, c ≠ 32) → Clean x →
      x.length ≤ 900 → RestOK letter (32 :: x)
  | two (a c : Bytes) : a ≠ [] → (∀ x ∈ a, x ≠ 32) → Clean a → c ≠ [] → (∀ x ∈ c, x ≠ 32) → Clean c →
      a.length + c.length ≤ 900 → RestOK 82 (32 :: (a ++ 32 :: c))
  | trailing (letter : UInt8) (text : Bytes) : (letter = 107 ∨ letter = 77 ∨ letter = 67) → Clean text →
      RestOK letter (32 :: 58 :: text)

theorem parseOut_client {letter : UInt8} {r : Req} (hl : letter ∈ clientLetters) (hr : HeadOK r)
    (line : Bytes) (hc : Clean line) (more : List Bytes)
    (htok : otokens 16 line = headWords letter r ++ more) :
    parseOut line = .client letter ((strtol 10 (decInt r.client)).1) r.textAddr (decNat r.port) more := by
  unfold parseOut
  rw [contains_false_of_clean hc]
  simp only [Bool.false_eq_true, if_false, htok, headWords, List.cons_append, List.nil_append]
  have hlc : clientLetters.contains letter = true := List.contains_iff_mem.mpr hl
  simp [hlc, hl, decInt_signed, decNat_isDecimal]

theorem sendReq_wellFormed {letter : UInt8} {r : Req} {rest : Bytes} (hl : letter ∈ clientLetters)
    (hr : HeadOK r) (hrest : RestOK letter rest) : wellFormed (sendReq r [letter] rest) = true := by
  have hlen := headWords_length (letter := letter) hr
  have hW := headWords_word hl hr
  have hC := headWords_clean hl hr
  have hne : headWords letter r ≠ [] := by simp [headWords]
  rw [sendReq_eq]
  unfold wellFormed
  cases hrest with
  | bare_d =>
    have e : (joinSp (headWords 100 r) ++ []).take 1023 = joinSp (headWords 100 r) := by
      rw [List.append_nil]; exact List.take_of_length_le (by omega)
    rw [e, parseOut_client hl hr _ hC [] (by rw [List.append_nil]; exact otokens_joinSp _ 16 hW (by simp [headWords]))]
    rfl
  | bare_D =>
    have e : (joinSp (headWords 68 r) ++ []).take 1023 = joinSp (headWords 68 r) := by
      rw [List.append_nil]; exact List.take_of_length_le (by omega)
    rw [e, parseOut_client hl hr _ hC [] (by rw [List.append_nil]; exact otokens_joinSp _ 16 hW (by simp [headWords]))]
    rfl
  | one _ x hlet hxne hxs hxc hxl =>
    have e : (joinSp (headWords letter r) ++ 32 :: x).take 1023 = joinSp (headWords letter r) ++ 32 :: x :=
      List.take_of_length_le (by simp only [List.length_append, List.length_cons]; omega)
    have ht := otokens_joinSp_then (headWords letter r) 12 x hne hW
    have hcount := otokens_nosp x 11 hxs
    rw [if_neg hxne] at hcount
    rw [e, parseOut_client hl hr _ (Clean.append hC (Clean.cons (by decide) (by decide) hxc)) _ ht]
    simp only [clientShapeOk]
    rcases hlet with rfl | rfl | rfl <;> simp [hcount]
  | two a c hane has hac hcne hcs hcc hl2 =>
    have e : (joinSp (headWords 82 r) ++ 32 :: (a ++ 32 :: c)).take 1023 = joinSp (headWords 82 r) ++ 32 :: (a ++ 32 :: c) :=
      List.take_of_length_le (by simp only [List.length_append, List.length_cons]; omega)
    have ht := otokens_joinSp_then (headWords 82 r) 12 (a ++ 32 :: c) hne hW
    have hcount := otokens_two a c 10 has hane hcs hcne
    rw [e, parseOut_client hl hr _ (Clean.append hC (Clean.cons (by decide) (by decide)
      (Clean.append hac (Clean.cons (by decide) (by decide) hcc)))) _ ht]
    simp only [clientShapeOk]
    rcases hcount with h | h <;> simp [h]
  | trailing _ text hlet htc =>
    rw [take_joinSp_trailing _ _ _ (by omega)]
    have ht := otokens_joinSp_trailing (headWords letter r) 16 (text.take (1023 - ((joinSp (headWords letter r)).length + 2))) hne hW
      (by simp [headWords])
    rw [parseOut_client hl hr _ (Clean.append hC (Clean.cons (by decide) (by decide) (Clean.cons (by decide) (by decide) (htc.take _)))) _ ht]
    simp only [clientShapeOk]
    rcases hlet with rfl | rfl | rfl <;> rfl

end Iauthd.Proto
