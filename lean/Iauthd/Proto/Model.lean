import Iauthd.Proto.Text
import Iauthd.Proto.AddrIface
/-
  Model of the IAuth line protocol: modules/iauth_core.c (dispatcher, request table,
  gate, output formatter), modules/iauth_xquery.c (service table, per-client masks,
  holds, replies, passwords), modules/iauth_class.c (rule compilation and evaluation).

  Structure (DESIGN.md 6.0):   bytes --tokenize--> Line --step--> State × outputs (bytes).
  Every C handler is mirrored including its oddities.  NULL dereferences and failed
  assertions of the C text are explicit `Fault` outcomes.

  Sets (`struct set`) are sorted association lists (justified by Iauthd.Properties.C19).
-/
namespace Iauthd.Proto
open Iauthd

inductive Fault where
  | nullDeref (site : String)
  | assertFail (site : String)
  deriving Repr, BEq, DecidableEq

abbrev M := Except Fault

/-! ## Data -/

/-- `enum iauth_flags` as a record of Booleans -/
structure Flags where
  responded : Bool := false
  softDone : Bool := false
  gotHost : Bool := false
  gotIdent : Bool := false
  gotNick : Bool := false
  gotUser : Bool := false
  gotPass : Bool := false
  gotHurry : Bool := false
  emptyIdent : Bool := false
  timedOut : Bool := false
  deriving Repr, BEq, DecidableEq, Inhabited

/-- `!BITSET_H_ANDNOT(a, b)`: every flag of `a` is in `b` -/
def Flags.subset (a b : Flags) : Bool :=
  (!a.responded || b.responded) && (!a.softDone || b.softDone) && (!a.gotHost || b.gotHost) &&
  (!a.gotIdent || b.gotIdent) && (!a.gotNick || b.gotNick) && (!a.gotUser || b.gotUser) &&
  (!a.gotPass || b.gotPass) && (!a.gotHurry || b.gotHurry) && (!a.emptyIdent || b.emptyIdent) &&
  (!a.timedOut || b.timedOut)

def Flags.or (a b : Flags) : Flags :=
  { responded := a.responded || b.responded, softDone := a.softDone || b.softDone,
    gotHost := a.gotHost || b.gotHost, gotIdent := a.gotIdent || b.gotIdent,
    gotNick := a.gotNick || b.gotNick, gotUser := a.gotUser || b.gotUser,
    gotPass := a.gotPass || b.gotPass, gotHurry := a.gotHurry || b.gotHurry,
    emptyIdent := a.emptyIdent || b.emptyIdent, timedOut := a.timedOut || b.timedOut }

/-- bit positions as in `enum iauth_flags` (for the `%#x` in stale-request reports; unused otherwise) -/
def Flags.toNat (f : Flags) : Nat :=
  (if f.responded then 1 else 0) + (if f.softDone then 2 else 0) + (if f.gotHost then 4 else 0) +
  (if f.gotIdent then 8 else 0) + (if f.gotNick then 16 else 0) + (if f.gotUser then 32 else 0) +
  (if f.gotPass then 64 else 0) + (if f.gotHurry then 128 else 0) + (if f.emptyIdent then 256 else 0) + (if f.timedOut then 512 else 0)

inductive SvcTy where
  | login | loginIpr | dronecheck | combined
  deriving Repr, BEq, DecidableEq, Inhabited

def SvcTy.name : SvcTy → Bytes
  | .login => b "login" | .loginIpr => b "login-ipr" | .dronecheck => b "dronecheck" | .combined => b "combined"

/-- `iauth_xquery_flags[type]` -/
def SvcTy.prereq : SvcTy → Flags
  | .login => { gotPass := true }
  | .loginIpr => { gotHost := true, gotIdent := true, gotPass := true }
  | .dronecheck => { gotHost := true, gotIdent := true, gotNick := true, gotUser := true }
  | .combined => { gotHost := true, gotIdent := true, gotNick := true, gotUser := true }

/-- `struct iauth_xquery_service` -/
structure Svc where
  name : Bytes
  ty : SvcTy := .login           -- zeroed allocation: LOGIN
  configured : Bool := false
  refs : Nat := 0
  queries : Nat := 0
  goodAcct : Nat := 0
  goodNoAcct : Nat := 0
  bad : Nat := 0
  badAcct : Nat := 0
  unlinked : Nat := 0
  deriving Repr, BEq, DecidableEq, Inhabited

/-- `struct iauth_xquery_client`; the 32-bit masks are sets of slot indices -/
structure XqCli where
  modeX : Bool := false
  modeBang : Bool := false
  sent : List Nat := []
  ref : List Nat := []
  more : List Nat := []
  ok : List Nat := []
  cred : Bytes := []
  deriving Repr, BEq, DecidableEq, Inhabited

def maskAdd (m : List Nat) (i : Nat) : List Nat := if m.contains i then m else i :: m
def maskDel (m : List Nat) (i : Nat) : List Nat := m.filter (· != i)

inductive TimerSt where
  | none | armed | fired
  deriving Repr, BEq, DecidableEq, Inhabited

/-- `struct iauth_request` -/
structure Req where
  client : Int
  serial : Nat
  holds : Int := 0
  soft : Int := 0
  flags : Flags := {}
  addr : Addr.Addr := Addr.Addr.zero
  port : Nat := 0
  textAddr : Bytes := []
  hostname : Bytes := []
  cliUser : Bytes := []
  authUser : Bytes := []
  nick : Bytes := []
  real : Bytes := []
  account : Bytes := []
  cls : Bytes := []
  xq : Option XqCli := none
  timer : TimerSt := .none
  deriving Repr, BEq, DecidableEq, Inhabited

/-- `struct iauth_class_rule` -/
structure Rule where
  name : Bytes
  cls : Option Bytes := none
  account : Option Bytes := none
  username : Option Bytes := none
  hostname : Option Bytes := none
  xreplyOk : Option Bytes := none
  addr : Addr.Addr := Addr.Addr.zero
  bits : Nat := 0
  trustUsername : Bool := false
  assigned : Nat := 0
  deriving Repr, BEq, DecidableEq, Inhabited

/-- the length limits of modules/iauth.h (NICKLEN, USERLEN, HOSTLEN, REALLEN, ACCOUNTLEN,
    CLASSLEN); regenerated from the header on every run and handed to the driver -/
structure Limits where
  nick : Nat := 30
  user : Nat := 10
  host : Nat := 63
  real : Nat := 50
  account : Nat := 64
  cls : Nat := 63
  deriving Repr, BEq, DecidableEq, Inhabited

structure Stats where
  reqAllocs : Nat := 0
  reqFrees : Nat := 0
  dataFrees : Nat := 0
  cliAllocs : Nat := 0
  srvAllocs : Nat := 0
  srvFrees : Nat := 0
  clsAlready : Nat := 0
  clsAssigned : Nat := 0
  clsNot : Nat := 0
  deriving Repr, BEq, DecidableEq, Inhabited

structure State where
  hasXq : Bool := false
  hasClass : Bool := false
  timeout : Nat := 0                -- iauth.timeout in seconds
  reqs : List Req := []             -- sorted by client id
  serial : Nat := 0                 -- 32-bit
  svcs : List (Option Svc) := []    -- vector with NULL holes
  rules : List Rule := []
  nRuleNodes : Nat := 0             -- set_size(&conf.root->contents) of iauth_class
  stats : Stats := {}
  cleanExit : Bool := false
  inbuf : Bytes := []
  lim : Limits := {}
  deriving Repr, BEq, Inhabited

/-- `iauth_flags` after `calc_iauth_flags` -/
def State.need (s : State) : Flags :=
  if s.hasXq then { gotHost := true, gotUser := true, gotNick := true, gotIdent := true }
  else { gotHost := true }

/-! ## Output formatting (`iauth_send` and friends) -/

def sp : Bytes := [32]

/-- `iauth_send(req, "<first><rest>")` -/
def sendReq (r : Req) (first rest : Bytes) : Bytes :=
  truncBuf 1024 (first ++ sp ++ decInt r.client ++ sp ++ r.textAddr ++ sp ++ decNat r.port ++ rest)

/-- `iauth_send(NULL, …)` -/
def sendRaw (text : Bytes) : Bytes := truncBuf 1024 text

/-- `iauth_routing` (buffer ROUTINGLEN = 60 never too small for two 32-bit hex numbers) -/
def routing (r : Req) : Bytes := hexInt32 r.client ++ b "_" ++ hexNat r.serial

def xquery (svc tag payload : Bytes) : Bytes :=
  sendRaw (b "X " ++ svc ++ sp ++ tag ++ b " :" ++ truncBuf 1024 payload)

def reportConfig (modName text : Bytes) : Bytes := sendRaw (b "A " ++ modName ++ b " :" ++ truncBuf 1024 text)
def reportStats (modName text : Bytes) : Bytes := sendRaw (b "S " ++ modName ++ b " :" ++ truncBuf 1024 text)
def sendOpers (text : Bytes) : Bytes := sendRaw (b "> :" ++ text)

/-! ## Request table -/

def findReq (reqs : List Req) (id : Int) : Option Req := reqs.find? (·.client == id)

def insertReq (r : Req) : List Req → List Req
  | [] => [r]
  | q :: qs => if r.client < q.client then r :: q :: qs
               else if r.client == q.client then r :: qs
               else q :: insertReq r qs

def removeReq (id : Int) (reqs : List Req) : List Req := reqs.filter (·.client != id)

/-- write back a live request -/
def putReq (r : Req) (reqs : List Req) : List Req := reqs.map fun q => if q.client == r.client then r else q

/-! ## Per-request computation: handlers work on (request, services, stats, outputs) -/

structure Ctx where
  req : Req
  svcs : List (Option Svc)
  rules : List Rule
  stats : Stats
  out : List Bytes := []       -- in emission order
  gone : Bool := false         -- request removed (verdict)
  lim : Limits := {}
  deriving Repr, Inhabited

def Ctx.emit (c : Ctx) (l : Bytes) : Ctx := { c with out := c.out ++ [l] }

def getSvc (svcs : List (Option Svc)) (i : Nat) : Option Svc := (svcs.getD i none)
def setSvc (svcs : List (Option Svc)) (i : Nat) (v : Option Svc) : List (Option Svc) := svcs.set i v

/-- `iauth_xquery_unref(ii)` -/
def unrefSvc (c : Ctx) (i : Nat) : Ctx :=
  match getSvc c.svcs i with
  | some srv =>
    if srv.refs > 0 || srv.configured then c
    else { c with svcs := setSvc c.svcs i none, stats := { c.stats with srvFrees := c.stats.srvFrees + 1 } }
  | none => c

/-! ### class module: rule evaluation at `pre_registered` -/

/-- `iauth_xreply_ok(req, service)`: result as the C `int` -/
def xreplyOk (svcs : List (Option Svc)) (r : Req) (service : Bytes) : Int :=
  match r.xq with
  | none => -1
  | some cli =>
    let rec go : Nat → List (Option Svc) → Int
      | _, [] => -4
      | i, none :: rest => go (i + 1) rest
      | i, some srv :: rest =>
        if Bytes.strcasecmp service srv.name != 0 then go (i + 1) rest
        else if cli.ok.contains i then 1
        else if cli.ref.contains i then 0
        else if !cli.sent.contains i then -2
        else -3
    go 0 svcs

def accountBase (acct : Bytes) : Bytes := acct.takeWhile (· != 58)

/-- the criteria part of `iauth_class_rule_check` -/
def ruleMatches (svcs : List (Option Svc)) (rule : Rule) (r : Req) : Bool :=
  (match rule.account with | some p => glob p (accountBase r.account) | none => true) &&
  (rule.bits == 0 || checkMaskC r.addr rule.addr rule.bits) &&
  (match rule.username with | some p => glob p r.authUser | none => true) &&
  (match rule.hostname with | some p => glob p r.hostname | none => true) &&
  (match rule.xreplyOk with | some sname => xreplyOk svcs r sname > 0 | none => true)

/-- `strlcpy(req->class, …, CLASSLEN)`: at most CLASSLEN - 1 bytes -/
def strlcpyN (n : Nat) (s : Bytes) : Bytes := s.take (n - 1)

end Iauthd.Proto
