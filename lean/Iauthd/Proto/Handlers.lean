import Iauthd.Proto.Model
/-
  The handlers of iauth_core.c / iauth_xquery.c / iauth_class.c on one request.
-/
namespace Iauthd.Proto
open Iauthd

/-- static part of the daemon's state a per-request handler may read -/
structure Static where
  need : Flags
  hasXq : Bool
  hasClass : Bool
  deriving Repr

def updReq (c : Ctx) (f : Req → Req) : Ctx := { c with req := f c.req }

/-! ### core: verdicts and the gate -/

/-- `parse_registered(req, 0)` / disposal of the request: statistics only; the caller
    removes it from the table when `gone` is set. -/
def finishReq (c : Ctx) : Ctx :=
  { c with gone := true,
           stats := { c.stats with reqFrees := c.stats.reqFrees + 1,
                                   dataFrees := c.stats.dataFrees + (if c.req.xq.isSome then 1 else 0) } }

def softDone (c : Ctx) : Ctx :=
  let c := updReq c fun r => { r with flags := { r.flags with softDone := true } }
  c.emit (sendReq c.req (b "d") [])

/-- the non-accepting part of `iauth_check_request`, used for the nested call from
    `iauth_trust_username`; a nested acceptance is the re-entrancy fault F22. -/
def gateNested (st : Static) (c : Ctx) : M Ctx :=
  let r := c.req
  if r.holds == 0 && !r.flags.responded && st.need.subset r.flags then
    if r.soft == 0 || r.flags.timedOut then throw (.assertFail "iauth_accept re-entered from pre_registered (use after free)")
    else if !r.flags.softDone then pure (softDone c)
    else pure c
  else pure c

/-- `iauth_trust_username` -/
def trustUsername (st : Static) (c : Ctx) (name : Bytes) : M Ctx := do
  let c := c.emit (sendReq c.req (b "U") (sp ++ name))
  if !c.req.flags.gotIdent then
    let c := updReq c fun r => { r with flags := { r.flags with gotIdent := true } }
    gateNested st c
  else pure c

/-- the name `iauth_class_rule_check` passes to `iauth_trust_username`:
    `req->cli_username + (req->cli_username[0] == '~')` -/
def trustName (r : Req) : Bytes := r.cliUser.drop (if r.cliUser.head? == some 126 then 1 else 0)

/-- `rule->trust_username && (req->auth_username[0] == '~')` -/
def wantsTrust (rule : Rule) (r : Req) : Bool := rule.trustUsername && r.authUser.head? == some 126

/-- `iauth_class_foreach_rule(iauth_class_rule_check, req)`; returns the context and the
    rules with the hit counter of the applied rule bumped -/
def classRules (st : Static) : List Rule → Ctx → M (Ctx × List Rule)
  | [], c => pure (c, [])
  | rule :: rest, c =>
    if ruleMatches c.svcs rule c.req then do
      let c ←
        if wantsTrust rule c.req && !(trustName c.req).isEmpty then trustUsername st c (trustName c.req)
        else pure c
      let c := updReq c fun r => { r with cls := strlcpyN c.lim.cls (rule.cls.getD rule.name) }
      pure (c, { rule with assigned := rule.assigned + 1 } :: rest)
    else do
      let (c, rest') ← classRules st rest c
      pure (c, rule :: rest')

/-- `iauth_class_assign` (the `pre_registered` callback) -/
def classAssign (st : Static) (c : Ctx) : M Ctx := do
  if !c.req.cls.isEmpty then
    pure { c with stats := { c.stats with clsAlready := c.stats.clsAlready + 1 } }
  else
    let (c, rules) ← classRules st c.rules c
    let c := { c with rules := rules }
    if c.req.cls.isEmpty then pure { c with stats := { c.stats with clsNot := c.stats.clsNot + 1 } }
    else pure { c with stats := { c.stats with clsAssigned := c.stats.clsAssigned + 1 } }

/-- `iauth_accept` -/
def accept (st : Static) (c : Ctx) : M Ctx := do
  if c.req.flags.responded then throw (.assertFail "iauth_accept: already responded")
  let c ← if st.hasClass then classAssign st c else pure c
  let c := updReq c fun r => { r with flags := { r.flags with responded := true } }
  let r := c.req
  let line :=
    if !r.account.isEmpty && !r.cls.isEmpty then sendReq r (b "R") (sp ++ r.account ++ sp ++ r.cls)
    else if !r.account.isEmpty then sendReq r (b "R") (sp ++ r.account)
    else if !r.cls.isEmpty then sendReq r (b "D") (sp ++ r.cls)
    else sendReq r (b "D") []
  pure (finishReq (c.emit line))

/-- `iauth_kill` -/
def kill (c : Ctx) (reason : Bytes) : M Ctx := do
  if c.req.flags.responded then throw (.assertFail "iauth_kill: already responded")
  let c := updReq c fun r => { r with flags := { r.flags with responded := true } }
  pure (finishReq (c.emit (sendReq c.req (b "k") (b " :" ++ reason))))

/-- `iauth_check_request` -/
def gate (st : Static) (c : Ctx) : M Ctx :=
  let r := c.req
  if r.holds == 0 && !r.flags.responded && st.need.subset r.flags then
    if r.soft == 0 || r.flags.timedOut then accept st c
    else if !r.flags.softDone then pure (softDone c)
    else pure c
  else pure c

/-! ### xquery: sending queries -/

/-- user name as `iauth_xquery_check` builds it -/
def xqUsername (lim : Limits) (r : Req) : Bytes :=
  let u :=
    if !r.authUser.isEmpty then strncpyN (lim.user + 1) r.authUser
    else if r.cliUser.head? == some 126 then strncpyN (lim.user + 1) r.cliUser
    else if !r.cliUser.isEmpty then 126 :: strncpyN (lim.user + 1) r.cliUser
    else []
  u.take lim.user

def xqHostname (r : Req) : Bytes := if r.hostname.isEmpty then r.textAddr else r.hostname

/-- the four `continue` tests of the service loop of `iauth_xquery_check` -/
def xqEligible (isPassword : Bool) (srv : Svc) (cli : XqCli) (i : Nat) (flags : Flags) : Bool :=
  srv.configured
  && !(cli.sent.contains i && (!isPassword || srv.ty == .dronecheck))     -- already asked this server
  && !((srv.ty == .login || srv.ty == .loginIpr) && cli.cred.isEmpty)     -- no login-type request without password
  && srv.ty.prereq.subset flags                                           -- necessary information present

/-- the X lines one eligible service gets (CHECK and/or LOGIN / LOGIN2) -/
def xqQueryLines (lim : Limits) (srv : Svc) (cli : XqCli) (r : Req) : List Bytes :=
  let tag := routing r
  -- the user name is only computed when some non-LOGIN service needs it; it is a function
  -- of the request, so computing it per service is the same
  let user := if srv.ty != .login then xqUsername lim r else []
  let host := xqHostname r
  (if srv.ty == .dronecheck || srv.ty == .combined then
     [xquery srv.name tag (b "CHECK " ++ r.nick ++ sp ++ user ++ sp ++ r.textAddr ++ sp ++ host ++ b " :" ++ r.real)]
   else [])
  ++ (if cli.cred.isEmpty then []
      else if srv.ty == .login || srv.ty == .combined then [xquery srv.name tag (b "LOGIN " ++ cli.cred)]
      else if srv.ty == .loginIpr then
        [xquery srv.name tag (b "LOGIN2 " ++ r.textAddr ++ sp ++ host ++ sp ++ user ++ sp ++ cli.cred)]
      else [])

/-- bookkeeping after the queries: service counters, the first outstanding query takes
    one soft hold -/
def xqTake (c : Ctx) (srv : Svc) (cli : XqCli) (i : Nat) : Ctx :=
  let c := { c with svcs := setSvc c.svcs i (some { srv with queries := srv.queries + 1, refs := srv.refs + 1 }) }
  if cli.ref.isEmpty then updReq c fun r => { r with soft := r.soft + 1 } else c

/-- one iteration of the service loop of `iauth_xquery_check` for slot `i` -/
def xqCheckSlot (isPassword : Bool) (c : Ctx) (cli : XqCli) (i : Nat) : Ctx × XqCli :=
  match getSvc c.svcs i with
  | none => (c, cli)
  | some srv =>
    if !xqEligible isPassword srv cli i c.req.flags then (c, cli)
    else
      let c := { c with out := c.out ++ xqQueryLines c.lim srv cli c.req }
      (xqTake c srv cli i, { cli with ref := maskAdd cli.ref i, sent := maskAdd cli.sent i })

def xqCheckLoop (isPassword : Bool) : List Nat → Ctx → XqCli → Ctx × XqCli
  | [], c, cli => (c, cli)
  | i :: is, c, cli => let (c, cli) := xqCheckSlot isPassword c cli i; xqCheckLoop isPassword is c cli

/-- `iauth_xquery_check(req, flag)` -/
def xqCheck (isPassword : Bool) (c : Ctx) : Ctx :=
  match c.req.xq with
  | none => c
  | some cli =>
    let (c, cli) := xqCheckLoop isPassword (List.range c.svcs.length) c cli
    updReq c fun r => { r with xq := some cli }

/-! ### xquery: passwords -/

structure ModeAcc where
  setX : Bool := false
  setBang : Bool := false
  clrX : Bool := false
  clrBang : Bool := false
  set : Bool := false

/-- the `<mode>` scanner of `iauth_xquery_check_password`; `none` = return (NUL reached) -/
def scanModes : Bytes → ModeAcc → Option (ModeAcc × Bytes)
  | [], _ => none                                  -- '\0' before a blank
  | 32 :: rest, m => some (m, 32 :: rest)
  | c :: rest, m =>
    if c == 43 then scanModes rest { m with set := true }
    else if c == 45 then scanModes rest { m with set := false }
    else if c == 120 then
      scanModes rest (if m.set then { m with setX := true, clrX := false } else { m with setX := false, clrX := true })
    else if c == 33 then
      scanModes rest (if m.set then { m with setBang := true, clrBang := false } else { m with setBang := false, clrBang := true })
    else scanModes rest m

/-- shape check: `some (modes, credentials)` iff the password is processed -/
def checkPasswordShape (pw : Bytes) : Option (ModeAcc × Bytes) :=
  match pw with
  | [] => none
  | c :: _ =>
    if c != 45 && c != 43 then none
    else match scanModes pw {} with
      | none => none
      | some (m, rest) =>
        let cred := rest.dropWhile (· == 32)
        if cred.contains 32 then some (m, cred) else none

/-- the hold arithmetic of `iauth_xquery_check_password`: take the +! hold when +! becomes
    set, release it when it becomes unset, both only while the client has no account -/
def holdsAfterPassword (holds : Int) (was bang noAccount : Bool) : Int :=
  if bang && !was && noAccount then holds + 1
  else if !bang && was && noAccount then holds - 1
  else holds

/-- `iauth_xquery_check_password` -/
def xqCheckPassword (c : Ctx) (cli : XqCli) (pw : Bytes) : Ctx :=
  match checkPasswordShape pw with
  | none => c
  | some (m, cred) =>
    let x := (cli.modeX && !m.clrX) || m.setX
    let bang := (cli.modeBang && !m.clrBang) || m.setBang
    let cli' := { cli with modeX := x, modeBang := bang, cred := strncpyN 511 cred }
    let c := updReq c fun r =>
      { r with holds := holdsAfterPassword r.holds cli.modeBang bang r.account.isEmpty, xq := some cli' }
    xqCheck true c

def xqMoreLoop (pw : Bytes) : List Nat → Ctx → XqCli → Ctx × XqCli
  | [], c, cli => (c, cli)
  | i :: is, c, cli =>
    if !cli.more.contains i then xqMoreLoop pw is c cli
    else match getSvc c.svcs i with
      | none => xqMoreLoop pw is c cli
      | some srv =>
        if !srv.configured then xqMoreLoop pw is c cli
        else
          let c := c.emit (xquery srv.name (routing c.req) (b "MORE " ++ pw))
          let c := if cli.ref.isEmpty then updReq c fun r => { r with soft := r.soft + 1 } else c
          let c := { c with svcs := setSvc c.svcs i (some { srv with refs := srv.refs + 1 }) }
          xqMoreLoop pw is c { cli with more := maskDel cli.more i, ref := maskAdd cli.ref i }

/-- `iauth_xquery_password` -/
def xqPassword (c : Ctx) (pw : Option Bytes) : M Ctx :=
  match c.req.xq with
  | none => pure c
  | some cli =>
    if cli.more.isEmpty || cli.cred.isEmpty then
      match pw with
      | none => throw (.nullDeref "iauth_xquery_check_password(password = NULL)")
      | some pw => pure (xqCheckPassword c cli pw)
    else
      -- vsnprintf("%s", NULL) prints "(null)" with glibc; the core no longer passes NULL
      let pw := pw.getD (b "(null)")
      let (c, cli) := xqMoreLoop pw (List.range c.svcs.length) c cli
      pure (updReq c fun r => { r with xq := some cli })

/-! ### xquery: replies -/

/-- `iauth_xquery_set_account` -/
def setAccount (lim : Limits) (text : Bytes) : Bytes := (text.takeWhile (· != 32)).take lim.account

def findRefSlot (svcs : List (Option Svc)) (cli : XqCli) (service : Bytes) : Option (Nat × Svc) :=
  let rec go : Nat → List (Option Svc) → Option (Nat × Svc)
    | _, [] => none
    | i, s :: rest =>
      if !cli.ref.contains i then go (i + 1) rest
      else match s with
        | some srv => if Bytes.strcmp service srv.name == 0 then some (i, srv) else go (i + 1) rest
        | none => go (i + 1) rest
  go 0 svcs

def startsWith (p s : Bytes) : Bool := s.take p.length == p

/-- the common tail of `iauth_xquery_x_reply`: clear the ref bit, drop the service
    reference, release the soft hold with the last outstanding query, run the gate -/
def xqFinish (st : Static) (i : Nat) (c : Ctx) (cli : XqCli) (srv : Svc) : M Ctx :=
  let cli := { cli with ref := maskDel cli.ref i }
  let srv := { srv with refs := srv.refs - 1 }
  let c := { c with svcs := setSvc c.svcs i (some srv) }
  let c := if srv.refs == 0 then unrefSvc c i else c
  let c := if cli.ref.isEmpty then updReq c fun r => { r with soft := r.soft - 1 } else c
  let c := updReq c fun r => { r with xq := some cli }
  gate st c

/-- is this `OK` / `OK <account>`?  `some none` = no stamp, `some (some a)` = stamp text -/
def okStamp (rep : Bytes) : Option (Option Bytes) :=
  if startsWith (b "OK") rep && (rep.length == 2 || rep.getD 2 0 == 32) then
    if rep.length == 2 || rep.length == 3 || rep.getD 3 0 == 32 then some none
    else some (some (rep.drop 3))
  else none

/-- `OK <account>` from a login-capable service: stamp, release the +! hold once, +x -/
def xqVouch (c : Ctx) (cli : XqCli) (stamp : Bytes) : Ctx :=
  let hadAccount := !c.req.account.isEmpty
  let c := updReq c fun r => { r with account := setAccount c.lim stamp }
  let c := if cli.modeBang && !hadAccount then updReq c fun r => { r with holds := r.holds - 1 } else c
  if cli.modeX || cli.modeBang then c.emit (sendReq c.req (b "M") (b " :+x")) else c

/-- `iauth_xquery_x_reply` once the request is validated; `reply = none` is "unlinked" -/
def xqReply (st : Static) (c : Ctx) (service : Bytes) (reply : Option Bytes) : M Ctx :=
  match c.req.xq with
  | none => pure c
  | some cli =>
    match findRefSlot c.svcs cli service with
    | none => pure c
    | some (i, srv) =>
      match reply with
      | none =>
        let c := if srv.ty != .dronecheck then
            c.emit (sendReq c.req (b "C") (b " :The login server is currently disconnected.  Please excuse the inconvenience."))
          else c
        xqFinish st i c cli { srv with unlinked := srv.unlinked + 1 }
      | some rep =>
        match okStamp rep with
        | some none =>
          xqFinish st i c { cli with ok := maskAdd cli.ok i } { srv with goodNoAcct := srv.goodNoAcct + 1 }
        | some (some stamp) =>
          let cli := { cli with ok := maskAdd cli.ok i }
          if srv.ty == .login || srv.ty == .loginIpr || srv.ty == .combined then
            xqFinish st i (xqVouch c cli stamp) cli { srv with goodAcct := srv.goodAcct + 1 }
          else
            xqFinish st i c cli { srv with goodNoAcct := srv.goodNoAcct + 1 }
        | none =>
          if startsWith (b "NO ") rep then
            let srv := { srv with bad := srv.bad + 1, badAcct := srv.badAcct + (if c.req.account.isEmpty then 0 else 1) }
            kill { c with svcs := setSvc c.svcs i (some srv) } (rep.drop 3)
          else if startsWith (b "AGAIN ") rep then
            xqFinish st i (c.emit (sendReq c.req (b "C") (b " :" ++ rep.drop 6))) cli srv
          else if startsWith (b "MORE ") rep then
            xqFinish st i (c.emit (sendReq c.req (b "C") (b " :" ++ rep.drop 5))) { cli with more := maskAdd cli.more i } srv
          else pure c

/-! ### core: per-request events from the server -/

inductive Ev where
  | hostname (h : Option Bytes)      -- N
  | noHostname                       -- d
  | password (p : Option Bytes)      -- P
  | userInfo (user real : Bytes)     -- U with argc ≥ 3
  | ident (i : Option Bytes)         -- u
  | nick (n : Option Bytes)          -- n
  | hurry                            -- H
  | timeout                          -- the request's timer fires
  deriving Repr

def fieldChange (st : Static) (isPassword : Bool) (c : Ctx) : Ctx :=
  if st.hasXq then xqCheck isPassword c else c

def reqEvent (st : Static) (c : Ctx) : Ev → M Ctx
  | .hostname h => do
    if !c.req.hostname.isEmpty then pure c
    else match h with
      | none => throw (.nullDeref "parse_hostname: strncpy(hostname, NULL)")
      | some h =>
        let c := updReq c fun r => { r with hostname := strncpyN c.lim.host h, flags := { r.flags with gotHost := true } }
        gate st (fieldChange st false c)
  | .noHostname =>
    let c := updReq c fun r => { r with flags := { r.flags with gotHost := true } }
    gate st (fieldChange st false c)
  | .password p => do
    let c := updReq c fun r => { r with flags := { r.flags with gotPass := true } }
    let c ← if st.hasXq then xqPassword c p else pure c
    gate st c
  | .userInfo user real =>
    let c := updReq c fun r =>
      let f := { r.flags with gotUser := true }
      let f := if f.emptyIdent then { f with gotIdent := true } else f
      { r with cliUser := strncpyN c.lim.user user, real := strncpyN c.lim.real real, flags := f }
    gate st (fieldChange st false c)
  | .ident i =>
    let c := updReq c fun r =>
      match i with
      | some i => { r with authUser := strncpyN c.lim.user i, flags := { r.flags with gotIdent := true } }
      | none =>
        if !r.cliUser.isEmpty then { r with flags := { r.flags with gotIdent := true } }
        else { r with flags := { r.flags with emptyIdent := true } }
    gate st (fieldChange st false c)
  | .nick n =>
    match n with
    | none => throw (.nullDeref "parse_nick: strncpy(nickname, NULL)")
    | some n =>
      let c := updReq c fun r => { r with nick := strncpyN c.lim.nick n, flags := { r.flags with gotNick := true } }
      gate st (fieldChange st false c)
  | .hurry =>
    let c := updReq c fun r => { r with flags := { (r.flags.or st.need) with gotHurry := true } }
    gate st (fieldChange st false c)
  | .timeout =>
    let c := updReq c fun r => { r with soft := 0, timer := .fired, flags := { r.flags with timedOut := true } }
    gate st c

end Iauthd.Proto
