import Iauthd.Proto.RenderLines
import Iauthd.Proto.Proofs
import Iauthd.Addr.ProofsChars
/-
  C09 (model part): the invariant on what a request, the service table and the rule table carry,
  and, handler by handler, that every line written is well formed and the invariant is kept.
-/
set_option linter.unusedSimpArgs false
set_option linter.unusedVariables false
namespace Iauthd.Proto
open Iauthd Iauthd.Proto.Hist

def NoSp (s : Bytes) : Prop := ∀ c ∈ s, c ≠ 32

theorem NoSp.take {s : Bytes} (h : NoSp s) (n : Nat) : NoSp (s.take n) := fun c hc => h c (List.mem_of_mem_take hc)
theorem NoSp.drop {s : Bytes} (h : NoSp s) (n : Nat) : NoSp (s.drop n) := fun c hc => h c (List.mem_of_mem_drop hc)

/-- the text fields of a request (everything that can end up inside a line) -/
structure TextOK (lim : Limits) (r : Req) : Prop where
  acctS : NoSp r.account
  acctC : Clean r.account
  acctL : r.account.length ≤ lim.account
  clsS : NoSp r.cls
  clsC : Clean r.cls
  clsL : r.cls.length ≤ lim.cls
  userS : NoSp r.cliUser
  userC : Clean r.cliUser
  userL : r.cliUser.length ≤ lim.user
  hostC : Clean r.hostname
  authC : Clean r.authUser
  nickC : Clean r.nick
  realC : Clean r.real
  credC : ∀ cli, r.xq = some cli → Clean cli.cred

structure ReqOK (lim : Limits) (r : Req) : Prop where
  head : HeadOK r
  serial : r.serial < 4294967296
  text : TextOK lim r

def SvcOK (srv : Svc) : Prop := Word srv.name ∧ Clean srv.name ∧ srv.name.length ≤ 900
def SvcsOK (svcs : List (Option Svc)) : Prop := ∀ srv, some srv ∈ svcs → SvcOK srv
def RuleOK (rule : Rule) : Prop :=
  NoSp (rule.cls.getD rule.name) ∧ Clean (rule.cls.getD rule.name) ∧ Clean rule.name ∧
    (∀ c, rule.cls = some c → Clean c)
def RulesOK (rules : List Rule) : Prop := ∀ rule ∈ rules, RuleOK rule
def LimOK (lim : Limits) : Prop := lim.account + lim.cls ≤ 900 ∧ lim.user ≤ 900

structure CtxOK (c : Ctx) : Prop where
  req : ReqOK c.lim c.req
  svcs : SvcsOK c.svcs
  rules : RulesOK c.rules
  lim : LimOK c.lim

/-- the lines a handler added are well formed, the limits are untouched -/
def Wrote (c c' : Ctx) : Prop :=
  c'.lim = c.lim ∧ ∃ new, c'.out = c.out ++ new ∧ ∀ l ∈ new, wellFormed l = true

theorem Wrote.refl (c : Ctx) : Wrote c c := ⟨rfl, [], by simp, by simp⟩

theorem Wrote.trans {a b' c : Ctx} (h1 : Wrote a b') (h2 : Wrote b' c) : Wrote a c := by
  obtain ⟨l1, n1, e1, a1⟩ := h1
  obtain ⟨l2, n2, e2, a2⟩ := h2
  refine ⟨l2.trans l1, n1 ++ n2, by rw [e2, e1, List.append_assoc], ?_⟩
  intro l hl
  rcases List.mem_append.1 hl with h | h
  · exact a1 l h
  · exact a2 l h

theorem Wrote.of_eq {c c' : Ctx} (ho : c'.out = c.out) (hl : c'.lim = c.lim) : Wrote c c' :=
  ⟨hl, [], by simp [ho], by simp⟩

theorem Wrote.emit (c : Ctx) (l : Bytes) (h : wellFormed l = true) : Wrote c (c.emit l) :=
  ⟨rfl, [l], rfl, by intro x hx; simp at hx; subst hx; exact h⟩

/-- the result of a handler: invariant kept and only well-formed lines written -/
structure Good (c c' : Ctx) : Prop where
  ok : CtxOK c'
  wrote : Wrote c c'

theorem Good.refl {c : Ctx} (h : CtxOK c) : Good c c := ⟨h, Wrote.refl c⟩
theorem Good.trans {a b' c : Ctx} (h1 : Good a b') (h2 : Good b' c) : Good a c := ⟨h2.ok, h1.wrote.trans h2.wrote⟩

/-! ### letters -/

theorem b_d : b "d" = [100] := by decide
theorem b_U : b "U" = [85] := by decide
theorem b_R : b "R" = [82] := by decide
theorem b_D : b "D" = [68] := by decide
theorem b_k : b "k" = [107] := by decide
theorem b_M : b "M" = [77] := by decide
theorem b_C : b "C" = [67] := by decide
theorem sp_eq : sp = [32] := rfl

theorem mem_letters_d : (100 : UInt8) ∈ clientLetters := by decide
theorem mem_letters_U : (85 : UInt8) ∈ clientLetters := by decide
theorem mem_letters_R : (82 : UInt8) ∈ clientLetters := by decide
theorem mem_letters_D : (68 : UInt8) ∈ clientLetters := by decide
theorem mem_letters_k : (107 : UInt8) ∈ clientLetters := by decide
theorem mem_letters_M : (77 : UInt8) ∈ clientLetters := by decide
theorem mem_letters_C : (67 : UInt8) ∈ clientLetters := by decide

/-! ### flag / counter updates keep the invariant -/

/-- a request that differs only in fields that never reach a line -/
theorem ReqOK.same {lim : Limits} {r r' : Req} (h : ReqOK lim r)
    (e1 : r'.client = r.client) (e2 : r'.serial = r.serial) (e3 : r'.port = r.port) (e4 : r'.textAddr = r.textAddr)
    (e5 : r'.account = r.account) (e6 : r'.cls = r.cls) (e7 : r'.cliUser = r.cliUser) (e8 : r'.hostname = r.hostname)
    (e9 : r'.authUser = r.authUser) (e10 : r'.nick = r.nick) (e11 : r'.real = r.real)
    (e12 : ∀ cli, r'.xq = some cli → Clean cli.cred) : ReqOK lim r' := by
  refine ⟨⟨by rw [e1]; exact h.head.client, by rw [e3]; exact h.head.port, by rw [e4]; exact h.head.addrW,
    by rw [e4]; exact h.head.addrC, by rw [e4]; exact h.head.addrL⟩, by rw [e2]; exact h.serial, ?_⟩
  exact ⟨by rw [e5]; exact h.text.acctS, by rw [e5]; exact h.text.acctC, by rw [e5]; exact h.text.acctL,
    by rw [e6]; exact h.text.clsS, by rw [e6]; exact h.text.clsC, by rw [e6]; exact h.text.clsL,
    by rw [e7]; exact h.text.userS, by rw [e7]; exact h.text.userC, by rw [e7]; exact h.text.userL,
    by rw [e8]; exact h.text.hostC, by rw [e9]; exact h.text.authC, by rw [e10]; exact h.text.nickC,
    by rw [e11]; exact h.text.realC, e12⟩

/-- `updReq` with a function that leaves the line-relevant fields alone -/
theorem CtxOK.upd {c : Ctx} (h : CtxOK c) (f : Req → Req)
    (hf : ∀ r, (f r).client = r.client ∧ (f r).serial = r.serial ∧ (f r).port = r.port ∧ (f r).textAddr = r.textAddr ∧
      (f r).account = r.account ∧ (f r).cls = r.cls ∧ (f r).cliUser = r.cliUser ∧ (f r).hostname = r.hostname ∧
      (f r).authUser = r.authUser ∧ (f r).nick = r.nick ∧ (f r).real = r.real ∧ (f r).xq = r.xq) :
    CtxOK (updReq c f) := by
  obtain ⟨a1, a2, a3, a4, a5, a6, a7, a8, a9, a10, a11, a12⟩ := hf c.req
  exact ⟨h.req.same a1 a2 a3 a4 a5 a6 a7 a8 a9 a10 a11
    (by intro cli hc; apply h.req.text.credC cli; rw [← a12]; exact hc), h.svcs, h.rules, h.lim⟩

theorem CtxOK.emit {c : Ctx} (h : CtxOK c) (l : Bytes) : CtxOK (c.emit l) := ⟨h.req, h.svcs, h.rules, h.lim⟩
theorem CtxOK.finish {c : Ctx} (h : CtxOK c) : CtxOK (finishReq c) := ⟨h.req, h.svcs, h.rules, h.lim⟩

/-! ### core handlers -/

theorem softDone_good (c : Ctx) (h : CtxOK c) : Good c (softDone c) := by
  unfold softDone
  have h1 : CtxOK (updReq c fun r => { r with flags := { r.flags with softDone := true } }) :=
    h.upd _ (fun r => ⟨rfl, rfl, rfl, rfl, rfl, rfl, rfl, rfl, rfl, rfl, rfl, rfl⟩)
  refine ⟨h1.emit _, ?_⟩
  dsimp only
  rw [b_d]
  exact (Wrote.of_eq rfl rfl).trans (Wrote.emit _ _ (sendReq_wellFormed mem_letters_d h1.req.head RestOK.bare_d))

theorem gateNested_good (st : Static) (c c' : Ctx) (h : CtxOK c) (hg : gateNested st c = .ok c') : Good c c' := by
  unfold gateNested at hg
  dsimp only at hg
  split at hg
  · split at hg
    · cases hg
    · split at hg <;> (simp only [pure, Except.pure, Except.ok.injEq] at hg; subst hg)
      · exact softDone_good c h
      · exact Good.refl h
  · simp only [pure, Except.pure, Except.ok.injEq] at hg; subst hg; exact Good.refl h

theorem trustUsername_good (st : Static) (c c' : Ctx) (name : Bytes) (h : CtxOK c)
    (hn1 : name ≠ []) (hn2 : NoSp name) (hn3 : Clean name) (hn4 : name.length ≤ 900)
    (hg : trustUsername st c name = .ok c') : Good c c' := by
  unfold trustUsername at hg
  simp only [bind, Except.bind, pure, Except.pure] at hg
  have hw : wellFormed (sendReq c.req (b "U") (sp ++ name)) = true := by
    rw [b_U, sp_eq]
    exact sendReq_wellFormed mem_letters_U h.req.head (RestOK.one 85 name (Or.inr (Or.inl rfl)) hn1 hn2 hn3 hn4)
  have h0 : Good c (c.emit (sendReq c.req (b "U") (sp ++ name))) := ⟨h.emit _, Wrote.emit _ _ hw⟩
  split at hg
  · have h1 : CtxOK (updReq (c.emit (sendReq c.req (b "U") (sp ++ name))) fun r => { r with flags := { r.flags with gotIdent := true } }) :=
      (h.emit _).upd _ (fun r => ⟨rfl, rfl, rfl, rfl, rfl, rfl, rfl, rfl, rfl, rfl, rfl, rfl⟩)
    have h2 := gateNested_good st _ _ h1 hg
    exact h0.trans ⟨h2.ok, (Wrote.of_eq rfl rfl).trans h2.wrote⟩
  · cases hg; exact h0

theorem trustName_props {lim : Limits} {r : Req} (h : TextOK lim r) (hl : LimOK lim) :
    NoSp (trustName r) ∧ Clean (trustName r) ∧ (trustName r).length ≤ 900 := by
  unfold trustName
  refine ⟨h.userS.drop _, h.userC.drop _, ?_⟩
  have := h.userL
  have := hl.2
  rw [List.length_drop]; omega

theorem strlcpy_cls {lim : Limits} {t : Bytes} (h1 : NoSp t) (h2 : Clean t) :
    NoSp (strlcpyN lim.cls t) ∧ Clean (strlcpyN lim.cls t) ∧ (strlcpyN lim.cls t).length ≤ lim.cls := by
  unfold strlcpyN
  refine ⟨h1.take _, h2.take _, ?_⟩
  rw [List.length_take]; omega

theorem classRules_good (st : Static) (rules : List Rule) (c c' : Ctx) (rules' : List Rule) (h : CtxOK c)
    (hr : RulesOK rules) (hg : classRules st rules c = .ok (c', rules')) : Good c c' ∧ RulesOK rules' := by
  induction rules generalizing c c' rules' with
  | nil =>
    simp [classRules, pure, Except.pure] at hg
    obtain ⟨rfl, rfl⟩ := hg
    exact ⟨Good.refl h, by intro r hr'; cases hr'⟩
  | cons rule rest ih =>
    have hrule := hr rule (List.mem_cons_self ..)
    have hrest : RulesOK rest := fun r hr' => hr r (List.mem_cons_of_mem _ hr')
    have hrules' : RulesOK ({ rule with assigned := rule.assigned + 1 } :: rest) := by
      intro r hr'
      rcases List.mem_cons.mp hr' with rfl | h'
      · exact hrule
      · exact hrest r h'
    -- setting the class from an admissible rule keeps the invariant
    have hset : ∀ c1 : Ctx, CtxOK c1 → c1.lim = c.lim →
        CtxOK (updReq c1 fun r => { r with cls := strlcpyN c1.lim.cls (rule.cls.getD rule.name) }) := by
      intro c1 h1 _
      obtain ⟨s1, s2, s3⟩ := strlcpy_cls (lim := c1.lim) hrule.1 hrule.2.1
      refine ⟨⟨⟨h1.req.head.client, h1.req.head.port, h1.req.head.addrW, h1.req.head.addrC, h1.req.head.addrL⟩,
        h1.req.serial, ?_⟩, h1.svcs, h1.rules, h1.lim⟩
      exact ⟨h1.req.text.acctS, h1.req.text.acctC, h1.req.text.acctL, s1, s2, s3, h1.req.text.userS, h1.req.text.userC,
        h1.req.text.userL, h1.req.text.hostC, h1.req.text.authC, h1.req.text.nickC, h1.req.text.realC, h1.req.text.credC⟩
    unfold classRules at hg
    by_cases hm : ruleMatches c.svcs rule c.req = true
    · simp only [hm, if_true] at hg
      by_cases ht : (wantsTrust rule c.req && !(trustName c.req).isEmpty) = true
      · simp only [ht, if_true, bind, Except.bind] at hg
        split at hg
        · cases hg
        · rename_i c1 hx
          simp only [pure, Except.pure, Except.ok.injEq, Prod.mk.injEq] at hg
          obtain ⟨rfl, rfl⟩ := hg
          have hne : trustName c.req ≠ [] := by
            simp only [Bool.and_eq_true, Bool.not_eq_true', List.isEmpty_eq_false_iff] at ht
            exact ht.2
          obtain ⟨p1, p2, p3⟩ := trustName_props h.req.text h.lim
          have g1 := trustUsername_good st c c1 _ h hne p1 p2 p3 hx
          refine ⟨g1.trans ⟨hset c1 g1.ok g1.wrote.1, Wrote.of_eq rfl rfl⟩, hrules'⟩
      · simp only [ht, if_false, bind, Except.bind, pure, Except.pure, Except.ok.injEq, Prod.mk.injEq, Bool.false_eq_true] at hg
        obtain ⟨rfl, rfl⟩ := hg
        exact ⟨⟨hset c h rfl, Wrote.of_eq rfl rfl⟩, hrules'⟩
    · simp only [hm, if_false, Bool.false_eq_true, bind, Except.bind] at hg
      split at hg
      · cases hg
      · rename_i v hx
        obtain ⟨c1, r1⟩ := v
        simp only [pure, Except.pure, Except.ok.injEq, Prod.mk.injEq] at hg
        obtain ⟨rfl, rfl⟩ := hg
        obtain ⟨g, hr1⟩ := ih c c1 r1 h hrest hx
        refine ⟨g, ?_⟩
        intro r hr'
        rcases List.mem_cons.mp hr' with rfl | h'
        · exact hrule
        · exact hr1 r h'

theorem classAssign_good (st : Static) (c c' : Ctx) (h : CtxOK c) (hg : classAssign st c = .ok c') : Good c c' := by
  unfold classAssign at hg
  by_cases he : (!c.req.cls.isEmpty) = true
  · simp only [he, if_true, pure, Except.pure, Except.ok.injEq] at hg
    subst hg
    exact ⟨⟨h.req, h.svcs, h.rules, h.lim⟩, Wrote.of_eq rfl rfl⟩
  · simp only [he, if_false, Bool.false_eq_true, bind, Except.bind] at hg
    split at hg
    · cases hg
    · rename_i v hx
      obtain ⟨c1, r1⟩ := v
      obtain ⟨g, hr1⟩ := classRules_good st _ _ _ _ h h.rules hx
      have hk : CtxOK { c1 with rules := r1 } := ⟨g.ok.req, g.ok.svcs, hr1, g.ok.lim⟩
      split at hg <;> (simp only [pure, Except.pure, Except.ok.injEq] at hg; subst hg)
      · exact ⟨⟨hk.req, hk.svcs, hk.rules, hk.lim⟩, g.wrote.trans (Wrote.of_eq rfl rfl)⟩
      · exact ⟨⟨hk.req, hk.svcs, hk.rules, hk.lim⟩, g.wrote.trans (Wrote.of_eq rfl rfl)⟩

/-- the accept line of a request whose fields are in order -/
theorem acceptLine_wf {lim : Limits} {r : Req} (h : ReqOK lim r) (hl : LimOK lim) :
    wellFormed (if !r.account.isEmpty && !r.cls.isEmpty then sendReq r (b "R") (sp ++ r.account ++ sp ++ r.cls)
      else if !r.account.isEmpty then sendReq r (b "R") (sp ++ r.account)
      else if !r.cls.isEmpty then sendReq r (b "D") (sp ++ r.cls)
      else sendReq r (b "D") []) = true := by
  have hA := h.text.acctL
  have hC := h.text.clsL
  have hL := hl.1
  rw [b_R, b_D, sp_eq]
  by_cases ha : r.account = []
  · by_cases hc : r.cls = []
    · simp only [ha, hc, List.isEmpty_nil, Bool.not_true, Bool.and_false, Bool.false_eq_true, if_false]
      exact sendReq_wellFormed mem_letters_D h.head RestOK.bare_D
    · have hce : r.cls.isEmpty = false := by simpa using hc
      simp only [ha, hce, List.isEmpty_nil, Bool.not_true, Bool.false_and, Bool.false_eq_true, if_false, Bool.not_false, if_true]
      exact sendReq_wellFormed mem_letters_D h.head
        (RestOK.one 68 r.cls (Or.inl rfl) hc h.text.clsS h.text.clsC (by omega))
  · have hae : r.account.isEmpty = false := by simpa using ha
    by_cases hc : r.cls = []
    · simp only [hae, hc, List.isEmpty_nil, Bool.not_true, Bool.and_false, Bool.false_eq_true, if_false, Bool.not_false, if_true]
      exact sendReq_wellFormed mem_letters_R h.head
        (RestOK.one 82 r.account (Or.inr (Or.inr rfl)) ha h.text.acctS h.text.acctC (by omega))
    · have hce : r.cls.isEmpty = false := by simpa using hc
      simp only [hae, hce, Bool.not_false, Bool.and_self, if_true]
      have : [32] ++ r.account ++ [32] ++ r.cls = 32 :: (r.account ++ 32 :: r.cls) := by simp
      rw [this]
      exact sendReq_wellFormed mem_letters_R h.head
        (RestOK.two r.account r.cls ha h.text.acctS h.text.acctC hc h.text.clsS h.text.clsC (by omega))

theorem accept_good (st : Static) (c c' : Ctx) (h : CtxOK c) (hg : accept st c = .ok c') : Good c c' := by
  unfold accept at hg
  by_cases hr : c.req.flags.responded = true
  · simp [hr, bind, Except.bind, throw, throwThe, MonadExceptOf.throw] at hg
  · simp only [hr, if_false, Bool.false_eq_true] at hg
    have tail : ∀ c1 : Ctx, Good c c1 →
        Good c (finishReq ((updReq c1 fun r => { r with flags := { r.flags with responded := true } }).emit
          (let r := (updReq c1 fun r => { r with flags := { r.flags with responded := true } }).req
           if !r.account.isEmpty && !r.cls.isEmpty then sendReq r (b "R") (sp ++ r.account ++ sp ++ r.cls)
           else if !r.account.isEmpty then sendReq r (b "R") (sp ++ r.account)
           else if !r.cls.isEmpty then sendReq r (b "D") (sp ++ r.cls)
           else sendReq r (b "D") []))) := by
      intro c1 g1
      have h2 : CtxOK (updReq c1 fun r => { r with flags := { r.flags with responded := true } }) :=
        g1.ok.upd _ (fun r => ⟨rfl, rfl, rfl, rfl, rfl, rfl, rfl, rfl, rfl, rfl, rfl, rfl⟩)
      refine g1.trans ⟨(h2.emit _).finish, ?_⟩
      exact (Wrote.of_eq rfl rfl).trans ((Wrote.emit _ _ (acceptLine_wf h2.req h2.lim)).trans (Wrote.of_eq rfl rfl))
    by_cases hcl : st.hasClass = true
    · simp only [hcl, if_true, bind, Except.bind, pure, Except.pure] at hg
      split at hg
      · cases hg
      · rename_i c1 hx
        simp only [Except.ok.injEq] at hg
        subst hg
        exact tail c1 (classAssign_good st _ _ h hx)
    · simp only [hcl, if_false, bind, Except.bind, pure, Except.pure, Except.ok.injEq, Bool.false_eq_true] at hg
      subst hg
      exact tail c (Good.refl h)

theorem kill_good (c c' : Ctx) (reason : Bytes) (h : CtxOK c) (hrc : Clean reason) (hg : kill c reason = .ok c') : Good c c' := by
  unfold kill at hg
  by_cases hr : c.req.flags.responded = true
  · simp [hr, bind, Except.bind, throw, throwThe, MonadExceptOf.throw] at hg
  · simp only [hr, if_false, bind, Except.bind, pure, Except.pure, Except.ok.injEq, Bool.false_eq_true] at hg
    subst hg
    have h2 : CtxOK (updReq c fun r => { r with flags := { r.flags with responded := true } }) :=
      h.upd _ (fun r => ⟨rfl, rfl, rfl, rfl, rfl, rfl, rfl, rfl, rfl, rfl, rfl, rfl⟩)
    refine ⟨(h2.emit _).finish, ?_⟩
    have hw : wellFormed (sendReq (updReq c fun r => { r with flags := { r.flags with responded := true } }).req (b "k") (b " :" ++ reason)) = true := by
      rw [b_k, b_colon]
      exact sendReq_wellFormed mem_letters_k h2.req.head (RestOK.trailing 107 reason (Or.inl rfl) hrc)
    exact (Wrote.of_eq rfl rfl).trans ((Wrote.emit _ _ hw).trans (Wrote.of_eq rfl rfl))

theorem gate_good (st : Static) (c c' : Ctx) (h : CtxOK c) (hg : gate st c = .ok c') : Good c c' := by
  unfold gate at hg
  dsimp only at hg
  by_cases h1 : (c.req.holds == 0 && !c.req.flags.responded && st.need.subset c.req.flags) = true
  · simp only [h1, if_true] at hg
    by_cases h2 : (c.req.soft == 0 || c.req.flags.timedOut) = true
    · simp only [h2, if_true] at hg; exact accept_good st _ _ h hg
    · simp only [h2, if_false, Bool.false_eq_true] at hg
      split at hg <;> (simp only [pure, Except.pure, Except.ok.injEq] at hg; subst hg)
      · exact softDone_good c h
      · exact Good.refl h
  · simp only [h1, if_false, Bool.false_eq_true, pure, Except.pure, Except.ok.injEq] at hg
    subst hg; exact Good.refl h

end Iauthd.Proto

namespace Iauthd.Proto
open Iauthd Iauthd.Proto.Hist

/-! ### service table -/

theorem getSvc_mem {svcs : List (Option Svc)} {i : Nat} {srv : Svc} (h : getSvc svcs i = some srv) : some srv ∈ svcs := by
  unfold getSvc at h
  rw [List.getD_eq_getElem?_getD] at h
  cases hi : svcs[i]? with
  | none => rw [hi] at h; simp at h
  | some o =>
    rw [hi] at h
    simp only [Option.getD_some] at h
    rw [← h]
    exact List.mem_of_getElem? hi

theorem SvcsOK.set {svcs : List (Option Svc)} (h : SvcsOK svcs) (i : Nat) (v : Option Svc)
    (hv : ∀ srv, v = some srv → SvcOK srv) : SvcsOK (setSvc svcs i v) := by
  intro srv hm
  unfold setSvc at hm
  rcases List.mem_or_eq_of_mem_set hm with h1 | h1
  · exact h srv h1
  · exact hv srv h1.symm

theorem unrefSvc_ok {c : Ctx} (h : CtxOK c) (i : Nat) : CtxOK (unrefSvc c i) := by
  unfold unrefSvc
  split
  · split
    · exact h
    · exact ⟨h.req, h.svcs.set i none (by intro s hs; cases hs), h.rules, h.lim⟩
  · exact h

theorem unrefSvc_out (c : Ctx) (i : Nat) : (unrefSvc c i).out = c.out ∧ (unrefSvc c i).lim = c.lim := by
  unfold unrefSvc
  split
  · split <;> exact ⟨rfl, rfl⟩
  · exact ⟨rfl, rfl⟩

/-! ### queries -/

theorem xqUsername_clean {lim : Limits} {r : Req} (h : TextOK lim r) : Clean (xqUsername lim r) := by
  unfold xqUsername strncpyN
  dsimp only
  apply Clean.take
  split
  · exact h.authC.take _
  · split
    · exact h.userC.take _
    · split
      · exact Clean.cons (by decide) (by decide) (h.userC.take _)
      · exact Clean.nil

def cleanB (s : Bytes) : Bool := s.all fun c => c != 10 && c != 0

theorem clean_of_cleanB {s : Bytes} (h : cleanB s = true) : Clean s := by
  unfold cleanB at h
  rw [List.all_eq_true] at h
  intro c hc
  have := h c hc
  simp only [Bool.and_eq_true, bne_iff_ne, ne_eq] at this
  exact this

theorem clean_append_iff {a c : Bytes} : Clean (a ++ c) ↔ Clean a ∧ Clean c := by
  constructor
  · intro h
    exact ⟨fun x hx => h x (List.mem_append.mpr (Or.inl hx)), fun x hx => h x (List.mem_append.mpr (Or.inr hx))⟩
  · intro h; exact Clean.append h.1 h.2

theorem b_clean_CHECK : Clean (b "CHECK ") := clean_of_cleanB (by decide)
theorem b_clean_LOGIN : Clean (b "LOGIN ") := clean_of_cleanB (by decide)
theorem b_clean_LOGIN2 : Clean (b "LOGIN2 ") := clean_of_cleanB (by decide)
theorem b_clean_MORE : Clean (b "MORE ") := clean_of_cleanB (by decide)
theorem b_clean_colon : Clean (b " :") := clean_of_cleanB (by decide)
theorem sp_clean : Clean sp := clean_of_cleanB (by decide)

theorem xqQueryLines_wf {lim : Limits} {srv : Svc} {cli : XqCli} {r : Req} (hr : ReqOK lim r) (hs : SvcOK srv)
    (hcred : Clean cli.cred) : ∀ l ∈ xqQueryLines lim srv cli r, wellFormed l = true := by
  have htagOf : (tagOf (routing r)).isSome = true := by
    rw [tagOf_routing r hr.head.client.1 hr.head.client.2 hr.serial]; rfl
  have hq : ∀ payload, Clean payload → wellFormed (xquery srv.name (routing r) payload) = true := fun payload hp =>
    xquery_wellFormed hs.1 hs.2.1 hs.2.2 (routing_word r) (routing_clean r) (routing_length r hr.serial) htagOf hp
  have huser : Clean (if srv.ty != .login then xqUsername lim r else []) := by
    split
    · exact xqUsername_clean hr.text
    · exact Clean.nil
  have hhost : Clean (xqHostname r) := by
    unfold xqHostname; split
    · exact hr.head.addrC
    · exact hr.text.hostC
  intro l hl
  unfold xqQueryLines at hl
  dsimp only at hl
  rcases List.mem_append.1 hl with h | h
  · split at h
    · simp only [List.mem_singleton] at h; subst h
      apply hq
      simp only [clean_append_iff]
      repeat' apply And.intro
      all_goals first | exact b_clean_CHECK | exact hr.text.nickC | exact sp_clean | exact huser | exact hr.head.addrC
                      | exact hhost | exact b_clean_colon | exact hr.text.realC
    · simp at h
  · split at h
    · simp at h
    · split at h
      · simp only [List.mem_singleton] at h; subst h
        exact hq _ (Clean.append b_clean_LOGIN hcred)
      · split at h
        · simp only [List.mem_singleton] at h; subst h
          apply hq
          simp only [clean_append_iff]
          repeat' apply And.intro
          all_goals first | exact b_clean_LOGIN2 | exact hr.head.addrC | exact sp_clean | exact hhost | exact huser | exact hcred
        · simp at h

theorem xqTake_good (c : Ctx) (srv : Svc) (cli : XqCli) (i : Nat) (h : CtxOK c) (hs : SvcOK srv) :
    CtxOK (xqTake c srv cli i) ∧ (xqTake c srv cli i).out = c.out ∧ (xqTake c srv cli i).lim = c.lim := by
  unfold xqTake
  dsimp only
  have h1 : CtxOK { c with svcs := setSvc c.svcs i (some { srv with queries := srv.queries + 1, refs := srv.refs + 1 }) } :=
    ⟨h.req, h.svcs.set i _ (by intro s hs'; simp only [Option.some.injEq] at hs'; subst hs'; exact hs), h.rules, h.lim⟩
  split
  · exact ⟨h1.upd _ (fun r => ⟨rfl, rfl, rfl, rfl, rfl, rfl, rfl, rfl, rfl, rfl, rfl, rfl⟩), rfl, rfl⟩
  · exact ⟨h1, rfl, rfl⟩

/-- the loop invariant of `iauth_xquery_check`: the context is fine and the client record's
    credentials are what the request already carries (or other clean bytes) -/
theorem xqCheckSlot_good (p : Bool) (c : Ctx) (cli : XqCli) (i : Nat) (h : CtxOK c) (hcred : Clean cli.cred) :
    Good c (xqCheckSlot p c cli i).1 ∧ Clean (xqCheckSlot p c cli i).2.cred := by
  unfold xqCheckSlot
  split
  · exact ⟨Good.refl h, hcred⟩
  · rename_i srv hsrv
    have hs : SvcOK srv := h.svcs srv (getSvc_mem hsrv)
    split
    · exact ⟨Good.refl h, hcred⟩
    · dsimp only
      have h1 : CtxOK { c with out := c.out ++ xqQueryLines c.lim srv cli c.req } := ⟨h.req, h.svcs, h.rules, h.lim⟩
      obtain ⟨t1, t2, t3⟩ := xqTake_good _ srv cli i h1 hs
      refine ⟨⟨t1, ?_⟩, hcred⟩
      refine ⟨t3, xqQueryLines c.lim srv cli c.req, ?_, xqQueryLines_wf h.req hs hcred⟩
      rw [t2]

theorem xqCheckLoop_good (p : Bool) (is : List Nat) (c : Ctx) (cli : XqCli) (h : CtxOK c) (hcred : Clean cli.cred) :
    Good c (xqCheckLoop p is c cli).1 ∧ Clean (xqCheckLoop p is c cli).2.cred := by
  induction is generalizing c cli with
  | nil => exact ⟨Good.refl h, hcred⟩
  | cons i is ih =>
    unfold xqCheckLoop
    obtain ⟨g1, c1⟩ := xqCheckSlot_good p c cli i h hcred
    obtain ⟨g2, c2⟩ := ih (xqCheckSlot p c cli i).1 (xqCheckSlot p c cli i).2 g1.ok c1
    exact ⟨g1.trans g2, c2⟩

theorem xqCheck_good (p : Bool) (c : Ctx) (h : CtxOK c) : Good c (xqCheck p c) := by
  unfold xqCheck
  split
  · exact Good.refl h
  · rename_i cli hx
    obtain ⟨g, hc⟩ := xqCheckLoop_good p (List.range c.svcs.length) c cli h (h.req.text.credC cli hx)
    refine g.trans ⟨?_, Wrote.of_eq rfl rfl⟩
    have hk := g.ok
    refine ⟨hk.req.same rfl rfl rfl rfl rfl rfl rfl rfl rfl rfl rfl ?_, hk.svcs, hk.rules, hk.lim⟩
    intro cli' hc'
    simp only [updReq, Option.some.injEq] at hc'
    rw [← hc']; exact hc

/-! ### passwords -/

theorem scanModes_suffix (pw : Bytes) : ∀ (m m' : ModeAcc) (rest : Bytes),
    scanModes pw m = some (m', rest) → ∀ c ∈ rest, c ∈ pw := by
  induction pw with
  | nil => intro m m' rest h; simp [scanModes] at h
  | cons x xs ih =>
    intro m m' rest h
    unfold scanModes at h
    split at h
    · rename_i heq; cases heq
    · rename_i heq
      cases heq
      simp only [Option.some.injEq, Prod.mk.injEq] at h
      obtain ⟨_, rfl⟩ := h
      intro c hc; exact hc
    · rename_i heq
      cases heq
      have hsub : ∀ c ∈ rest, c ∈ xs := by
        split at h
        · exact ih _ _ _ h
        · split at h
          · exact ih _ _ _ h
          · split at h
            · exact ih _ _ _ h
            · split at h
              · exact ih _ _ _ h
              · exact ih _ _ _ h
      intro c hc
      exact List.mem_cons_of_mem _ (hsub c hc)

theorem checkPasswordShape_clean {pw : Bytes} (hp : Clean pw) {m : ModeAcc} {cred : Bytes}
    (h : checkPasswordShape pw = some (m, cred)) : Clean cred := by
  unfold checkPasswordShape at h
  split at h
  · cases h
  · split at h
    · cases h
    · split at h
      · cases h
      · rename_i m0 rest hs
        dsimp only at h
        split at h
        · simp only [Option.some.injEq, Prod.mk.injEq] at h
          obtain ⟨_, rfl⟩ := h
          intro c hc
          have h1 : c ∈ rest := (List.dropWhile_sublist _).subset hc
          exact hp c (scanModes_suffix _ _ _ _ hs c h1)
        · cases h

theorem xqCheckPassword_good (c : Ctx) (cli : XqCli) (pw : Bytes) (h : CtxOK c) (hp : Clean pw) :
    Good c (xqCheckPassword c cli pw) := by
  unfold xqCheckPassword
  split
  · exact Good.refl h
  · rename_i m cred hshape
    dsimp only
    have hcred : Clean (strncpyN 511 cred) := (checkPasswordShape_clean hp hshape).take _
    have h1 : CtxOK (updReq c fun r => { r with
        holds := holdsAfterPassword r.holds cli.modeBang ((cli.modeBang && !m.clrBang) || m.setBang) r.account.isEmpty,
        xq := some { cli with modeX := (cli.modeX && !m.clrX) || m.setX,
                              modeBang := (cli.modeBang && !m.clrBang) || m.setBang, cred := strncpyN 511 cred } }) := by
      refine ⟨h.req.same rfl rfl rfl rfl rfl rfl rfl rfl rfl rfl rfl ?_, h.svcs, h.rules, h.lim⟩
      intro cli' hc'
      simp only [updReq, Option.some.injEq] at hc'
      rw [← hc']; exact hcred
    have g := xqCheck_good true _ h1
    exact ⟨g.ok, (Wrote.of_eq rfl rfl).trans g.wrote⟩

theorem xqMoreLoop_good (pw : Bytes) (hp : Clean pw) (is : List Nat) (c : Ctx) (cli : XqCli) (h : CtxOK c) :
    Good c (xqMoreLoop pw is c cli).1 ∧ (xqMoreLoop pw is c cli).2.cred = cli.cred := by
  induction is generalizing c cli with
  | nil => exact ⟨Good.refl h, rfl⟩
  | cons i is ih =>
    unfold xqMoreLoop
    split
    · exact ih _ _ h
    · split
      · exact ih _ _ h
      · rename_i srv hsrv
        split
        · exact ih _ _ h
        · have hs : SvcOK srv := h.svcs srv (getSvc_mem hsrv)
          have htagOf : (tagOf (routing c.req)).isSome = true := by
            rw [tagOf_routing c.req h.req.head.client.1 h.req.head.client.2 h.req.serial]; rfl
          have hw : wellFormed (xquery srv.name (routing c.req) (b "MORE " ++ pw)) = true :=
            xquery_wellFormed hs.1 hs.2.1 hs.2.2 (routing_word _) (routing_clean _) (routing_length _ h.req.serial) htagOf
              (Clean.append b_clean_MORE hp)
          have g1 : Good c (c.emit (xquery srv.name (routing c.req) (b "MORE " ++ pw))) := ⟨h.emit _, Wrote.emit _ _ hw⟩
          dsimp only
          -- the two bookkeeping updates keep the invariant and write nothing
          have step : ∀ c1 : Ctx, CtxOK c1 →
              CtxOK { (if cli.ref.isEmpty = true then updReq c1 fun r => { r with soft := r.soft + 1 } else c1) with
                svcs := setSvc (if cli.ref.isEmpty = true then updReq c1 fun r => { r with soft := r.soft + 1 } else c1).svcs i
                  (some { srv with refs := srv.refs + 1 }) } ∧
              ({ (if cli.ref.isEmpty = true then updReq c1 fun r => { r with soft := r.soft + 1 } else c1) with
                svcs := setSvc (if cli.ref.isEmpty = true then updReq c1 fun r => { r with soft := r.soft + 1 } else c1).svcs i
                  (some { srv with refs := srv.refs + 1 }) } : Ctx).out = c1.out ∧
              ({ (if cli.ref.isEmpty = true then updReq c1 fun r => { r with soft := r.soft + 1 } else c1) with
                svcs := setSvc (if cli.ref.isEmpty = true then updReq c1 fun r => { r with soft := r.soft + 1 } else c1).svcs i
                  (some { srv with refs := srv.refs + 1 }) } : Ctx).lim = c1.lim := by
            intro c1 hc1
            have hsv : ∀ s, (some { srv with refs := srv.refs + 1 } : Option Svc) = some s → SvcOK s := by
              intro s hs'; simp only [Option.some.injEq] at hs'; subst hs'; exact hs
            split
            · have h2 : CtxOK (updReq c1 fun r => { r with soft := r.soft + 1 }) :=
                hc1.upd _ (fun r => ⟨rfl, rfl, rfl, rfl, rfl, rfl, rfl, rfl, rfl, rfl, rfl, rfl⟩)
              exact ⟨⟨h2.req, h2.svcs.set i _ hsv, h2.rules, h2.lim⟩, rfl, rfl⟩
            · exact ⟨⟨hc1.req, hc1.svcs.set i _ hsv, hc1.rules, hc1.lim⟩, rfl, rfl⟩
          obtain ⟨s1, s2, s3⟩ := step _ g1.ok
          obtain ⟨g3, hcr⟩ := ih _ { cli with more := maskDel cli.more i, ref := maskAdd cli.ref i } s1
          exact ⟨g1.trans (Good.trans ⟨s1, Wrote.of_eq s2 s3⟩ g3), hcr⟩

theorem xqPassword_good (c c' : Ctx) (pw : Option Bytes) (h : CtxOK c) (hp : ∀ p, pw = some p → Clean p)
    (hg : xqPassword c pw = .ok c') : Good c c' := by
  unfold xqPassword at hg
  split at hg
  · simp only [pure, Except.pure, Except.ok.injEq] at hg; subst hg; exact Good.refl h
  · rename_i cli hx
    split at hg
    · split at hg
      · cases hg
      · rename_i p
        simp only [pure, Except.pure, Except.ok.injEq] at hg; subst hg
        exact xqCheckPassword_good _ _ _ h (hp p rfl)
    · simp only [pure, Except.pure, Except.ok.injEq] at hg; subst hg
      have hpc : Clean (pw.getD (b "(null)")) := by
        cases pw with
        | none => exact clean_of_cleanB (by decide)
        | some p => exact hp p rfl
      obtain ⟨g, hcr⟩ := xqMoreLoop_good (pw.getD (b "(null)")) hpc (List.range c.svcs.length) c cli h
      refine g.trans ⟨?_, Wrote.of_eq rfl rfl⟩
      refine ⟨g.ok.req.same rfl rfl rfl rfl rfl rfl rfl rfl rfl rfl rfl ?_, g.ok.svcs, g.ok.rules, g.ok.lim⟩
      intro cli' hc'
      simp only [updReq, Option.some.injEq] at hc'
      rw [← hc', hcr]; exact h.req.text.credC cli hx

end Iauthd.Proto

namespace Iauthd.Proto
open Iauthd Iauthd.Proto.Hist

/-! ### replies -/

theorem xqFinishPre_outlim (i : Nat) (c : Ctx) (cli : XqCli) (srv : Svc) :
    (xqFinishPre i c cli srv).out = c.out ∧ (xqFinishPre i c cli srv).lim = c.lim := by
  unfold xqFinishPre
  dsimp only
  have hu : ∀ c0 : Ctx, (unrefSvc c0 i).out = c0.out := fun c0 => (unrefSvc_out c0 i).1
  have hl : ∀ c0 : Ctx, (unrefSvc c0 i).lim = c0.lim := fun c0 => (unrefSvc_out c0 i).2
  constructor
  · split <;> split <;> simp [updReq, hu]
  · split <;> split <;> simp [updReq, hl]

theorem xqFinishPre_good (i : Nat) (c : Ctx) (cli : XqCli) (srv : Svc) (h : CtxOK c) (hs : SvcOK srv)
    (hcred : Clean cli.cred) :
    CtxOK (xqFinishPre i c cli srv) ∧ (xqFinishPre i c cli srv).out = c.out ∧ (xqFinishPre i c cli srv).lim = c.lim := by
  refine ⟨?_, (xqFinishPre_outlim i c cli srv).1, (xqFinishPre_outlim i c cli srv).2⟩
  unfold xqFinishPre
  dsimp only
  have hsv : ∀ s, (some { srv with refs := srv.refs - 1 } : Option Svc) = some s → SvcOK s := by
    intro s hs'; simp only [Option.some.injEq] at hs'; subst hs'; exact hs
  have h1 : CtxOK { c with svcs := setSvc c.svcs i (some { srv with refs := srv.refs - 1 }) } :=
    ⟨h.req, h.svcs.set i _ hsv, h.rules, h.lim⟩
  -- unref or not
  have h2 : ∀ c1 : Ctx, CtxOK c1 →
      CtxOK (if ({ srv with refs := srv.refs - 1 } : Svc).refs == 0 then unrefSvc c1 i else c1) ∧
      (if ({ srv with refs := srv.refs - 1 } : Svc).refs == 0 then unrefSvc c1 i else c1).out = c1.out ∧
      (if ({ srv with refs := srv.refs - 1 } : Svc).refs == 0 then unrefSvc c1 i else c1).lim = c1.lim := by
    intro c1 hc1
    split
    · exact ⟨unrefSvc_ok hc1 i, (unrefSvc_out c1 i).1, (unrefSvc_out c1 i).2⟩
    · exact ⟨hc1, rfl, rfl⟩
  obtain ⟨k2, o2, l2⟩ := h2 _ h1
  have h3 : ∀ c1 : Ctx, CtxOK c1 →
      CtxOK (if ({ cli with ref := maskDel cli.ref i } : XqCli).ref.isEmpty then updReq c1 fun r => { r with soft := r.soft - 1 } else c1) ∧
      (if ({ cli with ref := maskDel cli.ref i } : XqCli).ref.isEmpty then updReq c1 fun r => { r with soft := r.soft - 1 } else c1).out = c1.out ∧
      (if ({ cli with ref := maskDel cli.ref i } : XqCli).ref.isEmpty then updReq c1 fun r => { r with soft := r.soft - 1 } else c1).lim = c1.lim := by
    intro c1 hc1
    split
    · exact ⟨hc1.upd _ (fun r => ⟨rfl, rfl, rfl, rfl, rfl, rfl, rfl, rfl, rfl, rfl, rfl, rfl⟩), rfl, rfl⟩
    · exact ⟨hc1, rfl, rfl⟩
  obtain ⟨k3, o3, l3⟩ := h3 _ k2
  refine ⟨k3.req.same rfl rfl rfl rfl rfl rfl rfl rfl rfl rfl rfl ?_, k3.svcs, k3.rules, k3.lim⟩
  intro cli' hc'
  simp only [updReq, Option.some.injEq] at hc'
  rw [← hc']; exact hcred

theorem xqFinish_good (st : Static) (i : Nat) (c c' : Ctx) (cli : XqCli) (srv : Svc) (h : CtxOK c) (hs : SvcOK srv)
    (hcred : Clean cli.cred) (hg : xqFinish st i c cli srv = .ok c') : Good c c' := by
  rw [xqFinish_eq] at hg
  obtain ⟨k, o, l⟩ := xqFinishPre_good i c cli srv h hs hcred
  have g := gate_good st _ _ k hg
  exact ⟨g.ok, (Wrote.of_eq o l).trans g.wrote⟩

theorem setAccount_props (lim : Limits) (text : Bytes) (ht : Clean text) :
    NoSp (setAccount lim text) ∧ Clean (setAccount lim text) ∧ (setAccount lim text).length ≤ lim.account := by
  unfold setAccount
  refine ⟨?_, (ht.takeWhile _).take _, by rw [List.length_take]; omega⟩
  intro c hc
  have h1 : c ∈ text.takeWhile (· != 32) := List.mem_of_mem_take hc
  have key : ∀ (l : Bytes), ∀ x ∈ l.takeWhile (· != 32), x ≠ 32 := by
    intro l
    induction l with
    | nil => intro x hx; simp at hx
    | cons y ys ih =>
      intro x hx
      rw [List.takeWhile_cons] at hx
      split at hx
      · rename_i hy
        rcases List.mem_cons.mp hx with rfl | h'
        · simpa using hy
        · exact ih x h'
      · simp at hx
  exact key text c h1

theorem b_plusx : b " :+x" = 32 :: 58 :: [43, 120] := by decide

theorem xqVouch_good (c : Ctx) (cli : XqCli) (stamp : Bytes) (h : CtxOK c) (hst : Clean stamp) :
    Good c (xqVouch c cli stamp) := by
  unfold xqVouch
  dsimp only
  obtain ⟨a1, a2, a3⟩ := setAccount_props c.lim stamp hst
  have h1 : CtxOK (updReq c fun r => { r with account := setAccount c.lim stamp }) := by
    refine ⟨⟨⟨h.req.head.client, h.req.head.port, h.req.head.addrW, h.req.head.addrC, h.req.head.addrL⟩, h.req.serial, ?_⟩,
      h.svcs, h.rules, h.lim⟩
    exact ⟨a1, a2, a3, h.req.text.clsS, h.req.text.clsC, h.req.text.clsL, h.req.text.userS, h.req.text.userC,
      h.req.text.userL, h.req.text.hostC, h.req.text.authC, h.req.text.nickC, h.req.text.realC, h.req.text.credC⟩
  have h2 : ∀ c1 : Ctx, CtxOK c1 → c1.out = c.out → c1.lim = c.lim →
      Good c (if cli.modeX || cli.modeBang then c1.emit (sendReq c1.req (b "M") (b " :+x")) else c1) := by
    intro c1 hc1 ho hl
    split
    · refine ⟨hc1.emit _, (Wrote.of_eq ho hl).trans (Wrote.emit _ _ ?_)⟩
      rw [b_M, b_plusx]
      exact sendReq_wellFormed mem_letters_M hc1.req.head (RestOK.trailing 77 _ (Or.inr (Or.inl rfl)) (clean_of_cleanB (by decide)))
    · exact ⟨hc1, Wrote.of_eq ho hl⟩
  refine h2 _ ?_ ?_ ?_
  · split
    · exact h1.upd _ (fun r => ⟨rfl, rfl, rfl, rfl, rfl, rfl, rfl, rfl, rfl, rfl, rfl, rfl⟩)
    · exact h1
  · split <;> rfl
  · split <;> rfl

theorem findRefSlot_mem {svcs : List (Option Svc)} {cli : XqCli} {service : Bytes} {i : Nat} {srv : Svc}
    (h : findRefSlot svcs cli service = some (i, srv)) : some srv ∈ svcs := by
  unfold findRefSlot at h
  suffices hgo : ∀ (l : List (Option Svc)) (k : Nat), findRefSlot.go cli service k l = some (i, srv) → some srv ∈ l from hgo svcs 0 h
  intro l
  induction l with
  | nil => intro k hk; simp [findRefSlot.go] at hk
  | cons s rest ih =>
    intro k hk
    unfold findRefSlot.go at hk
    split at hk
    · exact List.mem_cons_of_mem _ (ih _ hk)
    · split at hk
      · split at hk
        · simp only [Option.some.injEq, Prod.mk.injEq] at hk
          obtain ⟨_, rfl⟩ := hk
          exact List.mem_cons_self ..
        · exact List.mem_cons_of_mem _ (ih _ hk)
      · exact List.mem_cons_of_mem _ (ih _ hk)

theorem apology_shape : b " :The login server is currently disconnected.  Please excuse the inconvenience." =
    32 :: 58 :: b "The login server is currently disconnected.  Please excuse the inconvenience." := by decide

theorem xqReply_good (st : Static) (c c' : Ctx) (svc : Bytes) (reply : Option Bytes) (h : CtxOK c)
    (hrep : ∀ r, reply = some r → Clean r) (hg : xqReply st c svc reply = .ok c') : Good c c' := by
  have emitC : ∀ text, Clean text → Good c (c.emit (sendReq c.req (b "C") (b " :" ++ text))) := by
    intro text ht
    refine ⟨h.emit _, Wrote.emit _ _ ?_⟩
    rw [b_C, b_colon]
    exact sendReq_wellFormed mem_letters_C h.req.head (RestOK.trailing 67 text (Or.inr (Or.inr rfl)) ht)
  unfold xqReply at hg
  split at hg
  · simp only [pure, Except.pure, Except.ok.injEq] at hg; subst hg; exact Good.refl h
  · rename_i cli hx
    have hcred : Clean cli.cred := h.req.text.credC cli hx
    split at hg
    · simp only [pure, Except.pure, Except.ok.injEq] at hg; subst hg; exact Good.refl h
    · rename_i i srv hfind
      have hs : SvcOK srv := h.svcs srv (findRefSlot_mem hfind)
      split at hg
      · -- unlinked
        dsimp only at hg
        split at hg
        · have g0 : Good c (c.emit (sendReq c.req (b "C") (b " :The login server is currently disconnected.  Please excuse the inconvenience."))) := by
            refine ⟨h.emit _, Wrote.emit _ _ ?_⟩
            rw [b_C, apology_shape]
            exact sendReq_wellFormed mem_letters_C h.req.head (RestOK.trailing 67 _ (Or.inr (Or.inr rfl)) (clean_of_cleanB (by decide)))
          exact g0.trans (xqFinish_good st i _ _ cli _ g0.ok (by exact hs) (by exact hcred) hg)
        · exact xqFinish_good st i _ _ cli _ h (by exact hs) (by exact hcred) hg
      · rename_i rep
        have hrc : Clean rep := hrep rep rfl
        split at hg
        · exact xqFinish_good st i _ _ _ _ h (by exact hs) (by exact hcred) hg
        · rename_i stamp hok
          dsimp only at hg
          have hstamp : Clean stamp := by
            unfold okStamp at hok
            split at hok
            · split at hok
              · cases hok
              · simp only [Option.some.injEq] at hok; rw [← hok]; exact hrc.drop 3
            · cases hok
          split at hg
          · have g1 := xqVouch_good c { cli with ok := maskAdd cli.ok i } stamp h hstamp
            exact g1.trans (xqFinish_good st i _ _ _ _ g1.ok (by exact hs) (by exact hcred) hg)
          · exact xqFinish_good st i _ _ _ _ h (by exact hs) (by exact hcred) hg
        · split at hg
          · have h1 : CtxOK { c with svcs := setSvc c.svcs i (some { srv with bad := srv.bad + 1, badAcct := srv.badAcct + (if c.req.account.isEmpty then 0 else 1) }) } :=
              ⟨h.req, h.svcs.set i _ (by intro s hs'; simp only [Option.some.injEq] at hs'; subst hs'; exact hs), h.rules, h.lim⟩
            have g := kill_good _ _ _ h1 (hrc.drop 3) hg
            exact ⟨g.ok, (Wrote.of_eq rfl rfl).trans g.wrote⟩
          · split at hg
            · have g0 := emitC (rep.drop 6) (hrc.drop 6)
              exact g0.trans (xqFinish_good st i _ _ cli _ g0.ok (by exact hs) (by exact hcred) hg)
            · split at hg
              · have g0 := emitC (rep.drop 5) (hrc.drop 5)
                exact g0.trans (xqFinish_good st i _ _ _ _ g0.ok (by exact hs) (by exact hcred) hg)
              · simp only [pure, Except.pure, Except.ok.injEq] at hg; subst hg; exact Good.refl h

/-! ### server events -/

theorem fieldChange_good (st : Static) (p : Bool) (c : Ctx) (h : CtxOK c) : Good c (fieldChange st p c) := by
  unfold fieldChange; split
  · exact xqCheck_good p c h
  · exact Good.refl h

/-- what an event may carry -/
def EvOK : Ev → Prop
  | .hostname h => ∀ x, h = some x → Clean x
  | .noHostname => True
  | .password p => ∀ x, p = some x → Clean x
  | .userInfo user real => NoSp user ∧ Clean user ∧ Clean real
  | .ident i => ∀ x, i = some x → Clean x
  | .nick n => ∀ x, n = some x → Clean x
  | .hurry => True
  | .timeout => True

theorem reqEvent_good (st : Static) (c c' : Ctx) (ev : Ev) (h : CtxOK c) (hev : EvOK ev)
    (hg : reqEvent st c ev = .ok c') : Good c c' := by
  have fin : ∀ c1 : Ctx, gate st (fieldChange st false c1) = .ok c' → CtxOK c1 → c1.out = c.out → c1.lim = c.lim → Good c c' := by
    intro c1 hgg h1 ho hl
    have g1 := fieldChange_good st false c1 h1
    have g2 := gate_good st _ _ g1.ok hgg
    exact ⟨g2.ok, (Wrote.of_eq ho hl).trans (g1.wrote.trans g2.wrote)⟩
  have flagsOnly : ∀ (f : Flags → Flags), CtxOK (updReq c fun r => { r with flags := f r.flags }) :=
    fun f => h.upd _ (fun r => ⟨rfl, rfl, rfl, rfl, rfl, rfl, rfl, rfl, rfl, rfl, rfl, rfl⟩)
  cases ev with
  | hostname hn =>
    simp only [reqEvent] at hg
    split at hg
    · simp only [pure, Except.pure, Except.ok.injEq] at hg; subst hg; exact Good.refl h
    · split at hg
      · cases hg
      · rename_i x
        have hx : Clean x := hev x rfl
        refine fin _ hg ?_ rfl rfl
        refine ⟨⟨⟨h.req.head.client, h.req.head.port, h.req.head.addrW, h.req.head.addrC, h.req.head.addrL⟩, h.req.serial, ?_⟩,
          h.svcs, h.rules, h.lim⟩
        exact ⟨h.req.text.acctS, h.req.text.acctC, h.req.text.acctL, h.req.text.clsS, h.req.text.clsC, h.req.text.clsL,
          h.req.text.userS, h.req.text.userC, h.req.text.userL, hx.take _, h.req.text.authC, h.req.text.nickC,
          h.req.text.realC, h.req.text.credC⟩
  | noHostname =>
    simp only [reqEvent] at hg
    exact fin _ hg (flagsOnly fun f => { f with gotHost := true }) rfl rfl
  | password p =>
    simp only [reqEvent, bind, Except.bind] at hg
    have h1 : CtxOK (updReq c fun r => { r with flags := { r.flags with gotPass := true } }) :=
      flagsOnly fun f => { f with gotPass := true }
    split at hg
    · split at hg
      · cases hg
      · rename_i c1 hx
        have g1 := xqPassword_good _ _ p h1 hev hx
        have g2 := gate_good st _ _ g1.ok hg
        exact ⟨g2.ok, (Wrote.of_eq rfl rfl).trans (g1.wrote.trans g2.wrote)⟩
    · simp only [pure, Except.pure] at hg
      have g2 := gate_good st _ _ h1 hg
      exact ⟨g2.ok, (Wrote.of_eq rfl rfl).trans g2.wrote⟩
  | userInfo user real =>
    simp only [reqEvent] at hg
    obtain ⟨u1, u2, u3⟩ := hev
    refine fin _ hg ?_ rfl rfl
    refine ⟨⟨⟨h.req.head.client, h.req.head.port, h.req.head.addrW, h.req.head.addrC, h.req.head.addrL⟩, h.req.serial, ?_⟩,
      h.svcs, h.rules, h.lim⟩
    refine ⟨h.req.text.acctS, h.req.text.acctC, h.req.text.acctL, h.req.text.clsS, h.req.text.clsC, h.req.text.clsL,
      u1.take _, u2.take _, ?_, h.req.text.hostC, h.req.text.authC, h.req.text.nickC, u3.take _, h.req.text.credC⟩
    show (strncpyN c.lim.user user).length ≤ c.lim.user
    unfold strncpyN; rw [List.length_take]; omega
  | ident i =>
    simp only [reqEvent] at hg
    refine fin _ hg ?_ rfl rfl
    cases i with
    | some x =>
      have hx : Clean x := hev x rfl
      refine ⟨⟨⟨h.req.head.client, h.req.head.port, h.req.head.addrW, h.req.head.addrC, h.req.head.addrL⟩, h.req.serial, ?_⟩,
        h.svcs, h.rules, h.lim⟩
      exact ⟨h.req.text.acctS, h.req.text.acctC, h.req.text.acctL, h.req.text.clsS, h.req.text.clsC, h.req.text.clsL,
        h.req.text.userS, h.req.text.userC, h.req.text.userL, h.req.text.hostC, hx.take _, h.req.text.nickC,
        h.req.text.realC, h.req.text.credC⟩
    | none =>
      refine h.upd _ (fun r => ?_)
      dsimp only
      split <;> exact ⟨rfl, rfl, rfl, rfl, rfl, rfl, rfl, rfl, rfl, rfl, rfl, rfl⟩
  | nick n =>
    simp only [reqEvent] at hg
    split at hg
    · cases hg
    · rename_i x
      have hx : Clean x := hev x rfl
      refine fin _ hg ?_ rfl rfl
      refine ⟨⟨⟨h.req.head.client, h.req.head.port, h.req.head.addrW, h.req.head.addrC, h.req.head.addrL⟩, h.req.serial, ?_⟩,
        h.svcs, h.rules, h.lim⟩
      exact ⟨h.req.text.acctS, h.req.text.acctC, h.req.text.acctL, h.req.text.clsS, h.req.text.clsC, h.req.text.clsL,
        h.req.text.userS, h.req.text.userC, h.req.text.userL, h.req.text.hostC, h.req.text.authC, hx.take _,
        h.req.text.realC, h.req.text.credC⟩
  | hurry =>
    simp only [reqEvent] at hg
    exact fin _ hg (flagsOnly fun f => { (f.or st.need) with gotHurry := true }) rfl rfl
  | timeout =>
    simp only [reqEvent] at hg
    have h1 : CtxOK (updReq c fun r => { r with soft := 0, timer := .fired, flags := { r.flags with timedOut := true } }) :=
      h.upd _ (fun r => ⟨rfl, rfl, rfl, rfl, rfl, rfl, rfl, rfl, rfl, rfl, rfl, rfl⟩)
    have g2 := gate_good st _ _ h1 hg
    exact ⟨g2.ok, (Wrote.of_eq rfl rfl).trans g2.wrote⟩

end Iauthd.Proto
