import Iauthd.Proto.Props
/-
  C02 / C03: the two counters of a request are exactly what the sets say.

    holds  = 1  iff the client demanded +! and has no account stamp yet, else 0
    soft   = 1  iff some query about it is unanswered, else 0     (until the timeout expires)

  `HoldPair r cli` states this for a request `r` and the xquery client record `cli` that is
  about to be written back into it; `HoldInv r` is the same for the stored record.
-/
set_option linter.unusedSimpArgs false
set_option linter.unusedVariables false
namespace Iauthd.Proto
open Iauthd

def HoldPair (r : Req) (cli : XqCli) : Prop :=
  r.holds = (if cli.modeBang && r.account.isEmpty then 1 else 0)
  ∧ (r.flags.timedOut = false → r.soft = (if cli.ref.isEmpty then 0 else 1))

def HoldInv (r : Req) : Prop :=
  match r.xq with
  | none => r.holds = 0 ∧ (r.flags.timedOut = false → r.soft = 0)
  | some cli => HoldPair r cli

theorem maskAdd_ne_nil (m : List Nat) (i : Nat) : (maskAdd m i).isEmpty = false := by
  unfold maskAdd
  split
  · rename_i h; cases m <;> simp_all
  · rfl

/-! ### sending queries -/

theorem xqTake_hold (c : Ctx) (srv : Svc) (cli : XqCli) (i : Nat) (h : HoldPair c.req cli) :
    HoldPair (xqTake c srv cli i).req { cli with ref := maskAdd cli.ref i, sent := maskAdd cli.sent i } := by
  unfold xqTake HoldPair at *
  dsimp only
  obtain ⟨h1, h2⟩ := h
  by_cases he : cli.ref.isEmpty = true
  · simp only [he, if_true, updReq, maskAdd_ne_nil, Bool.false_eq_true, if_false]
    refine ⟨h1, fun ht => ?_⟩
    have := h2 ht
    simp only [he, if_true] at this
    show c.req.soft + 1 = 1
    omega
  · simp only [he, Bool.false_eq_true, if_false, maskAdd_ne_nil]
    refine ⟨h1, fun ht => ?_⟩
    have := h2 ht
    simpa [he] using this

theorem xqCheckSlot_hold (p : Bool) (c : Ctx) (cli : XqCli) (i : Nat) (h : HoldPair c.req cli) :
    HoldPair (xqCheckSlot p c cli i).1.req (xqCheckSlot p c cli i).2 := by
  unfold xqCheckSlot
  split
  · exact h
  · split
    · exact h
    · exact xqTake_hold _ _ _ _ h

theorem xqCheckLoop_hold (p : Bool) (is : List Nat) (c : Ctx) (cli : XqCli) (h : HoldPair c.req cli) :
    HoldPair (xqCheckLoop p is c cli).1.req (xqCheckLoop p is c cli).2 := by
  induction is generalizing c cli with
  | nil => exact h
  | cons i is ih =>
    unfold xqCheckLoop
    exact ih _ _ (xqCheckSlot_hold p c cli i h)

theorem holdInv_of_pair {r : Req} {cli : XqCli} (h : HoldPair r cli) : HoldInv { r with xq := some cli } := h

theorem xqCheck_hold (p : Bool) (c : Ctx) (h : HoldInv c.req) : HoldInv (xqCheck p c).req := by
  unfold xqCheck
  split
  · exact h
  · rename_i cli hx
    have hp : HoldPair c.req cli := by unfold HoldInv at h; simpa [hx] using h
    have := xqCheckLoop_hold p (List.range c.svcs.length) c cli hp
    exact this

/-! ### passwords -/

theorem holdsAfterPassword_spec (holds : Int) (was bang noAcc : Bool)
    (h : holds = if was && noAcc then 1 else 0) :
    holdsAfterPassword holds was bang noAcc = if bang && noAcc then 1 else 0 := by
  unfold holdsAfterPassword
  cases was <;> cases bang <;> cases noAcc <;> simp_all

theorem xqCheckPassword_hold (c : Ctx) (cli : XqCli) (pw : Bytes) (hx : c.req.xq = some cli)
    (h : HoldInv c.req) : HoldInv (xqCheckPassword c cli pw).req := by
  have hp : HoldPair c.req cli := by unfold HoldInv at h; simpa [hx] using h
  unfold xqCheckPassword
  split
  · exact h
  · rename_i m cred _
    dsimp only
    apply xqCheck_hold
    obtain ⟨h1, h2⟩ := hp
    simp only [updReq, HoldInv, HoldPair]
    exact ⟨holdsAfterPassword_spec _ _ _ _ h1, h2⟩

theorem xqMoreLoop_hold (pw : Bytes) (is : List Nat) (c : Ctx) (cli : XqCli) (h : HoldPair c.req cli) :
    HoldPair (xqMoreLoop pw is c cli).1.req (xqMoreLoop pw is c cli).2 := by
  induction is generalizing c cli with
  | nil => exact h
  | cons i is ih =>
    unfold xqMoreLoop
    split
    · exact ih _ _ h
    · split
      · exact ih _ _ h
      · split
        · exact ih _ _ h
        · apply ih
          obtain ⟨h1, h2⟩ := h
          unfold HoldPair
          by_cases he : cli.ref.isEmpty = true
          · simp only [he, if_true, updReq, Ctx.emit, maskAdd_ne_nil, Bool.false_eq_true, if_false]
            refine ⟨h1, fun ht => ?_⟩
            have := h2 ht
            simp only [he, if_true] at this
            show c.req.soft + 1 = 1
            omega
          · simp only [he, Bool.false_eq_true, if_false, Ctx.emit, maskAdd_ne_nil]
            refine ⟨h1, fun ht => ?_⟩
            have := h2 ht
            simpa [he] using this

theorem xqPassword_hold (c c' : Ctx) (pw : Option Bytes) (h : HoldInv c.req)
    (hp : xqPassword c pw = .ok c') : HoldInv c'.req := by
  unfold xqPassword at hp
  split at hp
  · simp only [pure, Except.pure, Except.ok.injEq] at hp; subst hp; exact h
  · rename_i cli hx
    split at hp
    · split at hp
      · cases hp
      · simp only [pure, Except.pure, Except.ok.injEq] at hp; subst hp
        exact xqCheckPassword_hold c cli _ hx h
    · simp only [pure, Except.pure, Except.ok.injEq] at hp; subst hp
      have hpair : HoldPair c.req cli := by unfold HoldInv at h; simpa [hx] using h
      exact xqMoreLoop_hold _ (List.range c.svcs.length) c cli hpair

/-! ### replies -/

theorem mem_of_findRefSlot {svcs : List (Option Svc)} {cli : XqCli} {svc : Bytes} {i : Nat} {srv : Svc}
    (h : findRefSlot svcs cli svc = some (i, srv)) : cli.ref.contains i = true := by
  unfold findRefSlot at h
  -- generalise the running index
  suffices ∀ (k : Nat) (l : List (Option Svc)), findRefSlot.go cli svc k l = some (i, srv) → cli.ref.contains i = true from
    this 0 svcs h
  intro k l
  induction l generalizing k with
  | nil => intro h; simp [findRefSlot.go] at h
  | cons s rest ih =>
    intro h
    unfold findRefSlot.go at h
    split at h
    · exact ih _ h
    · rename_i hc
      split at h
      · split at h
        · simp only [Option.some.injEq, Prod.mk.injEq] at h
          obtain ⟨rfl, _⟩ := h
          simpa using hc
        · exact ih _ h
      · exact ih _ h

theorem ref_ne_nil_of_contains {m : List Nat} {i : Nat} (h : m.contains i = true) : m.isEmpty = false := by
  cases m <;> simp_all

/-- the common tail of the reply handler keeps the counters in step -/
theorem xqFinishPre_hold (i : Nat) (c : Ctx) (cli : XqCli) (srv : Svc) (h : HoldPair c.req cli)
    (hi : cli.ref.contains i = true) : HoldInv (xqFinishPre i c cli srv).req := by
  obtain ⟨h1, h2⟩ := h
  have hne := ref_ne_nil_of_contains hi
  unfold xqFinishPre
  dsimp only
  split <;> split <;> simp only [updReq, unrefSvc_req, HoldInv, HoldPair] <;>
    (refine ⟨h1, fun ht => ?_⟩
     have := h2 ht
     simp only [hne, Bool.false_eq_true, if_false] at this
     simp_all)

theorem setAccount_ne_nil (lim : Limits) (hl : 0 < lim.account) (stamp : Bytes) (h : stamp.head? ≠ some 32) (hne : stamp ≠ []) :
    (setAccount lim stamp).isEmpty = false := by
  unfold setAccount
  cases stamp with
  | nil => exact absurd rfl hne
  | cons x xs =>
    have hx : (x != 32) = true := by
      have : x ≠ 32 := fun e => h (by simp [e])
      simp [this]
    simp [List.takeWhile, hx]
    omega

theorem okStamp_some {rep stamp : Bytes} (h : okStamp rep = some (some stamp)) :
    stamp.head? ≠ some 32 ∧ stamp ≠ [] := by
  unfold okStamp at h
  by_cases hpre : (startsWith (b "OK") rep && (rep.length == 2 || rep.getD 2 0 == 32)) = true
  · simp only [hpre, if_true] at h
    by_cases hc : (rep.length == 2 || rep.length == 3 || rep.getD 3 0 == 32) = true
    · simp only [hc, if_true] at h; cases h
    · simp only [hc, Bool.false_eq_true, if_false, Option.some.injEq] at h
      subst h
      simp only [Bool.or_eq_true, beq_iff_eq, not_or] at hc
      obtain ⟨⟨hl2, hl3⟩, h3⟩ := hc
      have hge : 2 ≤ rep.length := by
        simp only [Bool.and_eq_true] at hpre
        have h0 := hpre.1
        unfold startsWith at h0
        have hb : b "OK" = [79, 75] := by decide
        rw [hb] at h0
        have h1 : rep.take 2 = [79, 75] := by simpa using h0
        have h2 := congrArg List.length h1
        simp [List.length_take] at h2
        omega
      have hlen : 3 < rep.length := by omega
      constructor
      · intro hh
        apply h3
        rw [List.head?_drop] at hh
        simp [List.getD_eq_getElem?_getD, hh]
      · intro hn
        have := congrArg List.length hn
        simp [List.length_drop] at this
        omega
  · simp only [hpre, Bool.false_eq_true, if_false] at h; cases h

/-- `OK <account>` from a login-capable service keeps `holds` in step -/
theorem xqVouch_hold (c : Ctx) (cli : XqCli) (stamp : Bytes) (h : HoldPair c.req cli) (hl : 0 < c.lim.account)
    (hs : stamp.head? ≠ some 32 ∧ stamp ≠ []) : HoldPair (xqVouch c cli stamp).req cli := by
  obtain ⟨h1, h2⟩ := h
  have hacc := setAccount_ne_nil c.lim hl stamp hs.1 hs.2
  unfold xqVouch HoldPair
  dsimp only
  cases hb : cli.modeBang <;> cases he : c.req.account.isEmpty <;> cases hx : cli.modeX <;>
    simp_all [updReq, Ctx.emit]

/-! ### the gate and the verdicts do not touch the counted fields -/

/-- the fields `HoldInv` talks about -/
def SameHold (r r' : Req) : Prop :=
  r'.holds = r.holds ∧ r'.soft = r.soft ∧ r'.account = r.account ∧ r'.xq = r.xq
    ∧ r'.flags.timedOut = r.flags.timedOut

theorem SameHold.inv {r r' : Req} (h : SameHold r r') (hi : HoldInv r) : HoldInv r' := by
  obtain ⟨a, b', c, d, e⟩ := h
  unfold HoldInv HoldPair at *
  rw [d]
  cases hx : r.xq with
  | none => simp only [hx] at hi; simp only [a, b', e]; exact hi
  | some cli => simp only [hx] at hi; simp only [a, b', c, e]; exact hi

theorem gate_hold (st : Static) (c c' : Ctx) (h : gate st c = .ok c') :
    c'.gone = true ∨ SameHold c.req c'.req := by
  unfold gate at h
  dsimp only at h
  by_cases h1 : (c.req.holds == 0 && !c.req.flags.responded && st.need.subset c.req.flags) = true
  · simp only [h1, if_true] at h
    by_cases h2 : (c.req.soft == 0 || c.req.flags.timedOut) = true
    · simp only [h2, if_true] at h
      exact Or.inl (accept_spec st _ _ h).2
    · simp only [h2, if_false, Bool.false_eq_true] at h
      split at h <;> (simp only [pure, Except.pure, Except.ok.injEq] at h; subst h; right;
                      simp [SameHold, softDone, updReq, Ctx.emit])
  · simp only [h1, if_false, Bool.false_eq_true, pure, Except.pure, Except.ok.injEq] at h
    subst h; right; simp [SameHold]

/-- an outcome that either removes the request or keeps `HoldInv` -/
def HoldOut (c' : Ctx) : Prop := c'.gone = true ∨ HoldInv c'.req

theorem gate_holdOut (st : Static) (c c' : Ctx) (hi : HoldInv c.req) (h : gate st c = .ok c') : HoldOut c' := by
  rcases gate_hold st c c' h with hg | hs
  · exact Or.inl hg
  · exact Or.inr (hs.inv hi)

theorem xqFinish_holdOut (st : Static) (i : Nat) (c c' : Ctx) (cli : XqCli) (srv : Svc)
    (hp : HoldPair c.req cli) (hi : cli.ref.contains i = true)
    (h : xqFinish st i c cli srv = .ok c') : HoldOut c' := by
  rw [xqFinish_eq] at h
  exact gate_holdOut st _ _ (xqFinishPre_hold i c cli srv hp hi) h

theorem maskAdd_contains_self (m : List Nat) (i : Nat) : (maskAdd m i).contains i = true := by
  unfold maskAdd; split <;> simp_all

theorem HoldPair.congr {r : Req} {cli cli' : XqCli} (h : HoldPair r cli)
    (hb : cli'.modeBang = cli.modeBang) (hr : cli'.ref = cli.ref) : HoldPair r cli' := by
  unfold HoldPair at *; rw [hb, hr]; exact h

theorem xqReply_holdOut (st : Static) (c c' : Ctx) (svc : Bytes) (reply : Option Bytes)
    (hi : HoldInv c.req) (hl : 0 < c.lim.account) (h : xqReply st c svc reply = .ok c') : HoldOut c' := by
  unfold xqReply at h
  split at h
  · simp only [pure, Except.pure, Except.ok.injEq] at h; subst h; exact Or.inr hi
  · rename_i cli hx
    have hp : HoldPair c.req cli := by unfold HoldInv at hi; simpa [hx] using hi
    split at h
    · simp only [pure, Except.pure, Except.ok.injEq] at h; subst h; exact Or.inr hi
    · rename_i i srv hf
      have hc := mem_of_findRefSlot hf
      split at h
      · dsimp only at h
        split at h
        · exact xqFinish_holdOut st i _ _ _ _ (show HoldPair (c.emit _).req cli from hp) hc h
        · exact xqFinish_holdOut st i _ _ _ _ hp hc h
      · split at h
        · exact xqFinish_holdOut st i _ _ _ _ (hp.congr (cli' := { cli with ok := maskAdd cli.ok i }) rfl rfl) hc h
        · rename_i stamp hok
          dsimp only at h
          split at h
          · exact xqFinish_holdOut st i _ _ _ _
              (xqVouch_hold c _ stamp (hp.congr (cli' := { cli with ok := maskAdd cli.ok i }) rfl rfl) hl (okStamp_some hok)) hc h
          · exact xqFinish_holdOut st i _ _ _ _ (hp.congr (cli' := { cli with ok := maskAdd cli.ok i }) rfl rfl) hc h
        · split at h
          · exact Or.inl (kill_spec _ _ _ h).2
          · split at h
            · exact xqFinish_holdOut st i _ _ _ _ (show HoldPair (c.emit _).req cli from hp) hc h
            · split at h
              · exact xqFinish_holdOut st i _ _ _ _
                  (show HoldPair (c.emit _).req { cli with more := maskAdd cli.more i } from hp.congr rfl rfl) hc h
              · simp only [pure, Except.pure, Except.ok.injEq] at h; subst h; exact Or.inr hi

theorem fieldChange_hold (st : Static) (p : Bool) (c : Ctx) (hi : HoldInv c.req) : HoldInv (fieldChange st p c).req := by
  unfold fieldChange; split
  · exact xqCheck_hold p c hi
  · exact hi

/-- updates of the data fields and of flags other than `timedOut` keep `HoldInv` -/
theorem holdInv_congr {r r' : Req} (h : SameHold r r') (hi : HoldInv r) : HoldInv r' := h.inv hi

theorem reqEvent_holdOut (st : Static) (hwf : st.wf) (c c' : Ctx) (ev : Ev) (hi : HoldInv c.req)
    (hto : st.need.timedOut = false) (h : reqEvent st c ev = .ok c') : HoldOut c' := by
  cases ev with
  | hostname hn =>
    simp only [reqEvent] at h
    split at h
    · simp only [pure, Except.pure, Except.ok.injEq] at h; subst h; exact Or.inr hi
    · split at h
      · cases h
      · refine gate_holdOut st _ _ (fieldChange_hold st false _ ?_) h
        exact holdInv_congr (by simp [SameHold, updReq]) hi
  | noHostname =>
    simp only [reqEvent] at h
    refine gate_holdOut st _ _ (fieldChange_hold st false _ ?_) h
    exact holdInv_congr (by simp [SameHold, updReq]) hi
  | password p =>
    simp only [reqEvent, bind, Except.bind] at h
    have h0 : HoldInv (updReq c fun r => { r with flags := { r.flags with gotPass := true } }).req :=
      holdInv_congr (by simp [SameHold, updReq]) hi
    by_cases hx : st.hasXq = true
    · simp only [hx, if_true] at h
      split at h
      · cases h
      · rename_i c1 hc1
        exact gate_holdOut st _ _ (xqPassword_hold _ _ _ h0 hc1) h
    · simp only [hx, if_false, Bool.false_eq_true, pure, Except.pure] at h
      exact gate_holdOut st _ _ h0 h
  | userInfo u r =>
    simp only [reqEvent] at h
    refine gate_holdOut st _ _ (fieldChange_hold st false _ ?_) h
    refine holdInv_congr ?_ hi
    simp only [SameHold, updReq]
    split <;> simp
  | ident i =>
    simp only [reqEvent] at h
    refine gate_holdOut st _ _ (fieldChange_hold st false _ ?_) h
    refine holdInv_congr ?_ hi
    simp only [SameHold, updReq]
    split
    · simp
    · split <;> simp
  | nick n =>
    simp only [reqEvent] at h
    split at h
    · cases h
    · refine gate_holdOut st _ _ (fieldChange_hold st false _ ?_) h
      exact holdInv_congr (by simp [SameHold, updReq]) hi
  | hurry =>
    simp only [reqEvent] at h
    refine gate_holdOut st _ _ (fieldChange_hold st false _ ?_) h
    exact holdInv_congr (by simp [SameHold, updReq, Flags.or, hto]) hi
  | timeout =>
    simp only [reqEvent] at h
    refine gate_holdOut st _ _ ?_ h
    -- after the expiry the soft-hold clause is vacuous
    unfold HoldInv HoldPair at *
    simp only [updReq]
    cases hx : c.req.xq with
    | none => simp only [hx] at hi; exact ⟨hi.1, by simp⟩
    | some cli => simp only [hx] at hi; exact ⟨hi.1, by simp⟩

/-- **C02 / C03 (model part).**  For a stored request the acceptance condition of the gate,
    which is written in terms of the two counters, is exactly the condition in terms of
    sets: no +! demand without an account stamp, every required flag present, and no
    unanswered query unless the timeout expired. -/
theorem gate_condition_iff (need : Flags) (r : Req) (cli : XqCli) (hx : r.xq = some cli) (hi : HoldInv r) :
    (r.holds = 0 ∧ need.subset r.flags = true ∧ (r.soft = 0 ∨ r.flags.timedOut = true))
    ↔ (¬ (cli.modeBang = true ∧ r.account = []) ∧ need.subset r.flags = true
        ∧ (cli.ref = [] ∨ r.flags.timedOut = true)) := by
  unfold HoldInv at hi
  simp only [hx, HoldPair] at hi
  obtain ⟨h1, h2⟩ := hi
  constructor
  · rintro ⟨a, b', c⟩
    refine ⟨?_, b', ?_⟩
    · rintro ⟨hb, ha⟩
      simp [hb, ha] at h1
      omega
    · rcases c with c | c
      · by_cases ht : r.flags.timedOut = true
        · exact Or.inr ht
        · have := h2 (by simpa using ht)
          left
          by_cases he : cli.ref.isEmpty = true
          · simpa using he
          · simp [he] at this; omega
      · exact Or.inr c
  · rintro ⟨a, b', c⟩
    refine ⟨?_, b', ?_⟩
    · by_cases hb : (cli.modeBang && r.account.isEmpty) = true
      · exfalso; apply a
        simp only [Bool.and_eq_true, List.isEmpty_iff] at hb
        exact hb
      · simp [hb] at h1; simpa [hb] using h1
    · rcases c with c | c
      · by_cases ht : r.flags.timedOut = true
        · exact Or.inr ht
        · left; have := h2 (by simpa using ht); simpa [c] using this
      · exact Or.inr c

/-! ### every stored request keeps its counters in step, over whole histories -/

def HInv (s : State) : Prop := ∀ r ∈ s.reqs, HoldInv r

theorem withReq_pred {P : Req → Prop} {s s' : State} {r : Req} {f : Ctx → M Ctx} {out : List Bytes}
    (hall : ∀ x ∈ s.reqs, P x) (hf : ∀ c', f (ctx0 s r) = .ok c' → c'.gone = true ∨ P c'.req)
    (h : withReq s r f = .ok (s', out)) : ∀ x ∈ s'.reqs, P x := by
  rw [withReq_eq] at h
  cases hx : f (ctx0 s r) with
  | error e => simp [hx, Except.map] at h
  | ok c =>
    simp only [hx, Except.map, Except.ok.injEq, Prod.mk.injEq] at h
    obtain ⟨rfl, _⟩ := h
    intro x hx'
    dsimp only at hx'
    split at hx'
    · exact hall x (mem_removeReq hx')
    · rename_i hg
      rcases mem_putReq hx' with rfl | hm
      · rcases hf c hx with hgone | hp
        · exact absurd hgone hg
        · exact hp
      · exact hall x hm

theorem need_timedOut (s : State) : s.static.need.timedOut = false := by
  simp only [State.static, State.need]; split <;> rfl

theorem onReq_hold {s s' : State} {req? : Option Req} {c : String} {ev : Ev} {out : List Bytes} (hi : Inv s) (hh : HInv s)
    (hreq : ∀ r, req? = some r → r ∈ s.reqs) (h : onReq s req? c ev = .ok (s', out)) : HInv s' := by
  unfold onReq at h
  cases req? with
  | none => simp only [garbage, pure, Except.pure, Except.ok.injEq, Prod.mk.injEq] at h; obtain ⟨rfl, _⟩ := h; exact hh
  | some r =>
    exact withReq_pred hh (fun c' hc =>
      reqEvent_holdOut _ (static_wf s hi.deps) _ _ _ (hh r (hreq r rfl)) (need_timedOut s) hc) h

theorem dropReq_hold {s s' : State} {req? : Option Req} {c : String} {out : List Bytes} (hh : HInv s)
    (h : dropReq s req? c = .ok (s', out)) : HInv s' := by
  unfold dropReq at h
  cases req? with
  | none => simp only [garbage, pure, Except.pure, Except.ok.injEq, Prod.mk.injEq] at h; obtain ⟨rfl, _⟩ := h; exact hh
  | some r =>
    exact withReq_pred (f := fun ctx => pure (finishReq ctx)) hh (fun c' hc => by
      simp only [pure, Except.pure, Except.ok.injEq] at hc; subst hc; exact Or.inl rfl) h

theorem onReply_hold {s s' : State} {l : Line} {isX : Bool} {out : List Bytes} (hi : Inv s) (hh : HInv s)
    (h : onReply s l isX = .ok (s', out)) : HInv s' := by
  unfold onReply at h
  split at h
  · simp only [pure, Except.pure, Except.ok.injEq, Prod.mk.injEq] at h; obtain ⟨rfl, _⟩ := h; exact hh
  · split at h
    · simp only [pure, Except.pure, Except.ok.injEq, Prod.mk.injEq] at h; obtain ⟨rfl, _⟩ := h; exact hh
    · rename_i r hv
      exact withReq_pred hh (fun c' hc => xqReply_holdOut _ _ _ _ _ (hh r (validateRequest_mem hv)) hi.accPos hc) h

theorem newClient_hold {s s' : State} {id : Int} {a p : Bytes} {out : List Bytes} (hi : Inv s) (hh : HInv s)
    (h : newClient s id a p = .ok (s', out)) : HInv s' := by
  unfold newClient at h
  cases hp : ptonC a false with
  | error e => simp [hp, bind, Except.bind] at h
  | ok r =>
    simp only [hp, bind, Except.bind, pure, Except.pure, Except.ok.injEq, Prod.mk.injEq] at h
    obtain ⟨rfl, _⟩ := h
    intro x hx
    rcases (ids_insertReq _ _ hi.sorted).2 x hx with rfl | hm
    · split <;> simp [HoldInv, HoldPair]
    · exact hh x hm

theorem pure_hold {s s' : State} {out o : List Bytes} (hh : HInv s)
    (h : (pure (s, o) : M (State × List Bytes)) = .ok (s', out)) : HInv s' := by
  simp only [pure, Except.pure, Except.ok.injEq, Prod.mk.injEq] at h
  obtain ⟨rfl, _⟩ := h; exact hh

theorem dispatch_hold {s s' : State} {l : Line} {cmd : UInt8} {req? : Option Req} {out : List Bytes}
    (hi : Inv s) (hh : HInv s) (hreq : ∀ r, req? = some r → r ∈ s.reqs)
    (h : dispatch s l cmd req? = .ok (s', out)) : HInv s' := by
  unfold dispatch at h
  dsimp only at h
  by_cases c1 : (cmd == 67) = true
  · rw [if_pos c1] at h
    by_cases a : l.argv.length < 5
    · rw [if_pos a] at h; exact pure_hold hh h
    · rw [if_neg a] at h; exact newClient_hold hi hh h
  rw [if_neg c1] at h
  by_cases c2 : (cmd == 68) = true
  · rw [if_pos c2] at h; exact dropReq_hold hh h
  rw [if_neg c2] at h
  by_cases c3 : (cmd == 78) = true
  · rw [if_pos c3] at h
    by_cases a : (req?.isSome && decide (l.argv.length < 2)) = true
    · rw [if_pos a] at h; exact pure_hold hh h
    · rw [if_neg a] at h; exact onReq_hold hi hh hreq h
  rw [if_neg c3] at h
  by_cases c4 : (cmd == 100) = true
  · rw [if_pos c4] at h; exact onReq_hold hi hh hreq h
  rw [if_neg c4] at h
  by_cases c5 : (cmd == 80) = true
  · rw [if_pos c5] at h
    by_cases a : (req?.isSome && decide (l.argv.length < 2)) = true
    · rw [if_pos a] at h; exact pure_hold hh h
    · rw [if_neg a] at h; exact onReq_hold hi hh hreq h
  rw [if_neg c5] at h
  by_cases c6 : (cmd == 85) = true
  · rw [if_pos c6] at h
    cases req? with
    | none => exact pure_hold hh h
    | some r =>
      dsimp only at h
      by_cases a : l.argv.length < 3
      · rw [if_pos a] at h; exact pure_hold hh h
      · rw [if_neg a] at h
        exact withReq_pred hh (fun c' hc =>
          reqEvent_holdOut _ (static_wf s hi.deps) _ _ _ (hh r (hreq r rfl)) (need_timedOut s) hc) h
  rw [if_neg c6] at h
  by_cases c7 : (cmd == 117) = true
  · rw [if_pos c7] at h; exact onReq_hold hi hh hreq h
  rw [if_neg c7] at h
  by_cases c8 : (cmd == 110) = true
  · rw [if_pos c8] at h
    by_cases a : (req?.isSome && decide (l.argv.length < 2)) = true
    · rw [if_pos a] at h; exact pure_hold hh h
    · rw [if_neg a] at h; exact onReq_hold hi hh hreq h
  rw [if_neg c8] at h
  by_cases c9 : (cmd == 72) = true
  · rw [if_pos c9] at h; exact onReq_hold hi hh hreq h
  rw [if_neg c9] at h
  by_cases c10 : (cmd == 84) = true
  · rw [if_pos c10] at h; exact dropReq_hold hh h
  rw [if_neg c10] at h
  by_cases c11 : (cmd == 88) = true
  · rw [if_pos c11] at h; exact onReply_hold hi hh h
  rw [if_neg c11] at h
  by_cases c12 : (cmd == 120) = true
  · rw [if_pos c12] at h; exact onReply_hold hi hh h
  rw [if_neg c12] at h
  by_cases c13 : (cmd == 63) = true
  · rw [if_pos c13] at h
    obtain ⟨o, ho⟩ := onInfo_spec s l
    rw [ho] at h
    simp only [Except.ok.injEq, Prod.mk.injEq] at h; obtain ⟨rfl, _⟩ := h; exact hh
  rw [if_neg c13] at h; exact pure_hold hh h

theorem stepLine_hold {s s' : State} {raw : Bytes} {out : List Bytes} (hi : Inv s) (hh : HInv s)
    (h : stepLine s raw = .ok (s', out)) : HInv s' := by
  unfold stepLine at h
  dsimp only at h
  split at h
  · exact pure_hold hh h
  · split at h
    · split at h
      · exact pure_hold hh h
      · exact dispatch_hold hi hh (fun r hr => by cases hr) h
    · split at h
      · exact pure_hold hh h
      · exact dispatch_hold hi hh (fun r hr => (findReq_mem hr).1) h

theorem stepLines_hold (lines : List Bytes) {s s' : State} {out : List Bytes} (hi : Inv s) (hh : HInv s)
    (h : stepLines s lines = .ok (s', out)) : HInv s' := by
  induction lines generalizing s out with
  | nil => exact pure_hold hh h
  | cons ln rest ih =>
    unfold stepLines at h
    split at h
    · exact ih hi hh h
    · simp only [bind, Except.bind] at h
      split at h
      · cases h
      · rename_i v1 h1
        obtain ⟨s1, o1⟩ := v1
        dsimp only at h
        split at h
        · cases h
        · rename_i v2 h2
          obtain ⟨s2, o2⟩ := v2
          simp only [pure, Except.pure, Except.ok.injEq, Prod.mk.injEq] at h
          obtain ⟨rfl, _⟩ := h
          exact ih (stepLine_inv hi h1).1 (stepLine_hold hi hh h1) h2

theorem stepOp_hold {s s' : State} {op : Op} {out : List Bytes} (hi : Inv s) (hh : HInv s)
    (h : stepOp s op = .ok (s', out)) : HInv s' := by
  cases op with
  | chunk bs =>
    simp only [stepOp, stepChunk] at h
    cases hr : stepLines { s with inbuf := [] } (splitLines (s.inbuf ++ bs)).1 with
    | error e => simp [hr, Except.map] at h
    | ok r =>
      obtain ⟨s1, o1⟩ := r
      simp only [hr, Except.map, Except.ok.injEq, Prod.mk.injEq] at h
      obtain ⟨rfl, _⟩ := h
      exact (stepLines_hold _ (inv_inbuf hi []) (by exact hh) hr : HInv s1)
  | timeout id =>
    simp only [stepOp] at h
    cases hr : stepTimeout s id with
    | error e => simp [hr, Except.map] at h
    | ok r =>
      obtain ⟨s1, o1, f1⟩ := r
      simp only [hr, Except.map, Except.ok.injEq, Prod.mk.injEq] at h
      obtain ⟨rfl, _⟩ := h
      unfold stepTimeout at hr
      split at hr
      · rename_i rq hf
        split at hr
        · simp only [bind, Except.bind] at hr
          split at hr
          · cases hr
          · rename_i v hv
            obtain ⟨s2, o2⟩ := v
            simp only [pure, Except.pure, Except.ok.injEq, Prod.mk.injEq] at hr
            obtain ⟨rfl, _, _⟩ := hr
            exact withReq_pred hh (fun c' hc =>
              reqEvent_holdOut _ (static_wf s hi.deps) _ _ _ (hh rq (findReq_mem hf).1) (need_timedOut s) hc) hv
        · simp only [pure, Except.pure, Except.ok.injEq, Prod.mk.injEq] at hr
          obtain ⟨rfl, _⟩ := hr; exact hh
      · simp only [pure, Except.pure, Except.ok.injEq, Prod.mk.injEq] at hr
        obtain ⟨rfl, _⟩ := hr; exact hh

/-- **C02 / C03 over whole histories**: in every reachable state every stored request has
    `holds` and `soft_holds` equal to what the sets say. -/
theorem runOps_hold (ops : List Op) (s : State) (hi : Inv s) (hh : HInv s) (s' : State) (outs : List (List Bytes))
    (h : runOps s ops = .ok (s', outs)) : HInv s' := by
  induction ops generalizing s outs with
  | nil => simp only [runOps, pure, Except.pure, Except.ok.injEq, Prod.mk.injEq] at h; obtain ⟨rfl, _⟩ := h; exact hh
  | cons op ops ih =>
    simp only [runOps, bind, Except.bind] at h
    split at h
    · cases h
    · rename_i v1 h1
      obtain ⟨s1, o1⟩ := v1
      dsimp only at h
      split at h
      · cases h
      · rename_i v2 h2
        obtain ⟨s2, os⟩ := v2
        simp only [pure, Except.pure, Except.ok.injEq, Prod.mk.injEq] at h
        obtain ⟨rfl, _⟩ := h
        exact ih s1 (stepOp_inv hi h1).1 (stepOp_hold hi hh h1) os h2

end Iauthd.Proto
