import Iauthd.Proto.Props
/-
  C02 / C03: the two counters of a request are exactly what the sets say.

    holds  = 1  iff the client demanded +! and has no account stamp yet, else 0
    soft   = 1  iff some query about it is unanswered, else 0     (until the timeout expires)

  `HoldPair r cli` states this for a request `r` and the xquery client record `cli` that is
  about to be written back into it; `HoldInv r` is the same for the stored record.
-/
set_option linter.unusedSimpArgs false
set_option linter.unusedVariables false
namespace Iauthd.Proto
open Iauthd

def HoldPair (r : Req) (cli : XqCli) : Prop :=
  r.holds = (if cli.modeBang && r.account.isEmpty then 1 else 0)
  ∧ (r.flags.timedOut = false → r.soft = (if cli.ref.isEmpty then 0 else 1))

def HoldInv (r : Req) : Prop :=
  match r.xq with
  | none => r.holds = 0 ∧ (r.flags.timedOut = false → r.soft = 0)
  | some cli => HoldPair r cli

theorem maskAdd_ne_nil (m : List Nat) (i : Nat) : (maskAdd m i).isEmpty = false := by
  unfold maskAdd
  split
  · rename_i h; cases m <;> simp_all
  · rfl

/-! ### sending queries -/

theorem xqTake_hold (c : Ctx) (srv : Svc) (cli : XqCli) (i : Nat) (h : HoldPair c.req cli) :
    HoldPair (xqTake c srv cli i).req { cli with ref := maskAdd cli.ref i, sent := maskAdd cli.sent i } := by
  unfold xqTake HoldPair at *
  dsimp only
  obtain ⟨h1, h2⟩ := h
  by_cases he : cli.ref.isEmpty = true
  · simp only [he, if_true, updReq, maskAdd_ne_nil, Bool.false_eq_true, if_false]
    refine ⟨h1, fun ht => ?_⟩
    have := h2 ht
    simp only [he, if_true] at this
    show c.req.soft + 1 = 1
    omega
  · simp only [he, Bool.false_eq_true, if_false, maskAdd_ne_nil]
    refine ⟨h1, fun ht => ?_⟩
    have := h2 ht
    simpa [he] using this

theorem xqCheckSlot_hold (p : Bool) (c : Ctx) (cli : XqCli) (i : Nat) (h : HoldPair c.req cli) :
    HoldPair (xqCheckSlot p c cli i).1.req (xqCheckSlot p c cli i).2 := by
  unfold xqCheckSlot
  split
  · exact h
  · split
    · exact h
    · exact xqTake_hold _ _ _ _ h

theorem xqCheckLoop_hold (p : Bool) (is : List Nat) (c : Ctx) (cli : XqCli) (h : HoldPair c.req cli) :
    HoldPair (xqCheckLoop p is c cli).1.req (xqCheckLoop p is c cli).2 := by
  induction is generalizing c cli with
  | nil => exact h
  | cons i is ih =>
    unfold xqCheckLoop
    exact ih _ _ (xqCheckSlot_hold p c cli i h)

theorem holdInv_of_pair {r : Req} {cli : XqCli} (h : HoldPair r cli) : HoldInv { r with xq := some cli } := h

theorem xqCheck_hold (p : Bool) (c : Ctx) (h : HoldInv c.req) : HoldInv (xqCheck p c).req := by
  unfold xqCheck
  split
  · exact h
  · rename_i cli hx
    have hp : HoldPair c.req cli := by unfold HoldInv at h; simpa [hx] using h
    have := xqCheckLoop_hold p (List.range c.svcs.length) c cli hp
    exact this

/-! ### passwords -/

theorem holdsAfterPassword_spec (holds : Int) (was bang noAcc : Bool)
    (h : holds = if was && noAcc then 1 else 0) :
    holdsAfterPassword holds was bang noAcc = if bang && noAcc then 1 else 0 := by
  unfold holdsAfterPassword
  cases was <;> cases bang <;> cases noAcc <;> simp_all

theorem xqCheckPassword_hold (c : Ctx) (cli : XqCli) (pw : Bytes) (hx : c.req.xq = some cli)
    (h : HoldInv c.req) : HoldInv (xqCheckPassword c cli pw).req := by
  have hp : HoldPair c.req cli := by unfold HoldInv at h; simpa [hx] using h
  unfold xqCheckPassword
  split
  · exact h
  · rename_i m cred _
    dsimp only
    apply xqCheck_hold
    obtain ⟨h1, h2⟩ := hp
    simp only [updReq, HoldInv, HoldPair]
    exact ⟨holdsAfterPassword_spec _ _ _ _ h1, h2⟩

end Iauthd.Proto
