import Iauthd.Proto.Chunk
import Iauthd.Proto.Sim01
/-
  C04 at the level of histories: a reply that is stray - its routing tag does not validate, or the
  service it names does not owe the addressed instance an answer - is a step that changes nothing
  and writes nothing; the list of input lines with such a line inserted anywhere is processed exactly
  like the list without it.
-/
set_option linter.unusedSimpArgs false
set_option linter.unusedVariables false
namespace Iauthd.Proto
open Iauthd

theorem putReq_same : ∀ (reqs : List Req) (r : Req), findReq reqs r.client = some r → (ids reqs).Pairwise (· < ·) →
    putReq r reqs = reqs
  | [], r, _, _ => rfl
  | q :: qs, r, h, hs => by
    simp only [ids, List.map_cons, List.pairwise_cons] at hs
    unfold putReq
    simp only [List.map_cons]
    unfold findReq at h
    simp only [List.find?_cons] at h
    by_cases hq : (q.client == r.client) = true
    · simp only [hq, Option.some.injEq] at h
      subst h
      simp only [hq, if_true]
      congr 1
      apply List.ext_getElem (by simp)
      intro i h1 h2
      simp only [List.getElem_map]
      have hm : qs[i] ∈ qs := List.getElem_mem ..
      have hlt := hs.1 qs[i].client (List.mem_map_of_mem hm)
      have : (qs[i].client == q.client) = false := by
        have : qs[i].client ≠ q.client := by omega
        simpa using this
      simp only [this, Bool.false_eq_true, if_false]
    · have hq' : (q.client == r.client) = false := by simpa using hq
      simp only [hq', Bool.false_eq_true, if_false] at h ⊢
      congr 1
      exact putReq_same qs r h hs.2

/-- a reply whose tag validates but whose service owes that instance nothing -/
def NotAwaited (s : State) (l : Line) : Prop :=
  ∃ r, validateRequest s ((arg l 2).getD []) = some r ∧
    (r.xq = none ∨ ∃ cli, r.xq = some cli ∧ findRefSlot s.svcs cli ((arg l 1).getD []) = none)

theorem onReply_stray (s : State) (hi : Inv s) (l : Line) (isX : Bool)
    (h : validateRequest s ((arg l 2).getD []) = none ∨ NotAwaited s l) : onReply s l isX = .ok (s, []) := by
  rcases h with h | ⟨r, hv, hx⟩
  · exact stray_tag_noop s l isX h
  · unfold onReply
    split
    · rfl
    · simp only [hv]
      rw [withReq_eq]
      have hmem := validateRequest_mem hv
      have hfind : findReq s.reqs r.client = some r := by
        obtain ⟨id, serial, hp, h1, h2, h3⟩ := validateRequest_serial hv
        unfold validateRequest at hv
        rw [hp] at hv
        dsimp only at hv
        split at hv
        · rename_i q hq
          split at hv
          · simp only [Option.some.injEq] at hv; subst hv; rw [h1]; exact hq
          · cases hv
        · cases hv
      have hx2 : xqReply s.static (ctx0 s r) ((arg l 1).getD []) (if isX then arg l 3 else none) = .ok (ctx0 s r) := by
        rcases hx with hn | ⟨cli, hc, hf⟩
        · unfold xqReply
          simp only [ctx0, hn]; rfl
        · exact not_awaited_noop _ _ _ _ cli hc hf
      rw [hx2]
      simp only [Except.map, ctx0]
      have : putReq r s.reqs = s.reqs := putReq_same s.reqs r hfind hi.sorted
      simp [this]

/-- one complete line that is a stray reply -/
structure StrayLine (s : State) (raw : Bytes) : Prop where
  cmd : ∃ a0 args, (tokenize raw).argv = a0 :: args ∧ (a0.getD 0 0 = 88 ∨ a0.getD 0 0 = 120)
  id : (tokenize raw).id = -1
  stray : validateRequest s ((arg (tokenize raw) 2).getD []) = none ∨ NotAwaited s (tokenize raw)

theorem stepLine_stray (s : State) (hi : Inv s) (raw : Bytes) (h : StrayLine s raw) : stepLine s raw = .ok (s, []) := by
  obtain ⟨⟨a0, args, ha, hc⟩, hid, hst⟩ := h
  unfold stepLine
  simp only [ha, hid]
  generalize a0.getD 0 0 = cmd at *
  have e1 : ((-1 : Int) != -1) = false := by decide
  simp only [beq_self_eq_true, Bool.true_or, if_true, e1, Bool.false_and, Bool.false_eq_true, if_false]
  unfold dispatch
  rcases hc with hc | hc
  · subst hc
    have : ∀ k : UInt8, k ≠ 88 → ((88 : UInt8) == k) = false := by intro k hk; simpa using (Ne.symm hk)
    simp only [this 67 (by decide), this 68 (by decide), this 78 (by decide), this 100 (by decide), this 80 (by decide),
      this 85 (by decide), this 117 (by decide), this 110 (by decide), this 72 (by decide), this 84 (by decide),
      Bool.false_eq_true, if_false, beq_self_eq_true, if_true]
    exact onReply_stray s hi _ true hst
  · subst hc
    have : ∀ k : UInt8, k ≠ 120 → ((120 : UInt8) == k) = false := by intro k hk; simpa using (Ne.symm hk)
    simp only [this 67 (by decide), this 68 (by decide), this 78 (by decide), this 100 (by decide), this 80 (by decide),
      this 85 (by decide), this 117 (by decide), this 110 (by decide), this 72 (by decide), this 84 (by decide), this 88 (by decide),
      Bool.false_eq_true, if_false, beq_self_eq_true, if_true]
    exact onReply_stray s hi _ false hst

/-- **the history with the stray line and the history without it**: if the daemon has processed the
    lines `a` and is in state `sa`, a line that is stray in `sa` can be inserted before the remaining
    lines `rest` without any effect on state or output -/
theorem stepLines_insert_stray (s sa : State) (oa : List Bytes) (a rest : List Bytes) (ln : Bytes)
    (ha : stepLines s a = .ok (sa, oa)) (hia : Inv sa) (hne : ln.isEmpty = false) (hs : StrayLine sa (cstr ln)) :
    stepLines s (a ++ ln :: rest) = stepLines s (a ++ rest) := by
  rw [stepLines_append, stepLines_append, ha]
  simp only [seq2]
  rw [stepLines_cons]
  simp only [hne, Bool.false_eq_true, if_false, stepLine_stray sa hia _ hs, seq2, List.nil_append]
  cases stepLines sa rest with
  | error e => rfl
  | ok v => rfl

end Iauthd.Proto
