import Iauthd.Proto.Reload17
import Iauthd.Proto.Deliver
/-
  C17, across a whole reload (`deliverXq` with its intermediate rescans) and across any number of
  reloads: while nobody waits for a service, the table holds exactly what the latest file's section
  names.

  * `servicesChanged_keeps`   a rescan keeps `TableOK` and `NoRefs`
  * `deliverXq_keeps`         so does a whole delivery
  * `Wants_view`              what a section asks for depends only on its string entries
  * `deliverXq_exact`         after a reload the table is exactly what the new section names
-/
namespace Iauthd.Proto

theorem getElem?_of_getD {l : List (Option Svc)} {j : Nat} {x : Svc} (h : l.getD j none = some x) : l[j]? = some (some x) := by
  rw [List.getD_eq_getElem?_getD] at h
  cases hj : l[j]? with
  | none => rw [hj] at h; cases h
  | some v => rw [hj] at h; simp only [Option.getD_some] at h; rw [h]

theorem getD_of_getElem? {l : List (Option Svc)} {j : Nat} {x : Svc} (h : l[j]? = some (some x)) : l.getD j none = some x := by
  rw [List.getD_eq_getElem?_getD, h]; rfl

/-- a table obtained by emptying slots keeps the invariants -/
theorem TableOK.sub {l T : List (Option Svc)} (h : TableOK l)
    (hs : ∀ j x, T.getD j none = some x → l.getD j none = some x) : TableOK T := by
  refine ⟨?_, ?_⟩
  · intro x hx
    obtain ⟨j, hj⟩ := getD_of_mem hx
    exact h.nonul x (mem_of_getD (hs j x hj))
  · intro i j x y hx hy hxy
    exact h.distinct i j x y (getElem?_of_getD (hs i x (getD_of_getElem? hx))) (getElem?_of_getD (hs j y (getD_of_getElem? hy))) hxy

theorem NoRefs.sub {l T : List (Option Svc)} (h : NoRefs l)
    (hs : ∀ j x, T.getD j none = some x → l.getD j none = some x) : NoRefs T := by
  intro x hx
  obtain ⟨j, hj⟩ := getD_of_mem hx
  exact h x (mem_of_getD (hs j x hj))

theorem unrefAll_sub (svcs : List (Option Svc)) (stats : Stats) :
    ∀ j x, (unrefAll svcs stats).1.getD j none = some x → svcs.getD j none = some x := by
  intro j x hx
  rw [unrefAll_eq] at hx
  rcases unrefFold_slot (List.range svcs.length) (svcs, stats) j with h | h
  · rw [h] at hx; cases hx
  · rw [h] at hx; exact hx

/-- marking every service unconfigured keeps the invariants -/
theorem unmark_keeps {l : List (Option Svc)} (hok : TableOK l) (hr : NoRefs l) :
    TableOK (l.map fun o => o.map fun srv => { srv with configured := false }) ∧
    NoRefs (l.map fun o => o.map fun srv => { srv with configured := false }) := by
  refine ⟨⟨?_, ?_⟩, ?_⟩
  · intro x hx
    obtain ⟨o, ho, he⟩ := List.mem_map.1 hx
    cases o with
    | none => cases he
    | some y => simp only [Option.map_some, Option.some.injEq] at he; subst he; exact hok.nonul y ho
  · intro i j x y hx hy hxy
    rw [List.getElem?_map] at hx hy
    cases hi : l[i]? with
    | none => rw [hi] at hx; cases hx
    | some oi =>
      cases hj : l[j]? with
      | none => rw [hj] at hy; cases hy
      | some oj =>
        rw [hi] at hx; rw [hj] at hy
        cases oi with
        | none => cases hx
        | some a =>
          cases oj with
          | none => cases hy
          | some c =>
            simp only [Option.map_some, Option.some.injEq] at hx hy
            subst hx; subst hy
            exact hok.distinct i j a c hi hj hxy
  · intro x hx
    obtain ⟨o, ho, he⟩ := List.mem_map.1 hx
    cases o with
    | none => cases he
    | some y => simp only [Option.map_some, Option.some.injEq] at he; subst he; exact hr y ho

theorem scan_keeps : ∀ (sec : List CNode) (acc : List (Option Svc) × Stats), TableOK acc.1 → NoRefs acc.1 →
    (∀ n ∈ sec, NoNul n.name) → TableOK (sec.foldl scanStep acc).1 ∧ NoRefs (sec.foldl scanStep acc).1
  | [], _, h1, h2, _ => ⟨h1, h2⟩
  | n :: sec, acc, h1, h2, hn => by
    simp only [List.foldl_cons]
    apply scan_keeps sec
    · unfold scanStep
      split
      · exact (configService_effect acc.1 acc.2 n.name (cstr n.value) h1 (hn n (List.mem_cons_self ..))).ok
      · exact h1
    · unfold scanStep
      split
      · exact (configService_effect acc.1 acc.2 n.name (cstr n.value) h1 (hn n (List.mem_cons_self ..))).norefs h2
      · exact h2
    · exact fun m hm => hn m (List.mem_cons_of_mem _ hm)

/-- a rescan keeps the table well formed and unreferenced -/
theorem servicesChanged_keeps (s : State) (sec : List CNode) (hok : TableOK s.svcs) (hr : NoRefs s.svcs)
    (hn : ∀ n ∈ sec, NoNul n.name) :
    TableOK (servicesChanged s sec).svcs ∧ NoRefs (servicesChanged s sec).svcs := by
  unfold servicesChanged
  dsimp only
  obtain ⟨u1, u2⟩ := unmark_keeps hok hr
  have hfold : (sec.foldl (fun (acc : List (Option Svc) × Stats) n =>
      if n.isString then configService acc.1 acc.2 n.name (cstr n.value) else acc)
      (s.svcs.map fun o => o.map fun srv => { srv with configured := false }, s.stats)) =
      sec.foldl scanStep (s.svcs.map fun o => o.map fun srv => { srv with configured := false }, s.stats) := rfl
  rw [hfold]
  obtain ⟨k1, k2⟩ := scan_keeps sec (_, s.stats) u1 u2 hn
  exact ⟨k1.sub (unrefAll_sub _ _), k2.sub (unrefAll_sub _ _)⟩

/-- … and so does a whole delivery, intermediate rescans included -/
theorem deliverXq_keeps (s : State) (live xq : List CNode) (first : Bool) (hok : TableOK s.svcs) (hr : NoRefs s.svcs)
    (hl : ∀ n ∈ live, NoNul n.name) (hx : ∀ n ∈ xq, NoNul n.name) :
    TableOK (deliverXq s live xq first).svcs ∧ NoRefs (deliverXq s live xq first).svcs :=
  deliverXq_inv (P := fun s => TableOK s.svcs ∧ NoRefs s.svcs) (Q := fun n => NoNul n.name)
    (fun s sec h hq => servicesChanged_keeps s sec h.1 h.2 hq) s live xq first ⟨hok, hr⟩ hl hx

/-- the same for any list of rescans -/
theorem foldl_keeps : ∀ (l : List (List CNode)) (s : State), TableOK s.svcs → NoRefs s.svcs →
    (∀ sec ∈ l, ∀ n ∈ sec, NoNul n.name) → TableOK (l.foldl servicesChanged s).svcs ∧ NoRefs (l.foldl servicesChanged s).svcs
  | [], _, h1, h2, _ => ⟨h1, h2⟩
  | a :: l, s, h1, h2, hq => by
    simp only [List.foldl_cons]
    obtain ⟨k1, k2⟩ := servicesChanged_keeps s a h1 h2 (hq a (List.mem_cons_self ..))
    exact foldl_keeps l _ k1 k2 (fun sec h => hq sec (List.mem_cons_of_mem _ h))

/-- what a section asks for depends only on its string entries -/
theorem Wants_view {a c : List CNode} (h : svcView a = svcView c) (name : Bytes) (t : SvcTy) :
    Wants a name t ↔ Wants c name t := by
  have key : ∀ (l : List CNode), Wants l name t ↔ ∃ p ∈ svcView l, p.1 = name ∧ typeOfText (cstr p.2) = some t := by
    intro l
    unfold Wants svcView
    constructor
    · rintro ⟨n, hn, h1, h2, h3⟩
      exact ⟨(n.name, n.value), List.mem_map.mpr ⟨n, List.mem_filter.mpr ⟨hn, h1⟩, rfl⟩, h2, h3⟩
    · rintro ⟨p, hp, h2, h3⟩
      obtain ⟨n, hn, rfl⟩ := List.mem_map.mp hp
      obtain ⟨hn1, hn2⟩ := List.mem_filter.mp hn
      exact ⟨n, hn1, hn2, h2, h3⟩
  rw [key a, key c, h]

/-- the table holds the service `name` with protocol `t` -/
def Has (s : State) (name : Bytes) (t : SvcTy) : Prop := ∃ y, some y ∈ s.svcs ∧ y.name = name ∧ y.ty = t

/-- **C17 across a reload**: the table was exactly what the live section names; nobody waits for a
    service; then after the reload - whichever hooks ran, in whatever order, however many intermediate
    rescans there were - it is exactly what the new section names -/
theorem deliverXq_exact (s : State) (live xq : List CNode) (hok : TableOK s.svcs) (hr : NoRefs s.svcs)
    (hlive : ∀ name t, Has s name t ↔ Wants live name t)
    (hl : ∀ n ∈ live, NoNul n.name) (hx : ∀ n ∈ xq, NoNul n.name) (hd : SecDistinct xq) (name : Bytes) (t : SvcTy) :
    Has (deliverXq s live xq false) name t ↔ Wants xq name t := by
  unfold deliverXq
  simp only [Bool.false_eq_true, if_false]
  cases hw : (rescanWalk [] live xq false).getLast? with
  | none =>
    have hnil := List.getLast?_eq_none_iff.mp hw
    rw [hnil]
    simp only [List.foldl_nil]
    rw [hlive name t]
    exact Wants_view (rescanWalk_nil _ _ _ _ hnil) name t
  | some sec =>
    have hne : rescanWalk [] live xq false ≠ [] := by
      intro h; rw [h] at hw; cases hw
    have hd' := List.dropLast_concat_getLast hne
    have hlast : (rescanWalk [] live xq false).getLast hne = sec := by
      rw [List.getLast?_eq_some_getLast hne] at hw; exact Option.some.inj hw
    have hv : svcView sec = svcView xq := by simpa using rescanWalk_last [] live xq false sec hw
    rw [← hd', List.foldl_append, hlast]
    simp only [List.foldl_cons, List.foldl_nil]
    rw [servicesChanged_congr _ hv]
    have hq : ∀ sec' ∈ (rescanWalk [] live xq false).dropLast, ∀ n ∈ sec', NoNul n.name := by
      intro sec' hs n hn
      rcases rescanWalk_mem [] live xq false sec' (List.dropLast_subset _ hs) n hn with h | h | h
      · cases h
      · exact hl n h
      · exact hx n h
    obtain ⟨k1, k2⟩ := foldl_keeps _ s hok hr hq
    exact servicesChanged_exact _ xq k1 k2 hd hx name t

end Iauthd.Proto
