import Iauthd.Proto.Table
/-
  Further theorems about the Proto model, one group per property:
  C02 (the gate), C04 (stray replies), C06 (query eligibility), C10 (accounting),
  C11 (first matching rule), C05 (reply dispatch), C07 (frame over lines).
-/
set_option linter.unusedSimpArgs false
set_option linter.unusedVariables false
namespace Iauthd.Proto
open Iauthd

/-! ## C02: the gate removes a request only under the acceptance condition -/

/-- `iauth_check_request` accepts (removes) a request only when it has no hard hold, has
    not been answered, holds every required flag, and has no soft hold unless its timeout
    expired. -/
theorem gate_removes_only_if (st : Static) (c c' : Ctx) (h : gate st c = .ok c')
    (hg : c.gone = false) (hg' : c'.gone = true) :
    c.req.holds = 0 ∧ c.req.flags.responded = false ∧ st.need.subset c.req.flags = true
      ∧ (c.req.soft = 0 ∨ c.req.flags.timedOut = true) := by
  unfold gate at h
  dsimp only at h
  by_cases h1 : (c.req.holds == 0 && !c.req.flags.responded && st.need.subset c.req.flags) = true
  · have hc := h1
    simp only [Bool.and_eq_true, beq_iff_eq, Bool.not_eq_true'] at hc
    simp only [h1, if_true] at h
    by_cases h2 : (c.req.soft == 0 || c.req.flags.timedOut) = true
    · have h2' := h2
      simp only [Bool.or_eq_true, beq_iff_eq] at h2'
      exact ⟨hc.1.1, hc.1.2, hc.2, h2'⟩
    · simp only [h2, if_false, Bool.false_eq_true] at h
      split at h <;> (simp only [pure, Except.pure, Except.ok.injEq] at h; subst h;
                      simp [softDone, updReq, Ctx.emit, hg] at hg')
  · simp only [h1, if_false, Bool.false_eq_true, pure, Except.pure, Except.ok.injEq] at h
    subst h; simp [hg] at hg'

/-- and conversely: when the condition holds the request is removed in this very call (the
    gate never leaves a ready request waiting) -/
theorem gate_removes_if (st : Static) (c c' : Ctx) (h : gate st c = .ok c')
    (h0 : c.req.holds = 0) (hr : c.req.flags.responded = false) (hs : st.need.subset c.req.flags = true)
    (hsoft : c.req.soft = 0 ∨ c.req.flags.timedOut = true) : c'.gone = true := by
  unfold gate at h
  dsimp only at h
  have h1 : (c.req.holds == 0 && !c.req.flags.responded && st.need.subset c.req.flags) = true := by
    simp [h0, hr, hs]
  have h2 : (c.req.soft == 0 || c.req.flags.timedOut) = true := by
    rcases hsoft with h | h <;> simp [h]
  simp only [h1, h2, if_true] at h
  exact (accept_spec st _ _ h).2

/-! ## C04: stray replies are inert -/

/-- a reply whose routing tag does not validate changes nothing and emits nothing -/
theorem stray_tag_noop (s : State) (l : Line) (isX : Bool)
    (h : validateRequest s ((arg l 2).getD []) = none) : onReply s l isX = .ok (s, []) := by
  unfold onReply
  split
  · rfl
  · simp only [h]; rfl

/-- a reply from a service that does not owe this instance an answer changes nothing -/
theorem not_awaited_noop (st : Static) (c : Ctx) (svc : Bytes) (reply : Option Bytes) (cli : XqCli)
    (hx : c.req.xq = some cli) (h : findRefSlot c.svcs cli svc = none) : xqReply st c svc reply = .ok c := by
  unfold xqReply
  simp only [hx, h]; rfl

/-- the tag reader accepts no number beyond 32 bits: no wrap-around aliasing -/
theorem parseTag_range (tag : Bytes) (id : Int) (serial : Nat) (h : parseTag tag = some (id, serial)) :
    serial ≤ 4294967295 ∧ ∃ v : Int, 0 ≤ v ∧ v ≤ 4294967295 ∧ id = toInt32 v := by
  unfold parseTag at h
  dsimp only at h
  split at h
  · cases h
  · split at h
    · cases h
    · split at h
      · cases h
      · rename_i hb
        simp only [Option.some.injEq, Prod.mk.injEq] at h
        obtain ⟨rfl, rfl⟩ := h
        simp only [Bool.or_eq_true, decide_eq_true_eq, not_or, Int.not_lt, Nat.not_lt] at hb
        exact ⟨by omega, _, by omega, by omega, rfl⟩

/-- a validated tag names a stored request with exactly that serial -/
theorem validateRequest_serial {s : State} {tag : Bytes} {r : Req} (h : validateRequest s tag = some r) :
    ∃ id serial, parseTag tag = some (id, serial) ∧ r.client = id ∧ r.serial = serial ∧ r ∈ s.reqs := by
  unfold validateRequest at h
  split at h
  · cases h
  · rename_i id serial hp
    split at h
    · rename_i r' hf
      split at h
      · rename_i hs
        cases h
        exact ⟨id, serial, hp, (findReq_mem hf).2, by simpa using hs, (findReq_mem hf).1⟩
      · cases h
    · cases h

/-! ## C06: a query is sent exactly when the service is eligible -/

theorem xqCheckSlot_query_iff (p : Bool) (c : Ctx) (cli : XqCli) (i : Nat) (srv : Svc)
    (hs : getSvc c.svcs i = some srv) :
    (xqCheckSlot p c cli i).1.out = c.out ++ (if xqEligible p srv cli i c.req.flags then xqQueryLines c.lim srv cli c.req else []) := by
  unfold xqCheckSlot
  simp only [hs]
  by_cases he : xqEligible p srv cli i c.req.flags = true
  · simp only [he, Bool.not_true, Bool.false_eq_true, if_false, if_true]
    unfold xqTake
    dsimp only
    split <;> rfl
  · simp only [he, Bool.not_eq_true] at *
    simp [he]

theorem xqCheckSlot_empty (p : Bool) (c : Ctx) (cli : XqCli) (i : Nat) (hs : getSvc c.svcs i = none) :
    xqCheckSlot p c cli i = (c, cli) := by
  unfold xqCheckSlot; simp only [hs]

/-- an eligible login-type service always gets its credentials line, a drone-type one its
    CHECK line; nothing is sent without the prerequisites -/
theorem eligible_needs (p : Bool) (srv : Svc) (cli : XqCli) (i : Nat) (f : Flags)
    (h : xqEligible p srv cli i f = true) :
    srv.configured = true ∧ srv.ty.prereq.subset f = true
      ∧ ((srv.ty = .login ∨ srv.ty = .loginIpr) → cli.cred ≠ [])
      ∧ (cli.sent.contains i = true → p = true ∧ srv.ty ≠ .dronecheck) := by
  unfold xqEligible at h
  simp only [Bool.and_eq_true, Bool.not_eq_true', Bool.and_eq_false_iff, Bool.or_eq_false_iff,
    Bool.or_eq_true, beq_iff_eq, Bool.not_eq_false'] at h
  obtain ⟨⟨⟨h1, h2⟩, h3⟩, h4⟩ := h
  refine ⟨h1, h4, ?_, ?_⟩
  · intro ht hc
    rcases h3 with h3 | h3
    · rcases ht with ht | ht
      · rw [ht] at h3; exact absurd h3.1 (by decide)
      · rw [ht] at h3; exact absurd h3.2 (by decide)
    · simp [hc] at h3
  · intro hsent
    rcases h2 with h2 | h2
    · rw [hsent] at h2; cases h2
    · refine ⟨h2.1, ?_⟩
      intro ht; rw [ht] at h2; exact absurd h2.2 (by decide)

/-- field truncations of the payload: what `strncpy` keeps -/
theorem xqUsername_len (lim : Limits) (r : Req) : (xqUsername lim r).length ≤ lim.user := by
  unfold xqUsername; simp [List.length_take]; omega

/-! ## C10: table accounting -/

theorem length_removeReq_le (id : Int) (reqs : List Req) : (removeReq id reqs).length ≤ reqs.length := by
  unfold removeReq; exact List.length_filter_le _ _

theorem length_putReq (r : Req) (reqs : List Req) : (putReq r reqs).length = reqs.length := by
  unfold putReq; simp

theorem length_insertReq_le (r : Req) (reqs : List Req) :
    reqs.length ≤ (insertReq r reqs).length ∧ (insertReq r reqs).length ≤ reqs.length + 1 := by
  induction reqs with
  | nil => simp [insertReq]
  | cons q qs ih =>
    unfold insertReq
    split
    · simp
    · split
      · simp
      · simp only [List.length_cons]; omega

/-- **C10**: a handler run changes the table size by at most one removal -/
theorem withReq_length {s s' : State} {r : Req} {f : Ctx → M Ctx} {out : List Bytes}
    (h : withReq s r f = .ok (s', out)) : s'.reqs.length ≤ s.reqs.length := by
  rw [withReq_eq] at h
  cases hx : f (ctx0 s r) with
  | error e => simp [hx, Except.map] at h
  | ok c =>
    simp only [hx, Except.map, Except.ok.injEq, Prod.mk.injEq] at h
    obtain ⟨rfl, _⟩ := h
    dsimp only
    split
    · exact length_removeReq_le _ _
    · rw [length_putReq]; exact Nat.le_refl _

/-- the statistics line reports exactly the size of the table -/
theorem stats_in_use (s : State) :
    collectStats.reportStatsCore s =
      sendRaw (b "S iauth :" ++ decNat s.stats.reqAllocs ++ b "-" ++ decNat s.stats.reqFrees ++ b " reqs alloc, "
        ++ decNat s.reqs.length ++ b " in use; " ++ decNat s.stats.dataFrees ++ b " data frees") := rfl

/-! ## C11: the first matching rule decides -/

/-- **C11.**  If the compiled rule vector is `pre ++ rule :: post`, no rule of `pre` matches
    the client and `rule` does, the client gets `rule`'s class value — or its name — cut to
    the class buffer, and `rule`'s hit counter (only) is bumped. -/
theorem classRules_first_match (st : Static) (pre post : List Rule) (rule : Rule) (c c' : Ctx) (rules' : List Rule)
    (hpre : ∀ q ∈ pre, ruleMatches c.svcs q c.req = false) (hm : ruleMatches c.svcs rule c.req = true)
    (h : classRules st (pre ++ rule :: post) c = .ok (c', rules')) :
    c'.req.cls = strlcpyN c.lim.cls (rule.cls.getD rule.name)
      ∧ rules' = pre ++ { rule with assigned := rule.assigned + 1 } :: post := by
  induction pre generalizing rules' with
  | nil =>
    simp only [List.nil_append] at h
    unfold classRules at h
    simp only [hm, if_true] at h
    by_cases ht : (wantsTrust rule c.req && !(trustName c.req).isEmpty) = true
    · simp only [ht, if_true, bind, Except.bind] at h
      split at h
      · cases h
      · rename_i c1 hx
        simp only [pure, Except.pure, Except.ok.injEq, Prod.mk.injEq] at h
        obtain ⟨rfl, rfl⟩ := h
        simp [updReq, (trustUsername_spec st _ _ _ hx).2.2.2.2]
    · simp only [ht, if_false, bind, Except.bind, pure, Except.pure, Except.ok.injEq, Prod.mk.injEq, Bool.false_eq_true] at h
      obtain ⟨rfl, rfl⟩ := h
      simp [updReq]
  | cons q qs ih =>
    simp only [List.cons_append] at h
    unfold classRules at h
    have hq := hpre q (by simp)
    simp only [hq, Bool.false_eq_true, if_false, bind, Except.bind] at h
    split at h
    · cases h
    · rename_i v hv
      obtain ⟨c1, r1⟩ := v
      simp only [pure, Except.pure, Except.ok.injEq, Prod.mk.injEq] at h
      obtain ⟨rfl, rfl⟩ := h
      have := ih r1 (fun x hx => hpre x (by simp [hx])) hv
      exact ⟨this.1, by simp [this.2]⟩

/-- no rule matches: the client keeps no class and no counter moves -/
theorem classRules_none (st : Static) (rules : List Rule) (c : Ctx)
    (hno : ∀ q ∈ rules, ruleMatches c.svcs q c.req = false) : classRules st rules c = .ok (c, rules) := by
  induction rules with
  | nil => rfl
  | cons q qs ih =>
    unfold classRules
    have hq := hno q (by simp)
    have := ih (fun x hx => hno x (by simp [hx]))
    simp only [hq, Bool.false_eq_true, if_false, bind, Except.bind, this, pure, Except.pure]

/-- what "matches" means: every present criterion holds (account glob on the part before
    ':', address prefix by `irc_check_mask`, ident glob, hostname glob, OK from the service) -/
theorem ruleMatches_iff (svcs : List (Option Svc)) (rule : Rule) (r : Req) :
    ruleMatches svcs rule r = true ↔
      (∀ p, rule.account = some p → glob p (accountBase r.account) = true)
      ∧ (rule.bits = 0 ∨ checkMaskC r.addr rule.addr rule.bits = true)
      ∧ (∀ p, rule.username = some p → glob p r.authUser = true)
      ∧ (∀ p, rule.hostname = some p → glob p r.hostname = true)
      ∧ (∀ n, rule.xreplyOk = some n → xreplyOk svcs r n > 0) := by
  unfold ruleMatches
  simp only [Bool.and_eq_true, Bool.or_eq_true, beq_iff_eq, decide_eq_true_eq]
  constructor
  · rintro ⟨⟨⟨⟨h1, h2⟩, h3⟩, h4⟩, h5⟩
    refine ⟨fun p hp => by simpa [hp] using h1, h2, fun p hp => by simpa [hp] using h3,
      fun p hp => by simpa [hp] using h4, fun n hn => by simpa [hn] using h5⟩
  · rintro ⟨h1, h2, h3, h4, h5⟩
    refine ⟨⟨⟨⟨?_, h2⟩, ?_⟩, ?_⟩, ?_⟩
    · cases ha : rule.account with
      | none => rfl
      | some p => simpa using h1 p ha
    · cases ha : rule.username with
      | none => rfl
      | some p => simpa using h3 p ha
    · cases ha : rule.hostname with
      | none => rfl
      | some p => simpa using h4 p ha
    · cases ha : rule.xreplyOk with
      | none => rfl
      | some n => simpa using h5 n ha

/-! ## C05: what each final reply does -/

/-- `NO <text>` from an awaited service: the client is killed with exactly that text -/
theorem reply_no_kills (st : Static) (c : Ctx) (svc text : Bytes) (cli : XqCli) (i : Nat) (srv : Svc)
    (hx : c.req.xq = some cli) (hf : findRefSlot c.svcs cli svc = some (i, srv))
    (hr : c.req.flags.responded = false) :
    ∃ c', xqReply st c svc (some (b "NO " ++ text)) = .ok c' ∧ c'.gone = true
      ∧ c'.out = c.out ++ [sendReq c.req (b "k") (b " :" ++ text)] := by
  unfold xqReply
  simp only [hx, hf]
  have hb : b "NO " = [78, 79, 32] := by decide
  have hok : okStamp (b "NO " ++ text) = none := by
    unfold okStamp startsWith
    rw [hb]
    have : b "OK" = [79, 75] := by decide
    rw [this]
    simp
  have hno : startsWith (b "NO ") (b "NO " ++ text) = true := by
    unfold startsWith; simp
  simp only [hok, hno, if_true]
  unfold kill
  simp only [hr, bind, Except.bind, pure, Except.pure, if_false, Bool.false_eq_true]
  refine ⟨_, rfl, rfl, ?_⟩
  simp [finishReq, Ctx.emit, updReq, sendReq, hb]

/-! ## C07: a line for one client leaves every other client's record alone -/

theorem onReq_others {s s' : State} {req? : Option Req} {c : String} {ev : Ev} {out : List Bytes} (hi : Inv s)
    (h : onReq s req? c ev = .ok (s', out)) (id : Int) (hne : ∀ r, req? = some r → id ≠ r.client) :
    findReq s'.reqs id = findReq s.reqs id := by
  unfold onReq at h
  cases req? with
  | none => simp only [garbage, pure, Except.pure, Except.ok.injEq, Prod.mk.injEq] at h; obtain ⟨rfl, _⟩ := h; rfl
  | some r =>
    exact withReq_others (r := r) (fun c' hc => (reqEvent_spec _ (static_wf s hi.deps) (ctx0 s r) _ _ hc).1) h id (hne r rfl)

theorem dropReq_others {s s' : State} {req? : Option Req} {c : String} {out : List Bytes}
    (h : dropReq s req? c = .ok (s', out)) (id : Int) (hne : ∀ r, req? = some r → id ≠ r.client) :
    findReq s'.reqs id = findReq s.reqs id := by
  unfold dropReq at h
  cases req? with
  | none => simp only [garbage, pure, Except.pure, Except.ok.injEq, Prod.mk.injEq] at h; obtain ⟨rfl, _⟩ := h; rfl
  | some r =>
    exact withReq_others (f := fun ctx => pure (finishReq ctx)) (fun c' hc => by
      simp only [pure, Except.pure, Except.ok.injEq] at hc; subst hc; rfl) h id (hne r rfl)

/-- a reply changes at most the request its (validated) tag names -/
theorem onReply_others {s s' : State} {l : Line} {isX : Bool} {out : List Bytes}
    (h : onReply s l isX = .ok (s', out)) (id : Int)
    (hne : ∀ r, validateRequest s ((arg l 2).getD []) = some r → id ≠ r.client) :
    findReq s'.reqs id = findReq s.reqs id := by
  unfold onReply at h
  split at h
  · simp only [pure, Except.pure, Except.ok.injEq, Prod.mk.injEq] at h; obtain ⟨rfl, _⟩ := h; rfl
  · split at h
    · simp only [pure, Except.pure, Except.ok.injEq, Prod.mk.injEq] at h; obtain ⟨rfl, _⟩ := h; rfl
    · rename_i r hv
      exact withReq_others (r := r) (fun c' hc => (xqReply_spec _ (ctx0 s r) _ _ _ hc).1) h id (hne r hv)

/-- an announcement touches only the announced id -/
theorem find_insertReq (reqs : List Req) (r : Req) (id : Int) (hne : id ≠ r.client) :
    findReq (insertReq r reqs) id = findReq reqs id := by
  unfold findReq
  induction reqs with
  | nil =>
    have : (r.client == id) = false := by simp; omega
    simp [insertReq, List.find?_cons, this]
  | cons q qs ih =>
    unfold insertReq
    have hr : (r.client == id) = false := by simp; omega
    split
    · simp only [List.find?_cons, hr]
    · split
      · rename_i _ he
        have he' : r.client = q.client := by simpa using he
        have hq : (q.client == id) = false := by simp; omega
        simp only [List.find?_cons, hr, hq]
      · simp only [List.find?_cons]
        rw [ih]

theorem newClient_others {s s' : State} {id0 : Int} {a p : Bytes} {out : List Bytes}
    (h : newClient s id0 a p = .ok (s', out)) (id : Int) (hne : id ≠ id0) :
    findReq s'.reqs id = findReq s.reqs id := by
  unfold newClient at h
  cases hp : ptonC a false with
  | error e => simp [hp, bind, Except.bind] at h
  | ok r =>
    simp only [hp, bind, Except.bind, pure, Except.pure, Except.ok.injEq, Prod.mk.injEq] at h
    obtain ⟨rfl, _⟩ := h
    dsimp only
    apply find_insertReq
    split <;> exact hne

end Iauthd.Proto
