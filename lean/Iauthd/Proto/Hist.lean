import Iauthd.Proto.Text
import Iauthd.Addr.Spec
/-
  The Spec side of the Proto engine: a tracker that follows one observable history
  (input lines, timeouts, reloads; output lines) and decides the trace properties
  C01, C02, C03, C05, C09, C10 *from observables only*.  It shares nothing with the
  model's state: no counters, no masks, no flags — only what the server said and what
  the daemon answered.  (Interpretation choices: DESIGN.md 6.0.)

  One `in` op must carry exactly one input line for the attribution of outputs to
  events to be meaningful; the driver skips other traces.
-/
namespace Iauthd.Proto.Hist
open Iauthd Iauthd.Proto

/-- service protocol as the operator wrote it -/
inductive Proto where
  | login | loginIpr | dronecheck | combined
  deriving Repr, BEq, DecidableEq

def protoOfText (t : Bytes) : Option Proto :=
  if Bytes.strcasecmp t (b "login") == 0 then some .login
  else if Bytes.strcasecmp t (b "login-ipr") == 0 then some .loginIpr
  else if Bytes.strcasecmp t (b "dronecheck") == 0 then some .dronecheck
  else if Bytes.strcasecmp t (b "combined") == 0 then some .combined
  else none

structure Inst where
  id : Int
  ordinal : Nat
  addrText : Bytes
  portText : Bytes
  host : Bool := false
  identGiven : Bool := false       -- `u <ident>`
  identEmpty : Bool := false       -- `u` without ident
  nick : Bool := false
  user : Bool := false
  hurry : Bool := false
  serial : Option Nat := none
  outstanding : List Bytes := []
  refused : Bool := false
  timedOut : Bool := false
  armed : Bool := false            -- a request timeout was configured when the instance was announced
  bang : Bool := false
  modeX : Bool := false
  credStored : Bool := false
  moreFrom : List Bytes := []
  vouched : List Bytes := []       -- most recent first
  softDones : Nat := 0
  deriving Repr

structure Tracker where
  hasXq : Bool := false
  services : List (Bytes × Option Proto) := []   -- configured table: name ↦ protocol
  live : List Inst := []
  ordinals : List (Int × Nat) := []
  timeout : Nat := 0                             -- `iauth { timeout }` of the live configuration
  deriving Repr

def Tracker.find (t : Tracker) (id : Int) : Option Inst := t.live.find? (·.id == id)
def Tracker.put (t : Tracker) (i : Inst) : Tracker :=
  { t with live := i :: t.live.filter (·.id != i.id) }
def Tracker.close (t : Tracker) (id : Int) : Tracker := { t with live := t.live.filter (·.id != id) }

def Inst.identDelivered (i : Inst) : Bool := i.identGiven || (i.identEmpty && i.user)

/-- registration data the loaded modules asked for is all there (or hurry-up) -/
def dataComplete (t : Tracker) (i : Inst) : Bool :=
  i.hurry || (i.host && (!t.hasXq || (i.user && i.nick && i.identDelivered)))

def ready (t : Tracker) (i : Inst) : Bool :=
  dataComplete t i && (i.outstanding.isEmpty || i.timedOut) && !(i.bang && i.vouched.isEmpty)

/-! ### reading input lines -/

structure ModeNet where
  x : Option Bool := none
  bang : Option Bool := none

def netModes : Bytes → Bool → ModeNet → ModeNet
  | [], _, m => m
  | c :: cs, set, m =>
    if c == 43 then netModes cs true m
    else if c == 45 then netModes cs false m
    else if c == 120 then netModes cs set { m with x := some set }
    else if c == 33 then netModes cs set { m with bang := some set }
    else netModes cs set m

/-- `<modes> <account> <password>`: first byte plus or minus, a blank after the mode word, and a
    blank inside what follows the blanks -/
def wellShaped (pw : Bytes) : Option ModeNet :=
  match pw with
  | [] => none
  | c :: _ =>
    if c != 43 && c != 45 then none
    else
      let word := pw.takeWhile (· != 32)
      let rest := (pw.dropWhile (· != 32))
      if rest.isEmpty then none
      else
        let cred := rest.dropWhile (· == 32)
        if cred.contains 32 then some (netModes word false {}) else none

def loginCapable : Option Proto → Bool
  | some .login | some .loginIpr | some .combined => true
  | _ => false

/-- a routing tag `<hex>_<hex>` read with the C spelling rules, without 32-bit wrap -/
def tagOf (tag : Bytes) : Option (Int × Nat) :=
  let (idv, e) := strtol 16 tag
  if e == 0 || tag.getD e 0 != 95 then none         -- both numbers must be there
  else
    let rest := tag.drop (e + 1)
    let (sv, e2) := strtoul 16 rest
    if e2 < rest.length || e2 == 0 then none
    else if idv < 0 || idv > 4294967295 || sv > 4294967295 then none
    else some (toInt32 idv, sv)

inductive ReplyKind where
  | ok | okAcct (a : Bytes) | no (t : Bytes) | again (t : Bytes) | more (t : Bytes) | unlinked | other
  deriving Repr

def startsWith (p s : Bytes) : Bool := s.take p.length == p

def replyKind (isX : Bool) (text : Bytes) : ReplyKind :=
  if !isX then .unlinked
  else if text == b "OK" then .ok
  else if startsWith (b "OK ") text then
    let a := ((text.drop 3).takeWhile (· != 32)).take 64
    if a.isEmpty then .ok else .okAcct a
  else if startsWith (b "NO ") text then .no (text.drop 3)
  else if startsWith (b "AGAIN ") text then .again (text.drop 6)
  else if startsWith (b "MORE ") text then .more (text.drop 5)
  else .other

/-- expectations the input event creates for this step's output -/
structure Expect where
  kill : Option (Int × Bytes) := none          -- `k id … :text`
  challenge : Option (Int × Bytes) := none     -- `C id … :text`
  modeX : Option (Int × Bool) := none          -- `M id … :+x` expected (true) / forbidden (false)
  deriving Repr

def apology : Bytes := b "The login server is currently disconnected.  Please excuse the inconvenience."

/-- apply one input line to the tracker -/
def onLine (t : Tracker) (raw : Bytes) : Tracker × Expect :=
  let l := tokenize raw
  match l.argv with
  | [] => (t, {})
  | a0 :: args =>
    let cmd := a0.getD 0 0
    if cmd == 67 then                                 -- C: announcement needs 4 more parameters
      if args.length < 4 then (t, {})
      else
        let n := ((t.ordinals.find? (·.1 == l.id)).map (·.2)).getD 0 + 1
        let i : Inst := { id := l.id, ordinal := n, addrText := args.getD 0 [], portText := args.getD 1 [],
                          armed := t.timeout > 0 }
        ({ (t.put i) with ordinals := (l.id, n) :: t.ordinals.filter (·.1 != l.id) }, {})
    else if cmd == 88 || cmd == 120 then              -- X / x : service reply
      if args.length < 3 || l.id != -1 && (t.find l.id).isNone then (t, {})
      else
        let svc := args.getD 0 []
        match tagOf (args.getD 1 []) with
        | none => (t, {})
        | some (cid, serial) =>
          match t.find cid with
          | none => (t, {})
          | some i =>
            if i.serial != some serial || !i.outstanding.contains svc then (t, {})
            else
              let proto := ((t.services.find? (·.1 == svc)).map (·.2)).getD none
              let i' := { i with outstanding := i.outstanding.filter (· != svc) }
              match replyKind (cmd == 88) (args.getD 2 []) with
              | .other => (t, {})
              | .ok => (t.put i', {})
              | .okAcct a =>
                if loginCapable proto then
                  (t.put { i' with vouched := a :: i'.vouched }, { modeX := some (cid, i.modeX || i.bang) })
                else (t.put i', {})
              | .no txt => (t.put { i' with refused := true }, { kill := some (cid, txt) })
              | .again txt => (t.put i', { challenge := some (cid, txt) })
              | .more txt => (t.put { i' with moreFrom := svc :: i'.moreFrom }, { challenge := some (cid, txt) })
              | .unlinked =>
                (t.put i', if proto != some .dronecheck then { challenge := some (cid, apology) } else {})
    else
      match t.find l.id with
      | none => (t, {})
      | some i =>
        if cmd == 68 || cmd == 84 then (t.close l.id, {})            -- D / T
        else if cmd == 78 then (if args.length ≥ 1 then t.put { i with host := true } else t, {})
        else if cmd == 100 then (t.put { i with host := true }, {})
        else if cmd == 117 then
          (t.put (if args.length ≥ 1 then { i with identGiven := true } else { i with identEmpty := true }), {})
        else if cmd == 110 then (if args.length ≥ 1 then t.put { i with nick := true } else t, {})
        else if cmd == 85 then (if args.length ≥ 2 then t.put { i with user := true } else t, {})
        else if cmd == 72 then (t.put { i with hurry := true }, {})
        else if cmd == 80 then
          if args.length < 1 || !t.hasXq then (t, {})
          else if !i.moreFrom.isEmpty && i.credStored then
            -- challenge response: the challenged services are asked again
            (t.put { i with moreFrom := [] }, {})
          else
            match wellShaped (args.getD 0 []) with
            | none => (t, {})
            | some m =>
              (t.put { i with bang := m.bang.getD i.bang, modeX := m.x.getD i.modeX, credStored := true }, {})
        else (t, {})

/-! ### reading output lines -/

inductive OutMsg where
  | client (letter : UInt8) (id : Int) (addr port : Bytes) (rest : List Bytes)
  | query (svc : Bytes) (id : Int) (serial : Nat) (payload : Bytes)
  | stats (text : Bytes)
  | other (letter : UInt8)
  | invalid (why : String)
  deriving Repr

def clientLetters : List UInt8 := (b "oUuNIMCkdDR")

def isDecimal (s : Bytes) : Bool := !s.isEmpty && s.all Bytes.isDigit
def isSignedDecimal (s : Bytes) : Bool :=
  match s with
  | 45 :: r => isDecimal r
  | _ => isDecimal s

def parseOut (line : Bytes) : OutMsg :=
  -- a lone CR inside a relayed trailing text is the service's own byte (C05: verbatim) and does not
  -- end a line for the server's reader; LF and NUL cannot be part of one message
  if line.contains 10 || line.contains 0 then .invalid "line feed or NUL inside a line"
  else
    -- the reader on the other side (ircd) splits on blanks only
    let toks := otokens 16 line
    match toks with
    | [] => .invalid "empty line"
    | t0 :: rest =>
      if t0.length != 1 then .invalid "first word is not a message letter"
      else
        let c := t0.getD 0 0
        if clientLetters.contains c then
          match rest with
          | id :: addr :: port :: more =>
            if !isSignedDecimal id then .invalid "client id is not a number"
            else if !isDecimal port then .invalid "port is not a number"
            else .client c ((strtol 10 id).1) addr port more
          | _ => .invalid "client message without id/address/port"
        else if c == 88 then
          match rest with
          | [svc, tag, payload] =>
            match tagOf tag with
            | some (cid, serial) => .query svc cid serial payload
            | none => .invalid "X with a malformed routing tag"
          | _ => .invalid "X needs service, tag and payload"
        else if c == 83 then
          match rest with
          | [_, text] => .stats text
          | _ => .invalid "S needs module and text"
        else if (b "VaAOs>G").contains c then .other c
        else .invalid "unknown message letter"

/-- shape of a client-directed message after `<id> <addr> <port>` -/
def clientShapeOk (letter : UInt8) (rest : List Bytes) : Bool :=
  if letter == 100 then rest.isEmpty                       -- d
  else if letter == 68 then rest.length ≤ 1                -- D [class]
  else if letter == 82 then rest.length == 1 || rest.length == 2   -- R account [class]
  else rest.length == 1                                   -- k C M N I o U u : one parameter

/-- C09's grammar clause as one predicate: the line parses as an IAuth message and, when it is
    client-directed, has the parameter count of its letter (what `onOutputs` flags otherwise) -/
def wellFormed (line : Bytes) : Bool :=
  match parseOut line with
  | .invalid _ => false
  | .client c _ _ _ rest => clientShapeOk c rest
  | _ => true

structure Violation where
  prop : String
  why : String
  deriving Repr

/-- scan the outputs of one step -/
def onOutputs (t0 : Tracker) (ex : Expect) (outs : List Bytes) : Tracker × List Violation := Id.run do
  let mut t := t0
  let mut v : List Violation := []
  let mut closed : List Int := []
  let mut sawKill : List (Int × Bytes) := []
  let mut sawChallenge : List (Int × Bytes) := []
  let mut sawModeX : List Int := []
  for line in outs do
    match parseOut line with
    | .invalid why => v := v ++ [⟨"C09", s!"not a valid IAuth message ({why}): {Bytes.toStringLossy (line.take 80)}"⟩]
    | .other _ => pure ()
    | .stats _ => pure ()
    | .query svc cid serial _ =>
      if closed.contains cid then v := v ++ [⟨"C01", s!"query naming client {cid} after its verdict"⟩]
      match t.find cid with
      | none => v := v ++ [⟨"C01", s!"query naming client {cid} which is not live"⟩]
      | some i =>
        if i.serial.isSome && i.serial != some serial then
          v := v ++ [⟨"C01", s!"query for client {cid} carries a different serial than before"⟩]
        t := t.put { i with serial := some serial, outstanding := if i.outstanding.contains svc then i.outstanding else svc :: i.outstanding }
    | .client letter cid addr port rest =>
      if !clientShapeOk letter rest then
        v := v ++ [⟨"C09", s!"malformed '{Char.ofNat letter.toNat}' message for client {cid}"⟩]
      if closed.contains cid then
        v := v ++ [⟨"C01", s!"message '{Char.ofNat letter.toNat}' naming client {cid} after its verdict"⟩]
      else
        match t.find cid with
        | none => v := v ++ [⟨"C01", s!"message '{Char.ofNat letter.toNat}' names client {cid} which is not live"⟩]
        | some i =>
          -- addressing (C09)
          if (strtol 10 port).1 != (strtol 10 i.portText).1 % 65536 then
            v := v ++ [⟨"C09", s!"client {cid}: port {Bytes.toStringLossy port} is not the announced port"⟩]
          match Addr.refParse i.addrText with
          | some a =>
            if Addr.refParse addr != some (Addr.canon a) then
              v := v ++ [⟨"C09", s!"client {cid}: address text {Bytes.toStringLossy addr} does not denote the announced address"⟩]
          | none => pure ()   -- the server announced something that is not an address: nothing to compare
          if letter == 100 then                          -- d
            if i.softDones ≥ 1 then v := v ++ [⟨"C01", s!"second soft-done for client {cid}"⟩]
            t := t.put { i with softDones := i.softDones + 1 }
          else if letter == 107 then                     -- k
            sawKill := sawKill ++ [(cid, rest.getD 0 [])]
            closed := cid :: closed
            t := t.close cid
          else if letter == 68 || letter == 82 then      -- D / R
            if !dataComplete t i then v := v ++ [⟨"C02", s!"client {cid} accepted before its registration data was delivered"⟩]
            if !(i.outstanding.isEmpty || i.timedOut) then
              v := v ++ [⟨"C02", s!"client {cid} accepted while a query is unanswered and no timeout expired"⟩]
            if i.bang && i.vouched.isEmpty then v := v ++ [⟨"C02", s!"client {cid} accepted although it demanded +! and holds no account stamp"⟩]
            -- `D` is the acceptance that carries no account: whatever a service said, the daemon itself
            -- holds no stamp for this client at this point
            if i.bang && !i.vouched.isEmpty && letter == 68 then
              v := v ++ [⟨"C02", s!"client {cid} demanded +! and was accepted by a verdict that carries no account stamp"⟩]
            if i.refused then v := v ++ [⟨"C02", s!"client {cid} accepted although a service refused it"⟩]
            if letter == 82 then
              if i.vouched.isEmpty then v := v ++ [⟨"C05", s!"client {cid} reported with an account nobody vouched"⟩]
              else if rest.getD 0 [] != i.vouched.headD [] then
                v := v ++ [⟨"C05", s!"client {cid} reported with account {Bytes.toStringLossy (rest.getD 0 [])} instead of the vouched one"⟩]
            else if !i.vouched.isEmpty then
              v := v ++ [⟨"C05", s!"client {cid} holds a vouched account but was reported without it"⟩]
            closed := cid :: closed
            t := t.close cid
          else if letter == 67 then sawChallenge := sawChallenge ++ [(cid, rest.getD 0 [])]
          else if letter == 77 then
            if rest.getD 0 [] == b "+x" then sawModeX := cid :: sawModeX
  -- expectations created by the input event (C05)
  match ex.kill with
  | some (cid, txt) =>
    let want := txt
    match sawKill.find? (·.1 == cid) with
    | some (_, got) =>
      -- the line limit may cut the text
      if !(got == want || (got.length ≥ 900 && startsWith got want)) then
        v := v ++ [⟨"C05", s!"client {cid} rejected with a text other than the service's"⟩]
    | none => v := v ++ [⟨"C05", s!"client {cid} was refused by a service but not rejected in that step"⟩]
  | none =>
    if !sawKill.isEmpty then v := v ++ [⟨"C05", "a rejection that no awaited service asked for"⟩]
  match ex.challenge with
  | some (cid, txt) =>
    match sawChallenge.find? (·.1 == cid) with
    | some (_, got) =>
      if !(got == txt || (got.length ≥ 900 && startsWith got txt)) then
        v := v ++ [⟨"C05", s!"challenge text for client {cid} was not relayed verbatim"⟩]
    | none => v := v ++ [⟨"C05", s!"challenge/retry text for client {cid} was not relayed"⟩]
    if sawChallenge.any (·.1 != cid) then v := v ++ [⟨"C05", "a challenge was sent to another client"⟩]
  | none =>
    if !sawChallenge.isEmpty then v := v ++ [⟨"C05", "a challenge nobody asked for"⟩]
  match ex.modeX with
  | some (cid, want) =>
    if want && !sawModeX.contains cid then v := v ++ [⟨"C05", s!"client {cid} asked for host hiding but +x was not sent with its account"⟩]
    if !want && sawModeX.contains cid then v := v ++ [⟨"C05", s!"+x sent to client {cid} which did not ask for it"⟩]
  | none =>
    if !sawModeX.isEmpty then v := v ++ [⟨"C05", "+x sent without an account being vouched in this step"⟩]
  return (t, v)

/-- after the step: nobody who could have been decided is still waiting (C03) -/
def stuck (t : Tracker) : List Violation :=
  t.live.filterMap fun i =>
    if ready t i then some ⟨"C03", s!"client {i.id} has everything it needs and no verdict was issued in this step"⟩ else none

/-- the harness was asked to let the request timer of `id` expire and found none pending: an
    instance announced under a configured timeout that has not expired yet and still waits can
    then wait for ever (C03) -/
def unarmed (t : Tracker) (id : Int) (fired : Bool) : List Violation :=
  if fired then [] else
  match t.find id with
  | some i =>
    if i.armed && !i.timedOut then
      [⟨"C03", s!"client {id} is still undecided under a configured request timeout, but no timer is pending for it"⟩]
    else []
  | none => []

def onTimeout (t : Tracker) (id : Int) (fired : Bool) : Tracker :=
  if !fired then t else
  match t.find id with
  | some i => t.put { i with timedOut := true }
  | none => t

/-- the `in use` figure of an `S iauth` statistics line -/
def inUseOf (text : Bytes) : Option Nat :=
  -- "<a>-<f> reqs alloc, <n> in use; <d> data frees"
  let s := Bytes.toStringLossy text
  match s.splitOn " reqs alloc, " with
  | [_, rest] =>
    match rest.splitOn " in use" with
    | n :: _ => n.toNat?
    | _ => none
  | _ => none

end Iauthd.Proto.Hist
