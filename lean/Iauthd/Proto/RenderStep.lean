import Iauthd.Proto.RenderInv
import Iauthd.Proto.Table
/-
  C09 (model part): the table-level invariant and the dispatcher: every line any input line or
  timer expiry makes the daemon write is well formed.
-/
set_option linter.unusedSimpArgs false
set_option linter.unusedVariables false
namespace Iauthd.Proto
open Iauthd Iauthd.Proto.Hist

/-! ### the input tokenizer hands on only what the line contained -/

theorem skipSpaces_sub : ∀ (s : Bytes) (n : Nat), ∀ c ∈ (skipSpaces s n).1, c ∈ s
  | [], n, c, h => by simp [skipSpaces] at h
  | x :: xs, n, c, h => by
    unfold skipSpaces at h
    split at h
    · exact List.mem_cons_of_mem _ (skipSpaces_sub xs (n + 1) c h)
    · exact h

theorem takeWord_spec : ∀ (s : Bytes), (∀ c ∈ (takeWord s).1, c ∈ s ∧ Bytes.isSpace c = false) ∧ (∀ c ∈ (takeWord s).2, c ∈ s)
  | [] => ⟨by intro c hc; simp [takeWord] at hc, by intro c hc; simp [takeWord] at hc⟩
  | x :: xs => by
    unfold takeWord
    split
    · exact ⟨(by intro c hc; cases hc), fun c hc => hc⟩
    · rename_i hx
      obtain ⟨h1, h2⟩ := takeWord_spec xs
      constructor
      · intro c hc
        rcases List.mem_cons.mp hc with rfl | h
        · exact ⟨List.mem_cons_self .., by simpa using hx⟩
        · exact ⟨List.mem_cons_of_mem _ (h1 c h).1, (h1 c h).2⟩
      · intro c hc; exact List.mem_cons_of_mem _ (h2 c hc)

theorem tokens_sub : ∀ (f : Nat) (s : Bytes), ∀ t ∈ tokens f s, ∀ c ∈ t, c ∈ s
  | 0, s, t, ht, c, hc => by simp [tokens] at ht
  | f + 1, s, t, ht, c, hc => by
    unfold tokens at ht
    split at ht
    · cases ht
    · rename_i rest heq
      simp only [List.mem_singleton] at ht
      subst ht
      exact skipSpaces_sub s 0 c (by rw [heq]; exact List.mem_cons_of_mem _ hc)
    · rename_i c0 cs hne heq
      obtain ⟨h1, h2⟩ := takeWord_spec (c0 :: cs)
      have hsk : ∀ x ∈ c0 :: cs, x ∈ s := fun x hx => skipSpaces_sub s 0 x (by rw [heq]; exact hx)
      dsimp only at ht
      split at ht
      · simp only [List.mem_singleton] at ht
        subst ht
        exact hsk c (h1 c hc).1
      · rename_i r' hr
        rcases List.mem_cons.mp ht with rfl | h'
        · exact hsk c (h1 c hc).1
        · have := tokens_sub f r' t h' c hc
          exact hsk c (h2 c (by rw [hr]; exact List.mem_cons_of_mem _ this))

/-- every argument but the last is free of blanks -/
theorem tokens_init_nosp : ∀ (f : Nat) (s : Bytes), ∀ t ∈ (tokens f s).dropLast, ∀ c ∈ t, c ≠ 32
  | 0, s, t, ht, c, hc => by simp [tokens] at ht
  | f + 1, s, t, ht, c, hc => by
    unfold tokens at ht
    split at ht
    · simp at ht
    · simp at ht
    · rename_i c0 cs hne heq
      obtain ⟨h1, h2⟩ := takeWord_spec (c0 :: cs)
      dsimp only at ht
      split at ht
      · simp at ht
      · rename_i r' hr
        cases htk : tokens f r' with
        | nil => rw [htk] at ht; simp at ht
        | cons y ys =>
          rw [htk, List.dropLast_cons_cons] at ht
          rcases List.mem_cons.mp ht with rfl | h'
          · intro e; subst e
            have := (h1 32 hc).2
            revert this; decide
          · rw [← htk] at h'
            exact tokens_init_nosp f r' t h' c hc

theorem tokenize_args (raw : Bytes) (hr : Clean raw) :
    (∀ a ∈ (tokenize raw).argv, Clean a) ∧ (∀ a ∈ (tokenize raw).argv.dropLast, NoSp a) := by
  unfold tokenize
  dsimp only
  constructor
  · intro a ha c hc
    exact hr c (List.mem_of_mem_drop (tokens_sub 16 _ a ha c hc))
  · intro a ha c hc
    exact tokens_init_nosp 16 _ a ha c hc

theorem toInt32_range (x : Int) : -2147483648 ≤ toInt32 x ∧ toInt32 x ≤ 2147483647 := by
  unfold toInt32 wrap32
  have h1 := Int.emod_nonneg x (show (4294967296 : Int) ≠ 0 by decide)
  have h2 := Int.emod_lt_of_pos x (show (0 : Int) < 4294967296 by decide)
  dsimp only
  split <;> omega

/-! ### the table -/

structure StateOK (s : State) : Prop where
  reqs : ∀ r ∈ s.reqs, ReqOK s.lim r
  svcs : SvcsOK s.svcs
  rules : RulesOK s.rules
  lim : LimOK s.lim

def OutOK (out : List Bytes) : Prop := ∀ l ∈ out, wellFormed l = true

/-- what a step must deliver -/
def StepOK (s : State) (m : M (State × List Bytes)) : Prop :=
  ∀ s' out, m = .ok (s', out) → StateOK s' ∧ OutOK out ∧ s'.lim = s.lim

theorem StepOK.pure {s : State} (h : StateOK s) (out : List Bytes) (ho : OutOK out) : StepOK s (pure (s, out)) := by
  intro s' o he
  simp only [Pure.pure, Except.pure, Except.ok.injEq, Prod.mk.injEq] at he
  obtain ⟨rfl, rfl⟩ := he
  exact ⟨h, ho, rfl⟩

theorem OutOK.nil : OutOK [] := by intro l hl; cases hl

theorem ctx0_ok {s : State} (h : StateOK s) {r : Req} (hr : r ∈ s.reqs) : CtxOK (ctx0 s r) :=
  ⟨h.reqs r hr, h.svcs, h.rules, h.lim⟩

theorem withReq_step (s : State) (h : StateOK s) (r : Req) (hr : r ∈ s.reqs) (f : Ctx → M Ctx)
    (hf : ∀ c', f (ctx0 s r) = .ok c' → Good (ctx0 s r) c') : StepOK s (withReq s r f) := by
  intro s' out he
  rw [withReq_eq] at he
  cases hfc : f (ctx0 s r) with
  | error e => rw [hfc] at he; simp [Except.map] at he
  | ok c' =>
    rw [hfc] at he
    simp only [Except.map, Except.ok.injEq, Prod.mk.injEq] at he
    obtain ⟨rfl, rfl⟩ := he
    have g := hf c' hfc
    obtain ⟨hl, new, hout, hnew⟩ := g.wrote
    have hl' : c'.lim = s.lim := hl
    refine ⟨⟨?_, g.ok.svcs, g.ok.rules, h.lim⟩, ?_, rfl⟩
    · intro q hq
      dsimp only at hq
      split at hq
      · unfold removeReq at hq
        exact h.reqs q (List.mem_filter.mp hq).1
      · unfold putReq at hq
        obtain ⟨q0, hq0, rfl⟩ := List.mem_map.mp hq
        have key : ReqOK s.lim (if (q0.client == c'.req.client) = true then c'.req else q0) := by
          split
          · have := g.ok.req
            rw [hl'] at this
            exact this
          · exact h.reqs q0 hq0
        exact key
    · intro l hl2
      have : c'.out = new := by rw [hout]; simp [ctx0]
      rw [this] at hl2
      exact hnew l hl2

/-! ### announcements -/

theorem mem_insertReq {r x : Req} : ∀ {reqs : List Req}, x ∈ insertReq r reqs → x = r ∨ x ∈ reqs
  | [], h => by simp [insertReq] at h; exact Or.inl h
  | q :: qs, h => by
    unfold insertReq at h
    split at h
    · rcases List.mem_cons.mp h with rfl | h'
      · exact Or.inl rfl
      · exact Or.inr h'
    · split at h
      · rcases List.mem_cons.mp h with rfl | h'
        · exact Or.inl rfl
        · exact Or.inr (List.mem_cons_of_mem _ h')
      · rcases List.mem_cons.mp h with rfl | h'
        · exact Or.inr (List.mem_cons_self ..)
        · rcases mem_insertReq h' with h1 | h1
          · exact Or.inl h1
          · exact Or.inr (List.mem_cons_of_mem _ h1)

theorem ntopC_head (a : Addr.Addr) : Word (ntopC a) ∧ Clean (ntopC a) ∧ (ntopC a).length ≤ 39 := by
  unfold ntopC
  have hp := Addr.ntop_plain a
  have hl := Addr.ntop_len a
  obtain ⟨h39, hnc, hne⟩ := Addr.ntopFull_props a
  refine ⟨⟨by rw [hl.2.2]; exact hne, fun c hc => (hp c hc).1, Addr.ntop_no_colon a 40⟩,
    fun c hc => ⟨(hp c hc).2.1, (hp c hc).2.2⟩, by rw [hl.2.1]; exact hl.1⟩

theorem portOf_lt (p : Bytes) : portOf p < 65536 := by
  unfold portOf
  have := Int.emod_lt_of_pos (strtol 10 p).1 (show (0 : Int) < 65536 by decide)
  have h0 := Int.emod_nonneg (strtol 10 p).1 (show (65536 : Int) ≠ 0 by decide)
  omega

theorem newClient_step (s : State) (h : StateOK s) (id : Int) (hid : -2147483648 ≤ id ∧ id ≤ 2147483647) (a p : Bytes) :
    StepOK s (newClient s id a p) := by
  intro s' out he
  unfold newClient at he
  cases hp : ptonC a false with
  | error e => simp [hp, bind, Except.bind] at he
  | ok res =>
    simp only [hp, bind, Except.bind, pure, Except.pure, Except.ok.injEq, Prod.mk.injEq] at he
    obtain ⟨rfl, rfl⟩ := he
    obtain ⟨aw, ac, al⟩ := ntopC_head res.addr
    have hser : (s.serial + 1) % 4294967296 < 4294967296 := Nat.mod_lt _ (by decide)
    have fresh : ∀ (xq : Option XqCli), (∀ cli, xq = some cli → Clean cli.cred) →
        ReqOK s.lim ({ client := id, serial := (s.serial + 1) % 4294967296, addr := res.addr, port := (portOf p), textAddr := ntopC res.addr, timer := (if s.timeout > 0 then TimerSt.armed else TimerSt.none), xq := xq } : Req) := by
      intro xq hx
      refine ⟨⟨hid, portOf_lt p, aw, ac, al⟩, hser, ?_⟩
      have nn : NoSp ([] : Bytes) := fun c hc => absurd hc List.not_mem_nil
      exact ⟨nn, Clean.nil, Nat.zero_le _, nn, Clean.nil, Nat.zero_le _, nn, Clean.nil, Nat.zero_le _,
        Clean.nil, Clean.nil, Clean.nil, Clean.nil, hx⟩
    refine ⟨⟨?_, h.svcs, h.rules, h.lim⟩, OutOK.nil, rfl⟩
    intro q hq
    dsimp only at hq
    rcases mem_insertReq hq with rfl | h1
    · split
      · exact fresh _ (by intro cli hc; simp only [Option.some.injEq] at hc; subst hc; exact Clean.nil)
      · exact fresh _ (by intro cli hc; cases hc)
    · exact h.reqs q h1

/-! ### global reports -/

theorem sendRaw_eq (t : Bytes) : sendRaw t = t.take 1023 := rfl

theorem reportConfig_wf (m text : Bytes) (hm : Clean m) (ht : Clean text) : wellFormed (reportConfig m text) = true := by
  unfold reportConfig
  rw [sendRaw_eq]
  have e : b "A " ++ m ++ b " :" ++ truncBuf 1024 text = 65 :: (32 :: (m ++ 32 :: 58 :: text.take 1023)) := by
    have h1 : b "A " = [65, 32] := by decide
    rw [h1, b_colon]; simp [truncBuf]
  rw [e]
  exact global_wellFormed 65 (Or.inr (Or.inr (Or.inl rfl))) _ (Or.inr ⟨_, rfl⟩)
    (Clean.cons (by decide) (by decide) (Clean.append hm (Clean.cons (by decide) (by decide) (Clean.cons (by decide) (by decide) (ht.take _)))))

theorem reportStats_wf (m text : Bytes) (hm : Word m) (hmc : Clean m) (hml : m.length ≤ 100) (ht : Clean text) :
    wellFormed (reportStats m text) = true := by
  unfold reportStats
  rw [sendRaw_eq]
  have e : b "S " ++ m ++ b " :" ++ truncBuf 1024 text = joinSp [[83], m] ++ 32 :: 58 :: text.take 1023 := by
    have h1 : b "S " = [83, 32] := by decide
    rw [h1, b_colon]; simp [truncBuf, joinSp]
  rw [e]
  exact stats_wellFormed hm hmc hml (ht.take _)

theorem sendOpers_wf (text : Bytes) (ht : Clean text) : wellFormed (sendOpers text) = true := by
  unfold sendOpers
  rw [sendRaw_eq]
  have e : b "> :" ++ text = 62 :: (32 :: 58 :: text) := by
    have h1 : b "> :" = [62, 32, 58] := by decide
    rw [h1]; rfl
  rw [e]
  exact global_wellFormed 62 (Or.inr (Or.inr (Or.inr (Or.inr (Or.inr (Or.inl rfl)))))) _ (Or.inr ⟨_, rfl⟩)
    (Clean.cons (by decide) (by decide) (Clean.cons (by decide) (by decide) ht))

theorem word_class : Word (b "class") ∧ Clean (b "class") ∧ (b "class").length ≤ 100 := by
  refine ⟨⟨by decide, ?_, by decide⟩, clean_of_cleanB (by decide), by decide⟩
  intro c hc; revert c; decide
theorem word_xquery : Word (b "xquery") ∧ Clean (b "xquery") ∧ (b "xquery").length ≤ 100 := by
  refine ⟨⟨by decide, ?_, by decide⟩, clean_of_cleanB (by decide), by decide⟩
  intro c hc; revert c; decide
theorem word_iauth : Word (b "iauth") ∧ Clean (b "iauth") ∧ (b "iauth").length ≤ 100 := by
  refine ⟨⟨by decide, ?_, by decide⟩, clean_of_cleanB (by decide), by decide⟩
  intro c hc; revert c; decide

theorem tyName_clean (t : SvcTy) : Clean t.name := by
  cases t <;> exact clean_of_cleanB (by decide)

theorem OutOK.append {a c : List Bytes} (ha : OutOK a) (hc : OutOK c) : OutOK (a ++ c) := by
  intro l hl
  rcases List.mem_append.mp hl with h | h
  · exact ha l h
  · exact hc l h
theorem OutOK.single {l : Bytes} (h : wellFormed l = true) : OutOK [l] := by
  intro x hx; simp only [List.mem_singleton] at hx; subst hx; exact h
theorem OutOK.ite {p : Prop} [Decidable p] {a c : List Bytes} (ha : OutOK a) (hc : OutOK c) : OutOK (if p then a else c) := by
  split <;> assumption

theorem letter_a_wf : wellFormed (sendRaw (b "a")) = true := by
  rw [sendRaw_eq, show b "a" = 97 :: [] from by decide]
  exact global_wellFormed 97 (Or.inr (Or.inl rfl)) [] (Or.inl rfl) Clean.nil
theorem letter_s_wf : wellFormed (sendRaw (b "s")) = true := by
  rw [sendRaw_eq, show b "s" = 115 :: [] from by decide]
  exact global_wellFormed 115 (Or.inr (Or.inr (Or.inr (Or.inr (Or.inl rfl))))) [] (Or.inl rfl) Clean.nil

attribute [local irreducible] decNat

theorem collectConfig_ok (s : State) (h : StateOK s) : OutOK (collectConfig s) := by
  unfold collectConfig
  refine OutOK.append (OutOK.append (OutOK.single letter_a_wf) (OutOK.ite (OutOK.single ?_) OutOK.nil)) (OutOK.ite ?_ OutOK.nil)
  · exact reportConfig_wf _ _ word_class.2.1 (Clean.append (decNat_clean _) (clean_of_cleanB (by decide)))
  · intro l hl
    obtain ⟨o, ho, hm⟩ := List.mem_filterMap.mp hl
    cases o with
    | none => simp at hm
    | some srv =>
      simp only [Option.map_some, Option.some.injEq] at hm
      rw [← hm]
      have hs := h.svcs srv ho
      apply reportConfig_wf _ _ word_xquery.2.1
      simp only [clean_append_iff]
      refine ⟨⟨⟨?_, hs.2.1⟩, sp_clean⟩, tyName_clean _⟩
      split <;> exact clean_of_cleanB (by decide)

theorem collectStats_ok (s : State) (h : StateOK s) (last : Bool) : OutOK (collectStats s last) := by
  unfold collectStats
  refine OutOK.append (OutOK.append (OutOK.append (OutOK.append ?_ ?_) ?_) ?_) ?_
  · exact OutOK.ite OutOK.nil (OutOK.single letter_s_wf)
  · apply OutOK.single
    unfold collectStats.reportStatsCore
    rw [sendRaw_eq]
    have e : ∀ x : Bytes, b "S iauth :" ++ x = joinSp [[83], b "iauth"] ++ 32 :: 58 :: x := by
      intro x
      have h1 : b "S iauth :" = [83, 32] ++ b "iauth" ++ [32, 58] := by decide
      rw [h1]; simp [joinSp]
    simp only [List.append_assoc]
    rw [e]
    apply stats_wellFormed word_iauth.1 word_iauth.2.1 word_iauth.2.2
    simp only [clean_append_iff]
    repeat' apply And.intro
    all_goals first | exact clean_of_cleanB (by decide) | exact decNat_clean _
  · refine OutOK.ite (OutOK.append ?_ (OutOK.single ?_)) OutOK.nil
    · intro l hl
      obtain ⟨r, hr, rfl⟩ := List.mem_map.mp hl
      have hrule := h.rules r hr
      split
      · rename_i c hc
        apply reportStats_wf _ _ word_class.1 word_class.2.1 word_class.2.2
        simp only [clean_append_iff]
        repeat' apply And.intro
        all_goals first | exact hrule.2.2.1 | exact hrule.2.2.2 c hc | exact decNat_clean _ | exact clean_of_cleanB (by decide)
      · apply reportStats_wf _ _ word_class.1 word_class.2.1 word_class.2.2
        simp only [clean_append_iff]
        repeat' apply And.intro
        all_goals first | exact hrule.2.2.1 | exact decNat_clean _ | exact clean_of_cleanB (by decide)
    · apply reportStats_wf _ _ word_class.1 word_class.2.1 word_class.2.2
      simp only [clean_append_iff]
      repeat' apply And.intro
      all_goals first | exact clean_of_cleanB (by decide) | exact decNat_clean _
  · refine OutOK.ite (OutOK.append (OutOK.append (OutOK.single ?_) ?_) (OutOK.single ?_)) OutOK.nil
    · exact reportStats_wf _ _ word_xquery.1 word_xquery.2.1 word_xquery.2.2 (clean_of_cleanB (by decide))
    · intro l hl
      obtain ⟨o, ho, hm⟩ := List.mem_filterMap.mp hl
      cases o with
      | none => simp at hm
      | some srv =>
        simp only [Option.map_some, Option.some.injEq] at hm
        rw [← hm]
        have hs := h.svcs srv ho
        apply reportStats_wf _ _ word_xquery.1 word_xquery.2.1 word_xquery.2.2
        simp only [clean_append_iff]
        repeat' apply And.intro
        all_goals first | exact hs.2.1 | exact decNat_clean _ | exact sp_clean | (split <;> exact clean_of_cleanB (by decide))
    · apply reportStats_wf _ _ word_xquery.1 word_xquery.2.1 word_xquery.2.2
      simp only [clean_append_iff]
      repeat' apply And.intro
      all_goals first | exact clean_of_cleanB (by decide) | exact decNat_clean _
  · exact OutOK.ite (OutOK.single letter_s_wf) OutOK.nil

/-! ### the dispatcher -/

theorem arg_clean {l : Line} (hargs : ∀ a ∈ l.argv, Clean a) (i : Nat) : Clean ((arg l i).getD []) ∧
    ∀ x, arg l i = some x → Clean x := by
  unfold arg
  cases h : l.argv[i]? with
  | none => exact ⟨Clean.nil, by intro x hx; cases hx⟩
  | some a =>
    have := hargs a (List.mem_of_getElem? h)
    exact ⟨this, by intro x hx; simp only [Option.some.injEq] at hx; subst hx; exact this⟩

theorem garbage_step (s : State) (h : StateOK s) (c : String)
    (hc : cleanB (b ("ircd sent garbage: -1 " ++ c ++ " ...")) = true) : StepOK s (garbage s c) := by
  unfold garbage
  exact StepOK.pure h _ (OutOK.single (sendOpers_wf _ (clean_of_cleanB hc)))

theorem onReq_step (s : State) (h : StateOK s) (req? : Option Req) (hreq : ∀ r, req? = some r → r ∈ s.reqs)
    (c : String) (hc : cleanB (b ("ircd sent garbage: -1 " ++ c ++ " ...")) = true) (ev : Ev) (hev : EvOK ev) :
    StepOK s (onReq s req? c ev) := by
  unfold onReq
  cases req? with
  | none => exact garbage_step s h c hc
  | some r =>
    exact withReq_step s h r (hreq r rfl) _ (fun c' hc' => reqEvent_good _ _ _ ev (ctx0_ok h (hreq r rfl)) hev hc')

theorem dropReq_step (s : State) (h : StateOK s) (req? : Option Req) (hreq : ∀ r, req? = some r → r ∈ s.reqs)
    (c : String) (hc : cleanB (b ("ircd sent garbage: -1 " ++ c ++ " ...")) = true) : StepOK s (dropReq s req? c) := by
  unfold dropReq
  cases req? with
  | none => exact garbage_step s h c hc
  | some r =>
    refine withReq_step s h r (hreq r rfl) _ (fun c' hc' => ?_)
    simp only [pure, Except.pure, Except.ok.injEq] at hc'
    subst hc'
    exact ⟨(ctx0_ok h (hreq r rfl)).finish, Wrote.of_eq rfl rfl⟩

theorem onReply_step (s : State) (h : StateOK s) (l : Line) (hargs : ∀ a ∈ l.argv, Clean a) (isX : Bool) :
    StepOK s (onReply s l isX) := by
  unfold onReply
  split
  · exact StepOK.pure h _ OutOK.nil
  · split
    · exact StepOK.pure h _ OutOK.nil
    · rename_i r hv
      have hr := validateRequest_mem hv
      refine withReq_step s h r hr _ (fun c' hc' => xqReply_good _ _ _ _ _ (ctx0_ok h hr) ?_ hc')
      intro x hx
      split at hx
      · exact (arg_clean hargs 3).2 x hx
      · cases hx

theorem onInfo_step (s : State) (h : StateOK s) (l : Line) : StepOK s (onInfo s l) := by
  unfold onInfo
  split
  · exact StepOK.pure h _ OutOK.nil
  · dsimp only
    split
    · exact StepOK.pure h _ (collectConfig_ok s h)
    · split
      · exact StepOK.pure h _ (collectStats_ok s h false)
      · split
        · exact StepOK.pure h _ (collectStats_ok s h true)
        · exact StepOK.pure h _ OutOK.nil

theorem arg1_nosp {l : Line} (hinit : ∀ a ∈ l.argv.dropLast, NoSp a) (h3 : ¬ l.argv.length < 3) : NoSp ((arg l 1).getD []) := by
  unfold arg
  cases h : l.argv[1]? with
  | none => intro c hc; cases hc
  | some a =>
    simp only [Option.getD_some]
    apply hinit a
    rw [List.dropLast_eq_take]
    apply List.mem_of_getElem? (i := 1)
    rw [List.getElem?_take]
    have : 1 < l.argv.length - 1 := by omega
    rw [if_pos this]; exact h

/-- the dispatcher is one of these terms (an unfolding that keeps the arguments visible) -/
theorem dispatch_cases (s : State) (l : Line) (cmd : UInt8) (req? : Option Req) (P : M (State × List Bytes) → Prop)
    (hnil : P (pure (s, [])))
    (hnew : P (newClient s l.id ((arg l 1).getD []) ((arg l 2).getD [])))
    (hD : P (dropReq s req? "D"))
    (hN : P (onReq s req? "N" (.hostname (if req?.isSome then some ((arg l 1).getD []) else arg l 1))))
    (hd : P (onReq s req? "d" .noHostname))
    (hP : P (onReq s req? "P" (.password (if req?.isSome then some ((arg l 1).getD []) else arg l 1))))
    (hU0 : req? = none → P (garbage s "U"))
    (hU1 : P (pure (s, [sendOpers (b "ircd sent garbage: <id> U without realname")])))
    (hU2 : ∀ r, req? = some r → ¬ l.argv.length < 3 →
      P (withReq s r fun ctx => reqEvent s.static ctx (.userInfo ((arg l 1).getD []) ((arg l 2).getD []))))
    (hu : P (onReq s req? "u" (.ident (arg l 1))))
    (hn : P (onReq s req? "n" (.nick (if req?.isSome then some ((arg l 1).getD []) else arg l 1))))
    (hH : P (onReq s req? "H" .hurry))
    (hT : P (dropReq s req? "T"))
    (hX : ∀ isX, P (onReply s l isX))
    (hI : P (onInfo s l)) : P (dispatch s l cmd req?) := by
  unfold dispatch
  dsimp only
  by_cases c1 : (cmd == 67) = true
  · rw [if_pos c1]
    by_cases a : l.argv.length < 5
    · rw [if_pos a]; exact hnil
    · rw [if_neg a]; exact hnew
  rw [if_neg c1]
  by_cases c2 : (cmd == 68) = true
  · rw [if_pos c2]; exact hD
  rw [if_neg c2]
  by_cases c3 : (cmd == 78) = true
  · rw [if_pos c3]
    by_cases a : (req?.isSome && decide (l.argv.length < 2)) = true
    · rw [if_pos a]; exact hnil
    · rw [if_neg a]; exact hN
  rw [if_neg c3]
  by_cases c4 : (cmd == 100) = true
  · rw [if_pos c4]; exact hd
  rw [if_neg c4]
  by_cases c5 : (cmd == 80) = true
  · rw [if_pos c5]
    by_cases a : (req?.isSome && decide (l.argv.length < 2)) = true
    · rw [if_pos a]; exact hnil
    · rw [if_neg a]; exact hP
  rw [if_neg c5]
  by_cases c6 : (cmd == 85) = true
  · rw [if_pos c6]
    cases hq : req? with
    | none => exact hU0 hq
    | some r =>
      dsimp only
      by_cases a : l.argv.length < 3
      · rw [if_pos a]; exact hU1
      · rw [if_neg a]; exact hU2 r hq a
  rw [if_neg c6]
  by_cases c7 : (cmd == 117) = true
  · rw [if_pos c7]; exact hu
  rw [if_neg c7]
  by_cases c8 : (cmd == 110) = true
  · rw [if_pos c8]
    by_cases a : (req?.isSome && decide (l.argv.length < 2)) = true
    · rw [if_pos a]; exact hnil
    · rw [if_neg a]; exact hn
  rw [if_neg c8]
  by_cases c9 : (cmd == 72) = true
  · rw [if_pos c9]; exact hH
  rw [if_neg c9]
  by_cases c10 : (cmd == 84) = true
  · rw [if_pos c10]; exact hT
  rw [if_neg c10]
  by_cases c11 : (cmd == 88) = true
  · rw [if_pos c11]; exact hX true
  rw [if_neg c11]
  by_cases c12 : (cmd == 120) = true
  · rw [if_pos c12]; exact hX false
  rw [if_neg c12]
  by_cases c13 : (cmd == 63) = true
  · rw [if_pos c13]; exact hI
  rw [if_neg c13]; exact hnil

theorem dispatch_step (s : State) (h : StateOK s) (l : Line) (hargs : ∀ a ∈ l.argv, Clean a)
    (hinit : ∀ a ∈ l.argv.dropLast, NoSp a) (hid : -2147483648 ≤ l.id ∧ l.id ≤ 2147483647)
    (cmd : UInt8) (req? : Option Req) (hreq : ∀ r, req? = some r → r ∈ s.reqs) :
    StepOK s (dispatch s l cmd req?) := by
  have optArg : ∀ i, ∀ x, (if req?.isSome then some ((arg l i).getD []) else arg l i) = some x → Clean x := by
    intro i x hx
    split at hx
    · simp only [Option.some.injEq] at hx; subst hx; exact (arg_clean hargs i).1
    · exact (arg_clean hargs i).2 x hx
  apply dispatch_cases s l cmd req? (StepOK s)
  · exact StepOK.pure h _ OutOK.nil
  · exact newClient_step s h l.id hid _ _
  · exact dropReq_step s h req? hreq "D" (by decide)
  · exact onReq_step s h req? hreq "N" (by decide) _ (optArg 1)
  · exact onReq_step s h req? hreq "d" (by decide) Ev.noHostname trivial
  · exact onReq_step s h req? hreq "P" (by decide) _ (optArg 1)
  · intro _; exact garbage_step s h "U" (by decide)
  · exact StepOK.pure h _ (OutOK.single (sendOpers_wf _ (clean_of_cleanB (by decide))))
  · intro r hq h3
    refine withReq_step s h r (hreq r hq) _ (fun c' hc' =>
      reqEvent_good _ _ _ _ (ctx0_ok h (hreq r hq)) ?_ hc')
    exact ⟨arg1_nosp hinit h3, (arg_clean hargs 1).1, (arg_clean hargs 2).1⟩
  · exact onReq_step s h req? hreq "u" (by decide) _ (arg_clean hargs 1).2
  · exact onReq_step s h req? hreq "n" (by decide) _ (optArg 1)
  · exact onReq_step s h req? hreq "H" (by decide) Ev.hurry trivial
  · exact dropReq_step s h req? hreq "T" (by decide)
  · intro isX; exact onReply_step s h l hargs isX
  · exact onInfo_step s h l

/-- one complete input line -/
theorem stepLine_step (s : State) (h : StateOK s) (raw : Bytes) (hraw : Clean raw) : StepOK s (stepLine s raw) := by
  obtain ⟨ha, hi⟩ := tokenize_args raw hraw
  have hid : -2147483648 ≤ (tokenize raw).id ∧ (tokenize raw).id ≤ 2147483647 := by
    unfold tokenize; dsimp only; exact toInt32_range _
  unfold stepLine
  dsimp only
  split
  · exact StepOK.pure h _ OutOK.nil
  · split
    · split
      · exact StepOK.pure h _ OutOK.nil
      · apply dispatch_step s h _ ha hi hid
        intro r hr; cases hr
    · split
      · exact StepOK.pure h _ OutOK.nil
      · apply dispatch_step s h _ ha hi hid
        intro r hr; exact (findReq_mem hr).1

/-- the request's timer fires -/
theorem stepTimeout_step (s : State) (h : StateOK s) (id : Int) :
    ∀ s' out f, stepTimeout s id = .ok (s', out, f) → StateOK s' ∧ OutOK out ∧ s'.lim = s.lim := by
  intro s' out f he
  unfold stepTimeout at he
  split at he
  · rename_i r hf
    split at he
    · simp only [bind, Except.bind] at he
      split at he
      · cases he
      · rename_i v hv
        obtain ⟨s1, o1⟩ := v
        simp only [pure, Except.pure, Except.ok.injEq, Prod.mk.injEq] at he
        obtain ⟨rfl, rfl, _⟩ := he
        have hr := (findReq_mem hf).1
        exact withReq_step s h r hr _ (fun c' hc' => reqEvent_good _ _ _ Ev.timeout (ctx0_ok h hr) trivial hc') _ _ hv
    · simp only [pure, Except.pure, Except.ok.injEq, Prod.mk.injEq] at he
      obtain ⟨rfl, rfl, _⟩ := he
      exact ⟨h, OutOK.nil, rfl⟩
  · simp only [pure, Except.pure, Except.ok.injEq, Prod.mk.injEq] at he
    obtain ⟨rfl, rfl, _⟩ := he
    exact ⟨h, OutOK.nil, rfl⟩

/-! ### chunks of input -/

theorem cstr_sub : ∀ (s : Bytes), (∀ c ∈ Bytes.cstr s, c ∈ s ∧ c ≠ 0)
  | [], c, h => by simp [Bytes.cstr] at h
  | x :: xs, c, h => by
    unfold Bytes.cstr at h
    split at h
    · cases h
    · rename_i hx
      rcases List.mem_cons.mp h with rfl | h'
      · exact ⟨List.mem_cons_self .., by simpa using hx⟩
      · exact ⟨List.mem_cons_of_mem _ (cstr_sub xs c h').1, (cstr_sub xs c h').2⟩

/-- the line assembler never leaves a line feed inside a line -/
theorem lineStep_inv (st : Bytes × List Bytes) (c : UInt8)
    (h : (∀ x ∈ st.1, x ≠ 10) ∧ ∀ ln ∈ st.2, ∀ x ∈ ln, x ≠ 10) :
    (∀ x ∈ (lineStep st c).1, x ≠ 10) ∧ ∀ ln ∈ (lineStep st c).2, ∀ x ∈ ln, x ≠ 10 := by
  unfold lineStep
  split
  · refine ⟨(fun x hx => absurd hx List.not_mem_nil), ?_⟩
    intro ln hln
    rcases List.mem_cons.mp hln with rfl | h'
    · intro x hx
      split at hx
      · rename_i t heq
        exact h.1 x (by rw [heq]; exact List.mem_cons_of_mem _ (List.mem_reverse.mp hx))
      · exact h.1 x (List.mem_reverse.mp hx)
    · exact h.2 ln h'
  · rename_i hc
    refine ⟨?_, h.2⟩
    intro x hx
    rcases List.mem_cons.mp hx with rfl | h'
    · simpa using hc
    · exact h.1 x h'

theorem splitLines_nolf (buf : Bytes) : ∀ ln ∈ (splitLines buf).1, ∀ x ∈ ln, x ≠ 10 := by
  unfold splitLines
  dsimp only
  have key : ∀ (l : Bytes) (st : Bytes × List Bytes),
      ((∀ x ∈ st.1, x ≠ 10) ∧ ∀ ln ∈ st.2, ∀ x ∈ ln, x ≠ 10) →
      ((∀ x ∈ (l.foldl lineStep st).1, x ≠ 10) ∧ ∀ ln ∈ (l.foldl lineStep st).2, ∀ x ∈ ln, x ≠ 10) := by
    intro l
    induction l with
    | nil => intro st h; exact h
    | cons c cs ih => intro st h; exact ih _ (lineStep_inv st c h)
  have := key buf ([], []) ⟨(fun x hx => absurd hx List.not_mem_nil), (fun ln hln => absurd hln List.not_mem_nil)⟩
  intro ln hln
  exact this.2 ln (List.mem_reverse.mp hln)

theorem cstr_clean (ln : Bytes) (h : ∀ x ∈ ln, x ≠ 10) : Clean (cstr ln) :=
  fun c hc => ⟨h c (cstr_sub ln c hc).1, (cstr_sub ln c hc).2⟩

theorem stepLines_step : ∀ (lines : List Bytes) (s : State), StateOK s → (∀ ln ∈ lines, ∀ x ∈ ln, x ≠ 10) →
    StepOK s (stepLines s lines)
  | [], s, h, _ => by unfold stepLines; exact StepOK.pure h _ OutOK.nil
  | ln :: rest, s, h, hl => by
    unfold stepLines
    split
    · exact stepLines_step rest s h (fun l hl' => hl l (List.mem_cons_of_mem _ hl'))
    · intro s' out he
      simp only [bind, Except.bind] at he
      split at he
      · cases he
      · rename_i v1 h1
        obtain ⟨s1, o1⟩ := v1
        dsimp only at he
        split at he
        · cases he
        · rename_i v2 h2
          obtain ⟨s2, o2⟩ := v2
          simp only [pure, Except.pure, Except.ok.injEq, Prod.mk.injEq] at he
          obtain ⟨rfl, rfl⟩ := he
          obtain ⟨k1, w1, l1⟩ := stepLine_step s h (cstr ln) (cstr_clean ln (hl ln (List.mem_cons_self ..))) s1 o1 h1
          obtain ⟨k2, w2, l2⟩ := stepLines_step rest s1 k1 (fun l hl' => hl l (List.mem_cons_of_mem _ hl')) s2 o2 h2
          exact ⟨k2, OutOK.append w1 w2, l2.trans l1⟩

theorem StateOK.inbuf {s : State} (h : StateOK s) (buf : Bytes) : StateOK { s with inbuf := buf } :=
  ⟨h.reqs, h.svcs, h.rules, h.lim⟩

theorem stepChunk_step (s : State) (h : StateOK s) (chunk : Bytes) : StepOK s (stepChunk s chunk) := by
  intro s' out he
  unfold stepChunk at he
  dsimp only at he
  cases hs : stepLines { s with inbuf := [] } (splitLines (s.inbuf ++ chunk)).1 with
  | error e => rw [hs] at he; simp [Except.map] at he
  | ok v =>
    obtain ⟨s1, o1⟩ := v
    rw [hs] at he
    simp only [Except.map, Except.ok.injEq, Prod.mk.injEq] at he
    obtain ⟨rfl, rfl⟩ := he
    obtain ⟨k, w, l⟩ := stepLines_step _ _ (h.inbuf []) (splitLines_nolf _) s1 o1 hs
    exact ⟨k.inbuf _, w, l⟩

/-- **C09 (model part), one operation**: whatever chunk of bytes arrives and whichever timer
    fires, every line written is a well-formed IAuth message, and the invariant is kept. -/
theorem stepOp_wellFormed (s : State) (h : StateOK s) (op : Op) :
    ∀ s' out, stepOp s op = .ok (s', out) → StateOK s' ∧ OutOK out := by
  intro s' out he
  cases op with
  | chunk bs =>
    obtain ⟨k, w, _⟩ := stepChunk_step s h bs s' out he
    exact ⟨k, w⟩
  | timeout id =>
    simp only [stepOp] at he
    cases ht : stepTimeout s id with
    | error e => rw [ht] at he; simp [Except.map] at he
    | ok v =>
      obtain ⟨s1, o1, f⟩ := v
      rw [ht] at he
      simp only [Except.map, Except.ok.injEq, Prod.mk.injEq] at he
      obtain ⟨rfl, rfl⟩ := he
      obtain ⟨k, w, _⟩ := stepTimeout_step s h id s1 o1 f ht
      exact ⟨k, w⟩

/-- **C09 (model part), every history** of input chunks and timer expiries -/
theorem runOps_wellFormed : ∀ (ops : List Op) (s : State), StateOK s →
    ∀ s' outs, runOps s ops = .ok (s', outs) → StateOK s' ∧ ∀ out ∈ outs, OutOK out
  | [], s, h, s', outs, he => by
    simp only [runOps, pure, Except.pure, Except.ok.injEq, Prod.mk.injEq] at he
    obtain ⟨rfl, rfl⟩ := he
    exact ⟨h, by intro o ho; cases ho⟩
  | op :: ops, s, h, s', outs, he => by
    simp only [runOps, bind, Except.bind] at he
    split at he
    · cases he
    · rename_i v1 h1
      obtain ⟨s1, o1⟩ := v1
      dsimp only at he
      split at he
      · cases he
      · rename_i v2 h2
        obtain ⟨s2, os⟩ := v2
        simp only [pure, Except.pure, Except.ok.injEq, Prod.mk.injEq] at he
        obtain ⟨rfl, rfl⟩ := he
        obtain ⟨k1, w1⟩ := stepOp_wellFormed s h op s1 o1 h1
        obtain ⟨k2, w2⟩ := runOps_wellFormed ops s1 k1 s2 os h2
        refine ⟨k2, ?_⟩
        intro o ho
        rcases List.mem_cons.mp ho with rfl | h'
        · exact w1
        · exact w2 o h'

/-- the start-up lines -/
theorem startup_wellFormed (s : State) (h : StateOK s) (version : Bytes) (hv : Clean version) :
    OutOK (startup s version) := by
  unfold startup
  refine OutOK.append (OutOK.append (OutOK.single ?_) (collectConfig_ok s h)) (OutOK.ite (OutOK.single ?_) OutOK.nil)
  · rw [sendRaw_eq]
    have e : b "V :" ++ version = 86 :: (32 :: 58 :: version) := by
      have h1 : b "V :" = [86, 32, 58] := by decide
      rw [h1]; rfl
    rw [e]
    exact global_wellFormed 86 (Or.inl rfl) _ (Or.inr ⟨_, rfl⟩) (Clean.cons (by decide) (by decide) (Clean.cons (by decide) (by decide) hv))
  · rw [sendRaw_eq]
    have e : b "O SARUW" = 79 :: (32 :: b "SARUW") := by decide
    rw [e]
    exact global_wellFormed 79 (Or.inr (Or.inr (Or.inr (Or.inl rfl)))) _ (Or.inr ⟨_, rfl⟩) (clean_of_cleanB (by decide))

end Iauthd.Proto
