import Iauthd.Proto.RenderInv
import Iauthd.Proto.Table
/-
  C09 (model part): the table-level invariant and the dispatcher: every line any input line or
  timer expiry makes the daemon write is well formed.
-/
set_option linter.unusedSimpArgs false
set_option linter.unusedVariables false
namespace Iauthd.Proto
open Iauthd Iauthd.Proto.Hist

/-! ### the input tokenizer hands on only what the line contained -/

theorem skipSpaces_sub : ∀ (s : Bytes) (n : Nat), ∀ c ∈ (skipSpaces s n).1, c ∈ s
  | [], n, c, h => by simp [skipSpaces] at h
  | x :: xs, n, c, h => by
    unfold skipSpaces at h
    split at h
    · exact List.mem_cons_of_mem _ (skipSpaces_sub xs (n + 1) c h)
    · exact h

theorem takeWord_spec : ∀ (s : Bytes), (∀ c ∈ (takeWord s).1, c ∈ s ∧ Bytes.isSpace c = false) ∧ (∀ c ∈ (takeWord s).2, c ∈ s)
  | [] => ⟨by intro c hc; simp [takeWord] at hc, by intro c hc; simp [takeWord] at hc⟩
  | x :: xs => by
    unfold takeWord
    split
    · exact ⟨(by intro c hc; cases hc), fun c hc => hc⟩
    · rename_i hx
      obtain ⟨h1, h2⟩ := takeWord_spec xs
      constructor
      · intro c hc
        rcases List.mem_cons.mp hc with rfl | h
        · exact ⟨List.mem_cons_self .., by simpa using hx⟩
        · exact ⟨List.mem_cons_of_mem _ (h1 c h).1, (h1 c h).2⟩
      · intro c hc; exact List.mem_cons_of_mem _ (h2 c hc)

theorem tokens_sub : ∀ (f : Nat) (s : Bytes), ∀ t ∈ tokens f s, ∀ c ∈ t, c ∈ s
  | 0, s, t, ht, c, hc => by simp [tokens] at ht
  | f + 1, s, t, ht, c, hc => by
    unfold tokens at ht
    split at ht
    · cases ht
    · rename_i rest heq
      simp only [List.mem_singleton] at ht
      subst ht
      exact skipSpaces_sub s 0 c (by rw [heq]; exact List.mem_cons_of_mem _ hc)
    · rename_i c0 cs hne heq
      obtain ⟨h1, h2⟩ := takeWord_spec (c0 :: cs)
      have hsk : ∀ x ∈ c0 :: cs, x ∈ s := fun x hx => skipSpaces_sub s 0 x (by rw [heq]; exact hx)
      dsimp only at ht
      split at ht
      · simp only [List.mem_singleton] at ht
        subst ht
        exact hsk c (h1 c hc).1
      · rename_i r' hr
        rcases List.mem_cons.mp ht with rfl | h'
        · exact hsk c (h1 c hc).1
        · have := tokens_sub f r' t h' c hc
          exact hsk c (h2 c (by rw [hr]; exact List.mem_cons_of_mem _ this))

/-- every argument but the last is free of blanks -/
theorem tokens_init_nosp : ∀ (f : Nat) (s : Bytes), ∀ t ∈ (tokens f s).dropLast, ∀ c ∈ t, c ≠ 32
  | 0, s, t, ht, c, hc => by simp [tokens] at ht
  | f + 1, s, t, ht, c, hc => by
    unfold tokens at ht
    split at ht
    · simp at ht
    · simp at ht
    · rename_i c0 cs hne heq
      obtain ⟨h1, h2⟩ := takeWord_spec (c0 :: cs)
      dsimp only at ht
      split at ht
      · simp at ht
      · rename_i r' hr
        cases htk : tokens f r' with
        | nil => rw [htk] at ht; simp at ht
        | cons y ys =>
          rw [htk, List.dropLast_cons_cons] at ht
          rcases List.mem_cons.mp ht with rfl | h'
          · intro e; subst e
            have := (h1 32 hc).2
            revert this; decide
          · rw [← htk] at h'
            exact tokens_init_nosp f r' t h' c hc

theorem tokenize_args (raw : Bytes) (hr : Clean raw) :
    (∀ a ∈ (tokenize raw).argv, Clean a) ∧ (∀ a ∈ (tokenize raw).argv.dropLast, NoSp a) := by
  unfold tokenize
  dsimp only
  constructor
  · intro a ha c hc
    exact hr c (List.mem_of_mem_drop (tokens_sub 16 _ a ha c hc))
  · intro a ha c hc
    exact tokens_init_nosp 16 _ a ha c hc

theorem toInt32_range (x : Int) : -2147483648 ≤ toInt32 x ∧ toInt32 x ≤ 2147483647 := by
  unfold toInt32 wrap32
  have h1 := Int.emod_nonneg x (show (4294967296 : Int) ≠ 0 by decide)
  have h2 := Int.emod_lt_of_pos x (show (0 : Int) < 4294967296 by decide)
  dsimp only
  split <;> omega

/-! ### the table -/

structure StateOK (s : State) : Prop where
  reqs : ∀ r ∈ s.reqs, ReqOK s.lim r
  svcs : SvcsOK s.svcs
  rules : RulesOK s.rules
  lim : LimOK s.lim

def OutOK (out : List Bytes) : Prop := ∀ l ∈ out, wellFormed l = true

/-- what a step must deliver -/
def StepOK (s : State) (m : M (State × List Bytes)) : Prop :=
  ∀ s' out, m = .ok (s', out) → StateOK s' ∧ OutOK out ∧ s'.lim = s.lim

theorem StepOK.pure {s : State} (h : StateOK s) (out : List Bytes) (ho : OutOK out) : StepOK s (pure (s, out)) := by
  intro s' o he
  simp only [Pure.pure, Except.pure, Except.ok.injEq, Prod.mk.injEq] at he
  obtain ⟨rfl, rfl⟩ := he
  exact ⟨h, ho, rfl⟩

theorem OutOK.nil : OutOK [] := by intro l hl; cases hl

theorem ctx0_ok {s : State} (h : StateOK s) {r : Req} (hr : r ∈ s.reqs) : CtxOK (ctx0 s r) :=
  ⟨h.reqs r hr, h.svcs, h.rules, h.lim⟩

theorem withReq_step (s : State) (h : StateOK s) (r : Req) (hr : r ∈ s.reqs) (f : Ctx → M Ctx)
    (hf : ∀ c', f (ctx0 s r) = .ok c' → Good (ctx0 s r) c') : StepOK s (withReq s r f) := by
  intro s' out he
  rw [withReq_eq] at he
  cases hfc : f (ctx0 s r) with
  | error e => rw [hfc] at he; simp [Except.map] at he
  | ok c' =>
    rw [hfc] at he
    simp only [Except.map, Except.ok.injEq, Prod.mk.injEq] at he
    obtain ⟨rfl, rfl⟩ := he
    have g := hf c' hfc
    obtain ⟨hl, new, hout, hnew⟩ := g.wrote
    have hl' : c'.lim = s.lim := hl
    refine ⟨⟨?_, g.ok.svcs, g.ok.rules, h.lim⟩, ?_, rfl⟩
    · intro q hq
      dsimp only at hq
      split at hq
      · unfold removeReq at hq
        exact h.reqs q (List.mem_filter.mp hq).1
      · unfold putReq at hq
        obtain ⟨q0, hq0, rfl⟩ := List.mem_map.mp hq
        have key : ReqOK s.lim (if (q0.client == c'.req.client) = true then c'.req else q0) := by
          split
          · have := g.ok.req
            rw [hl'] at this
            exact this
          · exact h.reqs q0 hq0
        exact key
    · intro l hl2
      have : c'.out = new := by rw [hout]; simp [ctx0]
      rw [this] at hl2
      exact hnew l hl2

/-! ### announcements -/

theorem mem_insertReq {r x : Req} : ∀ {reqs : List Req}, x ∈ insertReq r reqs → x = r ∨ x ∈ reqs
  | [], h => by simp [insertReq] at h; exact Or.inl h
  | q :: qs, h => by
    unfold insertReq at h
    split at h
    · rcases List.mem_cons.mp h with rfl | h'
      · exact Or.inl rfl
      · exact Or.inr h'
    · split at h
      · rcases List.mem_cons.mp h with rfl | h'
        · exact Or.inl rfl
        · exact Or.inr (List.mem_cons_of_mem _ h')
      · rcases List.mem_cons.mp h with rfl | h'
        · exact Or.inr (List.mem_cons_self ..)
        · rcases mem_insertReq h' with h1 | h1
          · exact Or.inl h1
          · exact Or.inr (List.mem_cons_of_mem _ h1)

theorem ntopC_head (a : Addr.Addr) : Word (ntopC a) ∧ Clean (ntopC a) ∧ (ntopC a).length ≤ 39 := by
  unfold ntopC
  have hp := Addr.ntop_plain a
  have hl := Addr.ntop_len a
  obtain ⟨h39, hnc, hne⟩ := Addr.ntopFull_props a
  refine ⟨⟨by rw [hl.2.2]; exact hne, fun c hc => (hp c hc).1, Addr.ntop_no_colon a 40⟩,
    fun c hc => ⟨(hp c hc).2.1, (hp c hc).2.2⟩, by rw [hl.2.1]; exact hl.1⟩

theorem portOf_lt (p : Bytes) : portOf p < 65536 := by
  unfold portOf
  have := Int.emod_lt_of_pos (strtol 10 p).1 (show (0 : Int) < 65536 by decide)
  have h0 := Int.emod_nonneg (strtol 10 p).1 (show (65536 : Int) ≠ 0 by decide)
  omega

theorem newClient_step (s : State) (h : StateOK s) (id : Int) (hid : -2147483648 ≤ id ∧ id ≤ 2147483647) (a p : Bytes) :
    StepOK s (newClient s id a p) := by
  intro s' out he
  unfold newClient at he
  cases hp : ptonC a false with
  | error e => simp [hp, bind, Except.bind] at he
  | ok res =>
    simp only [hp, bind, Except.bind, pure, Except.pure, Except.ok.injEq, Prod.mk.injEq] at he
    obtain ⟨rfl, rfl⟩ := he
    obtain ⟨aw, ac, al⟩ := ntopC_head res.addr
    have hser : (s.serial + 1) % 4294967296 < 4294967296 := Nat.mod_lt _ (by decide)
    have fresh : ∀ (xq : Option XqCli), (∀ cli, xq = some cli → Clean cli.cred) →
        ReqOK s.lim ({ client := id, serial := (s.serial + 1) % 4294967296, addr := res.addr, port := (portOf p), textAddr := ntopC res.addr, timer := (if s.timeout > 0 then TimerSt.armed else TimerSt.none), xq := xq } : Req) := by
      intro xq hx
      refine ⟨⟨hid, portOf_lt p, aw, ac, al⟩, hser, ?_⟩
      have nn : NoSp ([] : Bytes) := fun c hc => absurd hc List.not_mem_nil
      exact ⟨nn, Clean.nil, Nat.zero_le _, nn, Clean.nil, Nat.zero_le _, nn, Clean.nil, Nat.zero_le _,
        Clean.nil, Clean.nil, Clean.nil, Clean.nil, hx⟩
    refine ⟨⟨?_, h.svcs, h.rules, h.lim⟩, OutOK.nil, rfl⟩
    intro q hq
    dsimp only at hq
    rcases mem_insertReq hq with rfl | h1
    · split
      · exact fresh _ (by intro cli hc; simp only [Option.some.injEq] at hc; subst hc; exact Clean.nil)
      · exact fresh _ (by intro cli hc; cases hc)
    · exact h.reqs q h1

/-! ### global reports -/

theorem sendRaw_eq (t : Bytes) : sendRaw t = t.take 1023 := rfl

theorem reportConfig_wf (m text : Bytes) (hm : Clean m) (ht : Clean text) : wellFormed (reportConfig m text) = true := by
  unfold reportConfig
  rw [sendRaw_eq]
  have e : b "A " ++ m ++ b " :" ++ truncBuf 1024 text = 65 :: (32 :: (m ++ 32 :: 58 :: text.take 1023)) := by
    have h1 : b "A " = [65, 32] := by decide
    rw [h1, b_colon]; simp [truncBuf]
  rw [e]
  exact global_wellFormed 65 (Or.inr (Or.inr (Or.inl rfl))) _ (Or.inr ⟨_, rfl⟩)
    (Clean.cons (by decide) (by decide) (Clean.append hm (Clean.cons (by decide) (by decide) (Clean.cons (by decide) (by decide) (ht.take _)))))

theorem reportStats_wf (m text : Bytes) (hm : Word m) (hmc : Clean m) (hml : m.length ≤ 100) (ht : Clean text) :
    wellFormed (reportStats m text) = true := by
  unfold reportStats
  rw [sendRaw_eq]
  have e : b "S " ++ m ++ b " :" ++ truncBuf 1024 text = joinSp [[83], m] ++ 32 :: 58 :: text.take 1023 := by
    have h1 : b "S " = [83, 32] := by decide
    rw [h1, b_colon]; simp [truncBuf, joinSp]
  rw [e]
  exact stats_wellFormed hm hmc hml (ht.take _)

theorem sendOpers_wf (text : Bytes) (ht : Clean text) : wellFormed (sendOpers text) = true := by
  unfold sendOpers
  rw [sendRaw_eq]
  have e : b "> :" ++ text = 62 :: (32 :: 58 :: text) := by
    have h1 : b "> :" = [62, 32, 58] := by decide
    rw [h1]; rfl
  rw [e]
  exact global_wellFormed 62 (Or.inr (Or.inr (Or.inr (Or.inr (Or.inr (Or.inl rfl)))))) _ (Or.inr ⟨_, rfl⟩)
    (Clean.cons (by decide) (by decide) (Clean.cons (by decide) (by decide) ht))

theorem word_class : Word (b "class") ∧ Clean (b "class") ∧ (b "class").length ≤ 100 := by
  refine ⟨⟨by decide, ?_, by decide⟩, clean_of_cleanB (by decide), by decide⟩
  intro c hc; revert c; decide
theorem word_xquery : Word (b "xquery") ∧ Clean (b "xquery") ∧ (b "xquery").length ≤ 100 := by
  refine ⟨⟨by decide, ?_, by decide⟩, clean_of_cleanB (by decide), by decide⟩
  intro c hc; revert c; decide
theorem word_iauth : Word (b "iauth") ∧ Clean (b "iauth") ∧ (b "iauth").length ≤ 100 := by
  refine ⟨⟨by decide, ?_, by decide⟩, clean_of_cleanB (by decide), by decide⟩
  intro c hc; revert c; decide

theorem tyName_clean (t : SvcTy) : Clean t.name := by
  cases t <;> exact clean_of_cleanB (by decide)

theorem OutOK.append {a c : List Bytes} (ha : OutOK a) (hc : OutOK c) : OutOK (a ++ c) := by
  intro l hl
  rcases List.mem_append.mp hl with h | h
  · exact ha l h
  · exact hc l h
theorem OutOK.single {l : Bytes} (h : wellFormed l = true) : OutOK [l] := by
  intro x hx; simp only [List.mem_singleton] at hx; subst hx; exact h
theorem OutOK.ite {p : Prop} [Decidable p] {a c : List Bytes} (ha : OutOK a) (hc : OutOK c) : OutOK (if p then a else c) := by
  split <;> assumption

theorem letter_a_wf : wellFormed (sendRaw (b "a")) = true := by
  rw [sendRaw_eq, show b "a" = 97 :: [] from by decide]
  exact global_wellFormed 97 (Or.inr (Or.inl rfl)) [] (Or.inl rfl) Clean.nil
theorem letter_s_wf : wellFormed (sendRaw (b "s")) = true := by
  rw [sendRaw_eq, show b "s" = 115 :: [] from by decide]
  exact global_wellFormed 115 (Or.inr (Or.inr (Or.inr (Or.inr (Or.inl rfl))))) [] (Or.inl rfl) Clean.nil

attribute [local irreducible] decNat

theorem collectConfig_ok (s : State) (h : StateOK s) : OutOK (collectConfig s) := by
  unfold collectConfig
  refine OutOK.append (OutOK.append (OutOK.single letter_a_wf) (OutOK.ite (OutOK.single ?_) OutOK.nil)) (OutOK.ite ?_ OutOK.nil)
  · exact reportConfig_wf _ _ word_class.2.1 (Clean.append (decNat_clean _) (clean_of_cleanB (by decide)))
  · intro l hl
    obtain ⟨o, ho, hm⟩ := List.mem_filterMap.mp hl
    cases o with
    | none => simp at hm
    | some srv =>
      simp only [Option.map_some, Option.some.injEq] at hm
      rw [← hm]
      have hs := h.svcs srv ho
      apply reportConfig_wf _ _ word_xquery.2.1
      simp only [clean_append_iff]
      refine ⟨⟨⟨?_, hs.2.1⟩, sp_clean⟩, tyName_clean _⟩
      split <;> exact clean_of_cleanB (by decide)

theorem collectStats_ok (s : State) (h : StateOK s) (last : Bool) : OutOK (collectStats s last) := by
  unfold collectStats
  refine OutOK.append (OutOK.append (OutOK.append (OutOK.append ?_ ?_) ?_) ?_) ?_
  · exact OutOK.ite OutOK.nil (OutOK.single letter_s_wf)
  · apply OutOK.single
    unfold collectStats.reportStatsCore
    rw [sendRaw_eq]
    have e : ∀ x : Bytes, b "S iauth :" ++ x = joinSp [[83], b "iauth"] ++ 32 :: 58 :: x := by
      intro x
      have h1 : b "S iauth :" = [83, 32] ++ b "iauth" ++ [32, 58] := by decide
      rw [h1]; simp [joinSp]
    simp only [List.append_assoc]
    rw [e]
    apply stats_wellFormed word_iauth.1 word_iauth.2.1 word_iauth.2.2
    simp only [clean_append_iff]
    repeat' apply And.intro
    all_goals first | exact clean_of_cleanB (by decide) | exact decNat_clean _
  · refine OutOK.ite (OutOK.append ?_ (OutOK.single ?_)) OutOK.nil
    · intro l hl
      obtain ⟨r, hr, rfl⟩ := List.mem_map.mp hl
      have hrule := h.rules r hr
      split
      · rename_i c hc
        apply reportStats_wf _ _ word_class.1 word_class.2.1 word_class.2.2
        simp only [clean_append_iff]
        repeat' apply And.intro
        all_goals first | exact hrule.2.2.1 | exact hrule.2.2.2 c hc | exact decNat_clean _ | exact clean_of_cleanB (by decide)
      · apply reportStats_wf _ _ word_class.1 word_class.2.1 word_class.2.2
        simp only [clean_append_iff]
        repeat' apply And.intro
        all_goals first | exact hrule.2.2.1 | exact decNat_clean _ | exact clean_of_cleanB (by decide)
    · apply reportStats_wf _ _ word_class.1 word_class.2.1 word_class.2.2
      simp only [clean_append_iff]
      repeat' apply And.intro
      all_goals first | exact clean_of_cleanB (by decide) | exact decNat_clean _
  · refine OutOK.ite (OutOK.append (OutOK.append (OutOK.single ?_) ?_) (OutOK.single ?_)) OutOK.nil
    · exact reportStats_wf _ _ word_xquery.1 word_xquery.2.1 word_xquery.2.2 (clean_of_cleanB (by decide))
    · intro l hl
      obtain ⟨o, ho, hm⟩ := List.mem_filterMap.mp hl
      cases o with
      | none => simp at hm
      | some srv =>
        simp only [Option.map_some, Option.some.injEq] at hm
        rw [← hm]
        have hs := h.svcs srv ho
        apply reportStats_wf _ _ word_xquery.1 word_xquery.2.1 word_xquery.2.2
        simp only [clean_append_iff]
        repeat' apply And.intro
        all_goals first | exact hs.2.1 | exact decNat_clean _ | exact sp_clean | (split <;> exact clean_of_cleanB (by decide))
    · apply reportStats_wf _ _ word_xquery.1 word_xquery.2.1 word_xquery.2.2
      simp only [clean_append_iff]
      repeat' apply And.intro
      all_goals first | exact clean_of_cleanB (by decide) | exact decNat_clean _
  · exact OutOK.ite (OutOK.single letter_s_wf) OutOK.nil

end Iauthd.Proto
