import Iauthd.Proto.Render
/-
  The daemon reads its own routing tags back: `%x_%x` printed by `iauth_routing`, parsed by
  `iauth_validate_request` (model: `parseTag`) and by the reader of the output (Spec: `tagOf`).
-/
set_option linter.unusedSimpArgs false
set_option linter.unusedVariables false
namespace Iauthd.Proto
open Iauthd

theorem hexNat_eq (n : Nat) : hexNat n = (Nat.toDigits 16 n).map chByte := by
  unfold hexNat
  rw [b_eq]
  simp

/-- the byte of the hex digit character of `d < 16` is read back as `d` -/
theorem digitIn_hexChar (d : Nat) (h : d < 16) : digitIn 16 (chByte (Nat.digitChar d)) = some d := by
  have : d = 0 ∨ d = 1 ∨ d = 2 ∨ d = 3 ∨ d = 4 ∨ d = 5 ∨ d = 6 ∨ d = 7 ∨ d = 8 ∨ d = 9 ∨ d = 10 ∨ d = 11 ∨
      d = 12 ∨ d = 13 ∨ d = 14 ∨ d = 15 := by omega
  rcases this with rfl | rfl | rfl | rfl | rfl | rfl | rfl | rfl | rfl | rfl | rfl | rfl | rfl | rfl | rfl | rfl <;> decide

theorem hexChar_facts (d : Nat) (h : d < 16) :
    chByte (Nat.digitChar d) ≠ 32 ∧ chByte (Nat.digitChar d) ≠ 58 ∧ chByte (Nat.digitChar d) ≠ 10 ∧
    chByte (Nat.digitChar d) ≠ 0 ∧ chByte (Nat.digitChar d) ≠ 45 ∧ chByte (Nat.digitChar d) ≠ 43 ∧
    chByte (Nat.digitChar d) ≠ 120 ∧ chByte (Nat.digitChar d) ≠ 88 ∧ chByte (Nat.digitChar d) ≠ 95 ∧
    Bytes.isSpace (chByte (Nat.digitChar d)) = false := by
  have : d = 0 ∨ d = 1 ∨ d = 2 ∨ d = 3 ∨ d = 4 ∨ d = 5 ∨ d = 6 ∨ d = 7 ∨ d = 8 ∨ d = 9 ∨ d = 10 ∨ d = 11 ∨
      d = 12 ∨ d = 13 ∨ d = 14 ∨ d = 15 := by omega
  rcases this with rfl | rfl | rfl | rfl | rfl | rfl | rfl | rfl | rfl | rfl | rfl | rfl | rfl | rfl | rfl | rfl <;> decide

/-- reading the digits the printer produced, whatever non-digit follows -/
theorem accDigits_core (rest : Bytes) (hrest : ∀ c r, rest = c :: r → digitIn 16 c = none) :
    ∀ (fuel n : Nat) (ds : List Char) (acc k : Nat), n < fuel →
      ∃ m, m ≥ 1 ∧ (Nat.toDigitsCore 16 fuel n ds).length = ds.length + m ∧
        accDigits 16 ((Nat.toDigitsCore 16 fuel n ds).map chByte ++ rest) acc k =
          accDigits 16 (ds.map chByte ++ rest) (acc * 16 ^ m + n) (k + m) ∧
        ∃ d0 tl, d0 < 16 ∧ Nat.toDigitsCore 16 fuel n ds = Nat.digitChar d0 :: tl
  | 0, n, ds, acc, k, h => by omega
  | fuel + 1, n, ds, acc, k, h => by
    unfold Nat.toDigitsCore
    simp only []
    have hd : n % 16 < 16 := Nat.mod_lt _ (by decide)
    by_cases hz : n / 16 = 0
    · rw [if_pos hz]
      have hn : n < 16 := by omega
      refine ⟨1, by omega, by simp, ?_, ⟨n % 16, ds, hd, rfl⟩⟩
      simp only [List.map_cons, List.cons_append]
      rw [accDigits, digitIn_hexChar _ hd]
      have : n % 16 = n := Nat.mod_eq_of_lt hn
      simp [this]
    · rw [if_neg hz]
      have hlt : n / 16 < fuel := by omega
      obtain ⟨m, hm1, hlen, hacc, d0, tl, hd0, hhead⟩ :=
        accDigits_core rest hrest fuel (n / 16) (Nat.digitChar (n % 16) :: ds) acc k hlt
      refine ⟨m + 1, by omega, by simp [hlen]; omega, ?_, ⟨d0, tl, hd0, hhead⟩⟩
      rw [hacc]
      simp only [List.map_cons, List.cons_append]
      rw [accDigits, digitIn_hexChar _ hd]
      simp only []
      congr 1
      · rw [Nat.pow_succ]
        have := Nat.div_add_mod n 16
        rw [Nat.add_mul, Nat.mul_assoc]
        omega

theorem accDigits_stop (rest : Bytes) (hrest : ∀ c r, rest = c :: r → digitIn 16 c = none) (acc k : Nat) :
    accDigits 16 rest acc k = (acc, k) := by
  cases rest with
  | nil => rfl
  | cons c r => rw [accDigits, hrest c r rfl]

/-- `accDigits` over a printed hex number followed by a non-digit -/
theorem accDigits_hexNat (n : Nat) (rest : Bytes) (hrest : ∀ c r, rest = c :: r → digitIn 16 c = none) :
    accDigits 16 (hexNat n ++ rest) 0 0 = (n, (hexNat n).length) ∧ (hexNat n).length ≥ 1 ∧
    ∃ d0 tl, d0 < 16 ∧ hexNat n = chByte (Nat.digitChar d0) :: tl := by
  rw [hexNat_eq]
  unfold Nat.toDigits
  obtain ⟨m, hm1, hlen, hacc, d0, tl, hd0, hhead⟩ := accDigits_core rest hrest (n + 1) n [] 0 0 (by omega)
  simp only [List.length_nil, Nat.zero_add] at hlen
  refine ⟨?_, by rw [List.length_map, hlen]; exact hm1, ⟨d0, tl.map chByte, hd0, by rw [hhead]; rfl⟩⟩
  rw [hacc]
  simp only [List.map_nil, List.nil_append, Nat.zero_mul, Nat.zero_add]
  rw [accDigits_stop rest hrest, List.length_map, hlen]

theorem hexNat_chars (n : Nat) : ∀ c ∈ hexNat n, ∃ d, d < 16 ∧ c = chByte (Nat.digitChar d) := by
  rw [hexNat_eq]
  unfold Nat.toDigits
  suffices h : ∀ (fuel n : Nat) (ds : List Char), (∀ c ∈ ds, ∃ d, d < 16 ∧ c = Nat.digitChar d) →
      ∀ c ∈ Nat.toDigitsCore 16 fuel n ds, ∃ d, d < 16 ∧ c = Nat.digitChar d by
    intro c hc
    obtain ⟨ch, hch, rfl⟩ := List.mem_map.mp hc
    obtain ⟨d, hd, rfl⟩ := h (n + 1) n [] (by simp) ch hch
    exact ⟨d, hd, rfl⟩
  intro fuel
  induction fuel with
  | zero => intro n ds hds c hc; exact hds c hc
  | succ f ih =>
    intro n ds hds c hc
    unfold Nat.toDigitsCore at hc
    simp only [] at hc
    have hd : n % 16 < 16 := Nat.mod_lt _ (by decide)
    have hds' : ∀ c ∈ Nat.digitChar (n % 16) :: ds, ∃ d, d < 16 ∧ c = Nat.digitChar d := by
      intro x hx
      rcases List.mem_cons.mp hx with rfl | h
      · exact ⟨_, hd, rfl⟩
      · exact hds x h
    split at hc
    · exact hds' c hc
    · exact ih _ _ hds' c hc

theorem hexNat_word (n : Nat) : Word (hexNat n) := by
  obtain ⟨_, hlen, d0, tl, hd0, hhead⟩ := accDigits_hexNat n [] (by intro c r h; cases h)
  refine ⟨by intro h; rw [h] at hlen; simp at hlen, ?_, ?_⟩
  · intro c hc
    obtain ⟨d, hd, rfl⟩ := hexNat_chars n c hc
    exact (hexChar_facts d hd).1
  · rw [hhead]
    simp only [List.head?_cons, ne_eq, Option.some.injEq]
    exact (hexChar_facts d0 hd0).2.1

theorem hexNat_clean (n : Nat) : Clean (hexNat n) := by
  intro c hc
  obtain ⟨d, hd, rfl⟩ := hexNat_chars n c hc
  exact ⟨(hexChar_facts d hd).2.2.1, (hexChar_facts d hd).2.2.2.1⟩

/-- `strtol(…, 16)` / `strtoul(…, 16)` front end on a printed hex number followed by a non-digit
    that is not an `x` -/
theorem scanNumber_hexNat (n : Nat) (rest : Bytes) (hrest : ∀ c r, rest = c :: r → digitIn 16 c = none)
    (hnox : ∀ c r, rest = c :: r → c ≠ 120 ∧ c ≠ 88) :
    scanNumber 16 (hexNat n ++ rest) = (false, n, (hexNat n).length) := by
  obtain ⟨hacc, hlen, d0, tl, hd0, hhead⟩ := accDigits_hexNat n rest hrest
  have hf := hexChar_facts d0 hd0
  have hskip : skipSpaces (hexNat n ++ rest) 0 = (hexNat n ++ rest, 0) := by
    rw [hhead]
    simp only [List.cons_append]
    rw [skipSpaces]
    simp [hf.2.2.2.2.2.2.2.2.2]
  have hsign : signPart (hexNat n ++ rest) 0 = (false, hexNat n ++ rest, 0) := by
    rw [hhead]
    simp only [List.cons_append]
    unfold signPart
    split
    · rename_i heq; simp at heq; exact absurd heq.1 hf.2.2.2.2.1
    · rename_i heq; simp at heq; exact absurd heq.1 hf.2.2.2.2.2.1
    · rfl
  -- no 0x prefix: the byte after a leading '0' is a hex digit or the separator, never x / X
  have hpre : prefixPart 16 (hexNat n ++ rest) 0 = (hexNat n ++ rest, 0) := by
    unfold prefixPart
    rw [if_pos rfl]
    split
    · rename_i x d t heq
      have hx120 : (x == 120 || x == 88) = false := by
        cases hx1 : (x == 120 || x == 88) with
        | false => rfl
        | true =>
          exfalso
          have hxd : digitIn 16 x = none := by
            simp only [Bool.or_eq_true, beq_iff_eq] at hx1
            rcases hx1 with rfl | rfl <;> decide
          rw [hhead] at heq
          cases tl with
          | nil =>
            simp only [List.cons_append, List.nil_append, List.cons.injEq] at heq
            have hxx : x = 120 ∨ x = 88 := by
              simp only [Bool.or_eq_true, beq_iff_eq] at hx1; exact hx1
            have := hnox x (d :: t) heq.2
            rcases hxx with h | h
            · exact this.1 h
            · exact this.2 h
          | cons y ys =>
            simp only [List.cons_append, List.cons.injEq] at heq
            have hy : y ∈ hexNat n := by rw [hhead]; simp
            obtain ⟨dd, hdd, rfl⟩ := hexNat_chars n y hy
            rw [← heq.2.1, digitIn_hexChar dd hdd] at hxd
            cases hxd
      rw [hx120]; rfl
    · rfl
  unfold scanNumber
  simp only [hskip, hsign, hpre, hacc]
  have : (hexNat n).length ≠ 0 := by omega
  rw [if_neg this]
  simp

theorem digitIn_underscore : digitIn 16 95 = none := by decide

theorem strtol_hexNat_sep (a : Nat) (ha : a < 4294967296) (rest : Bytes) :
    strtol 16 (hexNat a ++ 95 :: rest) = ((a : Int), (hexNat a).length) := by
  unfold strtol
  rw [scanNumber_hexNat a (95 :: rest) (by intro c r h; simp at h; rw [← h.1]; exact digitIn_underscore)
    (by intro c r h; simp at h; rw [← h.1]; decide)]
  simp only [Bool.false_eq_true, if_false]
  have h1 : ¬ ((a : Int) > LONG_MAX) := by unfold LONG_MAX; omega
  have h2 : ¬ ((a : Int) < LONG_MIN) := by unfold LONG_MIN; omega
  rw [if_neg h1, if_neg h2]

theorem strtoul_hexNat (n : Nat) (hn : n < 4294967296) : strtoul 16 (hexNat n) = (n, (hexNat n).length) := by
  unfold strtoul
  have := scanNumber_hexNat n [] (by intro c r h; cases h) (by intro c r h; cases h)
  rw [List.append_nil] at this
  rw [this]
  have h1 : ¬ (n > ULONG_MAX) := by unfold ULONG_MAX; omega
  simp only [h1, if_false, Bool.false_eq_true]

theorem routing_eq (r : Req) :
    routing r = hexNat ((r.client % 4294967296).toNat) ++ 95 :: hexNat r.serial := by
  unfold routing hexInt32
  show _ ++ b "_" ++ _ = _
  have : b "_" = [95] := by decide
  rw [this]; simp

theorem wrap32_mod (i : Int) (h1 : -2147483648 ≤ i) (h2 : i ≤ 2147483647) :
    toInt32 (((i % 4294967296).toNat : Nat) : Int) = i := by
  unfold toInt32 wrap32
  have hnn : 0 ≤ i % 4294967296 := Int.emod_nonneg _ (by decide)
  rw [Int.toNat_of_nonneg hnn]
  have hm : (i % 4294967296) % 4294967296 = i % 4294967296 := Int.emod_emod_of_dvd _ (Int.dvd_refl _)
  simp only [hm]
  by_cases hneg : i < 0
  · have : i % 4294967296 = i + 4294967296 := by
      rw [Int.emod_def]
      have : i / 4294967296 = -1 := by omega
      omega
    rw [this]
    split <;> omega
  · have : i % 4294967296 = i := Int.emod_eq_of_lt (by omega) (by omega)
    rw [this]
    split <;> omega

/-- **the daemon understands its own routing tags**: `iauth_validate_request`'s reading of the
    tag `iauth_routing` prints for a request is that request's id and serial -/
theorem parseTag_routing (r : Req) (h1 : -2147483648 ≤ r.client) (h2 : r.client ≤ 2147483647)
    (hs : r.serial < 4294967296) : parseTag (routing r) = some (r.client, r.serial) := by
  have ha : (r.client % 4294967296).toNat < 4294967296 := by
    have := Int.emod_lt_of_pos r.client (show (0 : Int) < 4294967296 by decide)
    have hnn : 0 ≤ r.client % 4294967296 := Int.emod_nonneg _ (by decide)
    omega
  unfold parseTag
  rw [routing_eq, strtol_hexNat_sep _ ha]
  obtain ⟨_, hlen, _⟩ := accDigits_hexNat ((r.client % 4294967296).toNat) [] (by intro c r h; cases h)
  have hget : (hexNat (r.client % 4294967296).toNat ++ 95 :: hexNat r.serial).getD (hexNat (r.client % 4294967296).toNat).length 0 = 95 := by
    simp [List.getD_eq_getElem?_getD]
  have hdrop : (hexNat (r.client % 4294967296).toNat ++ 95 :: hexNat r.serial).drop ((hexNat (r.client % 4294967296).toNat).length + 1)
      = hexNat r.serial := by
    rw [List.drop_append]
    simp
  obtain ⟨_, hlen2, _⟩ := accDigits_hexNat r.serial [] (by intro c r h; cases h)
  simp only [hget, hdrop, strtoul_hexNat _ hs]
  have e0 : ((hexNat (r.client % 4294967296).toNat).length == 0) = false := by
    simp only [beq_eq_false_iff_ne]; omega
  have e2 : ((hexNat r.serial).length == 0) = false := by
    simp only [beq_eq_false_iff_ne]; omega
  have hlt : ¬ ((hexNat r.serial).length < (hexNat r.serial).length) := by omega
  simp only [e0, e2, hlt, bne_self_eq_false, Bool.or_false, Bool.false_eq_true, if_false, decide_false]
  have c1 : ¬ (((r.client % 4294967296).toNat : Int) < 0) := by omega
  have c2 : ¬ (((r.client % 4294967296).toNat : Int) > 4294967295) := by omega
  have c3 : ¬ (r.serial > 4294967295) := by omega
  simp only [c1, c2, c3, decide_false, Bool.or_false, Bool.false_eq_true, if_false, wrap32_mod _ h1 h2]

/-- … and so does the reader of the output (Spec) -/
theorem tagOf_routing (r : Req) (h1 : -2147483648 ≤ r.client) (h2 : r.client ≤ 2147483647)
    (hs : r.serial < 4294967296) : Hist.tagOf (routing r) = some (r.client, r.serial) := by
  have ha : (r.client % 4294967296).toNat < 4294967296 := by
    have := Int.emod_lt_of_pos r.client (show (0 : Int) < 4294967296 by decide)
    have hnn : 0 ≤ r.client % 4294967296 := Int.emod_nonneg _ (by decide)
    omega
  unfold Hist.tagOf
  rw [routing_eq, strtol_hexNat_sep _ ha]
  obtain ⟨_, hlen, _⟩ := accDigits_hexNat ((r.client % 4294967296).toNat) [] (by intro c r h; cases h)
  have hget : (hexNat (r.client % 4294967296).toNat ++ 95 :: hexNat r.serial).getD (hexNat (r.client % 4294967296).toNat).length 0 = 95 := by
    simp [List.getD_eq_getElem?_getD]
  have hdrop : (hexNat (r.client % 4294967296).toNat ++ 95 :: hexNat r.serial).drop ((hexNat (r.client % 4294967296).toNat).length + 1)
      = hexNat r.serial := by
    rw [List.drop_append]
    simp
  obtain ⟨_, hlen2, _⟩ := accDigits_hexNat r.serial [] (by intro c r h; cases h)
  simp only [hget, hdrop, strtoul_hexNat _ hs]
  have e0 : ((hexNat (r.client % 4294967296).toNat).length == 0) = false := by
    simp only [beq_eq_false_iff_ne]; omega
  have e2 : ((hexNat r.serial).length == 0) = false := by
    simp only [beq_eq_false_iff_ne]; omega
  have hlt : ¬ ((hexNat r.serial).length < (hexNat r.serial).length) := by omega
  simp only [e0, e2, hlt, bne_self_eq_false, Bool.or_false, Bool.false_eq_true, if_false, decide_false]
  have c1 : ¬ (((r.client % 4294967296).toNat : Int) < 0) := by omega
  have c2 : ¬ (((r.client % 4294967296).toNat : Int) > 4294967295) := by omega
  have c3 : ¬ (r.serial > 4294967295) := by omega
  simp only [c1, c2, c3, decide_false, Bool.or_false, Bool.false_eq_true, if_false, wrap32_mod _ h1 h2]

theorem routing_word (r : Req) : Word (routing r) := by
  rw [routing_eq]
  have hw := hexNat_word ((r.client % 4294967296).toNat)
  have hw2 := hexNat_word r.serial
  refine ⟨by simp, ?_, ?_⟩
  · intro c hc
    rcases List.mem_append.mp hc with h | h
    · exact hw.nosp c h
    · rcases List.mem_cons.mp h with rfl | h'
      · decide
      · exact hw2.nosp c h'
  · cases hh : hexNat (r.client % 4294967296).toNat with
    | nil => exact absurd hh hw.ne
    | cons c cs =>
      have := hw.nocolon
      rw [hh] at this
      simpa using this

theorem routing_clean (r : Req) : Clean (routing r) := by
  rw [routing_eq]
  exact Clean.append (hexNat_clean _) (Clean.cons (by decide) (by decide) (hexNat_clean _))

theorem routing_length (r : Req) (hs : r.serial < 4294967296) : (routing r).length ≤ 17 := by
  rw [routing_eq]
  have ha : (r.client % 4294967296).toNat < 16 ^ 8 := by
    have := Int.emod_lt_of_pos r.client (show (0 : Int) < 4294967296 by decide)
    have hnn : 0 ≤ r.client % 4294967296 := Int.emod_nonneg _ (by decide)
    omega
  have l1 : (hexNat (r.client % 4294967296).toNat).length ≤ 8 := by
    rw [hexNat_eq, List.length_map]; exact (Nat.length_toDigits_le_iff (by decide) (by decide)).mpr ha
  have l2 : (hexNat r.serial).length ≤ 8 := by
    rw [hexNat_eq, List.length_map]; exact (Nat.length_toDigits_le_iff (by decide) (by decide)).mpr (by omega)
  simp only [List.length_append, List.length_cons]; omega

end Iauthd.Proto
