import Iauthd.Proto.Rel07
/-
  C07, the other half: a handler run leaves the tables as they were, up to counters.  (With
  `Rel07` this is what lets another client's event go by: the relation between the two runs
  only looks at the erased tables.)
-/
set_option linter.unusedSimpArgs false
set_option linter.unusedVariables false
namespace Iauthd.Proto
open Iauthd

structure KeepT (c d : Ctx) : Prop where
  svcs : eraseS d.svcs = eraseS c.svcs
  rules : eraseR d.rules = eraseR c.rules
  lim : d.lim = c.lim

theorem KeepT.refl (c : Ctx) : KeepT c c := ⟨rfl, rfl, rfl⟩
theorem KeepT.trans {a m c : Ctx} (h1 : KeepT a m) (h2 : KeepT m c) : KeepT a c :=
  ⟨h2.svcs.trans h1.svcs, h2.rules.trans h1.rules, h2.lim.trans h1.lim⟩

theorem AllConf_erase (l : List (Option Svc)) : AllConf (eraseS l) ↔ AllConf l := by
  unfold AllConf eraseS
  constructor
  · intro h x hx
    have := h (kernelS x) (List.mem_map.mpr ⟨some x, hx, rfl⟩)
    simpa [kernelS] using this
  · intro h x hx
    obtain ⟨o, ho, he⟩ := List.mem_map.mp hx
    cases o with
    | none => cases he
    | some y =>
      simp only [Option.map_some, Option.some.injEq] at he
      subst he
      exact h y ho

theorem KeepT.conf {c d : Ctx} (h : KeepT c d) (hc : AllConf c.svcs) : AllConf d.svcs := by
  rw [← AllConf_erase, h.svcs, AllConf_erase]; exact hc

theorem keep_upd (c : Ctx) (f : Req → Req) : KeepT c (updReq c f) := ⟨rfl, rfl, rfl⟩
theorem keep_emit (c : Ctx) (l : Bytes) : KeepT c (c.emit l) := ⟨rfl, rfl, rfl⟩
theorem keep_finish (c : Ctx) : KeepT c (finishReq c) := ⟨rfl, rfl, rfl⟩
theorem keep_softDone (c : Ctx) : KeepT c (softDone c) := ⟨rfl, rfl, rfl⟩

theorem keep_set (c : Ctx) (i : Nat) {srv f : Svc} (hg : getSvc c.svcs i = some srv)
    (hf : f.name = srv.name ∧ f.ty = srv.ty ∧ f.configured = srv.configured) :
    KeepT c { c with svcs := setSvc c.svcs i (some f) } := by
  refine ⟨?_, rfl, rfl⟩
  show eraseS (setSvc c.svcs i (some f)) = eraseS c.svcs
  have hl := getSvc_some_lt hg
  unfold eraseS setSvc
  rw [List.map_set]
  apply List.ext_getElem (by simp)
  intro j h1 h2
  rw [List.getElem_set]
  split
  · rename_i hij
    subst hij
    simp only [List.getElem_map]
    have : c.svcs[i] = some srv := by
      unfold getSvc at hg
      rw [List.getD_eq_getElem?_getD, List.getElem?_eq_getElem hl] at hg
      simpa using hg
    rw [this]
    simp only [Option.map_some, Option.some.injEq, kernelS, Svc.mk.injEq]
    exact ⟨hf.1, hf.2.1, hf.2.2, trivial, trivial, trivial, trivial, trivial, trivial, trivial⟩
  · rfl

theorem gateNested_keep (st : Static) (c d : Ctx) (h : gateNested st c = .ok d) : KeepT c d := by
  unfold gateNested at h
  dsimp only at h
  split at h
  · split at h
    · cases h
    · split at h <;> (simp only [pure, Except.pure, Except.ok.injEq] at h; subst h)
      · exact keep_softDone c
      · exact KeepT.refl c
  · simp only [pure, Except.pure, Except.ok.injEq] at h; subst h; exact KeepT.refl c

theorem trustUsername_keep (st : Static) (c d : Ctx) (name : Bytes) (h : trustUsername st c name = .ok d) : KeepT c d := by
  unfold trustUsername at h
  simp only [bind, Except.bind, pure, Except.pure] at h
  split at h
  · exact (KeepT.trans (keep_emit c _) (keep_upd _ _)).trans (gateNested_keep st _ _ h)
  · cases h; exact keep_emit c _

theorem classRules_keep (st : Static) : ∀ (rules : List Rule) (c d : Ctx) (rules' : List Rule),
    classRules st rules c = .ok (d, rules') → KeepT c d ∧ eraseR rules' = eraseR rules
  | [], c, d, rules', h => by
    simp only [classRules, pure, Except.pure, Except.ok.injEq, Prod.mk.injEq] at h
    obtain ⟨rfl, rfl⟩ := h
    exact ⟨KeepT.refl c, rfl⟩
  | rule :: rest, c, d, rules', h => by
    unfold classRules at h
    split at h
    · simp only [bind, Except.bind] at h
      have er : eraseR ({ rule with assigned := rule.assigned + 1 } :: rest) = eraseR (rule :: rest) := by
        simp [eraseR, kernelR]
      split at h
      · split at h
        · cases h
        · rename_i c1 hx
          simp only [pure, Except.pure, Except.ok.injEq, Prod.mk.injEq] at h
          obtain ⟨rfl, rfl⟩ := h
          exact ⟨(trustUsername_keep st _ _ _ hx).trans (keep_upd _ _), er⟩
      · simp only [pure, Except.pure, Except.ok.injEq, Prod.mk.injEq] at h
        obtain ⟨rfl, rfl⟩ := h
        exact ⟨keep_upd _ _, er⟩
    · simp only [bind, Except.bind] at h
      split at h
      · cases h
      · rename_i v hx
        obtain ⟨c1, r1⟩ := v
        simp only [pure, Except.pure, Except.ok.injEq, Prod.mk.injEq] at h
        obtain ⟨rfl, rfl⟩ := h
        obtain ⟨k, e⟩ := classRules_keep st rest c c1 r1 hx
        exact ⟨k, by simp only [eraseR, List.map_cons, List.cons.injEq]; exact ⟨trivial, e⟩⟩

theorem classAssign_keep (st : Static) (c d : Ctx) (h : classAssign st c = .ok d) : KeepT c d := by
  unfold classAssign at h
  split at h
  · simp only [pure, Except.pure, Except.ok.injEq] at h; subst h; exact ⟨rfl, rfl, rfl⟩
  · simp only [bind, Except.bind] at h
    split at h
    · cases h
    · rename_i v hx
      obtain ⟨c1, r1⟩ := v
      obtain ⟨k, e⟩ := classRules_keep st _ _ _ _ hx
      dsimp only at h
      split at h <;> (simp only [pure, Except.pure, Except.ok.injEq] at h; subst h; exact ⟨k.svcs, e, k.lim⟩)

theorem accept_keep (st : Static) (c d : Ctx) (h : accept st c = .ok d) : KeepT c d := by
  unfold accept at h
  by_cases hr : c.req.flags.responded = true
  · simp [hr, bind, Except.bind, throw, throwThe, MonadExceptOf.throw] at h
  · simp only [hr, if_false, Bool.false_eq_true] at h
    by_cases hcl : st.hasClass = true
    · simp only [hcl, if_true, bind, Except.bind, pure, Except.pure] at h
      split at h
      · cases h
      · rename_i c1 hx
        simp only [Except.ok.injEq] at h
        subst h
        exact (classAssign_keep st _ _ hx).trans ⟨rfl, rfl, rfl⟩
    · simp only [hcl, if_false, bind, Except.bind, pure, Except.pure, Except.ok.injEq, Bool.false_eq_true] at h
      subst h
      exact ⟨rfl, rfl, rfl⟩

theorem kill_keep (c d : Ctx) (reason : Bytes) (h : kill c reason = .ok d) : KeepT c d := by
  unfold kill at h
  by_cases hr : c.req.flags.responded = true
  · simp [hr, bind, Except.bind, throw, throwThe, MonadExceptOf.throw] at h
  · simp only [hr, if_false, bind, Except.bind, pure, Except.pure, Except.ok.injEq, Bool.false_eq_true] at h
    subst h
    exact ⟨rfl, rfl, rfl⟩

theorem gate_keep (st : Static) (c d : Ctx) (h : gate st c = .ok d) : KeepT c d := by
  unfold gate at h
  dsimp only at h
  split at h
  · split at h
    · exact accept_keep st _ _ h
    · split at h <;> (simp only [pure, Except.pure, Except.ok.injEq] at h; subst h)
      · exact keep_softDone c
      · exact KeepT.refl c
  · simp only [pure, Except.pure, Except.ok.injEq] at h; subst h; exact KeepT.refl c

/-! ### xquery -/

theorem xqTake_keep (c : Ctx) (srv : Svc) (cli : XqCli) (i : Nat) (hg : getSvc c.svcs i = some srv) :
    KeepT c (xqTake c srv cli i) := by
  unfold xqTake
  have h1 := keep_set c i (f := { srv with queries := srv.queries + 1, refs := srv.refs + 1 }) hg ⟨rfl, rfl, rfl⟩
  dsimp only
  split
  · exact h1.trans (keep_upd _ _)
  · exact h1

theorem xqCheckSlot_keep (p : Bool) (c : Ctx) (cli : XqCli) (i : Nat) : KeepT c (xqCheckSlot p c cli i).1 := by
  unfold xqCheckSlot
  cases hg : getSvc c.svcs i with
  | none => exact KeepT.refl c
  | some srv =>
    dsimp only
    split
    · exact KeepT.refl c
    · have h0 : KeepT c { c with out := c.out ++ xqQueryLines c.lim srv cli c.req } := ⟨rfl, rfl, rfl⟩
      exact h0.trans (xqTake_keep _ srv cli i hg)

theorem xqCheckLoop_keep (p : Bool) : ∀ (is : List Nat) (c : Ctx) (cli : XqCli), KeepT c (xqCheckLoop p is c cli).1
  | [], c, cli => KeepT.refl c
  | i :: is, c, cli => by
    unfold xqCheckLoop
    exact (xqCheckSlot_keep p c cli i).trans (xqCheckLoop_keep p is _ _)

theorem xqCheck_keep (p : Bool) (c : Ctx) : KeepT c (xqCheck p c) := by
  unfold xqCheck
  cases c.req.xq with
  | none => exact KeepT.refl c
  | some cli => exact (xqCheckLoop_keep p _ c cli).trans (keep_upd _ _)

theorem xqCheckPassword_keep (c : Ctx) (cli : XqCli) (pw : Bytes) : KeepT c (xqCheckPassword c cli pw) := by
  unfold xqCheckPassword
  cases checkPasswordShape pw with
  | none => exact KeepT.refl c
  | some mc => exact (keep_upd c _).trans (xqCheck_keep true _)

theorem xqMoreLoop_keep (pw : Bytes) : ∀ (is : List Nat) (c : Ctx) (cli : XqCli), KeepT c (xqMoreLoop pw is c cli).1
  | [], c, cli => KeepT.refl c
  | i :: is, c, cli => by
    unfold xqMoreLoop
    split
    · exact xqMoreLoop_keep pw is c cli
    · cases hg : getSvc c.svcs i with
      | none => exact xqMoreLoop_keep pw is c cli
      | some srv =>
        dsimp only
        split
        · exact xqMoreLoop_keep pw is c cli
        · have h1 : KeepT c (if cli.ref.isEmpty = true then updReq (c.emit (xquery srv.name (routing c.req) (b "MORE " ++ pw))) fun r => { r with soft := r.soft + 1 }
              else c.emit (xquery srv.name (routing c.req) (b "MORE " ++ pw))) := by
            split
            · exact ⟨rfl, rfl, rfl⟩
            · exact ⟨rfl, rfl, rfl⟩
          refine (h1.trans ?_).trans (xqMoreLoop_keep pw is _ _)
          refine keep_set _ i (srv := srv) ?_ ⟨rfl, rfl, rfl⟩
          split <;> exact hg

theorem xqPassword_keep (c d : Ctx) (pw : Option Bytes) (h : xqPassword c pw = .ok d) : KeepT c d := by
  unfold xqPassword at h
  cases hx : c.req.xq with
  | none => rw [hx] at h; simp only [pure, Except.pure, Except.ok.injEq] at h; subst h; exact KeepT.refl c
  | some cli =>
    rw [hx] at h
    dsimp only at h
    split at h
    · cases pw with
      | none => cases h
      | some p => simp only [pure, Except.pure, Except.ok.injEq] at h; subst h; exact xqCheckPassword_keep c cli p
    · simp only [pure, Except.pure, Except.ok.injEq] at h
      subst h
      exact (xqMoreLoop_keep _ _ c cli).trans (keep_upd _ _)

theorem xqFinish_keep (st : Static) (i : Nat) (c d : Ctx) (cli : XqCli) (srv srv0 : Svc) (hg : getSvc c.svcs i = some srv0)
    (hf : srv.name = srv0.name ∧ srv.ty = srv0.ty ∧ srv.configured = srv0.configured) (hc : srv0.configured = true)
    (h : xqFinish st i c cli srv = .ok d) : KeepT c d := by
  rw [xqFinish_eq] at h
  refine KeepT.trans ?_ (gate_keep st _ _ h)
  unfold xqFinishPre
  dsimp only
  have h1 := keep_set c i (f := { srv with refs := srv.refs - 1 }) hg hf
  have hl := getSvc_some_lt hg
  have un : (if ({ srv with refs := srv.refs - 1 } : Svc).refs == 0 then
        unrefSvc { c with svcs := setSvc c.svcs i (some { srv with refs := srv.refs - 1 }) } i
      else { c with svcs := setSvc c.svcs i (some { srv with refs := srv.refs - 1 }) }) =
      { c with svcs := setSvc c.svcs i (some { srv with refs := srv.refs - 1 }) } := by
    split
    · unfold unrefSvc
      dsimp only
      rw [getSvc_set_self c.svcs i _ hl]
      simp [hf.2.2, hc]
    · rfl
  rw [un]
  split
  · exact (h1.trans (keep_upd _ _)).trans (keep_upd _ _)
  · exact h1.trans (keep_upd _ _)

theorem xqVouch_keep (c : Ctx) (cli : XqCli) (stamp : Bytes) : KeepT c (xqVouch c cli stamp) := by
  unfold xqVouch
  dsimp only
  split <;> split <;> exact ⟨rfl, rfl, rfl⟩

theorem xqReply_keep (st : Static) (c d : Ctx) (service : Bytes) (reply : Option Bytes) (hc : AllConf c.svcs)
    (h : xqReply st c service reply = .ok d) : KeepT c d := by
  unfold xqReply at h
  cases hx : c.req.xq with
  | none => rw [hx] at h; simp only [pure, Except.pure, Except.ok.injEq] at h; subst h; exact KeepT.refl c
  | some cli =>
    rw [hx] at h
    dsimp only at h
    cases hf : findRefSlot c.svcs cli service with
    | none => rw [hf] at h; simp only [pure, Except.pure, Except.ok.injEq] at h; subst h; exact KeepT.refl c
    | some v =>
      obtain ⟨i, srv⟩ := v
      rw [hf] at h
      dsimp only at h
      have hg : getSvc c.svcs i = some srv := findRefSlot_get hf
      have hcf : srv.configured = true := hc.get hg
      have fin : ∀ (c1 : Ctx) (xc : XqCli) (f : Svc), xqFinish st i c1 xc f = .ok d → KeepT c c1 → c1.svcs = c.svcs →
          (f.name = srv.name ∧ f.ty = srv.ty ∧ f.configured = srv.configured) → KeepT c d := by
        intro c1 xc f hx1 k es hff
        exact k.trans (xqFinish_keep st i c1 d xc f srv (by rw [es]; exact hg) hff hcf hx1)
      cases reply with
      | none =>
        dsimp only at h
        refine fin _ _ _ h ?_ ?_ ?_
        · split <;> exact ⟨rfl, rfl, rfl⟩
        · split <;> rfl
        · exact ⟨rfl, rfl, rfl⟩
      | some rep =>
        dsimp only at h
        cases ho : okStamp rep with
        | some o =>
          rw [ho] at h
          cases o with
          | none => exact fin _ _ _ h (KeepT.refl c) rfl ⟨rfl, rfl, rfl⟩
          | some stamp =>
            dsimp only at h
            split at h
            · refine fin _ _ _ h (xqVouch_keep c _ stamp) ?_ ⟨rfl, rfl, rfl⟩
              unfold xqVouch
              dsimp only
              split <;> split <;> rfl
            · exact fin _ _ _ h (KeepT.refl c) rfl ⟨rfl, rfl, rfl⟩
        | none =>
          rw [ho] at h
          dsimp only at h
          split at h
          · refine KeepT.trans ?_ (kill_keep _ _ _ h)
            exact keep_set c i (srv := srv) hg ⟨rfl, rfl, rfl⟩
          · split at h
            · exact fin _ _ _ h (keep_emit c _) rfl ⟨rfl, rfl, rfl⟩
            · split at h
              · exact fin _ _ _ h (keep_emit c _) rfl ⟨rfl, rfl, rfl⟩
              · simp only [pure, Except.pure, Except.ok.injEq] at h; subst h; exact KeepT.refl c

theorem fieldChange_keep (st : Static) (p : Bool) (c : Ctx) : KeepT c (fieldChange st p c) := by
  unfold fieldChange
  split
  · exact xqCheck_keep p c
  · exact KeepT.refl c

theorem reqEvent_keep (st : Static) (c d : Ctx) (ev : Ev) (h : reqEvent st c ev = .ok d) : KeepT c d := by
  have gf : ∀ c1, KeepT c c1 → gate st (fieldChange st false c1) = .ok d → KeepT c d :=
    fun c1 k hx => (k.trans (fieldChange_keep st false c1)).trans (gate_keep st _ _ hx)
  cases ev with
  | hostname hn =>
    simp only [reqEvent] at h
    split at h
    · simp only [pure, Except.pure, Except.ok.injEq] at h; subst h; exact KeepT.refl c
    · split at h
      · cases h
      · exact gf _ (keep_upd c _) h
  | noHostname => simp only [reqEvent] at h; exact gf _ (keep_upd c _) h
  | password p =>
    simp only [reqEvent, bind, Except.bind] at h
    split at h
    · split at h
      · cases h
      · rename_i c1 hx
        exact ((keep_upd c _).trans (xqPassword_keep _ _ _ hx)).trans (gate_keep st _ _ h)
    · simp only [pure, Except.pure] at h
      exact (keep_upd c _).trans (gate_keep st _ _ h)
  | userInfo u r => simp only [reqEvent] at h; exact gf _ (keep_upd c _) h
  | ident i => simp only [reqEvent] at h; exact gf _ (keep_upd c _) h
  | nick nn =>
    simp only [reqEvent] at h
    split at h
    · cases h
    · exact gf _ (keep_upd c _) h
  | hurry => simp only [reqEvent] at h; exact gf _ (keep_upd c _) h
  | timeout => simp only [reqEvent] at h; exact (keep_upd c _).trans (gate_keep st _ _ h)

end Iauthd.Proto
